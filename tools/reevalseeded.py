#!/usr/bin/env python3
"""Record re-evaluations of earlier seeds (tools/evalseed.py … --skip-confirm output in /tmp/s5/re/<id>.json): append the
evaluation to seeded/<id>/meta.json and bring the 'now' and 'how it is caught' columns of seeded/INDEX.md up to date."""
import glob, json, os, re
OUT = '/verif/seeded'
idx = os.path.join(OUT, 'INDEX.md')
lines = open(idx).read().split('\n')
n_upd = 0
for f in sorted(glob.glob('/tmp/s5/re/*.json')):
    sid = os.path.basename(f)[:-5]
    try:
        r = json.load(open(f))
    except Exception:
        continue
    if not r.get('patch_applies') or not r.get('checks'):
        print('skipped', sid, r.get('error', '')[:100])
        continue
    mp = os.path.join(OUT, sid, 'meta.json')
    meta = json.load(open(mp))
    for cp, c in r['checks'].items():
        ev = dict(check=cp, verif_commit=r.get('verif_commit'), tier=r.get('tier'), detected=c['detected'],
                  with_failing_input=c['with_input'], violation_line=c.get('line', ''), wall_s=c.get('wall'))
        if not any(e.get('verif_commit') == ev['verif_commit'] and e.get('check') == cp for e in meta['evaluations']):
            meta['evaluations'].append(ev)
        rp = c.get('replay') if isinstance(c.get('replay'), dict) else {}
        what = (rp.get('message') or '; '.join(rp.get('no_longer_checks', []) or []) or '')[:160]
        what = ''.join(ch if (ch.isprintable() and ord(ch) < 128) else '?' for ch in what).replace('|', '/').replace('\n', ' ')
        st = 'missed' if not c['detected'] else ('input' if c['with_input'] else 'tie') + ' @' + str(r.get('verif_commit'))
        for i, l in enumerate(lines):
            if l.startswith('| %s |' % sid):
                cols = l.split('|')
                cols[4] = ' %s ' % st
                cols[5] = ' %s ' % what
                lines[i] = '|'.join(cols[:6]) + '|'
                n_upd += 1
    json.dump(meta, open(mp, 'w'), indent=1)
rows = [l.split('|') for l in lines if l.startswith('| C')]
n = len(rows)
det = sum(1 for c in rows if not c[4].strip().startswith('missed'))
inp = sum(1 for c in rows if c[4].strip().startswith('input'))
lines = [l for l in lines if not re.match(r'^\d+ seeds;', l)]
while lines and not lines[-1].strip():
    lines.pop()
open(idx, 'w').write('\n'.join(lines) + '\n\n%d seeds; caught now: %d (with a concrete failing input: %d); missed: %d\n' % (n, det, inp, n - det))
print('updated rows:', n_upd, 'total', n, 'caught', det, 'with input', inp)
