#!/usr/bin/env python3
"""Fifth seeding round: add /verif/seeded/<id>/ (patch.diff, demo_test.go, meta.json) for the deliveries in
/tmp/s5/out/Cxx/{a,b}/ (patch.diff, demo_test.go, notes.json) with the evaluations tools/evalseed.py wrote to
/tmp/s5/eval*/Cxx-{a,b}.json (directories in order: the first is the evaluation with the checks as they were when the
seed arrived), and merge their rows into seeded/INDEX.md (rows of earlier rounds are kept as they are)."""
import glob, json, os, re, shutil
OUT = '/verif/seeded'
NUM = {'a': 9, 'b': 10}
EVALS = sorted(glob.glob('/tmp/s5/eval*'))
new_rows = {}
for d in sorted(glob.glob('/tmp/s5/out/C*/[ab]')):
    prop = os.path.basename(os.path.dirname(d)); l = os.path.basename(d)
    if not os.path.exists(os.path.join(d, 'patch.diff')):
        continue
    sid = '%s-%d' % (prop, NUM[l])
    try:
        am = json.load(open(os.path.join(d, 'notes.json')))
    except Exception:
        am = {}
    confirm, history = {}, []
    for ev in EVALS:
        f = os.path.join(ev, '%s-%s.json' % (prop, l))
        try:
            r = json.load(open(f))
        except Exception:
            continue
        for k in ('demo_passes_clean', 'patch_applies', 'demo_fails_mutated', 'builds_with_hooks', 'suite_passes_mutated'):
            if k in r:
                confirm[k] = r[k]
        for cp, c in (r.get('checks') or {}).items():
            history.append(dict(check=cp, verif_commit=r.get('verif_commit'), tier=r.get('tier'), detected=c['detected'],
                                with_failing_input=c['with_input'], violation_line=c.get('line', ''), wall_s=c.get('wall'),
                                replay=(c.get('replay') or {}) if isinstance(c.get('replay'), dict) else {}))
    if not history or not all(confirm.get(k) for k in ('demo_passes_clean', 'patch_applies', 'demo_fails_mutated', 'builds_with_hooks', 'suite_passes_mutated')):
        print('skipped (not confirmed or not evaluated):', sid, confirm)
        continue
    dst = os.path.join(OUT, sid)
    os.makedirs(dst, exist_ok=True)
    shutil.copy(os.path.join(d, 'patch.diff'), os.path.join(dst, 'patch.diff'))
    shutil.copy(os.path.join(d, 'demo_test.go'), os.path.join(dst, 'demo_test.go'))
    meta = dict(id=sid, breaks_property=prop, summary=am.get('summary'), file=am.get('file'), function=am.get('function'),
                needs_to_manifest=am.get('needs_to_manifest'), example_input=am.get('example_input'), expected=am.get('expected'),
                actual_with_change=am.get('actual_with_change'),
                origin='fifth round: written by a fresh sub-agent that was given only the text of the property, a scratch worktree of /repo '
                       '(nothing from /verif) and one line naming the functions the earlier changes for this property had touched, and was '
                       'asked for changes elsewhere that need something specific to manifest',
                confirmed_by_us=confirm,
                what_we_ran=['scratch worktree of /repo HEAD; cp demo_test.go; go test -run TestSeedDemo . (passes)',
                             'git apply patch.diff; go test -run TestSeedDemo . (fails); go build -tags verif ./...; go test -vet=off -count=1 ./... (passes)',
                             'VERIF_REPO=<scratch worktree> ./check <property> --tier quick in a clone of /verif at the listed commit (tools/evalseed.py)'],
                evaluations=[{k: v for k, v in h.items() if k != 'replay'} for h in history])
    json.dump(meta, open(os.path.join(dst, 'meta.json'), 'w'), indent=1)
    first, last = history[0], history[-1]
    what = ''
    if last['detected']:
        rp = last.get('replay') or {}
        what = (rp.get('message') or '; '.join(rp.get('no_longer_checks', []) or []) or '')[:160]
        what = ''.join(ch if (ch.isprintable() and ord(ch) < 128) else '?' for ch in what)

    def st(h):
        if not h['detected']:
            return 'missed'
        return ('input' if h['with_failing_input'] else 'tie') + ' @' + str(h['verif_commit'])
    summ = ''.join(ch if (ch.isprintable() and ord(ch) < 128) else '?' for ch in (am.get('summary') or ''))[:110]
    new_rows[sid] = '| %s | %s | %s | %s | %s |' % (sid, summ.replace('|', '/'), st(first), st(last), what.replace('|', '/').replace('\n', ' '))

idx = os.path.join(OUT, 'INDEX.md')
lines = open(idx).read().split('\n')
head = [l for l in lines if not l.startswith('| C') and not re.match(r'^\d+ seeds;', l)]
while head and not head[-1].strip():
    head.pop()
rows = {l.split('|')[1].strip(): l for l in lines if l.startswith('| C')}
rows.update(new_rows)


def key(s):
    p, n = s.split('-')
    return (p, int(n))
body = [rows[k] for k in sorted(rows, key=key)]
n = len(body)
cols = [r.split('|') for r in body]
det = sum(1 for c in cols if not c[4].strip().startswith('missed'))
inp = sum(1 for c in cols if c[4].strip().startswith('input'))
open(idx, 'w').write('\n'.join(head + body) + '\n\n%d seeds; caught now: %d (with a concrete failing input: %d); missed: %d\n' % (n, det, inp, n - det))
print('seeded rows:', n, 'new/updated:', len(new_rows))
