#!/usr/bin/env python3
"""Confirm a seeded change and run the property's check against it, in scratch copies.

  tools/evalseed.py <patch.diff> <demo_test.go> <property> <slot> [--tier quick|thorough] [--props C01,C19] [--skip-confirm]

Nothing is done in /repo or /verif themselves: <slot> names a scratch pair
  /tmp/vrepo-<slot>   git worktree of /repo's HEAD (created and removed here)
  /tmp/veval-<slot>   copy of /verif as committed plus its build output (created on first use, kept for re-use)
The patch is applied to the scratch worktree and the checks run with VERIF_REPO pointing at it — the same
commands MANIFEST.json registers, only against the patched copy, so several seeds can be evaluated in parallel
without disturbing /verif/lean/.lake.

Steps: demo passes on the clean tree; patch applies; package builds (also with -tags verif); the existing
suite passes with the patch; the demo fails with the patch; ./check <prop> reports VIOLATION. Prints a JSON summary.
"""
import json, os, subprocess, sys, shutil, time
ENV = dict(os.environ, GOFLAGS='-mod=mod', GOPROXY='off', GOSUMDB='off', GOTOOLCHAIN='local')


def sh(cmd, cwd=None, timeout=6000, env=None):
    p = subprocess.run(cmd, cwd=cwd, env=env or ENV, stdout=subprocess.PIPE, stderr=subprocess.STDOUT, text=True, timeout=timeout)
    return p.returncode, p.stdout


def main():
    patch, demo, prop, slot = sys.argv[1:5]
    patch, demo = os.path.abspath(patch), os.path.abspath(demo)
    tier = sys.argv[sys.argv.index('--tier') + 1] if '--tier' in sys.argv else 'quick'
    props = sys.argv[sys.argv.index('--props') + 1].split(',') if '--props' in sys.argv else [prop]
    repo = '/tmp/vrepo-' + slot
    veval = '/tmp/veval-' + slot
    res = dict(patch=patch, property=prop, tier=tier)
    sh(['git', '-C', '/repo', 'worktree', 'remove', '--force', repo])
    shutil.rmtree(repo, ignore_errors=True)
    rc, out = sh(['git', '-C', '/repo', 'worktree', 'add', '-f', '--detach', repo, 'HEAD'])
    if rc != 0:
        print(out)
        return 2
    try:
        demo_dst = os.path.join(repo, 'zz_seed_demo_test.go')
        if '--skip-confirm' not in sys.argv:
            shutil.copy(demo, demo_dst)
            rc, out = sh(['go', 'test', '-vet=off', '-count=1', '-run', 'TestSeedDemo', '.'], cwd=repo)
            res['demo_passes_clean'] = rc == 0
            if rc != 0:
                res['demo_clean_output'] = out[-800:]
        rc, out = sh(['git', 'apply', patch], cwd=repo)
        res['patch_applies'] = rc == 0
        if rc != 0:
            res['error'] = out[-500:]
            print(json.dumps(res, indent=1))
            return 1
        if '--skip-confirm' not in sys.argv:
            rc, out = sh(['go', 'test', '-vet=off', '-count=1', '-run', 'TestSeedDemo', '.'], cwd=repo)
            res['demo_fails_mutated'] = rc != 0
            res['demo_output'] = out[-600:]
            os.remove(demo_dst)
            rc, out = sh(['go', 'build', '-tags', 'verif', './...'], cwd=repo)
            res['builds_with_hooks'] = rc == 0
            rc, out = sh(['go', 'test', '-vet=off', '-count=1', './...'], cwd=repo)
            res['suite_passes_mutated'] = rc == 0
            if rc != 0:
                res['suite_output'] = out[-800:]
        # evaluation copy of /verif: the committed state (clone) plus the build output
        if not os.path.exists(veval):
            sh(['git', 'clone', '-q', '/verif', veval])
            sh(['rsync', '-a', '/verif/lean/.lake', veval + '/lean/'])
            sh(['rsync', '-a', '/verif/bin', veval + '/'])
        else:
            sh(['git', '-C', veval, 'checkout', '--', '.'])
            sh(['git', '-C', veval, 'pull', '-q', '--ff-only'])
        res['verif_commit'] = sh(['git', '-C', veval, 'rev-parse', '--short', 'HEAD'])[1].strip()
        res['checks'] = {}
        for p in props:
            t0 = time.time()
            rc, out = sh([os.path.join(veval, 'check'), p, '--tier', tier], cwd=veval, env=dict(ENV, VERIF_REPO=repo))
            viol = [l for l in out.split('\n') if l.startswith('VIOLATION')]
            d = dict(rc=rc, detected=bool(viol), line=viol[0] if viol else '', wall=round(time.time() - t0),
                     with_input=bool(viol) and 'no-failing-input-found' not in viol[0], tail=out[-400:])
            if viol:
                path = viol[0].split('replay=')[1].split()[0]
                try:
                    rp = json.load(open(path))
                    d['replay'] = {k: (v if len(json.dumps(v)) < 1500 else json.dumps(v)[:1500]) for k, v in rp.items()}
                except Exception as e:  # noqa
                    d['replay'] = str(e)
            res['checks'][p] = d
    finally:
        sh(['git', '-C', '/repo', 'worktree', 'remove', '--force', repo])
        shutil.rmtree(repo, ignore_errors=True)
        # restore the generated model of the evaluation copy to the committed one
        sh(['git', '-C', veval, 'checkout', '--', 'lean/D128/Gen', 'harness/go.mod'])
    print(json.dumps(res, indent=1))
    return 0


if __name__ == '__main__':
    sys.exit(main())
