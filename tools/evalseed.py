#!/usr/bin/env python3
"""Confirm a seeded change and run the property's check against it.

  tools/evalseed.py <dir with patch.diff, demo_test.go, meta.json> [--tier quick|thorough] [--props C01,C19]

Steps (all in /repo, undone afterwards): demo passes on the clean tree; patch applies; existing suite
passes with the patch; demo fails with the patch; ./check <prop> reports VIOLATION. Prints a JSON summary.
"""
import json, os, subprocess, sys, shutil, time
REPO = '/repo'
ENV = dict(os.environ, GOFLAGS='-mod=mod', GOPROXY='off', GOSUMDB='off', GOTOOLCHAIN='local')

def sh(cmd, cwd=None, timeout=3000):
    p = subprocess.run(cmd, cwd=cwd, env=ENV, stdout=subprocess.PIPE, stderr=subprocess.STDOUT, text=True, timeout=timeout)
    return p.returncode, p.stdout

def clean():
    sh(['git', 'checkout', '--', '.'], cwd=REPO)
    for f in ('zz_seeded_test.go',):
        if os.path.exists(os.path.join(REPO, f)):
            os.remove(os.path.join(REPO, f))

def main():
    d = sys.argv[1]
    tier = 'quick'
    if '--tier' in sys.argv:
        tier = sys.argv[sys.argv.index('--tier') + 1]
    meta = json.load(open(os.path.join(d, 'meta.json')))
    props = [meta['property']]
    if '--props' in sys.argv:
        props = sys.argv[sys.argv.index('--props') + 1].split(',')
    res = dict(dir=d, property=meta['property'], summary=meta.get('summary'))
    rc, out = sh(['git', 'status', '--short'], cwd=REPO)
    if out.strip():
        print('repo not clean:', out)
        return 2
    try:
        shutil.copy(os.path.join(d, 'demo_test.go'), os.path.join(REPO, 'zz_seeded_test.go'))
        rc, out = sh(['go', 'test', '-vet=off', '-count=1', '-run', 'TestSeeded', '.'], cwd=REPO)
        res['demo_passes_clean'] = rc == 0
        rc, out = sh(['git', 'apply', os.path.join(os.path.abspath(d), 'patch.diff')], cwd=REPO)
        res['patch_applies'] = rc == 0
        if rc != 0:
            res['error'] = out[-500:]
            return 1
        rc, out = sh(['go', 'test', '-vet=off', '-count=1', '-run', 'TestSeeded', '.'], cwd=REPO)
        res['demo_fails_mutated'] = rc != 0
        os.remove(os.path.join(REPO, 'zz_seeded_test.go'))
        rc, out = sh(['go', 'test', '-vet=off', '-count=1', './...'], cwd=REPO)
        res['suite_passes_mutated'] = rc == 0
        res['checks'] = {}
        for p in props:
            t0 = time.time()
            rc, out = sh(['/verif/check', p, '--tier', tier], cwd='/verif')
            viol = [l for l in out.split('\n') if l.startswith('VIOLATION')]
            res['checks'][p] = dict(rc=rc, detected=bool(viol), line=viol[0] if viol else '', wall=round(time.time() - t0),
                                    with_input=bool(viol) and 'no-failing-input-found' not in viol[0])
    finally:
        clean()
    print(json.dumps(res, indent=1))
    return 0

if __name__ == '__main__':
    sys.exit(main())
