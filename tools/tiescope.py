#!/usr/bin/env python3
"""Tie scope per property: which generated functions reachable from the property's observed entry points are NOT in
the dependency closure of any property theorem configured for that property (such a function is tied to the code
only by the differential run).  Usage: tools/tiescope.py [Cxx …]   (needs the proof modules built)"""
import json, re, subprocess, sys, os
ROOT = os.path.dirname(os.path.dirname(os.path.abspath(__file__)))
sys.path.insert(0, ROOT)
import check_config as cc
props = {json.loads(l)['id']: json.loads(l) for l in open(os.path.join(ROOT, 'properties.jsonl'))}
argv = sys.argv[1:]
def opt(name, default):
    if name in argv:
        i = argv.index(name); v = argv[i + 1]; del argv[i:i + 2]; return v
    return default
JOBS = int(opt('--jobs', '1'))
KEY = opt('--key', '')
want = argv or sorted(props)
out = {}
def scope(pid):
    mods = [m for m in cc.PROPS[pid]['modules'] if m.startswith('D128.Props.')] if isinstance(cc.PROPS[pid], dict) else [m for m in cc.PROPS[pid].modules if m.startswith('D128.Props.')]
    genmods = sorted('D128.Gen.' + f[:-5] for f in os.listdir(os.path.join(ROOT, 'lean/D128/Gen')) if f.endswith('.lean'))
    r = subprocess.run(['lake', 'env', 'lean', '--run', 'Audit/GenDeps.lean'] + mods + genmods, cwd=os.path.join(ROOT, 'lean'), capture_output=True, text=True)
    deps, calls = set(), {}
    for l in r.stdout.split('\n'):
        m = re.match(r'GENDEPS (\S+) (\S+) \[(.*)\]', l)
        if m:
            deps |= set(x for x in m.group(3).split(',') if x)
        m = re.match(r'CALLS (\S+) \[(.*)\]', l)
        if m:
            calls[m.group(1)] = [x for x in m.group(2).split(',') if x]
    fns = {c for c in calls}
    # entry points: observe_at names mapped onto generated names (also the _-suffixed variants the translator uses)
    entries = set()
    for o in props[pid]['anchors']['observe_at']:
        if 'exported' in o:   # "all exported operations": every generated function with an exported Go name
            entries |= {f for f in fns if f.split('.')[-1][:1].isupper() and f.split('.')[-1].rstrip('_').isalnum() and not re.match(r'Gen\.(U\d+|Go)\.', f)}
            continue
        base = o.split(' ')[0]
        for cand in ('Gen.' + base, 'Gen.' + base + '_', 'Gen.Decimal.' + base):
            if cand in fns:
                entries.add(cand)
    seen, todo = set(), list(entries)
    while todo:
        f = todo.pop()
        if f in seen:
            continue
        seen.add(f)
        todo += [g for g in calls.get(f, []) if g in fns]
    def isfn(f):
        return not re.search(r'\.(mk|rec|casesOn|noConfusion|noConfusionType|default|decEq|sizeOf_spec|injEq|inj|ctorIdx|toCtorIdx|ofNat|recOn)$|inst[A-Z]|\.match_|\._', f)
    reach = {f for f in seen if isfn(f)}
    gap = sorted(reach - deps)
    print(pid, 'entries', len(entries), 'reachable', len(reach), 'in theorems', len(reach & deps), 'NOT in theorems:', gap, flush=True)
    return pid, dict(entry_points=len(entries), reachable_generated_functions=len(reach), in_property_theorems=len(reach & deps), not_in_property_theorems=gap)
from concurrent.futures import ThreadPoolExecutor
with ThreadPoolExecutor(JOBS) as ex:
    for pid, d in ex.map(scope, want):
        out[pid] = d
os.makedirs(os.path.join(os.path.dirname(os.path.dirname(os.path.abspath(__file__))), 'work'), exist_ok=True)
json.dump(dict(key=KEY, scope=out), open(os.path.join(os.path.dirname(os.path.dirname(os.path.abspath(__file__))), 'work', 'tiescope.json'), 'w'), indent=1)
