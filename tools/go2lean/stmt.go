package main

import (
	"fmt"
	"go/ast"
	"go/constant"
	"go/token"
	"go/types"
	"strings"
)

func zeroOf(t types.Type) string {
	lt := leanType(t)
	switch {
	case lt == "Bool":
		return "false"
	case lt == "Go.Bytes":
		return "(#[] : Go.Bytes)"
	case lt == "Go.Err":
		return "Go.Err.nil"
	case lt == "Go.BigInt" || lt == "Go.BigRat":
		return "(0 : " + lt + ")" // a nil pointer: never read (analyseBig checks definite assignment)
	case lt == "Go.BigFloat":
		return "Go.BigFloat.new" // a nil pointer: never read (analyseBig checks definite assignment)
	case lt == "Go.BigWords":
		return "(#[] : Go.BigWords)"
	case isIntLean(lt):
		return "(0 : " + lt + ")"
	}
	return "(default : " + lt + ")"
}

func (e *em) flush(ind string, out *[]string) {
	for _, p := range e.pre {
		// a hoisted function literal (fmtstate.go) spans several lines
		*out = append(*out, ind+strings.ReplaceAll(p, "\n", "\n"+ind))
	}
	e.pre = nil
}

func (e *em) block(stmts []ast.Stmt, ind string) []string {
	var out []string
	for _, s := range stmts {
		out = append(out, e.stmt(s, ind)...)
	}
	if len(out) == 0 {
		out = append(out, ind+"pure ()")
	}
	return out
}

func rootIdent(x ast.Expr) *ast.Ident {
	for {
		switch y := x.(type) {
		case *ast.Ident:
			return y
		case *ast.SelectorExpr:
			x = y.X
		case *ast.IndexExpr:
			x = y.X
		case *ast.StarExpr:
			x = y.X
		case *ast.ParenExpr:
			x = y.X
		default:
			return nil
		}
	}
}

func (e *em) assignTo(lhs ast.Expr, val string, ind string, out *[]string) {
	switch l := lhs.(type) {
	case *ast.ParenExpr:
		e.assignTo(l.X, val, ind, out)
	case *ast.Ident:
		if l.Name == "_" {
			return
		}
		obj := T.info.Uses[l]
		if obj == nil {
			obj = T.info.Defs[l]
		}
		n, ok := e.names[obj]
		if !ok {
			e.fail(l, "assignment to unknown %s", l.Name)
		}
		*out = append(*out, ind+n+" := "+val)
	case *ast.StarExpr:
		e.assignTo(l.X, val, ind, out)
	case *ast.SelectorExpr:
		base := e.expr(l.X)
		e.flush(ind, out)
		e.assignTo(l.X, "{ "+base+" with "+safeIdent(l.Sel.Name)+" := "+val+" }", ind, out)
	case *ast.IndexExpr:
		xt := T.info.Types[l.X].Type
		if p, ok := xt.(*types.Pointer); ok {
			xt = p.Elem()
		}
		base := e.expr(l.X)
		if _, ok := isMultiWord(xt); ok {
			k, _ := constant.Int64Val(constant.ToInt(T.info.Types[l.Index].Value))
			e.flush(ind, out)
			e.assignTo(l.X, fmt.Sprintf("{ %s with w%d := %s }", base, k, val), ind, out)
			return
		}
		if _, ok := under(xt).(*types.Array); ok {
			t := e.fresh("t")
			e.pre = append(e.pre, fmt.Sprintf("let %s ← Go.vset %s %s %s", t, paren(base), e.intTerm(l.Index), paren(val)))
			e.flush(ind, out)
			e.assignTo(l.X, t, ind, out)
			return
		}
		if isBytesLike(xt) {
			t := e.fresh("t")
			e.pre = append(e.pre, fmt.Sprintf("let %s ← Go.bset %s %s %s", t, paren(base), e.intTerm(l.Index), paren(val)))
			e.flush(ind, out)
			e.assignTo(l.X, t, ind, out)
			return
		}
		e.fail(l, "indexed assignment into %v", xt)
	default:
		e.fail(lhs, "assignment target %T", lhs)
	}
}

func (e *em) defineOrAssign(lhs ast.Expr, val string, ind string, out *[]string) {
	if id, ok := lhs.(*ast.Ident); ok && id.Name != "_" {
		if obj := T.info.Defs[id]; obj != nil {
			n := e.declare(obj)
			*out = append(*out, fmt.Sprintf("%slet mut %s : %s := %s", ind, n, leanType(obj.Type()), val))
			return
		}
	}
	e.assignTo(lhs, val, ind, out)
}

var opAssign = map[token.Token]token.Token{
	token.ADD_ASSIGN: token.ADD, token.SUB_ASSIGN: token.SUB, token.MUL_ASSIGN: token.MUL,
	token.QUO_ASSIGN: token.QUO, token.REM_ASSIGN: token.REM, token.AND_ASSIGN: token.AND,
	token.OR_ASSIGN: token.OR, token.XOR_ASSIGN: token.XOR, token.SHL_ASSIGN: token.SHL,
	token.SHR_ASSIGN: token.SHR, token.AND_NOT_ASSIGN: token.AND_NOT,
}

// callStmt handles a call whose results are bound to lhs (possibly none), including in-out arguments.
func (e *em) callStmt(x *ast.CallExpr, lhs []ast.Expr, define bool, ind string, out *[]string) {
	C, args, inouts := e.callParts(x)
	c := C.name
	if len(args) > 0 {
		c += " " + strings.Join(args, " ")
	}
	nres := C.obj.Type().(*types.Signature).Results().Len()
	total := len(inouts) + nres
	e.flush(ind, out)
	bind := "←"
	if !C.monadic {
		bind = ":="
	}
	if total == 0 {
		if C.monadic {
			*out = append(*out, ind+"let _ ← "+c)
		}
		return
	}
	var temps []string
	for i := 0; i < total; i++ {
		temps = append(temps, e.fresh("r"))
	}
	pat := temps[0]
	if total > 1 {
		pat = "(" + strings.Join(temps, ", ") + ")"
	}
	*out = append(*out, fmt.Sprintf("%slet %s %s %s", ind, pat, bind, c))
	for i, io := range inouts {
		e.assignTo(io, temps[i], ind, out)
	}
	for i, l := range lhs {
		if define {
			e.defineOrAssign(l, temps[len(inouts)+i], ind, out)
		} else {
			e.assignTo(l, temps[len(inouts)+i], ind, out)
		}
	}
}

func isPkgCall(x ast.Expr) (*ast.CallExpr, bool) {
	c, ok := x.(*ast.CallExpr)
	if !ok {
		return nil, false
	}
	if tv, ok := T.info.Types[c.Fun]; ok && tv.IsType() {
		return nil, false
	}
	switch f := c.Fun.(type) {
	case *ast.Ident:
		if fo, ok := T.info.Uses[f].(*types.Func); ok && fo.Pkg() == T.pkg {
			return c, true
		}
	case *ast.SelectorExpr:
		if sel, ok := T.info.Selections[f]; ok {
			if m, ok := sel.Obj().(*types.Func); ok && m.Pkg() == T.pkg {
				return c, true
			}
		}
	}
	return nil, false
}

func (e *em) stmt(s ast.Stmt, ind string) []string {
	var out []string
	switch s := s.(type) {
	case *ast.EmptyStmt:
	case *ast.BlockStmt:
		out = append(out, ind+"do")
		out = append(out, e.block(s.List, ind+"  ")...)
	case *ast.LabeledStmt:
		if f, ok := s.Stmt.(*ast.ForStmt); ok {
			return e.forStmt(f, s.Label.Name, ind)
		}
		e.fail(s, "label on non-loop")
	case *ast.DeclStmt:
		gd := s.Decl.(*ast.GenDecl)
		if gd.Tok == token.CONST {
			return out
		}
		if gd.Tok != token.VAR {
			e.fail(s, "local %s declaration", gd.Tok)
		}
		for _, sp := range gd.Specs {
			vs := sp.(*ast.ValueSpec)
			for i, n := range vs.Names {
				obj := T.info.Defs[n]
				val := zeroOf(obj.Type())
				if len(vs.Values) == len(vs.Names) {
					val = e.expr(vs.Values[i])
					e.flush(ind, &out)
				} else if len(vs.Values) != 0 {
					e.fail(s, "multi-value var")
				}
				if n.Name == "_" {
					continue
				}
				name := e.declare(obj)
				out = append(out, fmt.Sprintf("%slet mut %s : %s := %s", ind, name, leanType(obj.Type()), val))
			}
		}
	case *ast.IncDecStmt:
		t := T.info.Types[s.X].Type
		cur := e.expr(s.X)
		op := " + "
		if s.Tok == token.DEC {
			op = " - "
		}
		e.flush(ind, &out)
		e.assignTo(s.X, "("+cur+op+"(1 : "+leanType(t)+"))", ind, &out)
	case *ast.AssignStmt:
		e.assign(s, ind, &out)
	case *ast.ExprStmt:
		call, ok := s.X.(*ast.CallExpr)
		if !ok {
			e.fail(s, "expression statement")
		}
		if id, ok := call.Fun.(*ast.Ident); ok {
			if b, ok := T.info.Uses[id].(*types.Builtin); ok && b.Name() == "panic" {
				msg := "\"panic\""
				if tv := T.info.Types[call.Args[0]]; tv.Value != nil && tv.Value.Kind() == constant.String {
					msg = fmt.Sprintf("%q", constant.StringVal(tv.Value))
				}
				out = append(out, ind+"throw (Go.Panic.explicit "+msg+")")
				return out
			}
		}
		if c, ok := isPkgCall(call); ok {
			e.callStmt(c, nil, false, ind, &out)
			return out
		}
		if c, ok := isBuiltinCall(call, "copy"); ok {
			e.copyStmt(c, ind, &out)
			return out
		}
		if e.bigStmt(call, ind, &out) {
			return out
		}
		if e.fmtStmt(call, nil, false, ind, &out) {
			return out
		}
		if _, ok := e.foreignCall(call); ok {
			e.flush(ind, &out)
			return out
		}
		e.fail(s, "unsupported call statement")
	case *ast.ReturnStmt:
		e.ret(s, ind, &out)
	case *ast.IfStmt:
		if v, ok := nilDefaultIdiom(s); ok && e.F.bigNilDefaulted(v) {
			// `if p == nil { p = new(T) }`: a nil argument is represented by the value 0, which
			// is the value of new(T); the statement is the identity on the value of p
			return out
		}
		if s.Init != nil {
			out = append(out, e.stmt(s.Init, ind)...)
		}
		cond := e.expr(s.Cond)
		e.flush(ind, &out)
		out = append(out, ind+"if "+cond+" then")
		out = append(out, e.block(s.Body.List, ind+"  ")...)
		if s.Else != nil {
			out = append(out, ind+"else")
			switch el := s.Else.(type) {
			case *ast.BlockStmt:
				out = append(out, e.block(el.List, ind+"  ")...)
			default:
				out = append(out, e.stmt(el, ind+"  ")...)
			}
		}
	case *ast.ForStmt:
		return e.forStmt(s, "", ind)
	case *ast.SwitchStmt:
		return e.switchStmt(s, ind)
	case *ast.TypeSwitchStmt:
		return e.typeSwitch(s, ind)
	case *ast.BranchStmt:
		switch s.Tok {
		case token.BREAK:
			if len(e.loops) == 0 {
				e.fail(s, "break outside loop")
			}
			top := e.loops[len(e.loops)-1]
			if s.Label != nil {
				if s.Label.Name != top.label {
					e.fail(s, "break to outer label")
				}
			} else if e.inSwitch > 0 {
				e.fail(s, "unlabelled break inside switch")
			}
			out = append(out, ind+"break")
		case token.CONTINUE:
			if len(e.loops) == 0 || s.Label != nil {
				e.fail(s, "continue")
			}
			top := e.loops[len(e.loops)-1]
			if top.post != nil {
				out = append(out, e.stmt(top.post, ind)...)
			}
			out = append(out, ind+"continue")
		default:
			e.fail(s, "branch %s", s.Tok)
		}
	default:
		e.fail(s, "statement %T", s)
	}
	return out
}

func (e *em) assign(s *ast.AssignStmt, ind string, out *[]string) {
	define := s.Tok == token.DEFINE
	if op, ok := opAssign[s.Tok]; ok {
		lt := T.info.Types[s.Lhs[0]].Type
		cur := e.expr(s.Lhs[0])
		var val string
		if op == token.SHL || op == token.SHR {
			val = e.shift(s, op, cur, s.Rhs[0])
		} else {
			val = e.binop(s, op, lt, cur, e.expr(s.Rhs[0]), s.Rhs[0])
		}
		e.flush(ind, out)
		e.assignTo(s.Lhs[0], val, ind, out)
		return
	}
	if len(s.Rhs) == 1 && len(s.Lhs) > 1 {
		// multi-value call
		if c, ok := isPkgCall(s.Rhs[0]); ok {
			e.callStmt(c, s.Lhs, define, ind, out)
			return
		}
		if c, ok := unparen(s.Rhs[0]).(*ast.CallExpr); ok && e.fmtStmt(c, s.Lhs, define, ind, out) {
			return
		}
		// bits.* etc: tuple-valued term
		term := e.expr(s.Rhs[0])
		e.flush(ind, out)
		var temps []string
		for range s.Lhs {
			temps = append(temps, e.fresh("r"))
		}
		*out = append(*out, fmt.Sprintf("%slet (%s) := %s", ind, strings.Join(temps, ", "), term))
		for i, l := range s.Lhs {
			if define {
				e.defineOrAssign(l, temps[i], ind, out)
			} else {
				e.assignTo(l, temps[i], ind, out)
			}
		}
		return
	}
	if len(s.Lhs) == 1 {
		if c, ok := isPkgCall(s.Rhs[0]); ok {
			C := T.funcs[calleeOf(c)]
			if C != nil && len(C.inout) > 0 {
				e.callStmt(c, s.Lhs, define, ind, out)
				return
			}
		}
		val := e.expr(s.Rhs[0])
		e.flush(ind, out)
		if define {
			e.defineOrAssign(s.Lhs[0], val, ind, out)
		} else {
			e.assignTo(s.Lhs[0], val, ind, out)
		}
		return
	}
	// parallel assignment: evaluate all right-hand sides first
	var temps []string
	for i, r := range s.Rhs {
		val := e.expr(r)
		e.flush(ind, out)
		t := e.fresh("v")
		*out = append(*out, fmt.Sprintf("%slet %s : %s := %s", ind, t, leanType(T.info.Types[s.Rhs[i]].Type), val))
		temps = append(temps, t)
	}
	for i, l := range s.Lhs {
		if define {
			e.defineOrAssign(l, temps[i], ind, out)
		} else {
			e.assignTo(l, temps[i], ind, out)
		}
	}
}

func calleeOf(c *ast.CallExpr) *types.Func {
	switch f := c.Fun.(type) {
	case *ast.Ident:
		if fo, ok := T.info.Uses[f].(*types.Func); ok {
			return fo.Origin()
		}
	case *ast.SelectorExpr:
		if sel, ok := T.info.Selections[f]; ok {
			if m, ok := sel.Obj().(*types.Func); ok {
				return m.Origin()
			}
		}
	}
	return nil
}

func (e *em) inoutTerms() []string {
	var r []string
	if e.closSig != nil {
		return nil // inside a function literal (fmtstate.go)
	}
	for _, v := range e.F.inout {
		r = append(r, e.names[v])
	}
	return r
}

func tuple(parts []string) string {
	switch len(parts) {
	case 0:
		return "()"
	case 1:
		return parts[0]
	}
	return "(" + strings.Join(parts, ", ") + ")"
}

func (e *em) ret(s *ast.ReturnStmt, ind string, out *[]string) {
	sig := e.closSig
	if sig == nil {
		sig = e.F.obj.Type().(*types.Signature)
	}
	nres := sig.Results().Len()
	parts := e.inoutTerms()
	if len(s.Results) == 1 && nres > 1 {
		term := e.expr(s.Results[0])
		e.flush(ind, out)
		if len(parts) == 0 {
			*out = append(*out, ind+"return "+term)
			return
		}
		var temps []string
		for i := 0; i < nres; i++ {
			temps = append(temps, e.fresh("r"))
		}
		*out = append(*out, fmt.Sprintf("%slet (%s) := %s", ind, strings.Join(temps, ", "), term))
		*out = append(*out, ind+"return "+tuple(append(parts, temps...)))
		return
	}
	if len(s.Results) != nres {
		e.fail(s, "named results / bare return")
	}
	for i, r := range s.Results {
		parts = append(parts, e.exprAs(r, sig.Results().At(i).Type()))
	}
	e.flush(ind, out)
	*out = append(*out, ind+"return "+tuple(parts))
}

func (e *em) forStmt(s *ast.ForStmt, label string, ind string) []string {
	var out []string
	if s.Init != nil {
		out = append(out, e.stmt(s.Init, ind)...)
	}
	saveSw := e.inSwitch
	e.inSwitch = 0
	e.loops = append(e.loops, loopCtx{post: s.Post, label: label})
	in2 := ind + "  "
	if s.Cond == nil {
		out = append(out, ind+"while true do")
	} else {
		cond, cpre := e.captured(func() string { return e.expr(s.Cond) })
		if len(cpre) == 0 {
			out = append(out, ind+"while "+cond+" do")
		} else {
			out = append(out, ind+"while true do")
			for _, p := range cpre {
				out = append(out, in2+p)
			}
			out = append(out, in2+"if !"+paren(cond)+" then break")
		}
	}
	body := e.block(s.Body.List, in2)
	out = append(out, body...)
	e.loops = e.loops[:len(e.loops)-1]
	if s.Post != nil {
		// post runs after the body; `continue` sites emit it themselves
		e.loops = append(e.loops, loopCtx{})
		out = append(out, e.stmt(s.Post, in2)...)
		e.loops = e.loops[:len(e.loops)-1]
	}
	e.inSwitch = saveSw
	return out
}

type clause struct {
	conds []ast.Expr
	body  []ast.Stmt
	isDef bool
	node  *ast.CaseClause
}

func (e *em) switchStmt(s *ast.SwitchStmt, ind string) []string {
	var out []string
	if s.Init != nil {
		out = append(out, e.stmt(s.Init, ind)...)
	}
	tag := ""
	if s.Tag != nil {
		if tv := T.info.Types[s.Tag]; tv.Value != nil && tv.Value.Kind() == constant.Bool && constant.BoolVal(tv.Value) {
			tag = ""
		} else {
			tag = e.expr(s.Tag)
			e.flush(ind, &out)
			if _, ok := s.Tag.(*ast.Ident); !ok {
				t := e.fresh("tag")
				out = append(out, fmt.Sprintf("%slet %s : %s := %s", ind, t, leanType(T.info.Types[s.Tag].Type), tag))
				tag = t
			}
		}
	}
	var cls []clause
	for _, c := range s.Body.List {
		cc := c.(*ast.CaseClause)
		cls = append(cls, clause{conds: cc.List, body: cc.Body, isDef: cc.List == nil, node: cc})
	}
	// resolve fallthrough by appending following bodies
	bodies := make([][]ast.Stmt, len(cls))
	for i := len(cls) - 1; i >= 0; i-- {
		b := cls[i].body
		if n := len(b); n > 0 {
			if br, ok := b[n-1].(*ast.BranchStmt); ok && br.Tok == token.FALLTHROUGH {
				if i+1 >= len(cls) {
					e.fail(br, "fallthrough at end")
				}
				b = append(append([]ast.Stmt{}, b[:n-1]...), bodies[i+1]...)
			}
		}
		bodies[i] = b
	}
	var defBody []ast.Stmt
	hasDef := false
	var conds []clause
	var cbodies [][]ast.Stmt
	for i, c := range cls {
		if c.isDef {
			hasDef = true
			defBody = bodies[i]
			continue
		}
		conds = append(conds, c)
		cbodies = append(cbodies, bodies[i])
	}
	e.inSwitch++
	var chain func(i int, ind string) []string
	chain = func(i int, ind string) []string {
		var o []string
		if i == len(conds) {
			if hasDef {
				return e.block(defBody, ind)
			}
			return []string{ind + "pure ()"}
		}
		var terms []string
		for _, ce := range conds[i].conds {
			var t string
			if tag == "" {
				t = e.expr(ce)
			} else {
				t = "(" + tag + " == " + e.expr(ce) + ")"
			}
			terms = append(terms, t)
		}
		e.flush(ind, &o)
		o = append(o, ind+"if "+strings.Join(terms, " || ")+" then")
		o = append(o, e.block(cbodies[i], ind+"  ")...)
		if i+1 < len(conds) || hasDef {
			o = append(o, ind+"else")
			o = append(o, chain(i+1, ind+"  ")...)
		}
		return o
	}
	out = append(out, chain(0, ind)...)
	e.inSwitch--
	return out
}

func (e *em) typeSwitch(s *ast.TypeSwitchStmt, ind string) []string {
	var out []string
	if s.Init != nil {
		out = append(out, e.stmt(s.Init, ind)...)
	}
	var x ast.Expr
	switch a := s.Assign.(type) {
	case *ast.AssignStmt:
		x = a.Rhs[0].(*ast.TypeAssertExpr).X
	case *ast.ExprStmt:
		x = a.X.(*ast.TypeAssertExpr).X
	}
	if !isErrorType(T.info.Types[x].Type) {
		e.fail(s, "type switch on non-error")
	}
	tag := e.expr(x)
	e.flush(ind, &out)
	var defBody []ast.Stmt
	hasDef := false
	type tc struct {
		names []string
		body  []ast.Stmt
	}
	var tcs []tc
	for _, c := range s.Body.List {
		cc := c.(*ast.CaseClause)
		if obj := T.info.Implicits[cc]; obj != nil {
			// the clause-local variable aliases the switched value
			e.names[obj] = tag
		}
		if cc.List == nil {
			hasDef = true
			defBody = cc.Body
			continue
		}
		var names []string
		for _, te := range cc.List {
			n, ok := implementsError(T.info.Types[te].Type)
			if !ok {
				e.fail(te, "type switch case")
			}
			names = append(names, "("+tag+" == Go.Err."+n+")")
		}
		tcs = append(tcs, tc{names, cc.Body})
	}
	e.inSwitch++
	var chain func(i int, ind string) []string
	chain = func(i int, ind string) []string {
		if i == len(tcs) {
			if hasDef {
				return e.block(defBody, ind)
			}
			return []string{ind + "pure ()"}
		}
		var o []string
		o = append(o, ind+"if "+strings.Join(tcs[i].names, " || ")+" then")
		o = append(o, e.block(tcs[i].body, ind+"  ")...)
		if i+1 < len(tcs) || hasDef {
			o = append(o, ind+"else")
			o = append(o, chain(i+1, ind+"  ")...)
		}
		return o
	}
	out = append(out, chain(0, ind)...)
	e.inSwitch--
	return out
}
