package main

import (
	"encoding/json"
	"fmt"
	"go/ast"
	"go/token"
	"go/types"
	"os"
	"path/filepath"
	"sort"
	"strings"
)

func (t *tr) mutatedParams(F *fn) map[types.Object]bool {
	m := map[types.Object]bool{}
	mark := func(x ast.Expr) {
		if id := rootIdent(x); id != nil {
			if obj := t.info.Uses[id]; obj != nil {
				m[obj] = true
			}
		}
	}
	ast.Inspect(F.decl.Body, func(n ast.Node) bool {
		switch n := n.(type) {
		case *ast.AssignStmt:
			for _, l := range n.Lhs {
				mark(l)
			}
		case *ast.IncDecStmt:
			mark(n.X)
		case *ast.UnaryExpr:
			if n.Op == token.AND {
				mark(n.X)
			}
		case *ast.CallExpr:
			if bigMutated(n, mark) {
				return true
			}
			fmtMutated(n, mark)
			if se, ok := n.Fun.(*ast.SelectorExpr); ok {
				if sel, ok := t.info.Selections[se]; ok {
					if m2, ok := sel.Obj().(*types.Func); ok {
						if r := m2.Type().(*types.Signature).Recv(); r != nil {
							if _, ok := r.Type().(*types.Pointer); ok {
								mark(se.X)
							}
						}
					}
				}
			}
		}
		return true
	})
	return m
}

func (t *tr) emitFn(F *fn) (err error) {
	defer func() {
		if r := recover(); r != nil {
			err = fmt.Errorf("%v", r)
		}
	}()
	e := &em{F: F, names: map[types.Object]string{}, used: map[string]bool{"g": true}}
	sig := F.obj.Type().(*types.Signature)
	var params []string
	if F.usesG {
		params = append(params, "(g : Globals)")
	}
	var pobjs []*types.Var
	if r := sig.Recv(); r != nil {
		pobjs = append(pobjs, r)
	}
	for k := 0; k < sig.Params().Len(); k++ {
		pobjs = append(pobjs, sig.Params().At(k))
	}
	for _, p := range pobjs {
		var n string
		if p.Name() == "" || p.Name() == "_" {
			n = e.fresh("arg")
		} else {
			n = e.declare(p)
		}
		params = append(params, fmt.Sprintf("(%s : %s)", n, F.paramLeanType(p)))
	}
	var rts []string
	for _, v := range F.inout {
		rts = append(rts, leanType(v.Type()))
	}
	for k := 0; k < sig.Results().Len(); k++ {
		rts = append(rts, leanType(sig.Results().At(k).Type()))
		if sig.Results().At(k).Name() != "" {
			panic("named results")
		}
	}
	rt := "Unit"
	if len(rts) == 1 {
		rt = rts[0]
	} else if len(rts) > 1 {
		rt = "(" + strings.Join(rts, " × ") + ")"
	}
	var lines []string
	head := "def " + F.name
	if len(params) > 0 {
		head += " " + strings.Join(params, " ")
	}
	if F.monadic {
		head += " : Go.GoM " + rt + " := do"
	} else {
		head += " : " + rt + " := Id.run do"
	}
	lines = append(lines, head)
	mut := t.mutatedParams(F)
	for _, p := range pobjs {
		if F.bigNilTested(p) {
			// a *big.Float parameter compared with nil is an Option (bigfloat.go): name "the argument
			// was nil" and the object it points to
			n := e.names[p]
			lines = append(lines, fmt.Sprintf("  let %s : Bool := Go.BigFloat.isNil %s", e.declareNilFlag(p), n))
			kw := "let"
			if mut[p] {
				kw = "let mut"
			}
			lines = append(lines, fmt.Sprintf("  %s %s : %s := Go.BigFloat.ofPtr %s", kw, n, leanType(p.Type()), n))
			continue
		}
		if mut[p] {
			n := e.names[p]
			lines = append(lines, fmt.Sprintf("  let mut %s : %s := %s", n, leanType(p.Type()), n))
		}
	}
	body := e.block(F.decl.Body.List, "  ")
	if len(body) == 1 && strings.TrimSpace(body[0]) == "pure ()" {
		body = nil
	}
	lines = append(lines, body...)
	stmts := F.decl.Body.List
	needRet := sig.Results().Len() == 0
	if needRet {
		lines = append(lines, "  return "+tuple(e.inoutTerms()))
	} else if n := len(stmts); n > 0 {
		if fs, ok := stmts[n-1].(*ast.ForStmt); ok && fs.Cond == nil {
			lines = append(lines, "  throw (Go.Panic.explicit \"unreachable\")")
		}
	}
	F.lines = lines
	return nil
}

func (t *tr) emitVar(g *gvar) (err error) {
	defer func() {
		if r := recover(); r != nil {
			err = fmt.Errorf("%v", r)
		}
	}()
	e := &em{F: &fn{name: g.obj.Name()}, names: map[types.Object]string{}, used: map[string]bool{}}
	val := g.spec.Values[g.idx]
	ast.Inspect(val, func(n ast.Node) bool {
		if x, ok := n.(ast.Expr); ok && isByteSliceLit(x) {
			g.late = true // []byte{…}: fmt layer (fmtstate.go)
		}
		if id, ok := n.(*ast.Ident); ok {
			if v, ok := t.info.Uses[id].(*types.Var); ok && v.Parent() == t.pkg.Scope() {
				g.deps[v] = true
			}
		}
		if _, ok := n.(*ast.CallExpr); ok {
			if tv, ok := t.info.Types[n.(*ast.CallExpr).Fun]; !ok || !tv.IsType() {
				panic("call in initialiser")
			}
		}
		return true
	})
	term := e.expr(val)
	if len(e.pre) > 0 {
		panic("effectful initialiser")
	}
	g.lines = []string{fmt.Sprintf("def %s : %s := %s", safeIdent(g.obj.Name()), leanType(g.obj.Type()), term)}
	return nil
}

type module struct {
	name  string
	file  string
	items []string // lean text blocks
	deps  map[*module]bool
	funcs []string
}

func (t *tr) emitAll() {
	for _, g := range t.gord {
		if g.skip != "" {
			continue
		}
		if err := t.emitVar(g); err != nil {
			g.skip = err.Error()
		}
	}
	// a skipped var invalidates readers: re-run skip propagation
	for changed := true; changed; {
		changed = false
		for _, F := range t.order {
			if F.skip != "" {
				continue
			}
			for v := range F.gvars {
				if v.Name() == "DefaultRoundingMode" {
					continue
				}
				if g := t.gvars[v]; g == nil || g.skip != "" {
					F.skip = "reads skipped var " + v.Name()
					changed = true
				}
			}
			for _, c := range F.sortedCallees() {
				if C := t.funcs[c]; C.skip != "" && F.skip == "" {
					F.skip = "calls skipped " + C.name
					changed = true
				}
			}
		}
	}
	for again := true; again; {
		again = false
		for _, F := range t.order {
			if F.skip != "" || F.lines != nil {
				continue
			}
			if err := t.emitFn(F); err != nil {
				F.skip = "emit: " + err.Error()
				again = true
			}
		}
		if again {
			for _, F := range t.order {
				if F.skip != "" {
					continue
				}
				for _, c := range F.sortedCallees() {
					if C := t.funcs[c]; C.skip != "" {
						F.skip = "calls skipped " + C.name
						F.lines = nil
					}
				}
			}
		}
	}
}

var fileOrder = []string{"int.go", "decimal.go", "payload.go", "compare.go", "rounding.go", "arith.go", "decomposed.go", "exp.go", "convert.go", "format.go", "scan.go", "json.go", "binary.go", "compose.go", "constants.go"}

func modBase(file string) string {
	b := strings.TrimSuffix(file, ".go")
	return strings.ToUpper(b[:1]) + b[1:]
}

func (t *tr) structDefs() []string {
	var out []string
	scope := t.pkg.Scope()
	names := scope.Names()
	sort.Strings(names)
	emitted := map[string]bool{}
	var emit func(n string)
	emit = func(n string) {
		if emitted[n] {
			return
		}
		tn, ok := scope.Lookup(n).(*types.TypeName)
		if !ok {
			return
		}
		st, ok := tn.Type().Underlying().(*types.Struct)
		if !ok {
			return
		}
		if _, isErr := implementsError(tn.Type()); isErr {
			return
		}
		var fields []string
		for i := 0; i < st.NumFields(); i++ {
			f := st.Field(i)
			lt, err := leanTypeE(f.Type())
			if err != nil || strings.HasPrefix(lt, "Go.Big") || lt == "Go.FmtState" || lt == "Go.ScanState" {
				return
			}
			if fn, ok := f.Type().(*types.Named); ok && fn.Obj().Pkg() == t.pkg {
				emit(fn.Obj().Name())
			}
			fields = append(fields, fmt.Sprintf("  %s : %s", safeIdent(f.Name()), lt))
		}
		emitted[n] = true
		out = append(out, "structure "+n+" where")
		out = append(out, fields...)
		out = append(out, "  deriving DecidableEq, Repr, Inhabited", "")
	}
	for _, n := range names {
		emit(n)
	}
	return out
}

func (t *tr) write(dir string) {
	os.MkdirAll(dir, 0o755)
	old, _ := filepath.Glob(filepath.Join(dir, "*.lean"))
	for _, o := range old {
		os.Remove(o)
	}
	header := "-- GENERATED by tools/go2lean from /repo — do not edit.\n"
	// Types
	{
		var b strings.Builder
		b.WriteString(header + "import D128.Go.Prelude\nset_option autoImplicit false\nnamespace Gen\n\n")
		b.WriteString(strings.Join(t.structDefs(), "\n"))
		b.WriteString("\nend Gen\n")
		os.WriteFile(filepath.Join(dir, "Types.lean"), []byte(b.String()), 0o644)
	}
	// ordering
	rank := map[string]int{}
	for i, f := range fileOrder {
		rank[f] = i
	}
	type item struct {
		F *fn
		G *gvar
	}
	var items []item
	for _, g := range t.gord {
		if g.skip == "" {
			items = append(items, item{G: g})
		}
	}
	for _, F := range t.order {
		if F.skip == "" {
			items = append(items, item{F: F})
		}
	}
	fileOf := func(it item) string {
		if it.F != nil {
			return it.F.file
		}
		return it.G.file
	}
	// functions that mention float64/float32 go to their own modules (<File>Float), so that the
	// modules the existing proofs import keep their text
	// Likewise the functions of the text layer (see text.go) go to <File>Text modules
	// (<File>TextFloat if they also mention floats).
	modFile := func(F *fn) string {
		f := strings.TrimSuffix(F.file, ".go")
		if F.text {
			f += "Text"
		}
		if F.bigFloat {
			f += "BigFloat" // big.Float layer (bigfloat.go)
		} else if F.big {
			f += "Big"
		}
		if F.usesFloat {
			if F.big {
				f += "F64" // <File>BigFloat is taken by big.Float; no function mixes math/big and float64
			} else {
				f += "Float"
			}
		}
		if F.fmtL {
			// fmt layer (fmtstate.go): <File>Fmt whatever else the function uses (all of them are part of
			// the text layer; none mentions floats or math/big)
			f = strings.TrimSuffix(F.file, ".go") + "Fmt"
			if F.big || F.usesFloat {
				die("%s: fmt layer function that mentions math/big or floats", F.name)
			}
		}
		return f + ".go"
	}
	sort.SliceStable(items, func(i, j int) bool {
		ri, ok1 := rank[fileOf(items[i])]
		rj, ok2 := rank[fileOf(items[j])]
		if !ok1 {
			ri = 1000
		}
		if !ok2 {
			rj = 1000
		}
		return ri < rj
	})
	var mods []*module
	pos := map[*module]int{}
	last := map[string]*module{}
	placedF := map[*fn]*module{}
	placedG := map[*gvar]*module{}
	var placeF func(F *fn)
	var placeG func(g *gvar)
	put := func(file string, deps []*module, text []string, fname string) *module {
		maxp := -1
		for _, d := range deps {
			if pos[d] > maxp {
				maxp = pos[d]
			}
		}
		m := last[file]
		if m == nil || pos[m] < maxp {
			n := 1
			for _, mm := range mods {
				if mm.file == file {
					n++
				}
			}
			name := modBase(file)
			if n > 1 {
				name = fmt.Sprintf("%s%d", name, n)
			}
			m = &module{name: name, file: file, deps: map[*module]bool{}}
			pos[m] = len(mods)
			mods = append(mods, m)
			last[file] = m
		}
		for _, d := range deps {
			if d != m {
				m.deps[d] = true
			}
		}
		m.items = append(m.items, strings.Join(text, "\n"))
		if fname != "" {
			m.funcs = append(m.funcs, fname)
		}
		return m
	}
	fmtFile := map[string]bool{} // module files of the fmt layer: they import Go/Fmt.lean
	placeG = func(g *gvar) {
		if placedG[g] != nil {
			return
		}
		var deps []*module
		for v := range g.deps {
			if d := t.gvars[v]; d != nil && d != g {
				placeG(d)
				deps = append(deps, placedG[d])
			}
		}
		file := g.file
		if g.late {
			file = strings.TrimSuffix(g.file, ".go") + "Fmt.go"
			fmtFile[file] = true
		}
		placedG[g] = put(file, deps, g.lines, "")
	}
	visiting := map[*fn]bool{}
	bigFile := map[string]bool{}      // module files of the math/big layer: they import Go/Big.lean
	bigFloatFile := map[string]bool{} // … of its big.Float part: they import Go/BigFloat.lean
	f64File := map[string]bool{}      // modules of functions that mention float64/float32: Go/Float.lean
	placeF = func(F *fn) {
		if placedF[F] != nil {
			return
		}
		if visiting[F] {
			die("recursion through %s", F.name)
		}
		visiting[F] = true
		var deps []*module
		var cs []*fn
		for c := range F.callees {
			cs = append(cs, t.funcs[c])
		}
		sort.Slice(cs, func(i, j int) bool { return cs[i].name < cs[j].name })
		for _, C := range cs {
			placeF(C)
			deps = append(deps, placedF[C])
		}
		var gs []*gvar
		for v := range F.gvars {
			if g := t.gvars[v]; g != nil && v.Name() != "DefaultRoundingMode" {
				gs = append(gs, g)
			}
		}
		sort.Slice(gs, func(i, j int) bool { return gs[i].obj.Name() < gs[j].obj.Name() })
		for _, g := range gs {
			placeG(g)
			deps = append(deps, placedG[g])
		}
		if F.bigFloat {
			bigFloatFile[modFile(F)] = true
		} else if F.big {
			bigFile[modFile(F)] = true
		}
		if F.usesFloat {
			f64File[modFile(F)] = true
		}
		if F.fmtL {
			fmtFile[modFile(F)] = true
		}
		placedF[F] = put(modFile(F), deps, F.lines, F.name)
		visiting[F] = false
	}
	// Two passes: everything outside the text layer first, in the order that produced the modules
	// the proofs are tied to; then the text-layer functions (never called from the first group),
	// which therefore cannot pull a callee forward inside an existing module.
	// Third pass: the math/big layer (big.go), for the same reason.
	// Fifth pass: the fmt layer (fmtstate.go), including the package variables only it can express.
	for _, it := range items {
		if it.F != nil && !it.F.text && !it.F.big && !it.F.fmtL {
			placeF(it.F)
		} else if it.G != nil && !it.G.late {
			placeG(it.G)
		}
	}
	for _, it := range items {
		if it.F != nil && it.F.text && !it.F.big && !it.F.fmtL {
			placeF(it.F)
		}
	}
	for _, it := range items {
		if it.F != nil && it.F.big && !it.F.bigFloat && !it.F.fmtL {
			placeF(it.F)
		}
	}
	// Fourth pass: the big.Float part of the math/big layer (bigfloat.go).
	for _, it := range items {
		if it.F != nil && it.F.bigFloat && !it.F.fmtL {
			placeF(it.F)
		}
	}
	for _, it := range items {
		if it.F != nil && it.F.fmtL {
			placeF(it.F)
		} else if it.G != nil && it.G.late {
			placeG(it.G)
		}
	}
	var all []string
	for _, m := range mods {
		var b strings.Builder
		b.WriteString(header + "import D128.Gen.Types\n")
		if f64File[m.file] {
			b.WriteString("import D128.Go.Float\n")
		}
		if bigFile[m.file] {
			b.WriteString("import D128.Go.Big\n")
		}
		if bigFloatFile[m.file] {
			b.WriteString("import D128.Go.BigFloat\n")
		}
		if fmtFile[m.file] {
			b.WriteString("import D128.Go.Fmt\n")
		}
		var ds []string
		for d := range m.deps {
			ds = append(ds, d.name)
		}
		sort.Strings(ds)
		for _, d := range ds {
			b.WriteString("import D128.Gen." + d + "\n")
		}
		b.WriteString("set_option autoImplicit false\nset_option linter.unusedVariables false\nset_option maxRecDepth 4096\nnamespace Gen\n\n")
		b.WriteString(strings.Join(m.items, "\n\n"))
		b.WriteString("\n\nend Gen\n")
		os.WriteFile(filepath.Join(dir, m.name+".lean"), []byte(b.String()), 0o644)
		all = append(all, "import D128.Gen."+m.name)
	}
	os.WriteFile(filepath.Join(dir, "All.lean"), []byte(header+"import D128.Gen.Types\n"+strings.Join(all, "\n")+"\n"), 0o644)
	// report
	type frep struct {
		Name    string   `json:"name"`
		File    string   `json:"file"`
		Module  string   `json:"module,omitempty"`
		Monadic bool     `json:"monadic"`
		Globals bool     `json:"reads_DefaultRoundingMode"`
		Skip    string   `json:"skipped,omitempty"`
		Writes  []string `json:"writes_package_vars,omitempty"`
		// calls of other packages' functions at which the model stops with Go.Panic.unmodelled
		Unmodelled []string `json:"unmodelled,omitempty"`
		// calls of other packages' functions inside a panic message (the message is not modelled)
		Dropped []string `json:"panic_message_calls_dropped,omitempty"`
		// math/big layer: parameters covered by `if p == nil { p = new(T) }` (a nil argument is the
		// value 0), and parameters whose object the Go function also stores its result into (the
		// model returns the value only)
		BigNilDefaulted []string `json:"big_nil_defaulted_params,omitempty"`
		BigStored       []string `json:"big_args_stored,omitempty"`
		// big.Float: parameters compared with nil (an Option in Lean; the token "nil" is `none`)
		BigNilTested []string `json:"big_nil_tested_params,omitempty"`
		// fmt layer: fmt.State / fmt.ScanState parameters (threaded as values: the Lean function returns
		// the final state in front of its results), function literals turned into local Lean functions
		FmtStates   []string `json:"fmt_state_params,omitempty"`
		FmtClosures int      `json:"fmt_function_literals,omitempty"`
	}
	var rep struct {
		Functions []frep            `json:"functions"`
		Vars      map[string]string `json:"vars"`
	}
	rep.Vars = map[string]string{}
	for _, F := range t.order {
		r := frep{Name: F.name, File: F.file, Monadic: F.monadic, Globals: F.usesG, Skip: F.skip, Writes: F.writes}
		if F.skip == "" {
			r.Unmodelled, r.Dropped = F.unmodelled, F.dropped
			r.BigNilDefaulted, r.BigStored = F.bigReport()
			if F.bigInf != nil {
				for _, v := range F.bigInf.nilTestSeq {
					r.BigNilTested = append(r.BigNilTested, v.Name())
				}
			}
			for _, v := range F.inout {
				if _, is := fmtIface(v.Type()); is {
					r.FmtStates = append(r.FmtStates, v.Name())
				}
			}
			r.FmtClosures = len(F.okFuncLit)
		}
		if m := placedF[F]; m != nil {
			r.Module = m.name
		}
		rep.Functions = append(rep.Functions, r)
	}
	for _, g := range t.gord {
		if g.skip != "" {
			rep.Vars[g.obj.Name()] = "skipped: " + g.skip
		} else {
			rep.Vars[g.obj.Name()] = placedG[g].name
		}
	}
	jb, _ := json.MarshalIndent(rep, "", " ")
	os.WriteFile(filepath.Join(dir, "report.json"), jb, 0o644)
}
