// go2lean translates the arithmetic core of woodsbury/decimal128 into Lean 4
// `do` programs over the semantics fixed in lean/D128/Go/Prelude.lean.
package main

import (
	"flag"
	"fmt"
	"go/ast"
	"go/build"
	"go/importer"
	"go/parser"
	"go/token"
	"go/types"
	"os"
	"path/filepath"
	"sort"
	"strings"
)

type fn struct {
	obj       *types.Func
	decl      *ast.FuncDecl
	file      string
	name      string
	inout     []*types.Var // pointer receiver / pointer params (returned updated)
	monadic   bool
	usesG     bool
	hasLoop   bool
	local     bool // can panic locally
	usesFloat bool // mentions float64/float32: placed in a separate module importing Go/Float.lean
	// text: the function uses (or calls a function that uses) one of the text-layer constructs
	// introduced for the byte-string emitters (cap, copy, make with a run-time size, slices of byte
	// arrays, string concatenation, unsafe.String, foreign error values, unmodelled calls). Such
	// functions are placed in separate <File>Text modules so that the modules the existing proofs
	// import keep their text byte for byte.
	text bool
	// big: the function uses (or calls a function that uses) math/big values (big.go). Such
	// functions are placed in separate <File>Big modules importing Go/Big.lean.
	big bool
	// bigFloat: the function uses (or calls a function that uses) big.Float values (bigfloat.go):
	// placed in <File>BigFloat modules importing Go/BigFloat.lean. Implies big.
	bigFloat bool
	// fmtL: the function uses (or calls a function that uses) fmt.State / fmt.ScanState values or
	// another construct of the fmt layer (fmtstate.go): placed in <File>Fmt modules importing
	// Go/Fmt.lean.
	fmtL           bool
	fmtOK          map[*ast.Ident]bool   // mentions of state variables admitted by analyseFmt
	okFuncLit      map[*ast.FuncLit]bool // function literals admitted by analyseFmt (closureCheck)
	bigInf         *bigInfo
	bigStoredParam []int    // indices of *big.Int / *big.Rat parameters the function stores into
	unmodelled     []string // foreign calls replaced by `throw (Go.Panic.unmodelled …)`, in source order
	dropped        []string // foreign calls inside a panic message (the message is not modelled)
	okSel          map[*ast.SelectorExpr]bool
	callees        map[*types.Func]bool
	gvars          map[*types.Var]bool
	skip           string
	lines          []string
	writes         []string // package-level vars written (effects table)
}

type gvar struct {
	obj  *types.Var
	spec *ast.ValueSpec
	idx  int
	file string
	// late: the initialiser needs a construct of the fmt layer ([]byte{…}): the variable is placed in
	// the <File>Fmt module (fifth pass), not in the module of its file
	late  bool
	skip  string
	lines []string
	deps  map[*types.Var]bool
}

type tr struct {
	fset  *token.FileSet
	info  *types.Info
	pkg   *types.Package
	funcs map[*types.Func]*fn
	order []*fn
	gvars map[*types.Var]*gvar
	gord  []*gvar
	files []*ast.File
	names []string
}

var T *tr

// sortedCallees lists the callees in source order, so that the reason recorded for a skipped
// function ("calls skipped X") does not depend on map iteration order.
func (F *fn) sortedCallees() []*types.Func {
	var cs []*types.Func
	for c := range F.callees {
		cs = append(cs, c)
	}
	sort.Slice(cs, func(i, j int) bool { return cs[i].Pos() < cs[j].Pos() })
	return cs
}

func die(format string, a ...any) {
	fmt.Fprintf(os.Stderr, "go2lean: "+format+"\n", a...)
	os.Exit(2)
}

func main() {
	src := flag.String("src", "/repo", "package directory")
	out := flag.String("out", "", "output directory for Gen/*.lean")
	hooks := flag.String("hooks", "", "if set, write the Go hook dispatcher to this file")
	flag.Parse()
	if *out == "" {
		die("missing -out")
	}
	bp, err := build.Default.ImportDir(*src, 0)
	if err != nil {
		die("%v", err)
	}
	fset := token.NewFileSet()
	var files []*ast.File
	var names []string
	for _, f := range bp.GoFiles {
		af, err := parser.ParseFile(fset, filepath.Join(*src, f), nil, parser.ParseComments)
		if err != nil {
			die("%v", err)
		}
		files = append(files, af)
		names = append(names, f)
	}
	info := &types.Info{
		Types:      map[ast.Expr]types.TypeAndValue{},
		Defs:       map[*ast.Ident]types.Object{},
		Uses:       map[*ast.Ident]types.Object{},
		Selections: map[*ast.SelectorExpr]*types.Selection{},
		Implicits:  map[ast.Node]types.Object{},
		Instances:  map[*ast.Ident]types.Instance{},
		Scopes:     map[ast.Node]*types.Scope{},
	}
	conf := types.Config{Importer: importer.ForCompiler(fset, "source", nil)}
	pkg, err := conf.Check(bp.ImportPath, fset, files, info)
	if err != nil {
		die("typecheck: %v", err)
	}
	T = &tr{fset: fset, info: info, pkg: pkg, funcs: map[*types.Func]*fn{}, gvars: map[*types.Var]*gvar{}, files: files, names: names}
	T.collect()
	T.analyse()
	T.emitAll()
	T.write(*out)
	T.writeHooks(*hooks, *out)
	T.writeFacts(*out)
}

// ---------------------------------------------------------------- collection

func (t *tr) collect() {
	for i, f := range t.files {
		for _, d := range f.Decls {
			switch d := d.(type) {
			case *ast.FuncDecl:
				obj := t.info.Defs[d.Name].(*types.Func)
				F := &fn{obj: obj, decl: d, file: t.names[i], callees: map[*types.Func]bool{}, gvars: map[*types.Var]bool{}}
				F.name = leanFuncName(obj)
				sig := obj.Type().(*types.Signature)
				if r := sig.Recv(); r != nil {
					if _, ok := r.Type().(*types.Pointer); ok {
						F.inout = append(F.inout, r)
					}
				}
				for k := 0; k < sig.Params().Len(); k++ {
					p := sig.Params().At(k)
					// *big.Int / *big.Rat parameters are values, not in-out arguments (big.go)
					if _, ok := p.Type().(*types.Pointer); ok && !isBigPtr(p.Type()) {
						F.inout = append(F.inout, p)
					}
					// a fmt.State / fmt.ScanState parameter is threaded like an in-out argument (fmtstate.go)
					if _, ok := fmtIface(p.Type()); ok {
						F.inout = append(F.inout, p)
					}
				}
				if d.Body == nil {
					F.skip = "no body"
				}
				if r := sig.Recv(); r != nil {
					if _, isErr := implementsError(r.Type()); isErr {
						F.skip = "method of an error type"
					}
				}
				t.funcs[obj] = F
				t.order = append(t.order, F)
			case *ast.GenDecl:
				if d.Tok != token.VAR {
					continue
				}
				for _, s := range d.Specs {
					vs := s.(*ast.ValueSpec)
					for k, n := range vs.Names {
						if n.Name == "_" {
							continue
						}
						v := t.info.Defs[n].(*types.Var)
						g := &gvar{obj: v, spec: vs, idx: k, file: t.names[i], deps: map[*types.Var]bool{}}
						t.gvars[v] = g
						t.gord = append(t.gord, g)
					}
				}
			}
		}
	}
}

func recvTypeName(t types.Type) string {
	if p, ok := t.(*types.Pointer); ok {
		t = p.Elem()
	}
	if n, ok := t.(*types.Named); ok {
		return leanTypeName(n.Obj().Name())
	}
	return "anon"
}

func leanTypeName(n string) string {
	switch n {
	case "uint128":
		return "U128"
	case "uint192":
		return "U192"
	case "uint256":
		return "U256"
	case "uint384":
		return "U384"
	}
	return n
}

func leanFuncName(f *types.Func) string {
	sig := f.Type().(*types.Signature)
	n := safeIdent(f.Name())
	switch n {
	case "Int8", "Int16", "Int32", "Int64", "UInt8", "UInt16", "UInt32", "UInt64", "Bool", "Nat", "Int", "Unit":
		n += "_"
	}
	if tn, ok := f.Pkg().Scope().Lookup(f.Name()).(*types.TypeName); ok && tn != nil {
		n += "_"
	}
	if r := sig.Recv(); r != nil {
		return recvTypeName(r.Type()) + "." + n
	}
	return n
}

var leanKeywords = map[string]bool{"end": true, "at": true, "from": true, "fun": true, "do": true, "then": true, "else": true, "if": true, "let": true, "have": true, "show": true, "match": true, "with": true, "where": true, "in": true, "open": true, "def": true, "theorem": true, "instance": true, "structure": true, "inductive": true, "namespace": true, "section": true, "import": true, "mut": true, "for": true, "while": true, "return": true, "break": true, "continue": true, "try": true, "catch": true, "finally": true, "unless": true, "by": true, "using": true, "Type": true, "Prop": true, "Sort": true, "max": true, "rem": false, "inv": false, "exp": false, "e": false, "pi": false, "mul": false, "nan": false, "inf": false}

func safeIdent(s string) string {
	if leanKeywords[s] {
		return s + "_"
	}
	return s
}

// ---------------------------------------------------------------- analysis

// math functions on float64 values modelled on bit patterns in lean/D128/Go/Float.lean
var mathFuncs = map[string]bool{"IsNaN": true, "IsInf": true, "Signbit": true, "Float64bits": true, "Float64frombits": true, "NaN": true, "Inf": true, "Copysign": true, "Ldexp": true}

var bitsFuncs = map[string]bool{"Add64": true, "Sub64": true, "Mul64": true, "Div64": true, "Len64": true, "LeadingZeros64": true, "TrailingZeros64": true}

func isConst(e ast.Expr) bool {
	tv, ok := T.info.Types[e]
	return ok && tv.Value != nil
}

func under(t types.Type) types.Type { return t.Underlying() }

func isMultiWord(t types.Type) (int, bool) {
	if n, ok := t.(*types.Named); ok {
		switch n.Obj().Name() {
		case "uint128":
			return 2, true
		case "uint192":
			return 3, true
		case "uint256":
			return 4, true
		case "uint384":
			return 6, true
		}
	}
	return 0, false
}

func isBytesLike(t types.Type) bool {
	if tp, ok := t.(*types.TypeParam); ok {
		_ = tp
		return true
	}
	switch u := under(t).(type) {
	case *types.Slice:
		if b, ok := under(u.Elem()).(*types.Basic); ok && b.Kind() == types.Uint8 {
			return true
		}
	case *types.Basic:
		return u.Kind() == types.String || u.Kind() == types.UntypedString
	}
	return false
}

func isErrorType(t types.Type) bool {
	if t == nil {
		return false
	}
	if n, ok := t.(*types.Named); ok && n.Obj().Pkg() == nil && n.Obj().Name() == "error" {
		return true
	}
	return false
}

func implementsError(t types.Type) (string, bool) {
	if p, ok := t.(*types.Pointer); ok {
		t = p.Elem()
	}
	n, ok := t.(*types.Named)
	if !ok || n.Obj().Pkg() != T.pkg {
		return "", false
	}
	for i := 0; i < n.NumMethods(); i++ {
		if n.Method(i).Name() == "Error" {
			return n.Obj().Name(), true
		}
	}
	return "", false
}

func isSignedInt(t types.Type) bool {
	b, ok := under(t).(*types.Basic)
	if !ok {
		return false
	}
	switch b.Kind() {
	case types.Int, types.Int8, types.Int16, types.Int32, types.Int64, types.UntypedInt:
		return true
	}
	return false
}

func (t *tr) analyseFn(F *fn) {
	if F.skip != "" {
		return
	}
	unsupported := func(n ast.Node, why string) {
		if F.skip == "" {
			F.skip = fmt.Sprintf("%s (%s)", why, t.fset.Position(n.Pos()))
		}
	}
	sig := F.obj.Type().(*types.Signature)
	checkType := func(ty types.Type, n ast.Node) {
		lt, err := leanTypeE(ty)
		if err != nil {
			unsupported(n, err.Error())
		}
		if strings.Contains(lt, "Go.F64") || strings.Contains(lt, "Go.F32") {
			F.usesFloat = true
		}
		if strings.Contains(lt, "Go.Big") {
			F.big = true
		}
		if strings.Contains(lt, "Go.BigFloat") {
			F.bigFloat = true
		}
		if strings.Contains(lt, "Go.FmtState") || strings.Contains(lt, "Go.ScanState") {
			F.fmtL = true
		}
	}
	if r := sig.Recv(); r != nil {
		checkType(r.Type(), F.decl)
	}
	for k := 0; k < sig.Params().Len(); k++ {
		checkType(sig.Params().At(k).Type(), F.decl)
	}
	for k := 0; k < sig.Results().Len(); k++ {
		checkType(sig.Results().At(k).Type(), F.decl)
		if _, is := fmtIface(sig.Results().At(k).Type()); is {
			unsupported(F.decl, "fmt.State / fmt.ScanState result")
		}
	}
	ast.Inspect(F.decl.Body, func(n ast.Node) bool {
		if handled, descend := t.analyseFmt(F, n, unsupported); handled {
			return descend
		}
		if handled, descend := t.analyseBig(F, n, unsupported); handled {
			return descend
		}
		if handled, descend := t.analyseText(F, n, unsupported); handled {
			return descend
		}
		switch n := n.(type) {
		case *ast.ForStmt:
			F.hasLoop = true
		case *ast.RangeStmt:
			unsupported(n, "range")
		case *ast.GoStmt, *ast.DeferStmt, *ast.SelectStmt, *ast.SendStmt:
			unsupported(n, "concurrency/defer")
		case *ast.FuncLit:
			unsupported(n, "closure")
		case *ast.TypeAssertExpr:
			if n.Type != nil {
				unsupported(n, "type assertion")
			}
		case *ast.Ident:
			if obj, ok := t.info.Uses[n]; ok {
				if v, ok := obj.(*types.Var); ok && !v.IsField() && v.Parent() == t.pkg.Scope() {
					F.gvars[v] = true
					if v.Name() == "DefaultRoundingMode" {
						F.usesG = true
					}
				}
				if v, ok := obj.(*types.Var); ok && !v.IsField() {
					checkType(v.Type(), n)
				}
			}
			if obj, ok := t.info.Defs[n]; ok && obj != nil {
				if v, ok := obj.(*types.Var); ok {
					checkType(v.Type(), n)
				}
			}
		case *ast.CallExpr:
			t.analyseCall(F, n, unsupported)
		case *ast.IndexExpr:
			xt := t.info.Types[n.X].Type
			if _, ok := isMultiWord(xt); ok {
				if !isConst(n.Index) {
					unsupported(n, "variable index into multi-word integer")
				}
			} else if !isConst(n.Index) {
				F.local = true
			} else if isBytesLike(xt) {
				F.local = true
			}
		case *ast.SliceExpr:
			F.local = true
		case *ast.BinaryExpr:
			if (n.Op == token.QUO || n.Op == token.REM) && !isConst(n.Y) {
				F.local = true
			}
			if (n.Op == token.SHL || n.Op == token.SHR) && !isConst(n.Y) && isSignedInt(t.info.Types[n.Y].Type) {
				F.local = true
			}
		case *ast.AssignStmt:
			if (n.Tok == token.QUO_ASSIGN || n.Tok == token.REM_ASSIGN) && !isConst(n.Rhs[0]) {
				F.local = true
			}
			if (n.Tok == token.SHL_ASSIGN || n.Tok == token.SHR_ASSIGN) && !isConst(n.Rhs[0]) && isSignedInt(t.info.Types[n.Rhs[0]].Type) {
				F.local = true
			}
			for _, l := range n.Lhs {
				if id, ok := l.(*ast.Ident); ok {
					if v, ok := t.info.Uses[id].(*types.Var); ok && v.Parent() == t.pkg.Scope() {
						F.writes = append(F.writes, v.Name())
						unsupported(n, "write to package-level variable")
					}
				}
			}
		case *ast.UnaryExpr:
			if n.Op == token.AND {
				// only allowed as call argument (in-out) or &errorType{}
				if cl, ok := n.X.(*ast.CompositeLit); ok {
					if _, ok := implementsError(t.info.Types[cl].Type); ok {
						return false
					}
				}
			}
		case *ast.SelectorExpr:
			if id, ok := n.X.(*ast.Ident); ok {
				if pn, ok := t.info.Uses[id].(*types.PkgName); ok {
					p := pn.Imported().Path()
					if isConst(n) {
						return false
					}
					if p == "math/bits" && bitsFuncs[n.Sel.Name] {
						return false
					}
					if p == "math" && mathFuncs[n.Sel.Name] {
						F.usesFloat = true
						return false
					}
					if p == "errors" && n.Sel.Name == "New" {
						return false
					}
					unsupported(n, "use of "+p+"."+n.Sel.Name)
					return false
				}
			}
		}
		return true
	})
	t.checkBigFlow(F, unsupported)
	t.checkNilFlow(F, unsupported)
}

func (t *tr) analyseCall(F *fn, n *ast.CallExpr, unsupported func(ast.Node, string)) {
	// conversions
	if tv, ok := t.info.Types[n.Fun]; ok && tv.IsType() {
		return
	}
	switch f := n.Fun.(type) {
	case *ast.Ident:
		switch obj := t.info.Uses[f].(type) {
		case *types.Builtin:
			switch obj.Name() {
			case "len", "append":
			case "make":
				if !(isBytesLike(t.info.Types[n].Type) && len(n.Args) == 2) {
					unsupported(n, "make of non-byte-slice or with capacity")
				}
			case "panic":
				F.local = true
			default:
				unsupported(n, "builtin "+obj.Name())
			}
		case *types.Func:
			F.callees[obj.Origin()] = true
		default:
			unsupported(n, "call of non-function")
		}
	case *ast.SelectorExpr:
		if sel, ok := t.info.Selections[f]; ok {
			m, ok := sel.Obj().(*types.Func)
			if !ok || m.Pkg() != t.pkg {
				unsupported(n, "method of foreign type "+f.Sel.Name)
				return
			}
			if types.IsInterface(sel.Recv()) {
				unsupported(n, "interface method call")
				return
			}
			F.callees[m.Origin()] = true
			return
		}
		if id, ok := f.X.(*ast.Ident); ok {
			if pn, ok := t.info.Uses[id].(*types.PkgName); ok {
				p := pn.Imported().Path()
				if p == "math/bits" && bitsFuncs[f.Sel.Name] {
					if f.Sel.Name == "Div64" {
						F.local = true
					}
					return
				}
				if p == "errors" && f.Sel.Name == "New" {
					return
				}
				if p == "math" && mathFuncs[f.Sel.Name] {
					return
				}
				unsupported(n, "call of "+p+"."+f.Sel.Name)
				return
			}
		}
		unsupported(n, "unknown call")
	case *ast.IndexExpr: // explicit instantiation
		unsupported(n, "explicit generic instantiation")
	default:
		unsupported(n, "indirect call")
	}
}

func (t *tr) analyse() {
	for _, F := range t.order {
		t.analyseFn(F)
	}
	for _, F := range t.order {
		t.checkBigCalls(F)
		if F.skip == "" && F.decl.Body != nil {
			F.skip = t.callsNilTested(F)
		}
	}
	// global variables: initialisers must be constant composite literals
	for _, g := range t.gord {
		if _, err := leanTypeE(g.obj.Type()); err != nil {
			g.skip = err.Error()
		}
		if len(g.spec.Values) != len(g.spec.Names) {
			g.skip = "multi-value initialiser"
		}
	}
	// propagate skip
	for changed := true; changed; {
		changed = false
		for _, F := range t.order {
			if F.skip != "" {
				continue
			}
			for _, c := range F.sortedCallees() {
				C := t.funcs[c]
				if C == nil {
					F.skip = "calls unknown " + c.Name()
					changed = true
					break
				}
				if C.skip != "" {
					F.skip = "calls skipped " + C.name
					changed = true
					break
				}
			}
			if F.skip != "" {
				continue
			}
			for v := range F.gvars {
				if v.Name() == "DefaultRoundingMode" {
					continue
				}
				if g := t.gvars[v]; g == nil || g.skip != "" {
					F.skip = "reads skipped var " + v.Name()
					changed = true
					break
				}
			}
		}
	}
	for changed := true; changed; {
		changed = false
		for _, F := range t.order {
			if F.skip != "" {
				continue
			}
			m := F.local || F.hasLoop
			u := F.usesG
			tx := F.text
			bg := F.big
			bf := F.bigFloat
			fl := F.fmtL
			for c := range F.callees {
				C := t.funcs[c]
				m = m || C.monadic
				u = u || C.usesG
				tx = tx || C.text
				bg = bg || C.big
				bf = bf || C.bigFloat
				fl = fl || C.fmtL
			}
			bg = bg || bf
			if m != F.monadic || u != F.usesG || tx != F.text || bg != F.big || bf != F.bigFloat || fl != F.fmtL {
				F.monadic, F.usesG, F.text, F.big, F.bigFloat, F.fmtL = m, u, tx, bg, bf, fl
				changed = true
			}
		}
	}
}

// ---------------------------------------------------------------- types

func leanTypeE(t types.Type) (string, error) {
	if s, ok := bigLeanType(t); ok {
		return s, nil
	}
	if s, ok := fmtLeanType(t); ok {
		return s, nil
	}
	switch u := t.(type) {
	case *types.Pointer:
		return leanTypeE(u.Elem())
	case *types.TypeParam:
		return "Go.Bytes", nil
	case *types.Named:
		if isErrorType(u) {
			return "Go.Err", nil
		}
		if u.Obj().Pkg() != T.pkg {
			return "", fmt.Errorf("foreign type %s", u.String())
		}
		if _, ok := isMultiWord(u); ok {
			return leanTypeName(u.Obj().Name()), nil
		}
		if st, ok := u.Underlying().(*types.Struct); ok {
			for i := 0; i < st.NumFields(); i++ {
				// math/big values live in variables only (big.go): Types.lean does not import Go/Big.lean
				if ft := st.Field(i).Type(); isBigPtr(ft) || isBigWords(ft) {
					return "", fmt.Errorf("struct %s with a math/big field", u.Obj().Name())
				}
				// fmt states live in variables only (fmtstate.go)
				if _, is := fmtIface(st.Field(i).Type()); is {
					return "", fmt.Errorf("struct %s with a fmt.State / fmt.ScanState field", u.Obj().Name())
				}
			}
			return u.Obj().Name(), nil
		}
		return leanTypeE(u.Underlying())
	case *types.Basic:
		switch u.Kind() {
		case types.Bool, types.UntypedBool:
			return "Bool", nil
		case types.Int, types.Int64, types.UntypedInt:
			return "Int64", nil
		case types.Int8:
			return "Int8", nil
		case types.Int16:
			return "Int16", nil
		case types.Int32, types.UntypedRune:
			return "Int32", nil
		case types.Uint, types.Uint64:
			return "UInt64", nil
		case types.Uint8:
			return "UInt8", nil
		case types.Uint16:
			return "UInt16", nil
		case types.Uint32:
			return "UInt32", nil
		case types.String, types.UntypedString:
			return "Go.Bytes", nil
		case types.Float64, types.UntypedFloat:
			return "Go.F64", nil
		case types.Float32:
			return "Go.F32", nil
		}
		return "", fmt.Errorf("basic type %s", u.String())
	case *types.Array:
		e, err := leanTypeE(u.Elem())
		if err != nil {
			return "", err
		}
		return fmt.Sprintf("(Vector %s %d)", e, u.Len()), nil
	case *types.Slice:
		if isBytesLike(u) {
			return "Go.Bytes", nil
		}
		return "", fmt.Errorf("slice type %s", u.String())
	case *types.Tuple:
		var parts []string
		for i := 0; i < u.Len(); i++ {
			p, err := leanTypeE(u.At(i).Type())
			if err != nil {
				return "", err
			}
			parts = append(parts, p)
		}
		if len(parts) == 0 {
			return "Unit", nil
		}
		return "(" + strings.Join(parts, " × ") + ")", nil
	}
	return "", fmt.Errorf("type %s", t.String())
}

func leanType(t types.Type) string {
	s, err := leanTypeE(t)
	if err != nil {
		panic(err.Error())
	}
	return s
}

func isUnsignedLean(lt string) bool { return strings.HasPrefix(lt, "UInt") }
func isIntLean(lt string) bool {
	return strings.HasPrefix(lt, "UInt") || (strings.HasPrefix(lt, "Int") && lt != "Int")
}
