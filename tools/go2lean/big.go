package main

// math/big layer: brings FromInt, FromRat, Decimal.Int, Decimal.Rat and Decimal.Compose into the
// generated model. The Lean side is lean/D128/Go/Big.lean; every modelling decision is stated
// where it is implemented and repeated in README.md ("math/big layer").
//
// *big.Int is the VALUE Go.BigInt (= Int), *big.Rat the VALUE Go.BigRat (= Rat, lowest terms,
// denominator > 0), []big.Word is Go.BigWords (= Array UInt64, read-only). math/big is taken as
// correct: every method is modelled by its documented mathematical meaning (table bigMethods).
// A method that stores into its receiver (and returns it) becomes a pure function of its
// arguments giving the new value of the receiver; the translator assigns that value to the
// variable the receiver expression denotes. Pointer variables of these types are ordinary mutable
// locals. What a value model cannot express - two names for one object - is refused by the checks
// in analyseBig/checkBigFlow, except for the one thing the API documents: Decimal.Int and
// Decimal.Rat also store their result into a non-nil argument (report.json: big_args_stored).
//
// Functions of this layer are flagged `big` and placed in <File>Big modules (third placement
// pass in emit.go), so that the text of every module that existed before stays byte-identical.
//
// *big.Float (bigfloat.go holds what is specific to it) is the VALUE Go.BigFloat of
// lean/D128/Go/BigFloat.lean: precision, mode, form, sign, magnitude. Its storing methods read the
// receiver (its precision and mode say how the result is rounded): bigMethod.recv. Functions that
// mention it are flagged `bigFloat` as well and placed in <File>BigFloat modules (fourth pass).

import (
	"fmt"
	"go/ast"
	"go/constant"
	"go/token"
	"go/types"
	"sort"
	"strings"
)

const bigPath = "math/big"

// bigNamed returns "Int", "Rat", "Float" or "Word" for (pointers to) these types of math/big.
func bigNamed(t types.Type) (string, bool) {
	if t == nil {
		return "", false
	}
	if p, ok := t.(*types.Pointer); ok {
		t = p.Elem()
	}
	n, ok := t.(*types.Named)
	if !ok || n.Obj().Pkg() == nil || n.Obj().Pkg().Path() != bigPath {
		return "", false
	}
	switch n.Obj().Name() {
	case "Int", "Rat", "Word", "Float":
		return n.Obj().Name(), true
	}
	return "", false
}

// isBigPtr: *big.Int, *big.Rat or *big.Float (the types modelled as values).
func isBigPtr(t types.Type) bool {
	p, ok := t.(*types.Pointer)
	if !ok {
		return false
	}
	n, ok := bigNamed(p.Elem())
	return ok && n != "Word"
}

func isBigWords(t types.Type) bool {
	if t == nil {
		return false
	}
	s, ok := t.Underlying().(*types.Slice)
	if !ok {
		return false
	}
	n, ok := bigNamed(s.Elem())
	return ok && n == "Word"
}

// bigLeanType is the hook of leanTypeE for this layer. big.Int / big.Rat are only admitted behind
// a pointer (the package never holds them by value).
func bigLeanType(t types.Type) (string, bool) {
	if isBigPtr(t) {
		n, _ := bigNamed(t)
		return "Go.Big" + n, true
	}
	if isBigWords(t) {
		return "Go.BigWords", true
	}
	if _, isPtr := t.(*types.Pointer); !isPtr {
		if n, ok := bigNamed(t); ok && n == "Word" {
			return "UInt64", true // big.Word is uint; uint is 64 bits wide (DESIGN §3)
		}
		if s, ok := bigEnumLeanType(t); ok {
			return s, true
		}
	}
	return "", false
}

// bigMethod describes the model of one method of *big.Int / *big.Rat.
type bigMethod struct {
	// writes: the method sets its receiver and returns it. The Lean function takes the
	// arguments only (the previous value of the receiver never matters) and returns the new value.
	writes bool
	// out: indices of further arguments the method stores into (QuoRem's r); the Lean function
	// then returns the tuple (receiver, out…).
	out []int
	// monadic: the Lean function is in GoM (division by zero panics; Uint64 of a value that does
	// not fit is documented as undefined: the model ends there).
	monadic bool
	// nilArg: index of an argument that must be the literal nil and is dropped (Exp's modulus).
	nilArg int
	// ref: the result shares memory with the receiver (Num, Denom, Bits). It is copied as a
	// value; checkBigFlow refuses functions that could observe the sharing.
	ref bool
	// recv (big.Float): a storing method whose result depends on the receiver (its precision and
	// rounding mode). The Lean function takes the previous value of the receiver as its first
	// argument and returns the new one.
	recv bool
	// fresh: the (first) result is a newly allocated object (x.Rat(nil)).
	fresh bool
}

// bigMethods: the key is <receiver type>.<method>, the Lean name is Go.Big<receiver>.<method>.
var bigMethods = map[string]bigMethod{
	"Int.Sign":      {nilArg: -1},
	"Int.BitLen":    {nilArg: -1},
	"Int.Bits":      {nilArg: -1, ref: true},
	"Int.Bytes":     {nilArg: -1},
	"Int.Uint64":    {nilArg: -1, monadic: true},
	"Int.Cmp":       {nilArg: -1},
	"Int.Set":       {nilArg: -1, writes: true},
	"Int.SetUint64": {nilArg: -1, writes: true},
	"Int.SetInt64":  {nilArg: -1, writes: true},
	"Int.SetBytes":  {nilArg: -1, writes: true},
	"Int.Lsh":       {nilArg: -1, writes: true},
	"Int.Or":        {nilArg: -1, writes: true},
	"Int.Add":       {nilArg: -1, writes: true},
	"Int.Sub":       {nilArg: -1, writes: true},
	"Int.Mul":       {nilArg: -1, writes: true},
	"Int.Neg":       {nilArg: -1, writes: true},
	"Int.Abs":       {nilArg: -1, writes: true},
	"Int.Quo":       {nilArg: -1, writes: true, monadic: true},
	"Int.QuoRem":    {nilArg: -1, writes: true, monadic: true, out: []int{2}},
	"Int.Exp":       {nilArg: 2, writes: true},
	"Rat.Sign":      {nilArg: -1},
	"Rat.Num":       {nilArg: -1, ref: true},
	"Rat.Denom":     {nilArg: -1, ref: true},
	"Rat.Set":       {nilArg: -1, writes: true},
	"Rat.SetFrac":   {nilArg: -1, writes: true, monadic: true},
	"Rat.SetInt":    {nilArg: -1, writes: true},
	"Rat.SetUint64": {nilArg: -1, writes: true},
	"Rat.Neg":       {nilArg: -1, writes: true},
	// big.Float (Go/BigFloat.lean)
	"Float.Prec":      {nilArg: -1},
	"Float.Mode":      {nilArg: -1},
	"Float.MinPrec":   {nilArg: -1},
	"Float.IsInf":     {nilArg: -1},
	"Float.Sign":      {nilArg: -1},
	"Float.Signbit":   {nilArg: -1},
	"Float.Rat":       {nilArg: 0, monadic: true, fresh: true}, // only x.Rat(nil); (value, Accuracy)
	"Float.SetPrec":   {nilArg: -1, writes: true, recv: true},
	"Float.SetMode":   {nilArg: -1, writes: true, recv: true},
	"Float.SetInf":    {nilArg: -1, writes: true, recv: true},
	"Float.SetUint64": {nilArg: -1, writes: true, recv: true},
	"Float.SetInt64":  {nilArg: -1, writes: true, recv: true},
	"Float.SetInt":    {nilArg: -1, writes: true, recv: true},
	"Float.Set":       {nilArg: -1, writes: true, recv: true},
	"Float.Neg":       {nilArg: -1, writes: true, recv: true},
	"Float.Abs":       {nilArg: -1, writes: true, recv: true},
	"Float.Mul":       {nilArg: -1, writes: true, recv: true, monadic: true}, // ErrNaN for 0 × Inf
	"Float.Quo":       {nilArg: -1, writes: true, recv: true, monadic: true}, // ErrNaN for 0/0, Inf/Inf
}

func unparen(x ast.Expr) ast.Expr {
	for {
		p, ok := x.(*ast.ParenExpr)
		if !ok {
			return x
		}
		x = p.X
	}
}

// bigMethodCall recognises a call of a method of *big.Int / *big.Rat.
func bigMethodCall(x ast.Expr) (call *ast.CallExpr, sel *ast.SelectorExpr, key string, ok bool) {
	call, ok = unparen(x).(*ast.CallExpr)
	if !ok {
		return nil, nil, "", false
	}
	sel, ok = call.Fun.(*ast.SelectorExpr)
	if !ok {
		return nil, nil, "", false
	}
	s, ok := T.info.Selections[sel]
	if !ok || s.Kind() != types.MethodVal {
		return nil, nil, "", false
	}
	m, ok := s.Obj().(*types.Func)
	if !ok || m.Pkg() == nil || m.Pkg().Path() != bigPath {
		return nil, nil, "", false
	}
	n, ok := bigNamed(s.Recv())
	if !ok {
		return nil, nil, "", false
	}
	return call, sel, n + "." + m.Name(), true
}

// bigAlloc recognises new(big.Int), new(big.Rat) and big.NewInt(k): a fresh object.
func bigAlloc(x ast.Expr) (call *ast.CallExpr, kind string, ok bool) {
	call, ok = unparen(x).(*ast.CallExpr)
	if !ok {
		return nil, "", false
	}
	if c, isNew := isBuiltinCall(call, "new"); isNew && len(c.Args) == 1 {
		if tv, has := T.info.Types[c.Args[0]]; has && tv.IsType() {
			if n, isBig := bigNamed(tv.Type); isBig && n != "Word" {
				if _, isPtr := tv.Type.(*types.Pointer); !isPtr {
					return call, "new" + n, true
				}
			}
		}
		return nil, "", false
	}
	if path, name, _, isF := foreignFunc(call.Fun); isF && path == bigPath && name == "big.NewInt" {
		return call, "NewInt", true
	}
	return nil, "", false
}

func bigVarOf(x ast.Expr) *types.Var {
	id, ok := unparen(x).(*ast.Ident)
	if !ok {
		return nil
	}
	v, ok := T.info.Uses[id].(*types.Var)
	if !ok || v.IsField() || v.Parent() == T.pkg.Scope() || !isBigPtr(v.Type()) {
		return nil
	}
	return v
}

// bigDenotes says which variable the object a pointer expression evaluates to belongs to:
// a variable denotes itself, a storing method returns its receiver, an allocation is fresh
// (nil, true). ok=false: the translator cannot tell (refused).
func bigDenotes(x ast.Expr) (v *types.Var, ok bool) {
	if w := bigVarOf(x); w != nil {
		return w, true
	}
	if _, _, isAlloc := bigAlloc(x); isAlloc {
		return nil, true
	}
	if _, sel, key, isM := bigMethodCall(x); isM {
		if m, known := bigMethods[key]; known && m.writes {
			return bigDenotes(sel.X)
		}
		if m, known := bigMethods[key]; known && m.fresh {
			return nil, true
		}
	}
	return nil, false
}

// ---------------------------------------------------------------- analysis

type bigWrite struct {
	v   *types.Var
	pos token.Pos
}

type bigRef struct {
	name, of *types.Var // name := of.Num() / of.Denom() / of.Bits()
	from     token.Pos  // writes to either variable at or after this position are refused
}

// bigInfo collects what the flow checks need; it hangs off fn.
type bigInfo struct {
	writes     []bigWrite // stores into the object a variable denotes (method receivers, QuoRem's r)
	refs       []bigRef
	nilDefault map[*types.Var]*ast.IfStmt // parameters with the idiom `if p == nil { p = new(T) }`
	stored     []string                   // parameters the function stores into (documented: Int, Rat)
	loops      [][2]token.Pos
	// *big.Float parameters compared with nil (bigfloat.go): such a parameter is an Option in Lean
	nilTests   map[*types.Var][]*ast.BinaryExpr
	nilTestSeq []*types.Var
}

func (F *fn) bigI() *bigInfo {
	if F.bigInf == nil {
		F.bigInf = &bigInfo{nilDefault: map[*types.Var]*ast.IfStmt{}, nilTests: map[*types.Var][]*ast.BinaryExpr{}}
	}
	return F.bigInf
}

// nilDefaultIdiom recognises `if p == nil { p = new(T) }` for a big parameter p.
func nilDefaultIdiom(s *ast.IfStmt) (*types.Var, bool) {
	if s.Init != nil || s.Else != nil || len(s.Body.List) != 1 {
		return nil, false
	}
	c, ok := unparen(s.Cond).(*ast.BinaryExpr)
	if !ok || c.Op != token.EQL || !isNilIdent(c.Y) {
		return nil, false
	}
	v := bigVarOf(c.X)
	if v == nil || isBigFloatPtr(v.Type()) {
		// *big.Float: nil is not new(big.Float) elsewhere in the same function (Decimal.Float), so
		// its nil tests are all handled by checkNilFlow (bigfloat.go), as an Option
		return nil, false
	}
	a, ok := s.Body.List[0].(*ast.AssignStmt)
	if !ok || a.Tok != token.ASSIGN || len(a.Lhs) != 1 || len(a.Rhs) != 1 || bigVarOf(a.Lhs[0]) != v {
		return nil, false
	}
	if _, kind, isAlloc := bigAlloc(a.Rhs[0]); !isAlloc || !strings.HasPrefix(kind, "new") {
		return nil, false
	}
	return v, true
}

// definitelyAssigns: s assigns v on every path through it and never reads it.
func definitelyAssigns(s ast.Stmt, v *types.Var) bool {
	reads := false
	readsIn := func(n ast.Node) {
		if n == nil {
			return
		}
		ast.Inspect(n, func(m ast.Node) bool {
			if id, ok := m.(*ast.Ident); ok && T.info.Uses[id] == v {
				reads = true
			}
			return true
		})
	}
	var walk func(s ast.Stmt) bool // true: assigns on every path
	walk = func(s ast.Stmt) bool {
		switch s := s.(type) {
		case *ast.AssignStmt:
			if s.Tok == token.ASSIGN && len(s.Lhs) == 1 && len(s.Rhs) == 1 && bigVarOf(s.Lhs[0]) == v {
				readsIn(s.Rhs[0])
				return true
			}
			readsIn(s)
			return false
		case *ast.BlockStmt:
			for _, t := range s.List {
				if walk(t) {
					return true // later statements may read: v is assigned by then
				}
			}
			return false
		case *ast.IfStmt:
			readsIn(s.Init)
			readsIn(s.Cond)
			a := walk(s.Body)
			if s.Else == nil {
				return false
			}
			b := walk(s.Else)
			return a && b
		}
		readsIn(s)
		return false
	}
	assigned := walk(s)
	return assigned && !reads
}

// analyseBig is called for every node before analyseText and the general analysis. handled=true:
// the other analyses must not look at this node itself; descend: visit its children.
func (t *tr) analyseBig(F *fn, n ast.Node, unsupported func(ast.Node, string)) (handled, descend bool) {
	okSel := func(s *ast.SelectorExpr) {
		if F.okSel == nil {
			F.okSel = map[*ast.SelectorExpr]bool{}
		}
		F.okSel[s] = true
	}
	// statement lists: a `var x *big.Int` (nil) must be assigned by the next statement on every path
	checkDecls := func(list []ast.Stmt) {
		for k, s := range list {
			ds, ok := s.(*ast.DeclStmt)
			if !ok {
				continue
			}
			gd, ok := ds.Decl.(*ast.GenDecl)
			if !ok || gd.Tok != token.VAR {
				continue
			}
			for _, sp := range gd.Specs {
				vs := sp.(*ast.ValueSpec)
				for _, nm := range vs.Names {
					v, ok := t.info.Defs[nm].(*types.Var)
					if !ok || !isBigPtr(v.Type()) || len(vs.Values) != 0 {
						continue
					}
					if len(gd.Specs) != 1 || len(vs.Names) != 1 || k+1 >= len(list) || !definitelyAssigns(list[k+1], v) {
						unsupported(ds, "nil math/big pointer variable that is not assigned by the next statement on every path")
					}
				}
			}
		}
	}
	switch n := n.(type) {
	case *ast.BlockStmt:
		checkDecls(n.List)
	case *ast.CaseClause:
		checkDecls(n.Body)
	case *ast.ForStmt:
		F.bigI().loops = append(F.bigI().loops, [2]token.Pos{n.Pos(), n.End()})
	case *ast.IfStmt:
		if v, ok := nilDefaultIdiom(n); ok {
			// Convention: a nil argument is represented by the value new(T) has, i.e. 0. Under it the
			// statement is the identity on the value of p, provided p is a parameter, the statement
			// is a top-level statement of the function and nothing uses p before it.
			F.big = true
			isParam := false
			sig := F.obj.Type().(*types.Signature)
			for k := 0; k < sig.Params().Len(); k++ {
				isParam = isParam || sig.Params().At(k) == v
			}
			top := false
			for _, s := range F.decl.Body.List {
				top = top || s == ast.Stmt(n)
			}
			early := false
			ast.Inspect(F.decl.Body, func(m ast.Node) bool {
				if id, ok := m.(*ast.Ident); ok && t.info.Uses[id] == v && id.Pos() < n.Pos() {
					early = true
				}
				return true
			})
			if !isParam || !top || early || F.bigI().nilDefault[v] != nil {
				unsupported(n, "nil test of a math/big pointer outside the idiom `if p == nil { p = new(T) }` at the start of a function")
			}
			F.bigI().nilDefault[v] = n
			return true, false
		}
	case *ast.SelectorExpr:
		// big.Int, big.Rat, big.Word in type position
		if id, ok := n.X.(*ast.Ident); ok {
			if pn, ok := t.info.Uses[id].(*types.PkgName); ok && pn.Imported().Path() == bigPath {
				if tn, ok := t.info.Uses[n.Sel].(*types.TypeName); ok {
					if _, isBig := bigNamed(tn.Type()); isBig {
						F.big = true
						return true, false
					}
					if _, isEnum := bigEnumLeanType(tn.Type()); isEnum {
						return true, false // big.RoundingMode, big.Accuracy in type position
					}
				}
			}
		}
	case *ast.StarExpr:
		if tv, ok := t.info.Types[n]; ok && !tv.IsType() && isBigPtr(t.info.Types[n.X].Type) {
			unsupported(n, "dereference of a math/big pointer")
		}
	case *ast.UnaryExpr:
		if n.Op == token.AND {
			if b, ok := bigNamed(t.info.Types[n.X].Type); ok && b != "Word" {
				unsupported(n, "address of a math/big value")
			}
		}
	case *ast.CompositeLit:
		if _, ok := bigNamed(t.info.Types[n].Type); ok {
			unsupported(n, "math/big composite literal")
		}
	case *ast.BinaryExpr:
		if isBigPtr(t.info.Types[n.X].Type) || isBigPtr(t.info.Types[n.Y].Type) {
			if v, _, ok := floatNilTest(n); ok {
				// admitted where checkNilFlow (bigfloat.go) can tell what the test means
				F.big = true
				B := F.bigI()
				if B.nilTests[v] == nil {
					B.nilTestSeq = append(B.nilTestSeq, v)
				}
				B.nilTests[v] = append(B.nilTests[v], n)
				return true, false
			}
			unsupported(n, "comparison of math/big pointers")
		}
	case *ast.SliceExpr:
		if isBigWords(t.info.Types[n.X].Type) {
			unsupported(n, "slice of []big.Word")
		}
	case *ast.IndexExpr:
		if isBigWords(t.info.Types[n.X].Type) {
			F.big = true
			F.local = true // Go.BigInt.wget is bounds-checked
		}
	case *ast.ValueSpec:
		for k, nm := range n.Names {
			v, ok := t.info.Defs[nm].(*types.Var)
			if !ok || !(isBigPtr(v.Type()) || isBigWords(v.Type())) {
				continue
			}
			F.big = true
			if len(n.Values) == len(n.Names) {
				t.bigAssign(F, n, v, n.Values[k], unsupported)
			} else if len(n.Values) != 0 {
				unsupported(n, "multi-value declaration of math/big variables")
			}
		}
	case *ast.AssignStmt:
		for k, l := range n.Lhs {
			lt := t.info.Types[l].Type
			if id, ok := l.(*ast.Ident); ok && lt == nil {
				if o := t.info.Defs[id]; o != nil {
					lt = o.Type()
				}
			}
			if ix, ok := unparen(l).(*ast.IndexExpr); ok && isBigWords(t.info.Types[ix.X].Type) {
				unsupported(n, "assignment into []big.Word")
				continue
			}
			if lt == nil || !(isBigPtr(lt) || isBigWords(lt)) {
				continue
			}
			F.big = true
			id, isId := unparen(l).(*ast.Ident)
			if isId && k == 0 && len(n.Rhs) == 1 && len(n.Lhs) == 2 && (n.Tok == token.ASSIGN || n.Tok == token.DEFINE) {
				// r, acc := x.Rat(nil): a fresh *big.Rat
				if _, _, key, isM := bigMethodCall(n.Rhs[0]); isM && bigMethods[key].fresh {
					continue
				}
			}
			if !isId || len(n.Lhs) != len(n.Rhs) || (n.Tok != token.ASSIGN && n.Tok != token.DEFINE) {
				unsupported(n, "assignment of math/big pointers other than `x = e` / `x := e`")
				continue
			}
			if id.Name == "_" {
				continue
			}
			var v *types.Var
			if o, ok := t.info.Defs[id].(*types.Var); ok {
				v = o
			} else if o, ok := t.info.Uses[id].(*types.Var); ok {
				v = o
			}
			if v == nil || v.Parent() == t.pkg.Scope() {
				unsupported(n, "assignment of a math/big pointer to a package-level variable")
				continue
			}
			t.bigAssign(F, n, v, n.Rhs[k], unsupported)
		}
	case *ast.CallExpr:
		if tv, ok := t.info.Types[n.Fun]; ok && tv.IsType() {
			return false, true // a conversion (big.RoundingMode(m), …): general analysis
		}
		if call, kind, ok := bigAlloc(n); ok {
			F.big = true
			if kind == "NewInt" {
				okSel(call.Fun.(*ast.SelectorExpr))
				return true, true
			}
			return true, false // new(big.Int): nothing to visit but the type
		}
		if call, sel, key, ok := bigMethodCall(n); ok {
			F.big = true
			m, known := bigMethods[key]
			if !known {
				unsupported(n, "math/big method "+key+" is not modelled")
				return true, false
			}
			if m.monadic {
				F.local = true
			}
			if m.nilArg >= 0 && (len(call.Args) <= m.nilArg || !isNilIdent(call.Args[m.nilArg])) {
				unsupported(n, "math/big method "+key+" is only modelled with a nil argument "+fmt.Sprint(m.nilArg))
			}
			if m.writes {
				v, ok := bigDenotes(sel.X)
				if !ok {
					unsupported(n, "receiver of "+key+" is not a variable or a fresh math/big value")
				}
				targets := map[*types.Var]bool{}
				if v != nil {
					targets[v] = true
					F.bigI().writes = append(F.bigI().writes, bigWrite{v, n.Pos()})
				}
				for _, k := range m.out {
					if k >= len(call.Args) {
						continue
					}
					w := bigVarOf(call.Args[k])
					if w == nil {
						if _, _, isAlloc := bigAlloc(call.Args[k]); !isAlloc {
							unsupported(n, "argument of "+key+" that is stored into is not a variable")
						}
						continue
					}
					if targets[w] {
						unsupported(n, key+" stores two results into one variable")
					}
					targets[w] = true
					F.bigI().writes = append(F.bigI().writes, bigWrite{w, n.Pos()})
				}
			}
			if m.ref {
				// only `name := x.Num()` etc. (bigAssign) may keep such a result; anything else
				// uses it on the spot, which is a read
				if bigVarOf(sel.X) == nil {
					unsupported(n, "receiver of "+key+" is not a variable")
				}
			}
			return true, true
		}
		if path, name, _, isF := foreignFunc(n.Fun); isF && path == bigPath {
			unsupported(n, "call of "+name+" is not modelled")
			return true, false
		}
		// len(b) of a []big.Word is handled by the general analysis (builtin len)
	}
	return false, true
}

// bigAssign checks `v = rhs` / `v := rhs` / `var v = rhs` for a big variable: the right-hand side
// must be a fresh object, or the object v already denotes (a chain of storing methods on v), or a
// reference result (Num, Denom, Bits) of another variable, which is recorded for checkBigFlow.
// Copying a pointer (`x = y`) would create a second name for one object and is refused.
func (t *tr) bigAssign(F *fn, at ast.Node, v *types.Var, rhs ast.Expr, unsupported func(ast.Node, string)) {
	if isBigWords(v.Type()) {
		_, sel, key, ok := bigMethodCall(rhs)
		if !ok || key != "Int.Bits" {
			unsupported(at, "[]big.Word that is not the result of Bits()")
			return
		}
		if of := bigVarOf(sel.X); of != nil {
			F.bigI().refs = append(F.bigI().refs, bigRef{name: v, of: of, from: at.Pos()})
		}
		return
	}
	if w, ok := bigDenotes(rhs); ok && (w == nil || w == v) {
		return
	}
	if _, sel, key, ok := bigMethodCall(rhs); ok && bigMethods[key].ref {
		if of := bigVarOf(sel.X); of != nil {
			F.bigI().refs = append(F.bigI().refs, bigRef{name: v, of: of, from: at.Pos()})
			return
		}
	}
	unsupported(at, "math/big pointer assigned from something that is not a fresh value (aliasing)")
}

// checkBigFlow runs after the body of F has been analysed.
func (t *tr) checkBigFlow(F *fn, unsupported func(ast.Node, string)) {
	B := F.bigInf
	if B == nil {
		return
	}
	// 1. A reference result (num := r.Num(), b := i.Bits()) is copied as a value. That is sound
	// as long as neither object is stored into while both are live: refuse any store at or
	// after the copy (from the start of the outermost enclosing loop, if the copy is in a loop).
	for _, r := range B.refs {
		from := r.from
		for _, l := range B.loops {
			if l[0] <= r.from && r.from < l[1] && l[0] < from {
				from = l[0]
			}
		}
		for _, w := range B.writes {
			if (w.v == r.name || w.v == r.of) && w.pos >= from {
				unsupported(F.decl, fmt.Sprintf("%s shares memory with %s and one of them is stored into afterwards", r.name.Name(), r.of.Name()))
			}
		}
	}
	// 2. Which parameters does F store into? A store into p counts unless an assignment
	// `p = <fresh>` that is a statement of an enclosing block precedes it (then p no longer
	// denotes the caller's object: bigAssign only admits fresh values).
	sig := F.obj.Type().(*types.Signature)
	params := map[*types.Var]bool{}
	for k := 0; k < sig.Params().Len(); k++ {
		if p := sig.Params().At(k); isBigPtr(p.Type()) {
			params[p] = true
		}
	}
	stored := map[*types.Var]bool{}
	var walk func(list []ast.Stmt, rebound map[*types.Var]bool)
	stores := func(n ast.Node, rebound map[*types.Var]bool) {
		if n == nil {
			return
		}
		for _, w := range B.writes {
			if n.Pos() <= w.pos && w.pos < n.End() && params[w.v] && !rebound[w.v] {
				stored[w.v] = true
			}
		}
	}
	copyOf := func(m map[*types.Var]bool) map[*types.Var]bool {
		c := map[*types.Var]bool{}
		for k, v := range m {
			c[k] = v
		}
		return c
	}
	walk = func(list []ast.Stmt, rebound map[*types.Var]bool) {
		for _, s := range list {
			switch s := s.(type) {
			case *ast.BlockStmt:
				walk(s.List, copyOf(rebound))
			case *ast.IfStmt:
				if s.Init != nil {
					stores(s.Init, rebound)
				}
				stores(s.Cond, rebound)
				walk(s.Body.List, copyOf(rebound))
				if s.Else != nil {
					walk([]ast.Stmt{s.Else}, copyOf(rebound))
				}
			case *ast.ForStmt:
				if s.Init != nil {
					stores(s.Init, rebound)
				}
				if s.Cond != nil {
					stores(s.Cond, rebound)
				}
				if s.Post != nil {
					stores(s.Post, rebound)
				}
				walk(s.Body.List, copyOf(rebound))
			case *ast.SwitchStmt:
				if s.Init != nil {
					stores(s.Init, rebound)
				}
				if s.Tag != nil {
					stores(s.Tag, rebound)
				}
				for _, c := range s.Body.List {
					cc := c.(*ast.CaseClause)
					for _, x := range cc.List {
						stores(x, rebound)
					}
					walk(cc.Body, copyOf(rebound))
				}
			case *ast.LabeledStmt:
				walk([]ast.Stmt{s.Stmt}, rebound)
			default:
				stores(s, rebound)
				if a, ok := s.(*ast.AssignStmt); ok && a.Tok == token.ASSIGN && len(a.Lhs) == 1 {
					if v := bigVarOf(a.Lhs[0]); v != nil && params[v] {
						if w, ok := bigDenotes(a.Rhs[0]); ok && w == nil {
							rebound[v] = true
						}
					}
				}
			}
		}
	}
	walk(F.decl.Body.List, map[*types.Var]bool{})
	for k := 0; k < sig.Params().Len(); k++ {
		p := sig.Params().At(k)
		if !stored[p] {
			continue
		}
		B.stored = append(B.stored, p.Name())
		F.bigStoredParam = append(F.bigStoredParam, k)
		// The model returns values only: what F leaves in the caller's object must also be a
		// result of F (Decimal.Int, Decimal.Rat return the pointer they were given), on every
		// return.
		returned := true
		nret := 0
		ast.Inspect(F.decl.Body, func(n ast.Node) bool {
			if _, isLit := n.(*ast.FuncLit); isLit {
				return false
			}
			r, ok := n.(*ast.ReturnStmt)
			if !ok {
				return true
			}
			nret++
			found := false
			for _, x := range r.Results {
				if v, ok := bigDenotes(x); ok && v == p {
					found = true
				}
			}
			returned = returned && found
			return true
		})
		if !returned || nret == 0 {
			unsupported(F.decl, "stores into its math/big argument "+p.Name()+" without returning it")
		}
	}
}

// checkBigCalls runs once all functions have been analysed: calls of package functions that take
// or return math/big pointers. The model passes values, so a callee that stores into its argument
// (Decimal.Int, Decimal.Rat) may only be given a fresh object, and a result of pointer type is
// refused (it may be the argument itself).
func (t *tr) checkBigCalls(F *fn) {
	if F.skip != "" || F.decl.Body == nil {
		return
	}
	ast.Inspect(F.decl.Body, func(n ast.Node) bool {
		call, ok := n.(*ast.CallExpr)
		if !ok || F.skip != "" {
			return true
		}
		if _, isPkg := isPkgCall(call); !isPkg {
			return true
		}
		C := t.funcs[calleeOf(call)]
		if C == nil {
			return true
		}
		csig := C.obj.Type().(*types.Signature)
		for k := 0; k < csig.Results().Len(); k++ {
			if isBigPtr(csig.Results().At(k).Type()) {
				F.skip = fmt.Sprintf("call of %s, which returns a math/big pointer (%s)", C.name, t.fset.Position(call.Pos()))
				return false
			}
		}
		for _, k := range C.bigStoredParam {
			if k < len(call.Args) {
				if v, ok := bigDenotes(call.Args[k]); !ok || v != nil {
					F.skip = fmt.Sprintf("%s stores into its math/big argument (%s)", C.name, t.fset.Position(call.Pos()))
					return false
				}
			}
		}
		return true
	})
}

// ---------------------------------------------------------------- emission

func bigLeanNS(key string) string {
	p := strings.SplitN(key, ".", 2)
	return "Go.Big" + p[0] + "." + p[1]
}

// bigCall translates allocations and method calls of this layer in expression position. The
// value of a storing method is the new value of its receiver; if the receiver denotes a variable
// the assignment to it is hoisted in front of the statement being built.
func (e *em) bigCall(x *ast.CallExpr) (string, bool) {
	if call, kind, ok := bigAlloc(x); ok {
		switch kind {
		case "newInt":
			return "(0 : Go.BigInt)", true // new(big.Int): the value 0
		case "newRat":
			return "(0 : Go.BigRat)", true // new(big.Rat): the value 0
		case "newFloat":
			return "Go.BigFloat.new", true // new(big.Float): +0 with precision 0, ToNearestEven
		}
		// big.NewInt(k): the value k
		if tv := T.info.Types[call.Args[0]]; tv.Value != nil {
			return "(" + constant.ToInt(tv.Value).ExactString() + " : Go.BigInt)", true
		}
		return "(Go.BigInt.NewInt " + paren(e.expr(call.Args[0])) + ")", true
	}
	call, sel, key, ok := bigMethodCall(x)
	if !ok {
		return "", false
	}
	m, known := bigMethods[key]
	if !known {
		e.fail(x, "math/big method %s", key)
	}
	msig := T.info.Selections[sel].Obj().Type().(*types.Signature)
	var target *types.Var
	var args []string
	if m.writes {
		// the receiver expression is evaluated for its effects (a chain `i.Lsh(i, 64).Or(…)`
		// stores into i first); its value is overwritten
		v, ok := bigDenotes(sel.X)
		if !ok {
			e.fail(x, "receiver of %s", key)
		}
		target = v
		if m.recv {
			// big.Float: the result depends on the receiver (precision, mode). Evaluating the
			// receiver expression runs a chain's earlier stores and yields the current value.
			args = append(args, paren(e.expr(sel.X)))
		} else if _, isCall := unparen(sel.X).(*ast.CallExpr); isCall {
			_ = e.expr(sel.X)
		}
	} else {
		args = append(args, paren(e.expr(sel.X)))
	}
	outs := map[int]*types.Var{}
	for _, k := range m.out {
		outs[k] = bigVarOf(call.Args[k])
	}
	for k, a := range call.Args {
		if k == m.nilArg {
			continue
		}
		if _, isOut := outs[k]; isOut {
			continue // only stored into: its value is not an input
		}
		var pt types.Type
		if k < msig.Params().Len() {
			pt = msig.Params().At(k).Type()
		}
		args = append(args, paren(e.exprAs(a, pt)))
	}
	term := bigLeanNS(key)
	if len(args) > 0 {
		term += " " + strings.Join(args, " ")
	}
	if len(m.out) > 0 {
		// (receiver, out…) ← f args
		temps := []string{e.fresh("r")}
		for range m.out {
			temps = append(temps, e.fresh("r"))
		}
		bind := ":="
		if m.monadic {
			bind = "←"
		}
		e.pre = append(e.pre, fmt.Sprintf("let (%s) %s %s", strings.Join(temps, ", "), bind, term))
		if target != nil || len(outs) > 0 {
			e.noAssignInCond(x)
		}
		val := temps[0]
		if target != nil {
			e.pre = append(e.pre, e.names[target]+" := "+temps[0])
			val = e.names[target]
		}
		for i, k := range m.out {
			if w := outs[k]; w != nil {
				e.pre = append(e.pre, e.names[w]+" := "+temps[1+i])
			}
		}
		return val, true
	}
	if m.monadic {
		tmp := e.fresh("t")
		e.pre = append(e.pre, fmt.Sprintf("let %s ← %s", tmp, term))
		term = tmp
	} else {
		term = "(" + term + ")"
	}
	if target != nil {
		e.noAssignInCond(x)
		e.pre = append(e.pre, e.names[target]+" := "+term)
		return e.names[target], true
	}
	return term, true
}

func (e *em) noAssignInCond(x ast.Node) {
	if e.inCond > 0 {
		e.fail(x, "storing math/big method in the right operand of && / ||")
	}
}

// bigStmt translates an expression statement that is a method call of this layer.
func (e *em) bigStmt(call *ast.CallExpr, ind string, out *[]string) bool {
	if _, _, _, ok := bigMethodCall(call); !ok {
		return false
	}
	_, _ = e.bigCall(call)
	e.flush(ind, out)
	return true
}

// bigIndex: b[i] for b a []big.Word (bounds-checked).
func (e *em) bigIndex(x *ast.IndexExpr) string {
	t := e.fresh("t")
	e.pre = append(e.pre, fmt.Sprintf("let %s ← Go.BigInt.wget %s %s", t, paren(e.expr(x.X)), e.intTerm(x.Index)))
	return t
}

// bigMutated: the variables of F that storing methods write (for `let mut` on parameters).
func bigMutated(n *ast.CallExpr, mark func(ast.Expr)) bool {
	call, sel, key, ok := bigMethodCall(n)
	if !ok {
		return false
	}
	m := bigMethods[key]
	if m.writes {
		if v, ok := bigDenotes(sel.X); ok && v != nil {
			mark(rootOfChain(sel.X))
		}
	}
	for _, k := range m.out {
		if k < len(call.Args) {
			mark(call.Args[k])
		}
	}
	return true
}

func rootOfChain(x ast.Expr) ast.Expr {
	for {
		x = unparen(x)
		c, ok := x.(*ast.CallExpr)
		if !ok {
			return x
		}
		s, ok := c.Fun.(*ast.SelectorExpr)
		if !ok {
			return x
		}
		x = s.X
	}
}

// bigReport gives the report.json fields of this layer.
func (F *fn) bigReport() (nilDefaulted, stored []string) {
	if F.bigInf == nil {
		return nil, nil
	}
	for v := range F.bigInf.nilDefault {
		nilDefaulted = append(nilDefaulted, v.Name())
	}
	sort.Strings(nilDefaulted)
	return nilDefaulted, F.bigInf.stored
}

// bigNilDefaulted: is parameter k of F covered by the nil-defaulting idiom?
func (F *fn) bigNilDefaulted(p *types.Var) bool {
	return F.bigInf != nil && F.bigInf.nilDefault[p] != nil
}
