package main

// big.Float part of the math/big layer: brings Decimal.Float and FromFloat into the generated
// model. The Lean side is lean/D128/Go/BigFloat.lean; README.md ("big.Float layer") repeats the
// decisions. What is shared with *big.Int / *big.Rat (values instead of objects, the variable a
// receiver expression denotes, the aliasing checks, the documented store into a non-nil result
// argument) is in big.go; this file holds what differs:
//
//   - a storing method reads its receiver (bigMethod.recv, big.go);
//   - a nil *big.Float argument is NOT the same as new(big.Float) (Decimal.Float(nil) of an infinity
//     has precision 0, Decimal.Float(new(big.Float)) has precision 128), so a parameter that is
//     compared with nil becomes an `Option Go.BigFloat` and the comparison a test of that option.
//     checkNilFlow admits the comparison only where it can tell what it means;
//   - big.RoundingMode and big.Accuracy are UInt8 / Int8.

import (
	"go/ast"
	"go/token"
	"go/types"
)

func isBigFloatPtr(t types.Type) bool {
	if !isBigPtr(t) {
		return false
	}
	n, _ := bigNamed(t)
	return n == "Float"
}

// bigEnumLeanType: big.RoundingMode (a byte: ToNearestEven = 0 … ToPositiveInf = 5) and
// big.Accuracy (an int8: Below = -1, Exact = 0, Above = +1).
func bigEnumLeanType(t types.Type) (string, bool) {
	n, ok := t.(*types.Named)
	if !ok || n.Obj().Pkg() == nil || n.Obj().Pkg().Path() != bigPath {
		return "", false
	}
	switch n.Obj().Name() {
	case "RoundingMode":
		return "UInt8", true
	case "Accuracy":
		return "Int8", true
	}
	return "", false
}

// floatNilTest recognises `p == nil` / `p != nil` (either order) for a *big.Float variable p.
func floatNilTest(x ast.Expr) (v *types.Var, neq bool, ok bool) {
	b, isBin := unparen(x).(*ast.BinaryExpr)
	if !isBin || (b.Op != token.EQL && b.Op != token.NEQ) {
		return nil, false, false
	}
	var other ast.Expr
	switch {
	case isNilIdent(unparen(b.Y)):
		other = b.X
	case isNilIdent(unparen(b.X)):
		other = b.Y
	default:
		return nil, false, false
	}
	v = bigVarOf(other)
	if v == nil || !isBigFloatPtr(v.Type()) {
		return nil, false, false
	}
	return v, b.Op == token.NEQ, true
}

// What is known about a nil-tested parameter at a program point.
type nilState int

const (
	nilNo    nilState = iota // points to an object (tested non-nil, or assigned a fresh object)
	nilOrig                  // still the argument as passed: nil or not
	nilYes                   // the argument, known to be nil
	nilMixed                 // assigned on some paths only: the model has no name for "is it nil now?"
)

// checkNilFlow decides what the comparisons of *big.Float parameters with nil mean.
//
// In Lean such a parameter p is `Option Go.BigFloat`; the function starts with
// `let p_nil := Go.BigFloat.isNil p` and `let [mut] p : Go.BigFloat := Go.BigFloat.ofPtr p` (the object
// p points to; for a nil p a placeholder that must never be read). `p == nil` becomes `p_nil`, i.e.
// "the ARGUMENT was nil". That is what the Go test means only while p has not been assigned, and the
// placeholder is never read only if p is not used while it may be nil. So, walking the body:
//   - a comparison is admitted only as the whole condition of an `if` statement that is reached with
//     p still as passed (nilOrig); the branches continue with p known nil / non-nil;
//   - while p is nil or may be nil, the only thing that may mention it is an assignment `p = <fresh
//     object>` (bigAssign admits nothing else on the right), after which p points to an object;
//   - where paths that disagree meet, p may not be mentioned any more (nilMixed);
//   - loops, switches and labelled statements may only mention p when it points to an object.
//
// A *big.Float that is never compared with nil is taken to be non-nil (a precondition of the
// model: FromFloat(nil) dereferences nil in Go).
func (t *tr) checkNilFlow(F *fn, unsupported func(ast.Node, string)) {
	B := F.bigInf
	if B == nil || len(B.nilTests) == 0 {
		return
	}
	sig := F.obj.Type().(*types.Signature)
	init := map[*types.Var]nilState{}
	for _, v := range B.nilTestSeq {
		isParam := false
		for k := 0; k < sig.Params().Len(); k++ {
			isParam = isParam || sig.Params().At(k) == v
		}
		if !isParam {
			unsupported(B.nilTests[v][0], "nil test of a *big.Float that is not a parameter")
			return
		}
		init[v] = nilOrig
	}
	admitted := map[*ast.BinaryExpr]bool{}
	copyOf := func(m map[*types.Var]nilState) map[*types.Var]nilState {
		c := map[*types.Var]nilState{}
		for k, v := range m {
			c[k] = v
		}
		return c
	}
	// uses: every mention of a tested parameter inside n needs an object behind it
	uses := func(n ast.Node, st map[*types.Var]nilState, skip *ast.Ident) {
		if n == nil {
			return
		}
		ast.Inspect(n, func(m ast.Node) bool {
			id, ok := m.(*ast.Ident)
			if !ok || id == skip {
				return true
			}
			if v, ok := t.info.Uses[id].(*types.Var); ok {
				if s, tested := st[v]; tested && s != nilNo {
					unsupported(id, "use of the *big.Float parameter "+v.Name()+" where it may be nil")
				}
			}
			return true
		})
	}
	terminates := func(s ast.Stmt) bool {
		switch s := s.(type) {
		case *ast.ReturnStmt:
			return true
		case *ast.ExprStmt:
			if c, ok := s.X.(*ast.CallExpr); ok {
				if _, isPanic := isBuiltinCall(c, "panic"); isPanic {
					return true
				}
			}
		}
		return false
	}
	var walk func(list []ast.Stmt, st map[*types.Var]nilState) bool // true: control does not reach the end
	walk = func(list []ast.Stmt, st map[*types.Var]nilState) bool {
		for _, s := range list {
			switch s := s.(type) {
			case *ast.BlockStmt:
				if walk(s.List, st) {
					return true
				}
			case *ast.IfStmt:
				if s.Init != nil {
					uses(s.Init, st, nil)
				}
				thenSt, elseSt := copyOf(st), copyOf(st)
				if v, neq, ok := floatNilTest(s.Cond); ok && st[v] == nilOrig {
					admitted[unparen(s.Cond).(*ast.BinaryExpr)] = true
					if neq {
						thenSt[v], elseSt[v] = nilNo, nilYes
					} else {
						thenSt[v], elseSt[v] = nilYes, nilNo
					}
				} else {
					uses(s.Cond, st, nil) // a nil test in here is not admitted: reported at the end
				}
				t1 := walk(s.Body.List, thenSt)
				t2 := false
				if s.Else != nil {
					t2 = walk([]ast.Stmt{s.Else}, elseSt)
				}
				if t1 && t2 {
					return true
				}
				for v := range st {
					switch {
					case t1:
						st[v] = elseSt[v]
					case t2:
						st[v] = thenSt[v]
					case thenSt[v] == elseSt[v]:
						st[v] = thenSt[v]
					default:
						st[v] = nilMixed
					}
				}
			case *ast.AssignStmt:
				var skip *ast.Ident
				var assigned *types.Var
				if s.Tok == token.ASSIGN && len(s.Lhs) == 1 && len(s.Rhs) == 1 {
					if v := bigVarOf(s.Lhs[0]); v != nil {
						if _, tested := st[v]; tested {
							skip, _ = unparen(s.Lhs[0]).(*ast.Ident)
							assigned = v
						}
					}
				}
				uses(s, st, skip)
				if assigned != nil {
					st[assigned] = nilNo // bigAssign: the right-hand side is a fresh object
				}
			default:
				uses(s, st, nil)
				if terminates(s) {
					return true
				}
			}
		}
		return false
	}
	walk(F.decl.Body.List, init)
	for _, v := range B.nilTestSeq {
		for _, c := range B.nilTests[v] {
			if !admitted[c] {
				unsupported(c, "nil test of the *big.Float parameter "+v.Name()+" that is not the condition of an if statement reached before "+v.Name()+" is assigned")
			}
		}
	}
}

// bigNilTested: is parameter p of F compared with nil (and therefore an Option in Lean)?
func (F *fn) bigNilTested(p *types.Var) bool {
	return F.bigInf != nil && len(F.bigInf.nilTests[p]) > 0
}

// paramLeanType is the Lean type of parameter p in the signature of F.
func (F *fn) paramLeanType(p *types.Var) string {
	if F.bigNilTested(p) {
		return "Option " + leanType(p.Type())
	}
	return leanType(p.Type())
}

// nilFlagName is the Lean name of "the argument p was nil".
func (e *em) nilFlagName(at ast.Node, p *types.Var) string {
	if n, ok := e.nilNames[p]; ok {
		return n
	}
	e.fail(at, "nil test of %s, which is not a nil-tested parameter", p.Name())
	return ""
}

// declareNilFlag picks the name of the flag once the parameter names are known.
func (e *em) declareNilFlag(p *types.Var) string {
	if e.nilNames == nil {
		e.nilNames = map[*types.Var]string{}
	}
	base := e.names[p] + "_nil"
	n := base
	for k := 1; e.used[n]; k++ {
		n = base + "_" + string(rune('0'+k))
	}
	e.used[n] = true
	e.nilNames[p] = n
	return n
}

// callsNilTested: a caller would have to pass `none` / `some x`; nothing in the package calls
// such a function, so it is refused rather than modelled.
func (t *tr) callsNilTested(F *fn) string {
	var why string
	ast.Inspect(F.decl.Body, func(n ast.Node) bool {
		call, ok := n.(*ast.CallExpr)
		if !ok || why != "" {
			return true
		}
		if _, isPkg := isPkgCall(call); !isPkg {
			return true
		}
		C := t.funcs[calleeOf(call)]
		if C == nil || C.bigInf == nil || len(C.bigInf.nilTests) == 0 {
			return true
		}
		why = "call of " + C.name + ", which compares a *big.Float argument with nil (" + t.fset.Position(call.Pos()).String() + ")"
		return false
	})
	return why
}
