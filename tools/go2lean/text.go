package main

// Text layer: the constructs needed to bring the byte-string emitters (format.go, json.go, the
// String methods, Decompose, MustParse) into the generated model. Each modelling decision is
// stated where it is implemented and repeated in README.md ("Text layer").
//
// Functions that use any of these constructs (directly or through a callee) are flagged `text`
// and placed in separate <File>Text modules (see modFile in emit.go), so that the text of the
// modules that existed before stays byte-identical: the Lean proofs are tied to it.

import (
	"fmt"
	"go/ast"
	"go/token"
	"go/types"
)

// foreignErrs maps error types of other packages to constructors of Go.Err (Prelude). As for the
// package's own error types, the payload fields are not part of the model value; unlike there, the
// field initialisers ARE evaluated for their effects (a `d.String()` in a field may panic first).
var foreignErrs = map[string]string{
	"encoding/json.UnsupportedValueError": "jsonUnsupportedValue",
	"encoding/json.UnmarshalTypeError":    "jsonUnmarshalType",
}

// pureForeign lists functions of other packages that are total, have no effect and whose result
// only ever feeds a dropped payload (error fields, panic messages): they are evaluated for the
// effects of their arguments only.
var pureForeign = map[string]bool{
	"reflect.ValueOf": true,
	"reflect.TypeOf":  true,
}

// messageForeign lists total, effect-free functions of other packages that may occur inside the
// argument of panic(...): the model drops the message of a panic (Go.Panic.explicit carries the
// text only for constant messages), so these calls need no model.
var messageForeign = map[string]bool{
	"strconv.Quote":      true,
	"strconv.Itoa":       true,
	"strconv.FormatInt":  true,
	"strconv.FormatUint": true,
	"fmt.Sprintf":        true,
	"fmt.Sprint":         true,
}

func foreignErr(t types.Type) (string, bool) {
	if p, ok := t.(*types.Pointer); ok {
		t = p.Elem()
	}
	n, ok := t.(*types.Named)
	if !ok || n.Obj().Pkg() == nil || n.Obj().Pkg() == T.pkg {
		return "", false
	}
	c, ok := foreignErrs[n.Obj().Pkg().Path()+"."+n.Obj().Name()]
	return c, ok
}

// foreignFunc recognises `pkg.Func` where pkg is an imported package; it returns the import path,
// the short name "pkg.Func" and the selector.
func foreignFunc(fun ast.Expr) (path, name string, sel *ast.SelectorExpr, ok bool) {
	sel, ok = fun.(*ast.SelectorExpr)
	if !ok {
		return
	}
	id, ok2 := sel.X.(*ast.Ident)
	if !ok2 {
		return "", "", nil, false
	}
	pn, ok2 := T.info.Uses[id].(*types.PkgName)
	if !ok2 {
		return "", "", nil, false
	}
	return pn.Imported().Path(), pn.Imported().Name() + "." + sel.Sel.Name, sel, true
}

func isBuiltinCall(x ast.Expr, name string) (*ast.CallExpr, bool) {
	c, ok := x.(*ast.CallExpr)
	if !ok {
		return nil, false
	}
	id, ok := c.Fun.(*ast.Ident)
	if !ok {
		return nil, false
	}
	b, ok := T.info.Uses[id].(*types.Builtin)
	if !ok || b.Name() != name {
		return nil, false
	}
	return c, true
}

func sameVar(a, b ast.Expr) bool {
	x, ok1 := a.(*ast.Ident)
	y, ok2 := b.(*ast.Ident)
	if !ok1 || !ok2 {
		return false
	}
	o := T.info.Uses[x]
	return o != nil && o == T.info.Uses[y]
}

// unsafeString recognises
//
//	unsafe.String(unsafe.SliceData(b), len(b))   and   unsafe.String(&b[0], len(b))
//
// for a byte-slice variable b. Strings and byte slices are both Go.Bytes (values), so the result is
// b itself; the second form panics for an empty b (index out of range), the first does not.
func unsafeString(x *ast.CallExpr) (b ast.Expr, viaIndex bool, sels []*ast.SelectorExpr, ok bool) {
	path, name, sel, isF := foreignFunc(x.Fun)
	if !isF || path != "unsafe" || name != "unsafe.String" || len(x.Args) != 2 {
		return
	}
	l, isLen := isBuiltinCall(x.Args[1], "len")
	if !isLen {
		return
	}
	sels = append(sels, sel)
	switch p := x.Args[0].(type) {
	case *ast.CallExpr:
		path2, name2, sel2, isF2 := foreignFunc(p.Fun)
		if !isF2 || path2 != "unsafe" || name2 != "unsafe.SliceData" || len(p.Args) != 1 {
			return nil, false, nil, false
		}
		if !sameVar(p.Args[0], l.Args[0]) || !isBytesLike(T.info.Types[p.Args[0]].Type) {
			return nil, false, nil, false
		}
		return p.Args[0], false, append(sels, sel2), true
	case *ast.UnaryExpr:
		ix, isIx := p.X.(*ast.IndexExpr)
		if p.Op != token.AND || !isIx {
			return nil, false, nil, false
		}
		if tv := T.info.Types[ix.Index]; tv.Value == nil || tv.Value.ExactString() != "0" {
			return nil, false, nil, false
		}
		if !sameVar(ix.X, l.Args[0]) || !isBytesLike(T.info.Types[ix.X].Type) {
			return nil, false, nil, false
		}
		return ix.X, true, sels, true
	}
	return nil, false, nil, false
}

// messageCalls checks that x (the argument of panic) is built from constants, variables, string
// concatenation, conversions and messageForeign calls only, and collects the names of the latter.
func messageCalls(x ast.Expr, calls *[]string, sels *[]*ast.SelectorExpr) bool {
	if isConst(x) {
		return true
	}
	switch x := x.(type) {
	case *ast.ParenExpr:
		return messageCalls(x.X, calls, sels)
	case *ast.Ident:
		_, ok := T.info.Uses[x].(*types.Var)
		return ok
	case *ast.BinaryExpr:
		return x.Op == token.ADD && messageCalls(x.X, calls, sels) && messageCalls(x.Y, calls, sels)
	case *ast.CallExpr:
		if tv, ok := T.info.Types[x.Fun]; ok && tv.IsType() {
			return len(x.Args) == 1 && messageCalls(x.Args[0], calls, sels)
		}
		_, name, sel, ok := foreignFunc(x.Fun)
		if !ok || !messageForeign[name] {
			return false
		}
		for _, a := range x.Args {
			if !messageCalls(a, calls, sels) {
				return false
			}
		}
		*calls = append(*calls, name)
		*sels = append(*sels, sel)
		return true
	}
	return false
}

func isByteArray(t types.Type) bool {
	if p, ok := t.(*types.Pointer); ok {
		t = p.Elem()
	}
	if _, ok := isMultiWord(t); ok {
		return false
	}
	a, ok := under(t).(*types.Array)
	if !ok {
		return false
	}
	b, ok := under(a.Elem()).(*types.Basic)
	return ok && b.Kind() == types.Uint8
}

func isStringType(t types.Type) bool {
	b, ok := under(t).(*types.Basic)
	return ok && (b.Kind() == types.String || b.Kind() == types.UntypedString)
}

// analyseText is called for every node before the general analysis. handled=true means the
// general analysis must not look at this node itself; descend tells whether to visit its children.
func (t *tr) analyseText(F *fn, n ast.Node, unsupported func(ast.Node, string)) (handled, descend bool) {
	ok := func(s *ast.SelectorExpr) {
		if F.okSel == nil {
			F.okSel = map[*ast.SelectorExpr]bool{}
		}
		F.okSel[s] = true
	}
	switch n := n.(type) {
	case *ast.SelectorExpr:
		if F.okSel[n] {
			return true, false
		}
	case *ast.SliceExpr:
		if isByteArray(t.info.Types[n.X].Type) {
			F.text = true // a[lo:hi] of a byte array: Go.vslice
		}
	case *ast.BinaryExpr:
		if n.Op == token.ADD && !isConst(n) && isStringType(t.info.Types[n].Type) {
			F.text = true // string concatenation: ++
		}
	case *ast.AssignStmt:
		if n.Tok == token.ADD_ASSIGN && isStringType(t.info.Types[n.Lhs[0]].Type) {
			F.text = true
		}
	case *ast.UnaryExpr:
		if cl, isLit := n.X.(*ast.CompositeLit); isLit && n.Op == token.AND {
			if _, isErr := foreignErr(t.info.Types[cl].Type); isErr {
				if s, isSel := cl.Type.(*ast.SelectorExpr); isSel {
					ok(s)
				}
				F.text = true
				return true, true
			}
		}
	case *ast.CallExpr:
		if c, isPanic := isBuiltinCall(n, "panic"); isPanic && len(c.Args) == 1 && !isConst(c.Args[0]) {
			var calls []string
			var sels []*ast.SelectorExpr
			if messageCalls(c.Args[0], &calls, &sels) && len(calls) > 0 {
				F.local = true
				F.text = true
				F.dropped = append(F.dropped, calls...)
				return true, false
			}
		}
		if id, isId := n.Fun.(*ast.Ident); isId {
			if b, isB := t.info.Uses[id].(*types.Builtin); isB {
				switch b.Name() {
				case "cap":
					// byte slices are values without spare capacity: cap(b) is len(b)
					if !isBytesLike(t.info.Types[n.Args[0]].Type) {
						unsupported(n, "cap of non-byte-slice")
					}
					F.text = true
					return true, true
				case "copy":
					F.text = true
					F.local = true
					return true, true
				case "make":
					if isBytesLike(t.info.Types[n].Type) && (len(n.Args) == 3 || (len(n.Args) == 2 && !isConst(n.Args[1]))) {
						F.text = true
						F.local = true // Go.makeBytes throws .makeslice
						return true, true
					}
				}
			}
			return false, true
		}
		if _, viaIndex, sels, isUS := unsafeString(n); isUS {
			for _, s := range sels {
				ok(s)
			}
			if viaIndex {
				F.local = true
			}
			F.text = true
			return true, false
		}
		path, name, sel, isF := foreignFunc(n.Fun)
		if !isF || path == "unsafe" {
			return false, true
		}
		if (path == "math/bits" && bitsFuncs[sel.Sel.Name]) || (path == "math" && mathFuncs[sel.Sel.Name]) || (path == "errors" && sel.Sel.Name == "New") {
			return false, true
		}
		if pureForeign[name] {
			ok(sel)
			F.text = true
			return true, true
		}
		// Any other call of a function of another package: the model stops with
		// Go.Panic.unmodelled "<pkg.Func>" after evaluating the arguments, provided the call has
		// at most one result, of a translatable type (so that the surrounding code stays
		// type-correct: the result is bound from the `throw`).
		sig, isSig := t.info.Types[n.Fun].Type.(*types.Signature)
		if !isSig || sig.Results().Len() > 1 {
			return false, true
		}
		if sig.Results().Len() == 1 {
			if _, err := leanTypeE(sig.Results().At(0).Type()); err != nil {
				return false, true
			}
		}
		ok(sel)
		F.unmodelled = append(F.unmodelled, name)
		F.local = true
		F.text = true
		return true, true
	}
	return false, true
}

// ---------------------------------------------------------------- emission

// effects evaluates x for its effects only (panics, non-termination of calls into the package):
// used for the arguments of unmodelled calls and the fields of foreign error values, whose values
// the model drops. Sub-expressions of translatable type are translated as usual (their hoisted
// binds are kept, the term is dropped).
func (e *em) effects(x ast.Expr) {
	if isConst(x) {
		return
	}
	switch y := x.(type) {
	case *ast.ParenExpr:
		e.effects(y.X)
		return
	case *ast.Ident:
		return
	case *ast.KeyValueExpr:
		e.effects(y.Value)
		return
	case *ast.UnaryExpr:
		if cl, ok := y.X.(*ast.CompositeLit); ok && y.Op == token.AND {
			if _, isErr := foreignErr(T.info.Types[cl].Type); isErr {
				for _, el := range cl.Elts {
					e.effects(el)
				}
				return
			}
		}
	case *ast.CallExpr:
		if tv, ok := T.info.Types[y.Fun]; ok && tv.IsType() && len(y.Args) == 1 {
			e.effects(y.Args[0])
			return
		}
		if _, name, _, ok := foreignFunc(y.Fun); ok && pureForeign[name] {
			for _, a := range y.Args {
				e.effects(a)
			}
			return
		}
	case *ast.CompositeLit:
		if _, err := leanTypeE(T.info.Types[y].Type); err != nil {
			for _, el := range y.Elts {
				e.effects(el)
			}
			return
		}
	}
	_ = e.expr(x)
}

// foreignCall translates calls of functions of other packages that are not modelled in the Prelude.
func (e *em) foreignCall(x *ast.CallExpr) (string, bool) {
	if b, viaIndex, _, ok := unsafeString(x); ok {
		base := e.expr(b)
		if viaIndex {
			e.pre = append(e.pre, fmt.Sprintf("let _ ← Go.bget %s (0 : Int)", paren(base)))
		}
		return base, true
	}
	_, name, _, ok := foreignFunc(x.Fun)
	if !ok {
		return "", false
	}
	if pureForeign[name] {
		e.fail(x, "value of %s is not modelled", name)
	}
	sig, isSig := T.info.Types[x.Fun].Type.(*types.Signature)
	if !isSig || sig.Results().Len() > 1 {
		e.fail(x, "call of %s", name)
	}
	for _, a := range x.Args {
		e.effects(a)
	}
	rt := "Unit"
	if sig.Results().Len() == 1 {
		rt = leanType(sig.Results().At(0).Type())
	}
	t := e.fresh("t")
	e.pre = append(e.pre, fmt.Sprintf("let %s : %s ← throw (Go.Panic.unmodelled %q)", t, rt, name))
	return t, true
}

// foreignErrLit translates &pkg.ErrType{…}: the fields are evaluated for their effects, the value
// is the Go.Err constructor.
func (e *em) foreignErrLit(x *ast.UnaryExpr) (string, bool) {
	cl, ok := x.X.(*ast.CompositeLit)
	if !ok || x.Op != token.AND {
		return "", false
	}
	c, ok := foreignErr(T.info.Types[cl].Type)
	if !ok {
		return "", false
	}
	for _, el := range cl.Elts {
		e.effects(el)
	}
	return "Go.Err." + c, true
}

// makeBytes translates make([]byte, n) and make([]byte, n, c) with run-time sizes. The capacity is
// not part of the model value, but the run-time check (0 ≤ n ≤ c) is: Go.makeBytes throws .makeslice.
func (e *em) makeBytes(x *ast.CallExpr) string {
	n := e.intTerm(x.Args[1])
	c := n
	if len(x.Args) == 3 {
		c = e.intTerm(x.Args[2])
	}
	t := e.fresh("t")
	e.pre = append(e.pre, fmt.Sprintf("let %s ← Go.makeBytes %s %s", t, n, c))
	return t
}

// copyStmt translates the statement copy(dst, src) where dst is a byte-slice variable (or field) v
// or a slice expression v[a:], v[:b], v[a:b] of one. Value semantics: v is updated with
// min(len(dst), len(src)) bytes overwritten. src is evaluated to a value before v is updated, which
// is Go's memmove semantics for overlapping operands (copy(buf[p:], buf[i:]) in digits.pad).
func (e *em) copyStmt(x *ast.CallExpr, ind string, out *[]string) {
	if len(x.Args) != 2 {
		e.fail(x, "copy")
	}
	dst, src := x.Args[0], x.Args[1]
	for {
		p, ok := dst.(*ast.ParenExpr)
		if !ok {
			break
		}
		dst = p.X
	}
	if !isBytesLike(T.info.Types[src].Type) {
		e.fail(x, "copy from %v", T.info.Types[src].Type)
	}
	target := dst
	lo := "(0 : Int)"
	var dstTerm string
	if sl, ok := dst.(*ast.SliceExpr); ok {
		target = sl.X
		if !isBytesLike(T.info.Types[target].Type) || isStringType(T.info.Types[target].Type) || sl.Slice3 {
			e.fail(x, "copy into slice of %v", T.info.Types[target].Type)
		}
		base := paren(e.expr(target))
		if sl.Low != nil {
			lo = e.intTerm(sl.Low)
		}
		dstTerm = e.fresh("t")
		if sl.High == nil {
			e.pre = append(e.pre, fmt.Sprintf("let %s ← Go.bsliceFrom %s %s", dstTerm, base, lo))
		} else {
			e.pre = append(e.pre, fmt.Sprintf("let %s ← Go.bslice %s %s %s", dstTerm, base, lo, e.intTerm(sl.High)))
		}
	} else {
		if !isBytesLike(T.info.Types[target].Type) || isStringType(T.info.Types[target].Type) {
			e.fail(x, "copy into %v", T.info.Types[target].Type)
		}
		dstTerm = paren(e.expr(target))
	}
	if rootIdent(target) == nil {
		e.fail(x, "copy into a non-variable")
	}
	s := paren(e.expr(src))
	base := paren(e.expr(target))
	e.flush(ind, out)
	e.assignTo(target, fmt.Sprintf("(Go.copyInto %s %s %s %s)", base, lo, dstTerm, s), ind, out)
}

// arraySlice translates a[lo:hi] for a byte array a (digits.dig, the buffers of the String
// methods). The result is a value; it is only sound for read-only uses, which is all the
// translator admits (a slice value can not be written through: index assignment updates the
// variable it is applied to).
func (e *em) arraySlice(x *ast.SliceExpr) string {
	if x.Slice3 {
		e.fail(x, "3-index slice")
	}
	base := paren(e.expr(x.X))
	lo := "(0 : Int)"
	if x.Low != nil {
		lo = e.intTerm(x.Low)
	}
	t := e.fresh("t")
	if x.High == nil {
		e.pre = append(e.pre, fmt.Sprintf("let %s ← Go.vsliceFrom %s %s", t, base, lo))
	} else {
		e.pre = append(e.pre, fmt.Sprintf("let %s ← Go.vslice %s %s %s", t, base, lo, e.intTerm(x.High)))
	}
	return t
}
