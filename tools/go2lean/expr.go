package main

import (
	"fmt"
	"go/ast"
	"go/constant"
	"go/token"
	"go/types"
	"math"
	"strings"
)

type loopCtx struct {
	post  ast.Stmt
	label string
}

type em struct {
	F        *fn
	names    map[types.Object]string
	used     map[string]bool
	tmp      int
	pre      []string // hoisted binds for the statement being built
	loops    []loopCtx
	inSwitch int
	want     types.Type            // expected type for an untyped nil
	inCond   int                   // > 0 inside the right operand of && / ||: no assignments can be hoisted
	nilNames map[*types.Var]string // *big.Float parameters compared with nil: name of "the argument was nil"
	// fmt layer (fmtstate.go): signature of the function literal being translated (its `return`s),
	// and > 0 while a term is built whose hoisted binds are joined on one line (no multi-line binds)
	closSig    *types.Signature
	inCaptured int
}

func isNilIdent(x ast.Expr) bool {
	id, ok := x.(*ast.Ident)
	if !ok {
		return false
	}
	_, isNil := T.info.Uses[id].(*types.Nil)
	return isNil
}

// exprAs translates x where the context expects type t (matters for nil only).
func (e *em) exprAs(x ast.Expr, t types.Type) string {
	if isNilIdent(x) {
		save := e.want
		e.want = t
		r := e.expr(x)
		e.want = save
		return r
	}
	return e.expr(x)
}

func (e *em) fail(n ast.Node, format string, a ...any) {
	panic(fmt.Sprintf("%s: %s: %s", e.F.name, T.fset.Position(n.Pos()), fmt.Sprintf(format, a...)))
}

func (e *em) fresh(base string) string {
	for {
		e.tmp++
		n := fmt.Sprintf("%s_%d", base, e.tmp)
		if !e.used[n] {
			e.used[n] = true
			return n
		}
	}
}

func (e *em) declare(obj types.Object) string {
	if n, ok := e.names[obj]; ok {
		return n
	}
	base := safeIdent(obj.Name())
	n := base
	for k := 1; e.used[n]; k++ {
		n = fmt.Sprintf("%s_%d", base, k)
	}
	e.used[n] = true
	e.names[obj] = n
	return n
}

func constTerm(v constant.Value, t types.Type) string {
	lt := leanType(t)
	switch lt {
	case "Bool":
		if constant.BoolVal(v) {
			return "true"
		}
		return "false"
	case "Go.Bytes":
		return fmt.Sprintf("(Go.str %q)", constant.StringVal(v))
	case "Go.F64":
		f, _ := constant.Float64Val(constant.ToFloat(v))
		return fmt.Sprintf("(Go.F64.mk (%d : UInt64))", math.Float64bits(f))
	case "Go.F32":
		f, _ := constant.Float32Val(constant.ToFloat(v))
		return fmt.Sprintf("(Go.F32.mk (%d : UInt32))", math.Float32bits(f))
	}
	iv := constant.ToInt(v)
	if iv.Kind() != constant.Int {
		panic("non-integer constant " + v.String())
	}
	s := iv.ExactString()
	if strings.HasPrefix(s, "-") {
		return fmt.Sprintf("(%s : %s)", s, lt)
	}
	return fmt.Sprintf("(%s : %s)", s, lt)
}

// intTerm gives a Lean `Int` term for an index / shift count expression.
func (e *em) intTerm(x ast.Expr) string {
	if tv := T.info.Types[x]; tv.Value != nil {
		iv := constant.ToInt(tv.Value)
		s := iv.ExactString()
		if strings.HasPrefix(s, "-") {
			return "(" + s + " : Int)"
		}
		return "(" + s + " : Int)"
	}
	return "(Go.idx " + e.expr(x) + ")"
}

func paren(s string) string {
	if strings.ContainsAny(s, " ") && !(strings.HasPrefix(s, "(") && balancedOuter(s)) {
		return "(" + s + ")"
	}
	return s
}

func balancedOuter(s string) bool {
	if !strings.HasPrefix(s, "(") || !strings.HasSuffix(s, ")") {
		return false
	}
	d := 0
	for i, c := range s {
		if c == '(' {
			d++
		} else if c == ')' {
			d--
			if d == 0 && i != len(s)-1 {
				return false
			}
		}
	}
	return true
}

// captured runs f with a fresh prelude and returns the prelude it produced.
func (e *em) captured(f func() string) (string, []string) {
	save := e.pre
	e.pre = nil
	e.inCaptured++
	term := f()
	e.inCaptured--
	got := e.pre
	e.pre = save
	return term, got
}

func doBlock(pre []string, term string) string {
	// (do a; b; pure term) on one line
	return "(do " + strings.Join(append(append([]string{}, pre...), "pure "+term), "; ") + ")"
}

func (e *em) expr(x ast.Expr) string {
	if tv, ok := T.info.Types[x]; ok && tv.Value != nil {
		return constTerm(tv.Value, tv.Type)
	}
	switch x := x.(type) {
	case *ast.ParenExpr:
		return e.expr(x.X)
	case *ast.Ident:
		return e.ident(x)
	case *ast.BasicLit:
		e.fail(x, "non-constant literal")
	case *ast.SelectorExpr:
		if sel, ok := T.info.Selections[x]; ok && sel.Kind() == types.FieldVal {
			return paren(e.expr(x.X)) + "." + safeIdent(x.Sel.Name)
		}
		if c, _, ok := foreignErrVar(x); ok {
			return "Go.Err." + c // io.EOF, io.ErrUnexpectedEOF (fmtstate.go)
		}
		e.fail(x, "selector")
	case *ast.StarExpr:
		return e.expr(x.X)
	case *ast.IndexExpr:
		return e.index(x)
	case *ast.SliceExpr:
		return e.slice(x)
	case *ast.UnaryExpr:
		return e.unary(x)
	case *ast.BinaryExpr:
		return e.binary(x)
	case *ast.CallExpr:
		return e.call(x)
	case *ast.CompositeLit:
		return e.complit(x)
	}
	e.fail(x, "expression %T", x)
	return ""
}

func (e *em) ident(x *ast.Ident) string {
	obj := T.info.Uses[x]
	if obj == nil {
		obj = T.info.Defs[x]
	}
	switch o := obj.(type) {
	case *types.Nil:
		t := T.info.Types[x].Type
		if e.want != nil {
			t = e.want
		}
		if isErrorType(t) {
			return "Go.Err.nil"
		}
		if isBytesLike(t) {
			return "(#[] : Go.Bytes)"
		}
		e.fail(x, "nil of type %v", t)
	case *types.Var:
		if o.Parent() == T.pkg.Scope() {
			if o.Name() == "DefaultRoundingMode" {
				return "g.DefaultRoundingMode"
			}
			return safeIdent(o.Name())
		}
		if n, ok := e.names[o]; ok {
			return n
		}
		e.fail(x, "undeclared variable %s", o.Name())
	case *types.Const:
		return constTerm(o.Val(), o.Type())
	}
	e.fail(x, "identifier %s (%T)", x.Name, obj)
	return ""
}

func (e *em) index(x *ast.IndexExpr) string {
	xt := T.info.Types[x.X].Type
	if p, ok := xt.(*types.Pointer); ok {
		xt = p.Elem()
	}
	if _, ok := isMultiWord(xt); ok {
		k, _ := constant.Int64Val(constant.ToInt(T.info.Types[x.Index].Value))
		return fmt.Sprintf("%s.w%d", paren(e.expr(x.X)), k)
	}
	if isBigWords(xt) {
		return e.bigIndex(x)
	}
	base := paren(e.expr(x.X))
	if isBytesLike(xt) {
		t := e.fresh("t")
		e.pre = append(e.pre, fmt.Sprintf("let %s ← Go.bget %s %s", t, base, e.intTerm(x.Index)))
		return t
	}
	if _, ok := under(xt).(*types.Array); ok {
		if isConst(x.Index) {
			k, _ := constant.Int64Val(constant.ToInt(T.info.Types[x.Index].Value))
			return fmt.Sprintf("%s[%d]", base, k)
		}
		t := e.fresh("t")
		e.pre = append(e.pre, fmt.Sprintf("let %s ← Go.vget %s %s", t, base, e.intTerm(x.Index)))
		return t
	}
	e.fail(x, "index into %v", xt)
	return ""
}

func (e *em) slice(x *ast.SliceExpr) string {
	xt := T.info.Types[x.X].Type
	if isByteArray(xt) {
		return e.arraySlice(x)
	}
	if !isBytesLike(xt) || x.Slice3 {
		e.fail(x, "slice of %v", xt)
	}
	base := paren(e.expr(x.X))
	lo := "(0 : Int)"
	if x.Low != nil {
		lo = e.intTerm(x.Low)
	}
	t := e.fresh("t")
	if x.High == nil {
		e.pre = append(e.pre, fmt.Sprintf("let %s ← Go.bsliceFrom %s %s", t, base, lo))
	} else {
		e.pre = append(e.pre, fmt.Sprintf("let %s ← Go.bslice %s %s %s", t, base, lo, e.intTerm(x.High)))
	}
	return t
}

func (e *em) unary(x *ast.UnaryExpr) string {
	switch x.Op {
	case token.SUB:
		return "(-" + paren(e.expr(x.X)) + ")"
	case token.ADD:
		return e.expr(x.X)
	case token.NOT:
		return "(!" + paren(e.expr(x.X)) + ")"
	case token.XOR:
		return "(~~~" + paren(e.expr(x.X)) + ")"
	case token.AND:
		if cl, ok := x.X.(*ast.CompositeLit); ok {
			if n, ok := implementsError(T.info.Types[cl].Type); ok {
				return "Go.Err." + n
			}
		}
		if r, ok := e.foreignErrLit(x); ok {
			return r
		}
	}
	e.fail(x, "unary %s", x.Op)
	return ""
}

func (e *em) binary(x *ast.BinaryExpr) string {
	switch x.Op {
	case token.LAND, token.LOR:
		l := e.expr(x.X)
		e.inCond++
		r, rpre := e.captured(func() string { return e.expr(x.Y) })
		e.inCond--
		if len(rpre) == 0 {
			if x.Op == token.LAND {
				return "(" + l + " && " + r + ")"
			}
			return "(" + l + " || " + r + ")"
		}
		t := e.fresh("c")
		if x.Op == token.LAND {
			e.pre = append(e.pre, fmt.Sprintf("let %s : Bool ← (if %s then %s else pure false)", t, l, doBlock(rpre, r)))
		} else {
			e.pre = append(e.pre, fmt.Sprintf("let %s : Bool ← (if %s then pure true else %s)", t, l, doBlock(rpre, r)))
		}
		return t
	}
	if v, neq, ok := floatNilTest(x); ok {
		// `p == nil` for a *big.Float parameter: was the argument nil? (checkNilFlow, bigfloat.go)
		if neq {
			return "(!" + e.nilFlagName(x, v) + ")"
		}
		return e.nilFlagName(x, v)
	}
	lt := T.info.Types[x.X].Type
	if isNilIdent(x.X) {
		lt = T.info.Types[x.Y].Type
	}
	l := e.exprAs(x.X, T.info.Types[x.Y].Type)
	switch x.Op {
	case token.SHL, token.SHR:
		return e.shift(x, x.Op, l, x.Y)
	}
	r := e.exprAs(x.Y, lt)
	return e.binop(x, x.Op, lt, l, r, x.Y)
}

func (e *em) shift(n ast.Node, op token.Token, l string, y ast.Expr) string {
	fn := "Go.shl"
	if op == token.SHR {
		fn = "Go.shr"
	}
	if !isConst(y) && isSignedInt(T.info.Types[y].Type) {
		t := e.fresh("t")
		e.pre = append(e.pre, fmt.Sprintf("let %s ← %sS %s %s", t, fn, paren(l), e.intTerm(y)))
		return t
	}
	return fmt.Sprintf("(%s %s %s)", fn, paren(l), e.intTerm(y))
}

func (e *em) binop(n ast.Node, op token.Token, lt types.Type, l, r string, y ast.Expr) string {
	llt := leanType(lt)
	if llt == "Go.F64" {
		switch op {
		case token.EQL:
			return "(Go.F64.feq " + paren(l) + " " + paren(r) + ")"
		case token.NEQ:
			return "(Go.F64.fne " + paren(l) + " " + paren(r) + ")"
		}
		e.fail(n, "float operation %s", op)
	}
	if llt == "Go.F32" {
		e.fail(n, "float32 operation %s", op)
	}
	if llt == "Go.Bytes" && op == token.ADD {
		return "(" + l + " ++ " + r + ")" // string concatenation
	}
	switch op {
	case token.ADD:
		return "(" + l + " + " + r + ")"
	case token.SUB:
		return "(" + l + " - " + r + ")"
	case token.MUL:
		return "(" + l + " * " + r + ")"
	case token.QUO, token.REM:
		if y != nil && isConst(y) {
			if op == token.QUO {
				return "(" + l + " / " + r + ")"
			}
			return "(" + l + " % " + r + ")"
		}
		var f string
		switch llt {
		case "UInt64":
			f = "U64"
		case "Int64":
			f = "I64"
		case "Int16":
			f = "I16"
		default:
			e.fail(n, "variable division at type %s", llt)
		}
		pfx := "Go.div"
		if op == token.REM {
			pfx = "Go.mod"
		}
		t := e.fresh("t")
		e.pre = append(e.pre, fmt.Sprintf("let %s ← %s%s %s %s", t, pfx, f, paren(l), paren(r)))
		return t
	case token.AND:
		return "(" + l + " &&& " + r + ")"
	case token.OR:
		return "(" + l + " ||| " + r + ")"
	case token.XOR:
		return "(" + l + " ^^^ " + r + ")"
	case token.AND_NOT:
		return "(" + l + " &&& ~~~" + paren(r) + ")"
	case token.EQL:
		return "(" + l + " == " + r + ")"
	case token.NEQ:
		return "(" + l + " != " + r + ")"
	case token.LSS:
		return "(decide (" + l + " < " + r + "))"
	case token.LEQ:
		return "(decide (" + l + " ≤ " + r + "))"
	case token.GTR:
		return "(decide (" + l + " > " + r + "))"
	case token.GEQ:
		return "(decide (" + l + " ≥ " + r + "))"
	}
	e.fail(n, "binary %s", op)
	return ""
}

func (e *em) complit(x *ast.CompositeLit) string {
	t := T.info.Types[x].Type
	if n, ok := implementsError(t); ok {
		return "Go.Err." + n
	}
	if w, ok := isMultiWord(t); ok {
		name := leanType(t)
		if len(x.Elts) == 0 {
			return "(default : " + name + ")"
		}
		if len(x.Elts) != w {
			e.fail(x, "partial multi-word literal")
		}
		var parts []string
		for _, el := range x.Elts {
			parts = append(parts, paren(e.expr(el)))
		}
		return "(" + name + ".mk " + strings.Join(parts, " ") + ")"
	}
	switch u := under(t).(type) {
	case *types.Struct:
		name := leanType(t)
		if len(x.Elts) == 0 {
			return "(default : " + name + ")"
		}
		if _, keyed := x.Elts[0].(*ast.KeyValueExpr); keyed {
			var parts []string
			for _, el := range x.Elts {
				kv := el.(*ast.KeyValueExpr)
				parts = append(parts, safeIdent(kv.Key.(*ast.Ident).Name)+" := "+e.expr(kv.Value))
			}
			return "({ (default : " + name + ") with " + strings.Join(parts, ", ") + " } : " + name + ")"
		}
		var parts []string
		for _, el := range x.Elts {
			parts = append(parts, paren(e.expr(el)))
		}
		if len(parts) != u.NumFields() {
			e.fail(x, "partial positional struct literal")
		}
		return "(" + name + ".mk " + strings.Join(parts, " ") + ")"
	case *types.Array:
		var parts []string
		for _, el := range x.Elts {
			if _, ok := el.(*ast.KeyValueExpr); ok {
				e.fail(x, "keyed array literal")
			}
			parts = append(parts, e.exprTyped(el, u.Elem()))
		}
		if int64(len(parts)) != u.Len() {
			e.fail(x, "short array literal")
		}
		return "(#v[" + strings.Join(parts, ", ") + "] : " + leanType(t) + ")"
	case *types.Slice:
		// []byte{…} (fmt layer: the package variable spaceText)
		if isByteSliceLit(x) {
			var parts []string
			for _, el := range x.Elts {
				if _, ok := el.(*ast.KeyValueExpr); ok {
					e.fail(x, "keyed slice literal")
				}
				parts = append(parts, e.exprTyped(el, u.Elem()))
			}
			return "(#[" + strings.Join(parts, ", ") + "] : Go.Bytes)"
		}
	}
	e.fail(x, "composite literal of %v", t)
	return ""
}

// exprTyped handles elided inner composite-literal types ({..} inside array literals)
func (e *em) exprTyped(x ast.Expr, t types.Type) string {
	return e.expr(x)
}

func (e *em) convert(x *ast.CallExpr) string {
	to := T.info.Types[x].Type
	from := T.info.Types[x.Args[0]].Type
	arg := e.expr(x.Args[0])
	lt, lf := leanType(to), leanType(from)
	if lt == lf {
		return arg
	}
	if isIntLean(lt) && isIntLean(lf) {
		return "(Go.conv " + paren(arg) + " : " + lt + ")"
	}
	switch {
	case lf == "Go.F32" && lt == "Go.F64":
		return "(Go.F32.toF64 " + paren(arg) + ")"
	case lf == "Go.F64" && lt == "Go.F32":
		return "(Go.F64.toF32 " + paren(arg) + ")"
	case lf == "UInt64" && lt == "Go.F64":
		return "(Go.F64.ofUInt64 " + paren(arg) + ")"
	}
	e.fail(x, "conversion %s → %s", lf, lt)
	return ""
}

// callParts returns the callee, and the argument terms (receiver first; g first of all)
func (e *em) callParts(x *ast.CallExpr) (*fn, []string, []ast.Expr) {
	var callee *types.Func
	var args []string
	var inoutExprs []ast.Expr
	switch f := x.Fun.(type) {
	case *ast.Ident:
		callee = T.info.Uses[f].(*types.Func).Origin()
	case *ast.SelectorExpr:
		sel := T.info.Selections[f]
		callee = sel.Obj().(*types.Func).Origin()
		C := T.funcs[callee]
		if len(C.inout) > 0 && C.inout[0] == callee.Type().(*types.Signature).Recv() {
			inoutExprs = append(inoutExprs, f.X)
		}
		args = append(args, paren(e.expr(f.X)))
	}
	C := T.funcs[callee]
	if C == nil || C.skip != "" {
		e.fail(x, "call of untranslated function %s", callee.Name())
	}
	sig := callee.Type().(*types.Signature)
	for i, a := range x.Args {
		if i < sig.Params().Len() {
			if _, ok := sig.Params().At(i).Type().(*types.Pointer); ok && !isBigPtr(sig.Params().At(i).Type()) {
				if u, ok := a.(*ast.UnaryExpr); ok && u.Op == token.AND {
					inoutExprs = append(inoutExprs, u.X)
					args = append(args, paren(e.expr(u.X)))
					continue
				}
				inoutExprs = append(inoutExprs, a)
			}
			// a fmt.State / fmt.ScanState argument (a variable: analyseFmt) gets the callee's final state
			if _, ok := fmtIface(sig.Params().At(i).Type()); ok {
				inoutExprs = append(inoutExprs, a)
			}
		}
		if i < sig.Params().Len() {
			args = append(args, paren(e.exprAs(a, sig.Params().At(i).Type())))
		} else {
			args = append(args, paren(e.expr(a)))
		}
	}
	if C.usesG {
		args = append([]string{"g"}, args...)
	}
	return C, args, inoutExprs
}

func (e *em) call(x *ast.CallExpr) string {
	if tv, ok := T.info.Types[x.Fun]; ok && tv.IsType() {
		return e.convert(x)
	}
	if r, ok := e.bigCall(x); ok {
		return r
	}
	if r, ok := e.fmtCall(x); ok {
		return r
	}
	switch f := x.Fun.(type) {
	case *ast.Ident:
		if b, ok := T.info.Uses[f].(*types.Builtin); ok {
			switch b.Name() {
			case "len":
				at := T.info.Types[x.Args[0]].Type
				if isBigWords(at) {
					return "(Go.BigInt.wlen " + paren(e.expr(x.Args[0])) + ")"
				}
				if isBytesLike(at) {
					return "(Go.len " + paren(e.expr(x.Args[0])) + ")"
				}
				e.fail(x, "len of %v", at)
			case "append":
				base := e.expr(x.Args[0])
				if x.Ellipsis.IsValid() {
					return "(" + paren(base) + " ++ " + paren(e.expr(x.Args[1])) + ")"
				}
				for _, a := range x.Args[1:] {
					base = "(" + paren(base) + ".push " + paren(e.expr(a)) + ")"
				}
				return base
			case "cap":
				// byte slices are values without spare capacity: cap(b) is len(b)
				at := T.info.Types[x.Args[0]].Type
				if isBytesLike(at) && !isStringType(at) {
					return "(Go.len " + paren(e.expr(x.Args[0])) + ")"
				}
				e.fail(x, "cap of %v", at)
			case "make":
				if isBytesLike(T.info.Types[x].Type) && len(x.Args) == 2 && isConst(x.Args[1]) {
					return "(Array.replicate (Go.idx " + e.expr(x.Args[1]) + ").toNat (0 : UInt8))"
				}
				if isBytesLike(T.info.Types[x].Type) && (len(x.Args) == 2 || len(x.Args) == 3) {
					return e.makeBytes(x)
				}
				e.fail(x, "make")
			case "copy":
				e.fail(x, "copy in expression position")
			case "panic":
				e.fail(x, "panic in expression position")
			}
		}
	case *ast.SelectorExpr:
		if id, ok := f.X.(*ast.Ident); ok {
			if pn, ok := T.info.Uses[id].(*types.PkgName); ok {
				p := pn.Imported().Path()
				if p == "math/bits" {
					var args []string
					for _, a := range x.Args {
						args = append(args, paren(e.expr(a)))
					}
					c := "Go.bits." + f.Sel.Name + " " + strings.Join(args, " ")
					if f.Sel.Name == "Div64" {
						t := e.fresh("t")
						e.pre = append(e.pre, fmt.Sprintf("let %s ← %s", t, c))
						return t
					}
					return "(" + c + ")"
				}
				if p == "errors" && f.Sel.Name == "New" {
					return "Go.Err.errorsNew"
				}
				if p == "math" && mathFuncs[f.Sel.Name] {
					sig := T.info.Types[x.Fun].Type.(*types.Signature)
					c := "Go.math." + f.Sel.Name
					for i, a := range x.Args {
						c += " " + paren(e.exprAs(a, sig.Params().At(i).Type()))
					}
					return "(" + c + ")"
				}
				if r, ok := e.foreignCall(x); ok {
					return r
				}
			}
		}
	}
	C, args, inouts := e.callParts(x)
	if len(inouts) > 0 {
		return e.callInout(x, C, args, inouts)
	}
	c := C.name
	if len(args) > 0 {
		c += " " + strings.Join(args, " ")
	}
	if C.monadic {
		t := e.fresh("t")
		e.pre = append(e.pre, fmt.Sprintf("let %s ← %s", t, c))
		return t
	}
	return "(" + c + ")"
}

// callInout handles a call with in-out arguments (pointer receiver / pointer parameters) in
// expression position, e.g. `return digs.fmtE(buf, …)`: the call is hoisted, the updated in-out
// values are assigned back, and the term is the (tuple of the) ordinary results.
func (e *em) callInout(x *ast.CallExpr, C *fn, args []string, inouts []ast.Expr) string {
	if e.inCond > 0 {
		e.fail(x, "call with in-out arguments in the right operand of && / ||")
	}
	nres := C.obj.Type().(*types.Signature).Results().Len()
	if nres == 0 {
		e.fail(x, "call without results in expression position")
	}
	c := C.name
	if len(args) > 0 {
		c += " " + strings.Join(args, " ")
	}
	var lines []string
	e.flush("", &lines)
	var temps []string
	for i := 0; i < len(inouts)+nres; i++ {
		temps = append(temps, e.fresh("r"))
	}
	bind := "←"
	if !C.monadic {
		bind = ":="
	}
	lines = append(lines, fmt.Sprintf("let (%s) %s %s", strings.Join(temps, ", "), bind, c))
	for i, io := range inouts {
		e.assignTo(io, temps[i], "", &lines)
	}
	e.pre = append(lines, e.pre...)
	return tuple(temps[len(inouts):])
}
