package main

// fmt layer: brings Decimal.Format, Decimal.writeSpecial (fmt.State) and Decimal.Scan (fmt.ScanState)
// into the generated model. The Lean side is lean/D128/Go/Fmt.lean; every modelling decision is
// stated where it is implemented and repeated in README.md ("fmt layer").
//
// fmt.State / fmt.ScanState are interfaces holding a pointer to fmt's printer / scanner. They become
// the VALUES Go.FmtState (flags, width, precision, bytes written so far) and Go.ScanState (runes of
// the input, position, width, newline mode, …). A variable of one of these types is threaded through
// the translated function like an in-out parameter: it is a `let mut` local, a method that changes
// the state (table fmtMethods, `writes`) returns the new state first and the translator assigns it
// back, a function with such a parameter returns the final state in front of its results (the
// parameter is in fn.inout like a pointer receiver), and a call `g(f, …)` assigns the state g
// returns back to f. Package fmt is taken as correct: the methods are modelled by their documented
// meaning (Go/Fmt.lean), not by their implementation.
//
// What a value cannot express - two names for one state - is refused: a state variable may only be
// mentioned as the receiver of a modelled method call or as a whole argument of a call (once per
// call); it cannot be assigned, declared, compared, returned, captured by a function literal,
// converted or stored.
//
// Further constructs of this layer:
//   - the sentinel errors io.EOF / io.ErrUnexpectedEOF are constructors of Go.Err (table
//     foreignErrVars); errors.Is(err, <sentinel>) is Go.Err.Is (equality: nothing in the model wraps
//     a sentinel);
//   - a function literal passed to Token (a rune predicate) becomes a local Lean function; it must be
//     pure and closed (closureCheck);
//   - []byte{…} composite literals (the package variable spaceText). A package variable that needs
//     it is placed in the <File>Fmt module (gvar.late), not in the module of its file: the modules
//     that existed before keep their text byte for byte.
//
// Functions of this layer are flagged `fmtL` and placed in <File>Fmt modules (fifth placement pass in
// emit.go) importing Go/Fmt.lean.

import (
	"fmt"
	"go/ast"
	"go/token"
	"go/types"
	"strings"
)

const fmtPkgPath = "fmt"

// fmtIface returns "State" / "ScanState" for fmt.State / fmt.ScanState.
func fmtIface(t types.Type) (string, bool) {
	if t == nil {
		return "", false
	}
	n, ok := t.(*types.Named)
	if !ok || n.Obj().Pkg() == nil || n.Obj().Pkg().Path() != fmtPkgPath {
		return "", false
	}
	switch n.Obj().Name() {
	case "State", "ScanState":
		return n.Obj().Name(), true
	}
	return "", false
}

// fmtLeanType is the hook of leanTypeE for this layer.
func fmtLeanType(t types.Type) (string, bool) {
	switch n, _ := fmtIface(t); n {
	case "State":
		return "Go.FmtState", true
	case "ScanState":
		return "Go.ScanState", true
	}
	return "", false
}

func fmtLeanNS(iface string) string {
	if iface == "State" {
		return "Go.FmtState"
	}
	return "Go.ScanState"
}

// fmtMethod describes the model of one method of fmt.State / fmt.ScanState (Go/Fmt.lean).
type fmtMethod struct {
	// writes: the method changes the state. The Lean function returns the new state first, then
	// the results of the Go method.
	writes bool
	// monadic: the Lean function is in GoM (SkipSpace panics on an unexpected newline; UnreadRune
	// is only defined after a ReadRune that delivered a rune: elsewhere the model ends).
	monadic bool
	// closure: index of an argument that must be a function literal (Token's predicate), or -1.
	closure int
}

// fmtMethods: the key is <interface>.<method>, the Lean name Go.FmtState.<M> / Go.ScanState.<M>.
// Anything else (ScanState.Read, "should never be called") is refused.
var fmtMethods = map[string]fmtMethod{
	"State.Flag":           {closure: -1},
	"State.Width":          {closure: -1},
	"State.Precision":      {closure: -1},
	"State.Write":          {closure: -1, writes: true}, // (len(b), nil)
	"ScanState.Width":      {closure: -1},
	"ScanState.ReadRune":   {closure: -1, writes: true},
	"ScanState.UnreadRune": {closure: -1, writes: true, monadic: true},
	"ScanState.SkipSpace":  {closure: -1, writes: true, monadic: true},
	"ScanState.Token":      {closure: 1, writes: true},
}

// foreignErrVars: error variables of other packages that are constructors of Go.Err (Prelude).
var foreignErrVars = map[string]string{
	"io.EOF":              "ioEOF",
	"io.ErrUnexpectedEOF": "ioErrUnexpectedEOF",
}

// foreignErrVar recognises io.EOF / io.ErrUnexpectedEOF.
func foreignErrVar(x ast.Expr) (string, *ast.SelectorExpr, bool) {
	sel, ok := unparen(x).(*ast.SelectorExpr)
	if !ok {
		return "", nil, false
	}
	id, ok := sel.X.(*ast.Ident)
	if !ok {
		return "", nil, false
	}
	pn, ok := T.info.Uses[id].(*types.PkgName)
	if !ok {
		return "", nil, false
	}
	c, ok := foreignErrVars[pn.Imported().Path()+"."+sel.Sel.Name]
	return c, sel, ok
}

// errorsIs recognises errors.Is(err, <sentinel>).
func errorsIs(x ast.Expr) (call *ast.CallExpr, sel *ast.SelectorExpr, ok bool) {
	call, ok = unparen(x).(*ast.CallExpr)
	if !ok {
		return nil, nil, false
	}
	path, name, sel, isF := foreignFunc(call.Fun)
	if !isF || path != "errors" || name != "errors.Is" || len(call.Args) != 2 {
		return nil, nil, false
	}
	return call, sel, true
}

// fmtMethodCall recognises a call of a method of fmt.State / fmt.ScanState.
func fmtMethodCall(x ast.Expr) (call *ast.CallExpr, sel *ast.SelectorExpr, iface, key string, ok bool) {
	call, ok = unparen(x).(*ast.CallExpr)
	if !ok {
		return nil, nil, "", "", false
	}
	sel, ok = call.Fun.(*ast.SelectorExpr)
	if !ok {
		return nil, nil, "", "", false
	}
	s, ok := T.info.Selections[sel]
	if !ok || s.Kind() != types.MethodVal {
		return nil, nil, "", "", false
	}
	iface, ok = fmtIface(s.Recv())
	if !ok {
		return nil, nil, "", "", false
	}
	return call, sel, iface, iface + "." + sel.Sel.Name, true
}

// fmtVarOf: x is a local variable or parameter of type fmt.State / fmt.ScanState.
func fmtVarOf(x ast.Expr) *types.Var {
	id, ok := unparen(x).(*ast.Ident)
	if !ok {
		return nil
	}
	v, ok := T.info.Uses[id].(*types.Var)
	if !ok || v.IsField() || v.Parent() == T.pkg.Scope() {
		return nil
	}
	if _, is := fmtIface(v.Type()); !is {
		return nil
	}
	return v
}

// closureCheck: a function literal is admitted if it is pure and closed: its body is built from
// blocks, if, switch and return over comparisons, boolean and arithmetic operators (no division or
// shift by a variable), constants, conversions between integer types and its own parameters. It then
// is a total Lean function (`fun (r : Int32) => Id.run do …`).
func closureCheck(fl *ast.FuncLit) string {
	sig, ok := T.info.Types[fl].Type.(*types.Signature)
	if !ok {
		return "function literal without a signature"
	}
	own := map[types.Object]bool{}
	for k := 0; k < sig.Params().Len(); k++ {
		p := sig.Params().At(k)
		if _, err := leanTypeE(p.Type()); err != nil {
			return "function literal: " + err.Error()
		}
		own[p] = true
	}
	if sig.Results().Len() != 1 || sig.Results().At(0).Name() != "" {
		return "function literal that does not have exactly one unnamed result"
	}
	if _, err := leanTypeE(sig.Results().At(0).Type()); err != nil {
		return "function literal: " + err.Error()
	}
	why := ""
	bad := func(n ast.Node, s string) {
		if why == "" {
			why = fmt.Sprintf("function literal: %s (%s)", s, T.fset.Position(n.Pos()))
		}
	}
	ast.Inspect(fl.Body, func(n ast.Node) bool {
		if n == nil || why != "" {
			return false
		}
		if x, isExpr := n.(ast.Expr); isExpr && isConst(x) {
			return false
		}
		switch n := n.(type) {
		case *ast.BlockStmt, *ast.IfStmt, *ast.SwitchStmt, *ast.CaseClause, *ast.ReturnStmt, *ast.ParenExpr:
		case *ast.BinaryExpr:
			switch n.Op {
			case token.QUO, token.REM, token.SHL, token.SHR:
				if !isConst(n.Y) {
					bad(n, "division or shift by a variable")
				}
			}
		case *ast.UnaryExpr:
			if n.Op != token.NOT && n.Op != token.SUB && n.Op != token.ADD && n.Op != token.XOR {
				bad(n, "operator "+n.Op.String())
			}
		case *ast.CallExpr:
			tv, isT := T.info.Types[n.Fun]
			if !isT || !tv.IsType() || len(n.Args) != 1 {
				bad(n, "call")
				break
			}
			lt, err1 := leanTypeE(tv.Type)
			lf, err2 := leanTypeE(T.info.Types[n.Args[0]].Type)
			if err1 != nil || err2 != nil || !isIntLean(lt) || !isIntLean(lf) {
				bad(n, "conversion other than between integer types")
			}
		case *ast.Ident:
			switch o := T.info.Uses[n].(type) {
			case *types.Var:
				if !own[o] {
					bad(n, "use of the variable "+o.Name()+" of the enclosing function")
				}
			case *types.Const, *types.TypeName, *types.Nil:
			default:
				bad(n, "identifier "+n.Name)
			}
		default:
			bad(n, fmt.Sprintf("%T", n))
		}
		return why == ""
	})
	return why
}

// analyseFmt is called for every node before the other analyses. handled=true: the other analyses
// must not look at this node itself; descend: visit its children.
func (t *tr) analyseFmt(F *fn, n ast.Node, unsupported func(ast.Node, string)) (handled, descend bool) {
	okSel := func(s *ast.SelectorExpr) {
		if F.okSel == nil {
			F.okSel = map[*ast.SelectorExpr]bool{}
		}
		F.okSel[s] = true
	}
	okIdent := func(x ast.Expr) {
		if id, ok := unparen(x).(*ast.Ident); ok {
			if F.fmtOK == nil {
				F.fmtOK = map[*ast.Ident]bool{}
			}
			F.fmtOK[id] = true
		}
	}
	isState := func(x ast.Expr) bool {
		if x == nil {
			return false
		}
		_, is := fmtIface(t.info.Types[x].Type)
		return is
	}
	switch n := n.(type) {
	case *ast.Ident:
		// a state variable may only be mentioned where the CallExpr case below admitted it
		if v, ok := t.info.Uses[n].(*types.Var); ok {
			if _, is := fmtIface(v.Type()); is && !F.fmtOK[n] {
				unsupported(n, "use of the fmt."+typeShort(v.Type())+" "+v.Name()+" other than as the receiver of a modelled method or as an argument of a call")
			}
		}
		if v, ok := t.info.Defs[n].(*types.Var); ok && v != nil && n.Name != "_" {
			if _, is := fmtIface(v.Type()); is && !F.isParam(v) {
				unsupported(n, "declaration of a fmt."+typeShort(v.Type())+" variable")
			}
		}
	case *ast.FuncLit:
		if F.okFuncLit[n] {
			return true, true
		}
	case *ast.SelectorExpr:
		if F.okSel[n] {
			return true, false
		}
		if _, _, ok := foreignErrVar(n); ok {
			// io.EOF, io.ErrUnexpectedEOF: constructors of Go.Err (Prelude)
			return true, false
		}
		if id, ok := n.X.(*ast.Ident); ok {
			if pn, ok := t.info.Uses[id].(*types.PkgName); ok && pn.Imported().Path() == fmtPkgPath {
				if tn, ok := t.info.Uses[n.Sel].(*types.TypeName); ok {
					if _, is := fmtIface(tn.Type()); is {
						F.fmtL = true
						return true, false // fmt.State / fmt.ScanState in type position
					}
				}
			}
		}
	case *ast.BinaryExpr:
		if isState(n.X) || isState(n.Y) {
			unsupported(n, "comparison of fmt.State / fmt.ScanState values")
		}
	case *ast.TypeAssertExpr:
		if isState(n.X) {
			unsupported(n, "type assertion on a fmt.State / fmt.ScanState value")
		}
	case *ast.ReturnStmt:
		for _, r := range n.Results {
			if isState(r) {
				unsupported(n, "fmt.State / fmt.ScanState value returned")
			}
		}
	case *ast.CallExpr:
		if call, sel, ok := errorsIs(n); ok {
			if _, esel, isSentinel := foreignErrVar(call.Args[1]); isSentinel {
				okSel(sel)
				okSel(esel)
				F.fmtL = true // Go.Err.Is lives in Go/Fmt.lean
				return true, true
			}
			return false, true // any other target: an unmodelled call (text layer)
		}
		if call, sel, _, key, ok := fmtMethodCall(n); ok {
			F.fmtL = true
			m, known := fmtMethods[key]
			if !known {
				unsupported(n, "fmt method "+key+" is not modelled")
				return true, false
			}
			if fmtVarOf(sel.X) == nil {
				unsupported(n, "receiver of "+key+" is not a variable")
				return true, false
			}
			okIdent(sel.X)
			if m.monadic {
				F.local = true
			}
			if m.closure >= 0 {
				fl, isLit := unparen(call.Args[m.closure]).(*ast.FuncLit)
				if !isLit {
					unsupported(n, key+" is only modelled with a function literal as argument "+fmt.Sprint(m.closure))
					return true, false
				}
				if why := closureCheck(fl); why != "" {
					unsupported(fl, why)
					return true, false
				}
				if F.okFuncLit == nil {
					F.okFuncLit = map[*ast.FuncLit]bool{}
				}
				F.okFuncLit[fl] = true
			}
			for _, a := range call.Args {
				if isState(a) {
					unsupported(n, "fmt.State / fmt.ScanState value passed to a method of package fmt")
				}
			}
			return true, true
		}
		// a state as a whole argument of a call: at most once per call
		seen := map[*types.Var]bool{}
		for _, a := range n.Args {
			if v := fmtVarOf(a); v != nil {
				if seen[v] {
					unsupported(n, "the fmt."+typeShort(v.Type())+" "+v.Name()+" is passed twice in one call")
				}
				seen[v] = true
				okIdent(a)
			}
		}
	}
	return false, true
}

func typeShort(t types.Type) string {
	n, _ := fmtIface(t)
	return n
}

func (F *fn) isParam(v *types.Var) bool {
	sig := F.obj.Type().(*types.Signature)
	for k := 0; k < sig.Params().Len(); k++ {
		if sig.Params().At(k) == v {
			return true
		}
	}
	return false
}

// ---------------------------------------------------------------- emission

// fmtTerm builds the Lean term of a method call of this layer (receiver first). Hoisted binds of the
// arguments go to e.pre.
func (e *em) fmtTerm(call *ast.CallExpr, sel *ast.SelectorExpr, iface, key string) (term string, m fmtMethod, recv string) {
	m, known := fmtMethods[key]
	if !known {
		e.fail(call, "fmt method %s", key)
	}
	v := fmtVarOf(sel.X)
	if v == nil {
		e.fail(call, "receiver of %s", key)
	}
	recv = e.names[v]
	msig := T.info.Selections[sel].Obj().Type().(*types.Signature)
	args := []string{recv}
	for k, a := range call.Args {
		if k == m.closure {
			args = append(args, e.closure(unparen(a).(*ast.FuncLit)))
			continue
		}
		var pt types.Type
		if k < msig.Params().Len() {
			pt = msig.Params().At(k).Type()
		}
		args = append(args, paren(e.exprAs(a, pt)))
	}
	return fmtLeanNS(iface) + "." + sel.Sel.Name + " " + strings.Join(args, " "), m, recv
}

// fmtCall translates a method call of this layer (and errors.Is on a sentinel) in expression
// position. For a method that changes the state the call is hoisted, the new state is assigned to
// the receiver variable and the term is the (tuple of the) results of the Go method.
func (e *em) fmtCall(x *ast.CallExpr) (string, bool) {
	if call, _, ok := errorsIs(x); ok {
		if c, _, isSentinel := foreignErrVar(call.Args[1]); isSentinel {
			return "(Go.Err.Is " + paren(e.expr(call.Args[0])) + " Go.Err." + c + ")", true
		}
		return "", false
	}
	call, sel, iface, key, ok := fmtMethodCall(x)
	if !ok {
		return "", false
	}
	term, m, recv := e.fmtTerm(call, sel, iface, key)
	nres := T.info.Selections[sel].Obj().Type().(*types.Signature).Results().Len()
	if !m.writes {
		if m.monadic {
			t := e.fresh("t")
			e.pre = append(e.pre, fmt.Sprintf("let %s ← %s", t, term))
			return t, true
		}
		return "(" + term + ")", true
	}
	if nres == 0 {
		e.fail(x, "call without results in expression position")
	}
	if e.inCond > 0 {
		e.fail(x, "state-changing method of fmt.%s in the right operand of && / ||", iface)
	}
	var temps []string
	for i := 0; i < 1+nres; i++ {
		temps = append(temps, e.fresh("r"))
	}
	bind := ":="
	if m.monadic {
		bind = "←"
	}
	e.pre = append(e.pre, fmt.Sprintf("let (%s) %s %s", strings.Join(temps, ", "), bind, term))
	e.pre = append(e.pre, recv+" := "+temps[0])
	return tuple(temps[1:]), true
}

// fmtStmt translates a method call of this layer whose results are bound to lhs (none for an
// expression statement).
func (e *em) fmtStmt(x *ast.CallExpr, lhs []ast.Expr, define bool, ind string, out *[]string) bool {
	call, sel, iface, key, ok := fmtMethodCall(x)
	if !ok {
		return false
	}
	term, m, recv := e.fmtTerm(call, sel, iface, key)
	nres := T.info.Selections[sel].Obj().Type().(*types.Signature).Results().Len()
	e.flush(ind, out)
	bind := ":="
	if m.monadic {
		bind = "←"
	}
	if len(lhs) == 0 {
		switch {
		case !m.writes:
			if m.monadic {
				*out = append(*out, ind+"let _ ← "+term)
			}
		case m.monadic && nres == 0:
			t := e.fresh("r")
			*out = append(*out, fmt.Sprintf("%slet %s ← %s", ind, t, term))
			*out = append(*out, ind+recv+" := "+t)
		case m.monadic:
			var temps []string
			for i := 0; i < 1+nres; i++ {
				temps = append(temps, e.fresh("r"))
			}
			*out = append(*out, fmt.Sprintf("%slet (%s) ← %s", ind, strings.Join(temps, ", "), term))
			*out = append(*out, ind+recv+" := "+temps[0])
		case nres == 0:
			*out = append(*out, ind+recv+" := "+term)
		default:
			// the results are discarded: the new state is the first component
			*out = append(*out, ind+recv+" := ("+term+").1")
		}
		return true
	}
	if len(lhs) != nres {
		e.fail(x, "assignment count")
	}
	n := nres
	if m.writes {
		n++
	}
	var temps []string
	for i := 0; i < n; i++ {
		temps = append(temps, e.fresh("r"))
	}
	*out = append(*out, fmt.Sprintf("%slet %s %s %s", ind, tuple(temps), bind, term))
	if m.writes {
		*out = append(*out, ind+recv+" := "+temps[0])
		temps = temps[1:]
	}
	for i, l := range lhs {
		if define {
			e.defineOrAssign(l, temps[i], ind, out)
		} else {
			e.assignTo(l, temps[i], ind, out)
		}
	}
	return true
}

// closure translates an admitted function literal (closureCheck) into a local Lean function: the
// bind is hoisted, the term is its name.
func (e *em) closure(fl *ast.FuncLit) string {
	if e.inCaptured > 0 {
		e.fail(fl, "function literal in a loop condition or in the right operand of && / ||")
	}
	sig := T.info.Types[fl].Type.(*types.Signature)
	var params, ptypes []string
	for k := 0; k < sig.Params().Len(); k++ {
		p := sig.Params().At(k)
		n := e.fresh("arg")
		if p.Name() != "" && p.Name() != "_" {
			n = e.declare(p)
		}
		params = append(params, fmt.Sprintf("(%s : %s)", n, leanType(p.Type())))
		ptypes = append(ptypes, leanType(p.Type()))
	}
	rt := leanType(sig.Results().At(0).Type())
	savePre, saveSig, saveLoops, saveSw := e.pre, e.closSig, e.loops, e.inSwitch
	e.pre, e.closSig, e.loops, e.inSwitch = nil, sig, nil, 0
	body := e.block(fl.Body.List, "  ")
	if len(e.pre) != 0 {
		e.fail(fl, "function literal with hoisted effects")
	}
	e.pre, e.closSig, e.loops, e.inSwitch = savePre, saveSig, saveLoops, saveSw
	for _, l := range body {
		if strings.Contains(l, "←") {
			e.fail(fl, "function literal with effects")
		}
	}
	name := e.fresh("fn")
	head := fmt.Sprintf("let %s : %s → %s := fun %s => Id.run do", name, strings.Join(ptypes, " → "), rt, strings.Join(params, " "))
	e.pre = append(e.pre, head+"\n"+strings.Join(body, "\n"))
	return name
}

// fmtMutated: the state variables a call changes (for `let mut` on parameters).
func fmtMutated(n *ast.CallExpr, mark func(ast.Expr)) {
	if _, sel, _, key, ok := fmtMethodCall(n); ok {
		if fmtMethods[key].writes {
			mark(sel.X)
		}
		return
	}
	for _, a := range n.Args {
		if fmtVarOf(a) != nil {
			mark(a)
		}
	}
}

// byteSliceLit: []byte{…} (the package variable spaceText).
func isByteSliceLit(x ast.Expr) bool {
	cl, ok := x.(*ast.CompositeLit)
	if !ok {
		return false
	}
	tv, ok := T.info.Types[cl]
	if !ok {
		return false
	}
	_, isSlice := under(tv.Type).(*types.Slice)
	return isSlice && isBytesLike(tv.Type) && !isStringType(tv.Type)
}
