#!/usr/bin/env python3
"""Assemble /verif/seeded/<id>/ (patch.diff, demo_test.go, meta.json) and seeded/INDEX.md from the sub-agents'
deliveries (/tmp/seedout/Cxx/{patchN.diff,demoN_test.go,metaN.json}) and the evaluation results
(/tmp/seedeval*/Cxx-N.json written by tools/evalseed.py; later directories override earlier ones for 'detection')."""
import glob, json, os, shutil, sys
# (delivery directory, evaluation directories in order, offset added to the sub-agent's change number)
ROUNDS = [('/tmp/seedout', [d for d in sorted(glob.glob('/tmp/seedeval*')) if '_r2' not in d and '_r3' not in d and '_r4' not in d], 0),
          ('/tmp/seedout2', sorted(glob.glob('/tmp/seedeval_r2*')), 2),
          ('/tmp/seedout3', sorted(glob.glob('/tmp/seedeval_r3*')), 4),
          ('/tmp/seedout4', sorted(glob.glob('/tmp/seedeval_r4*')), 6)]
OUT = '/verif/seeded'
os.makedirs(OUT, exist_ok=True)
rows = []
jobs = []
for SRC, EVALS, off in ROUNDS:
    for p in sorted(glob.glob(SRC + '/C*/patch*.diff')):
        jobs.append((p, EVALS, off))
for p, EVALS, off in jobs:
    d = os.path.dirname(p); prop = os.path.basename(d); n = os.path.basename(p)[5:-5]
    sid = '%s-%d' % (prop, int(n) + off)
    esid = '%s-%s' % (prop, n)
    dst = os.path.join(OUT, sid)
    os.makedirs(dst, exist_ok=True)
    shutil.copy(p, os.path.join(dst, 'patch.diff'))
    shutil.copy(os.path.join(d, 'demo%s_test.go' % n), os.path.join(dst, 'demo_test.go'))
    try:
        am = json.load(open(os.path.join(d, 'meta%s.json' % n)))
    except Exception:
        am = {}
    confirm, history = {}, []
    for ev in EVALS:
        f = os.path.join(ev, esid + '.json')
        if not os.path.exists(f):
            continue
        try:
            r = json.load(open(f))
        except Exception:
            continue
        for k in ('demo_passes_clean', 'patch_applies', 'demo_fails_mutated', 'builds_with_hooks', 'suite_passes_mutated'):
            if k in r:
                confirm[k] = r[k]
        for cp, c in (r.get('checks') or {}).items():
            history.append(dict(check=cp, verif_commit=r.get('verif_commit'), tier=r.get('tier'), detected=c['detected'],
                                with_failing_input=c['with_input'], violation_line=c.get('line', ''), wall_s=c.get('wall'),
                                replay=(c.get('replay') or {}) if isinstance(c.get('replay'), dict) else {}))
    meta = dict(id=sid, breaks_property=prop, summary=am.get('summary'), file=am.get('file'), function=am.get('function'),
                needs_to_manifest=am.get('needs'), example_input=am.get('example_input'), expected=am.get('expected'),
                actual_with_change=am.get('actual_with_change'),
                origin='written by a fresh sub-agent that was given only the text of the property and a scratch worktree of /repo (nothing from /verif)' + ('; later rounds: it was also told one-line summaries of the earlier changes for this property and asked for something of a different kind' if off else ''),
                confirmed_by_us=confirm,
                what_we_ran=['scratch worktree of /repo HEAD; cp demo_test.go; go test -run TestSeedDemo . (passes)',
                             'git apply patch.diff; go test -run TestSeedDemo . (fails); go build -tags verif ./...; go test -vet=off -count=1 ./... (passes)',
                             'VERIF_REPO=<scratch worktree> ./check <property> --tier quick in a clone of /verif at the listed commit (tools/evalseed.py)'],
                evaluations=[{k: v for k, v in h.items() if k != 'replay'} for h in history])
    json.dump(meta, open(os.path.join(dst, 'meta.json'), 'w'), indent=1)
    last = history[-1] if history else None
    first = history[0] if history else None
    what = ''
    if last and last['detected']:
        rp = last.get('replay') or {}
        what = (rp.get('message') or '; '.join(rp.get('no_longer_checks', []) or []) or '')[:160]
        what = ''.join(ch if ch.isprintable() else '?' for ch in what)
    rows.append((sid, (am.get('summary') or '')[:110], first, last, what))
rows.sort()
with open(os.path.join(OUT, 'INDEX.md'), 'w') as f:
    f.write('# Seeded changes and which checks catch them\n\n'
            'Each directory holds one change to woodsbury/decimal128 written by an independent sub-agent (property text only), '
            'its demonstration test and meta.json (what it needs to manifest, what we confirmed, every evaluation). '
            '"first" = evaluation with the checks as they were when the seed arrived, "now" = latest evaluation after strengthening. '
            '`input` = VIOLATION with a concrete failing input, `tie` = VIOLATION … no-failing-input-found (a theorem or the '
            'model/implementation correspondence no longer checks), `missed` = exit 0.\n\n'
            '| seed | change | first | now | how it is caught |\n|---|---|---|---|---|\n')
    def st(h):
        if not h:
            return 'n/a'
        if not h['detected']:
            return 'missed'
        return ('input' if h['with_failing_input'] else 'tie') + ' @' + str(h['verif_commit'])
    for sid, summ, first, last, what in rows:
        f.write('| %s | %s | %s | %s | %s |\n' % (sid, summ.replace('|', '/'), st(first), st(last), what.replace('|', '/').replace('\n', ' ')))
    n = len(rows); det = sum(1 for r in rows if r[3] and r[3]['detected']); inp = sum(1 for r in rows if r[3] and r[3]['with_failing_input'])
    f.write('\n%d seeds; caught now: %d (with a concrete failing input: %d); missed: %d\n' % (n, det, inp, n - det))
print('seeded:', len(rows))
