#!/bin/bash
# evaluate every seed under $1 (dirs Cxx with patchN.diff/demoN_test.go/metaN.json) using $2 parallel slots; results in $3
src=${1:-/tmp/seedout}; slots=${2:-3}; out=${3:-/tmp/seedeval}; tier=${4:-quick}
mkdir -p $out
ls $src/*/patch*.diff | while read p; do
  d=$(dirname $p); prop=$(basename $d); n=$(basename $p .diff | sed 's/patch//')
  echo "$p $d/demo${n}_test.go $prop $prop-$n"
done > $out/jobs.txt
cat $out/jobs.txt | xargs -P $slots --process-slot-var=SLOT -L 1 bash -c 'python3 /verif/tools/evalseed.py $0 $1 $2 slot$SLOT --tier '$tier' > '$out'/$3.json 2> '$out'/$3.err'
