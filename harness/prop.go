package main

import (
	"fmt"
	"os"
)

// pair of operands for a binary operation
func (g *G) pair() (dec, dec) {
	x := g.decimal()
	var y dec
	if g.chance(0.7) {
		y = g.related(x)
	} else {
		y = g.decimal()
	}
	if g.chance(0.5) {
		return y, x
	}
	return x, y
}

func (g *G) finitePair() (dec, dec) {
	x := g.finite()
	var y dec
	if g.chance(0.8) {
		y = g.related(x)
	} else {
		y = g.finite()
	}
	if g.chance(0.5) {
		return y, x
	}
	return x, y
}

func (g *G) drm() uint8 {
	if g.chance(0.5) {
		return 0
	}
	return g.mode()
}

func propC01(g *G, n int) {
	for i := 0; i < n; i++ {
		x, y := g.finitePair()
		if g.chance(0.1) {
			x, y = g.pair()
		}
		m := sU64(uint64(g.mode()))
		emit(g.drm(), "Decimal.AddWithMode", []string{x.String(), y.String(), m})
		emit(g.drm(), "Decimal.SubWithMode", []string{x.String(), y.String(), m})
		if i%4 == 0 {
			emit(g.drm(), "Decimal.Add", []string{x.String(), y.String()})
			emit(g.drm(), "Decimal.Sub", []string{x.String(), y.String()})
		}
	}
}

func propC02(g *G, n int) {
	for i := 0; i < n; i++ {
		x, y := g.finitePair()
		if g.chance(0.1) {
			x, y = g.pair()
		}
		m := sU64(uint64(g.mode()))
		emit(g.drm(), "Decimal.MulWithMode", []string{x.String(), y.String(), m})
		emit(g.drm(), "Decimal.QuoWithMode", []string{x.String(), y.String(), m})
		if i%4 == 0 {
			emit(g.drm(), "Decimal.Mul", []string{x.String(), y.String()})
			emit(g.drm(), "Decimal.Quo", []string{x.String(), y.String()})
		}
	}
}

func propC03(g *G, n int) {
	for i := 0; i < n; i++ {
		x, y := g.finitePair()
		if g.chance(0.1) {
			x, y = g.pair()
		}
		m := sU64(uint64(g.mode()))
		emit(g.drm(), "Decimal.QuoRemWithMode", []string{x.String(), y.String(), m})
		if i%4 == 0 {
			emit(g.drm(), "Decimal.QuoRem", []string{x.String(), y.String()})
		}
	}
}

func propC04(g *G, n int) {
	for i := 0; i < n; i++ {
		x, y := g.pair()
		a := []string{x.String(), y.String()}
		emit(0, "Decimal.Cmp", a)
		emit(0, "Decimal.CmpAbs", a)
		emit(0, "Decimal.Equal", a)
		emit(0, "Compare", a)
		emit(0, "Min", a)
		emit(0, "Max", a)
		emit(0, "Decimal.IsZero", a[:1])
		emit(0, "Decimal.Sign", a[:1])
		if i%8 == 0 {
			// every cohort member of x against every cohort member of y
			cx, cy := cohort(x), cohort(y)
			for _, p := range cx {
				q := cy[g.pick(len(cy))]
				emit(0, "Decimal.Cmp", []string{p.String(), q.String()})
				emit(0, "Decimal.Equal", []string{p.String(), x.String()})
			}
		}
	}
}

var props = map[string]func(*G, int){
	"C01": propC01,
	"C02": propC02,
	"C03": propC03,
	"C04": propC04,
}

func propMode(g *G, prop string, n int) {
	f, ok := props[prop]
	if !ok {
		fmt.Fprintln(os.Stderr, "no generator for property", prop)
		os.Exit(2)
	}
	f(g, n)
}

func apiCall(drm uint8, op string, args []string) {}
