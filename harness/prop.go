package main

func propMode(g *G, prop string, n int) {
	panic("prop mode not built yet: " + prop)
}

func apiCall(drm uint8, op string, args []string) {}
