package main

import (
	"fmt"
	"math/big"
	"os"
)

func newBig(s string) (*big.Int, bool) { return new(big.Int).SetString(s, 10) }
func bigInt(v int64) *big.Int          { return big.NewInt(v) }

// pair of operands for a binary operation
func (g *G) pair() (dec, dec) {
	x := g.decimal()
	var y dec
	if g.chance(0.7) {
		y = g.related(x)
	} else {
		y = g.decimal()
	}
	if g.chance(0.5) {
		return y, x
	}
	return x, y
}

func (g *G) finitePair() (dec, dec) {
	x := g.finite()
	var y dec
	if g.chance(0.8) {
		y = g.related(x)
	} else {
		y = g.finite()
	}
	if g.chance(0.5) {
		return y, x
	}
	return x, y
}

func (g *G) drm() uint8 {
	if g.chance(0.5) {
		return 0
	}
	return g.mode()
}

func propC01(g *G, n int) {
	for i := 0; i < n; i++ {
		x, y := g.finitePair()
		if g.chance(0.1) {
			x, y = g.pair()
		}
		m := sU64(uint64(g.mode()))
		emit(g.drm(), "Decimal.AddWithMode", []string{x.String(), y.String(), m})
		emit(g.drm(), "Decimal.SubWithMode", []string{x.String(), y.String(), m})
		if i%4 == 0 {
			emit(g.drm(), "Decimal.Add", []string{x.String(), y.String()})
			emit(g.drm(), "Decimal.Sub", []string{x.String(), y.String()})
		}
	}
}

func propC02(g *G, n int) {
	for i := 0; i < n; i++ {
		x, y := g.finitePair()
		if g.chance(0.1) {
			x, y = g.pair()
		}
		m := sU64(uint64(g.mode()))
		emit(g.drm(), "Decimal.MulWithMode", []string{x.String(), y.String(), m})
		emit(g.drm(), "Decimal.QuoWithMode", []string{x.String(), y.String(), m})
		if i%4 == 0 {
			emit(g.drm(), "Decimal.Mul", []string{x.String(), y.String()})
			emit(g.drm(), "Decimal.Quo", []string{x.String(), y.String()})
		}
	}
}

func propC03(g *G, n int) {
	for i := 0; i < n; i++ {
		x, y := g.finitePair()
		if g.chance(0.1) {
			x, y = g.pair()
		} else if g.chance(0.12) {
			// integer quotients around the largest finite Decimal: exponent gap 6111..6215 (the quotient is finite, rounded or
			// infinite depending on both coefficients), coefficients from the structured pool (1, 10^k, Cmax, 2^110, ...)
			gap := 6111 + g.pick(105)
			ey := g.pick(12288 - gap)
			cx, cy := g.coef(), g.coef()
			if g.chance(0.4) { // a power of ten over a full-length divisor: the quotient's digit count is decided by the divisor alone
				cx = pow10(g.pick(35))
			}
			if g.chance(0.5) {
				cy = g.coefLen(34 + g.pick(2))
			}
			if cy.Sign() == 0 {
				cy = big.NewInt(1)
			}
			xlo, xhi := encodeDec(g.chance(0.5), cx, ey+gap)
			ylo, yhi := encodeDec(g.chance(0.5), cy, ey)
			x, y = dec{xlo, xhi}, dec{ylo, yhi}
		}
		m := sU64(uint64(g.mode()))
		emit(g.drm(), "Decimal.QuoRemWithMode", []string{x.String(), y.String(), m})
		if i%4 == 0 {
			emit(g.drm(), "Decimal.QuoRem", []string{x.String(), y.String()})
		}
	}
}

func propC04(g *G, n int) {
	for i := 0; i < n; i++ {
		x, y := g.pair()
		a := []string{x.String(), y.String()}
		emit(0, "Decimal.Cmp", a)
		emit(0, "Decimal.CmpAbs", a)
		emit(0, "Decimal.Equal", a)
		emit(0, "Compare", a)
		emit(0, "Min", a)
		emit(0, "Max", a)
		emit(0, "Decimal.IsZero", a[:1])
		emit(0, "Decimal.Sign", a[:1])
		apiCall(0, "api.CmpFlags", a)
		if i%8 == 0 {
			// every cohort member of x against every cohort member of y
			cx, cy := cohort(x), cohort(y)
			for _, p := range cx {
				q := cy[g.pick(len(cy))]
				emit(0, "Decimal.Cmp", []string{p.String(), q.String()})
				emit(0, "Decimal.Equal", []string{p.String(), x.String()})
			}
		}
	}
}

// dp relative to the operand's own exponent and digit count, plus extremes
func (g *G) dpFor(x dec) int64 {
	_, c, e, sp := decode(x)
	if sp || g.chance(0.15) {
		return g.i64()
	}
	ue := int64(e - 6176)
	nd := int64(len(c.String()))
	switch g.pick(6) {
	case 0:
		return -ue - int64(g.pick(int(nd)+2))
	case 1:
		return -ue - nd + int64(g.pick(5)) - 2
	case 2:
		return -ue + int64(g.pick(5)) - 2
	case 3:
		return -ue - int64(g.pick(40))
	case 4:
		return int64(g.pick(81) - 40)
	}
	return -ue - nd - int64(g.pick(4))
}

func propC08(g *G, n int) {
	for i := 0; i < n; i++ {
		x := g.decimal()
		if g.chance(0.3) {
			// values near the top of the exponent range (quantum above Emax)
			lo, hi := encodeDec(g.chance(0.5), g.coef(), 12287-g.pick(45))
			x = dec{lo, hi}
		}
		dp := sI64(g.dpFor(x))
		emit(0, "Decimal.Round", []string{x.String(), dp, sU64(uint64(g.mode()))})
		emit(0, "Decimal.Ceil", []string{x.String(), dp})
		emit(0, "Decimal.Floor", []string{x.String(), dp})
		if i%4 == 0 {
			// integers-ish operands for the package functions
			lo, hi := encodeDec(g.chance(0.5), g.coef(), 6176-g.pick(40))
			y := dec{lo, hi}
			for _, op := range []string{"Round", "Trunc", "Ceil", "Floor"} {
				emit(0, op, []string{y.String()})
				emit(0, op, []string{x.String()})
			}
		}
	}
}

func propC10(g *G, n int) {
	bounds := []string{"9223372036854775807", "9223372036854775808", "18446744073709551615", "18446744073709551616", "2147483647", "2147483648", "4294967295", "4294967296", "0", "1"}
	for i := 0; i < n; i++ {
		var x dec
		switch g.pick(4) {
		case 0:
			x = g.decimal()
		case 1: // near a type bound, with a fraction
			b, _ := newBig(bounds[g.pick(len(bounds))])
			k := g.pick(16)
			b.Mul(b, pow10(k))
			b.Add(b, bigInt(int64(g.pick(3)-1)))
			if g.chance(0.5) && k > 0 {
				b.Add(b, bigInt(int64(g.pick(1000)-500)))
			}
			if b.Sign() < 0 {
				b.Neg(b)
			}
			if b.Cmp(cmax) > 0 {
				b.Set(cmax)
			}
			lo, hi := encodeDec(g.chance(0.5), b, 6176-k)
			x = dec{lo, hi}
		case 2: // small integers and fractions below one
			lo, hi := encodeDec(g.chance(0.5), g.coef(), 6176-g.pick(45))
			x = dec{lo, hi}
		default:
			lo, hi := encodeDec(g.chance(0.5), g.coef(), 6176+g.pick(30)-5)
			x = dec{lo, hi}
		}
		for _, op := range []string{"Decimal.Int64_", "Decimal.Int32_", "Decimal.Uint64", "Decimal.Uint32"} {
			emit(0, op, []string{x.String()})
		}
		if i%4 == 0 {
			v := g.i64()
			emit(0, "FromInt64", []string{sI64(v)})
			emit(0, "FromInt32", []string{sI64(int64(int32(v)))})
			emit(0, "FromUint64", []string{sU64(uint64(v))})
			emit(0, "FromUint32", []string{sU64(uint64(uint32(v)))})
		}
	}
}

func propC11(g *G, n int) {
	for i := 0; i < n; i++ {
		sig := g.i64()
		var e int64
		switch g.pick(5) {
		case 0:
			e = int64(-6176 - g.pick(45) + 5)
		case 1:
			e = int64(6111 + g.pick(45) - 40)
		case 2:
			e = int64(g.pick(14001) - 7000)
		default:
			e = g.i64()
		}
		emit(g.drm(), "New", []string{sI64(sig), sI64(e)})
		x := g.decimal()
		_, c, be, sp := decode(x)
		var le int64
		if sp {
			le = g.i64()
		} else {
			ue := int64(be - 6176)
			nd := int64(len(c.String()))
			switch g.pick(5) {
			case 0: // result lands near the bottom of the range
				le = -6176 - ue - nd + int64(g.pick(8)) - 4
			case 1:
				le = -6176 - ue + int64(g.pick(8)) - 4
			case 2: // near the top
				le = 6111 - ue + int64(g.pick(45)) - 5
			case 3:
				le = int64(g.pick(41) - 20)
			default:
				le = g.i64()
			}
		}
		emit(g.drm(), "Ldexp", []string{x.String(), sI64(le)})
		emit(0, "Frexp", []string{x.String()})
	}
}

func propC12(g *G, n int) {
	for i := 0; i < n; i++ {
		x := g.decimal()
		if g.chance(0.15) { // coefficients around bit 113 (the switch to the steering form), any exponent
			c := new(big.Int).Lsh(big.NewInt(1), 113)
			switch g.pick(4) {
			case 0:
				c.Add(c, big.NewInt(int64(g.pick(5)-2)))
			case 1:
				c.Add(c, new(big.Int).SetUint64(g.r.Uint64()))
			case 2:
				c.Sub(c, new(big.Int).SetUint64(g.r.Uint64()>>uint(g.pick(64))))
			default:
				c.Add(c, new(big.Int).Lsh(new(big.Int).SetUint64(g.r.Uint64()>>16), 64))
			}
			if c.Cmp(cmax) > 0 {
				c.Set(cmax)
			}
			lo, hi := encodeDec(g.chance(0.5), c, g.bexp())
			x = dec{lo, hi}
		}
		res := emit(0, "Decimal.MarshalBinary", []string{x.String()})
		if _, c, be, sp := decode(x); !sp && i%2 == 0 {
			// the same value made by the library itself from text, then marshalled
			apiCall(0, "api.ParseBinary", []string{sBytes([]byte(fmt.Sprintf("%se%d", c.String(), be-6176)))})
		}
		recv := g.decimal()
		apiCall(0, "api.BinRoundTrip", []string{x.String(), recv.String()})
		if len(res) == 2 {
			emit(0, "Decimal.UnmarshalBinary", []string{recv.String(), res[0]})
		}
		if i%3 == 0 {
			b := make([]byte, g.pick(65))
			g.r.Read(b)
			if g.chance(0.5) {
				b = make([]byte, 16)
				g.r.Read(b)
			}
			emit(0, "Decimal.UnmarshalBinary", []string{recv.String(), sBytes(b)})
		}
	}
}

func propC19canon(g *G, n int) {
	for i := 0; i < n; i++ {
		x := g.decimal()
		var yPow *dec
		switch i % 6 { // also the argument regions in which the elementary functions do real work
		case 1:
			x = g.expArg()
		case 2:
			x = g.logArg()
		case 3:
			x = g.log1pArg()
		case 4:
			px, py := g.powPair()
			x, yPow = px, &py
		}
		if _, c, _, sp := decode(x); !sp && c.BitLen() > 100 && g.chance(0.7) {
			// a full-length coefficient has no other encoding: shorten it
			x = g.shorten(x)
		}
		co := cohort(x)
		for _, m := range co {
			emit(0, "Decimal.Canonical", []string{m.String()})
		}
		// a battery of value-determined operations on a few encodings of the same value: every line is judged
		// against the Spec, which depends on the value only, so an encoding-dependent result shows on some member
		y := g.related(x)
		if yPow != nil {
			y = *yPow
		}
		mode := sU64(uint64(g.mode()))
		dp := sI64(g.dpFor(x))
		for k := 0; k < 4 && k < len(co); k++ {
			m := co[g.pick(len(co))]
			if k == 0 {
				m = co[len(co)-1]
			}
			ms := m.String()
			for _, op := range []string{"Decimal.AddWithMode", "Decimal.SubWithMode", "Decimal.MulWithMode", "Decimal.QuoWithMode", "Decimal.QuoRemWithMode"} {
				emit(0, op, []string{ms, y.String(), mode})
				emit(0, op, []string{y.String(), ms, mode})
			}
			for _, op := range []string{"Decimal.Cmp", "Decimal.CmpAbs", "Decimal.Equal", "Compare", "Min", "Max"} {
				emit(0, op, []string{ms, y.String()})
			}
			emit(0, "Decimal.Round", []string{ms, dp, mode})
			emit(0, "Decimal.Ceil", []string{ms, dp})
			emit(0, "Decimal.Floor", []string{ms, dp})
			for _, op := range []string{"Decimal.Int64_", "Decimal.Uint64", "Frexp", "Decimal.IsZero", "Decimal.Sign", "Decimal.Float64", "Sqrt", "Cbrt"} {
				emit(0, op, []string{ms})
			}
			apiCall(0, "api.String", []string{ms})
			apiCall(0, "api.MarshalJSON", []string{ms})
			apiCall(0, "api.Decompose", []string{ms, fmt.Sprint([]int{-1, 0, 8, 16, 40}[g.pick(5)])})
			apiCall(0, "api.Int", []string{ms, []string{"nil", "12345", "-7"}[g.pick(3)]})
			apiCall(0, "api.Rat", []string{ms, []string{"nil", "set"}[g.pick(2)]})
		}
		// the same value in two encodings through every exported operation that takes a Decimal: the two results
		// must have the same class, sign and numeric value (elementary functions are only bracketed by the Spec, so
		// they are compared with each other here)
		m1, m2 := co[g.pick(len(co))], co[g.pick(len(co))]
		if i%2 == 0 {
			m1, m2 = co[0], co[len(co)-1]
		}
		if m1 != m2 {
			drm := g.drm()
			same := func(op string, pos int, rest ...string) {
				apiCall(drm, "api.CohortSame", append([]string{op, fmt.Sprint(pos), m1.String(), m2.String()}, rest...))
			}
			for _, op := range []string{"Exp", "Exp2", "Exp10", "Expm1", "Log", "Log2", "Log10", "Log1p", "Sqrt", "Cbrt", "Abs", "Ceil", "Floor", "Round", "Trunc",
				"Decimal.Neg", "Decimal.IsNaN", "Decimal.IsZero", "Decimal.Signbit", "Decimal.Sign", "Decimal.Float32", "Decimal.Float64", "Decimal.Int32_", "Decimal.Int64_",
				"Decimal.Uint32", "Decimal.Uint64", "Decimal.Canonical", "Frexp", "Decimal.Payload_"} {
				same(op, 0)
			}
			same("Decimal.IsInf", 0, sI64(int64(g.pick(3)-1)))
			same("Ldexp", 0, sI64(g.i64()))
			same("Decimal.Round", 0, dp, mode)
			same("Decimal.Ceil", 0, dp)
			same("Decimal.Floor", 0, dp)
			ys := y.String()
			for _, op := range []string{"Decimal.Add", "Decimal.Sub", "Decimal.Mul", "Decimal.Quo", "Decimal.QuoRem", "Decimal.Pow", "Decimal.Cmp", "Decimal.CmpAbs", "Decimal.Equal", "Compare", "Min", "Max"} {
				same(op, 0, ys)
				same(op, 1, ys)
			}
			same("Decimal.PowWithMode", 0, ys, mode)
			same("Decimal.PowWithMode", 1, ys, mode)
			// integer and simple exponents reach Pow's shortcut paths
			for _, e := range []dec{g.smallIntDec(), g.decimal()} {
				same("Decimal.PowWithMode", 0, e.String(), mode)
			}
			prec := sI64(int64(g.pick(46) - 1))
			same("Format", 0, sU64(uint64("eEfFgG"[g.pick(6)])), prec)
			// the text forms are shortest forms: identical for every encoding of a value
			for _, op := range []string{"Decimal.String", "Decimal.MarshalText", "Decimal.MarshalJSON"} {
				same(op, 0)
			}
			same("Decimal.Append", 0, sBytes([]byte("x=")), sBytes([]byte(g.formatSpec())))
		}
	}
}

var props = map[string]func(*G, int){
	"C08": propC08,
	"C10": propC10,
	"C11": propC11,
	"C12": propC12,
	"C19": propC19canon,
	"C01": propC01,
	"C02": propC02,
	"C03": propC03,
	"C04": propC04,
}

func propMode(g *G, prop string, n int) {
	f, ok := props[prop]
	if !ok {
		fmt.Fprintln(os.Stderr, "no generator for property", prop)
		os.Exit(2)
	}
	f(g, n)
}
