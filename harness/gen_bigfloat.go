package main

import (
	"fmt"
	"math/big"
	"strconv"
)

// Argument generators for the big.Float conversions driven through the hooks in kernel mode
// (Decimal.Float, FromFloat). A *big.Float travels as prec:mode:value with value one of +Inf, -Inf,
// 0, -0, [-]m*2^e (m a positive integer of at most prec bits); the nil pointer is "nil" (only the
// result argument of Decimal.Float documents it).
var bigFloatOps = map[string]bool{"Decimal.Float": true, "FromFloat": true}

var floatPrecs = []uint{1, 2, 24, 53, 64, 113, 114, 127, 128, 129, 200, 1000}

// encBigFloat mirrors sBigFloat of the hooks.
func encBigFloat(f *big.Float) string {
	if f == nil {
		return "nil"
	}
	hd := fmt.Sprintf("%d:%d:", f.Prec(), f.Mode())
	sgn := ""
	if f.Signbit() {
		sgn = "-"
	}
	if f.IsInf() {
		if sgn == "" {
			sgn = "+"
		}
		return hd + sgn + "Inf"
	}
	if f.Sign() == 0 {
		return hd + sgn + "0"
	}
	r, _ := f.Rat(nil)
	m := new(big.Int).Abs(r.Num())
	e := 0
	if r.IsInt() {
		e = int(m.TrailingZeroBits())
		m.Rsh(m, uint(e))
	} else {
		e = -(r.Denom().BitLen() - 1)
	}
	return hd + sgn + m.String() + "*2^" + strconv.Itoa(e)
}

// floatBody: a value token that fits prec bits: ±0, ±Inf, or a mantissa of 1..prec bits (not
// necessarily odd: the decoders accept any) times a power of two.
func (g *G) floatBody(prec uint, wide bool) string {
	sgn := ""
	if g.chance(0.5) {
		sgn = "-"
	}
	if prec == 0 || g.chance(0.12) {
		switch g.pick(3) {
		case 0:
			if sgn == "" {
				return "+Inf"
			}
			return "-Inf"
		}
		return sgn + "0"
	}
	bits := 1 + g.pick(int(prec))
	if g.chance(0.3) {
		bits = int(prec)
	}
	m := new(big.Int).Rand(g.r, new(big.Int).Lsh(big.NewInt(1), uint(bits-1)))
	m.SetBit(m, bits-1, 1)
	switch g.pick(8) {
	case 0: // all ones
		m.Sub(new(big.Int).Lsh(big.NewInt(1), uint(bits)), big.NewInt(1))
	case 1: // a power of two
		m.SetInt64(1)
	case 2: // a small integer
		m.SetInt64(int64(1 + g.pick(1000)))
		if uint(m.BitLen()) > prec {
			m.SetInt64(1)
		}
	}
	var e int
	switch g.pick(6) {
	case 0:
		e = 0
	case 1:
		e = -m.BitLen() + g.pick(5) - 2 // around 1
	case 2, 3:
		e = g.pick(400) - 200 - m.BitLen()
	default:
		if wide {
			e = g.pick(42000) - 21000 - m.BitLen() // beyond both ends of the Decimal range (10^±6200 ≈ 2^±20600)
		} else {
			e = g.pick(4000) - 2000
		}
	}
	return sgn + m.String() + "*2^" + strconv.Itoa(e)
}

// floatTiePrec: set by floatDecimal when it produced a value with exactly floatTiePrec+1 significant
// bits; the receiver generated next then gets that precision (a tie for the two nearest modes).
var floatTiePrec uint

// floatRecv: the result argument of Decimal.Float: nil, or an object of any precision (0 included)
// and mode holding any prior value.
func (g *G) floatRecv() string {
	if p := floatTiePrec; p != 0 {
		floatTiePrec = 0
		return fmt.Sprintf("%d:%d:%s", p, g.pick(6), g.floatBody(p, false))
	}
	if g.chance(0.15) {
		return "nil"
	}
	var prec uint
	switch {
	case g.chance(0.06):
		prec = 0
	case g.chance(0.8):
		prec = floatPrecs[g.pick(len(floatPrecs))]
	default:
		prec = uint(1 + g.pick(300))
	}
	body := "0"
	if g.chance(0.7) {
		body = g.floatBody(prec, false)
	}
	return fmt.Sprintf("%d:%d:%s", prec, g.pick(6), body)
}

// floatDecimal: Decimals of every class for Decimal.Float: coefficients of 1..35 digits over the whole
// exponent range, every zero, ±Inf, NaN (the documented panic).
func (g *G) floatDecimal() dec {
	floatTiePrec = 0
	if g.chance(0.1) {
		// an odd integer m of p+1 bits times 2^e, as a Decimal: half-way between two p-bit values
		p := 1 + g.pick(100)
		if g.chance(0.5) {
			p = []int{1, 2, 3, 24, 53, 64}[g.pick(6)]
		}
		m := new(big.Int).Rand(g.r, new(big.Int).Lsh(big.NewInt(1), uint(p)))
		m.SetBit(m, p, 1).SetBit(m, 0, 1)
		e := g.pick(41) - 20
		c, bexp := new(big.Int).Set(m), 6176
		if e >= 0 {
			c.Lsh(c, uint(e))
		} else {
			c.Mul(c, new(big.Int).Exp(big.NewInt(5), big.NewInt(int64(-e)), nil))
			bexp += e
		}
		for k := g.pick(4); k > 0 && new(big.Int).Mod(c, big.NewInt(10)).Sign() == 0; k-- { // another cohort member
			c.Quo(c, big.NewInt(10))
			bexp++
		}
		if c.Cmp(cmax) <= 0 {
			floatTiePrec = uint(p)
			lo, hi := encodeDec(g.chance(0.5), c, bexp)
			return dec{lo, hi}
		}
	}
	switch g.pick(25) {
	case 0, 1:
		return g.special()
	case 2, 3:
		lo, hi := encodeDec(g.chance(0.5), big.NewInt(0), g.bexp())
		return dec{lo, hi}
	case 4:
		return g.decimal()
	}
	c := g.coefLen(1 + g.pick(35))
	if g.chance(0.25) {
		c = g.coef()
	}
	var e int
	switch g.pick(5) {
	case 0:
		e = g.bexp()
	case 1:
		e = 6176 + g.pick(121) - 60 // exponent 0 (Set), small powers of ten (10^k exact in few bits)
	default:
		e = g.pick(12288)
	}
	lo, hi := encodeDec(g.chance(0.5), c, e)
	return dec{lo, hi}
}

// fromFloatArg: big.Floats of precision 1..300 (sometimes 1000), every mode, values from below the
// smallest subnormal Decimal to above the largest, ±0, ±Inf; a share of them are decimal values
// c·10^k rounded to the precision (what Float produces), exactly or off by one unit in the last place.
func (g *G) fromFloatArg() string {
	prec := uint(1 + g.pick(300))
	switch {
	case g.chance(0.2):
		prec = floatPrecs[g.pick(len(floatPrecs))]
	case g.chance(0.03):
		prec = 0
	}
	mode := big.RoundingMode(g.pick(6))
	if prec > 0 && g.chance(0.35) {
		c := g.coefLen(1 + g.pick(35))
		if c.Sign() == 0 {
			c.SetInt64(1)
		}
		k := g.pick(12400) - 6200
		if g.chance(0.5) {
			k = g.pick(81) - 40
		}
		f := new(big.Float).SetPrec(prec).SetMode(mode)
		x := new(big.Float).SetInt(c)
		y := new(big.Float).SetInt(pow10(abs(k)))
		if k >= 0 {
			f.Mul(x, y)
		} else {
			f.Quo(x, y)
		}
		if g.chance(0.2) { // a neighbour
			r, _ := f.Rat(nil)
			ulp := new(big.Float).SetMantExp(big.NewFloat(1), f.MantExp(nil)-int(prec))
			u, _ := ulp.Rat(nil)
			if g.chance(0.5) {
				r.Add(r, u)
			} else {
				r.Sub(r, u)
			}
			if r.Sign() > 0 {
				f.SetMode(big.ToZero).SetRat(r)
				f.SetMode(mode)
			}
		}
		if g.chance(0.5) {
			f.Neg(f)
		}
		return encBigFloat(f)
	}
	return fmt.Sprintf("%d:%d:%s", prec, mode, g.floatBody(prec, true))
}

func abs(k int) int {
	if k < 0 {
		return -k
	}
	return k
}

func (g *G) bigFloatArg(codec, name, op string) (string, bool) {
	if !bigFloatOps[op] {
		return "", false
	}
	switch codec {
	case "BigFloat":
		if op == "Decimal.Float" {
			return g.floatRecv(), true
		}
		return g.fromFloatArg(), true
	case "S_Decimal":
		return g.floatDecimal().String(), true
	}
	return "", false
}
