package main

import (
	"errors"
	"fmt"
	"io"
	"strconv"
	"strings"

	d128 "github.com/woodsbury/decimal128"
)

// Generators for the fmt layer: Decimal.Format, Decimal.writeSpecial (fmt.State) and Decimal.Scan
// (fmt.ScanState) driven through the hooks in kernel mode with a fake State / ScanState built from the
// encoded value, and the api.Fmt* operations, which run the real package fmt.
//
// How package fmt FILLS a State from a verb string is outside the model. So that the differential runs on
// exactly the States fmt produces, a share of the State tokens is extracted from fmt itself: a probe
// Formatter is printed with a generated verb string and records what Flag, Width and Precision report
// (probeState). The rest are arbitrary States: every subset of the five flags with any width and
// precision, set or not.
var fmtOps = map[string]bool{"Decimal.Format": true, "Decimal.writeSpecial": true, "Decimal.Scan": true}

const probeMark = "\x00<probe>\x00"

type fmtProbe struct {
	tok    *string
	verb   *rune
	called *int
}

func encState(flags int, wid int, hasWid bool, prec int, hasPrec bool, out []byte) string {
	w, p := "none", "none"
	if hasWid {
		w = strconv.Itoa(wid)
	}
	if hasPrec {
		p = strconv.Itoa(prec)
	}
	return fmt.Sprintf("%d:%s:%s:%s", flags, w, p, sBytes(out))
}

func (p fmtProbe) Format(f fmt.State, verb rune) {
	flags := 0
	for i, c := range "-+# 0" {
		if f.Flag(int(c)) {
			flags |= 1 << uint(i)
		}
	}
	wid, hasWid := f.Width()
	prec, hasPrec := f.Precision()
	*p.tok = encState(flags, wid, hasWid, prec, hasPrec, nil)
	*p.verb = verb
	*p.called++
	io.WriteString(f, probeMark)
}

// probeState prints a probe with "%"+spec (stars: the operands of '*' widths / precisions) and returns the
// State package fmt handed to it, the verb, and what fmt printed before and after the operand.
func probeState(spec string, stars []int) (tok string, verb rune, prefix, suffix string, ok bool) {
	var called int
	ops := make([]any, 0, len(stars)+1)
	for _, s := range stars {
		ops = append(ops, s)
	}
	ops = append(ops, fmtProbe{&tok, &verb, &called})
	res := fmt.Sprintf("%"+spec, ops...)
	i := strings.Index(res, probeMark)
	if called != 1 || i < 0 {
		return "", 0, "", "", false
	}
	return tok, verb, res[:i], res[i+len(probeMark):], true
}

// fmtVerbSpec: a verb string (without the leading %): flags in any order and multiplicity, a width and a
// precision given as digits or as '*', a verb.
func (g *G) fmtVerbSpec() (string, []int) {
	var b strings.Builder
	var stars []int
	for i := g.pick(5); i > 0; i-- {
		b.WriteByte(" #+-0"[g.pick(5)])
	}
	switch {
	case g.chance(0.45):
	case g.chance(0.12):
		b.WriteByte('*')
		stars = append(stars, g.pick(70)-25)
	case g.chance(0.04):
		fmt.Fprintf(&b, "%d", 200+g.pick(3000))
	case g.chance(0.02):
		fmt.Fprintf(&b, "%d", 999990+g.pick(20)) // around fmt's limit of 10^6
	default:
		fmt.Fprintf(&b, "%d", g.pick(50))
	}
	switch {
	case g.chance(0.4):
	case g.chance(0.08):
		b.WriteByte('.')
	case g.chance(0.12):
		b.WriteString(".*")
		stars = append(stars, g.pick(50)-6)
	case g.chance(0.04):
		fmt.Fprintf(&b, ".%d", 100+g.pick(2500))
	default:
		fmt.Fprintf(&b, ".%d", g.pick(45))
	}
	switch {
	case g.chance(0.88):
		b.WriteByte("eEfFgGv"[g.pick(7)])
	case g.chance(0.7):
		b.WriteByte("dsxqTbocUtp"[g.pick(11)])
	default:
		b.WriteString([]string{"ť", "Ŧ", "€", "ｅ", "Ŧ"}[g.pick(5)]) // byte(verb) of U+0165 is 'e', of U+0166 'f'
	}
	return b.String(), stars
}

func (g *G) fmtOutPrefix() []byte {
	if g.chance(0.6) {
		return nil
	}
	b := make([]byte, 1+g.pick(6))
	for i := range b {
		b[i] = "ab =%!(\x00\xff"[g.pick(9)]
	}
	return b
}

// optInt: unset, or a value from the ranges the emitters are exercised with (a few negative and large)
func (g *G) fmtOpt(max int) (int, bool) {
	switch {
	case g.chance(0.35):
		return 0, false
	case g.chance(0.04):
		return -g.pick(40), true
	case g.chance(0.04):
		return 100 + g.pick(3000), true
	}
	return g.pick(max), true
}

// stash between the arguments of one generated call: the verb that goes with a probed State
var fmtVerbStash rune
var fmtVerbStashed bool

func (g *G) fmtStateTok() string {
	fmtVerbStashed = false
	if g.chance(0.4) {
		for try := 0; try < 10; try++ {
			spec, stars := g.fmtVerbSpec()
			if tok, verb, _, _, ok := probeState(spec, stars); ok {
				fmtVerbStash, fmtVerbStashed = verb, true
				p := strings.Split(tok, ":")
				p[3] = sBytes(g.fmtOutPrefix())
				return strings.Join(p, ":")
			}
		}
	}
	wid, hasWid := g.fmtOpt(60)
	prec, hasPrec := g.fmtOpt(48)
	return encState(g.pick(32), wid, hasWid, prec, hasPrec, g.fmtOutPrefix())
}

func (g *G) fmtVerb() rune {
	switch {
	case g.chance(0.85):
		return rune("eEfFgGv"[g.pick(7)])
	case g.chance(0.5):
		return rune("dsxq%Tb\x00 "[g.pick(9)])
	case g.chance(0.5):
		return []rune{0x165, 0x166, 0x167, 0x145, 0x20ac, 0x10ffff, -1, 0x7fffffff, -0x80000000}[g.pick(9)]
	}
	return rune(int32(g.r.Uint32()))
}

// ---------------------------------------------------------------- fmt.ScanState

var scanLeads = []string{"", "", "", " ", "  \t", "\n", " \n ", "\r\n", "\r", " ", "　 ", "\v\f", " ", "\u0085"}
var scanTrails = []string{"", "", "", " ", "\n", "x", " 12", "é", "€", "_", ",5", "\n3", "\r\n", "e", "-", "+5", ".", "\U0001F600", "\t7"}
var scanWords = []string{"Inf", "inf", "INF", "iNf", "Infinity", "infinity", "NaN", "nan", "NAN", "nAn", "In", "I", "i", "N", "n", "na", "Na", "Ix", "Inx", "Nax", "nb", "NaN5", "Inf1", "Infx", "+", "-", "", "İnf", "ＮaN"}

func (g *G) scanInput() []rune {
	var b strings.Builder
	b.WriteString(scanLeads[g.pick(len(scanLeads))])
	switch {
	case g.chance(0.3):
		if g.chance(0.6) {
			b.WriteString([]string{"+", "-", "", "+-", "--", "- "}[g.pick(6)])
		}
		b.WriteString(scanWords[g.pick(len(scanWords))])
	default:
		b.WriteString(g.literal())
	}
	b.WriteString(scanTrails[g.pick(len(scanTrails))])
	s := b.String()
	if len(s) > 400 {
		s = s[:400]
	}
	rs := []rune(s) // ill-formed UTF-8 becomes U+FFFD, as a rune reader delivers it
	if g.chance(0.05) && len(rs) > 0 {
		rs[g.pick(len(rs))] = []rune{0x20ac, 0xe9, 0x1f600, 0xa0, 0x3000, '\n', ' ', 0xfffd}[g.pick(8)]
	}
	return rs
}

func encRunes(rs []rune) string {
	var b strings.Builder
	b.WriteByte('r')
	for i, r := range rs {
		if i > 0 {
			b.WriteByte('.')
		}
		b.WriteString(strconv.Itoa(int(r)))
	}
	return b.String()
}

func encScanState(rs []rune, pos int, wid int, hasWid bool, used int, flags int) string {
	w := "none"
	if hasWid {
		w = strconv.Itoa(wid)
	}
	return fmt.Sprintf("%s:%d:%s:%d:%d", encRunes(rs), pos, w, used, flags)
}

func (g *G) scanStateTok() string {
	rs := g.scanInput()
	if g.chance(0.02) && len(rs) > 0 { // not Unicode scalar values: no rune reader delivers them, the fake and the model agree anyway
		rs[g.pick(len(rs))] = []rune{0xd800, 0xdfff, 0x110000, 0x7fffffff}[g.pick(4)]
	}
	pos := 0
	if g.chance(0.12) && len(rs) > 0 {
		pos = g.pick(len(rs) + 1)
	}
	wid, hasWid := 0, false
	if g.chance(0.35) {
		hasWid = true
		switch g.pick(4) {
		case 0:
			wid = g.pick(7)
		case 1:
			wid = len(rs) - pos + g.pick(5) - 2
		case 2:
			wid = g.pick(len(rs) + 3)
		default:
			wid = 1 + g.pick(40)
		}
		if g.chance(0.03) {
			wid = -g.pick(4)
		}
	}
	used := 0
	if g.chance(0.1) {
		used = g.pick(6) - 2
	}
	flags := []int{1, 1, 1, 2, 2, 0, 0, 3}[g.pick(8)] // Sscan, Sscanln, Sscanf, and the fourth combination
	if g.chance(0.03) {
		flags |= 4
	}
	if g.chance(0.05) && pos >= 1 {
		flags |= 8
	}
	if g.chance(0.08) {
		flags |= 16
	}
	return encScanState(rs, pos, wid, hasWid, used, flags)
}

func (g *G) fmtArg(codec, name, op string) (string, bool) {
	if !fmtOps[op] {
		return "", false
	}
	switch codec + ":" + name {
	case "FmtState:f":
		return g.fmtStateTok(), true
	case "ScanState:f":
		return g.scanStateTok(), true
	case "I32:verb":
		if op == "Decimal.Format" && fmtVerbStashed {
			fmtVerbStashed = false
			return sI64(int64(fmtVerbStash)), true
		}
		return sI64(int64(g.fmtVerb())), true
	case "S_Decimal:d":
		if (op == "Decimal.writeSpecial" && g.chance(0.9)) || (op == "Decimal.Format" && g.chance(0.25)) {
			return g.special().String(), true
		}
		return "", false
	case "I64:width":
		switch {
		case g.chance(0.25):
			return "0", true
		case g.chance(0.04):
			return sI64(int64(g.pick(3000))), true
		case g.chance(0.04):
			return sI64(-int64(g.pick(50))), true
		}
		return sI64(int64(g.pick(40))), true
	}
	return "", false
}

// ---------------------------------------------------------------- operations on the real package fmt

func fmtErrClass(err error) string {
	switch {
	case err == nil:
		return "nil"
	case err == io.EOF:
		return "eof"
	case err == io.ErrUnexpectedEOF:
		return "unexpectedEOF"
	case errors.Is(err, strconv.ErrSyntax):
		return "syntax"
	case errors.Is(err, strconv.ErrRange):
		return "range"
	}
	return "other"
}

func vInts(s string) []int {
	if s == "-" {
		return nil
	}
	var r []int
	for _, t := range strings.Split(s, ",") {
		v, _ := strconv.Atoi(t)
		r = append(r, v)
	}
	return r
}

func sInts(v []int) string {
	if len(v) == 0 {
		return "-"
	}
	var p []string
	for _, x := range v {
		p = append(p, strconv.Itoa(x))
	}
	return strings.Join(p, ",")
}

// apiFmt runs the api.Fmt* operations.
//
//	api.FmtSprintf <d> <spec> <stars> <state> <verb> = <out>
//	    fmt.Sprintf("%"+spec, stars…, d) with what fmt printed around the operand removed; <state> and
//	    <verb> are what fmt handed to a probe Formatter for the same verb string: the model is
//	    Decimal.Format on that State
//	api.FmtSscan <d> <mode> <spec> <input> = <d'> <n> <error class>
//	    mode 0: fmt.Sscanf(input, "%"+spec, &d), 1: fmt.Sscan(input, &d), 2: fmt.Sscanln(input, &d)
func apiFmt(op string, a []string) ([]string, bool) {
	switch op {
	case "api.FmtSprintf":
		spec := string(vBytes(a[1]))
		stars := vInts(a[2])
		_, _, prefix, suffix, ok := probeState(spec, stars)
		if !ok {
			return []string{"NOPROBE"}, true
		}
		ops := make([]any, 0, len(stars)+1)
		for _, s := range stars {
			ops = append(ops, s)
		}
		ops = append(ops, toDec(a[0]))
		res := fmt.Sprintf("%"+spec, ops...)
		if !strings.HasPrefix(res, prefix) || !strings.HasSuffix(res, suffix) || len(res) < len(prefix)+len(suffix) {
			return []string{"AROUND:" + sBytes([]byte(res))}, true
		}
		return []string{sBytes([]byte(res[len(prefix) : len(res)-len(suffix)]))}, true
	case "api.FmtSscan":
		d := toDec(a[0])
		in := string(vBytes(a[3]))
		var n int
		var err error
		switch a[1] {
		case "0":
			n, err = fmt.Sscanf(in, "%"+string(vBytes(a[2])), &d)
		case "1":
			n, err = fmt.Sscan(in, &d)
		default:
			n, err = fmt.Sscanln(in, &d)
		}
		return []string{fromDec(d), sI64(int64(n)), fmtErrClass(err)}, true
	case "fmt.ScanScript":
		return scanScript(a), true
	}
	return nil, false
}

func (g *G) scanText() string {
	rs := g.scanInput()
	if g.chance(0.05) { // ill-formed UTF-8 in the byte string
		return string(rs) + "\xff1"
	}
	return string(rs)
}

func propFMT(g *G, n int) {
	for i := 0; i < n; i++ {
		// the real fmt.Sprintf against Decimal.Format on the State fmt produces
		for try := 0; try < 10; try++ {
			spec, stars := g.fmtVerbSpec()
			tok, verb, _, _, ok := probeState(spec, stars)
			if !ok {
				continue
			}
			x := g.decimal()
			if g.chance(0.2) {
				x = g.special()
			}
			apiCall(0, "api.FmtSprintf", []string{x.String(), sBytes([]byte(spec)), sInts(stars), tok, sI64(int64(verb))})
			break
		}
		// the real Sscan / Sscanln / Sscanf against Decimal.Scan on the ScanState they build
		drm := uint8(0)
		if g.chance(0.5) {
			drm = g.mode()
		}
		mode := g.pick(3)
		spec := ""
		if mode == 0 {
			if g.chance(0.4) {
				spec = strconv.Itoa(g.pick(12))
				if g.chance(0.3) {
					spec = strconv.Itoa(g.pick(60))
				}
			}
			if g.chance(0.9) {
				spec += string("eEfFgGv"[g.pick(7)])
			} else {
				spec += string("dsxqc"[g.pick(5)])
			}
		}
		in := g.scanText()
		// the last argument is the input as a rune reader delivers it (U+FFFD for ill-formed UTF-8): how
		// bytes become runes is outside the model
		apiCall(drm, "api.FmtSscan", []string{g.decimal().String(), strconv.Itoa(mode), sBytes([]byte(spec)), sBytes([]byte(in)), encRunes([]rune(in))})
		// the hand-written ScanState of Go/Fmt.lean against fmt's own
		g.emitScanScript()
	}
}

func init() {
	props["FMT"] = propFMT
}

// ---------------------------------------------------------------- fmt.ScanScript

// A script of ScanState operations run by a probe Scanner inside the real Sscanf / Sscan / Sscanln:
//
//	fmt.ScanScript <mode> <wid> <input> <script> = <trace>
//
// mode as for api.FmtSscan, wid the width of the Sscanf verb or "none", script a string over R (ReadRune),
// U (UnreadRune; only generated directly after an R that delivered a rune), S (SkipSpace), T / t
// (Token(true / false, digit-or-sign predicate)), W (Width); the trace has one item per operation,
// separated by '|'. The oracle runs the same script on the ScanState of Go/Fmt.lean, built the way the
// three functions are documented to build it.
type scanProbe struct {
	script string
	trace  *[]string
}

// digits, signs and one rune of each longer UTF-8 length (é, €, U+1F600), so that Token's encoding is compared
func scriptPred(r rune) bool {
	return r >= '0' && r <= '9' || r == '+' || r == '-' || r == 0xe9 || r == 0x20ac || r == 0x1f600
}

func (p scanProbe) Scan(f fmt.ScanState, verb rune) error {
	tr := p.trace
	for _, c := range p.script {
		switch c {
		case 'R':
			r, size, err := f.ReadRune()
			*tr = append(*tr, fmt.Sprintf("R:%d:%d:%s", r, size, fmtErrClass(err)))
		case 'U':
			err := f.UnreadRune()
			*tr = append(*tr, "U:"+fmtErrClass(err))
		case 'S':
			func() {
				defer func() {
					if r := recover(); r != nil {
						*tr = append(*tr, "S:panic")
					}
				}()
				f.SkipSpace()
				*tr = append(*tr, "S:ok")
			}()
		case 'T', 't':
			tok, err := f.Token(c == 'T', scriptPred)
			*tr = append(*tr, "T:"+sBytes(tok)+":"+fmtErrClass(err))
		case 'W':
			w, ok := f.Width()
			*tr = append(*tr, fmt.Sprintf("W:%d:%v", w, ok))
		}
	}
	return nil
}

func scanScript(a []string) []string {
	var trace []string
	p := scanProbe{a[3], &trace}
	in := string(vBytes(a[2]))
	switch a[0] {
	case "0":
		w := ""
		if a[1] != "none" {
			w = a[1]
		}
		fmt.Sscanf(in, "%"+w+"v", p)
	case "1":
		fmt.Sscan(in, p)
	default:
		fmt.Sscanln(in, p)
	}
	if len(trace) == 0 {
		return []string{"-"}
	}
	return []string{strings.Join(trace, "|")}
}

func (g *G) emitScanScript() {
	mode := g.pick(3)
	wid := "none"
	if mode == 0 && g.chance(0.5) {
		wid = strconv.Itoa(g.pick(8))
	}
	var b strings.Builder
	lastR := false
	for i := 1 + g.pick(8); i > 0; i-- {
		c := "RRRRUSTtW"[g.pick(9)]
		if c == 'U' && !lastR {
			c = 'R'
		}
		b.WriteByte(c)
		lastR = false // whether the R delivers a rune is only known at run time: U directly after R is
		// generated, and dropped by the probe's caller if the R failed (see below)
		if c == 'R' {
			lastR = true
		}
	}
	// well-formed UTF-8 only: the size ReadRune reports for ill-formed input (U+FFFD, 1) is not modelled
	// (the model's input is a sequence of runes; Decimal.Scan ignores the size)
	in := strings.ToValidUTF8(g.scanText(), "\ufffd")
	script := b.String()
	// drop a U that follows an R which does not deliver a rune: run once, inspect the trace
	for {
		res := scanScript([]string{strconv.Itoa(mode), wid, sBytes([]byte(in)), script})
		items := strings.Split(res[0], "|")
		cut := -1
		for k := 0; k+1 < len(script) && k < len(items); k++ {
			if script[k] == 'R' && script[k+1] == 'U' && !strings.HasSuffix(items[k], ":nil") {
				cut = k + 1
				break
			}
		}
		if cut < 0 {
			break
		}
		script = script[:cut] + script[cut+1:]
	}
	apiCall(0, "fmt.ScanScript", []string{strconv.Itoa(mode), wid, sBytes([]byte(in)), script, encRunes([]rune(in))})
}

var _ = d128.ToNearestEven
