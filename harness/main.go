// Correspondence harness: drives the real decimal128 code (built with -tags verif) and prints one
// protocol line per case: `<drm> <op> <args…> = <results…>`. The Lean oracle re-computes each line.
package main

import (
	"bufio"
	"encoding/json"
	"flag"
	"fmt"
	"hash/fnv"
	"math/big"
	"math/rand"
	"os"
	"sort"
	"strconv"
	"strings"
	"sync"
	"time"

	d128 "github.com/woodsbury/decimal128"
)

type stats struct {
	Evaluations int            `json:"evaluations"`
	Distinct    int            `json:"distinct_nontrivial"`
	PerOp       map[string]int `json:"per_op"`
	Panics      int            `json:"panics"`
	Kinds       map[string]int `json:"result_kinds"`
	Samples     []string       `json:"samples"`
	seen        map[uint64]struct{}
}

var debug = os.Getenv("VERIF_DEBUG") != ""

var (
	out *bufio.Writer
	st  = &stats{PerOp: map[string]int{}, Kinds: map[string]int{}, seen: map[uint64]struct{}{}}
)

func classify(res []string) string {
	if len(res) == 0 {
		return "void"
	}
	r := res[0]
	if strings.HasPrefix(r, "PANIC") {
		return r
	}
	if len(r) == 32 && !strings.ContainsAny(r, ",x") {
		switch {
		case strings.HasPrefix(r, "7c") || strings.HasPrefix(r, "fc") || strings.HasPrefix(r, "7e") || strings.HasPrefix(r, "fe"):
			return "nan"
		case strings.HasPrefix(r, "78") || strings.HasPrefix(r, "f8"):
			return "inf"
		}
		return "finite"
	}
	return "value"
}

// Watchdog: every property presupposes that the call returns. A call of the library that is still running after the limit
// (VERIF_WATCHDOG_S, default 180 s; the slowest legitimate call takes milliseconds) is reported as the protocol line
// `<drm> <op> <args> = HANG`, which the oracle turns into a violation with that input instead of waiting for the
// shard's time limit. The main goroutine is inside the library at that point and does not touch `out`.
var (
	wdMu     sync.Mutex
	wdLine   string
	wdStart  time.Time
	wdFinish = func() {}
)

func wdEnter(drm uint8, op string, args []string) {
	wdMu.Lock()
	wdLine = fmt.Sprintf("%d %s %s", drm, op, strings.Join(args, " "))
	wdStart = time.Now()
	wdMu.Unlock()
}

func wdLeave() {
	wdMu.Lock()
	wdLine = ""
	wdMu.Unlock()
}

func watchdog() {
	limit := 180 * time.Second
	if v, err := strconv.Atoi(os.Getenv("VERIF_WATCHDOG_S")); err == nil && v > 0 {
		limit = time.Duration(v) * time.Second
	}
	for {
		time.Sleep(500 * time.Millisecond)
		wdMu.Lock()
		l, s := wdLine, wdStart
		wdMu.Unlock()
		if l != "" && time.Since(s) > limit {
			out.WriteString(l + " = HANG\n")
			st.Evaluations++
			st.Kinds["HANG"]++
			out.Flush()
			wdFinish()
			os.Exit(0)
		}
	}
}

// emit runs op through the hook dispatcher and prints the line.
func emit(drm uint8, op string, args []string) []string {
	d128.DefaultRoundingMode = d128.RoundingMode(drm)
	if debug {
		fmt.Fprintf(os.Stderr, "CALL %d %s %s\n", drm, op, strings.Join(args, " "))
	}
	wdEnter(drm, op, args)
	res := d128.VerifCall(op, args)
	wdLeave()
	d128.DefaultRoundingMode = d128.ToNearestEven
	record(drm, op, args, res)
	return res
}

func record(drm uint8, op string, args, res []string) {
	line := fmt.Sprintf("%d %s %s = %s", drm, op, strings.Join(args, " "), strings.Join(res, " "))
	out.WriteString(line)
	out.WriteByte('\n')
	st.Evaluations++
	st.PerOp[op]++
	k := classify(res)
	st.Kinds[k]++
	if strings.HasPrefix(k, "PANIC") {
		st.Panics++
	} else {
		h := fnv.New64a()
		h.Write([]byte(op))
		h.Write([]byte(strings.Join(args, " ")))
		st.seen[h.Sum64()] = struct{}{}
	}
	if len(st.Samples) < 12 && st.Evaluations%97 == 1 {
		st.Samples = append(st.Samples, line)
	}
}

func (g *G) arg(spec string, op string) string {
	p := strings.SplitN(spec, ":", 2)
	codec, name := p[0], p[1]
	if s, ok := g.textArg(codec, name, op); ok {
		return s
	}
	if s, ok := g.bigArg(codec, name, op); ok {
		return s
	}
	if s, ok := g.bigFloatArg(codec, name, op); ok {
		return s
	}
	if s, ok := g.fmtArg(codec, name, op); ok {
		return s
	}
	switch codec {
	case "Bool":
		return sBool(g.chance(0.5))
	case "U8":
		if name == "rm" || name == "mode" {
			return sU64(uint64(g.mode()))
		}
		if name == "form" {
			return sU64(uint64(g.pick(4)))
		}
		return sU64(uint64(g.pick(256)))
	case "I8":
		if g.chance(0.9) {
			return sI64(int64(g.pick(4) - 2)) // the four CmpResult codes, NaN (-2) included
		}
		return sI64(int64(g.pick(256) - 128))
	case "I16":
		if name == "l10" {
			return sI64(int64(g.pick(60)))
		}
		if name == "o" { // powexp10 exponent
			return sI64(int64(g.pick(8)))
		}
		return sI64(int64(g.i16exp()))
	case "I32":
		return sI64(int64(int32(g.i64())))
	case "I64":
		if name == "sign" {
			return sI64(int64(g.pick(3) - 1))
		}
		return sI64(g.i64())
	case "U32":
		return sU64(uint64(uint32(g.u64())))
	case "U64":
		if name == "digit" && g.chance(0.9) {
			return sU64(uint64(g.pick(10)))
		}
		if name == "o" && (strings.HasSuffix(op, "lsh") || strings.HasSuffix(op, "rsh")) {
			return sU64(uint64(g.pick(300)))
		}
		if name == "op" || name == "lhs" || name == "rhs" {
			return sU64(uint64(g.pick(24)))
		}
		return sU64(g.u64())
	case "F64":
		return sU64(g.f64bits())
	case "F32":
		return sU64(uint64(g.f32bits()))
	case "U128":
		return g.wordsN(2)
	case "U192":
		return g.wordsN(3)
	case "U256":
		return g.wordsN(4)
	case "U384":
		return g.wordsN(6)
	case "S_Decimal":
		return g.decimal().String()
	case "S_decomposed192":
		for {
			w := g.wordsN(3)
			if strings.Trim(w, "0") != "" {
				e := g.pick(200) - 120
				if g.chance(0.1) {
					e = g.pick(14000) - 7000
				}
				return fmt.Sprintf("%s,%d", w, e)
			}
		}
	case "S_digits":
		return g.digitsRec()
	case "S_formatArgs":
		return fmt.Sprintf("%s,%s,%s,%s,%s,%d,%d,%d", sBool(g.chance(.5)), sBool(g.chance(.5)), sBool(g.chance(.5)), sBool(g.chance(.5)), sBool(g.chance(.5)), "eEfFgGvx"[g.pick(8)], g.pick(45)-2, g.pick(45))
	case "Bytes":
		if name == "format" {
			return sBytes([]byte(g.formatSpec()))
		}
		return sBytes([]byte(g.literal()))
	}
	panic("no generator for " + spec)
}

func (g *G) digitsRec() string {
	n := g.pick(40)
	var dig [39]byte
	for i := 0; i < n; i++ {
		dig[i] = byte('0' + g.pick(10))
	}
	if n > 0 && g.chance(0.8) {
		if dig[0] == '0' {
			dig[0] = '1'
		}
		if dig[n-1] == '0' {
			dig[n-1] = '5'
		}
	}
	if g.chance(0.3) { // ties and nines
		for i := 0; i < n; i++ {
			dig[i] = '9'
		}
		if n > 0 && g.chance(0.5) {
			dig[n-1] = '5'
		}
	}
	return fmt.Sprintf("%s,%s,%d,%d", sBool(g.chance(.5)), sBytes(dig[:]), g.pick(12400)-6200, n)
}

func (g *G) formatSpec() string {
	var b strings.Builder
	for i := g.pick(4); i > 0; i-- {
		b.WriteByte(" #+-0"[g.pick(5)])
	}
	if g.chance(0.6) {
		fmt.Fprintf(&b, "%d", g.pick(60))
	}
	if g.chance(0.6) {
		b.WriteByte('.')
		if g.chance(0.8) {
			fmt.Fprintf(&b, "%d", g.pick(50))
		}
	}
	if g.chance(0.95) {
		b.WriteByte("eEfFgGvdsx%"[g.pick(11)])
	}
	if g.chance(0.03) {
		return fmt.Sprintf("%d.%d%c", g.r.Int63(), g.r.Int63(), "efg"[g.pick(3)])
	}
	return b.String()
}

var fixupG *G

// kernelStates steers most rounding-kernel cases into the states the callers produce (the
// hypotheses of the RoundKernel theorems), where the Spec fixes the result.
func kernelStates(g *G, op string, sig, args []string) {
	idx := func(name string) int {
		for i, s := range sig {
			if strings.HasSuffix(s, ":"+name) {
				return i
			}
		}
		return -1
	}
	if g.chance(0.15) {
		return // keep some arbitrary tuples for the model comparison
	}
	two110 := new(big.Int).Lsh(big.NewInt(1), 110)
	if op == "RoundingMode.round" {
		si, ei, ti, di, shi := idx("sig"), idx("exp"), idx("trunc"), idx("digit"), idx("shift")
		args[shi] = "T"
		args[di] = sU64(uint64(g.pick(10)))
		if g.chance(0.3) {
			args[di] = sU64(uint64([]int{0, 5, 9, 4}[g.pick(4)]))
		}
		args[ti] = sI64(int64(g.pick(3) - 1))
		var c *big.Int
		switch g.pick(6) {
		case 0: // boundaries of the full range
			c = []*big.Int{new(big.Int).Set(two110), new(big.Int).Add(two110, big.NewInt(1)), new(big.Int).Set(cmax), new(big.Int).Sub(cmax, big.NewInt(1)), pow10(34), new(big.Int).Sub(pow10(34), big.NewInt(1))}[g.pick(6)]
			args[ei] = sI64(int64(g.pick(12288)))
		case 1: // minimum exponent, short significand
			c = g.coef()
			args[ei] = "0"
		case 2: // exact short value
			c = g.coef()
			args[di], args[ti] = "0", "0"
			args[ei] = sI64(int64(g.pick(12288)))
		default: // full significand
			c = new(big.Int).Rand(g.r, new(big.Int).Sub(cmax, two110))
			c.Add(c, two110)
			args[ei] = sI64(int64([]int{0, 1, 6176, 12286, 12287, g.pick(12288)}[g.pick(6)]))
		}
		lo, hi := words(c)
		args[si] = sWords(lo, hi)
		return
	}
	ti, ei := idx("trunc"), idx("exp")
	if ei >= 0 {
		switch g.pick(5) {
		case 0:
			args[ei] = sI64(int64(-g.pick(60)))
		case 1:
			args[ei] = sI64(int64(12287 - g.pick(60) + 20))
		default:
			args[ei] = sI64(int64(g.pick(12288)))
		}
	}
	if ti >= 0 {
		args[ti] = sI64(int64(g.pick(3) - 1))
		// a sticky flag only comes with a significand that still has digits to drop
		for i, s := range sig {
			var n int
			switch {
			case strings.HasPrefix(s, "U128:"):
				n = 2
			case strings.HasPrefix(s, "U192:"):
				n = 3
			case strings.HasPrefix(s, "U256:"):
				n = 4
			default:
				continue
			}
			bits := 118 + g.pick(n*64-118)
			c := new(big.Int).Rand(g.r, new(big.Int).Lsh(big.NewInt(1), uint(bits)))
			c.SetBit(c, bits, 1)
			if g.chance(0.3) { // long runs of zeros / nines below the rounding position
				k := 2 + g.pick(30)
				m := pow10(k)
				c.Sub(c, new(big.Int).Mod(c, m))
				switch g.pick(4) {
				case 0:
					c.Add(c, new(big.Int).Div(m, big.NewInt(2)))
				case 1:
					c.Add(c, new(big.Int).Sub(m, big.NewInt(1)))
				case 2:
					c.Add(c, new(big.Int).Sub(new(big.Int).Div(m, big.NewInt(2)), big.NewInt(1)))
				}
			}
			w := make([]uint64, n)
			t := new(big.Int).Set(c)
			for j := 0; j < n; j++ {
				w[j] = new(big.Int).And(t, new(big.Int).SetUint64(^uint64(0))).Uint64()
				t.Rsh(t, 64)
			}
			args[i] = sWords(w...)
		}
	}
}

func kernelMode(g *G, n int, filter string) {
	fixupG = g
	ops := append([]string{}, d128.VerifOps...)
	sort.Strings(ops)
	for _, op := range ops {
		if filter != "" && !matchAny(op, filter) {
			continue
		}
		sig := d128.VerifSigs[op]
		cnt := n
		if len(sig) == 0 {
			cnt = 1
		}
		for i := 0; i < cnt; i++ {
			args := make([]string, len(sig))
			for k, s := range sig {
				args[k] = g.arg(s, op)
			}
			drm := uint8(0)
			if g.chance(0.5) {
				drm = g.mode()
			}
			if (op == "Decimal.Float64" || op == "Decimal.Float32") && g.chance(0.7) {
				args[0] = g.floatishDecimal().String() // in and around the binary ranges, half-way points
			}
			fixup(op, sig, args)
			g.textFixup(op, sig, args)
			emit(drm, op, args)
		}
	}
}

func matchAny(op, filter string) bool {
	for _, f := range strings.Split(filter, ",") {
		if f == op || (strings.HasSuffix(f, "*") && strings.HasPrefix(op, strings.TrimSuffix(f, "*"))) {
			return true
		}
	}
	return false
}

func main() {
	mode := flag.String("mode", "kernel", "kernel | prop | replay | race")
	prop := flag.String("prop", "", "property id for -mode prop")
	n := flag.Int("n", 100, "cases per operation / per generator")
	seed := flag.Int64("seed", 1, "PRNG seed")
	ops := flag.String("ops", "", "comma separated operation filter (kernel mode); prefix* allowed")
	statsFile := flag.String("stats", "", "write run statistics (JSON) here")
	hintArg := flag.String("hints", "", "comma separated integer literals to steer the generators at (hunt mode)")
	flag.Parse()
	for _, h := range strings.Split(*hintArg, ",") {
		if v, err := strconv.ParseUint(strings.TrimSpace(h), 10, 64); err == nil {
			hints = append(hints, v)
		}
	}
	out = bufio.NewWriterSize(os.Stdout, 1<<20)
	defer out.Flush()
	g := &G{r: rand.New(rand.NewSource(*seed))}
	start := time.Now()
	writeStats := func() {
		st.Distinct = len(st.seen)
		if *statsFile != "" {
			b, _ := json.MarshalIndent(struct {
				*stats
				Seed  int64   `json:"seed"`
				WallS float64 `json:"wall_s"`
			}{st, *seed, time.Since(start).Seconds()}, "", " ")
			os.WriteFile(*statsFile, b, 0o644)
		}
	}
	wdFinish = writeStats
	if *mode != "race" {
		go watchdog()
	}
	switch *mode {
	case "kernel":
		kernelMode(g, *n, *ops)
	case "prop":
		propMode(g, *prop, *n)
	case "replay":
		replayMode(flag.Args())
	case "race":
		out.Flush()
		raceMode(g, *n)
	default:
		fmt.Fprintln(os.Stderr, "unknown mode")
		os.Exit(2)
	}
	writeStats()
}

// replayMode re-runs protocol lines given as arguments (`drm op args…`), printing fresh results.
func replayMode(lines []string) {
	for _, l := range lines {
		t := strings.Fields(l)
		if len(t) < 2 {
			continue
		}
		var drm uint8
		fmt.Sscan(t[0], &drm)
		args := t[2:]
		for i, a := range args {
			if a == "=" {
				args = args[:i]
				break
			}
		}
		if strings.HasPrefix(t[1], "api.") || t[1] == "fmt.ScanScript" {
			apiCall(drm, t[1], args)
		} else {
			emit(drm, t[1], args)
		}
	}
}

// fixup enforces the (loose) preconditions without which a kernel does not terminate:
// a negative sticky flag with an all-zero significand never reaches round/reduce*.
func fixup(op string, sig, args []string) {
	if !strings.HasPrefix(op, "RoundingMode.") {
		return
	}
	if fixupG != nil {
		kernelStates(fixupG, op, sig, args)
	}
	zero := false
	ti := -1
	for i, s := range sig {
		switch {
		case strings.HasPrefix(s, "U128:"), strings.HasPrefix(s, "U192:"), strings.HasPrefix(s, "U256:"):
			zero = strings.Trim(args[i], "0") == ""
		case s == "U64:sig64":
			zero = args[i] == "0"
		case s == "I8:trunc":
			ti = i
		}
	}
	if zero && ti >= 0 && strings.HasPrefix(args[ti], "-") {
		args[ti] = "0"
	}
}
