package main

import (
	"encoding/hex"
	"fmt"
	"math/big"
	"math/rand"
	"strconv"
	"strings"
)

// ---------------------------------------------------------------- basic values

var (
	cmax   = new(big.Int).Sub(new(big.Int).Mul(big.NewInt(5), new(big.Int).Lsh(big.NewInt(1), 111)), big.NewInt(1))
	two64  = new(big.Int).Lsh(big.NewInt(1), 64)
	two113 = new(big.Int).Lsh(big.NewInt(1), 113)
)

func pow10(n int) *big.Int { return new(big.Int).Exp(big.NewInt(10), big.NewInt(int64(n)), nil) }

type G struct{ r *rand.Rand }

// hints: integer literals of the functions whose generated text changed (set by ./check when a tie is broken).
// The generators steer a share of their values at them: words, coefficients whose scaled form has that high
// word, exponents, gaps, counts.
var hints []uint64

func (g *G) hint() (uint64, bool) {
	if len(hints) == 0 || !g.chance(0.3) {
		return 0, false
	}
	return hints[g.pick(len(hints))], true
}

// coefHint returns a coefficient c <= Cmax and a scale k such that c*10^k has the hinted value as its high
// word (low word at an edge or random), or is the hint itself +-1.
func (g *G) coefHint(h uint64) *big.Int {
	h += uint64(g.pick(3)) - 1
	if g.chance(0.2) {
		return new(big.Int).SetUint64(h)
	}
	t := new(big.Int).Lsh(new(big.Int).SetUint64(h), 64)
	switch g.pick(4) {
	case 0:
	case 1:
		t.Add(t, new(big.Int).SetUint64(^uint64(0)))
	case 2:
		t.Add(t, new(big.Int).SetUint64(g.r.Uint64()>>uint(g.pick(64))))
	default:
		t.Add(t, new(big.Int).SetUint64(g.r.Uint64()))
	}
	if g.chance(0.3) { // the same in a 192- or 256-bit accumulator
		t.Lsh(t, uint(64*(1+g.pick(2))))
	}
	for try := 0; try < 8; try++ {
		k := g.pick(60)
		c := new(big.Int).Quo(t, pow10(k))
		if g.chance(0.5) {
			c.Add(c, big.NewInt(1))
		}
		if c.Sign() > 0 && c.Cmp(cmax) <= 0 {
			return c
		}
	}
	c := new(big.Int).Set(t)
	for c.Cmp(cmax) > 0 {
		c.Quo(c, big.NewInt(10))
	}
	return c
}

func (g *G) pick(n int) int        { return g.r.Intn(n) }
func (g *G) chance(p float64) bool { return g.r.Float64() < p }

var interestingU64 = []uint64{0, 1, 2, 3, 4, 5, 9, 10, 11, 99, 100, 999, 1000, 9999, 10000, 10001, 100000000, 99999999,
	0x0002_7fff_ffff_ffff, 0x0002_8000_0000_0000, 0x0002_7fff_ffff_fffe, 0x0001_ffff_ffff_ffff, 0x0002_0000_0000_0000,
	0x18ff_ffff_ffff_ffff, 0x1900_0000_0000_0000, 0x09c4_0000_0000_0000, 0x00fa_0000_0000_0000, 0x0019_0000_0000_0000,
	0x027f_ffff_ffff_ffff, 0x3fff_ffff_ffff, 0x4000_0000_0000,
	10_000_000_000_000_000_000, 9_999_999_999_999_999_999, 1<<63 - 1, 1 << 63, 1<<63 + 1, 1<<64 - 1, 1<<64 - 2, 1<<32 - 1, 1 << 32, 1<<31 - 1, 1 << 31}

func (g *G) u64() uint64 {
	if h, ok := g.hint(); ok {
		return h + uint64(g.pick(5)) - 2
	}
	switch g.pick(6) {
	case 0:
		return interestingU64[g.pick(len(interestingU64))]
	case 1:
		v := interestingU64[g.pick(len(interestingU64))]
		return v + uint64(g.pick(5)) - 2
	case 2:
		return uint64(g.pick(1000))
	case 3:
		return g.r.Uint64() >> uint(g.pick(64))
	case 4:
		// power of ten ± small
		p := uint64(1)
		for i := g.pick(20); i > 0; i-- {
			p *= 10
		}
		return p + uint64(g.pick(3)) - 1
	}
	return g.r.Uint64()
}

func (g *G) i64() int64 {
	if h, ok := g.hint(); ok {
		v := int64(h) + int64(g.pick(5)) - 2
		if g.chance(0.5) {
			v = -v
		}
		if h < 20000 && g.chance(0.5) { // exponent-like: also relative to the bias
			v += []int64{6176, -6176, 6111, -6111}[g.pick(4)]
		}
		return v
	}
	switch g.pick(5) {
	case 0:
		return int64(g.pick(41) - 20)
	case 1:
		return int64(g.pick(14001) - 7000)
	case 2:
		xs := []int64{-1 << 63, 1<<63 - 1, -1<<63 + 1, 1 << 15, -1 << 15, 1 << 16, -1 << 16, 1 << 31, -1 << 31, 1<<31 - 1, 6176, -6176, 6111, -6111, 6112, -6112, 6144, 6145, 12287, 12288}
		return xs[g.pick(len(xs))]
	case 3:
		return int64(g.u64())
	}
	return g.r.Int63() - g.r.Int63()
}

func (g *G) i16exp() int16 {
	switch g.pick(6) {
	case 0:
		return int16(6176 + g.pick(81) - 40)
	case 1:
		return int16(g.pick(12288))
	case 2:
		return int16(g.pick(80) - 40)
	case 3:
		return int16(12287 - g.pick(80) + 40)
	case 4:
		return int16(g.pick(65536) - 32768)
	}
	return int16(g.pick(12288+200) - 100)
}

// coefficient of a given decimal length (1..35), ≤ cmax
func (g *G) coefLen(n int) *big.Int {
	if n <= 0 {
		return big.NewInt(0)
	}
	lo := pow10(n - 1)
	hi := pow10(n)
	if hi.Cmp(cmax) > 0 {
		hi = new(big.Int).Add(cmax, big.NewInt(1))
	}
	span := new(big.Int).Sub(hi, lo)
	var c *big.Int
	switch g.pick(7) {
	case 4:
		// sparse tail: the last k digits are zero except one (and possibly a leading 5 or 0): what a sticky
		// flag must not lose, wherever in a dropped group the digit sits
		k := 1 + g.pick(n)
		c = new(big.Int).Rand(g.r, span)
		c.Add(c, lo)
		m := pow10(k)
		c.Sub(c, new(big.Int).Mod(c, m))
		j := g.pick(k)
		c.Add(c, new(big.Int).Mul(big.NewInt(int64(1+g.pick(9))), pow10(j)))
		if g.chance(0.5) && k >= 2 && j < k-1 {
			c.Add(c, new(big.Int).Mul(big.NewInt(5), pow10(k-1)))
		}
	case 0:
		c = new(big.Int).Set(lo)
	case 1:
		c = new(big.Int).Sub(hi, big.NewInt(1))
	case 2:
		// few significant digits followed by zeros
		k := 1 + g.pick(n)
		c = new(big.Int).Rand(g.r, pow10(k))
		c.Mul(c, pow10(n-k))
		if c.Cmp(lo) < 0 {
			c.Add(c, lo)
		}
	case 3:
		// ...5000 / ...4999 / ...5001 tails
		k := 1 + g.pick(n)
		c = new(big.Int).Rand(g.r, span)
		c.Add(c, lo)
		m := pow10(k)
		c.Sub(c, new(big.Int).Mod(c, m))
		half := new(big.Int).Div(m, big.NewInt(2))
		c.Add(c, half)
		c.Add(c, big.NewInt(int64(g.pick(3)-1)))
	default:
		c = new(big.Int).Rand(g.r, span)
		c.Add(c, lo)
	}
	if c.Cmp(cmax) > 0 {
		c.Set(cmax)
	}
	if c.Sign() < 0 {
		c.SetInt64(0)
	}
	return c
}

func (g *G) coef() *big.Int {
	if h, ok := g.hint(); ok {
		return g.coefHint(h)
	}
	switch g.pick(10) {
	case 0:
		return big.NewInt(int64(g.pick(20)))
	case 1:
		return new(big.Int).Sub(cmax, big.NewInt(int64(g.pick(3))))
	case 2:
		return new(big.Int).Add(pow10(g.pick(35)), big.NewInt(int64(g.pick(3)-1)))
	case 3:
		return new(big.Int).SetUint64(g.u64())
	case 4:
		// 2^110 = (Cmax+1)/10 and its neighbours, possibly scaled down by a power of ten
		c := new(big.Int).Lsh(big.NewInt(1), 110)
		c.Add(c, big.NewInt(int64(g.pick(3)-1)))
		if g.chance(0.3) {
			c.Quo(c, pow10(g.pick(30)))
		}
		return c
	case 5:
		// word-structured coefficients: an arbitrary high word over a low word of all zeros / all ones / one, and small
		// multiples of high powers of two (2^111, 2^112, 3*2^111, 2^113 ...), where a test that looks at one word only,
		// or at the wrong bit of the high word, goes wrong
		if g.chance(0.5) {
			hi := g.r.Uint64() % 0x0002_8000_0000_0000
			if g.chance(0.3) {
				hi = uint64(1) << uint(g.pick(50))
			}
			lo := []uint64{0, 0, 1, ^uint64(0)}[g.pick(4)]
			c := new(big.Int).Lsh(new(big.Int).SetUint64(hi), 64)
			return c.Add(c, new(big.Int).SetUint64(lo))
		}
		c := new(big.Int).Lsh(big.NewInt(int64(1+g.pick(5))), uint(96+g.pick(18)))
		if c.Cmp(cmax) > 0 {
			c.Set(cmax)
		}
		return c
	}
	return g.coefLen(1 + g.pick(35))
}

func words(c *big.Int) (lo, hi uint64) {
	m := new(big.Int).Mod(c, two64)
	lo = m.Uint64()
	hi = new(big.Int).Rsh(c, 64).Uint64()
	return
}

// encodeDec packs sign, coefficient (≤ cmax) and biased exponent (0..12287) like compose().
func encodeDec(neg bool, c *big.Int, bexp int) (lo, hi uint64) {
	lo, h := words(c)
	if h > 0x0001_ffff_ffff_ffff {
		hi = 0x6000_0000_0000_0000 | uint64(bexp)<<47 | h&0x7fff_ffff_ffff
	} else {
		hi = uint64(bexp)<<49 | h
	}
	if neg {
		hi |= 1 << 63
	}
	return
}

type dec struct{ lo, hi uint64 }

func (d dec) String() string { return fmt.Sprintf("%016x%016x", d.hi, d.lo) }

func (g *G) bexp() int {
	if h, ok := g.hint(); ok && h < 20000 {
		e := int(h) + g.pick(5) - 2
		switch g.pick(4) {
		case 0:
			e = 6176 + e
		case 1:
			e = 6176 - e
		case 2:
			e = 12287 - e
		}
		if e < 0 {
			e = 0
		}
		if e > 12287 {
			e = 12287
		}
		return e
	}
	switch g.pick(8) {
	case 0:
		return 6176 + g.pick(81) - 40
	case 1:
		return g.pick(60)
	case 2:
		return 12287 - g.pick(60)
	case 3:
		return 6176
	case 4:
		return 6176 + g.pick(801) - 400
	}
	return g.pick(12288)
}

func (g *G) finite() dec {
	lo, hi := encodeDec(g.chance(0.5), g.coef(), g.bexp())
	return dec{lo, hi}
}

func (g *G) special() dec {
	switch g.pick(4) {
	case 0: // NaN with payload, sign, garbage
		hi := uint64(0x7c00_0000_0000_0000)
		if g.chance(0.5) {
			hi |= 1 << 63
		}
		if g.chance(0.5) {
			hi |= g.r.Uint64() & 0x03ff_ffff_ffff_ffff
		}
		lo := uint64(0)
		switch g.pick(3) {
		case 0:
			lo = g.r.Uint64()
		case 1:
			lo = uint64(1+g.pick(19)) | uint64(g.pick(8))<<8 | uint64(g.pick(8))<<16
		}
		return dec{lo, hi}
	case 1, 2: // Inf
		hi := uint64(0x7800_0000_0000_0000)
		if g.chance(0.5) {
			hi |= 1 << 63
		}
		lo := uint64(0)
		if g.chance(0.3) {
			hi |= g.r.Uint64() & 0x03ff_ffff_ffff_ffff
			lo = g.r.Uint64()
		}
		return dec{lo, hi}
	}
	// zero with any exponent
	lo, hi := encodeDec(g.chance(0.5), big.NewInt(0), g.bexp())
	return dec{lo, hi}
}

func (g *G) decimal() dec {
	switch g.pick(12) {
	case 0:
		return g.special()
	case 1:
		return dec{g.r.Uint64(), g.r.Uint64()}
	case 2:
		lo, hi := encodeDec(g.chance(0.5), big.NewInt(0), g.bexp())
		return dec{lo, hi}
	}
	return g.finite()
}

// decode a finite pattern
func decode(d dec) (neg bool, c *big.Int, bexp int, special bool) {
	neg = d.hi>>63 == 1
	if d.hi&0x7800_0000_0000_0000 == 0x7800_0000_0000_0000 {
		return neg, nil, 0, true
	}
	var h uint64
	if d.hi&0x6000_0000_0000_0000 == 0x6000_0000_0000_0000 {
		h = d.hi&0x7fff_ffff_ffff | 0x0002_0000_0000_0000
		bexp = int(d.hi & 0x1fff_8000_0000_0000 >> 47)
	} else {
		h = d.hi & 0x0001_ffff_ffff_ffff
		bexp = int(d.hi & 0x7ffe_0000_0000_0000 >> 49)
	}
	c = new(big.Int).Lsh(new(big.Int).SetUint64(h), 64)
	c.Or(c, new(big.Int).SetUint64(d.lo))
	return
}

// cohort returns every encoding of the same value (same sign)
func cohort(d dec) []dec {
	neg, c, e, sp := decode(d)
	if sp {
		return []dec{d}
	}
	var out []dec
	if c.Sign() == 0 {
		for _, ee := range []int{0, 1, 6176, e, 12287} {
			lo, hi := encodeDec(neg, c, ee)
			out = append(out, dec{lo, hi})
		}
		return out
	}
	cc := new(big.Int).Set(c)
	ee := e
	for ee > 0 {
		n := new(big.Int).Mul(cc, big.NewInt(10))
		if n.Cmp(cmax) > 0 {
			break
		}
		cc = n
		ee--
	}
	ten := big.NewInt(10)
	for {
		lo, hi := encodeDec(neg, cc, ee)
		out = append(out, dec{lo, hi})
		q, r := new(big.Int).QuoRem(cc, ten, new(big.Int))
		if r.Sign() != 0 || ee >= 12287 {
			break
		}
		cc = q
		ee++
	}
	return out
}

// related operand for binary operations: controlled exponent gap / cancellation / ties
// shorten keeps the leading digits of a finite value's coefficient (same exponent of the leading digit), so that the
// value has several encodings
func (g *G) shorten(x dec) dec {
	neg, c, e, sp := decode(x)
	if sp || c.Sign() == 0 {
		return x
	}
	k := 1 + g.pick(30)
	q := new(big.Int).Quo(c, pow10(k))
	if q.Sign() == 0 || e+k > 12287 {
		return x
	}
	lo, hi := encodeDec(neg, q, e+k)
	return dec{lo, hi}
}

// smallIntDec: a small integer or half-integer (exponents that reach Pow's shortcut paths), in a random encoding
func (g *G) smallIntDec() dec {
	n := int64(g.pick(81) - 40)
	c, e := big.NewInt(n), 0
	if g.chance(0.25) {
		c, e = big.NewInt(n*10+5), -1
	}
	neg := c.Sign() < 0
	c.Abs(c)
	for k := g.pick(6); k > 0 && c.BitLen() < 100; k-- {
		c.Mul(c, big.NewInt(10))
		e--
	}
	lo, hi := encodeDec(neg, c, e+6176)
	return dec{lo, hi}
}

func (g *G) related(x dec) dec {
	neg, c, e, sp := decode(x)
	if sp || c.Sign() == 0 {
		return g.decimal()
	}
	switch g.pick(8) {
	case 0: // same magnitude, maybe opposite sign (exact cancellation)
		lo, hi := encodeDec(neg != g.chance(0.7), c, e)
		return dec{lo, hi}
	case 1: // off by one ulp
		cc := new(big.Int).Add(c, big.NewInt(int64(g.pick(3)-1)))
		if cc.Sign() < 0 || cc.Cmp(cmax) > 0 {
			cc = c
		}
		lo, hi := encodeDec(neg != g.chance(0.5), cc, e)
		return dec{lo, hi}
	case 2, 3: // chosen gap
		gaps := []int{0, 1, 2, 3, 4, 7, 8, 15, 16, 17, 18, 19, 20, 26, 27, 28, 33, 34, 35, 36, 37, 38, 39, 40, 50, 100}
		gap := gaps[g.pick(len(gaps))]
		if h, ok := g.hint(); ok && h < 20000 {
			gap = int(h) + g.pick(5) - 2
		}
		if g.chance(0.5) {
			gap = -gap
		}
		ee := e + gap
		if ee < 0 {
			ee = 0
		}
		if ee > 12287 {
			ee = 12287
		}
		lo, hi := encodeDec(g.chance(0.5), g.coef(), ee)
		return dec{lo, hi}
	case 4: // half-way tail: y = 5·10^k at a lower exponent so that x+y is a tie (± a sticky unit)
		k := 1 + g.pick(38)
		ee := e - k
		if ee < 0 {
			return g.finite()
		}
		cc := new(big.Int).Mul(big.NewInt(5), pow10(k-1))
		if g.chance(0.5) && k > 1 {
			cc.Add(cc, big.NewInt(int64(g.pick(3)-1)))
		}
		if cc.Cmp(cmax) > 0 {
			return g.finite()
		}
		lo, hi := encodeDec(g.chance(0.5), cc, ee)
		return dec{lo, hi}
	case 5: // cohort member of x
		co := cohort(x)
		return co[g.pick(len(co))]
	}
	return g.decimal()
}

func (g *G) mode() uint8 {
	if g.chance(0.03) {
		return uint8(g.pick(256))
	}
	return uint8(g.pick(6))
}

// ---------------------------------------------------------------- encoders

func sU64(v uint64) string { return strconv.FormatUint(v, 10) }
func sI64(v int64) string  { return strconv.FormatInt(v, 10) }
func sBool(b bool) string {
	if b {
		return "T"
	}
	return "F"
}
func sBytes(b []byte) string { return "x" + hex.EncodeToString(b) }
func sWords(w ...uint64) string {
	var b strings.Builder
	for i := len(w) - 1; i >= 0; i-- {
		fmt.Fprintf(&b, "%016x", w[i])
	}
	return b.String()
}

func (g *G) wordsN(n int) string {
	w := make([]uint64, n)
	switch g.pick(5) {
	case 0: // small value in a wide container
		w[0] = g.u64()
	case 1: // coefficient-like
		lo, hi := words(g.coef())
		w[0] = lo
		if n > 1 {
			w[1] = hi
		}
	case 2: // all words interesting
		for i := range w {
			w[i] = g.u64()
		}
	case 3: // top words zero
		k := 1 + g.pick(n)
		for i := 0; i < k; i++ {
			w[i] = g.u64()
		}
	default:
		for i := range w {
			w[i] = g.r.Uint64()
		}
		w[n-1] >>= uint(g.pick(64))
	}
	return sWords(w...)
}
