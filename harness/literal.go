package main

import (
	"fmt"
	"strings"
)

// literal produces mostly well-formed decimal literals plus a stream of mutated / malformed ones.
func (g *G) literal() string {
	switch g.pick(20) {
	case 0:
		xs := []string{"NaN", "nan", "Inf", "inf", "+Inf", "-inf", "Infinity", "-INFINITY", "+infinity", "iNf", "infinit", "nan0", "", "+", "-", ".", "e", "1e", "1e+", "_1", "1_", "1__0", "1_.0", "1._0", ".e1", "0x10", "1e1e1", "1.2.3", "--1", "+-1", " 1", "1 ",
			// letters that case mapping folds onto ASCII ones (U+0130 lower-cases to 'i', U+212A to 'k', U+017F upper-cases to 'S')
			"\u0130nf", "-\u0130nf", "\u0130nfinity", "inf\u0130nity", "\u0130NF", "\u0131nf", "na\u0274", "\u212anf",
			// integers around the 64-bit limits, written plainly
			"18446744073709551615", "18446744073709551616", "18446744073709551617", "99999999999999999999", "-99999999999999999999",
			"9223372036854775807", "9223372036854775808", "-9223372036854775809", "100000000000000000000", "27670116110564327424"}
		return xs[g.pick(len(xs))]
	case 4:
		// the digits of a coefficient from the structured pool (Cmax and neighbours, 2^110, 2^113, 10^k +- 1, word-structured
		// values ...) written as a numeral: the places where compose / reduce128 switch form are reached through text too
		s := g.coef().String()
		if g.chance(0.3) && len(s) > 1 {
			p := 1 + g.pick(len(s)-1)
			s = s[:p] + "." + s[p:]
		}
		if g.chance(0.5) {
			s += fmt.Sprintf("e%d", []int{0, 1, -1, 6111, -6176, 6077, -6142, 300, -300}[g.pick(9)]+g.pick(5)-2)
		}
		return []string{"", "", "-", "+"}[g.pick(4)] + s
	case 3:
		// malformed late: a separator next to the point or the exponent marker (or doubled) after the first 19 digits,
		// where the parser has switched to its wide accumulator
		ip := g.digitsStr(19+g.pick(22), false)
		fp := g.digitsStr(1+g.pick(20), false)
		forms := []string{ip + "_." + fp, ip + "._" + fp, ip + "." + fp + "_", ip + "_e5", ip + "." + fp + "_e5", ip + "e_5", ip + "e5_",
			ip + "__" + fp, ip + "." + fp + "e1_0", ip + "e1_0", "_" + ip, ip + "_" + fp + "." + fp, ip + "." + fp + "_" + fp}
		return forms[g.pick(len(forms))]
	case 1:
		b := make([]byte, g.pick(6))
		for i := range b {
			b[i] = "0123456789.eE+-_ nNaAiIfFtTyY\x00\xff"[g.pick(31)]
		}
		return string(b)
	case 2:
		s := g.wellFormed()
		if len(s) == 0 {
			return s
		}
		b := []byte(s)
		switch g.pick(3) {
		case 0:
			b[g.pick(len(b))] = "0123456789.eE+-_x"[g.pick(17)]
		case 1:
			i := g.pick(len(b))
			b = append(b[:i], b[i+1:]...)
		case 2:
			i := g.pick(len(b) + 1)
			b = append(b[:i], append([]byte{"0123456789.eE+-_"[g.pick(16)]}, b[i:]...)...)
		}
		return string(b)
	}
	return g.wellFormed()
}

func (g *G) digitsStr(n int, sep bool) string {
	var b strings.Builder
	for i := 0; i < n; i++ {
		if sep && i > 0 && g.chance(0.1) {
			b.WriteByte('_')
		}
		switch g.pick(6) {
		case 0:
			b.WriteByte('0')
		case 1:
			b.WriteByte('9')
		default:
			b.WriteByte(byte('0' + g.pick(10)))
		}
	}
	return b.String()
}

func (g *G) wellFormed() string {
	var b strings.Builder
	switch g.pick(4) {
	case 0:
		b.WriteByte('-')
	case 1:
		b.WriteByte('+')
	}
	var ni, nf int
	switch g.pick(8) {
	case 0:
		ni, nf = 1+g.pick(3), 0
	case 1:
		ni, nf = g.pick(3), 1+g.pick(45)
	case 2:
		ni, nf = 30+g.pick(15), g.pick(10)
	case 3:
		ni, nf = 1+g.pick(80), g.pick(80)
	default:
		ni, nf = 1+g.pick(40), g.pick(40)
	}
	if ni+nf == 0 {
		ni = 1
	}
	sep := g.chance(0.15)
	lead := ""
	if g.chance(0.2) {
		lead = strings.Repeat("0", g.pick(50))
	}
	ip := lead + g.digitsStr(ni, sep)
	if sep && lead != "" && ni > 0 && g.chance(0.5) {
		ip = lead + "_" + g.digitsStr(ni, sep)
	}
	// tie-shaped tails: 34/35 significant digits followed by 5, 50…0, 49…9, 50…01
	if g.chance(0.25) {
		k := 33 + g.pick(4)
		ip = g.digitsStr(1, false)
		if ip == "0" {
			ip = "1"
		}
		ip += g.digitsStr(k-1, false)
		tails := []string{"5", "50", "500000", "49999999", "5000001", "4", "6", "50000000000000000000000000000000000000001", "49999999999999999999999999999999999999999"}
		ip += tails[g.pick(len(tails))]
		if g.chance(0.5) && len(ip) > 3 {
			p := 1 + g.pick(len(ip)-1)
			b.WriteString(ip[:p] + "." + ip[p:])
			ip = ""
		}
	}
	b.WriteString(ip)
	if ip != "" {
		if nf > 0 {
			b.WriteByte('.')
			b.WriteString(g.digitsStr(nf, sep))
		} else if g.chance(0.05) {
			b.WriteByte('.')
		}
	}
	if g.chance(0.55) {
		b.WriteByte("eE"[g.pick(2)])
		switch g.pick(3) {
		case 0:
			b.WriteByte('-')
		case 1:
			b.WriteByte('+')
		}
		var e int
		switch g.pick(8) {
		case 0:
			e = g.pick(10)
		case 1:
			e = 6100 + g.pick(120)
		case 2:
			e = 6170 + g.pick(60)
		case 3:
			e = g.pick(100000)
		case 4:
			e = 600 + g.pick(30)
		default:
			e = g.pick(7000)
		}
		s := fmt.Sprintf("%d", e)
		if g.chance(0.1) {
			s = strings.Repeat("0", g.pick(8)) + s
		}
		if g.chance(0.02) {
			s = g.digitsStr(5+g.pick(30), false)
		}
		b.WriteString(s)
	}
	return b.String()
}

// longLiteral builds very long digit strings (beyond the int16 counters of the parser).
func (g *G) longLiteral() string {
	n := []int{1000, 5000, 32760, 32767, 32768, 32769, 33000, 40000, 65535, 65536, 65537, 70000}[g.pick(12)]
	n += g.pick(5) - 2
	var b strings.Builder
	if g.chance(0.3) {
		b.WriteByte('-')
	}
	switch g.pick(5) {
	case 0: // 1 followed by zeros
		b.WriteString("1" + strings.Repeat("0", n))
	case 1: // 0.000…01
		b.WriteString("0." + strings.Repeat("0", n) + "1")
	case 2: // small with compensating exponent
		b.WriteString("0." + strings.Repeat("0", n) + fmt.Sprintf("%de%d", 1+g.pick(99), n+g.pick(40)-20))
	case 3: // big with compensating exponent
		b.WriteString(fmt.Sprintf("%d", 1+g.pick(99)) + strings.Repeat("0", n) + fmt.Sprintf("e-%d", n+g.pick(40)-20))
	case 4: // random digits, point somewhere
		s := g.digitsStr(n, false)
		p := g.pick(n)
		b.WriteString("1" + s[:p] + "." + s[p:])
		if g.chance(0.5) {
			fmt.Fprintf(&b, "e%d", g.pick(2*n)-n)
		}
	}
	return b.String()
}
