package main

import (
	"encoding/json"
	"errors"
	"fmt"
	"math"
	"math/big"
	"strconv"
	"strings"

	d128 "github.com/woodsbury/decimal128"
)

func toDec(s string) d128.Decimal {
	var hi, lo uint64
	fmt.Sscanf(s[:16], "%x", &hi)
	fmt.Sscanf(s[16:], "%x", &lo)
	return d128.VerifDecimal(lo, hi)
}

func fromDec(d d128.Decimal) string {
	lo, hi := d128.VerifBits(d)
	return fmt.Sprintf("%016x%016x", hi, lo)
}

func vBytes(s string) []byte {
	b := make([]byte, 0, len(s)/2)
	s = strings.TrimPrefix(s, "x")
	for i := 0; i+1 < len(s); i += 2 {
		v, _ := strconv.ParseUint(s[i:i+2], 16, 8)
		b = append(b, byte(v))
	}
	return b
}

func errClass(err error) string {
	switch {
	case err == nil:
		return "nil"
	case errors.Is(err, strconv.ErrSyntax):
		return "syntax"
	case errors.Is(err, strconv.ErrRange):
		return "range"
	}
	var uv *json.UnsupportedValueError
	if errors.As(err, &uv) {
		return "unsupportedValue"
	}
	var ut *json.UnmarshalTypeError
	if errors.As(err, &ut) {
		return "unmarshalType"
	}
	s := err.Error()
	switch {
	case strings.Contains(s, "out of range"):
		return "composeRange"
	case strings.Contains(s, "unknown form"):
		return "composeForm"
	}
	return "other"
}

func panicTok(r any) string {
	if _, ok := r.(string); ok {
		return "PANIC:explicit"
	}
	return "PANIC:runtime:" + strings.ReplaceAll(fmt.Sprint(r), " ", "_")
}

type jsonStruct struct {
	A d128.Decimal            `json:"a"`
	B []d128.Decimal          `json:"b"`
	C map[string]d128.Decimal `json:"c"`
	D *d128.Decimal           `json:"d"`
}

// apiCall runs one public-API operation and prints its protocol line.
func apiCall(drm uint8, op string, a []string) (res []string) {
	d128.DefaultRoundingMode = d128.RoundingMode(drm)
	func() {
		defer func() {
			if r := recover(); r != nil {
				res = []string{panicTok(r)}
			}
		}()
		wdEnter(drm, op, a)
		defer wdLeave()
		res = apiRun(op, a)
	}()
	d128.DefaultRoundingMode = d128.ToNearestEven
	record(drm, op, a, res)
	return res
}

func ratTok(r *big.Rat) string { return r.Num().String() + "/" + r.Denom().String() }

func apiRun(op string, a []string) []string {
	switch op {
	case "api.Parse":
		d, err := d128.Parse(string(vBytes(a[0])))
		return []string{fromDec(d), errClass(err)}
	case "api.MustParse":
		return []string{fromDec(d128.MustParse(string(vBytes(a[0]))))}
	case "api.UnmarshalText":
		d := toDec(a[0])
		err := d.UnmarshalText(vBytes(a[1]))
		return []string{fromDec(d), errClass(err)}
	case "api.Sscan":
		d := toDec(a[0])
		n, err := fmt.Sscan(string(vBytes(a[1])), &d)
		return []string{fromDec(d), sI64(int64(n)), errClass(err)}
	case "api.Sscanf":
		d := toDec(a[0])
		n, err := fmt.Sscanf(string(vBytes(a[2])), "%"+string(vBytes(a[1])), &d)
		return []string{fromDec(d), sI64(int64(n)), errClass(err)}
	case "api.ParseBinary":
		d, err := d128.Parse(string(vBytes(a[0])))
		if err != nil {
			return []string{"x", errClass(err)}
		}
		b, err := d.MarshalBinary()
		return []string{sBytes(b), errClass(err)}
	case "api.BinRoundTrip":
		b, err := toDec(a[0]).MarshalBinary()
		if err != nil {
			return []string{"marshal-error", errClass(err)}
		}
		d := toDec(a[1])
		err = d.UnmarshalBinary(b)
		return []string{fromDec(d), errClass(err)}
	case "api.String":
		return []string{sBytes([]byte(toDec(a[0]).String()))}
	case "api.MarshalText":
		b, err := toDec(a[0]).MarshalText()
		return []string{sBytes(b), errClass(err)}
	case "api.Sprintf":
		return []string{sBytes([]byte(fmt.Sprintf("%"+string(vBytes(a[0])), toDec(a[1]))))}
	case "api.Format":
		p, _ := strconv.Atoi(a[2])
		return []string{sBytes([]byte(d128.Format(toDec(a[0]), vBytes(a[1])[0], p)))}
	case "api.Append":
		p, _ := strconv.Atoi(a[3])
		return []string{sBytes(d128.Append(vBytes(a[0]), toDec(a[1]), vBytes(a[2])[0], p))}
	case "api.DecimalAppend":
		return []string{sBytes(toDec(a[1]).Append(vBytes(a[0]), string(vBytes(a[2]))))}
	case "api.Float64fmt":
		bits, _ := strconv.ParseUint(a[1], 10, 64)
		return []string{sBytes([]byte(fmt.Sprintf("%"+string(vBytes(a[0])), math.Float64frombits(bits))))}
	case "api.MarshalJSON":
		b, err := toDec(a[0]).MarshalJSON()
		return []string{sBytes(b), errClass(err)}
	case "api.UnmarshalJSON":
		d := toDec(a[0])
		err := d.UnmarshalJSON(vBytes(a[1]))
		return []string{fromDec(d), errClass(err)}
	case "api.JSONVia":
		d := toDec(a[0])
		in := jsonStruct{A: d, B: []d128.Decimal{d, d}, C: map[string]d128.Decimal{"k": d}, D: &d}
		b, err := json.Marshal(in)
		if err != nil {
			return []string{"marshal:" + errClass(err)}
		}
		var out jsonStruct
		if err := json.Unmarshal(b, &out); err != nil {
			return []string{"unmarshal:" + errClass(err)}
		}
		if !json.Valid(b) {
			return []string{"invalid-json"}
		}
		return []string{fromDec(out.A), fromDec(out.B[1]), fromDec(out.C["k"]), fromDec(*out.D)}
	case "api.JSONDoc":
		// arbitrary document into a Decimal through encoding/json
		d := toDec(a[0])
		err := json.Unmarshal(vBytes(a[1]), &d)
		cls := errClass(err)
		if err != nil && cls == "other" {
			cls = "jsonSyntax"
		}
		return []string{fromDec(d), cls}
	case "api.Compose":
		d := toDec(a[0])
		form, _ := strconv.Atoi(a[1])
		e, _ := strconv.ParseInt(a[4], 10, 32)
		err := d.Compose(byte(form), a[2] == "T", vBytes(a[3]), int32(e))
		return []string{fromDec(d), errClass(err)}
	case "api.Decompose":
		n, _ := strconv.Atoi(a[1])
		var buf []byte
		if n >= 0 {
			buf = make([]byte, n, n)
			for i := range buf {
				buf[i] = 0xAA
			}
		}
		form, neg, sig, e := toDec(a[0]).Decompose(buf)
		return []string{sU64(uint64(form)), sBool(neg), sBytes(sig), sI64(int64(e))}
	case "api.FromFloat64":
		bits, _ := strconv.ParseUint(a[0], 10, 64)
		return []string{fromDec(d128.FromFloat64(math.Float64frombits(bits)))}
	case "api.FromFloat32":
		bits, _ := strconv.ParseUint(a[0], 10, 32)
		return []string{fromDec(d128.FromFloat32(math.Float32frombits(uint32(bits))))}
	case "api.Float64":
		return []string{sU64(math.Float64bits(toDec(a[0]).Float64()))}
	case "api.Float32":
		return []string{sU64(uint64(math.Float32bits(toDec(a[0]).Float32())))}
	case "api.Float":
		prec, _ := strconv.Atoi(a[1])
		mode, _ := strconv.Atoi(a[2])
		var f *big.Float
		if prec >= 0 {
			f = new(big.Float).SetPrec(uint(prec)).SetMode(big.RoundingMode(mode))
		}
		r := toDec(a[0]).Float(f)
		if r.IsInf() {
			if r.Signbit() {
				return []string{"-Inf", sU64(uint64(r.Prec()))}
			}
			return []string{"+Inf", sU64(uint64(r.Prec()))}
		}
		q, _ := r.Rat(nil)
		sgn := "+"
		if r.Signbit() {
			sgn = "-"
		}
		return []string{sgn + ratTok(new(big.Rat).Abs(q)), sU64(uint64(r.Prec()))}
	case "api.FromFloat":
		// value = mant * 2^exp2 with the given precision; "inf"/"-inf" for infinities
		if a[0] == "+Inf" || a[0] == "-Inf" {
			return []string{fromDec(d128.FromFloat(new(big.Float).SetInf(a[0] == "-Inf")))}
		}
		m, _ := new(big.Int).SetString(a[0], 10)
		e2, _ := strconv.Atoi(a[1])
		neg := a[2] == "T"
		f := new(big.Float).SetPrec(uint(m.BitLen() + 1)).SetInt(m)
		f.SetMantExp(f, e2)
		if neg {
			f.Neg(f)
		}
		return []string{fromDec(d128.FromFloat(f))}
	case "api.FromInt":
		i, _ := new(big.Int).SetString(a[0], 10)
		return []string{fromDec(d128.FromInt(i))}
	case "api.Int":
		var i *big.Int
		if a[1] != "nil" {
			i, _ = new(big.Int).SetString(a[1], 10)
		}
		return []string{toDec(a[0]).Int(i).String()}
	case "api.Rat":
		var r *big.Rat
		if a[1] != "nil" {
			r = big.NewRat(355, 113)
		}
		return []string{ratTok(toDec(a[0]).Rat(r))}
	case "api.FromRat":
		n, _ := new(big.Int).SetString(a[0], 10)
		d, _ := new(big.Int).SetString(a[1], 10)
		return []string{fromDec(d128.FromRat(new(big.Rat).SetFrac(n, d)))}
	case "api.RatRoundTrip":
		return []string{fromDec(d128.FromRat(toDec(a[0]).Rat(nil)))}
	case "api.CmpFlags":
		// the five CmpResult methods applied to what Cmp and CmpAbs return
		x, y := toDec(a[0]), toDec(a[1])
		var r []string
		for _, c := range []d128.CmpResult{x.Cmp(y), x.CmpAbs(y)} {
			r = append(r, sBool(c.Less()), sBool(c.LessOrEqual()), sBool(c.Equal()), sBool(c.GreaterOrEqual()), sBool(c.Greater()))
		}
		return r
	case "api.CohortSame":
		// a[0] operation, a[1] position of the varied operand, a[2] a[3] two encodings of one value, a[4:] the other
		// arguments: the two results must agree in every component (Decimals by class, sign and numeric value)
		pos, _ := strconv.Atoi(a[1])
		mk := func(m string) []string {
			r := append([]string{}, a[4:4+pos]...)
			r = append(r, m)
			return append(r, a[4+pos:]...)
		}
		r1, r2 := d128.VerifCall(a[0], mk(a[2])), d128.VerifCall(a[0], mk(a[3]))
		if sameResults(r1, r2) {
			return []string{"same"}
		}
		return []string{"differ:" + strings.Join(r1, ",") + "|" + strings.Join(r2, ",")}
	case "api.PayloadString":
		p, _ := strconv.ParseUint(a[0], 10, 64)
		return []string{sBytes([]byte(d128.Payload(p).String()))}
	case "api.Payload":
		return []string{sU64(uint64(toDec(a[0]).Payload()))}
	}
	if r, ok := apiFmt(op, a); ok {
		return r
	}
	return []string{"NOAPI"}
}

func isDecTok(s string) bool {
	if len(s) != 32 {
		return false
	}
	for _, c := range s {
		if !(c >= '0' && c <= '9' || c >= 'a' && c <= 'f') {
			return false
		}
	}
	return true
}

// sameValueTok: two Decimal tokens denote the same class, sign and numeric value (NaNs: both NaN)
func sameValueTok(s1, s2 string) bool {
	var x, y dec
	fmt.Sscanf(s1[:16], "%x", &x.hi)
	fmt.Sscanf(s1[16:], "%x", &x.lo)
	fmt.Sscanf(s2[:16], "%x", &y.hi)
	fmt.Sscanf(s2[16:], "%x", &y.lo)
	n1, c1, e1, sp1 := decode(x)
	n2, c2, e2, sp2 := decode(y)
	if sp1 != sp2 {
		return false
	}
	if sp1 {
		nan1, nan2 := x.hi&0x7c00_0000_0000_0000 == 0x7c00_0000_0000_0000, y.hi&0x7c00_0000_0000_0000 == 0x7c00_0000_0000_0000
		if nan1 || nan2 {
			return nan1 && nan2
		}
		return n1 == n2
	}
	if n1 != n2 {
		return false
	}
	if c1.Sign() == 0 || c2.Sign() == 0 {
		return c1.Sign() == c2.Sign()
	}
	a, b := new(big.Int).Set(c1), new(big.Int).Set(c2)
	ten := big.NewInt(10)
	if e1 > e2 {
		a.Mul(a, new(big.Int).Exp(ten, big.NewInt(int64(e1-e2)), nil))
	} else {
		b.Mul(b, new(big.Int).Exp(ten, big.NewInt(int64(e2-e1)), nil))
	}
	return a.Cmp(b) == 0
}

func sameResults(r1, r2 []string) bool {
	if len(r1) != len(r2) {
		return false
	}
	for i := range r1 {
		if isDecTok(r1[i]) && isDecTok(r2[i]) {
			if !sameValueTok(r1[i], r2[i]) {
				return false
			}
		} else if r1[i] != r2[i] {
			return false
		}
	}
	return true
}
