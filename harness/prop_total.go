package main

import (
	"bytes"
	"fmt"
	"os"
	"sort"
	"strings"
	"sync"
	"unicode"

	d128 "github.com/woodsbury/decimal128"
)

func init() {
	props["C20"] = propC20
}

func exportedOp(op string) bool {
	p := strings.Split(op, ".")
	return unicode.IsUpper(rune(p[len(p)-1][0]))
}

func (g *G) extremeInt() int64 {
	xs := []int64{-1 << 63, 1<<63 - 1, -1<<63 + 1, 1<<63 - 2, 100000, -100000, 99999, 1 << 31, -1 << 31, 1<<31 - 1, 1 << 32, 1 << 16, -1 << 15, 0, 1, -1, 6176, -6176, 6111, 12287, 12288, 32767, -32768, 32768, 65535, 65536, 7000, -7000}
	if g.chance(0.7) {
		return xs[g.pick(len(xs))]
	}
	return g.i64()
}

func propC20(g *G, n int) {
	ops := append([]string{}, d128.VerifOps...)
	sort.Strings(ops)
	per := n / 40
	if per < 1 {
		per = 1
	}
	for _, op := range ops {
		if !exportedOp(op) {
			continue
		}
		sig := d128.VerifSigs[op]
		for i := 0; i < per; i++ {
			args := make([]string, len(sig))
			for k, s := range sig {
				switch {
				case strings.HasPrefix(s, "I64:prec"), strings.HasPrefix(s, "I64:width"):
					// the property bounds precisions and widths by 100000 (beyond that the formatter may exhaust memory)
					args[k] = sI64([]int64{-1, 0, 1, 34, 35, 99999, 100000, int64(g.pick(100001)), -int64(g.pick(100001))}[g.pick(9)])
				case strings.HasPrefix(s, "I64:"):
					args[k] = sI64(g.extremeInt())
				case strings.HasPrefix(s, "S_Decimal:"):
					switch g.pick(6) {
					case 0, 1:
						args[k] = dec{g.r.Uint64(), g.r.Uint64()}.String()
					case 2, 3:
						args[k] = g.decimal().String()
					case 4: // moderate magnitudes: where the elementary functions and the conversions do real work
						args[k] = []dec{g.expArg(), g.logArg(), g.log1pArg()}[g.pick(3)].String()
					default:
						args[k] = g.smallIntDec().String()
					}
				case strings.HasPrefix(s, "Bytes:"):
					switch g.pick(4) {
					case 0:
						b := make([]byte, g.pick(200))
						g.r.Read(b)
						args[k] = sBytes(b)
					case 1:
						args[k] = sBytes([]byte(g.longLiteral()))
					default:
						args[k] = g.arg(s, op)
					}
				default:
					args[k] = g.arg(s, op)
				}
			}
			drm := uint8(g.pick(256))
			r1 := emit(drm, op, args)
			r2 := d128.VerifCall(op, args)
			if d128.DefaultRoundingMode != d128.ToNearestEven { // emit restores the default; VerifCall must not touch it
				record(0, "NONDET", []string{op}, []string{"DefaultRoundingMode-modified"})
				d128.DefaultRoundingMode = d128.ToNearestEven
			}
			if drm == 0 && strings.Join(r1, " ") != strings.Join(r2, " ") {
				record(0, "NONDET", append([]string{op}, args...), r2)
			}
		}
	}
	// results are a function of the arguments and DefaultRoundingMode only, not of what an earlier call left behind: a
	// numeral that needs rounding is parsed under one mode, then under another, and the second result is compared with
	// that of the same numeral spelled with a leading zero (same value, same rounding, but a different string)
	for i := 0; i < n/8+8; i++ {
		lit := g.digitsStr(36+g.pick(6), false)
		if lit[0] == '0' {
			lit = "7" + lit[1:]
		}
		if g.chance(0.5) {
			p := 1 + g.pick(len(lit)-1)
			lit = lit[:p] + "." + lit[p:]
		}
		m1 := uint8(g.pick(6))
		m2 := uint8((int(m1) + 1 + g.pick(5)) % 6)
		for _, op := range []string{"api.Parse", "api.MustParse"} {
			apiCall(m1, op, []string{sBytes([]byte(lit))})
			r2 := apiCall(m2, op, []string{sBytes([]byte(lit))})
			r3 := apiCall(m2, op, []string{sBytes([]byte("0" + lit))})
			if strings.Join(r2, " ") != strings.Join(r3, " ") {
				record(m2, "NONDET", []string{op + "-depends-on-an-earlier-call", sBytes([]byte(lit))}, r2)
			}
		}
	}
	// byte slices handed out belong to the caller: overwriting them must not change what later calls return
	for i := 0; i < n/8+8; i++ {
		x := g.decimal()
		if i < 8 {
			x = []dec{{0, 0x7c00_0000_0000_0000}, {0, 0xfc00_0000_0000_0000}, {0, 0x7800_0000_0000_0000}, {0, 0xf800_0000_0000_0000}, {0, 0}, {0, 1 << 63}, {1, 0x3040_0000_0000_0000}, {5, 0xb03e_0000_0000_0000}}[i]
		}
		scribbleCheck(g, x)
	}
	// public API with extreme precisions, widths and lengths; inputs must come back unmodified
	for i := 0; i < n/4+1; i++ {
		x := g.decimal().String()
		big := []int{100000, 99999, 65536, 32768, 40, 0}[g.pick(6)]
		v := "efgEGFvx"[g.pick(8)]
		buf := []byte("prefix")[:g.pick(7)]
		keep := append([]byte{}, buf...)
		res := apiCall(0, "api.Append", []string{sBytes(buf), x, sBytes([]byte{byte(v)}), fmt.Sprint(big)})
		if !bytes.Equal(buf, keep) || (len(res) == 1 && !strings.HasPrefix(res[0], sBytes(keep))) {
			record(0, "NONDET", []string{"api.Append-modified-input"}, res)
		}
		apiCall(0, "api.Format", []string{x, sBytes([]byte{byte(v)}), fmt.Sprint(-big)})
		spec := fmt.Sprintf("%s%d.%d%c", []string{"", "-", "0", "+", "#", " ", "-0+# "}[g.pick(7)], big, []int{100000, 0, 3, 99999}[g.pick(4)], v)
		apiCall(0, "api.Sprintf", []string{sBytes([]byte(spec)), x})
		apiCall(0, "api.DecimalAppend", []string{sBytes(nil), x, sBytes([]byte(spec))})
		apiCall(0, "api.DecimalAppend", []string{sBytes(nil), x, sBytes([]byte(g.formatSpec()))})
		lit := []byte(g.longLiteral())
		keepLit := append([]byte{}, lit...)
		apiCall(uint8(g.pick(6)), "api.UnmarshalText", []string{g.decimal().String(), sBytes(lit)})
		apiCall(0, "api.UnmarshalJSON", []string{g.decimal().String(), sBytes(lit)})
		if !bytes.Equal(lit, keepLit) {
			record(0, "NONDET", []string{"Unmarshal-modified-input"}, nil)
		}
		apiCall(0, "api.Parse", []string{sBytes(lit)})
		apiCall(0, "api.Sscan", []string{g.decimal().String(), sBytes(lit[:min(len(lit), 3000)])})
		raw := make([]byte, g.pick(300))
		g.r.Read(raw)
		apiCall(0, "api.Parse", []string{sBytes(raw)})
		apiCall(0, "api.UnmarshalJSON", []string{g.decimal().String(), sBytes(raw)})
		apiCall(0, "api.Compose", []string{g.decimal().String(), fmt.Sprint(g.pick(256)), sBool(g.chance(0.5)), sBytes(raw), fmt.Sprint(int32(g.extremeInt()))})
		apiCall(0, "api.Float", []string{x, fmt.Sprint([]int{0, 1, 100000, 128}[g.pick(4)]), fmt.Sprint(g.pick(6))})
		apiCall(0, "api.Int", []string{x, "nil"})
		apiCall(0, "api.Rat", []string{x, "nil"})
		apiCall(0, "api.String", []string{x})
		apiCall(0, "api.MarshalJSON", []string{x})
		apiCall(0, "api.Float64", []string{x})
		apiCall(0, "api.Decompose", []string{x, fmt.Sprint([]int{-1, 0, 16, 1000}[g.pick(4)])})
	}
}

// raceMode: many goroutines run a mixed operation stream on shared operands; results must equal
// the sequential ones. Build with -race to let the detector watch.
func raceMode(g *G, n int) {
	type job struct {
		op   string
		args []string
	}
	var jobs []job
	ops := []string{"Decimal.AddWithMode", "Decimal.SubWithMode", "Decimal.MulWithMode", "Decimal.QuoWithMode", "Decimal.QuoRemWithMode", "Decimal.PowWithMode", "Decimal.Cmp", "Decimal.Round", "Decimal.Canonical", "Exp", "Log", "Sqrt", "Cbrt", "Decimal.Add", "Decimal.Mul", "New", "Ldexp"}
	shared := make([]string, 64)
	for i := range shared {
		shared[i] = g.finite().String()
	}
	for i := 0; i < n; i++ {
		op := ops[g.pick(len(ops))]
		sig := d128.VerifSigs[op]
		args := make([]string, len(sig))
		for k, s := range sig {
			if strings.HasPrefix(s, "S_Decimal:") {
				args[k] = shared[g.pick(len(shared))]
			} else {
				args[k] = g.arg(s, op)
			}
		}
		jobs = append(jobs, job{op, args})
	}
	sharedText := []byte("123456789012345678901234567890.12345678901234567890e-17")
	want := make([]string, len(jobs))
	for i, j := range jobs {
		want[i] = strings.Join(d128.VerifCall(j.op, j.args), " ")
	}
	wantParse, _ := d128.Parse(string(sharedText))
	var wg sync.WaitGroup
	bad := 0
	var mu sync.Mutex
	for w := 0; w < 32; w++ {
		wg.Add(1)
		go func(w int) {
			defer wg.Done()
			for i := w % 7; i < len(jobs); i += 1 + w%3 {
				got := strings.Join(d128.VerifCall(jobs[i].op, jobs[i].args), " ")
				var d d128.Decimal
				d.UnmarshalText(sharedText)
				s := d.String()
				_ = fmt.Sprintf("%.10e %v", d, d)
				if got != want[i] || !d.Equal(wantParse) || s == "" {
					mu.Lock()
					bad++
					mu.Unlock()
				}
			}
		}(w)
	}
	wg.Wait()
	fmt.Printf("RACE jobs=%d goroutines=32 mismatches=%d\n", len(jobs), bad)
	if bad != 0 {
		os.Exit(1)
	}
}

// scribbleCheck calls every function that returns a byte slice (or a string built over one), overwrites the
// returned bytes in place, and calls again: a different second answer means the first result aliased shared state.
func scribbleCheck(g *G, x dec) {
	d := toDec(x.String())
	verb := "efgEG"[g.pick(5)]
	prec := []int{-1, 0, 3}[g.pick(3)]
	spec := []string{"v", "g", "e", "10.3f", "-8g"}[g.pick(5)]
	type fn struct {
		name string
		call func() []byte
	}
	fns := []fn{
		{"MarshalText", func() []byte { b, _ := d.MarshalText(); return b }},
		{"MarshalJSON", func() []byte { b, _ := d.MarshalJSON(); return b }},
		{"MarshalBinary", func() []byte { b, _ := d.MarshalBinary(); return b }},
		{"Append", func() []byte { return d128.Append(nil, d, verb, prec) }},
		{"Decimal.Append", func() []byte { return d.Append(nil, spec) }},
		{"Decompose", func() []byte { _, _, b, _ := d.Decompose(nil); return b }},
	}
	for _, f := range fns {
		s0 := d.String()
		f0 := d128.Format(d, verb, prec)
		b1 := f.call()
		want := string(b1)
		for k := range b1 {
			b1[k] = '?'
		}
		b2 := f.call()
		st.Evaluations++
		st.PerOp["scribble."+f.name]++
		if string(b2) != want {
			record(0, "NONDET", []string{"scribble." + f.name, x.String()}, []string{sBytes([]byte(want)), sBytes(b2)})
		}
		if s1 := d.String(); s1 != s0 || s0 == "" {
			record(0, "NONDET", []string{"scribble." + f.name + "-changes-String", x.String()}, []string{sBytes([]byte(s0)), sBytes([]byte(s1))})
		}
		if f1 := d128.Format(d, verb, prec); f1 != f0 {
			record(0, "NONDET", []string{"scribble." + f.name + "-changes-Format", x.String()}, []string{sBytes([]byte(f0)), sBytes([]byte(f1))})
		}
	}
}
