package main

import (
	"fmt"
	"math"
	"math/big"
	"strings"
)

func init() {
	props["C05"] = propC05
	props["C06"] = propC06
	props["C07"] = propC07
	props["C13"] = propC13
}

func propC05(g *G, n int) {
	for i := 0; i < n; i++ {
		s := g.literal()
		drm := g.drm()
		b := sBytes([]byte(s))
		apiCall(drm, "api.Parse", []string{b})
		emit(drm, "parseNumber", []string{b, sBool(g.chance(0.5)), sBool(g.chance(0.8))})
		emit(drm, "parse", []string{b, sU64(6)})
		if i%3 == 0 {
			apiCall(drm, "api.MustParse", []string{b})
			apiCall(drm, "api.UnmarshalText", []string{g.decimal().String(), b})
		}
		if i%5 == 0 {
			w := g.wellFormed()
			w = strings.ReplaceAll(w, "_", "")
			if g.chance(0.05) {
				w = []string{"Inf", "-inf", "+INF", "NaN", "nan"}[g.pick(5)]
			}
			apiCall(drm, "api.Sscan", []string{g.decimal().String(), sBytes([]byte(w))})
		}
		if i%200 == 0 {
			l := g.longLiteral()
			apiCall(drm, "api.Parse", []string{sBytes([]byte(l))})
		}
	}
}

// decimals whose digit structure exercises the text emitters
func (g *G) textDecimal() dec {
	switch g.pick(6) {
	case 0:
		return g.decimal()
	case 1: // coefficient length × trailing zero run
		nd := 1 + g.pick(35)
		tz := g.pick(nd)
		c := g.coefLen(nd - tz)
		c.Mul(c, pow10(tz))
		if c.Cmp(cmax) > 0 {
			c.Set(cmax)
		}
		lo, hi := encodeDec(g.chance(0.5), c, 6176+g.pick(61)-45)
		return dec{lo, hi}
	case 2: // adjusted exponent near the layout switch-over points -7..-3, 4..7, 19..22
		nd := 1 + g.pick(35)
		c := g.coefLen(nd)
		tgt := []int{-8, -7, -6, -5, -4, -3, -1, 0, 1, 4, 5, 6, 7, 19, 20, 21, 22}[g.pick(17)]
		if g.chance(0.35) { // where the printed exponent gains a digit, and the ends of the range
			tgt = []int{9, 10, 11, 99, 100, 101, 999, 1000, 1001, 6110, 6111, 6144, 6145, 6176, 6142, 6143}[g.pick(16)]
			if g.chance(0.5) {
				tgt = -tgt
			}
		}
		e := tgt - (len(c.String()) - 1)
		lo, hi := encodeDec(g.chance(0.5), c, clampExp(6176+e))
		return dec{lo, hi}
	case 3: // nines and ties
		nd := 1 + g.pick(34)
		c := new(big.Int).Sub(pow10(nd), bigInt(1))
		if g.chance(0.5) {
			c.Mul(c, bigInt(10))
			c.Add(c, bigInt(5))
		}
		if c.Cmp(cmax) > 0 {
			c.Set(cmax)
		}
		lo, hi := encodeDec(g.chance(0.5), c, 6176-g.pick(40))
		return dec{lo, hi}
	}
	return g.finite()
}

func clampExp(e int) int {
	if e < 0 {
		return 0
	}
	if e > 12287 {
		return 12287
	}
	return e
}

func propC06(g *G, n int) {
	for i := 0; i < n; i++ {
		x := g.textDecimal()
		xs := x.String()
		res := apiCall(0, "api.String", []string{xs})
		apiCall(0, "api.MarshalText", []string{xs})
		apiCall(0, "api.Sprintf", []string{sBytes([]byte("v")), xs})
		v := "efgEGfF"[g.pick(7)]
		fr := apiCall(0, "api.Format", []string{xs, sBytes([]byte{v}), "-1"})
		apiCall(0, "api.Append", []string{sBytes([]byte("ab")[:g.pick(3)]), xs, sBytes([]byte{v}), "-1"})
		// the text must read back to an Equal value with the same sign
		if len(res) == 1 {
			drm := g.drm()
			apiCall(drm, "api.Parse", []string{res[0]})
			if len(fr) == 1 && i%2 == 0 {
				// the shortest text in the chosen layout (plain digits for %f) reads back as well
				apiCall(drm, "api.Parse", []string{fr[0]})
			}
			if i%3 == 0 {
				apiCall(drm, "api.UnmarshalText", []string{g.decimal().String(), res[0]})
				apiCall(drm, "api.Sscan", []string{g.decimal().String(), res[0]})
			}
		}
	}
}

func (g *G) fmtSpecStr(verbs string) string {
	var b strings.Builder
	for _, f := range " #+-0" {
		if g.chance(0.25) {
			b.WriteRune(f)
		}
	}
	if g.chance(0.5) {
		fmt.Fprintf(&b, "%d", g.pick(41))
	}
	if g.chance(0.75) {
		b.WriteByte('.')
		if g.chance(0.9) {
			fmt.Fprintf(&b, "%d", g.pick(41))
		}
	}
	b.WriteByte(verbs[g.pick(len(verbs))])
	return b.String()
}

// float64 values that are exactly m·10^k (m < 2^53, |k| ≤ 22 keeps them exact, small k only)
func (g *G) exactFloat() (bits uint64, neg bool, c uint64, e int) {
	for {
		c = uint64(g.coefLen(1 + g.pick(15)).Uint64())
		if g.chance(0.3) {
			c = []uint64{5, 25, 125, 15, 95, 995, 9995, 1, 2, 3, 45, 55, 65, 9, 99, 999}[g.pick(16)]
		}
		e = -g.pick(11)
		// c / 10^-e exact in binary only if 5^-e divides c … use integers and halves instead
		f := float64(c)
		ok := true
		for i := 0; i < -e; i++ {
			f /= 10
		}
		// verify exactness with big.Rat
		r := new(big.Rat).SetFloat64(f)
		want := new(big.Rat).SetFrac(new(big.Int).SetUint64(c), pow10(-e))
		if r == nil || r.Cmp(want) != 0 {
			ok = false
		}
		if ok {
			neg = g.chance(0.3)
			if neg {
				f = -f
			}
			return math.Float64bits(f), neg, c, e
		}
	}
}

func propC07(g *G, n int) {
	for i := 0; i < n; i++ {
		x := g.textDecimal()
		xs := x.String()
		spec := g.fmtSpecStr("eEfFgG")
		sb := sBytes([]byte(spec))
		apiCall(0, "api.Sprintf", []string{sb, xs})
		apiCall(0, "api.DecimalAppend", []string{sBytes([]byte("xy")[:g.pick(3)]), xs, sb})
		v := "efgEG"[g.pick(5)]
		p := g.pick(42)
		apiCall(0, "api.Format", []string{xs, sBytes([]byte{v}), fmt.Sprint(p)})
		apiCall(0, "api.Append", []string{sBytes(nil), xs, sBytes([]byte{v}), fmt.Sprint(p)})
		emit(0, "parseFormat", []string{sb, g.arg("S_formatArgs:args", "parseFormat")})
		emit(0, "digits.round", []string{g.digitsRec(), sI64(int64(g.pick(45) - 3))})
		emit(0, "Decimal.digits_", []string{xs, g.digitsRec()})
		if i%4 == 0 {
			// validate the specification itself against the toolchain's fmt on exact float64 values
			bits, neg, c, e := g.exactFloat()
			apiCall(0, "api.Float64fmt", []string{sb, sU64(bits), sBool(neg), sU64(c), fmt.Sprint(e)})
		}
	}
}

func (g *G) jsonDoc() string {
	switch g.pick(10) {
	case 0:
		return []string{"null", "true", "false", "\"1\"", "[1]", "{}", "{\"a\":1}", "[]", "\"\"", "nul", "nan", "Infinity", "NaN", "-", "+1", "01", "1.", ".5", "1e", "--1", "1_0", " 1", "1 "}[g.pick(23)]
	case 1:
		return g.literal()
	}
	// valid JSON numbers of all shapes
	var b strings.Builder
	if g.chance(0.4) {
		b.WriteByte('-')
	}
	if g.chance(0.2) {
		b.WriteByte('0')
	} else {
		b.WriteByte(byte('1' + g.pick(9)))
		b.WriteString(g.digitsStr(g.pick(45), false))
	}
	if g.chance(0.5) {
		b.WriteByte('.')
		b.WriteString(g.digitsStr(1+g.pick(45), false))
	}
	if g.chance(0.5) {
		b.WriteByte("eE"[g.pick(2)])
		b.WriteString([]string{"", "+", "-"}[g.pick(3)])
		switch g.pick(4) {
		case 0:
			fmt.Fprintf(&b, "%d", g.pick(10))
		case 1:
			fmt.Fprintf(&b, "%d", 6100+g.pick(120))
		case 2:
			fmt.Fprintf(&b, "%d", g.pick(100000))
		default:
			fmt.Fprintf(&b, "%d", g.pick(7000))
		}
	}
	return b.String()
}

func propC13(g *G, n int) {
	for i := 0; i < n; i++ {
		x := g.textDecimal()
		xs := x.String()
		res := apiCall(0, "api.MarshalJSON", []string{xs})
		if len(res) == 2 && res[1] == "nil" {
			apiCall(g.drm(), "api.UnmarshalJSON", []string{g.decimal().String(), res[0]})
		}
		if i%4 == 0 {
			apiCall(0, "api.JSONVia", []string{xs})
		}
		doc := g.jsonDoc()
		drm := g.drm()
		apiCall(drm, "api.UnmarshalJSON", []string{g.decimal().String(), sBytes([]byte(doc))})
	}
}
