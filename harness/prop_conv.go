package main

import (
	"fmt"
	"math"
	"math/big"
)

func init() {
	props["C09"] = propC09
	props["C14"] = propC14
	old := props["C10"]
	props["C10"] = func(g *G, n int) { old(g, n); propC10big(g, n/4+1) }
}

func (g *G) f64bits() uint64 {
	switch g.pick(8) {
	case 0:
		xs := []uint64{0, 1 << 63, 1, 2, 0x000f_ffff_ffff_ffff, 0x0010_0000_0000_0000, 0x7fef_ffff_ffff_ffff, 0x7ff0_0000_0000_0000, 0xfff0_0000_0000_0000, 0x7ff8_0000_0000_0001, 0x3ff0_0000_0000_0000, 0x4340_0000_0000_0000, 0x4330_0000_0000_0000, 0x4350_0000_0000_0000}
		return xs[g.pick(len(xs))]
	case 1: // subnormals
		return g.r.Uint64()&0x000f_ffff_ffff_ffff | uint64(g.pick(2))<<63
	case 2: // exactly representable decimals
		return math.Float64bits(float64(g.pick(1<<20)) / float64(uint64(1)<<uint(g.pick(20))))
	case 3: // short decimals
		return math.Float64bits(float64(g.pick(100000)) * math.Pow(10, float64(g.pick(600)-300)))
	case 4: // around 2^53 .. 2^64 (shift near zero)
		e := uint64(1023 + 40 + g.pick(40))
		return e<<52 | g.r.Uint64()&0x000f_ffff_ffff_ffff
	}
	return g.r.Uint64()
}

func (g *G) f32bits() uint32 {
	switch g.pick(5) {
	case 0:
		xs := []uint32{0, 1 << 31, 1, 0x007f_ffff, 0x0080_0000, 0x7f7f_ffff, 0x7f80_0000, 0xff80_0000, 0x7fc0_0001, 0x3f80_0000}
		return xs[g.pick(len(xs))]
	case 1:
		return g.r.Uint32() & 0x807f_ffff
	case 2:
		return math.Float32bits(float32(g.pick(100000)) * float32(math.Pow(10, float64(g.pick(70)-35))))
	}
	return g.r.Uint32()
}

// decimals in and around the float64/float32 ranges, including half-way points between floats
func (g *G) floatishDecimal() dec {
	switch g.pick(6) {
	case 0:
		return g.decimal()
	case 1: // exactly a float64 (when it has ≤ 34 digits) or its midpoint to the next one
		f := math.Float64frombits(g.f64bits()&0x7fff_ffff_ffff_ffff | 0)
		if math.IsNaN(f) || math.IsInf(f, 0) || f == 0 {
			return g.finite()
		}
		r := new(big.Rat).SetFloat64(f)
		if g.chance(0.5) {
			nx := math.Nextafter(f, math.Inf(1))
			if !math.IsInf(nx, 0) {
				r.Add(r, new(big.Rat).SetFloat64(nx))
				r.Quo(r, big.NewRat(2, 1))
			}
		}
		// decimal expansion to 34 digits (truncated): d ≈ r
		k := 0
		ten := big.NewRat(10, 1)
		for r.Cmp(new(big.Rat).SetInt(pow10(33))) < 0 && k < 6000 {
			r.Mul(r, ten)
			k++
		}
		for r.Cmp(new(big.Rat).SetInt(pow10(34))) >= 0 && k > -6000 {
			r.Quo(r, ten)
			k--
		}
		c := new(big.Int).Quo(r.Num(), r.Denom())
		if g.chance(0.3) {
			c.Add(c, big.NewInt(int64(g.pick(3)-1)))
		}
		if 6176-k < 0 || 6176-k > 12287 || c.Sign() <= 0 {
			return g.finite()
		}
		lo, hi := encodeDec(g.chance(0.5), c, 6176-k)
		return dec{lo, hi}
	case 2: // decimal exponents -400..+330
		lo, hi := encodeDec(g.chance(0.5), g.coef(), 6176+g.pick(731)-400)
		return dec{lo, hi}
	case 3: // near the float32 range ends
		lo, hi := encodeDec(g.chance(0.5), g.coef(), 6176+g.pick(121)-80)
		return dec{lo, hi}
	}
	lo, hi := encodeDec(g.chance(0.5), g.coefLen(1+g.pick(17)), 6176+g.pick(41)-30)
	return dec{lo, hi}
}

func propC09(g *G, n int) {
	for i := 0; i < n; i++ {
		b := g.f64bits()
		drm := g.drm()
		res := apiCall(drm, "api.FromFloat64", []string{sU64(b)})
		if f := math.Float64frombits(b); !math.IsNaN(f) && len(res) == 1 {
			back := apiRun("api.Float64", []string{res[0]})
			record(0, "api.F64RoundTrip", []string{sU64(b)}, back)
		}
		b32 := g.f32bits()
		res = apiCall(drm, "api.FromFloat32", []string{sU64(uint64(b32))})
		if f := math.Float32frombits(b32); f == f && len(res) == 1 {
			back := apiRun("api.Float32", []string{res[0]})
			record(0, "api.F32RoundTrip", []string{sU64(uint64(b32))}, back)
		}
		x := g.floatishDecimal()
		apiCall(0, "api.Float64", []string{x.String()})
		apiCall(0, "api.Float32", []string{x.String()})
		if i%4 == 0 {
			prec := []int{-1, 0, 1, 2, 24, 53, 64, 113, 114, 128, 200, 300}[g.pick(12)]
			apiCall(0, "api.Float", []string{x.String(), fmt.Sprint(prec), fmt.Sprint(g.pick(6))})
			// big.Float inputs: mantissa × 2^exp
			m := new(big.Int).Rand(g.r, new(big.Int).Lsh(big.NewInt(1), uint(1+g.pick(300))))
			e2 := g.pick(2000) - 1000
			if g.chance(0.1) {
				e2 = g.pick(50000) - 25000
			}
			if g.chance(0.08) { // values of ordinary size held with a very high precision: 2^k + small, scaled back by 2^-k
				k := []int{400, 3000, 20300, 20412, 20413, 20500, 21000, 24000}[g.pick(8)] + g.pick(40)
				m = new(big.Int).Lsh(big.NewInt(1), uint(k))
				m.Add(m, big.NewInt(int64(1+g.pick(1000))))
				e2 = -k + g.pick(21) - 10
			}
			apiCall(0, "api.FromFloat", []string{m.String(), fmt.Sprint(e2), sBool(g.chance(0.5))})
			if g.chance(0.05) {
				apiCall(0, "api.FromFloat", []string{[]string{"+Inf", "-Inf"}[g.pick(2)], "0", "F"})
			}
		}
	}
}

func (g *G) bigInt() *big.Int {
	var v *big.Int
	switch g.pick(6) {
	case 0:
		v = big.NewInt(g.i64())
	case 1: // around 2^128 and 2^256 (strategy switches of FromInt)
		v = new(big.Int).Lsh(big.NewInt(1), uint([]int{127, 128, 129, 255, 256, 257}[g.pick(6)]))
		v.Add(v, big.NewInt(int64(g.pick(5)-2)))
	case 2: // 34/35-digit ties
		v = g.coefLen(33 + g.pick(3))
		v.Mul(v, pow10(1+g.pick(30)))
		v.Add(v, new(big.Int).Mul(big.NewInt(5), pow10(g.pick(10))))
	case 3: // huge
		v = new(big.Int).Rand(g.r, new(big.Int).Lsh(big.NewInt(1), uint(1+g.pick(20500))))
	default:
		v = new(big.Int).Rand(g.r, new(big.Int).Lsh(big.NewInt(1), uint(1+g.pick(400))))
	}
	if g.chance(0.4) {
		v.Neg(v)
	}
	return v
}

func propC10big(g *G, n int) {
	for i := 0; i < n; i++ {
		apiCall(g.drm(), "api.FromInt", []string{g.bigInt().String()})
		x := g.decimal()
		prev := "nil"
		if g.chance(0.5) {
			prev = g.bigInt().String()
		}
		apiCall(0, "api.Int", []string{x.String(), prev})
		apiCall(0, "api.Rat", []string{x.String(), []string{"nil", "set"}[g.pick(2)]})
		apiCall(0, "api.RatRoundTrip", []string{x.String()})
		num, den := g.bigInt(), g.bigInt()
		if g.chance(0.5) {
			num, den = g.coefLen(1+g.pick(34)), g.coefLen(1+g.pick(34))
			if g.chance(0.5) {
				num.Neg(num)
			}
		}
		if den.Sign() == 0 {
			den.SetInt64(1)
		}
		apiCall(g.drm(), "api.FromRat", []string{num.String(), den.String()})
	}
}

func propC14(g *G, n int) {
	for i := 0; i < n; i++ {
		x := g.decimal()
		capn := []int{-1, 0, 8, 15, 16, 17, 64}[g.pick(7)]
		res := apiCall(0, "api.Decompose", []string{x.String(), fmt.Sprint(capn)})
		if len(res) == 4 {
			back := apiRun("api.Compose", []string{g.decimal().String(), res[0], res[1], res[2], res[3]})
			record(0, "api.ComposeDecompose", []string{x.String()}, back)
		}
		// arbitrary parts
		form := g.pick(4)
		if g.chance(0.8) {
			form = 0
		}
		var c *big.Int
		switch g.pick(6) {
		case 0:
			c = g.coef()
		case 5: // almost a multiple of a power of ten: q*10^k + r with a sparse r below 10^k (a remainder that shows up in one
			// stage of the reduction only: the last digit, a multiple of 2^64, a single digit somewhere in the zeros)
			k := 1 + g.pick(120)
			c = g.coefLen(1 + g.pick(34))
			c.Mul(c, pow10(k))
			var r *big.Int
			switch g.pick(4) {
			case 0:
				r = big.NewInt(1)
			case 1:
				r = big.NewInt(int64(g.pick(1000)))
			case 2:
				r = new(big.Int).Lsh(big.NewInt(int64(1+g.pick(5))), 64)
			default:
				r = new(big.Int).Mul(big.NewInt(int64(1+g.pick(9))), pow10(g.pick(k)))
			}
			if r.Cmp(pow10(k)) < 0 {
				c.Add(c, r)
			}
		case 1: // trailing decimal zeros to be folded into the exponent
			c = g.coefLen(1 + g.pick(34))
			c.Mul(c, pow10(g.pick(120)))
		case 2: // long coefficients
			c = new(big.Int).Rand(g.r, new(big.Int).Lsh(big.NewInt(1), uint(1+g.pick(2400))))
		case 3: // just over the limit
			c = new(big.Int).Add(cmax, big.NewInt(int64(g.pick(12))))
			c.Mul(c, pow10(g.pick(40)))
		default:
			c = big.NewInt(int64(g.pick(1000)))
		}
		b := c.Bytes()
		if g.chance(0.3) {
			b = append(make([]byte, g.pick(40)), b...)
		}
		var e int64
		switch g.pick(6) {
		case 0:
			e = int64(g.pick(81) - 40)
		case 1:
			e = int64(-6176 - g.pick(80) + 40)
		case 2:
			e = int64(6111 + g.pick(80) - 40)
		case 3:
			e = []int64{math.MinInt32, math.MaxInt32, math.MinInt32 + 1, math.MaxInt32 - 1}[g.pick(4)]
		case 4: // compensate trailing zeros
			e = int64(6111 - g.pick(160))
		default:
			e = int64(int32(g.i64()))
		}
		apiCall(0, "api.Compose", []string{g.decimal().String(), fmt.Sprint(form), sBool(g.chance(0.5)), sBytes(b), fmt.Sprint(e)})
	}
}
