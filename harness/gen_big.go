package main

import (
	"math/big"
)

// Argument generators for the math/big conversions and Compose driven through the hooks in kernel
// mode (FromInt, FromRat, Decimal.Int_, Decimal.Rat, Decimal.Compose). *big.Int travels as a decimal
// string, *big.Rat as num/den, a nil pointer as "nil" (only where the function documents it:
// the result argument of Int and Rat).
var bigOps = map[string]bool{
	"FromInt": true, "FromRat": true, "Decimal.Int_": true, "Decimal.Rat": true, "Decimal.Compose": true,
}

// bigDigits: an integer with n decimal digits (n = 0: zero).
func (g *G) bigDigits(n int) *big.Int {
	if n <= 0 {
		return new(big.Int)
	}
	lo := pow10(n - 1)
	v := new(big.Int).Rand(g.r, new(big.Int).Mul(lo, big.NewInt(9)))
	return v.Add(v, lo)
}

// bigMag: magnitudes that matter to FromInt: up to 40 digits, 100, 2000 and 7000 digits, powers of
// ten and of two and their neighbours, coefficients scaled by a power of ten (exact) and the same
// with the dropped digits at a tie, just below, just above, or a lone low digit (sticky).
func (g *G) bigMag() *big.Int {
	small := func() *big.Int { return big.NewInt(int64(g.pick(3) - 1)) }
	switch g.pick(12) {
	case 0:
		return g.bigDigits(g.pick(41))
	case 1:
		n := []int{100, 2000, 7000, 41 + g.pick(60), 6140 + g.pick(12), 100 + g.pick(1900)}[g.pick(6)]
		if n >= 2000 && !g.chance(0.35) { // the long ones cost: keep them a minority
			n = 41 + g.pick(120)
		}
		return g.bigDigits(n)
	case 2: // power of ten ± 1
		k := g.pick(80)
		if g.chance(0.15) {
			k = []int{6110, 6111, 6112, 6144, 6145, 6146, 6200, 7000, g.pick(6200)}[g.pick(9)]
		}
		return new(big.Int).Add(pow10(k), small())
	case 3: // around the bit lengths the code switches on
		k := []uint{63, 64, 65, 110, 113, 127, 128, 129, 192, 255, 256, 257, 320}[g.pick(13)]
		v := new(big.Int).Lsh(big.NewInt(1), k)
		if g.chance(0.3) {
			v.Mul(v, big.NewInt(int64(1+g.pick(9))))
		}
		return v.Add(v, big.NewInt(int64(g.pick(5)-2)))
	case 4:
		return new(big.Int).SetUint64(g.u64())
	case 5, 6: // coefficient · 10^k: exactly representable while k is in range
		c := g.coef()
		k := g.pick(60)
		if g.chance(0.2) {
			k = []int{6100, 6111, 6112, 6120, 6144, 6145, 6150, g.pick(6300)}[g.pick(8)]
		}
		return c.Mul(c, pow10(k))
	case 7, 8, 9: // a full coefficient followed by k dropped digits: 5000…, 4999…, 5000…1, 000…1, random
		c := g.coefLen(34)
		if g.chance(0.3) {
			c = g.coef()
		}
		k := 1 + g.pick(50)
		if g.chance(0.1) {
			k = 1 + g.pick(400)
		}
		v := new(big.Int).Mul(c, pow10(k))
		half := new(big.Int).Mul(big.NewInt(5), pow10(k-1))
		switch g.pick(6) {
		case 0:
			v.Add(v, half)
		case 1:
			v.Add(v, half).Sub(v, big.NewInt(1))
		case 2:
			v.Add(v, half).Add(v, big.NewInt(1))
		case 3:
			v.Add(v, big.NewInt(1))
		case 4:
			v.Add(v, new(big.Int).Sub(pow10(k), big.NewInt(1)))
		default:
			v.Add(v, new(big.Int).Rand(g.r, pow10(k)))
		}
		return v
	}
	bits := 1 + g.pick(300)
	return new(big.Int).Rand(g.r, new(big.Int).Lsh(big.NewInt(1), uint(bits)))
}

func (g *G) bigIntArg() *big.Int {
	v := g.bigMag()
	if g.chance(0.5) {
		v.Neg(v)
	}
	return v
}

func (g *G) bigRat() string {
	n := g.bigIntArg()
	var d *big.Int
	switch g.pick(6) {
	case 0:
		d = big.NewInt(1)
	case 1:
		d = pow10(g.pick(60))
	case 2:
		d = big.NewInt(int64(1 + g.pick(1000)))
	case 3: // n/d close to a short decimal: d | n·10^k
		d = new(big.Int).Add(g.bigDigits(1+g.pick(20)), big.NewInt(0))
		if g.chance(0.5) {
			n.Mul(n, d)
		}
	default:
		d = g.bigMag()
	}
	if d.Sign() == 0 {
		d = big.NewInt(3)
	}
	// the token need not be in lowest terms: both sides normalise
	return n.String() + "/" + d.String()
}

// composeSig: the significand of Decimal.Compose: big-endian bytes, 0…300 of them, with leading zero
// bytes; mostly a coefficient scaled by a power of ten (so that the divisions by 1e19, 1e4 and 10
// leave no remainder), sometimes off by one, sometimes arbitrary.
func (g *G) composeSig() []byte {
	var v *big.Int
	switch g.pick(10) {
	case 0:
		v = new(big.Int) // all zero bytes (or none)
	case 1:
		n := g.pick(301)
		b := make([]byte, n)
		g.r.Read(b)
		if n > 0 && g.chance(0.5) {
			b[0] = byte(g.pick(3))
		}
		return b
	case 2:
		v = g.bigMag()
	default:
		c := g.coef()
		if g.chance(0.3) {
			c = g.coefLen(34)
		}
		var k int
		switch g.pick(5) {
		case 0:
			k = 0
		case 1:
			k = g.pick(6) // up to 16 bytes
		case 2:
			k = g.pick(45) // up to 32 bytes
		case 3:
			k = 40 + g.pick(100)
		default:
			k = g.pick(690)
		}
		v = c.Mul(c, pow10(k))
		if g.chance(0.12) {
			v.Add(v, big.NewInt(int64(1+g.pick(9))))
		}
		if g.chance(0.05) {
			v.Add(v, pow10(g.pick(k+1)))
		}
	}
	b := v.Bytes()
	if len(b) > 300 {
		b = b[:300]
	}
	z := 0
	switch g.pick(4) {
	case 0:
		z = 1 + g.pick(4)
	case 1:
		z = g.pick(40)
	}
	if z+len(b) > 300 {
		z = 300 - len(b)
	}
	return append(make([]byte, z), b...)
}

func (g *G) composeExp() int32 {
	switch g.pick(8) {
	case 0:
		xs := []int32{-1 << 31, 1<<31 - 1, -1<<31 + 1, 1<<31 - 19, 6111, 6112, 6110, -6176, -6177, -6175, -6210, -6211, -6212, 0, 6092, 6093, 6107, 6108}
		return xs[g.pick(len(xs))]
	case 1:
		return int32(g.i64())
	case 2:
		return int32(6111 - g.pick(80))
	case 3:
		return int32(-6176 - g.pick(45) + 5)
	case 4:
		return int32(g.pick(800) - 6900) // long significands with a very negative exponent
	}
	return int32(g.pick(12500) - 6300)
}

func (g *G) bigArg(codec, name, op string) (string, bool) {
	if !bigOps[op] {
		return "", false
	}
	switch codec {
	case "BigInt":
		if op == "Decimal.Int_" { // the result argument: nil or any object (it is overwritten)
			if g.chance(0.5) {
				return "nil", true
			}
			return g.bigIntArg().String(), true
		}
		return g.bigIntArg().String(), true
	case "BigRat":
		if op == "Decimal.Rat" {
			if g.chance(0.5) {
				return "nil", true
			}
		}
		return g.bigRat(), true
	}
	if op == "Decimal.Compose" {
		switch codec + ":" + name {
		case "Bytes:sig":
			return sBytes(g.composeSig()), true
		case "I32:exp":
			return sI64(int64(g.composeExp())), true
		case "U8:form":
			switch {
			case g.chance(0.85):
				return "0", true
			case g.chance(0.7):
				return sU64(uint64(1 + g.pick(2))), true
			}
			return sU64(uint64(g.pick(256))), true
		}
	}
	return "", false
}
