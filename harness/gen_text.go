package main

import (
	"encoding/hex"
	"fmt"
	"strings"
)

// Argument generators for the text emitters driven through the hooks in kernel mode
// (digits.fmtE/fmtF/pad, appendSpecial, Decimal.format/Append, Append, Format, MarshalText, String,
// MarshalJSON/UnmarshalJSON, Decompose, Payload.String, RoundingMode.String, MustParse, the
// uintN.String methods). Precisions and widths are kept small enough for the loops to terminate
// quickly; a few percent of the cases leave the states the callers produce (negative widths,
// start beyond the buffer, ndig outside 0…39) so that the panicking paths are compared too.
var textOps = map[string]bool{
	"digits.fmtE": true, "digits.fmtF": true, "digits.pad": true, "Decimal.appendSpecial": true,
	"Decimal.format": true, "Decimal.Append": true, "Append": true, "Format": true,
	"Decimal.MarshalText": true, "Decimal.String": true, "Decimal.MarshalJSON": true,
	"Decimal.UnmarshalJSON": true, "Decimal.Decompose": true, "Payload.String": true,
	"RoundingMode.String": true, "MustParse": true, "U128.String": true, "U192.String": true,
	"U256.String": true, "U384.String": true, "decomposed192.String": true,
}

func (g *G) textBuf() []byte {
	if g.chance(0.55) {
		return nil
	}
	n := 1 + g.pick(12)
	if g.chance(0.1) {
		n = 14 + g.pick(20) // long enough for Decompose to reuse it
	}
	b := make([]byte, n)
	for i := range b {
		b[i] = "ab-+ 0123456789.e\x00\xff"[g.pick(19)]
	}
	return b
}

func (g *G) textArg(codec, name, op string) (string, bool) {
	if !textOps[op] {
		return "", false
	}
	switch codec + ":" + name {
	case "I64:prec":
		switch {
		case g.chance(0.05):
			return sI64(int64(g.pick(7000))), true
		case g.chance(0.03):
			return sI64(-int64(g.pick(7000))), true
		}
		return sI64(int64(g.pick(48) - 3)), true
	case "I64:width":
		switch {
		case g.chance(0.3):
			return "0", true
		case g.chance(0.04):
			return sI64(int64(g.pick(400))), true
		case g.chance(0.03):
			return sI64(-int64(g.pick(50))), true
		}
		return sI64(int64(g.pick(60))), true
	case "I64:start":
		return sI64(int64(g.pick(14) - 1)), true // replaced relative to the buffer in textFixup
	case "Bytes:buf":
		return sBytes(g.textBuf()), true
	case "U8:fmt", "U8:e":
		if g.chance(0.03) {
			return sU64(uint64(g.pick(256))), true
		}
		return sU64(uint64("eEfFgGvx%"[g.pick(9)])), true
	case "S_digits:d":
		return g.digitsRecText(), true
	case "S_Decimal:d":
		// the callers of appendSpecial pass NaN / ±Inf; the top-level emitters see them more often
		// than the general generator produces them
		if (op == "Decimal.appendSpecial" && g.chance(0.85)) || g.chance(0.1) {
			return g.special().String(), true
		}
		return "", false
	case "U64:p": // Payload: mostly the encodings the package produces
		if g.chance(0.85) {
			return sU64(uint64(g.pick(26)) | uint64(g.pick(8))<<8 | uint64(g.pick(8))<<16), true
		}
		if g.chance(0.5) {
			return sU64(uint64(g.pick(1 << 24))), true
		}
		return sU64(g.u64()), true
	case "Bytes:data":
		if g.chance(0.3) {
			xs := []string{"null", "nul", "null ", `"1"`, `"`, "[1]", "[", "{}", "{", "true", "false", "t", "f", "+1", "-2", "+", "-", "", "1e400000", "-1e400000", "+Inf", "NaN", "1e-400000", "0x1p4", "1_0"}
			return sBytes([]byte(xs[g.pick(len(xs))])), true
		}
		s := g.literal()
		if g.chance(0.2) {
			s = "+-"[g.pick(2):][:1] + s
		}
		return sBytes([]byte(s)), true
	}
	return "", false
}

// digitsRecText is digitsRec with a few records outside the states Decimal.digits/round produce.
func (g *G) digitsRecText() string {
	s := g.digitsRec()
	if g.chance(0.04) {
		p := strings.Split(s, ",")
		p[3] = sI64(int64(g.pick(46) - 3))
		if g.chance(0.3) { // (kept small: the emitters loop |exp| times)
			p[2] = sI64(int64(g.pick(14001) - 7000))
		}
		return strings.Join(p, ",")
	}
	if g.chance(0.5) { // exponents near zero: the fixed-point layouts
		p := strings.Split(s, ",")
		p[2] = sI64(int64(g.pick(90) - 60))
		return strings.Join(p, ",")
	}
	return s
}

// textFixup relates digits.pad's start to its buffer: the callers pass the length the buffer had
// before the number was appended.
func (g *G) textFixup(op string, sig, args []string) {
	if op != "digits.pad" || g.chance(0.05) {
		return
	}
	bi, si := -1, -1
	for i, s := range sig {
		switch s {
		case "Bytes:buf":
			bi = i
		case "I64:start":
			si = i
		}
	}
	if bi < 0 || si < 0 {
		return
	}
	b, err := hex.DecodeString(strings.TrimPrefix(args[bi], "x"))
	if err != nil {
		panic(fmt.Sprint("textFixup: ", err))
	}
	if len(b) == 0 || g.chance(0.3) { // a number is always there: sign, digits
		b = append(b, []byte("-+ 1")[g.pick(4)])
		b = append(b, []byte(g.digitsStr(1+g.pick(8), false))...)
		args[bi] = sBytes(b)
	}
	args[si] = sI64(int64(g.pick(len(b))))
}
