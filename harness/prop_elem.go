package main

import (
	"math"
	"math/big"
)

func init() {
	props["C15"] = propC15
	props["C16"] = propC16
	props["C17"] = propC17
	props["C18"] = propC18
}

var elemFns = []string{"Exp", "Exp2", "Exp10", "Expm1", "Log", "Log2", "Log10", "Log1p", "Sqrt", "Cbrt"}

func mk(neg bool, c int64, ue int) dec {
	lo, hi := encodeDec(neg, big.NewInt(c), 6176+ue)
	return dec{lo, hi}
}

// representatives of every operand class
func (g *G) classReps() []dec {
	reps := []dec{
		{0, 0x7c00_0000_0000_0000}, {g.r.Uint64(), 0xfc00_0000_0000_0000}, {uint64(9 + 5<<8 + 6<<16), 0x7c00_0000_0000_0000},
		{0, 0x7800_0000_0000_0000}, {0, 0xf800_0000_0000_0000}, {g.r.Uint64(), 0x7800_0000_0000_0000 | g.r.Uint64()&0x03ff_ffff_ffff_ffff},
		{g.r.Uint64(), 0xf800_0000_0000_0000 | g.r.Uint64()&0x03ff_ffff_ffff_ffff},
		mk(false, 0, 0), mk(true, 0, 0), mk(false, 0, g.pick(100)-50), mk(true, 0, 6111), mk(false, 0, -6176),
		mk(false, 1, 0), mk(true, 1, 0), mk(false, 10, -1), mk(true, 100, -2),
		mk(false, 2, 0), mk(true, 2, 0), mk(false, 3, 0), mk(true, 3, 0), mk(false, 30, -1), mk(true, 20, -1),
		mk(false, 5, -1), mk(true, 5, -1), mk(false, 25, -1), mk(true, 25, -1), mk(false, 15, -1), mk(true, 15, -1),
		mk(false, 9, -1), mk(true, 9, -1), mk(false, 11, -1), mk(true, 11, -1), mk(false, 99999, -5), mk(false, 100001, -5),
		mk(false, 1, 6111), mk(true, 1, 6111), mk(false, 1, -6176), mk(true, 1, -6176),
		mk(false, 1, 40), mk(true, 1, 40), mk(false, 1, 35), mk(true, 3, 34), mk(false, 2, 33),
		mk(false, 100, 0), mk(false, 1000, 0), mk(true, 1000, 0), mk(false, 1, -4), mk(false, 1, 2), mk(false, 4, 0), mk(false, 8, 0), mk(false, 27, 0),
	}
	for i := 0; i < 6; i++ {
		reps = append(reps, g.finite())
	}
	// other encodings of ±1, ±2, ±0.5 and of odd/even integers: long runs of trailing zeros (cohort members)
	for _, c := range []int64{1, 1, 2, 5, 3} {
		k := 1 + g.pick(33)
		if c == 1 && g.chance(0.7) {
			k = 19 + g.pick(15)
		}
		lo, hi := encodeDec(g.chance(0.5), new(big.Int).Mul(big.NewInt(c), pow10(k)), 6176-k-map[int64]int{5: 1}[c])
		reps = append(reps, dec{lo, hi})
	}
	return reps
}

func propC15(g *G, n int) {
	rounds := n / 3000
	if rounds < 1 {
		rounds = 1
	}
	for k := 0; k < rounds; k++ {
		reps := g.classReps()
		emit(0, "NaN", nil)
		for _, sg := range []int64{0, 1, -1, g.i64(), -1 << 63, 1<<63 - 1, int64(g.pick(5)) - 2} {
			emit(0, "Inf", []string{sI64(sg)})
		}
		for _, x := range reps {
			xs := x.String()
			for _, f := range elemFns {
				emit(g.drm(), f, []string{xs})
			}
			for _, f := range []string{"Decimal.IsNaN", "Decimal.Signbit", "Decimal.IsZero", "Decimal.Payload_", "Abs", "Decimal.Neg", "Decimal.Canonical", "Round", "Trunc", "Ceil", "Floor", "Frexp", "Decimal.Sign"} {
				emit(0, f, []string{xs})
			}
			for _, s := range []string{"-1", "0", "1"} {
				emit(0, "Decimal.IsInf", []string{xs, s})
			}
			emit(0, "Decimal.Round", []string{xs, sI64(int64(g.pick(9) - 4)), sU64(uint64(g.mode()))})
			emit(g.drm(), "Ldexp", []string{xs, sI64(int64(g.pick(21) - 10))})
			emit(g.drm(), "Ldexp", []string{xs, sI64(g.i64())})
			for _, y := range reps {
				ys := y.String()
				m := sU64(uint64(g.pick(6)))
				for _, op := range []string{"Decimal.AddWithMode", "Decimal.SubWithMode", "Decimal.MulWithMode", "Decimal.QuoWithMode", "Decimal.QuoRemWithMode", "Decimal.PowWithMode"} {
					emit(0, op, []string{xs, ys, m})
				}
				for _, op := range []string{"Decimal.Cmp", "Decimal.CmpAbs", "Decimal.Equal", "Compare", "Min", "Max"} {
					emit(0, op, []string{xs, ys})
				}
			}
		}
		for p := 0; p < 400; p++ {
			var pv uint64
			switch g.pick(3) {
			case 0:
				pv = uint64(g.pick(24)) | uint64(g.pick(9))<<8 | uint64(g.pick(9))<<16
			case 1:
				pv = g.u64()
			default:
				pv = uint64(g.pick(1 << 24))
			}
			apiCall(0, "api.PayloadString", []string{sU64(pv)})
		}
	}
}

// arguments for exp-like functions: moderate magnitudes, thresholds, tiny, exact integers
func (g *G) expArg() dec {
	switch g.pick(13) {
	case 10: // far beyond the thresholds (the result is out of range; the exponent bookkeeping must still say so)
		nd := 1 + g.pick(8)
		return dec2(g.chance(0.5), g.coefLen(nd), 6176+2+g.pick(6)-nd+1)
	case 11: // |x| between 20 and 1300, few decimals: results between 1e-560 and 1e560, where Expm1 aligns e^x against 1
		v := int64(20*1000 + g.pick(1280*1000))
		if g.chance(0.3) {
			v = v / 1000 * 1000
		}
		return mk(g.chance(0.6), v, -3)
	case 12: // every integer up to 1300 (word boundaries of the power-of-two ladder), also with a fraction
		v := int64(g.pick(1300))
		if g.chance(0.3) {
			return mk(g.chance(0.5), v*10+int64(g.pick(10)), -1)
		}
		return mk(g.chance(0.5), v, 0)
	case 0: // integers: small ones, and every integer around the places where a result leaves the format
		if g.chance(0.5) {
			base := []int64{6111, 6144, 6145, 6176, 6177, 6211, 20300, 20414, 20516, 20630, 14071, 14221}[g.pick(12)]
			v := base + int64(g.pick(81)-40)
			z := g.pick(3) // also as 10v e-1, 100v e-2
			return mk(g.chance(0.5), v*[]int64{1, 10, 100}[z], -z)
		}
		return mk(g.chance(0.5), int64(g.pick(130)), 0)
	case 1: // near the overflow/underflow thresholds
		base := []int64{14220, 14221, 14071, 14072, 20415, 20516, 6111, 6112, 6144, 6145, 6176, 6177, 6200, 6211, 20000}[g.pick(15)]
		lo, hi := encodeDec(g.chance(0.5), new(big.Int).Add(new(big.Int).Mul(big.NewInt(base), pow10(6)), big.NewInt(int64(g.pick(2000001)-1000000))), 6176-6)
		return dec{lo, hi}
	case 2: // tiny
		lo, hi := encodeDec(g.chance(0.5), g.coef(), 6176-30-g.pick(80))
		return dec{lo, hi}
	case 3: // extreme exponents
		lo, hi := encodeDec(g.chance(0.5), g.coef(), g.bexp())
		return dec{lo, hi}
	case 4: // cohort members of small integers
		c := cohort(mk(g.chance(0.5), int64(1+g.pick(20)), 0))
		return c[g.pick(len(c))]
	}
	// |x| spread over 1e-6 .. 2e4
	nd := 1 + g.pick(35)
	c := g.coefLen(nd)
	tgt := g.pick(11) - 6
	lo, hi := encodeDec(g.chance(0.5), c, clampExp(6176+tgt-nd+1))
	return dec{lo, hi}
}

func dec2(neg bool, c *big.Int, bexp int) dec {
	lo, hi := encodeDec(neg, c, clampExp(bexp))
	return dec{lo, hi}
}

func (g *G) logArg() dec {
	switch g.pick(10) {
	case 0: // near 1 from both sides
		k := 1 + g.pick(33)
		c := pow10(k)
		d := big.NewInt(int64(1 + g.pick(999)))
		if g.chance(0.5) {
			c.Add(c, d)
		} else {
			c.Sub(c, d)
		}
		lo, hi := encodeDec(false, c, 6176-k)
		return dec{lo, hi}
	case 1: // exact powers of two / ten
		if g.chance(0.5) {
			return mk(false, 1, g.pick(12288)-6176)
		}
		c := new(big.Int).Lsh(big.NewInt(1), uint(g.pick(113)))
		lo, hi := encodeDec(false, c, 6176)
		return dec{lo, hi}
	case 2: // table slots 1.1 .. 9.9 and neighbours
		c := big.NewInt(int64(10 + g.pick(90)))
		c.Mul(c, pow10(20))
		c.Add(c, big.NewInt(int64(g.pick(3)-1)))
		lo, hi := encodeDec(false, c, clampExp(6176-21+g.pick(41)-20))
		return dec{lo, hi}
	case 3: // negative / zero / specials
		return g.decimal()
	}
	lo, hi := encodeDec(false, g.coef(), g.bexp())
	return dec{lo, hi}
}

func (g *G) log1pArg() dec {
	if g.chance(0.25) { // every slot of the powers-of-ten tables: long coefficient at exponent -k, k = 1..58
		k := 1 + g.pick(58)
		lo, hi := encodeDec(g.chance(0.5), g.coefLen(30+g.pick(5)), 6176-k)
		return dec{lo, hi}
	}
	switch g.pick(6) {
	case 0: // close to -1
		k := 1 + g.pick(33)
		c := new(big.Int).Sub(pow10(k), big.NewInt(int64(g.pick(100))))
		lo, hi := encodeDec(true, c, 6176-k)
		return dec{lo, hi}
	case 1: // tiny
		lo, hi := encodeDec(g.chance(0.5), g.coef(), 6176-20-g.pick(6100))
		return dec{lo, hi}
	case 2: // around the series/log switch-over 1e-10
		lo, hi := encodeDec(g.chance(0.5), g.coefLen(1+g.pick(10)), 6176-10-g.pick(12))
		return dec{lo, hi}
	}
	x := g.logArg()
	if g.chance(0.3) {
		x.hi |= 1 << 63
	}
	return x
}

func propC16(g *G, n int) {
	for i := 0; i < n; i++ {
		drm := g.drm()
		x := g.expArg()
		for _, f := range []string{"Exp", "Exp2", "Exp10", "Expm1"} {
			emit(drm, f, []string{x.String()})
		}
		y := g.logArg()
		for _, f := range []string{"Log", "Log2", "Log10"} {
			emit(drm, f, []string{y.String()})
		}
		emit(drm, "Log1p", []string{g.log1pArg().String()})
	}
}

func propC17(g *G, n int) {
	for i := 0; i < n; i++ {
		var x dec
		switch g.pick(6) {
		case 0: // perfect squares / cubes and neighbours
			r := g.coefLen(1 + g.pick(17))
			k := 2
			if g.chance(0.5) {
				k = 3
				r = g.coefLen(1 + g.pick(11))
			}
			c := new(big.Int).Exp(r, big.NewInt(int64(k)), nil)
			c.Add(c, big.NewInt(int64(g.pick(3)-1)))
			if c.Sign() < 0 || c.Cmp(cmax) > 0 {
				c = r
			}
			lo, hi := encodeDec(g.chance(0.3), c, clampExp(6176+k*(g.pick(2001)-1000)+g.pick(2)))
			x = dec{lo, hi}
		case 1: // subnormal and tiny
			lo, hi := encodeDec(g.chance(0.3), g.coef(), g.pick(40))
			x = dec{lo, hi}
		case 2:
			x = g.decimal()
		default:
			lo, hi := encodeDec(g.chance(0.3), g.coef(), g.pick(12288))
			x = dec{lo, hi}
		}
		if h, ok := g.hint(); ok {
			// hunt: arguments whose root (or whose cube, or twice / half / a fifth of the root - the sums and halves the
			// iterations form) has the hinted word on top of the 192-bit working register: A = R^k cut to 34 digits
			h += uint64(g.pick(3)) - 1
			R := new(big.Int).Lsh(new(big.Int).SetUint64(h), 128)
			switch g.pick(3) {
			case 0:
				R.Add(R, new(big.Int).Sub(new(big.Int).Lsh(big.NewInt(1), 128), big.NewInt(1)))
			case 1:
				R.Add(R, new(big.Int).Rand(g.r, new(big.Int).Lsh(big.NewInt(1), 128)))
			}
			switch g.pick(5) {
			case 0:
				R.Rsh(R, 1)
			case 1:
				R.Quo(R, big.NewInt(5))
			case 2:
				R.Lsh(R, 1)
			case 3:
				R.Mul(R, big.NewInt(5))
			}
			k := 1 + g.pick(3)
			A := new(big.Int).Exp(R, big.NewInt(int64(k)), nil)
			drop := len(A.String()) - 34
			if drop > 0 {
				A.Quo(A, pow10(drop))
			} else {
				drop = 0
			}
			if g.chance(0.3) {
				A.Add(A, big.NewInt(int64(g.pick(3)-1)))
			}
			if A.Sign() > 0 && A.Cmp(cmax) <= 0 {
				kk := k
				if kk == 1 {
					kk = 2 + g.pick(2)
				}
				lo, hi := encodeDec(false, A, clampExp(6176+drop+kk*(g.pick(2001)-1000)))
				x = dec{lo, hi}
			}
		}
		drm := g.drm()
		emit(drm, "Sqrt", []string{x.String()})
		emit(drm, "Cbrt", []string{x.String()})
	}
}

// powBoundary aims x**y at the places where the result's decimal exponent crosses a limit of the format
// or of the int16 exponent of the 57-digit working format (E·ln 10 = y·ln x for the listed E ± a little).
func (g *G) powBoundary() (dec, dec) {
	es := []float64{6111, 6144, 6145, 6146, -6176, -6177, -6178, -6211, 6200, 12287, 16383, 32767 - 116, 32767 - 58, 32767, 32768 + 58, 65535, 65536, -32768, -32768 - 58, 131072, 262144}
	E := es[g.pick(len(es))] + float64(g.pick(161)-80) + g.r.Float64()
	if g.chance(0.5) { // power-of-ten base: exact shortcut, integer exponent
		k := 1 + g.pick(6)
		if g.chance(0.3) {
			k = 1 + g.pick(40)
		}
		y := int64(math.Abs(E))/int64(k) + int64(g.pick(3)-1)
		if y < 0 {
			y = 0
		}
		if E < 0 {
			k = -k
		}
		z := g.pick(3) // cohort member of the base
		return mk(false, int64([]int{1, 10, 100}[z]), k-z), mk(false, y+int64(g.pick(3)-1), 0)
	}
	var x float64
	var xd dec
	switch g.pick(3) {
	case 0:
		c := int64(2 + g.pick(98))
		e := g.pick(7) - 3
		x, xd = float64(c)*math.Pow(10, float64(e)), mk(false, c, e)
	case 1:
		c := int64(1001 + g.pick(8999))
		x, xd = float64(c)/1000, mk(false, c, -3)
	default:
		c := int64(1 + g.pick(999))
		x, xd = float64(c)/1000, mk(false, c, -3)
	}
	if x == 1 {
		x, xd = 2, mk(false, 2, 0)
	}
	y := E * math.Ln10 / math.Log(x)
	neg := y < 0
	if neg {
		y = -y
	}
	if y > 9e17 {
		y = 9e17
	}
	if g.chance(0.5) || y > 1e15 {
		return xd, mk(neg, int64(y), 0)
	}
	return xd, mk(neg, int64(y*1000), -3)
}

// powAmplified: a short mantissa anywhere in [1,10) (often just below the next slot of the ln table: d.d999)
// raised to a large power that stays in range, so that an error of the logarithm is amplified |y| times.
func (g *G) powAmplified() (dec, dec) {
	c := int64(1000 + g.pick(9000))
	switch g.pick(3) {
	case 0:
		c = c/100*100 + 99 // d.d99
	case 1:
		c = c / 100 * 100 // d.d00
	}
	if c == 1000 {
		c = 1001
	}
	e := -3
	if g.chance(0.3) {
		c = c*10 + 9
		e = -4
	}
	x := float64(c) * math.Pow(10, float64(e))
	ymax := 6000 / math.Abs(math.Log10(x))
	if ymax > 9e15 {
		ymax = 9e15
	}
	y := int64(ymax * (0.05 + 0.95*g.r.Float64()))
	if g.chance(0.3) {
		y = int64(float64(y) * g.r.Float64() * g.r.Float64())
	}
	if y < 1 {
		y = 1
	}
	if g.chance(0.3) && y > 1000 {
		return mk(false, c, e), mk(g.chance(0.5), y/1000*1000+int64(g.pick(1000)), 0)
	}
	return mk(false, c, e), mk(g.chance(0.5), y, 0)
}

func (g *G) powPair() (dec, dec) {
	if g.chance(0.2) {
		return g.powBoundary()
	}
	if g.chance(0.15) {
		return g.powAmplified()
	}
	switch g.pick(10) {
	case 0: // powers of ten with integer exponents
		return mk(g.chance(0.2), 1, g.pick(41)-20), mk(g.chance(0.3), int64(g.pick(700)), g.pick(2))
	case 1: // power of ten ** ±0.5
		return mk(false, 1, g.pick(201)-100), mk(g.chance(0.5), 5, -1)
	case 2: // y = ±1, 0
		return g.decimal(), []dec{mk(false, 1, 0), mk(true, 1, 0), mk(false, 0, 0), mk(false, 10, -1), mk(true, 100, -2)}[g.pick(5)]
	case 3: // negative base, integer / non-integer exponents
		return mk(true, int64(1+g.pick(50)), g.pick(5)-2), mk(g.chance(0.5), int64(g.pick(60)), g.pick(3)-1)
	case 4: // base near 1, large exponent
		k := 5 + g.pick(28)
		c := pow10(k)
		c.Add(c, big.NewInt(int64(g.pick(2001)-1000)))
		lo, hi := encodeDec(false, c, 6176-k)
		ylo, yhi := encodeDec(g.chance(0.5), g.coefLen(1+g.pick(8)), 6176+g.pick(k))
		return dec{lo, hi}, dec{ylo, yhi}
	case 5: // results near the range limits
		x := mk(false, int64(2+g.pick(98)), g.pick(7)-3)
		ylo, yhi := encodeDec(g.chance(0.5), g.coefLen(1+g.pick(6)), 6176+g.pick(3)-1)
		return x, dec{ylo, yhi}
	case 6:
		return g.decimal(), g.decimal()
	}
	// moderate operands
	nd := 1 + g.pick(34)
	lo, hi := encodeDec(false, g.coefLen(nd), clampExp(6176-nd+1+g.pick(9)-4))
	nd2 := 1 + g.pick(20)
	ylo, yhi := encodeDec(g.chance(0.5), g.coefLen(nd2), clampExp(6176-nd2+1+g.pick(6)-3))
	return dec{lo, hi}, dec{ylo, yhi}
}

func propC18(g *G, n int) {
	for i := 0; i < n; i++ {
		x, y := g.powPair()
		emit(g.drm(), "Decimal.PowWithMode", []string{x.String(), y.String(), sU64(uint64(g.mode()))})
		if i%4 == 0 {
			emit(g.drm(), "Decimal.Pow", []string{x.String(), y.String()})
		}
	}
}
