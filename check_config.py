"""Per-property configuration of the checks (which generator, which kernels, which theorem modules)."""

TRUSTED_BASE = [
    "Lean 4.33 kernel (leanchecker re-checks the compiled proofs in the thorough tier); axioms allowed in theorems: propext, Classical.choice, Quot.sound (audited on every run by lean/Audit/Main.lean); decide +kernel (kernel evaluation, no axiom) for table facts and certificates",
    "no sorry/admit/axiom/native_decide/bv_decide/implemented_by in proof sources (source scan on every run)",
    "Go->Lean translator tools/go2lean and the hand-written semantics it targets: lean/D128/Go/Prelude.lean (fixed-width ints, shifts, math/bits, panics, byte slices as values with cap = len), Float.lean (float64/float32 as IEEE bit patterns; characterised in Proofs/FloatSpec), Big.lean and BigFloat.lean (math/big Int/Rat/Float by the documented meaning of each method - math/big is specified, not verified); validated by kernel-level and API-level correspondence on every run (exact token equality of implementation and regenerated model)",
    "lean/D128/Spec/*.lean states what the properties say (hand-written, executable, independent of the generated model); characterised declaratively in Props/SpecMeaning, Proofs/SpecRound*, Props/C16 (oracle soundness), Props/C17Oracle, Props/C18Oracle",
    "runtime not modelled: Go compiler/runtime/memory model and scheduler, math/big internals, how package fmt fills a fmt.State / fmt.ScanState, encoding/json's own scanner, unsafe.String over a private buffer; 64-bit int; strings shorter than 2^57 bytes",
]

Q = 'quick'
T = 'thorough'

def P(gen, nq, nt, level='translation_validation', modules=None, kernel=None, **kw):
    d = dict(gen=gen, n={Q: nq, T: nt}, level=level, modules=modules or [], kernel=kernel or [])
    d.update(kw)
    return d

ROUNDING_KERNELS = ['RoundingMode.*', 'U128.*', 'U192.*', 'U256.*', 'compose', 'Decimal.decompose']

SPECROUND = ['D128.Proofs.SpecRound']
KERNEL = ['D128.Proofs.RoundKernel', 'D128.Proofs.Words128', 'D128.Proofs.WordsWide', 'D128.Proofs.Encoding'] + SPECROUND
PROLOGUE = ['D128.Props.C15']
WIDE = ['D128.Proofs.WordsWidePow10', 'D128.Proofs.WordsWideMsd2', 'D128.Proofs.WordsWideMul', 'D128.Proofs.WordsWideShift', 'D128.Proofs.Words128Log', 'D128.Proofs.Words128Div']
POW = ['D128.Props.C18', 'D128.Props.C18b']
SPECM = ['D128.Props.SpecMeaning']   # declarative characterisation of Spec.* (what the executable specification means)

PROPS = {
    'C01': P('C01', 48000, 4000000, modules=['D128.Props.C01'] + KERNEL + PROLOGUE + SPECM, kernel=ROUNDING_KERNELS + ['Decimal.add']),
    'C02': P('C02', 48000, 4000000, modules=['D128.Props.C02', 'D128.Props.C02Quo', 'D128.Proofs.Words128Div'] + KERNEL + PROLOGUE + SPECM, kernel=ROUNDING_KERNELS),
    'C03': P('C03', 32000, 2000000, modules=['D128.Props.C03', 'D128.Proofs.Words128Div'] + KERNEL + PROLOGUE + SPECM, kernel=['U128.div', 'U128.mul64', 'RoundingMode.reduce128', 'RoundingMode.round']),
    'C04': P('C04', 16000, 1500000, modules=['D128.Props.C04', 'D128.Props.C04b'] + SPECM, kernel=['CmpResult.*', 'U128.cmp', 'U128.div1*', 'U128.div10*', 'Decimal.Cmp', 'Decimal.CmpAbs', 'Decimal.Equal']),
    'C05': P('C05', 32000, 2000000, modules=['D128.Props.C05', 'D128.Props.C05Value', 'D128.Props.C05Scan', 'D128.Props.C05Entry'] + KERNEL, kernel=['parseNumber', 'parse', 'RoundingMode.reduce128', 'Decimal.Scan', 'MustParse'], extra_gens=['FMT']),
    'C06': P('C06', 16000, 1500000, modules=['D128.Props.C06', 'D128.Props.C06b', 'D128.Props.C07c', 'D128.Props.C05', 'D128.Props.C05Value', 'D128.Props.C05Scan', 'D128.Props.C05Entry'] + KERNEL, kernel=['Decimal.digits_', 'U128.div100', 'parseNumber', 'RoundingMode.reduce128', 'digits.fmtE', 'digits.fmtF', 'Decimal.appendSpecial', 'Decimal.String', 'Decimal.MarshalText', 'Format', 'Append', 'Decimal.Format', 'Decimal.writeSpecial', 'Decimal.Scan'], extra_gens=['FMT']),
    'C07': P('C07', 16000, 1500000, modules=['D128.Props.C07', 'D128.Props.C07b', 'D128.Props.C07c'], kernel=['digits.round', 'parseFormat', 'Decimal.digits_', 'formatArgs.*', 'digits.fmtE', 'digits.fmtF', 'digits.pad', 'Decimal.appendSpecial', 'Decimal.format', 'Decimal.Append', 'Append', 'Format', 'Decimal.String', 'Decimal.MarshalText', 'Decimal.Format', 'Decimal.writeSpecial'], extra_gens=['FMT']),
    'C08': P('C08', 32000, 3000000, modules=['D128.Props.C08', 'D128.Props.C15'] + KERNEL + SPECM, kernel=['RoundingMode.round', 'composeQuantum', 'U128.div10', 'U128.add64']),
    'C09': P('C09', 16000, 1500000, modules=['D128.Props.C09', 'D128.Props.C09b'] + KERNEL + WIDE, kernel=['FromFloat64', 'FromFloat32', 'Decimal.Float64', 'Decimal.Float32', 'FromFloat', 'Decimal.Float', 'U256.lsh', 'U256.rsh', 'U256.div10', 'U256.mul64', 'U128.mul1e38', 'RoundingMode.reduce256'], kernel_n={Q: 4000, T: 400000}),
    'C10': P('C10', 32000, 3000000, modules=['D128.Props.C10', 'D128.Props.C10b', 'D128.Props.C10c', 'D128.Props.C02Quo'] + KERNEL, kernel=['U128.div10', 'U128.mul64', 'RoundingMode.reduce128', 'RoundingMode.round', 'Decimal.Int64_', 'Decimal.Uint64', 'Decimal.Int32_', 'Decimal.Uint32', 'FromInt', 'FromRat', 'Decimal.Int_', 'Decimal.Rat']),
    'C11': P('C11', 32000, 3000000, modules=['D128.Props.C11', 'D128.Props.C11b'] + KERNEL + SPECM, kernel=['RoundingMode.reduce64', 'RoundingMode.reduce128', 'RoundingMode.round', 'U128.log10']),
    'C12': P('C12', 32000, 3000000, modules=['D128.Props.C12'], kernel=['compose', 'Decimal.decompose', 'Decimal.MarshalBinary', 'Decimal.UnmarshalBinary']),
    'C13': P('C13', 16000, 1500000, modules=['D128.Props.C13', 'D128.Props.C05', 'D128.Props.C05Value', 'D128.Props.C06', 'D128.Props.C06b'] + KERNEL, kernel=['parseNumber', 'Decimal.digits_', 'RoundingMode.reduce128', 'Decimal.MarshalJSON', 'Decimal.UnmarshalJSON', 'digits.fmtE', 'digits.fmtF']),
    'C14': P('C14', 16000, 1500000, modules=['D128.Props.C14'] + KERNEL + WIDE, kernel=['Decimal.Decompose', 'Decimal.Compose', 'U256.div1e19', 'U256.lsh', 'U192.div10000', 'U128.div10', 'U128.mul64', 'compose'], kernel_n={Q: 4000, T: 400000}),
    'C15': P('C15', 18000, 480000, shards={Q: 6}, modules=['D128.Props.C15', 'D128.Props.C15b', 'D128.Props.C15c', 'D128.Props.C04', 'D128.Props.C04b'] + POW, kernel=['nan', 'inf', 'zero', 'one', 'Decimal.IsNaN', 'Decimal.isInf', 'Decimal.isSpecial', 'Decimal.IsZero']),
    'C16': P('C16', 4800, 400000, modules=['D128.Props.C16', 'D128.Props.C16Exp', 'D128.Props.C16Log', 'D128.Props.C16Bands', 'D128.Proofs.EnclosureTables', 'D128.Props.C15'] + KERNEL + WIDE, kernel=['decomposed192.*', 'U192.*', 'U384.*'], kernel_n={Q: 120, T: 8000}),
    'C17': P('C17', 16000, 1000000, modules=['D128.Props.C17', 'D128.Props.C17Oracle', 'D128.Props.C15'] + KERNEL + WIDE, kernel=['decomposed192.mul', 'decomposed192.quo', 'decomposed192.add', 'U192.div']),
    'C18': P('C18', 3200, 300000, modules=['D128.Props.C18', 'D128.Props.C18b', 'D128.Props.C18c', 'D128.Props.C18Oracle', 'D128.Props.C15', 'D128.Props.C02Quo'] + KERNEL + WIDE, kernel=['decomposed192.log', 'decomposed192.epow', 'decomposed192.rcp', 'decomposed192.mul']),
    'C19': P('C19', 8000, 600000, modules=['D128.Props.C19', 'D128.Props.C19b', 'D128.Props.C19c', 'D128.Props.C19d', 'D128.Props.C19e', 'D128.Props.C19f', 'D128.Props.C19g', 'D128.Props.C01', 'D128.Props.C02', 'D128.Props.C02Quo', 'D128.Props.C04', 'D128.Props.C10', 'D128.Props.C11'], kernel=['Decimal.Canonical', 'U128.div10', 'U128.mul64']),
    'C20': P('C20', 3200, 100000, modules=['D128.Props.C20', 'D128.Props.C20b', 'D128.Props.C20c', 'D128.Props.C20d', 'D128.Props.C07b', 'D128.Props.C07c', 'D128.Props.C05Scan', 'D128.Props.C05Entry', 'D128.Props.C06', 'D128.Props.C06b', 'D128.Props.C13', 'D128.Props.C14', 'D128.Props.C10b', 'D128.Props.C09b', 'D128.Gen.Facts'], race=True, spec_filter=r'undocumented panic|nondeterministic|did not return'),
}
