/-
  `Compare`, `IsZero`, `Sign`, `Min`, `Max` against the specification.

  * `spec_cmp_range`   — `Spec.cmp x y ∈ {-2,-1,0,1}`
  * `Compare_correct`  — `Gen.Compare d o = .ok (Int64.ofInt (Spec.compare ⟦d⟧ ⟦o⟧))`
  * `IsZero_correct`   — `Gen.Decimal.IsZero d = Spec.isZero ⟦d⟧`
  * `Sign_correct`     — panic exactly on NaN, otherwise `Spec.sign`
  * `Min_correct`, `Max_correct` — result denotes `Spec.minVal` / `Spec.maxVal` up to `Val.same`
-/
import D128.Proofs.CmpMain
set_option autoImplicit false
set_option linter.unusedSimpArgs false

namespace CmpPf
open Gen

theorem spec_cmp_range (x y : Spec.Val) :
    Spec.cmp x y = -2 ∨ Spec.cmp x y = -1 ∨ Spec.cmp x y = 0 ∨ Spec.cmp x y = 1 := by
  cases x <;> cases y <;> simp only [Spec.cmp] <;> (try split_ifs) <;> decide

theorem IsNaN_iff (d : Decimal) : Decimal.IsNaN d = (den d).isNaN := by
  rcases classify d with ⟨_, dn, dv⟩ | ⟨_, dn, _, dv⟩ | ⟨_, dn, _, _, _, _, _, _, _, _, _, dv⟩ <;>
    rw [dn, dv] <;> rfl

theorem conv_ofInt (v : Int) (h : v = -2 ∨ v = -1 ∨ v = 0 ∨ v = 1) :
    (Go.conv (Int8.ofInt v) : Int64) = Int64.ofInt v := by
  rcases h with rfl | rfl | rfl | rfl <;> decide

theorem Compare_correct (d o : Decimal) :
    Gen.Compare d o = .ok (Int64.ofInt (Spec.compare (den d) (den o))) := by
  unfold Gen.Compare Spec.compare
  rw [IsNaN_iff d, IsNaN_iff o, Cmp_correct]
  cases h1 : (den d).isNaN <;> cases h2 : (den o).isNaN <;>
    simp [pure, Except.pure, bind, Except.bind, conv_ofInt _ (spec_cmp_range _ _)]

theorem IsZero_special (d : Decimal) (hs : Decimal.isSpecial d = true) : Decimal.IsZero d = false := by
  rw [isSpecial_eq] at hs
  have hs' : d.hi.toNat / 2 ^ 59 % 16 = 15 := by simpa using hs
  rw [IsZero_eq]
  have : d.hi.toNat / 2 ^ 61 % 4 = 3 := by
    simp only [Nat.reducePow] at *; omega
  rw [if_pos this]

theorem spec_isZero_fin (n : Bool) (c : Nat) (e : Int) :
    Spec.isZero (.fin n c e) = decide (c = 0) := by
  cases c <;> simp [Spec.isZero]

theorem IsZero_correct (d : Decimal) : Gen.Decimal.IsZero d = Spec.isZero (den d) := by
  rcases classify d with ⟨ds, _, dv⟩ | ⟨ds, _, _, dv⟩ | ⟨_, _, _, _, _, _, _, _, _, _, hz, dv⟩
  · rw [dv, IsZero_special d ds]; rfl
  · rw [dv, IsZero_special d ds]; rfl
  · rw [dv, hz, spec_isZero_fin]

/-- result of `Sign` as the specification describes it -/
def signResult : Option Int → Go.GoM Int64
  | none => .error (.explicit "Decimal(NaN).Sign()")
  | some s => .ok (Int64.ofInt s)

theorem Sign_correct (d : Decimal) : Gen.Decimal.Sign d = signResult (Spec.sign (den d)) := by
  unfold Gen.Decimal.Sign
  rcases classify d with ⟨ds, dn, dv⟩ | ⟨ds, dn, _, dv⟩ | ⟨_, dn, _, _, _, _, _, _, _, _, hz, dv⟩
  · rw [dv, dn]; rfl
  · rw [dv, dn, IsZero_special d ds]
    cases Decimal.Signbit d <;> rfl
  · rw [dv, dn, hz]
    simp only [Spec.sign, signResult, Bool.false_eq_true, if_false, beq_iff_eq, decide_eq_true_eq]
    split_ifs <;> rfl

theorem Signbit_iff (d : Decimal) : Decimal.Signbit d = (den d).neg := by
  rcases classify d with ⟨_, _, dv⟩ | ⟨_, _, _, dv⟩ | ⟨_, _, _, _, _, _, _, _, _, _, _, dv⟩ <;>
    rw [dv] <;> rfl

theorem same_refl (v : Spec.Val) : Spec.Val.same v v = true := by
  cases v <;> simp [Spec.Val.same]

theorem mag_zero (e : Int) : Spec.mag 0 e = 0 := by
  unfold Spec.mag
  simp

theorem den_zero (b : Bool) : den (Gen.zero b) = .fin b 0 (-6176) := by
  cases b <;> rfl

theorem same_zero (b : Bool) (e e' : Int) : Spec.Val.same (.fin b 0 e) (.fin b 0 e') = true := by
  simp [Spec.Val.same, mag_zero]

theorem isZero_iff (v : Spec.Val) : Spec.isZero v = v.isZero := by
  cases v with
  | fin n c e => cases c <;> rfl
  | _ => rfl

theorem less_ofInt (v : Int) (h : v = -2 ∨ v = -1 ∨ v = 0 ∨ v = 1) :
    CmpResult.Less (Int8.ofInt v) = (v == -1) := by
  rcases h with rfl | rfl | rfl | rfl <;> decide

theorem greater_ofInt (v : Int) (h : v = -2 ∨ v = -1 ∨ v = 0 ∨ v = 1) :
    CmpResult.Greater (Int8.ofInt v) = (v == 1) := by
  rcases h with rfl | rfl | rfl | rfl <;> decide

theorem Min_correct (d o : Decimal) :
    ∃ r, Gen.Min d o = .ok r ∧
      Spec.Val.same (den r) (Spec.minVal (den d) (den o)) = true := by
  unfold Gen.Min
  rw [IsNaN_iff d, IsNaN_iff o, IsZero_correct d, IsZero_correct o, Cmp_correct, Signbit_iff d,
    Signbit_iff o, isZero_iff, isZero_iff]
  simp only [bind, Except.bind, pure, Except.pure, less_ofInt _ (spec_cmp_range _ _)]
  cases hx : den d with
  | nan n p =>
    refine ⟨d, by simp [Spec.Val.isNaN], ?_⟩
    rw [hx]; simp [Spec.minVal, Spec.Val.same]
  | inf n =>
    cases hy : den o with
    | nan n' p' =>
      refine ⟨o, by simp [Spec.Val.isNaN], ?_⟩
      rw [hy]; simp [Spec.minVal, Spec.Val.same]
    | inf n' =>
      simp only [Spec.Val.isNaN, Spec.Val.isZero, Spec.minVal, Bool.false_eq_true, if_false,
        Bool.false_and]
      split_ifs
      · exact ⟨o, rfl, by rw [hy]; exact same_refl _⟩
      · exact ⟨d, rfl, by rw [hx]; exact same_refl _⟩
    | fin n' c' e' =>
      simp only [Spec.Val.isNaN, Spec.Val.isZero, Spec.minVal, Bool.false_eq_true, if_false,
        Bool.false_and]
      split_ifs
      · exact ⟨o, rfl, by rw [hy]; exact same_refl _⟩
      · exact ⟨d, rfl, by rw [hx]; exact same_refl _⟩
  | fin n c e =>
    cases hy : den o with
    | nan n' p' =>
      refine ⟨o, by simp [Spec.Val.isNaN], ?_⟩
      rw [hy]; simp [Spec.minVal, Spec.Val.same]
    | inf n' =>
      simp only [Spec.Val.isNaN, Spec.Val.isZero, Spec.minVal, Bool.false_eq_true, if_false,
        Bool.and_false]
      split_ifs
      · exact ⟨o, rfl, by rw [hy]; exact same_refl _⟩
      · exact ⟨d, rfl, by rw [hx]; exact same_refl _⟩
    | fin n' c' e' =>
      simp only [Spec.Val.isNaN, Spec.minVal, Bool.false_eq_true, if_false, Spec.Val.neg]
      by_cases hz : ((Spec.Val.fin n c e).isZero && (Spec.Val.fin n' c' e').isZero) = true
      · simp only [hz, if_true]
        by_cases hs : (n || n') = true
        · simp only [hs, if_true]
          exact ⟨_, rfl, by rw [den_zero]; exact same_zero _ _ _⟩
        · have hs' : (n || n') = false := by simpa using hs
          simp only [hs', Bool.false_eq_true, if_false]
          exact ⟨_, rfl, by rw [den_zero]; exact same_zero _ _ _⟩
      · have hz' : ((Spec.Val.fin n c e).isZero && (Spec.Val.fin n' c' e').isZero) = false := by
          simpa using hz
        simp only [hz', Bool.false_eq_true, if_false]
        split_ifs
        · exact ⟨o, rfl, by rw [hy]; exact same_refl _⟩
        · exact ⟨d, rfl, by rw [hx]; exact same_refl _⟩

theorem Max_correct (d o : Decimal) :
    ∃ r, Gen.Max d o = .ok r ∧
      Spec.Val.same (den r) (Spec.maxVal (den d) (den o)) = true := by
  unfold Gen.Max
  rw [IsNaN_iff d, IsNaN_iff o, IsZero_correct d, IsZero_correct o, Cmp_correct, Signbit_iff d,
    Signbit_iff o, isZero_iff, isZero_iff]
  simp only [bind, Except.bind, pure, Except.pure, greater_ofInt _ (spec_cmp_range _ _)]
  cases hx : den d with
  | nan n p =>
    refine ⟨d, by simp [Spec.Val.isNaN], ?_⟩
    rw [hx]; simp [Spec.maxVal, Spec.Val.same]
  | inf n =>
    cases hy : den o with
    | nan n' p' =>
      refine ⟨o, by simp [Spec.Val.isNaN], ?_⟩
      rw [hy]; simp [Spec.maxVal, Spec.Val.same]
    | inf n' =>
      simp only [Spec.Val.isNaN, Spec.Val.isZero, Spec.maxVal, Bool.false_eq_true, if_false,
        Bool.false_and]
      split_ifs
      · exact ⟨o, rfl, by rw [hy]; exact same_refl _⟩
      · exact ⟨d, rfl, by rw [hx]; exact same_refl _⟩
    | fin n' c' e' =>
      simp only [Spec.Val.isNaN, Spec.Val.isZero, Spec.maxVal, Bool.false_eq_true, if_false,
        Bool.false_and]
      split_ifs
      · exact ⟨o, rfl, by rw [hy]; exact same_refl _⟩
      · exact ⟨d, rfl, by rw [hx]; exact same_refl _⟩
  | fin n c e =>
    cases hy : den o with
    | nan n' p' =>
      refine ⟨o, by simp [Spec.Val.isNaN], ?_⟩
      rw [hy]; simp [Spec.maxVal, Spec.Val.same]
    | inf n' =>
      simp only [Spec.Val.isNaN, Spec.Val.isZero, Spec.maxVal, Bool.false_eq_true, if_false,
        Bool.and_false]
      split_ifs
      · exact ⟨o, rfl, by rw [hy]; exact same_refl _⟩
      · exact ⟨d, rfl, by rw [hx]; exact same_refl _⟩
    | fin n' c' e' =>
      simp only [Spec.Val.isNaN, Spec.maxVal, Bool.false_eq_true, if_false, Spec.Val.neg]
      by_cases hz : ((Spec.Val.fin n c e).isZero && (Spec.Val.fin n' c' e').isZero) = true
      · simp only [hz, if_true]
        cases n <;> cases n' <;>
          exact ⟨_, rfl, by rw [den_zero]; exact same_zero _ _ _⟩
      · have hz' : ((Spec.Val.fin n c e).isZero && (Spec.Val.fin n' c' e').isZero) = false := by
          simpa using hz
        simp only [hz', Bool.false_eq_true, if_false]
        split_ifs
        · exact ⟨o, rfl, by rw [hy]; exact same_refl _⟩
        · exact ⟨d, rfl, by rw [hx]; exact same_refl _⟩

end CmpPf
