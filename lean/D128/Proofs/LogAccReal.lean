/-
  D128/Proofs/LogAccReal.lean — real-analysis side of `decomposed192.log`: the series against `Real.log`.

  * `Sj_eq_sum`, `Sj_cast`     : `Sj f j` is the partial sum `Σ_{i ≤ j} f·(f·f)^i/(2i+1)` (also over ℝ)
  * `tailR F = F·(F·F)^17/(35·(1 − F·F))` : the geometric bound of the omitted terms (`i ≥ 17`)
  * `log_sub_le`, `log_sub_abs` : `|log a − log b| ≤ |a − b|/min a b`
  * `series_bounds`            : `0 ≤ F < 1`: `2·S ≤ log((1+F)/(1−F)) ≤ 2·S + 2·tailR F`
  * `log_v2_series`            : `1 ≤ V`, `z = (V−1)/(V+1)`, `z(1−lam) ≤ F ≤ z(1+eps)/(1−lam)`, `F ≤ 1/20`:
                                 `|log V − 2·S| ≤ 2·tailR F + 5·10^-56·S`
-/
import D128.Proofs.LogAccCode
import D128.Proofs.EnclosureTables
set_option autoImplicit false
set_option maxRecDepth 4096
set_option linter.unusedVariables false
namespace LogAcc
open Gen D192 Root

theorem Sj_eq_sum (f : ℚ) : ∀ j, Sj f j = ∑ i ∈ Finset.range (j + 1), f * (f * f) ^ i / ((2 * i + 1 : ℕ) : ℚ)
  | 0 => by simp [Sj]
  | j + 1 => by
      have e : Sj f (j + 1) = Sj f j + f * (f ^ 2) ^ (j + 1) / ((2 * (j + 1) + 1 : Nat) : ℚ) := rfl
      rw [Finset.sum_range_succ, ← Sj_eq_sum f j, e, pow_two]

theorem Sj_cast (f : ℚ) (j : ℕ) :
    ((Sj f j : ℚ) : ℝ) = ∑ i ∈ Finset.range (j + 1), (f : ℝ) * ((f : ℝ) * (f : ℝ)) ^ i / ((2 * i + 1 : ℕ) : ℝ) := by
  rw [Sj_eq_sum]; push_cast; rfl

theorem Sj_ge (f : ℚ) (hf : 0 ≤ f) : ∀ j, f ≤ Sj f j
  | 0 => le_refl _
  | j + 1 => by
      unfold Sj
      have := Sj_ge f hf j
      have : 0 ≤ f * (f ^ 2) ^ (j + 1) / ((2 * (j + 1) + 1 : Nat) : ℚ) := by positivity
      linarith

/-- geometric bound of the omitted terms of the artanh series after 17 terms -/
noncomputable def tailR (F : ℝ) : ℝ := F * (F * F) ^ 17 / (((2 * 17 + 1 : ℕ) : ℝ) * (1 - F * F))

theorem series_bounds (f : ℚ) (h0 : 0 ≤ f) (h1 : f < 1) :
    2 * ((Sj f 16 : ℚ) : ℝ) ≤ Real.log (1 + (f : ℝ)) - Real.log (1 - (f : ℝ)) ∧
    Real.log (1 + (f : ℝ)) - Real.log (1 - (f : ℝ)) ≤ 2 * ((Sj f 16 : ℚ) : ℝ) + 2 * tailR (f : ℝ) := by
  have h0' : (0 : ℝ) ≤ (f : ℝ) := by exact_mod_cast h0
  have h1' : (f : ℝ) < 1 := by exact_mod_cast h1
  obtain ⟨b1, b2⟩ := EnclPf.atanh_series_bounds h0' h1' 17
  rw [Sj_cast]
  unfold tailR
  constructor <;> linarith

/-- `log a − log b ≤ (a − b)/b` -/
theorem log_sub_le {a b : ℝ} (ha : 0 < a) (hb : 0 < b) : Real.log a - Real.log b ≤ (a - b) / b := by
  rw [← Real.log_div ha.ne' hb.ne']
  have := Real.log_le_sub_one_of_pos (div_pos ha hb)
  have e : a / b - 1 = (a - b) / b := by field_simp
  linarith

theorem log_sub_abs {a b m : ℝ} (ha : 0 < a) (hb : 0 < b) (hm : 0 < m) (hma : m ≤ a) (hmb : m ≤ b) :
    |Real.log a - Real.log b| ≤ |a - b| / m := by
  rw [abs_le]
  have h1 := log_sub_le ha hb
  have h2 := log_sub_le hb ha
  have habs1 : a - b ≤ |a - b| := le_abs_self _
  have habs2 : b - a ≤ |a - b| := by rw [abs_sub_comm]; exact le_abs_self _
  have hn : 0 ≤ |a - b| := abs_nonneg _
  constructor
  · have : (b - a) / a ≤ |a - b| / m := by
      calc (b - a) / a ≤ |a - b| / a := div_le_div_of_nonneg_right habs2 ha.le
        _ ≤ |a - b| / m := div_le_div_of_nonneg_left hn hm hma
    linarith
  · calc Real.log a - Real.log b ≤ (a - b) / b := h1
      _ ≤ |a - b| / b := div_le_div_of_nonneg_right habs1 hb.le
      _ ≤ |a - b| / m := div_le_div_of_nonneg_left hn hm hmb

/-- the logarithm of the reduced argument against the series evaluated at the computed quotient -/
theorem log_v2_series (V : ℝ) (f : ℚ) (hV : 1 ≤ V) (hf0 : 0 ≤ f) (hf1 : f ≤ 1 / 20)
    (hlo : (V - 1) / (V + 1) * (1 - (lam : ℝ)) ≤ (f : ℝ))
    (hhi : (f : ℝ) ≤ (V - 1) / (V + 1) * ((1 + (Root.eps : ℝ)) / (1 - (lam : ℝ)))) :
    |Real.log V - 2 * ((Sj f 16 : ℚ) : ℝ)| ≤ 2 * tailR (f : ℝ) + 5 / 10 ^ 56 * ((Sj f 16 : ℚ) : ℝ) := by
  set F : ℝ := (f : ℝ) with hF
  set z : ℝ := (V - 1) / (V + 1) with hz
  set S : ℝ := ((Sj f 16 : ℚ) : ℝ) with hS
  have hF0 : 0 ≤ F := by rw [hF]; exact_mod_cast hf0
  have hF1 : F ≤ 1 / 20 := by
    have : ((f : ℚ) : ℝ) ≤ ((1 / 20 : ℚ) : ℝ) := Rat.cast_le.mpr hf1
    rw [hF]; norm_num at this ⊢; exact this
  have hV1 : 0 < V + 1 := by linarith
  have hz0 : 0 ≤ z := div_nonneg (by linarith) hV1.le
  have hz1 : z < 1 := by rw [hz, div_lt_one hV1]; linarith
  have hlamR : (0 : ℝ) < (lam : ℝ) := by exact_mod_cast lam_pos
  have hlamle : (lam : ℝ) ≤ 1 / (6 * 10 ^ 56) := by
    have : ((lam : ℚ) : ℝ) ≤ ((1 / (6 * 10 ^ 56) : ℚ) : ℝ) := Rat.cast_le.mpr lam_le
    norm_num at this ⊢; exact this
  have hepsle : (Root.eps : ℝ) ≤ 21 / 10 ^ 57 := by
    have h : Root.eps ≤ 21 / 10 ^ 57 := by unfold Root.eps; norm_num
    have : ((Root.eps : ℚ) : ℝ) ≤ ((21 / 10 ^ 57 : ℚ) : ℝ) := Rat.cast_le.mpr h
    norm_num at this ⊢; exact this
  have heps0 : (0 : ℝ) < (Root.eps : ℝ) := by exact_mod_cast Root.eps_pos
  have hu : (0 : ℝ) < 1 - (lam : ℝ) := by linarith [show (1 : ℝ) / (6 * 10 ^ 56) < 1 by norm_num]
  -- z ≤ 1/19
  have hz19 : z ≤ 1 / 19 := by
    have : z * (1 - (lam : ℝ)) ≤ 1 / 20 := le_trans hlo hF1
    nlinarith
  -- |z − F| ≤ 23e-57·z
  have hzF : |z - F| ≤ 23 / 10 ^ 57 * z := by
    rw [abs_le]
    constructor
    · -- F − z ≤ z ((1+eps)/(1−lam) − 1)
      have h1 : (1 + (Root.eps : ℝ)) / (1 - (lam : ℝ)) ≤ 1 + 23 / 10 ^ 57 := by
        rw [div_le_iff₀ hu]; nlinarith
      have : F ≤ z * (1 + 23 / 10 ^ 57) := le_trans hhi (mul_le_mul_of_nonneg_left h1 hz0)
      linarith
    · have : z * (lam : ℝ) ≤ 23 / 10 ^ 57 * z := by nlinarith
      linarith
  -- log V = log(1+z) − log(1−z)
  have hVz : Real.log V = Real.log (1 + z) - Real.log (1 - z) := by
    have e1 : 1 + z = 2 * V / (V + 1) := by rw [hz]; field_simp; ring
    have e2 : 1 - z = 2 / (V + 1) := by rw [hz]; field_simp; ring
    rw [e1, e2, ← Real.log_div (by positivity) (by positivity)]
    congr 1; field_simp
  have hf1' : f < 1 := lt_of_le_of_lt hf1 (by norm_num)
  obtain ⟨s1, s2⟩ := series_bounds f hf0 hf1'
  rw [← hF, ← hS] at s1 s2
  -- differences of logarithms
  have d1 := log_sub_abs (a := 1 + z) (b := 1 + F) (m := 1) (by linarith) (by linarith) one_pos
    (by linarith) (by linarith)
  have d2 := log_sub_abs (a := 1 - z) (b := 1 - F) (m := 18 / 19) (by linarith) (by linarith)
    (by norm_num) (by linarith) (by linarith)
  have e1 : (1 + z) - (1 + F) = z - F := by ring
  have e2 : (1 - z) - (1 - F) = -(z - F) := by ring
  rw [e1, div_one] at d1
  rw [e2, abs_neg] at d2
  have hS0 : F ≤ S := by
    rw [hF, hS]; exact_mod_cast Sj_ge f hf0 16
  -- z ≤ S·(1 + 2e-57)
  have hzS : z ≤ S * (1 + 2 / 10 ^ 57) := by
    have : z * (1 - (lam : ℝ)) ≤ S := le_trans hlo hS0
    have hS0' : 0 ≤ S := le_trans hF0 hS0
    nlinarith
  have hS0' : 0 ≤ S := le_trans hF0 hS0
  have hd1 := abs_le.mp d1
  have hd2 := abs_le.mp d2
  have hzF' : |z - F| / (18 / 19) ≤ 25 / 10 ^ 57 * z := by
    rw [div_le_iff₀ (by norm_num)]; nlinarith
  have hbd : |z - F| + |z - F| / (18 / 19) ≤ 5 / 10 ^ 56 * S := by
    nlinarith
  rw [hVz, abs_le]
  constructor <;> linarith [hd1.1, hd1.2, hd2.1, hd2.2]

end LogAcc
