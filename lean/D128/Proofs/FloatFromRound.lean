/-
  D128/Proofs/FloatFromRound.lean — two magnitudes with no rounding boundary between them round alike.

  Provided (namespace `FF`):
  * `NoBoundary a V q` : no multiple of half the quantum `10^q` lies in `[a, V]`
  * `rndQ_eq_of_noHalf` : `RK.rndQ` agrees on `x ≤ y` when no half-integer lies in `[x, y]`
  * `round_eq_of_noBoundary` : `flushOrRoundS m neg a 0 = flushOrRoundS m neg V 0` (every mode) when `q` is
      the spacing exponent of `V` and `NoBoundary a V q`
-/
import D128.Proofs.RoundKernelSpec
import D128.Proofs.RoundKernelReduceMath
import D128.Proofs.SpecRoundMain

set_option autoImplicit false
set_option maxRecDepth 8192

namespace FF
open Spec

/-- no multiple of half the quantum `10^q` lies in `[a, V]` -/
def NoBoundary (a V : ℚ) (q : ℤ) : Prop :=
  ∀ n : ℤ, ¬ (a ≤ (n : ℚ) / 2 * Spec.pow10 q ∧ (n : ℚ) / 2 * Spec.pow10 q ≤ V)

theorem rndQ_eq_of_noHalf (m : Mode) (neg : Bool) (x y : ℚ) (hx : 0 ≤ x) (hxy : x ≤ y)
    (h : ∀ n : ℤ, ¬ (x ≤ (n : ℚ) / 2 ∧ (n : ℚ) / 2 ≤ y)) : RK.rndQ m neg x = RK.rndQ m neg y := by
  have hy : 0 ≤ y := le_trans hx hxy
  set c := floorNat y with hc
  have hcy : (c : ℚ) ≤ y := RK.floorNat_le y hy
  have hyc : y < (c : ℚ) + 1 := RK.lt_floorNat_add_one y
  have hcx : (c : ℚ) < x := by
    by_contra hlt
    apply h (2 * (c : ℤ))
    have : (((2 * (c : ℤ) : ℤ)) : ℚ) / 2 = (c : ℚ) := by push_cast; ring
    rw [this]
    exact ⟨not_lt.1 hlt, hcy⟩
  have hfx : floorNat x = c := RK.floorNat_eq x c hcx.le (by linarith)
  have hhalf : ¬ (x ≤ (c : ℚ) + 1 / 2 ∧ (c : ℚ) + 1 / 2 ≤ y) := by
    have := h (2 * (c : ℤ) + 1)
    have e : (((2 * (c : ℤ) + 1 : ℤ)) : ℚ) / 2 = (c : ℚ) + 1 / 2 := by push_cast; ring
    rwa [e] at this
  have hfrac : RK.fracOrd (x - (c : ℚ)) = RK.fracOrd (y - (c : ℚ)) := by
    unfold RK.fracOrd
    by_cases h1 : y - (c : ℚ) < 1 / 2
    · have h2 : x - (c : ℚ) < 1 / 2 := by linarith
      rw [if_pos h1, if_pos h2]
    · have h2 : ¬ x - (c : ℚ) < 1 / 2 := by
        intro h2
        exact hhalf ⟨by linarith, by linarith⟩
      have h3 : ¬ y - (c : ℚ) = 1 / 2 := fun h3 => hhalf ⟨by linarith, by linarith⟩
      have h4 : ¬ x - (c : ℚ) = 1 / 2 := fun h4 => hhalf ⟨by linarith, by linarith⟩
      rw [if_neg h1, if_neg h2, if_neg (by simpa using h4), if_neg (by simpa using h3)]
  have hz : ((x - (c : ℚ)) == 0) = ((y - (c : ℚ)) == 0) := by
    have h1 : ¬ x - (c : ℚ) = 0 := by intro h1; linarith
    have h2 : ¬ y - (c : ℚ) = 0 := by intro h2; linarith
    simp [h1, h2]
  unfold RK.rndQ RK.splitQ
  simp only [hfx, ← hc, hfrac, hz]

theorem round_eq_of_noBoundary (m : Mode) (neg : Bool) (a V : ℚ) (q : ℤ) (ha : 0 < a) (haV : a ≤ V)
    (hsp : RK.IsSpacing V q) (hq0 : Spec.Emin ≤ q) (hnb : NoBoundary a V q) :
    Spec.flushOrRoundS m neg a 0 = Spec.flushOrRoundS m neg V 0 := by
  have hp := RK.pow10_pos q
  have hV : 0 < V := lt_of_lt_of_le ha haV
  -- `a` has the same spacing exponent
  have hspa : RK.IsSpacing a q := by
    refine ⟨?_, lt_of_le_of_lt haV hsp.2⟩
    by_contra hlt
    apply hnb (2 * 2 ^ 110)
    have : (((2 * 2 ^ 110 : ℤ)) : ℚ) / 2 = 2 ^ 110 := by push_cast; ring
    rw [this]
    exact ⟨(not_le.1 hlt).le, hsp.1⟩
  -- neither is flushed
  have hbig : ∀ w : ℚ, RK.IsSpacing w q → Spec.flushOrRoundS m neg w 0 = Spec.roundToS m neg w 0 := by
    intro w hw
    have hw0 : 0 < w := lt_of_lt_of_le (by positivity) hw.1
    have := SpecRound.flushOrRoundS_eq m neg w hw0.le 0
    rw [zpow_zero, mul_one] at this
    rw [this, SpecRound.flushOrRound_eq_roundTo]
    · rfl
    · rw [← RK.pow10_eq]
      calc Spec.pow10 (Spec.Emin - 1) ≤ Spec.pow10 q := (RK.pow10_le_iff _ _).2 (by omega)
        _ = 1 * Spec.pow10 q := by ring
        _ ≤ 2 ^ 110 * Spec.pow10 q := mul_le_mul_of_nonneg_right (by norm_num) hp.le
        _ ≤ w := hw.1
  rw [hbig a hspa, hbig V hsp, RK.roundToS_eq m neg a 0 q hspa, RK.roundToS_eq m neg V 0 q hsp]
  have hlt : ¬ q < Spec.Emin := by omega
  simp only [add_zero, sub_zero, hlt, if_false]
  congr 1
  apply rndQ_eq_of_noHalf m neg _ _ (by positivity) (div_le_div_of_nonneg_right haV hp.le)
  intro n ⟨h1, h2⟩
  apply hnb n
  rw [le_div_iff₀ hp] at h2
  rw [div_le_iff₀ hp] at h1
  exact ⟨h1, h2⟩

end FF
