/-
  D128/Proofs/ExpAccInt.lean — property C16, helpers for the integer-argument (exact) paths of `Gen.Exp10` and
  `Gen.Exp2`.

  Provided (namespace `ExpAcc`):
  * `rcp_exact`        : `d.sig < OLIM`, `1/val d = K·10^e'` with `K` natural and `e' ≥ -56 - d.exp` (the largest
                         exponent `rcp` can return): `rcp d 0 = .ok (r, 0)` with `val r = 1/val d` exactly
  * `rcp_pow10`        : `rcp ⟨⟨1,0,0⟩, E⟩ 0 = .ok (r, 0)` with `val r = 10^-E`
  * `round_small_zero` : nearest mode, `0 < q < 10^Emin / 2` ⇒ `flushOrRound m false q` is a `+0`
  * `round_big_inf`    : nearest mode, `10^6146 ≤ q` ⇒ `flushOrRound m false q = +Inf`
  * `exact_no_gv`      : the member a nearest mode selects for `q` itself is no `GeneralViolation` for `q`
  * `exp_nat_log`      : `exp (n · log b) = b^n`
-/
import D128.Proofs.ExpAccExp
set_option autoImplicit false
set_option maxRecDepth 4096
set_option exponentiation.threshold 512

namespace ExpAcc
open Gen D192 Spec SpecRound EnclPf
local notation "𝔳[" d "]" => Spec.interp (Gen.Decimal.lo d) (Gen.Decimal.hi d)

/-- two multiples of the same unit, one within a unit below the other, are equal -/
theorem mult_eq {s K : Nat} {u : ℚ} (hu : 0 < u) (h1 : (s : ℚ) * u ≤ (K : ℚ) * u)
    (h2 : (K : ℚ) * u < (s : ℚ) * u + u) : s = K := by
  have a1 : (s : ℚ) ≤ (K : ℚ) := le_of_mul_le_mul_right h1 hu
  have a2 : (K : ℚ) < (s : ℚ) + 1 := by
    have : (K : ℚ) * u < ((s : ℚ) + 1) * u := by linarith
    exact lt_of_mul_lt_mul_right this hu.le
  have b1 : s ≤ K := by exact_mod_cast a1
  have b2 : K < s + 1 := by exact_mod_cast a2
  omega

/-- **exact reciprocal**: if `1/val d = K·10^e'` for a natural `K` and an exponent `e'` not below the
largest exponent `rcp` can return, the reciprocal is exact and the flag `0` is kept -/
theorem rcp_exact (d : decomposed192) (hd : d.sig.toNat ≠ 0) (hO : d.sig.toNat < OLIM)
    (hde : -16000 ≤ d.exp.toInt ∧ d.exp.toInt ≤ 16000)
    (K : Nat) (e' : Int) (he' : -57 - d.exp.toInt + 1 ≤ e') (hK : 1 / val d = (K : ℚ) * (10 : ℚ) ^ e') :
    ∃ r, decomposed192.rcp d 0 = .ok (r, 0) ∧ val r = 1 / val d ∧ 1 ≤ r.sig.toNat ∧
      -57 - d.exp.toInt - 61 ≤ r.exp.toInt ∧ r.exp.toInt ≤ -57 - d.exp.toInt + 1 := by
  obtain ⟨r, t', d', hr, hd0, hd1, hd2, hd3, c1, c2, c3, c4, c5, c6, c7, c8⟩ := rcp_contract d 0 hd hde
  have hd' : d' = val d := hd3 hO
  rw [hd'] at c1 c2 c3 c4
  -- both are multiples of `ulp r`
  have hu : (0 : ℚ) < (10 : ℚ) ^ r.exp.toInt := zpow_pos (by norm_num) _
  have hsplit : (10 : ℚ) ^ e' = ((10 ^ (e' - r.exp.toInt).toNat : Nat) : ℚ) * (10 : ℚ) ^ r.exp.toInt := by
    push_cast
    rw [← zpow_natCast, ← zpow_add₀ (by norm_num : (10 : ℚ) ≠ 0)]
    congr 1
    rw [Int.toNat_of_nonneg (by omega)]; ring
  have hKu : 1 / val d = ((K * 10 ^ (e' - r.exp.toInt).toNat : Nat) : ℚ) * (10 : ℚ) ^ r.exp.toInt := by
    rw [hK, hsplit]; push_cast; ring
  have heq : r.sig.toNat = K * 10 ^ (e' - r.exp.toInt).toNat := by
    apply mult_eq hu
    · rw [← hKu]; exact c1
    · rw [← hKu]; exact c2
  have hv : val r = 1 / val d := by
    unfold val at hKu ⊢
    rw [heq, ← hKu]
  have ht : t' = 0 := c3 ⟨hv, rfl⟩
  rw [ht] at hr
  exact ⟨r, hr, hv, c6, c7, c8⟩

theorem one_sig_small : (U192.mk 1 0 0).toNat < OLIM := by
  unfold OLIM lim; simp [U192.toNat]

/-- the reciprocal of `10^E` -/
theorem rcp_pow10 (E : Int16) (h0 : 0 ≤ E.toInt) (h1 : E.toInt ≤ 16000) :
    ∃ r, decomposed192.rcp ⟨⟨1, 0, 0⟩, E⟩ 0 = .ok (r, 0) ∧ val r = (10 : ℚ) ^ (-E.toInt) ∧
      1 ≤ r.sig.toNat ∧ -57 - E.toInt - 61 ≤ r.exp.toInt ∧ r.exp.toInt ≤ -57 - E.toInt + 1 := by
  have hv : val ⟨⟨1, 0, 0⟩, E⟩ = (10 : ℚ) ^ E.toInt := by simp [val, U192.toNat]
  obtain ⟨r, hr, hvr, h3, h4, h5⟩ := rcp_exact ⟨⟨1, 0, 0⟩, E⟩ (by simp [U192.toNat]) one_sig_small
    ⟨by simp only; omega, by simp only; omega⟩ 1 (-E.toInt) (by simp only; omega)
    (by rw [hv, zpow_neg]; simp)
  refine ⟨r, hr, ?_, h3, h4, h5⟩
  rw [hvr, hv, zpow_neg, one_div]

/-! ## the specification on exact, tiny and huge values -/

/-- the member a nearest mode selects for `q` itself is no `GeneralViolation` for the target `q` -/
theorem exact_no_gv {m : Mode} (hn : isNearest m = true) (q : ℚ) (hq : 0 < q) :
    ¬ GeneralViolation ((q : ℚ) : ℝ) (Spec.flushOrRound m false q) := by
  have hqr : (0 : ℝ) < ((q : ℚ) : ℝ) := by exact_mod_cast hq
  have := nearest_real hn false hq hqr (by unfold Close; simp; exact hq.le)
  simpa using this

/-- below half the smallest positive Decimal a nearest mode gives `+0` -/
theorem round_small_zero {m : Mode} (hn : isNearest m = true) (q : ℚ) (hq : 0 < q)
    (hs : q < (10 : ℚ) ^ Spec.Emin / 2) : ∃ e', Spec.flushOrRound m false q = .fin false 0 e' := by
  by_cases htiny : q < (10 : ℚ) ^ (Spec.Emin - 1)
  · exact ⟨_, flushOrRound_tiny m false hq htiny⟩
  · rw [flushOrRound_eq_roundTo m false (not_lt.1 htiny)]
    have hpE : (0 : ℚ) < (10 : ℚ) ^ Spec.Emin := zpow_pos (by norm_num) _
    rcases roundTo_member m false q hq with hinf | ⟨c, e, hfin, -⟩
    · exfalso
      have := (roundTo_nearest_inf_iff hn false hq).1 hinf
      have h1 : (10 : ℚ) ^ Spec.Emin ≤ ((Spec.Cmax : ℚ) + 1 / 2) * (10 : ℚ) ^ Spec.Emax := by
        have h2 : (10 : ℚ) ^ Spec.Emin ≤ (10 : ℚ) ^ Spec.Emax :=
          zpow_le_zpow_right₀ (by norm_num) (by unfold Spec.Emin Spec.Emax; norm_num)
        have hC : (1 : ℚ) ≤ (Spec.Cmax : ℚ) + 1 / 2 := by
          have : (0 : ℚ) ≤ (Spec.Cmax : ℚ) := Nat.cast_nonneg _
          have : (1 : ℚ) ≤ (Spec.Cmax : ℚ) := by unfold Spec.Cmax; norm_num
          linarith
        have hpp : (0 : ℚ) < (10 : ℚ) ^ Spec.Emax := zpow_pos (by norm_num) _
        nlinarith
      linarith
    · obtain ⟨hn', -, he0, -, -, -⟩ := roundTo_fin hq hfin
      have hhalf := roundTo_nearest_half hn hq hfin
      have hsp : Spec.spacingExp q ≤ Spec.Emin := by
        apply spacing_le_of_lt hq (le_refl _)
        have hqr : ((q : ℚ) : ℝ) < (10 : ℝ) ^ Spec.Emin := by
          have : ((q : ℚ) : ℝ) < (((10 : ℚ) ^ Spec.Emin : ℚ) : ℝ) := by
            exact_mod_cast (lt_trans hs (by linarith))
          push_cast at this; exact this
        have hC := Cmax1_ge
        have hp : (0 : ℝ) < (10 : ℝ) ^ Spec.Emin := zpow_pos (by norm_num) _
        nlinarith
      have hpow : (10 : ℚ) ^ (Spec.spacingExp q) ≤ (10 : ℚ) ^ Spec.Emin :=
        zpow_le_zpow_right₀ (by norm_num) hsp
      have hle := (abs_le.1 hhalf).2
      -- c·10^e < 10^Emin ≤ 10^e
      have hce : (c : ℚ) * (10 : ℚ) ^ e < (10 : ℚ) ^ Spec.Emin := by linarith
      have hpe : (10 : ℚ) ^ Spec.Emin ≤ (10 : ℚ) ^ e := zpow_le_zpow_right₀ (by norm_num) he0
      have hpe0 : (0 : ℚ) < (10 : ℚ) ^ e := zpow_pos (by norm_num) _
      have hc0 : c = 0 := by
        by_contra hc
        have : (1 : ℚ) ≤ (c : ℚ) := by exact_mod_cast Nat.one_le_iff_ne_zero.2 hc
        nlinarith
      rw [hfin, hn', hc0]
      exact ⟨e, rfl⟩

/-- from `10^6146` on a nearest mode gives `+Inf` -/
theorem round_big_inf {m : Mode} (hn : isNearest m = true) (q : ℚ) (hq : (10 : ℚ) ^ (6146 : ℕ) ≤ q) :
    Spec.flushOrRound m false q = .inf false := by
  have hq0 : 0 < q := lt_of_lt_of_le (by positivity) hq
  have hge : (10 : ℚ) ^ (Spec.Emin - 1) ≤ q := by
    refine le_trans ?_ hq
    rw [← zpow_natCast]
    exact zpow_le_zpow_right₀ (by norm_num) (by unfold Spec.Emin; norm_num)
  rw [flushOrRound_eq_roundTo m false hge, roundTo_nearest_inf_iff hn false hq0]
  refine le_trans ?_ hq
  have e : (10 : ℚ) ^ (6146 : ℕ) = (10 : ℚ) ^ (35 : ℕ) * (10 : ℚ) ^ Spec.Emax := by
    unfold Spec.Emax
    rw [← zpow_natCast, ← zpow_natCast, ← zpow_add₀ (by norm_num)]; norm_num
  rw [e]
  apply mul_le_mul_of_nonneg_right _ (zpow_pos (by norm_num) _).le
  unfold Spec.Cmax; norm_num

theorem exp_nat_log (b : ℝ) (hb : 0 < b) (n : ℕ) : Real.exp ((n : ℝ) * Real.log b) = b ^ n := by
  rw [Real.exp_nat_mul, Real.exp_log hb]

theorem exp_neg_nat_log (b : ℝ) (hb : 0 < b) (n : ℕ) : Real.exp (-((n : ℝ) * Real.log b)) = 1 / b ^ n := by
  rw [Real.exp_neg, exp_nat_log b hb, one_div]

end ExpAcc
