/-
  D128/Proofs/LogAccScale.lean — the three normalising loops at the head of `decomposed192.log`
  (`LogAcc.logScale`) and the leading-digit extraction.

  * `logScale_spec` : `d.sig ≠ 0`, `-32000 ≤ d.exp` ⇒ `logScale d = .ok d1`, `val d1 = val d`, `25·2^184 ≤ d1.sig`,
                      `d1.exp = d.exp - a` with `a ≤ 57`
-/
import D128.Proofs.LogAccOps
set_option autoImplicit false
set_option maxRecDepth 4096
set_option linter.unusedVariables false
open Std.Do D128.Proofs.WordsWide
set_option mvcgen.warning false
namespace LogAcc
open Gen D192 Root

theorem logScale_triple (d : decomposed192) :
    ⦃⌜d.sig.toNat ≠ 0⌝⦄ logScale d
    ⦃⇓ x => ⌜ScUp d.sig.toNat d.exp x ∧ LIM ≤ x.sig.toNat⌝⦄ := by
  mvcgen [logScale]
  case inv1 | inv3 | inv5 => exact fun st => ⟨gap st.sig.toNat⟩
  case inv2 => exact ⇓ x => match x with
    | .inl st => ⌜ScUp d.sig.toNat d.exp st⌝
    | .inr st => ⌜ScUp d.sig.toNat d.exp st⌝
  case inv4 => exact ⇓ x => match x with
    | .inl st => ⌜ScUp d.sig.toNat d.exp st⌝
    | .inr st => ⌜ScUp d.sig.toNat d.exp st⌝
  case inv6 => exact ⇓ x => match x with
    | .inl st => ⌜ScUp d.sig.toNat d.exp st⌝
    | .inr st => ⌜ScUp d.sig.toNat d.exp st ∧ LIM ≤ st.sig.toNat⌝
  all_goals (simp +zetaDelta at *)
  case vc1 =>
    rename_i hD b mb _ _ hz hinv
    have hD1 : 1 ≤ d.sig.toNat := by omega
    exact vc_up _ _ 10000000000000000000 19 (by decide) (by norm_num) hD1 (fit19 _ hz) hinv
  case vc2 | vc5 => rename_i hinv; exact hinv.2
  case vc3 => exact ScUp.refl d
  case vc4 =>
    rename_i hD _ _ b mb _ _ hz hinv
    have hD1 : 1 ≤ d.sig.toNat := by omega
    exact vc_up _ _ 10000 4 (by decide) (by norm_num) hD1 (fit4 _ hz) hinv
  case vc6 | vc9 => assumption
  case vc7 =>
    rename_i hD _ _ _ _ b mb _ _ hz hinv
    have hD1 : 1 ≤ d.sig.toNat := by omega
    exact vc_up _ _ 10 1 (by decide) (by norm_num) hD1 (fit1 _ hz) hinv
  case vc8 =>
    rename_i hz hinv
    exact ⟨hinv.2, ge_LIM_of_not_le _ (by rw [UInt64.not_le]; exact hz)⟩
  case vc10 => assumption

/-- the normalising loops: value preserved, significand at least `25·2^184`. -/
theorem logScale_spec (d : decomposed192) (hd : d.sig.toNat ≠ 0) (he : -32000 ≤ d.exp.toInt) :
    ∃ (d1 : decomposed192) (a : Nat), logScale d = .ok d1 ∧ a ≤ 57 ∧ d1.sig.toNat = d.sig.toNat * 10 ^ a ∧
      d1.exp.toInt = d.exp.toInt - a ∧ val d1 = val d ∧ LIM ≤ d1.sig.toNat := by
  have h' : ⦃⌜True⌝⦄ logScale d ⦃⇓ x => ⌜ScUp d.sig.toNat d.exp x ∧ LIM ≤ x.sig.toNat⌝⦄ := by
    simpa [hd] using logScale_triple d
  obtain ⟨d1, hr, hsc, hL⟩ := ok_of_triple h'
  obtain ⟨a, ha, h1, h2⟩ := hsc.bounds (Nat.pos_of_ne_zero hd)
  have hka : (Int16.ofNat a).toInt = a := Int16.toInt_ofNat_of_lt (by omega)
  have hexp : d1.exp.toInt = d.exp.toInt - a := by
    rw [h2, Int16.toInt_sub_of] <;> rw [hka] <;> have := i16_bounds d.exp <;> omega
  refine ⟨d1, a, hr, ha, h1, hexp, ?_, hL⟩
  unfold val
  rw [h1, hexp, zpow_sub₀ (by norm_num), zpow_natCast]
  push_cast
  have : ((10 : ℚ) ^ a) ≠ 0 := pow_ne_zero _ (by norm_num)
  field_simp

end LogAcc

namespace LogAcc
open Gen D192 Root

theorem conv_log (k : Nat) (hk : k ≤ 57) (hki : (Int64.ofNat k).toInt = k) :
    ((Go.conv (Int64.ofNat k) : Int16)).toInt = k := by
  show (Int16.ofInt (Int64.ofNat k).toInt).toInt = k
  rw [hki, Int16.toInt_ofInt]
  have : (Int16.size : Int) = 65536 := rfl
  apply Int.bmod_eq_of_le <;> omega

/-- **The head of `log`**: decimal exponent, leading two digits, normalisation.  With `n = d.sig`,
`L = ⌊log₁₀ n⌋`: the argument is `val d = v·10^e0` with `v = val d1 = n·10^-L ∈ [1,10)`, `e0 = d.exp + L`,
and `M = ⌊10·v⌋ ∈ [10, 99]`. -/
theorem log_prefix (d : decomposed192) (hd : d.sig.toNat ≠ 0)
    (he : -16000 ≤ d.exp.toInt ∧ d.exp.toInt ≤ 16000) :
    ∃ (L : Nat) (M : Int64) (d1 : decomposed192) (e0 : Int16),
      Gen.decomposed192.log d = logMain e0 M d1 ∧
      L ≤ 57 ∧ e0.toInt = d.exp.toInt + L ∧ 10 ≤ M.toInt ∧ M.toInt ≤ 99 ∧
      val d = val d1 * (10 : ℚ) ^ e0.toInt ∧
      (M.toInt : ℚ) ≤ 10 * val d1 ∧ 10 * val d1 < (M.toInt : ℚ) + 1 ∧
      LIM ≤ d1.sig.toNat ∧ -57 ≤ d1.exp.toInt ∧ d1.exp.toInt ≤ -56 := by
  obtain ⟨L, hL, hlog, hLi, -, hLn⟩ := D128.Proofs.WordsWide.U192_log10_spec d.sig
  obtain ⟨h10a, h10b⟩ := hLn hd
  obtain ⟨m, hm, hm0, hm99, hmlt, hmge⟩ := D128.Proofs.WordsWide.U192_msd2_spec d.sig
  have hc := conv_log L hL hLi
  have hneg : (-(Go.conv (Int64.ofNat L) : Int16)).toInt = -(L : Int) := by
    rw [Int16.toInt_neg, hc]; apply Int.bmod_eq_of_le <;> omega
  have he0 : (d.exp + (Go.conv (Int64.ofNat L) : Int16)).toInt = d.exp.toInt + L := by
    rw [Int16.toInt_add_of] <;> rw [hc] <;> omega
  set d0 : decomposed192 := { sig := d.sig, exp := -(Go.conv (Int64.ofNat L) : Int16) } with hd0
  obtain ⟨d1, a, hsc, ha, hsig1, hexp1, hval1, hL1⟩ := logScale_spec d0 hd (by rw [hd0]; simp only; rw [hneg]; omega)
  have hv0 : val d0 = (d.sig.toNat : ℚ) * (10 : ℚ) ^ (-(L : Int)) := by
    unfold val; rw [hd0]; simp only; rw [hneg]
  refine ⟨L, if decide (m < 10) = true then m * 10 else m, d1, d.exp + (Go.conv (Int64.ofNat L) : Int16),
    ?_, hL, he0, ?_⟩
  · rw [log_eq, hlog, hm]
    simp only [bind, Except.bind]
    rw [hsc]
  -- the value
  have hvd : val d = val d1 * (10 : ℚ) ^ (d.exp + (Go.conv (Int64.ofNat L) : Int16)).toInt := by
    rw [hval1, hv0, he0]
    unfold val
    rw [mul_assoc, ← zpow_add₀ (by norm_num)]
    congr 2; ring
  have hn1 : (10 : ℚ) ^ L ≤ (d.sig.toNat : ℚ) := by exact_mod_cast h10a
  have hn2 : (d.sig.toNat : ℚ) < (10 : ℚ) ^ (L + 1) := by exact_mod_cast h10b
  have hpL : (0 : ℚ) < (10 : ℚ) ^ L := by positivity
  have hzL : (10 : ℚ) ^ (-(L : Int)) = ((10 : ℚ) ^ L)⁻¹ := by rw [zpow_neg, zpow_natCast]
  have hv1lo : 1 ≤ val d1 := by
    rw [hval1, hv0, hzL, ← div_eq_mul_inv, le_div_iff₀ hpL]; linarith
  have hv1hi : val d1 < 10 := by
    rw [hval1, hv0, hzL, ← div_eq_mul_inv, div_lt_iff₀ hpL]
    calc (d.sig.toNat : ℚ) < (10 : ℚ) ^ (L + 1) := hn2
      _ = 10 * 10 ^ L := by ring
  -- exponent of d1
  have hexp_hi : d1.exp.toInt ≤ -56 := by
    by_contra hcn
    have hge : -55 ≤ d1.exp.toInt := by omega
    have hp : (10 : ℚ) ^ (-55 : Int) ≤ (10 : ℚ) ^ d1.exp.toInt := zpow_le_zpow_right₀ (by norm_num) hge
    have hs : ((LIM : Nat) : ℚ) ≤ (d1.sig.toNat : ℚ) := by exact_mod_cast hL1
    have : ((LIM : Nat) : ℚ) * (10 : ℚ) ^ (-55 : Int) ≤ val d1 := by
      unfold val; exact mul_le_mul hs hp (zpow_pos (by norm_num) _).le (Nat.cast_nonneg _)
    have h2 : (10 : ℚ) < ((LIM : Nat) : ℚ) * (10 : ℚ) ^ (-55 : Int) := by
      unfold LIM; rw [zpow_neg]; norm_num
    linarith
  have hexp_lo : -57 ≤ d1.exp.toInt := by
    by_contra hcn
    have hle : d1.exp.toInt ≤ -58 := by omega
    have hp : (10 : ℚ) ^ d1.exp.toInt ≤ (10 : ℚ) ^ (-58 : Int) := zpow_le_zpow_right₀ (by norm_num) hle
    have hs : (d1.sig.toNat : ℚ) ≤ (2 : ℚ) ^ 192 := by
      have := U192.toNat_lt d1.sig
      exact_mod_cast this.le
    have : val d1 ≤ (2 : ℚ) ^ 192 * (10 : ℚ) ^ (-58 : Int) := by
      unfold val; exact mul_le_mul hs hp (zpow_pos (by norm_num) _).le (by positivity)
    have h2 : (2 : ℚ) ^ 192 * (10 : ℚ) ^ (-58 : Int) < 1 := by rw [zpow_neg]; norm_num
    linarith
  -- the leading digits
  have hM : 10 ≤ (if decide (m < 10) = true then m * 10 else m).toInt ∧
      (if decide (m < 10) = true then m * 10 else m).toInt ≤ 99 ∧
      (((if decide (m < 10) = true then m * 10 else m).toInt : Int) : ℚ) ≤ 10 * val d1 ∧
      10 * val d1 < (((if decide (m < 10) = true then m * 10 else m).toInt : Int) : ℚ) + 1 := by
    have h10i : (10 : Int64).toInt = 10 := by decide
    rcases Nat.lt_or_ge d.sig.toNat 10 with hlt | hge
    · -- single digit
      have hL0 : L = 0 := by
        by_contra hne
        have : 10 ^ 1 ≤ 10 ^ L := Nat.pow_le_pow_right (by norm_num) (by omega)
        omega
      subst hL0
      have hmn := hmlt hlt
      have hmlt' : m < 10 := by rw [Int64.lt_iff_toInt_lt, h10i]; omega
      simp only [hmlt', decide_true, if_true]
      have hmul : (m * 10).toInt = 10 * d.sig.toNat := by
        rw [Int64.toInt_mul, h10i, hmn]
        have : ((d.sig.toNat : Int) * 10).bmod (2 ^ 64) = (d.sig.toNat : Int) * 10 := by
          apply Int.bmod_eq_of_le <;> omega
        rw [this]; ring
      have hv : val d1 = (d.sig.toNat : ℚ) := by rw [hval1, hv0]; simp
      rw [hmul, hv]
      have hpos : 1 ≤ d.sig.toNat := Nat.pos_of_ne_zero hd
      refine ⟨by omega, by omega, ?_, ?_⟩
      · push_cast; linarith
      · push_cast; linarith
    · obtain ⟨hm10, hmv⟩ := hmge hge
      have hLeq : Nat.log 10 d.sig.toNat = L :=
        (Nat.log_eq_iff (Or.inr ⟨by norm_num, hd⟩)).mpr ⟨h10a, h10b⟩
      rw [hLeq] at hmv
      have hnlt : ¬ (m < 10) := by rw [Int64.lt_iff_toInt_lt, h10i]; omega
      simp only [hnlt, decide_false, Bool.false_eq_true, if_false]
      have hL1' : 1 ≤ L := by
        by_contra hne
        have : L = 0 := by omega
        subst this; simp at h10b; omega
      refine ⟨hm10, hm99, ?_, ?_⟩
      · rw [hmv, hval1, hv0, hzL]
        have hp1 : (0 : ℚ) < (10 : ℚ) ^ (L - 1) := by positivity
        have e10 : (10 : ℚ) ^ L = 10 * (10 : ℚ) ^ (L - 1) := by
          rw [← pow_succ']; congr 1; omega
        have hdm : d.sig.toNat / 10 ^ (L - 1) * 10 ^ (L - 1) ≤ d.sig.toNat := Nat.div_mul_le_self _ _
        have hdmq : ((d.sig.toNat / 10 ^ (L - 1) : Nat) : ℚ) * (10 : ℚ) ^ (L - 1) ≤ (d.sig.toNat : ℚ) := by
          exact_mod_cast hdm
        rw [e10]
        have : 10 * ((d.sig.toNat : ℚ) * (10 * (10 : ℚ) ^ (L - 1))⁻¹) = (d.sig.toNat : ℚ) / (10 : ℚ) ^ (L - 1) := by
          field_simp
        rw [this, le_div_iff₀ hp1]
        push_cast at hdmq ⊢
        exact hdmq
      · rw [hmv, hval1, hv0, hzL]
        have hp1 : (0 : ℚ) < (10 : ℚ) ^ (L - 1) := by positivity
        have e10 : (10 : ℚ) ^ L = 10 * (10 : ℚ) ^ (L - 1) := by
          rw [← pow_succ']; congr 1; omega
        have hdm : d.sig.toNat < (d.sig.toNat / 10 ^ (L - 1) + 1) * 10 ^ (L - 1) := by
          have := Nat.lt_div_mul_add (a := d.sig.toNat) (b := 10 ^ (L - 1)) (Nat.pow_pos (by norm_num))
          rw [add_mul, one_mul]; exact this
        have hdmq : (d.sig.toNat : ℚ) < (((d.sig.toNat / 10 ^ (L - 1) : Nat) : ℚ) + 1) * (10 : ℚ) ^ (L - 1) := by
          exact_mod_cast hdm
        rw [e10]
        have : 10 * ((d.sig.toNat : ℚ) * (10 * (10 : ℚ) ^ (L - 1))⁻¹) = (d.sig.toNat : ℚ) / (10 : ℚ) ^ (L - 1) := by
          field_simp
        rw [this, div_lt_iff₀ hp1]
        push_cast at hdmq ⊢
        exact hdmq
  exact ⟨hM.1, hM.2.1, hvd, hM.2.2.1, hM.2.2.2, hL1, hexp_lo, hexp_hi⟩

end LogAcc
