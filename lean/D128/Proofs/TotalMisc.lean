/-
  D128.Proofs.TotalMisc — totality for EVERY mode byte of the remaining small entry points (C20):
  `MulWithMode`, `Mul`, `New`, `Ldexp`, and the default-mode wrappers `Add`, `Sub`, `Quo`, `QuoRem`, `Pow`
  together with `PowWithMode` (now unconditional, via `QuoWithMode_total_all`).

  * `MulWithMode_total_all`, `Mul_total_all`   (loop-free; `reduce128/256` are entered with flag 0)
  * `New_total_all`, `Ldexp_total_all`         (`reduce64` is total; `reduce128` with flag 0)
  * `Add_total_all`, `Sub_total_all`, `Quo_total_all`, `QuoRem_total_all`
  * `PowWithMode_total_all`, `Pow_total_all`
-/
import D128.Proofs.TotalPow
import D128.Proofs.TotalQuo
import D128.Proofs.TotalAdd
import D128.Proofs.TotalQuoRem
set_option autoImplicit false
set_option mvcgen.warning false
set_option exponentiation.threshold 512
set_option maxRecDepth 16384
namespace D128.Proofs.Total
open Std.Do
open D128.Proofs.WordsWide

theorem MulWithMode_total_all (d o : Gen.Decimal) (mode : UInt8) :
    ∃ r, Gen.Decimal.MulWithMode d o mode = .ok r := by
  apply total_of_triple
  mvcgen -trivial [Gen.Decimal.MulWithMode]
  all_goals (simp +zetaDelta at *)

theorem Mul_total_all (g : Globals) (d o : Gen.Decimal) : ∃ r, Gen.Decimal.Mul g d o = .ok r := by
  obtain ⟨r, h⟩ := MulWithMode_total_all d o g.DefaultRoundingMode
  exact ⟨r, by simp [Gen.Decimal.Mul, h]⟩

theorem New_total_all (g : Globals) (sig exp : Int64) : ∃ r, Gen.New g sig exp = .ok r := by
  apply total_of_triple
  mvcgen -trivial [Gen.New]

theorem Ldexp_total_all (g : Globals) (d : Gen.Decimal) (exp : Int64) : ∃ r, Gen.Ldexp g d exp = .ok r := by
  apply total_of_triple
  mvcgen -trivial [Gen.Ldexp]
  all_goals (simp +zetaDelta at *)

theorem Add_total_all (g : Globals) (d o : Gen.Decimal) : ∃ r, Gen.Decimal.Add g d o = .ok r := by
  obtain ⟨r, h⟩ := AddWithMode_total_all d o g.DefaultRoundingMode
  exact ⟨r, by simp [Gen.Decimal.Add, h]⟩

theorem Sub_total_all (g : Globals) (d o : Gen.Decimal) : ∃ r, Gen.Decimal.Sub g d o = .ok r := by
  obtain ⟨r, h⟩ := SubWithMode_total_all d o g.DefaultRoundingMode
  exact ⟨r, by simp [Gen.Decimal.Sub, h]⟩

theorem Quo_total_all (g : Globals) (d o : Gen.Decimal) : ∃ r, Gen.Decimal.Quo g d o = .ok r := by
  obtain ⟨r, h⟩ := QuoWithMode_total_all d o g.DefaultRoundingMode
  exact ⟨r, by simp [Gen.Decimal.Quo, h]⟩

theorem QuoRem_total_all (g : Globals) (d o : Gen.Decimal) : ∃ r, Gen.Decimal.QuoRem g d o = .ok r := by
  obtain ⟨r, h⟩ := QuoRemWithMode_total_all d o g.DefaultRoundingMode
  exact ⟨r, by simp [Gen.Decimal.QuoRem, h]⟩

/-- `PowWithMode` for every pair of bit patterns and EVERY mode byte -/
theorem PowWithMode_total_all (d o : Gen.Decimal) (mode : UInt8) :
    ∃ r, Gen.Decimal.PowWithMode d o mode = .ok r :=
  PowWithMode_total_of d o mode (QuoWithMode_total_all _ d mode)

theorem Pow_total_all (g : Globals) (d o : Gen.Decimal) : ∃ r, Gen.Decimal.Pow g d o = .ok r := by
  obtain ⟨r, h⟩ := PowWithMode_total_all d o g.DefaultRoundingMode
  exact ⟨r, by simp [Gen.Decimal.Pow, h]⟩

end D128.Proofs.Total
