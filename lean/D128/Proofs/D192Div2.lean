/-
  D128/Proofs/D192Div2.lean — `uint192.div`, part 2: the branch with a two-word divisor and a
  two-word quotient (two Knuth digits), and the assembled specification.

  * `digit_ladder_gen`   : the correction ladder of one digit with arbitrary leaves
  * `two_digit`          : `V/U = (W/U)·2^64 + ((W%U)·2^64 + v0)/U` for `W = V/2^64`, `v0 = V%2^64`
  * `div_D`              : the two-digit branch satisfies `Post` — including the overflow case of the
                           second digit, where the Go code uses `r̂ = rem0` instead of Knuth's
                           `rem0 + u1` (digit may come out one too small; repaired by the final
                           compare-and-subtract)
  * `U192_div_spec`      : `o.toNat ≠ 0 → ∃ q r, Gen.U192.div n o = .ok (q, r) ∧ q = n / o ∧ r = n % o`
  * `U192_div_spec'`     : the same as `q·o + r = n ∧ r < o`
  * `U192_div_zero`      : division by zero panics with `divZero`
  * `U192_div_triple`    : `@[spec]` Hoare triple
-/
import D128.Proofs.D192Div
import D128.Proofs.RoundKernelCode
set_option autoImplicit false
set_option maxRecDepth 4096
set_option linter.unusedVariables false
set_option linter.unnecessarySeqFocus false
set_option linter.unusedTactic false
open Std.Do
namespace D192Div
open Gen Go.bits D128.Proofs.WordsWide

/-- the correction ladder of one Knuth digit with arbitrary leaves: each leaf may assume that the
digit it uses equals `Knuth.refine` of the inputs. -/
theorem digit_ladder_gen {α : Type} (P : α → Prop) (A B C D : α) (q ur u1 u0 v0 : UInt64)
    (hA : (q - 1 - 1).toNat = Knuth.refine u1.toNat u0.toNat v0.toNat q.toNat ur.toNat → P A)
    (hB : (q - 1).toNat = Knuth.refine u1.toNat u0.toNat v0.toNat q.toNat ur.toNat → P B)
    (hC : (q - 1).toNat = Knuth.refine u1.toNat u0.toNat v0.toNat q.toNat ur.toNat → P C)
    (hD : q.toNat = Knuth.refine u1.toNat u0.toNat v0.toNat q.toNat ur.toNat → P D) :
    P (if (decide ((Mul64 q u0).1 > ur) || (Mul64 q u0).1 == ur && decide ((Mul64 q u0).2 > v0)) = true then
        if ((Add64 ur u1 0).2 == 0) = true then
          if (decide ((Mul64 (q - 1) u0).1 > (Add64 ur u1 0).1) ||
              (Mul64 (q - 1) u0).1 == (Add64 ur u1 0).1 && decide ((Mul64 (q - 1) u0).2 > v0)) = true then A
          else B
        else C
      else D) := by
  obtain ⟨p1, p0, em, hm⟩ := mul64_spec q u0
  obtain ⟨s, k, ea, ha, hk⟩ := add64_spec ur u1 0 (by simp)
  obtain ⟨p1', p0', em', hm'⟩ := mul64_spec (q - 1) u0
  rw [em, ea, em']
  dsimp only
  have hur := ur.toNat_lt
  simp only [UInt64.toNat_zero, Nat.add_zero] at ha
  by_cases t1 : (decide (p1 > ur) || p1 == ur && decide (p0 > v0)) = true
  · rw [if_pos t1]
    have t1' := (test_iff _ _ _ _).mp t1
    rw [hm] at t1'
    have hq : q.toNat ≠ 0 := by intro h; rw [h] at t1'; simp at t1'
    have hq1 := u64_sub_one q hq
    rw [hq1] at hm'
    by_cases hc : (k == 0) = true
    · rw [if_pos hc]
      have hk0 : k.toNat = 0 := by rw [beq_iff_eq] at hc; rw [hc]; rfl
      have hs : s.toNat = ur.toNat + u1.toNat := by rw [hk0] at ha; omega
      have hlt : ur.toNat + u1.toNat < 2 ^ 64 := by rw [← hs]; exact s.toNat_lt
      by_cases t2 : (decide (p1' > s) || p1' == s && decide (p0' > v0)) = true
      · rw [if_pos t2]
        have t2' := (test_iff _ _ _ _).mp t2
        rw [hm', hs] at t2'
        have hq' : q.toNat - 1 ≠ 0 := by intro h; rw [h] at t2'; simp at t2'
        apply hA
        rw [u64_sub_one _ (by rw [hq1]; exact hq'), hq1]
        unfold Knuth.refine
        rw [if_pos t1', if_pos hlt, if_pos t2']
        omega
      · rw [if_neg t2]
        have t2' : ¬ _ := fun h => t2 ((test_iff _ _ _ _).mpr h)
        rw [hm', hs] at t2'
        apply hB
        rw [hq1]
        unfold Knuth.refine
        rw [if_pos t1', if_pos hlt, if_neg t2']
    · rw [if_neg hc]
      have hk1 : k.toNat = 1 := by
        have : k.toNat ≠ 0 := by
          intro h; apply hc; rw [beq_iff_eq]; exact UInt64.toNat_inj.mp (by simpa using h)
        omega
      have hge : ¬ ur.toNat + u1.toNat < 2 ^ 64 := by rw [hk1] at ha; omega
      apply hC
      rw [hq1]
      unfold Knuth.refine
      rw [if_pos t1', if_neg hge]
  · rw [if_neg t1]
    have t1' : ¬ _ := fun h => t1 ((test_iff _ _ _ _).mpr h)
    rw [hm] at t1'
    apply hD
    unfold Knuth.refine
    rw [if_neg t1']

theorem U256.w3_toNat (n : U256) : n.w3.toNat = n.toNat / 2 ^ 192 := by
  have := n.w0.toNat_lt; have := n.w1.toNat_lt; have := n.w2.toNat_lt
  simp only [U256.toNat]; omega

theorem U256.hi3_toNat (n : U256) :
    (U192.mk n.w1 n.w2 n.w3).toNat = n.toNat / 2 ^ 64 := by
  have := n.w0.toNat_lt
  simp only [U256.toNat, U192.toNat]; omega

theorem U256.w0_toNat (n : U256) : n.w0.toNat = n.toNat % 2 ^ 64 := by
  have := n.w0.toNat_lt
  simp only [U256.toNat]; omega

theorem hi_lt_mul (a b c : Nat) (hb : b < 2 ^ 64) (h : a < c) : a * 2 ^ 64 + b < c * 2 ^ 64 := by
  have : (a + 1) * 2 ^ 64 ≤ c * 2 ^ 64 := Nat.mul_le_mul_right _ h
  omega

theorem two_digit (V U W v0 : Nat) (hU : 0 < U) (hW : W = V / 2 ^ 64) (hv0 : v0 = V % 2 ^ 64) :
    V / U = (W / U) * 2 ^ 64 + ((W % U) * 2 ^ 64 + v0) / U := by
  have h1 := Nat.div_add_mod V (2 ^ 64)
  have h2 := Nat.div_add_mod W U
  rw [← hW, ← hv0] at h1
  have e : V = U * (W / U * 2 ^ 64) + ((W % U) * 2 ^ 64 + v0) := by
    rw [← h1]
    conv_lhs => rw [← h2]
    ring
  generalize W / U = a at *
  generalize W % U = b at *
  rw [e, Nat.mul_add_div hU]

theorem div_D (n o : U192) (h2 : (o.w2 == 0) = true) (h1 : ¬ (o.w1 == 0) = true) (hn : ¬ (n.w2 == 0) = true)
    (hlt : ¬ decide (n.w2 < o.w1) = true) :
    Post n o (Gen.U192.div n o) := by
  unfold Gen.U192.div
  rw [if_pos h2, if_neg h1]
  extract_lets +onlyGivenNames i u
  rw [if_neg hn, if_neg hlt]
  extract_lets +onlyGivenNames v
  obtain ⟨L, hL1, hL2, hi, hu, hu_ge, hu_lt, ho⟩ := norm2 o h2 h1
  have hu' : u.toNat = o.toNat * 2 ^ (64 - L) := hu
  have hi' : i.toNat = 64 - L := hi
  have hpos : 0 < 2 ^ (64 - L) := Nat.two_pow_pos _
  have hnlt := U192.toNat_lt n
  have h2i : (2 : Nat) ^ (64 - L) ≤ 2 ^ 63 := Nat.pow_le_pow_right (by norm_num) (by omega)
  have hv : v.toNat = n.toNat * 2 ^ (64 - L) := by
    show (U256.lsh (U256.mk n.w0 n.w1 n.w2 0) i).toNat = _
    have e : (U256.mk n.w0 n.w1 n.w2 0).toNat = n.toNat := by simp [U256.toNat, U192.toNat]
    rw [U256_lsh_toNat, hi', e, Nat.mod_eq_of_lt]
    calc n.toNat * 2 ^ (64 - L) < 2 ^ 192 * 2 ^ 63 := Nat.mul_lt_mul_of_lt_of_le hnlt h2i (by norm_num)
      _ ≤ 2 ^ 256 := by norm_num
  have hu2 : u.w2.toNat = 0 := by rw [U192.w2_toNat, hu']; omega
  have hu1 : u.w1.toNat = u.toNat / 2 ^ 64 := by rw [← U192.hi2_toNat, hu2]; omega
  have hu1_ge : 2 ^ 63 ≤ u.w1.toNat := by
    rw [hu1, hu', Nat.le_div_iff_mul_le (Nat.two_pow_pos _)]
    have : (2 : Nat) ^ 63 * 2 ^ 64 = 2 ^ 127 := by norm_num
    rw [this]; exact hu_ge
  have eU : u.w1.toNat * 2 ^ 64 + u.w0.toNat = u.toNat := by
    simp only [U192.toNat, hu2]; ring
  have hvu : v.w3.toNat < u.w1.toNat := by
    have : v.w3.toNat < 2 ^ 63 := by
      rw [U256.w3_toNat, hv, Nat.div_lt_iff_lt_mul (Nat.two_pow_pos _)]
      calc n.toNat * 2 ^ (64 - L) < 2 ^ 192 * 2 ^ 63 := Nat.mul_lt_mul_of_lt_of_le hnlt h2i (by norm_num)
        _ = 2 ^ 63 * 2 ^ 192 := by ring
    omega
  obtain ⟨q1, r1, e1, hq1, hr1⟩ := div64_spec v.w3 v.w2 u.w1 hvu
  rw [e1, ok_bind]
  simp -zeta only []
  zeta_except_jp
  extract_lets -underBinder +onlyGivenNames jp0
  have hW : (U192.mk v.w1 v.w2 v.w3).toNat = v.toNat / 2 ^ 64 := U256.hi3_toNat v
  have hjp0 : ∀ c a b : UInt64, c.toNat = (v.toNat / 2 ^ 64) / u.toNat → Post n o (jp0 () c a b) := by
    intro c a b hc
    simp -zeta only [jp0]
    zeta_except_jp
    extract_lets -underBinder +onlyGivenNames jp1
    have hjp1 : ∀ (r1' : UInt64) (rem' : U192), r1'.toNat = (v.toNat / 2 ^ 64) / u.toNat →
        rem'.toNat = (v.toNat / 2 ^ 64) % u.toNat → Post n o (jp1 () r1' rem') := by
      intro r1' rem' hr1' hrem'
      simp -zeta only [jp1]
      zeta_except_jp
      extract_lets -underBinder +onlyGivenNames jp2
      have hjp2 : ∀ ur r0 : UInt64,
          Knuth.refine u.w1.toNat u.w0.toNat v.w0.toNat r0.toNat ur.toNat
            ≤ (rem'.toNat * 2 ^ 64 + v.w0.toNat) / u.toNat →
          (rem'.toNat * 2 ^ 64 + v.w0.toNat) / u.toNat
            ≤ Knuth.refine u.w1.toNat u.w0.toNat v.w0.toNat r0.toNat ur.toNat + 1 →
          Post n o (jp2 () ur r0) := by
        intro ur r0 hX1 hX2
        simp -zeta only [jp2]
        zeta_except_jp
        extract_lets -underBinder +onlyGivenNames jp3
        have hjp3 : ∀ a b c d : UInt64,
            d.toNat ≤ (rem'.toNat * 2 ^ 64 + v.w0.toNat) / u.toNat →
            (rem'.toNat * 2 ^ 64 + v.w0.toNat) / u.toNat ≤ d.toNat + 1 →
            Post n o (jp3 () a b c d) := by
          intro a b c d hd1 hd2
          simp -zeta only [jp3]
          zeta_except_jp
          extract_lets -underBinder +onlyGivenNames jp4
          simp only [jp4]
          have hUpos : 0 < u.toNat := by omega
          have hQ : n.toNat / o.toNat = r1'.toNat * 2 ^ 64
              + (rem'.toNat * 2 ^ 64 + v.w0.toNat) / u.toNat := by
            have := two_digit v.toNat u.toNat (v.toNat / 2 ^ 64) v.w0.toNat hUpos rfl (U256.w0_toNat v)
            rw [← hr1', ← hrem', hv, hu', Nat.mul_div_mul_right _ _ hpos] at this
            rw [this, hu']
          have hr : (U192.mk d r1' 0).toNat = d.toNat + r1'.toNat * 2 ^ 64 := by
            simp [U192.toNat]
          exact fin_correct' n o (U192.mk d r1' 0) ho (by rw [hr, hQ]; omega) (by rw [hr, hQ]; omega)
        clear_value jp3
        apply digit_ladder_gen <;> intro hc <;> refine hjp3 _ _ _ _ ?_ ?_
        all_goals rw [hc]
        exacts [hX1, hX2, hX1, hX2, hX1, hX2, hX1, hX2]
      clear_value jp2
      have hUpos : 0 < u.toNat := by omega
      have hremlt : rem'.toNat < u.toNat := by rw [hrem']; exact Nat.mod_lt _ hUpos
      have hrem2 : rem'.w2.toNat = 0 := by
        rw [U192.w2_toNat]; rw [hu'] at hremlt; omega
      have eR : rem'.w1.toNat * 2 ^ 64 + rem'.w0.toNat = rem'.toNat := by
        simp only [U192.toNat, hrem2]; ring
      by_cases hsp : (rem'.w1 == u.w1) = true
      · rw [if_pos hsp]
        have hsp' : rem'.w1.toNat = u.w1.toNat := by rw [beq_iff_eq] at hsp; rw [hsp]
        have h0 : rem'.w0.toNat < u.w0.toNat := by rw [← eR, ← eU, hsp'] at hremlt; omega
        have hs := Knuth.special u.w1.toNat u.w0.toNat v.w0.toNat rem'.w0.toNat hu1_ge u.w1.toNat_lt
          u.w0.toNat_lt v.w0.toNat_lt h0
        have eR' : u.w1.toNat * 2 ^ 64 + rem'.w0.toNat = rem'.toNat := by rw [← hsp']; exact eR
        have e64 : (18446744073709551615 : UInt64).toNat = 2 ^ 64 - 1 := by decide
        rw [eR', eU, ← e64] at hs
        exact hjp2 _ _ hs.1 hs.2
      · rw [if_neg hsp]
        have hsp' : rem'.w1.toNat ≠ u.w1.toNat := by
          intro h; apply hsp; rw [beq_iff_eq]; exact UInt64.toNat_inj.mp h
        have hlt1 : rem'.w1.toNat < u.w1.toNat := by
          rw [← eR, ← eU] at hremlt
          have := rem'.w0.toNat_lt; have := u.w0.toNat_lt
          omega
        obtain ⟨q2, r2, e2, hq2, hr2⟩ := div64_spec rem'.w1 rem'.w0 u.w1 hlt1
        rw [e2, ok_bind]
        have hdm2 := (Nat.div_mod_unique (a := rem'.w1.toNat * 2 ^ 64 + rem'.w0.toNat) (b := u.w1.toNat)
          (d := q2.toNat) (c := r2.toNat) (by omega)).mpr ⟨by rw [← hq2]; ring, hr2⟩
        have href2 : Knuth.refine u.w1.toNat u.w0.toNat v.w0.toNat q2.toNat r2.toNat
            = (rem'.toNat * 2 ^ 64 + v.w0.toNat) / u.toNat := by
          rw [← hdm2.1, ← hdm2.2, Knuth.refine_eq _ _ _ _ hu1_ge u.w1.toNat_lt u.w0.toNat_lt
            v.w0.toNat_lt (hi_lt_mul _ _ _ rem'.w0.toNat_lt hlt1), eU, eR]
        exact hjp2 r2 q2 (by rw [href2]) (by rw [href2]; exact Nat.le_succ _)
    clear_value jp1
    have hUpos : 0 < u.toNat := by omega
    have hdmW := Nat.div_add_mod (v.toNat / 2 ^ 64) u.toNat
    have hmodW := Nat.mod_lt (v.toNat / 2 ^ 64) hUpos
    have hWlt : v.toNat / 2 ^ 64 < 2 ^ 192 := by rw [← hW]; exact U192.toNat_lt _
    have hmul : (U192.mul64 u c).toNat = u.toNat * c.toNat := by
      apply U192_mul64_toNat_of_lt
      rw [hc]
      have := Nat.mul_div_le (v.toNat / 2 ^ 64) u.toNat
      omega
    have hsub : (U192.sub (U192.mk v.w1 v.w2 v.w3) (U192.mul64 u c)).1.toNat
        = (v.toNat / 2 ^ 64) % u.toNat := by
      rw [U192_sub_toNat_of_le _ _ (by rw [hmul, hW, hc]; exact Nat.mul_div_le _ _), hmul, hW, hc]
      omega
    rw [if_neg (by
      rw [decide_eq_true_eq]; intro h
      have := (U192_cmp_ge_zero _ _).mp h
      rw [hsub] at this; omega)]
    exact hjp1 c _ hc hsub
  clear_value jp0
  have hdm := (Nat.div_mod_unique (a := v.w3.toNat * 2 ^ 64 + v.w2.toNat) (b := u.w1.toNat)
    (d := q1.toNat) (c := r1.toNat) (by omega)).mpr ⟨by rw [← hq1]; ring, hr1⟩
  have href : Knuth.refine u.w1.toNat u.w0.toNat v.w1.toNat q1.toNat r1.toNat
      = (v.toNat / 2 ^ 64) / u.toNat := by
    have e : (v.w3.toNat * 2 ^ 64 + v.w2.toNat) * 2 ^ 64 + v.w1.toNat
        = (U192.mk v.w1 v.w2 v.w3).toNat := by simp only [U192.toNat]; ring
    rw [← hdm.1, ← hdm.2, Knuth.refine_eq _ _ _ _ hu1_ge u.w1.toNat_lt u.w0.toNat_lt v.w1.toNat_lt
      (hi_lt_mul _ _ _ v.w2.toNat_lt hvu), eU, e, hW]
  apply digit_ladder_gen <;> intro hc <;> apply hjp0 <;> rw [hc] <;> exact href


end D192Div

open D192Div in
/-- `uint192.div` (general 192-by-192 division, all five branches): for a non-zero divisor it never
panics (no `Div64` overflow or division by zero) and returns exactly quotient and remainder. -/
theorem U192_div_spec (n o : U192) (ho : o.toNat ≠ 0) :
    ∃ q r, Gen.U192.div n o = .ok (q, r)
      ∧ q.toNat = n.toNat / o.toNat ∧ r.toNat = n.toNat % o.toNat := by
  by_cases h2 : (o.w2 == 0) = true
  · by_cases h1 : (o.w1 == 0) = true
    · exact div_A n o h2 h1 ho
    · by_cases hn : (n.w2 == 0) = true
      · exact div_B n o h2 h1 hn
      · by_cases hlt : decide (n.w2 < o.w1) = true
        · exact div_C n o h2 h1 hn hlt
        · exact div_D n o h2 h1 hn hlt
  · exact div_E n o h2

/-- the Euclidean form: `q·o + r = n ∧ r < o`. -/
theorem U192_div_spec' (n o : U192) (ho : o.toNat ≠ 0) :
    ∃ q r, Gen.U192.div n o = .ok (q, r)
      ∧ q.toNat * o.toNat + r.toNat = n.toNat ∧ r.toNat < o.toNat := by
  obtain ⟨q, r, e, hq, hr⟩ := U192_div_spec n o ho
  refine ⟨q, r, e, ?_, ?_⟩
  · rw [hq, hr, Nat.mul_comm]; exact Nat.div_add_mod _ _
  · rw [hr]; exact Nat.mod_lt _ (Nat.pos_of_ne_zero ho)

/-- dividing by zero panics with Go's integer-divide-by-zero (from `bits.Div64`). -/
theorem U192_div_zero (n o : U192) (ho : o.toNat = 0) :
    Gen.U192.div n o = .error .divZero := by
  have hb := D128.Proofs.WordsWide.U192.bounds o
  have h0 : o.w0 = 0 := by
    apply UInt64.toNat_inj.mp; simp only [U192.toNat] at ho; simp; omega
  have h1 : o.w1 = 0 := by
    apply UInt64.toNat_inj.mp; simp only [U192.toNat] at ho; simp; omega
  have h2 : o.w2 = 0 := by
    apply UInt64.toNat_inj.mp; simp only [U192.toNat] at ho; simp; omega
  unfold Gen.U192.div
  rw [if_pos (by rw [h2]; rfl), if_pos (by rw [h1]; rfl), h0]
  have hlt : ¬ decide (n.w2 < (0 : UInt64)) = true := by simp
  simp -zeta only []
  rw [if_neg hlt]
  rfl

/-- the hypothesis of `U192_div_spec` is satisfiable on a non-trivial input (two-word divisor,
two-word quotient): `(2^192 - 1) / (2^64 + 3)`. -/
example := U192_div_spec ⟨18446744073709551615, 18446744073709551615, 18446744073709551615⟩ ⟨3, 1, 0⟩
  (by decide)

@[spec] theorem U192_div_triple (n o : U192) :
    ⦃⌜o.toNat ≠ 0⌝⦄ Gen.U192.div n o
    ⦃⇓ x => ⌜x.1.toNat = n.toNat / o.toNat ∧ x.2.toNat = n.toNat % o.toNat⌝⦄ := by
  by_cases ho : o.toNat ≠ 0
  · obtain ⟨q, r, e, hq, hr⟩ := U192_div_spec n o ho
    have := Go.triple_of_ok e
      (Q := fun x => x.1.toNat = n.toNat / o.toNat ∧ x.2.toNat = n.toNat % o.toNat) ⟨hq, hr⟩
    simpa [ho] using this
  · simp [Triple, ho]
