/-
  D128/Proofs/FloatFromTop.lean — `Gen.FromFloat64` / `Gen.FromFloat32` in terms of the value of the float.

  Provided (namespace `FF`):
  * `fromFloat64_nan`, `fromFloat64_inf`, `fromFloat64_zero` : the special classes
  * `fromFloat64_finite` : finite non-zero `f`: no panic, the result denotes `flushOrRoundS m f.sign a 0` for some
      `a` with `Close a f.mag`, and `a = f.mag` unless `Hardish f.mag`
-/
import D128.Proofs.FloatFromMain
import D128.Proofs.FloatSpecRound

set_option autoImplicit false
set_option maxRecDepth 8192

namespace FF
open Gen Go
local notation "𝔳[" d "]" => Spec.interp (Gen.Decimal.lo d) (Gen.Decimal.hi d)

theorem shr52 (b : UInt64) : Go.shr b 52 = b >>> 52 := by
  simp [Go.shr, GoShift.shr]

theorem expI_toInt (f : F64) :
    (Go.conv (Go.shr (Go.math.Float64bits f) 52 &&& 2047) : Int16).toInt = f.expField := by
  have h := f.expField_lt
  rw [shr52]
  rw [Enc.conv_u64_i16]
  · rfl
  · show f.expField < 2 ^ 15
    omega

theorem isInf0 (f : F64) : Go.math.IsInf f 0 = f.isInf := by
  unfold Go.math.IsInf
  cases f.isInf <;> cases f.sign <;> rfl

theorem feq_zero (f : F64) (hn : f.isNaN = false) : f.feq { bits := 0 } = f.isZero := by
  unfold F64.feq
  rw [hn]
  have h0 : (F64.mk 0).isNaN = false := by decide
  have h1 : (F64.mk 0).isZero = true := by decide
  rw [h0, h1]
  simp only [Bool.not_false, Bool.true_and, Bool.and_true]
  by_cases hb : f.bits = 0
  · have : f = ⟨0⟩ := by cases f; simp_all
    subst this; decide
  · have : (f.bits == 0) = false := by simpa using hb
    rw [this]; simp

theorem signbit_eq (f : F64) : (Go.math.Float64bits f &&& 9223372036854775808 != 0) = f.sign := by
  rw [F64.sign_eq]
  show (f.bits &&& 9223372036854775808 != 0) = _
  rw [u64_ne_zero_iff', UInt64.toNat_and]
  have h63 : (9223372036854775808 : UInt64).toNat = 2 ^ 63 := by decide
  rw [h63]
  have hlt := f.bits.toNat_lt
  have h1 : (f.bits.toNat &&& 2 ^ 63) / 2 ^ 63 = f.bits.toNat / 2 ^ 63 % 2 := by
    rw [Nat.and_div_two_pow, Nat.div_self (by positivity), Nat.and_one_is_mod]
  have h2 : (f.bits.toNat &&& 2 ^ 63) % 2 ^ 63 = 0 := by
    rw [Nat.and_mod_two_pow, Nat.mod_self, Nat.and_zero]
  generalize f.bits.toNat &&& 2 ^ 63 = y at h1 h2
  rw [decide_eq_decide]
  omega

theorem mant_or (f : F64) :
    (Go.math.Float64bits f &&& 4503599627370495 ||| 4503599627370496).toNat = 2 ^ 52 + f.mantField := by
  have h := f.mantField_lt
  rw [UInt64.or_comm, UInt64.toNat_or_of_disjoint _ _ 52 (by decide) (by exact h)]
  rfl

theorem fromFloat64_nan (g : Globals) (f : F64) (h : f.isNaN = true) :
    Gen.FromFloat64 g f = .ok (nan 3 0 0) := by
  rw [fromFloat64_eq]
  have : Go.math.IsNaN f = true := h
  rw [if_pos this]; rfl

theorem fromFloat64_inf (g : Globals) (f : F64) (h : f.isInf = true) :
    Gen.FromFloat64 g f = .ok (inf f.sign) := by
  have hn : f.isNaN = false := by
    unfold F64.isInf at h; unfold F64.isNaN
    simp only [Bool.and_eq_true, beq_iff_eq] at h
    simp [h.1, h.2]
  rw [fromFloat64_eq]
  have h1 : ¬ Go.math.IsNaN f = true := by show ¬ f.isNaN = true; rw [hn]; simp
  rw [if_neg h1, if_pos (by rw [isInf0]; exact h)]; rfl

theorem fromFloat64_zero (g : Globals) (f : F64) (h : f.isZero = true) :
    Gen.FromFloat64 g f = .ok (zero f.sign) := by
  have he : f.expField = 0 := by
    unfold F64.isZero at h; simp only [Bool.and_eq_true, beq_iff_eq] at h; exact h.1
  have hn : f.isNaN = false := by unfold F64.isNaN; simp [he]
  have hi : f.isInf = false := by unfold F64.isInf; simp [he]
  rw [fromFloat64_eq]
  have h1 : ¬ Go.math.IsNaN f = true := by show ¬ f.isNaN = true; rw [hn]; simp
  rw [if_neg h1, if_neg (by rw [isInf0, hi]; simp), if_pos (by rw [feq_zero f hn]; exact h)]; rfl

theorem fromFloat64_finite (g : Globals) (f : F64) (m : Spec.Mode)
    (hm : Spec.Mode.ofNat? g.DefaultRoundingMode.toNat = some m)
    (hfin : f.isFinite = true) (hnz : f.isZero = false) :
    ∃ r a, Gen.FromFloat64 g f = .ok r ∧
      (𝔳[r]).same (Spec.flushOrRoundS m f.sign a 0) = true ∧
      Close a f.mag ∧ (a = f.mag ∨ Hardish f.mag) := by
  have he : f.expField ≠ 2047 := by
    unfold F64.isFinite at hfin; simpa using hfin
  have helt := f.expField_lt
  have hmlt := f.mantField_lt
  have hn : f.isNaN = false := by unfold F64.isNaN; simp [he]
  have hi : f.isInf = false := by unfold F64.isInf; simp [he]
  rw [fromFloat64_eq]
  have h1 : ¬ Go.math.IsNaN f = true := by show ¬ f.isNaN = true; rw [hn]; simp
  rw [if_neg h1, if_neg (by rw [isInf0, hi]; simp), if_neg (by rw [feq_zero f hn, hnz]; simp),
    signbit_eq]
  have hmant : (Go.math.Float64bits f &&& 4503599627370495).toNat = f.mantField := rfl
  by_cases h0 : f.expField = 0
  · -- subnormal
    have hc : (Go.conv (Go.shr (Go.math.Float64bits f) 52 &&& 2047) == (0 : Int16)) = true := by
      rw [beq_iff_eq, ← Int16.toInt_inj, expI_toInt, h0]; rfl
    rw [if_pos hc]
    have hmnz : f.mantField ≠ 0 := by
      intro hz
      unfold F64.isZero at hnz
      simp [h0, hz] at hnz
    have hmag : f.mag = (f.mantField : ℚ) * 2 ^ ((-1022 : Int16).toInt - 52) := by
      unfold F64.mag F64.dyadic
      simp only [h0, beq_self_eq_true, if_true]
      have : (-1022 : Int16).toInt - 52 = -1074 := by decide
      rw [this]
    rw [hmag, ← hmant]
    exact core_spec _ m hm f.sign _ (-1022) (by decide) (by decide) (by rw [hmant]; omega)
      (by rw [hmant]; omega) (fun h => absurd h (by decide))
  · have hc : ¬ (Go.conv (Go.shr (Go.math.Float64bits f) 52 &&& 2047) == (0 : Int16)) = true := by
      rw [beq_iff_eq, ← Int16.toInt_inj, expI_toInt]
      show ¬ (f.expField : Int) = 0
      omega
    rw [if_neg hc]
    have hexp : ((Go.conv (Go.shr (Go.math.Float64bits f) 52 &&& 2047) : Int16) - 1023).toInt
        = (f.expField : Int) - 1023 := by
      have h1023 : (1023 : Int16).toInt = 1023 := by decide
      rw [Int16.toInt_sub_of] <;> rw [expI_toInt, h1023] <;> omega
    have hmag : f.mag = ((2 ^ 52 + f.mantField : Nat) : ℚ) * 2 ^ (((f.expField : Int) - 1023) - 52) := by
      unfold F64.mag F64.dyadic
      have : (f.expField == 0) = false := by simpa using h0
      simp only [this, Bool.false_eq_true, if_false]
      congr 2
      ring
    rw [hmag, ← hexp, ← mant_or]
    exact core_spec _ m hm f.sign _ _ (by rw [hexp]; omega) (by rw [hexp]; omega)
      (by rw [mant_or]; omega) (by rw [mant_or]; omega) (fun _ => by rw [mant_or]; omega)

end FF
