/-
  Stage decomposition of the generated comparison routines.

  The generated `Gen.Decimal.Cmp`, `Gen.Decimal.CmpAbs` and `Gen.Decimal.Equal` are single long
  `do` blocks.  To reason about them stage by stage we name the continuations ("join points") of the
  generated term:  `step128`, `step64`, `fin128`, `fin64`, `sw128`, `sw64`, `tail64`, `tail`,
  `core`, `coreAbs` (and the `e…` variants for `Equal`).  These are NOT models of the Go code that
  anything is proved "instead of"; each is tied to the generated definition by a theorem proved by
  `rfl` (definitional unfolding):

  * `Cmp_eq`    : `Gen.Decimal.Cmp d o    = cmpStaged d o`
  * `CmpAbs_eq` : `Gen.Decimal.CmpAbs d o = cmpAbsStaged d o`
  * `Equal_eq`  : `Gen.Decimal.Equal d o  = equalStaged d o`

  If the generated code changes, these `rfl` proofs break.
-/
import D128.Gen.Compare2
set_option autoImplicit false
set_option linter.unusedVariables false
set_option maxRecDepth 4096

namespace CmpPf
open Gen

/-! ## Cmp / CmpAbs: the common tail -/

/-- `(q, r) ← dv oSig; if q == 0 { return res }; if r != 0 { trunc = true }; k q trunc` -/
def step128 (dv : U128 → Go.GoM (U128 × UInt64)) (oSig : U128) (trunc : Bool) (res : Int8)
    (k : U128 → Bool → Go.GoM Int8) : Go.GoM Int8 := do
  let (q, r) ← dv oSig
  if ((q.w0 ||| q.w1) == (0 : UInt64)) then
    return res
  if (r != (0 : UInt64)) then k q true else k q trunc

/-- `if o % P != 0 { trunc = true }; o /= P; if o == 0 { return res }; k o trunc` -/
def step64 (P : UInt64) (o : UInt64) (trunc : Bool) (res : Int8)
    (k : UInt64 → Bool → Go.GoM Int8) : Go.GoM Int8 :=
  if ((o % P) != (0 : UInt64)) then
    (if ((o / P) == (0 : UInt64)) then pure res else k (o / P) true)
  else
    (if ((o / P) == (0 : UInt64)) then pure res else k (o / P) trunc)

def fin128 (dSig oSig : U128) (trunc : Bool) (res : Int8) : Go.GoM Int8 := do
  let mut sres : Int64 := (U128.cmp dSig oSig)
  if (sres == (0 : Int64)) then
    if trunc then
      return (res * (-1 : Int8))
    return (0 : Int8)
  if (res == (-1 : Int8)) then
    return (Go.conv (sres * (-1 : Int64)) : Int8)
  return (Go.conv sres : Int8)

def fin64 (dSig : U128) (oSig64 : UInt64) (trunc : Bool) (res : Int8) : Go.GoM Int8 := do
  if (dSig.w0 == oSig64) then
    if trunc then
      return (res * (-1 : Int8))
    return (0 : Int8)
  if (decide (dSig.w0 < oSig64)) then
    return (res * (-1 : Int8))
  return res

/-- the `switch exp` of the 128-bit path, followed by the final comparison -/
def sw128 (dSig oSig : U128) (exp : Int16) (trunc : Bool) (res : Int8) : Go.GoM Int8 :=
  if (exp == (7 : Int16)) then
    step128 U128.div10 oSig trunc res fun q t =>
    step128 U128.div1000 q t res fun q t =>
    step128 U128.div1000 q t res fun q t => fin128 dSig q t res
  else if (exp == (6 : Int16)) then
    step128 U128.div1000 oSig trunc res fun q t =>
    step128 U128.div1000 q t res fun q t => fin128 dSig q t res
  else if (exp == (5 : Int16)) then
    step128 U128.div10 oSig trunc res fun q t =>
    step128 U128.div10000 q t res fun q t => fin128 dSig q t res
  else if (exp == (4 : Int16)) then
    step128 U128.div10000 oSig trunc res fun q t => fin128 dSig q t res
  else if (exp == (3 : Int16)) then
    step128 U128.div1000 oSig trunc res fun q t => fin128 dSig q t res
  else if (exp == (2 : Int16)) then
    step128 U128.div10 oSig trunc res fun q t =>
    step128 U128.div10 q t res fun q t => fin128 dSig q t res
  else if (exp == (1 : Int16)) then
    step128 U128.div10 oSig trunc res fun q t => fin128 dSig q t res
  else fin128 dSig oSig trunc res

/-- the `switch exp` of the 64-bit path, followed by the final comparison -/
def sw64 (dSig : U128) (o : UInt64) (exp : Int16) (trunc : Bool) (res : Int8) : Go.GoM Int8 :=
  if (exp == (7 : Int16)) then step64 10000000 o trunc res fun q t => fin64 dSig q t res
  else if (exp == (6 : Int16)) then step64 1000000 o trunc res fun q t => fin64 dSig q t res
  else if (exp == (5 : Int16)) then step64 100000 o trunc res fun q t => fin64 dSig q t res
  else if (exp == (4 : Int16)) then step64 10000 o trunc res fun q t => fin64 dSig q t res
  else if (exp == (3 : Int16)) then step64 1000 o trunc res fun q t => fin64 dSig q t res
  else if (exp == (2 : Int16)) then step64 100 o trunc res fun q t => fin64 dSig q t res
  else if (exp == (1 : Int16)) then step64 10 o trunc res fun q t => fin64 dSig q t res
  else fin64 dSig o trunc res

/-- 64-bit path after the test `dSig[1] != 0` -/
def tail64 (dSig : U128) (o : UInt64) (exp : Int16) (trunc : Bool) (res : Int8) : Go.GoM Int8 :=
  if (decide (exp ≥ (8 : Int16))) then
    step64 100000000 o trunc res fun q t => sw64 dSig q (exp - (8 : Int16)) t res
  else sw64 dSig o exp trunc res

/-- after the first `div1e8` stage -/
def tail2 (dSig oSig : U128) (exp : Int16) (trunc : Bool) (res : Int8) : Go.GoM Int8 :=
  if (oSig.w1 == (0 : UInt64)) then
    if (dSig.w1 != (0 : UInt64)) then pure res
    else tail64 dSig oSig.w0 exp trunc res
  else
    if (decide (exp ≥ (8 : Int16))) then
      step128 U128.div1e8 oSig trunc res fun q t => sw128 dSig q (exp - (8 : Int16)) t res
    else sw128 dSig oSig exp trunc res

/-- everything from the first `if exp >= 8` on (identical text in `Cmp` and `CmpAbs`) -/
def tail (dSig oSig : U128) (exp : Int16) (trunc : Bool) (res : Int8) : Go.GoM Int8 :=
  if (decide (exp ≥ (8 : Int16))) then
    step128 U128.div1e8 oSig trunc res fun q t => tail2 dSig q (exp - (8 : Int16)) t res
  else tail2 dSig oSig exp trunc res

/-! ## Cmp: exponent alignment -/

/-- `Cmp` from `exp := dExp - oExp` on, with `res` already chosen from the sign -/
def core (dSig oSig : U128) (dExp oExp : Int16) (res : Int8) : Go.GoM Int8 :=
  if (decide ((dExp - oExp) < (0 : Int16))) then
    if (decide ((U128.cmp oSig dSig) ≥ (0 : Int64))) then pure (res * (-1 : Int8))
    else if (decide ((dExp - oExp) ≤ (-19 : Int16))) then
      if (decide ((dExp - oExp) < (-35 : Int16))) then pure (res * (-1 : Int8))
      else do
        let (q, r) ← U128.div1e19 dSig
        if ((q.w0 ||| q.w1) == (0 : UInt64)) then
          return (res * (-1 : Int8))
        if (r != (0 : UInt64)) then
          tail oSig q (((dExp - oExp) + (19 : Int16)) * (-1 : Int16)) true (res * (-1 : Int8))
        else
          tail oSig q (((dExp - oExp) + (19 : Int16)) * (-1 : Int16)) false (res * (-1 : Int8))
    else tail oSig dSig ((dExp - oExp) * (-1 : Int16)) false (res * (-1 : Int8))
  else
    if (decide ((dExp - oExp) > (0 : Int16))) then
      if (decide ((U128.cmp dSig oSig) ≥ (0 : Int64))) then pure res
      else if (decide ((dExp - oExp) ≥ (19 : Int16))) then
        if (decide ((dExp - oExp) > (35 : Int16))) then pure res
        else do
          let (q, r) ← U128.div1e19 oSig
          if ((q.w0 ||| q.w1) == (0 : UInt64)) then
            return res
          if (r != (0 : UInt64)) then
            tail dSig q ((dExp - oExp) - (19 : Int16)) true res
          else
            tail dSig q ((dExp - oExp) - (19 : Int16)) false res
      else tail dSig oSig (dExp - oExp) false res
    else tail dSig oSig (dExp - oExp) false res

/-- `Cmp` with the stages named -/
def cmpStaged (d o : Decimal) : Go.GoM Int8 := do
  if ((Decimal.isSpecial d) || (Decimal.isSpecial o)) then
    if ((Decimal.IsNaN d) || (Decimal.IsNaN o)) then
      return (-2 : Int8)
    if (Decimal.isInf d) then
      let mut neg : Bool := (Decimal.Signbit d)
      if ((Decimal.isInf o) && (neg == (Decimal.Signbit o))) then
        return (0 : Int8)
      if neg then
        return (-1 : Int8)
      return (1 : Int8)
    if (Decimal.isInf o) then
      if (Decimal.Signbit o) then
        return (1 : Int8)
      return (-1 : Int8)
  if (d == o) then
    return (0 : Int8)
  let (r_1, r_2) := Decimal.decompose d
  let mut dSig : U128 := r_1
  let mut dExp : Int16 := r_2
  if ((dSig.w0 ||| dSig.w1) == (0 : UInt64)) then
    if (Decimal.IsZero o) then
      return (0 : Int8)
    if (Decimal.Signbit o) then
      return (1 : Int8)
    return (-1 : Int8)
  let (r_3, r_4) := Decimal.decompose o
  let mut oSig : U128 := r_3
  let mut oExp : Int16 := r_4
  if ((oSig.w0 ||| oSig.w1) == (0 : UInt64)) then
    if (Decimal.Signbit d) then
      return (-1 : Int8)
    return (1 : Int8)
  let mut neg_1 : Bool := (Decimal.Signbit d)
  if (neg_1 != (Decimal.Signbit o)) then
    if neg_1 then
      return (-1 : Int8)
    return (1 : Int8)
  if neg_1 then
    core dSig oSig dExp oExp (-1 : Int8)
  else
    core dSig oSig dExp oExp (1 : Int8)

theorem Cmp_eq (d o : Decimal) : Gen.Decimal.Cmp d o = cmpStaged d o := rfl

/-! ## CmpAbs -/

def coreAbs (dSig oSig : U128) (dExp oExp : Int16) : Go.GoM Int8 :=
  if (decide ((dExp - oExp) < (0 : Int16))) then
    if (decide ((U128.cmp oSig dSig) ≥ (0 : Int64))) then pure (-1 : Int8)
    else if (decide ((dExp - oExp) ≤ (-19 : Int16))) then
      if (decide ((dExp - oExp) < (-35 : Int16))) then pure (-1 : Int8)
      else do
        let (q, r) ← U128.div1e19 dSig
        if ((q.w0 ||| q.w1) == (0 : UInt64)) then
          return (-1 : Int8)
        if (r != (0 : UInt64)) then
          tail oSig q (((dExp - oExp) + (19 : Int16)) * (-1 : Int16)) true (-1 : Int8)
        else
          tail oSig q (((dExp - oExp) + (19 : Int16)) * (-1 : Int16)) false (-1 : Int8)
    else tail oSig dSig ((dExp - oExp) * (-1 : Int16)) false (-1 : Int8)
  else
    if (decide ((dExp - oExp) > (0 : Int16))) then
      if (decide ((U128.cmp dSig oSig) ≥ (0 : Int64))) then pure (1 : Int8)
      else if (decide ((dExp - oExp) ≥ (19 : Int16))) then
        if (decide ((dExp - oExp) > (35 : Int16))) then pure (1 : Int8)
        else do
          let (q, r) ← U128.div1e19 oSig
          if ((q.w0 ||| q.w1) == (0 : UInt64)) then
            return (1 : Int8)
          if (r != (0 : UInt64)) then
            tail dSig q ((dExp - oExp) - (19 : Int16)) true (1 : Int8)
          else
            tail dSig q ((dExp - oExp) - (19 : Int16)) false (1 : Int8)
      else tail dSig oSig (dExp - oExp) false (1 : Int8)
    else tail dSig oSig (dExp - oExp) false (1 : Int8)

def cmpAbsStaged (d o : Decimal) : Go.GoM Int8 := do
  if ((Decimal.isSpecial d) || (Decimal.isSpecial o)) then
    if ((Decimal.IsNaN d) || (Decimal.IsNaN o)) then
      return (-2 : Int8)
    if (Decimal.isInf d) then
      if (Decimal.isInf o) then
        return (0 : Int8)
      return (1 : Int8)
    if (Decimal.isInf o) then
      return (-1 : Int8)
  if (d == o) then
    return (0 : Int8)
  let (r_1, r_2) := Decimal.decompose d
  let mut dSig : U128 := r_1
  let mut dExp : Int16 := r_2
  if ((dSig.w0 ||| dSig.w1) == (0 : UInt64)) then
    if (Decimal.IsZero o) then
      return (0 : Int8)
    return (-1 : Int8)
  let (r_3, r_4) := Decimal.decompose o
  let mut oSig : U128 := r_3
  let mut oExp : Int16 := r_4
  if ((oSig.w0 ||| oSig.w1) == (0 : UInt64)) then
    return (1 : Int8)
  coreAbs dSig oSig dExp oExp

theorem CmpAbs_eq (d o : Decimal) : Gen.Decimal.CmpAbs d o = cmpAbsStaged d o := rfl

/-! ## Equal -/

/-- `(q, r) ← dv oSig; if r != 0 { return false }; k q` -/
def estep128 (dv : U128 → Go.GoM (U128 × UInt64)) (oSig : U128)
    (k : U128 → Go.GoM Bool) : Go.GoM Bool := do
  let (q, r) ← dv oSig
  if (r != (0 : UInt64)) then
    return false
  k q

/-- `if o % P != 0 { return false }; k (o / P)` -/
def estep64 (P : UInt64) (o : UInt64) (k : UInt64 → Go.GoM Bool) : Go.GoM Bool :=
  if ((o % P) != (0 : UInt64)) then pure false else k (o / P)

def esw128 (dSig oSig : U128) (exp : Int16) : Go.GoM Bool :=
  if (exp == (7 : Int16)) then
    estep128 U128.div10 oSig fun q =>
    estep128 U128.div1000 q fun q =>
    estep128 U128.div1000 q fun q => pure (dSig == q)
  else if (exp == (6 : Int16)) then
    estep128 U128.div1000 oSig fun q =>
    estep128 U128.div1000 q fun q => pure (dSig == q)
  else if (exp == (5 : Int16)) then
    estep128 U128.div10 oSig fun q =>
    estep128 U128.div10000 q fun q => pure (dSig == q)
  else if (exp == (4 : Int16)) then
    estep128 U128.div10000 oSig fun q => pure (dSig == q)
  else if (exp == (3 : Int16)) then
    estep128 U128.div1000 oSig fun q => pure (dSig == q)
  else if (exp == (2 : Int16)) then
    estep128 U128.div10 oSig fun q =>
    estep128 U128.div10 q fun q => pure (dSig == q)
  else if (exp == (1 : Int16)) then
    estep128 U128.div10 oSig fun q => pure (dSig == q)
  else pure (dSig == oSig)

def esw64 (dSig : U128) (o : UInt64) (exp : Int16) : Go.GoM Bool :=
  if (exp == (7 : Int16)) then estep64 10000000 o fun q => pure (dSig.w0 == q)
  else if (exp == (6 : Int16)) then estep64 1000000 o fun q => pure (dSig.w0 == q)
  else if (exp == (5 : Int16)) then estep64 100000 o fun q => pure (dSig.w0 == q)
  else if (exp == (4 : Int16)) then estep64 10000 o fun q => pure (dSig.w0 == q)
  else if (exp == (3 : Int16)) then estep64 1000 o fun q => pure (dSig.w0 == q)
  else if (exp == (2 : Int16)) then estep64 100 o fun q => pure (dSig.w0 == q)
  else if (exp == (1 : Int16)) then estep64 10 o fun q => pure (dSig.w0 == q)
  else pure (dSig.w0 == o)

def etail64 (dSig : U128) (o : UInt64) (exp : Int16) : Go.GoM Bool :=
  if (decide (exp ≥ (8 : Int16))) then
    estep64 100000000 o fun q => esw64 dSig q (exp - (8 : Int16))
  else esw64 dSig o exp

def etail2 (dSig oSig : U128) (exp : Int16) : Go.GoM Bool :=
  if (oSig.w1 == (0 : UInt64)) then
    if (dSig.w1 != (0 : UInt64)) then pure false
    else etail64 dSig oSig.w0 exp
  else
    if (decide (exp ≥ (8 : Int16))) then
      estep128 U128.div1e8 oSig fun q => esw128 dSig q (exp - (8 : Int16))
    else esw128 dSig oSig exp

def etail (dSig oSig : U128) (exp : Int16) : Go.GoM Bool :=
  if (decide (exp ≥ (8 : Int16))) then
    estep128 U128.div1e8 oSig fun q => etail2 dSig q (exp - (8 : Int16))
  else etail2 dSig oSig exp

def ecore (dSig oSig : U128) (dExp oExp : Int16) : Go.GoM Bool :=
  if (decide ((dExp - oExp) < (0 : Int16))) then
    if (decide ((U128.cmp oSig dSig) ≥ (0 : Int64))) then pure false
    else if (decide ((dExp - oExp) ≤ (-19 : Int16))) then
      if (decide ((dExp - oExp) < (-35 : Int16))) then pure false
      else
        estep128 U128.div1e19 dSig fun q =>
          etail oSig q (((dExp - oExp) + (19 : Int16)) * (-1 : Int16))
    else etail oSig dSig ((dExp - oExp) * (-1 : Int16))
  else
    if (decide ((dExp - oExp) > (0 : Int16))) then
      if (decide ((U128.cmp dSig oSig) ≥ (0 : Int64))) then pure false
      else if (decide ((dExp - oExp) ≥ (19 : Int16))) then
        if (decide ((dExp - oExp) > (35 : Int16))) then pure false
        else
          estep128 U128.div1e19 oSig fun q => etail dSig q ((dExp - oExp) - (19 : Int16))
      else etail dSig oSig (dExp - oExp)
    else etail dSig oSig (dExp - oExp)

def equalStaged (d o : Decimal) : Go.GoM Bool := do
  if ((Decimal.isSpecial d) || (Decimal.isSpecial o)) then
    if ((Decimal.IsNaN d) || (Decimal.IsNaN o)) then
      return false
    if (Decimal.isInf d) then
      return ((Decimal.isInf o) && ((Decimal.Signbit d) == (Decimal.Signbit o)))
    if (Decimal.isInf o) then
      return false
  if (d == o) then
    return true
  let (r_1, r_2) := Decimal.decompose d
  let mut dSig : U128 := r_1
  let mut dExp : Int16 := r_2
  if ((dSig.w0 ||| dSig.w1) == (0 : UInt64)) then
    return (Decimal.IsZero o)
  let (r_3, r_4) := Decimal.decompose o
  let mut oSig : U128 := r_3
  let mut oExp : Int16 := r_4
  if ((oSig.w0 ||| oSig.w1) == (0 : UInt64)) then
    return false
  if ((Decimal.Signbit d) != (Decimal.Signbit o)) then
    return false
  ecore dSig oSig dExp oExp

theorem Equal_eq (d o : Decimal) : Gen.Decimal.Equal d o = equalStaged d o := rfl

end CmpPf
