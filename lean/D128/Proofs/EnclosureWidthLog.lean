/-
  Soundness of the enclosure oracle, part 19: width of the enclosures of the logarithm family.

  1. `signSplit_narrow`          : narrowness passes through the sign split of `trueValue`
  2. `trueValue_log_narrow`      : Narrow t.m (3·10^-60) (3·10^-72)
     `trueValue_log2_narrow` : Narrow t.m 10^-59 (6·10^-72);  `trueValue_log10_narrow` : Narrow t.m 10^-59 (2·10^-72)
  3. `log1pSmall_narrow`         : |x| ≤ 10^-12, x ≠ 0 ⇒ the Taylor enclosure (or its negative) is Narrow _ 10^-58 0
     `trueValue_log1p_narrow`    : Narrow t.m (3·10^-39) α, α = 0 for |x| < 10^-12, 2·10^-38 for e > 40, else 3·10^-72
-/
import D128.Proofs.EnclosureWidthExpm1
import D128.Proofs.EnclosureElemLog
set_option autoImplicit false

namespace EnclPf
open Spec Spec.Encl SpecRound

/-! ## 1. the sign split -/

theorem signSplit_narrow {l : I} {tn : Bool} {t : Sci} {ρ α : ℚ} (h : signSplit l = some (tn, t))
    (h1 : 0 < l.lo → Narrow l ρ α) (h2 : l.hi < 0 → Narrow l.neg ρ α) : Narrow t.m ρ α := by
  unfold signSplit at h
  split at h
  · rename_i hpos
    simp only [Option.some.injEq, Prod.mk.injEq] at h
    obtain ⟨-, rfl⟩ := h
    exact h1 hpos
  · split at h
    · rename_i hneg
      simp only [Option.some.injEq, Prod.mk.injEq] at h
      obtain ⟨-, rfl⟩ := h
      exact h2 hneg
    · exact absurd h (by simp)

/-! ## 2. log, log2, log10 -/

theorem trueValue_log_narrow (n : Bool) (c : Nat) (e : Int) (tn : Bool) (t : Sci)
    (h : trueValue .log n c e = some (tn, t)) : Narrow t.m (3 / 10 ^ 60) (3 / 10 ^ 72) := by
  rw [trueValue_log_eq] at h
  split at h
  · exact absurd h (by simp)
  · rename_i l hl
    exact signSplit_narrow h (log_narrow_pos hl) (log_narrow_neg hl)

/-- a product with a positive interval is positive only if the factor is -/
theorem pos_of_mul_pos {l b : I} (hb : 0 < b.lo) (h : 0 < (l.mul b).lo) : 0 < l.lo := by
  by_contra hc
  have hc : l.lo ≤ 0 := not_lt.1 hc
  have : (l.mul b).lo ≤ l.lo * b.lo := by
    unfold I.mul min4
    simp only
    exact le_trans (rdDown_le _) (le_trans (min_le_left _ _) (min_le_left _ _))
  have : l.lo * b.lo ≤ 0 := mul_nonpos_of_nonpos_of_nonneg hc hb.le
  linarith

theorem neg_of_mul_neg {l b : I} (hb : 0 < b.lo) (h : (l.mul b).hi < 0) : l.hi < 0 := by
  by_contra hc
  have hc : 0 ≤ l.hi := not_lt.1 hc
  have : l.hi * b.lo ≤ (l.mul b).hi := by
    unfold I.mul max4
    simp only
    exact le_trans (le_trans (le_max_left _ _) (le_max_right _ _)) (le_rdUp _)
  have : 0 ≤ l.hi * b.lo := mul_nonneg hc hb.le
  linarith

theorem log_scaled_narrow {q : ℚ} {k : Int} {l b : I} {tn : Bool} {t : Sci} {B : ℚ} (hl : Encl.log q k = some l)
    (hb : 0 < b.lo ∧ b.lo ≤ b.hi ∧ b.hi ≤ b.lo * (1 + 1 / 10 ^ 74) ∧ b.hi ≤ B)
    (h : signSplit (l.mul b) = some (tn, t)) : Narrow t.m (1 / 10 ^ 59) (4 / 10 ^ 72 * B) := by
  obtain ⟨b1, b2, b3, b4⟩ := hb
  have hB0 : 0 < B := lt_of_lt_of_le (lt_of_lt_of_le b1 b2) b4
  have hnum : (1 + 3 / 10 ^ 60 : ℚ) * (1 + 1 / 10 ^ 74) * (1 + 3 * eps) - 1 ≤ 1 / 10 ^ 59 := by
    unfold eps; norm_num
  have hnum2 : (3 / 10 ^ 72 : ℚ) * B * (1 + 3 * eps) ≤ 4 / 10 ^ 72 * B := by
    have : (3 / 10 ^ 72 : ℚ) * (1 + 3 * eps) ≤ 4 / 10 ^ 72 := by unfold eps; norm_num
    nlinarith
  apply signSplit_narrow h
  · intro hpos
    have hlpos := pos_of_mul_pos b1 hpos
    exact narrow_mono (narrow_mul (log_narrow_pos hl hlpos) (by norm_num) (by norm_num) b1 b2 b3 (by norm_num) b4)
      hnum hnum2
  · intro hneg
    have hlneg := neg_of_mul_neg b1 hneg
    rw [← neg_mul_eq]
    exact narrow_mono (narrow_mul (log_narrow_neg hl hlneg) (by norm_num) (by norm_num) b1 b2 b3 (by norm_num) b4)
      hnum hnum2

theorem trueValue_log2_narrow (n : Bool) (c : Nat) (e : Int) (tn : Bool) (t : Sci)
    (h : trueValue .log2 n c e = some (tn, t)) : Narrow t.m (1 / 10 ^ 59) (6 / 10 ^ 72) := by
  rw [trueValue_log2_eq] at h
  split at h
  · exact absurd h (by simp)
  · rename_i l hl
    exact narrow_mono (log_scaled_narrow hl ln2_inv_narrow h) (le_refl _) (by norm_num)

theorem trueValue_log10_narrow (n : Bool) (c : Nat) (e : Int) (tn : Bool) (t : Sci)
    (h : trueValue .log10 n c e = some (tn, t)) : Narrow t.m (1 / 10 ^ 59) (2 / 10 ^ 72) := by
  rw [trueValue_log10_eq] at h
  split at h
  · exact absurd h (by simp)
  · rename_i l hl
    exact narrow_mono (log_scaled_narrow hl ln10_inv_narrow h) (le_refl _) (by norm_num)

/-! ## 3. log1p -/

theorem log1pSmall_narrow (x : ℚ) (hx0 : x ≠ 0) (hx : |x| ≤ 1 / 10 ^ 12) :
    (0 < (log1pSmall x).lo → Narrow (log1pSmall x) (1 / 10 ^ 58) 0) ∧
    ((log1pSmall x).hi < 0 → Narrow (log1pSmall x).neg (1 / 10 ^ 58) 0) := by
  unfold log1pSmall
  simp only [ite_neg_eq_abs]
  set s : ℚ := x - x ^ 2 / 2 + x ^ 3 / 3 - x ^ 4 / 4 + x ^ 5 / 5 with hs
  set τ : ℚ := 2 * |x| ^ 6 with hτ
  have ha := abs_nonneg x
  have hapos : 0 < |x| := abs_pos.2 hx0
  have hτ0 : 0 ≤ τ := by rw [hτ]; positivity
  have hx' := abs_le.1 hx
  -- s = x·u with u ≥ 1/2
  set u : ℚ := 1 - x / 2 + x ^ 2 / 3 - x ^ 3 / 4 + x ^ 4 / 5 with hu
  have hsu : s = x * u := by rw [hs, hu]; ring
  have hx3 : |x ^ 3| ≤ 1 := by
    rw [abs_pow]; exact pow_le_one₀ ha (le_trans hx (by norm_num))
  have hx3' := abs_le.1 hx3
  have hu1 : 1 / 2 ≤ u := by
    rw [hu]
    have h2 : 0 ≤ x ^ 2 := by positivity
    have h4 : 0 ≤ x ^ 4 := by positivity
    linarith [hx'.1, hx'.2, hx3'.1, hx3'.2]
  -- τ ≤ 2·10^-60·|x|
  have hτ1 : τ ≤ 2 / 10 ^ 60 * |x| := by
    rw [hτ]
    have h5 : |x| ^ 5 ≤ (1 / 10 ^ 12 : ℚ) ^ 5 := pow_le_pow_left₀ ha hx 5
    have : |x| ^ 6 = |x| ^ 5 * |x| := by ring
    rw [this]
    have h6 : |x| ^ 5 * |x| ≤ (1 / 10 ^ 12) ^ 5 * |x| := mul_le_mul_of_nonneg_right h5 ha
    have e : (2 : ℚ) * ((1 / 10 ^ 12) ^ 5) = 2 / 10 ^ 60 := by norm_num
    nlinarith
  have hκ : (4 / 10 ^ 60 : ℚ) ≤ 1 / 10 := by norm_num
  have hfin : 3 * (4 / 10 ^ 60 : ℚ) + 3 * eps ≤ 1 / 10 ^ 58 := by unfold eps; norm_num
  rcases lt_or_gt_of_ne hx0 with hneg | hpos
  · have hax : |x| = -x := abs_of_neg hneg
    rw [hax] at hτ1
    have hS : -x / 2 ≤ -s := by rw [hsu]; nlinarith
    constructor
    · intro hlo
      exfalso
      have := rdDown_le (s - τ)
      have hlo' : 0 < rdDown (s - τ) := hlo
      linarith
    · intro _
      rw [neg_sym]
      exact narrow_mono (sym_narrow (by linarith) hτ0 (by nlinarith) hκ) hfin (le_refl _)
  · have hax : |x| = x := abs_of_pos hpos
    rw [hax] at hτ1
    have hS : x / 2 ≤ s := by rw [hsu]; nlinarith
    constructor
    · intro _
      exact narrow_mono (sym_narrow (by linarith) hτ0 (by nlinarith) hκ) hfin (le_refl _)
    · intro hhi
      exfalso
      have := le_rdUp (s + τ)
      have hhi' : rdUp (s + τ) < 0 := hhi
      linarith

theorem trueValue_log1p_narrow (n : Bool) (c : Nat) (e : Int) (tn : Bool) (t : Sci)
    (hc0 : c ≠ 0) (hc : c < 10 ^ 35) (h : trueValue .log1p n c e = some (tn, t)) :
    Narrow t.m (3 / 10 ^ 39)
      (if e + (ndigits c : Int) < -12 then 0 else if e > 40 then 2 / 10 ^ 38 else 3 / 10 ^ 72) := by
  rw [trueValue_log1p_eq] at h
  simp only at h
  have hnd := ndigits_le_35 hc0 hc
  have hnd1 := ndigits_pos c
  split at h
  · -- tiny: relative enclosure
    rename_i h40
    simp only [Option.some.injEq, Prod.mk.injEq] at h
    obtain ⟨-, rfl⟩ := h
    rw [if_pos (by omega)]
    exact rel39_narrow hc0
  rename_i h40
  split at h
  · -- e > 40
    rename_i he
    rw [if_neg (by omega), if_pos he]
    split at h
    · rename_i l hl
      simp only [Option.some.injEq, Prod.mk.injEq] at h
      obtain ⟨-, rfl⟩ := h
      obtain ⟨w0, w1⟩ := log_width_le hl
      -- ln(c·10^e) ≥ 1 lies in l, hence 0 < l.lo
      have hL := log_call_sound (n := false) hc0 hl
      have hX : (10 : ℝ) ≤ X false c e := by
        have h1 := abs_X_ge false hc0 e
        rw [abs_X] at h1
        have h2 : (10 : ℝ) ^ (1 : Int) ≤ (10 : ℝ) ^ (e + (ndigits c : Int) - 1) :=
          zpow_le_zpow_right₀ (by norm_num) (by omega)
        rw [X_eq]; simp only [Bool.false_eq_true, if_false]
        have e1 : (10 : ℝ) ^ (1 : Int) = 10 := by norm_num
        linarith
      have hlog : (9 / 10 : ℝ) ≤ Real.log (X false c e) := by
        have := Real.one_sub_inv_le_log_of_pos (by linarith : (0 : ℝ) < X false c e)
        have h3 : (X false c e)⁻¹ ≤ 1 / 10 := by
          rw [inv_eq_one_div]; exact one_div_le_one_div_of_le (by norm_num) hX
        linarith
      have hhi : (9 / 10 : ℚ) ≤ l.hi := by
        have : (((9 / 10 : ℚ)) : ℝ) ≤ ((l.hi : ℚ) : ℝ) := by push_cast; linarith [hL.2]
        exact_mod_cast this
      have hlo : 0 < l.lo := by
        by_contra hcn
        have hcn : l.lo ≤ 0 := not_lt.1 hcn
        have hm : |(l.lo + l.hi) / 2| ≤ (l.hi - l.lo) / 2 := by
          rw [abs_le]; constructor <;> linarith
        nlinarith
      have hN := log_narrow_pos hl hlo
      obtain ⟨n1, n2, n3⟩ := hN
      have hu : pow10 (-38) = 1 / 10 ^ 38 := by rw [pow10_eq_zpow]; norm_num
      unfold Narrow; simp only [hu]
      refine ⟨n1, by linarith, ?_⟩
      have : l.lo * (1 + 3 / 10 ^ 60) ≤ l.lo * (1 + 3 / 10 ^ 39) :=
        mul_le_mul_of_nonneg_left (by norm_num) n1.le
      have e2 : (3 / 10 ^ 72 : ℚ) + 1 / 10 ^ 38 ≤ 2 / 10 ^ 38 := by norm_num
      linarith
    · exact absurd h (by simp)
  rename_i he
  rw [xguard n c e (by omega) (by omega)] at h
  split at h
  · -- Taylor enclosure
    rename_i h12
    rw [if_pos h12]
    have hx0 : (Val.fin n c e).toRat ≠ 0 := by
      have hm : 0 < mag c e := by
        unfold mag
        exact mul_pos (by exact_mod_cast Nat.pos_of_ne_zero hc0) (pow10_pos e)
      rw [toRat_fin]; split <;> linarith
    have hxq : |(Val.fin n c e).toRat| ≤ 1 / 10 ^ 12 := by
      have h1 := abs_toRat_lt n hc0 e
      have h2 : (10 : ℚ) ^ (e + (ndigits c : Int)) ≤ (10 : ℚ) ^ (-12 : Int) :=
        zpow_le_zpow_right₀ (by norm_num) (by omega)
      have h3 : (10 : ℚ) ^ (-12 : Int) ≤ 1 / 10 ^ 12 := by norm_num
      exact le_trans (le_trans h1.le h2) h3
    obtain ⟨q1, q2⟩ := log1pSmall_narrow _ hx0 hxq
    exact signSplit_narrow h (fun hp => narrow_mono (q1 hp) (by norm_num) (le_refl _))
      (fun hn => narrow_mono (q2 hn) (by norm_num) (le_refl _))
  rename_i h12
  rw [if_neg h12, if_neg he]
  split at h
  · exact absurd h (by simp)
  · rename_i l hl
    exact signSplit_narrow h (fun hp => narrow_mono (log_narrow_pos hl hp) (by norm_num) (le_refl _))
      (fun hn => narrow_mono (log_narrow_neg hl hn) (by norm_num) (le_refl _))

end EnclPf
