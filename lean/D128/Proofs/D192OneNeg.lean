/-
  D128/Proofs/D192OneNeg.lean — `decomposed192.add1neg` (Go: /repo/decomposed.go), for ALL inputs:
  ℕ/ℤ-level description of every path and Hoare triple (no panic, termination).

  `add1neg d trunc` computes `(neg, |1 - d|, trunc')`, `neg` = "the difference `1 - d` is negative".
  Paths (in program order):
    Z  d.sig = 0                → (false, {1, exp 0}, trunc)               exact
    A  d.exp < -116             → (false, {1, exp 0}, trunc)               d dropped, flag UNTOUCHED
    B  d.exp > 58               → (true,  d, 1)                            the 1 is dropped
    C  -116 ≤ d.exp ≤ 0         digits of d below 10^-57 are dropped (k of them); if nothing is left
                                → (false, {1, exp 0}, 1) ("early"); otherwise with s = sig/10^k,
                                p = 10^(-exp-k), tr = (10^k ∣ sig ? trunc : 1):
                                   s ≤ p → (false, p - s, tr);   p < s → (true, s - p, tr * -1)
    D  0 < d.exp ≤ 58           d is scaled up; if the exponent reaches 0 → (true, sig·10^j - 1, trunc * -1)
                                (exact), else (true, d scaled, 1).
  * `Add1NegPost d t x`, `add1neg_triple`, `add1neg_spec`.
  The rational reading and the flag findings are in D192OneNegContract.lean.
-/
import D128.Proofs.D192OneSub

set_option autoImplicit false
set_option maxRecDepth 4096
set_option exponentiation.threshold 512
open Std.Do D128.Proofs.WordsWide
set_option mvcgen.warning false

namespace D192

/-- path C of `add1neg`, main exit (see the file header). -/
def NegDown (d : Gen.decomposed192) (t : Int8) (x : R3) : Prop :=
  ∃ k : Nat, x.2.1.exp.toInt = d.exp.toInt + k ∧ -57 ≤ x.2.1.exp.toInt ∧ x.2.1.exp.toInt ≤ 0 ∧
    (k = 0 ∨ x.2.1.exp.toInt = -57) ∧ 0 < d.sig.toNat / 10 ^ k ∧
    (d.sig.toNat / 10 ^ k ≤ 10 ^ (-x.2.1.exp.toInt).toNat →
      x.1 = false ∧ x.2.1.sig.toNat = 10 ^ (-x.2.1.exp.toInt).toNat - d.sig.toNat / 10 ^ k ∧
      x.2.2 = (if d.sig.toNat % 10 ^ k = 0 then t else 1)) ∧
    (10 ^ (-x.2.1.exp.toInt).toNat < d.sig.toNat / 10 ^ k →
      x.1 = true ∧ x.2.1.sig.toNat = d.sig.toNat / 10 ^ k - 10 ^ (-x.2.1.exp.toInt).toNat ∧
      x.2.2 = (if d.sig.toNat % 10 ^ k = 0 then t else 1) * -1)

/-- path D of `add1neg` (see the file header). -/
def NegUp (d : Gen.decomposed192) (t : Int8) (x : R3) : Prop :=
  ∃ j : Nat, d.sig.toNat * 10 ^ j < 2 ^ 192 ∧ x.2.1.exp.toInt = d.exp.toInt - j ∧
    0 ≤ x.2.1.exp.toInt ∧ x.1 = true ∧
    (x.2.1.exp.toInt ≠ 0 → x.2.1.sig.toNat = d.sig.toNat * 10 ^ j ∧ x.2.2 = 1 ∧ upLo ≤ x.2.1.sig.toNat) ∧
    (x.2.1.exp.toInt = 0 → x.2.1.sig.toNat = d.sig.toNat * 10 ^ j - 1 ∧ x.2.2 = t * -1)

/-- complete ℕ/ℤ-level description of `add1neg d t = x`. -/
def Add1NegPost (d : Gen.decomposed192) (t : Int8) (x : R3) : Prop :=
  (d.sig.toNat = 0 ∧ x = (false, one, t)) ∨
  (0 < d.sig.toNat ∧ d.exp.toInt < -116 ∧ x = (false, one, t)) ∨
  (0 < d.sig.toNat ∧ 58 < d.exp.toInt ∧ x = (true, d, 1)) ∨
  (0 < d.sig.toNat ∧ -116 ≤ d.exp.toInt ∧ d.exp.toInt ≤ 0 ∧
    (Early ((false, one, (1 : Int8)) : R3) d.sig.toNat d.exp x ∨ NegDown d t x)) ∨
  (0 < d.sig.toNat ∧ 0 < d.exp.toInt ∧ d.exp.toInt ≤ 58 ∧ NegUp d t x)

theorem neg_down_fin (d : Gen.decomposed192) (t tr : Int8) (cs pw : U192) (e : Int16)
    (hs : d.sig.w0 = 0 → d.sig.w1 = 0 → ¬ d.sig.w2 = 0) (hlo : -116 ≤ d.exp) (hhi : d.exp ≤ 0)
    (hinv : Dn d.sig.toNat d.exp t (-57) tr cs.toNat e ∧ -57 ≤ e)
    (hpw : pw.toNat = 10 ^ (-e.toInt).toNat) (neg : Bool) (rs : U192) (t' : Int8)
    (hnb : cs.toNat ≤ pw.toNat → neg = false ∧ rs.toNat = pw.toNat - cs.toNat ∧ t' = tr)
    (hb : pw.toNat < cs.toNat → neg = true ∧ rs.toNat = cs.toNat - pw.toNat ∧ t' = tr * -1) :
    Add1NegPost d t (neg, ⟨rs, e⟩, t') := by
  have hlo' : -116 ≤ d.exp.toInt := by have := i16_le hlo; simpa using this
  have hhi' : d.exp.toInt ≤ 0 := by have := i16_le hhi; simpa using this
  have he : -57 ≤ e.toInt := by have := i16_le hinv.2; simpa using this
  obtain ⟨⟨k, hc, hee, ht, hk, hpos⟩, _⟩ := hinv
  refine Or.inr (Or.inr (Or.inr (Or.inl ⟨sig_pos hs, hlo', hhi', Or.inr ⟨k, hee, he, ?_, ?_, ?_, ?_, ?_⟩⟩)))
  · show e.toInt ≤ 0
    rcases hk with h | h <;> omega
  · show k = 0 ∨ e.toInt = -57
    rcases hk with h | h
    · exact Or.inl h
    · right; omega
  · rw [← hc]; exact hpos
  · show _ ≤ 10 ^ (-e.toInt).toNat → neg = false ∧ rs.toNat = _ ∧ t' = _
    rw [← hc, ← hpw, ← ht]; exact hnb
  · show 10 ^ (-e.toInt).toNat < _ → neg = true ∧ rs.toNat = _ ∧ t' = _
    rw [← hc, ← hpw, ← ht]; exact hb

theorem neg_up_ret (d : Gen.decomposed192) (t : Int8) (b : Gen.decomposed192)
    (hs : d.sig.w0 = 0 → d.sig.w1 = 0 → ¬ d.sig.w2 = 0) (hlo : 0 < d.exp) (hhi : d.exp ≤ 58)
    (hinv : UpX d.sig.toNat d.exp b) (hne : ¬ b.exp = 0) : Add1NegPost d t (true, b, 1) := by
  have hlo' : 0 < d.exp.toInt := by have := i16_lt hlo; simpa using this
  have hhi' : d.exp.toInt ≤ 58 := by have := i16_le hhi; simpa using this
  obtain ⟨⟨j, hc, he, h0⟩, hx⟩ := hinv
  have hne' : b.exp.toInt ≠ 0 := fun h => hne (Int16.toInt_inj.mp (by simpa using h))
  refine Or.inr (Or.inr (Or.inr (Or.inr ⟨sig_pos hs, hlo', hhi', j, ?_, he, h0, rfl, ?_, ?_⟩)))
  · rw [← hc]; exact U192.toNat_lt _
  · intro _; exact ⟨hc, rfl, hx hne⟩
  · intro h; exact absurd h hne'

theorem up_borrow {sig : Nat} {e0 : Int16} (b : Gen.decomposed192) (hs : 0 < sig) (hlo : 0 < e0)
    (hinv : UpX sig e0 b) (he : b.exp = 0) : ¬ (Gen.U192.sub ⟨1, 0, 0⟩ b.sig).2 = 0 := by
  have hlo' : 0 < e0.toInt := by have := i16_lt hlo; simpa using this
  obtain ⟨⟨j, hc, hej, _⟩, _⟩ := hinv
  rw [U192_sub_snd]
  have h1 : (U192.mk 1 0 0).toNat = 1 := by simp [U192.toNat]
  have hj : 0 < j := by rw [he] at hej; simp at hej; omega
  have : 10 ≤ b.sig.toNat := by
    rw [hc]
    obtain ⟨j', rfl⟩ : ∃ j', j = j' + 1 := ⟨j - 1, by omega⟩
    have : 0 < sig * 10 ^ j' := Nat.mul_pos hs (Nat.pow_pos (by norm_num))
    rw [Nat.pow_succ, ← Nat.mul_assoc]; omega
  rw [if_pos (by omega)]
  decide

theorem neg_up_fin (d : Gen.decomposed192) (t : Int8) (b : Gen.decomposed192)
    (hs : d.sig.w0 = 0 → d.sig.w1 = 0 → ¬ d.sig.w2 = 0) (hlo : 0 < d.exp) (hhi : d.exp ≤ 58)
    (hinv : UpX d.sig.toNat d.exp b) (he : b.exp = 0) :
    Add1NegPost d t (true, ⟨Gen.U192.twos (Gen.U192.sub ⟨1, 0, 0⟩ b.sig).1, b.exp⟩, t * -1) := by
  have hb := sub_borrow _ _ (up_borrow b (sig_pos hs) hlo hinv he)
  have hlo' : 0 < d.exp.toInt := by have := i16_lt hlo; simpa using this
  have hhi' : d.exp.toInt ≤ 58 := by have := i16_le hhi; simpa using this
  obtain ⟨⟨j, hc, hej, h0⟩, hx⟩ := hinv
  have he' : b.exp.toInt = 0 := by rw [he]; rfl
  have h1 : (U192.mk 1 0 0).toNat = 1 := by simp [U192.toNat]
  refine Or.inr (Or.inr (Or.inr (Or.inr ⟨sig_pos hs, hlo', hhi', j, ?_, hej, h0, rfl, ?_, ?_⟩)))
  · rw [← hc]; exact U192.toNat_lt _
  · intro h; exact absurd he' h
  · intro _
    refine ⟨?_, rfl⟩
    show (Gen.U192.twos (Gen.U192.sub ⟨1, 0, 0⟩ b.sig).1).toNat = _
    rw [hb.2, h1, hc]

theorem add1neg_triple (d : Gen.decomposed192) (t : Int8) :
    ⦃⌜True⌝⦄ Gen.decomposed192.add1neg d t
    ⦃⇓ x => ⌜Add1NegPost d t x⌝⦄ := by
  mvcgen [Gen.decomposed192.add1neg]
  case inv1 | inv3 => exact fun st => ⟨st.2.1.sig.toNat⟩
  case inv2 => exact ⇓ x => match x with
    | .inl st => ⌜st.1 = none ∧ Dn d.sig.toNat d.exp t (-58) st.2.2 st.2.1.sig.toNat st.2.1.exp⌝
    | .inr st => ⌜match st.1 with
        | none => Dn d.sig.toNat d.exp t (-58) st.2.2 st.2.1.sig.toNat st.2.1.exp ∧ -62 ≤ st.2.1.exp
        | some x => Early ((false, one, (1 : Int8)) : R3) d.sig.toNat d.exp x⌝
  case inv4 => exact ⇓ x => match x with
    | .inl st => ⌜st.1 = none ∧ Dn d.sig.toNat d.exp t (-57) st.2.2 st.2.1.sig.toNat st.2.1.exp⌝
    | .inr st => ⌜match st.1 with
        | none => Dn d.sig.toNat d.exp t (-57) st.2.2 st.2.1.sig.toNat st.2.1.exp ∧ -57 ≤ st.2.1.exp
        | some x => Early ((false, one, (1 : Int8)) : R3) d.sig.toNat d.exp x⌝
  case inv5 | inv7 => exact fun st => ⟨upM st.exp⟩
  case inv6 => exact ⇓ x => match x with
    | .inl st => ⌜Up d.sig.toNat d.exp st.sig.toNat st.exp⌝
    | .inr st => ⌜Up d.sig.toNat d.exp st.sig.toNat st.exp⌝
  case inv8 => exact ⇓ x => match x with
    | .inl st => ⌜Up d.sig.toNat d.exp st.sig.toNat st.exp⌝
    | .inr st => ⌜UpX d.sig.toNat d.exp st⌝
  all_goals (simp +zetaDelta at *)
  case vc1 => rename_i h; exact Or.inl ⟨sig_zero h, rfl⟩
  case vc2 =>
    rename_i hs h
    exact Or.inr (Or.inl ⟨sig_pos hs, by have := i16_lt h; simpa using this, rfl⟩)
  case vc3 =>
    rename_i hs _ h
    exact Or.inr (Or.inr (Or.inl ⟨sig_pos hs, by have := i16_lt h; simpa using this, rfl⟩))
  case vc4 => rename_i hdiv _ _ _ _ hg hinv _ hq; exact Dn.early4 _ _ _ hdiv.1 hg hinv.2.2 hq
  case vc5 => rename_i hdiv _ hlo _ _ hg hinv hnz hq; exact Dn.vc_nz4 _ _ _ hlo hdiv hg ⟨hinv.1, hinv.2.2⟩ hnz hq
  case vc6 => rename_i hdiv _ _ _ _ hg hinv hz hq; exact (Dn.absurd' 4 _ _ _ hdiv hinv.2.2 hz hq).elim
  case vc7 => rename_i hdiv _ hlo _ _ hg hinv hz hq; exact Dn.vc_z4 _ _ _ hlo hdiv hg ⟨hinv.1, hinv.2.2⟩ hz hq
  case vc8 => rename_i hg hinv; exact ⟨hinv.2.2, hg⟩
  case vc9 => rename_i hs _ _ _; exact Dn.refl _ _ _ _ (sig_pos hs)
  case vc10 =>
    rename_i hx hm hs hlo _ hhi
    rw [hx] at hm
    exact Or.inr (Or.inr (Or.inr (Or.inl ⟨sig_pos hs, by have := i16_le hlo; simpa using this,
      by have := i16_le hhi; simpa using this, Or.inl hm⟩)))
  case vc11 => rename_i hdiv _ _ _ _ hg hinv _ hq; exact Dn.early1 _ _ _ hdiv.1 hg hinv.2.2 hq
  case vc12 => rename_i hdiv _ hlo _ _ hg hinv hnz hq; exact Dn.vc_nz1 _ _ _ hlo hdiv hg ⟨hinv.1, hinv.2.2⟩ hnz hq
  case vc13 => rename_i hdiv _ _ _ _ hg hinv hz hq; exact (Dn.absurd' 1 _ _ _ hdiv hinv.2.2 hz hq).elim
  case vc14 => rename_i hdiv _ hlo _ _ hg hinv hz hq; exact Dn.vc_z1 _ _ _ hlo hdiv hg ⟨hinv.1, hinv.2.2⟩ hz hq
  case vc15 => rename_i hg hinv; exact ⟨hinv.2.2, hg⟩
  case vc16 =>
    rename_i hx hm _ _ _ _
    rw [hx] at hm
    exact hm.1.weaken (by norm_num)
  case vc17 =>
    rename_i hx hm hs hlo _ hhi
    rw [hx] at hm
    exact Or.inr (Or.inr (Or.inr (Or.inl ⟨sig_pos hs, by have := i16_le hlo; simpa using this,
      by have := i16_le hhi; simpa using this, Or.inl hm⟩)))
  case vc18 =>
    rename_i hx hm _ hlo _ hhi
    rw [hx] at hm
    exact Dn.exit_range (by have := i16_le hhi; simpa using this) hm.1
      (by have := i16_le hm.2; simpa using this)
  case vc19 =>
    rename_i hx hm _ _ _ _ _ _ hpw hs hlo _ hhi hb
    rw [hx] at hm
    obtain ⟨h1, h2⟩ := sub_borrow _ _ hb
    exact neg_down_fin d t _ _ _ _ hs hlo hhi hm hpw true _ _ (fun h => by omega)
      (fun _ => ⟨rfl, h2, rfl⟩)
  case vc20 =>
    rename_i hx hm _ _ _ _ hpw hs hlo _ hhi hnb
    rw [hx] at hm
    obtain ⟨h1, h2⟩ := sub_noborrow _ _ hnb
    exact neg_down_fin d t _ _ _ _ hs hlo hhi hm hpw false _ _ (fun _ => ⟨rfl, h2, rfl⟩)
      (fun h => by omega)
  case vc23 => rename_i hg hinv; exact Up.vc4 _ hg hinv
  case vc24 => rename_i hinv; exact hinv.2
  case vc25 => rename_i h; exact Up.refl _ _ h
  case vc26 => rename_i hg hinv; exact Up.vc1 _ hg hinv
  case vc27 => rename_i hg hinv; exact Up.exit _ hg hinv.2
  case vc28 => rename_i h _ _ _ _; exact h
  case vc29 => rename_i hinv hs _ hhi hlo hne; exact neg_up_ret d t _ hs hlo hhi hinv hne
  case vc30 => rename_i hinv hs _ hhi hlo he _; exact neg_up_fin d t _ hs hlo hhi hinv he
  case vc31 =>
    rename_i hinv hs _ _ hlo he hnb
    exact (up_borrow _ (sig_pos hs) hlo hinv he hnb).elim

/-- `decomposed192.add1neg`, all inputs: never panics, terminates, and the result is described by
`Add1NegPost`. -/
theorem add1neg_spec (d : Gen.decomposed192) (t : Int8) :
    ∃ neg r t', Gen.decomposed192.add1neg d t = .ok (neg, r, t') ∧ Add1NegPost d t (neg, r, t') := by
  obtain ⟨⟨neg, r, t'⟩, hr, h⟩ := ok_of_triple (add1neg_triple d t)
  exact ⟨neg, r, t', hr, h⟩

end D192
