/-
  D128/Proofs/LogAccTop.lean — the Decimal-level theorems for `Log`, `Log2`, `Log10` (property C16).
  Notation: `𝔳[d] = .fin false c e` is the value `X = c·10^e` of the (finite, positive, non-zero) argument.

  * `log_one`, `log2_one`, `log10_one`   : `X = 1` ⇒ the result is `+0` (nearest default modes; every cohort member of 1)
  * `log2_accurate`, `log10_accurate`    : `1 < X` or `X ≤ 1 − 7.5·10^-22` ⇒ finite result with the sign of the logarithm,
                                           within one unit in the last place (`10^ulpExp |log_b X|`) of it
  * `log2_exact`, `log10_exact`          : `X = 2^k` resp. `10^k`, `k ≠ 0` ⇒ the result is exactly `k`
  (`log_accurate` is in LogAccLog.lean.)
-/
import D128.Proofs.LogAccScaled
set_option autoImplicit false
set_option maxRecDepth 4096
set_option linter.unusedVariables false
namespace LogAcc
open Gen D192 Root
local notation "𝔳[" d "]" => Spec.interp (Gen.Decimal.lo d) (Gen.Decimal.hi d)

theorem Log2_eq' (g : Globals) (d : Decimal) (h1 : Decimal.isSpecial d = false)
    (h2 : Decimal.IsZero d = false) (h3 : Decimal.Signbit d = false) :
    Gen.Log2 g d = decomposed192.log (logArg d) >>= scaledTail g.DefaultRoundingMode invLn2 :=
  Log2_eq g d h1 h2 h3

theorem Log10_eq' (g : Globals) (d : Decimal) (h1 : Decimal.isSpecial d = false)
    (h2 : Decimal.IsZero d = false) (h3 : Decimal.Signbit d = false) :
    Gen.Log10 g d = decomposed192.log (logArg d) >>= scaledTail g.DefaultRoundingMode invLn10 :=
  Log10_eq g d h1 h2 h3

/-- the side conditions on the argument of `log` for a finite non-zero Decimal -/
theorem logArg_ok (d : Decimal) (h1 : Decimal.isSpecial d = false) (h2 : Decimal.IsZero d = false) :
    (logArg d).sig.toNat ≠ 0 ∧ -16000 ≤ (logArg d).exp.toInt ∧ (logArg d).exp.toInt ≤ 16000 := by
  refine ⟨?_, ?_⟩
  · rw [logArg_sig]
    have := Sp.IsZero_eq_sig d; rw [h2] at this; simpa using this.symm
  · rw [logArg_exp d h1]
    have := Enc.decompose_exp_nonneg d; have := Enc.decompose_exp_le d h1
    omega

theorem inv_log2_le : 1 / Real.log 2 ≤ 3 / 2 := by
  have := Real.log_two_gt_d9
  rw [div_le_iff₀ (by linarith)]; linarith

theorem inv_log10_le : 1 / Real.log 10 ≤ 3 / 2 := by
  have := log10_bounds.1
  rw [div_le_iff₀ (by linarith)]; linarith

theorem abs_logb (b X : ℝ) (hb : 1 < b) : |Real.log X| * (1 / Real.log b) = |Real.logb b X| := by
  have : 0 < Real.log b := Real.log_pos hb
  unfold Real.logb
  rw [abs_div, abs_of_pos this]; ring

/-- `Log(1) = +0` -/
theorem log_one (g : Globals) (d : Decimal)
    (hg : g.DefaultRoundingMode = 0 ∨ g.DefaultRoundingMode = 1)
    (h1 : Decimal.isSpecial d = false) (h2 : Decimal.IsZero d = false) (h3 : Decimal.Signbit d = false)
    (c : ℕ) (e : ℤ) (hv : 𝔳[d] = .fin false c e) (hX : (c : ℝ) * (10 : ℝ) ^ e = 1) :
    ∃ r re, Gen.Log g d = .ok r ∧ 𝔳[r] = .fin false 0 re := by
  obtain ⟨-, -, hval⟩ := logArg_val d h1 c e false hv
  obtain ⟨hsig, hexp⟩ := logArg_ok d h1 h2
  obtain ⟨x, t, hlog, ht, hx0, hxe0, hxe1⟩ := log_at_one (logArg d) hsig hexp (by rw [hval]; exact hX)
  obtain ⟨r, hr, hvr⟩ := finish_exact_small g.DefaultRoundingMode false x t hg
    (by rw [hx0]; exact Nat.zero_le _) (by omega) (by omega)
  rw [hx0] at hvr
  refine ⟨r, _, ?_, hvr⟩
  rw [Log_eq g d h1 h2 h3, hlog]
  exact hr

/-- `Log2(1) = +0` -/
theorem log2_one (g : Globals) (d : Decimal)
    (hg : g.DefaultRoundingMode = 0 ∨ g.DefaultRoundingMode = 1)
    (h1 : Decimal.isSpecial d = false) (h2 : Decimal.IsZero d = false) (h3 : Decimal.Signbit d = false)
    (c : ℕ) (e : ℤ) (hv : 𝔳[d] = .fin false c e) (hX : (c : ℝ) * (10 : ℝ) ^ e = 1) :
    ∃ r re, Gen.Log2 g d = .ok r ∧ 𝔳[r] = .fin false 0 re := by
  obtain ⟨-, -, hval⟩ := logArg_val d h1 c e false hv
  obtain ⟨hsig, hexp⟩ := logArg_ok d h1 h2
  rw [Log2_eq' g d h1 h2 h3]
  exact scaled_one g.DefaultRoundingMode hg (logArg d) invLn2 hsig hexp (by rw [hval]; exact hX)
    (Or.inl invLn2_exp)

/-- `Log10(1) = +0` -/
theorem log10_one (g : Globals) (d : Decimal)
    (hg : g.DefaultRoundingMode = 0 ∨ g.DefaultRoundingMode = 1)
    (h1 : Decimal.isSpecial d = false) (h2 : Decimal.IsZero d = false) (h3 : Decimal.Signbit d = false)
    (c : ℕ) (e : ℤ) (hv : 𝔳[d] = .fin false c e) (hX : (c : ℝ) * (10 : ℝ) ^ e = 1) :
    ∃ r re, Gen.Log10 g d = .ok r ∧ 𝔳[r] = .fin false 0 re := by
  obtain ⟨-, -, hval⟩ := logArg_val d h1 c e false hv
  obtain ⟨hsig, hexp⟩ := logArg_ok d h1 h2
  rw [Log10_eq' g d h1 h2 h3]
  exact scaled_one g.DefaultRoundingMode hg (logArg d) invLn10 hsig hexp (by rw [hval]; exact hX)
    (Or.inr invLn10_exp)

/-- **`Log2` is accurate to one unit in the last place** outside the cancellation region `1 − 7.5·10^-22 < X < 1`. -/
theorem log2_accurate (g : Globals) (d : Decimal)
    (hg : g.DefaultRoundingMode = 0 ∨ g.DefaultRoundingMode = 1)
    (h1 : Decimal.isSpecial d = false) (h2 : Decimal.IsZero d = false) (h3 : Decimal.Signbit d = false)
    (c : ℕ) (e : ℤ) (hv : 𝔳[d] = .fin false c e)
    (hX : 1 < (c : ℝ) * (10 : ℝ) ^ e ∨ (c : ℝ) * (10 : ℝ) ^ e ≤ 1 - 75 / 10 ^ 23) :
    ∃ r rc re, Gen.Log2 g d = .ok r ∧
      𝔳[r] = .fin (decide ((c : ℝ) * (10 : ℝ) ^ e < 1)) rc re ∧
      rc ≤ Spec.Cmax ∧ Spec.Emin ≤ re ∧ re ≤ Spec.Emax ∧
      |(rc : ℝ) * (10 : ℝ) ^ re - (|Real.logb 2 ((c : ℝ) * (10 : ℝ) ^ e)|)|
        ≤ (10 : ℝ) ^ (EnclPf.ulpExp (|Real.logb 2 ((c : ℝ) * (10 : ℝ) ^ e)|)) := by
  obtain ⟨hc, he, hval⟩ := logArg_val d h1 c e false hv
  obtain ⟨hsig, hexp⟩ := logArg_ok d h1 h2
  have hcmax : c ≤ Spec.Cmax := by rw [hc]; exact Enc.decompose_sig_le d
  have hX' : 1 + 1 / 10 ^ 60 ≤ ((val (logArg d) : ℚ) : ℝ) ∨ ((val (logArg d) : ℚ) : ℝ) ≤ 1 - 75 / 10 ^ 23 := by
    rw [hval]
    rcases hX with h | h
    · exact Or.inl (gap_above_one c e hcmax h)
    · exact Or.inr h
  have := scaled_accurate g.DefaultRoundingMode hg (logArg d) invLn2 hsig hexp hX' (Or.inl invLn2_exp)
    (1 / Real.log 2) invLn2_close inv_log2_ge inv_log2_le
  rw [hval, abs_logb 2 _ (by norm_num)] at this
  rw [Log2_eq' g d h1 h2 h3]
  exact this

/-- **`Log10` is accurate to one unit in the last place** outside the cancellation region `1 − 7.5·10^-22 < X < 1`. -/
theorem log10_accurate (g : Globals) (d : Decimal)
    (hg : g.DefaultRoundingMode = 0 ∨ g.DefaultRoundingMode = 1)
    (h1 : Decimal.isSpecial d = false) (h2 : Decimal.IsZero d = false) (h3 : Decimal.Signbit d = false)
    (c : ℕ) (e : ℤ) (hv : 𝔳[d] = .fin false c e)
    (hX : 1 < (c : ℝ) * (10 : ℝ) ^ e ∨ (c : ℝ) * (10 : ℝ) ^ e ≤ 1 - 75 / 10 ^ 23) :
    ∃ r rc re, Gen.Log10 g d = .ok r ∧
      𝔳[r] = .fin (decide ((c : ℝ) * (10 : ℝ) ^ e < 1)) rc re ∧
      rc ≤ Spec.Cmax ∧ Spec.Emin ≤ re ∧ re ≤ Spec.Emax ∧
      |(rc : ℝ) * (10 : ℝ) ^ re - (|Real.logb 10 ((c : ℝ) * (10 : ℝ) ^ e)|)|
        ≤ (10 : ℝ) ^ (EnclPf.ulpExp (|Real.logb 10 ((c : ℝ) * (10 : ℝ) ^ e)|)) := by
  obtain ⟨hc, he, hval⟩ := logArg_val d h1 c e false hv
  obtain ⟨hsig, hexp⟩ := logArg_ok d h1 h2
  have hcmax : c ≤ Spec.Cmax := by rw [hc]; exact Enc.decompose_sig_le d
  have hX' : 1 + 1 / 10 ^ 60 ≤ ((val (logArg d) : ℚ) : ℝ) ∨ ((val (logArg d) : ℚ) : ℝ) ≤ 1 - 75 / 10 ^ 23 := by
    rw [hval]
    rcases hX with h | h
    · exact Or.inl (gap_above_one c e hcmax h)
    · exact Or.inr h
  have := scaled_accurate g.DefaultRoundingMode hg (logArg d) invLn10 hsig hexp hX' (Or.inr invLn10_exp)
    (1 / Real.log 10) invLn10_close inv_log10_ge inv_log10_le
  rw [hval, abs_logb 10 _ (by norm_num)] at this
  rw [Log10_eq' g d h1 h2 h3]
  exact this

/-- `|ln(b^k)|/ln b = |k|` -/
theorem abs_log_zpow (b : ℝ) (hb : 1 < b) (k : ℤ) :
    |Real.log (b ^ k)| * (1 / Real.log b) = ((k.natAbs : ℕ) : ℝ) := by
  have hl : 0 < Real.log b := Real.log_pos hb
  rw [Real.log_zpow, abs_mul, abs_of_pos hl, Nat.cast_natAbs]
  push_cast
  field_simp

theorem zpow_lt_one_iff' (b : ℝ) (hb : 1 < b) (k : ℤ) : b ^ k < 1 ↔ k < 0 := by
  constructor
  · intro h
    by_contra hc
    have : (1 : ℝ) ≤ b ^ k := one_le_zpow₀ hb.le (not_lt.mp hc)
    linarith
  · intro h
    exact zpow_lt_one_of_neg₀ hb h

/-- **`Log2(2^k) = k` exactly** (k ≠ 0; nearest default modes). -/
theorem log2_exact (g : Globals) (d : Decimal)
    (hg : g.DefaultRoundingMode = 0 ∨ g.DefaultRoundingMode = 1)
    (h1 : Decimal.isSpecial d = false) (h2 : Decimal.IsZero d = false) (h3 : Decimal.Signbit d = false)
    (c : ℕ) (e : ℤ) (hv : 𝔳[d] = .fin false c e) (k : ℤ) (hk0 : k ≠ 0)
    (hX : (c : ℝ) * (10 : ℝ) ^ e = (2 : ℝ) ^ k) :
    ∃ r rc re, Gen.Log2 g d = .ok r ∧ 𝔳[r] = .fin (decide (k < 0)) rc re ∧
      (rc : ℝ) * (10 : ℝ) ^ re = ((k.natAbs : ℕ) : ℝ) := by
  obtain ⟨-, -, hval⟩ := logArg_val d h1 c e false hv
  obtain ⟨hsig, hexp⟩ := logArg_ok d h1 h2
  have hval2 : ((val (logArg d) : ℚ) : ℝ) = (2 : ℝ) ^ k := by rw [hval, hX]
  have hl2 := Real.log_two_gt_d9
  have hL : 1 / 2 ≤ |Real.log ((val (logArg d) : ℚ) : ℝ)| := by
    rw [hval2, Real.log_zpow, abs_mul, abs_of_pos (by linarith : (0 : ℝ) < Real.log 2)]
    have hk1 : (1 : ℝ) ≤ |(k : ℝ)| := by
      have : 1 ≤ |k| := Int.one_le_abs hk0
      exact_mod_cast this
    nlinarith
  have := scaled_exact g.DefaultRoundingMode hg (logArg d) invLn2 hsig hexp hL (Or.inl invLn2_exp)
    (1 / Real.log 2) invLn2_close inv_log2_ge inv_log2_le k.natAbs
    (by rw [hval2]; exact abs_log_zpow 2 (by norm_num) k)
  rw [hval2] at this
  have hdec : decide ((2 : ℝ) ^ k < 1) = decide (k < 0) :=
    decide_eq_decide.mpr (zpow_lt_one_iff' 2 (by norm_num) k)
  rw [hdec] at this
  rw [Log2_eq' g d h1 h2 h3]
  exact this

/-- **`Log10(10^k) = k` exactly** (k ≠ 0; nearest default modes). -/
theorem log10_exact (g : Globals) (d : Decimal)
    (hg : g.DefaultRoundingMode = 0 ∨ g.DefaultRoundingMode = 1)
    (h1 : Decimal.isSpecial d = false) (h2 : Decimal.IsZero d = false) (h3 : Decimal.Signbit d = false)
    (c : ℕ) (e : ℤ) (hv : 𝔳[d] = .fin false c e) (k : ℤ) (hk0 : k ≠ 0)
    (hX : (c : ℝ) * (10 : ℝ) ^ e = (10 : ℝ) ^ k) :
    ∃ r rc re, Gen.Log10 g d = .ok r ∧ 𝔳[r] = .fin (decide (k < 0)) rc re ∧
      (rc : ℝ) * (10 : ℝ) ^ re = ((k.natAbs : ℕ) : ℝ) := by
  obtain ⟨-, -, hval⟩ := logArg_val d h1 c e false hv
  obtain ⟨hsig, hexp⟩ := logArg_ok d h1 h2
  have hval2 : ((val (logArg d) : ℚ) : ℝ) = (10 : ℝ) ^ k := by rw [hval, hX]
  have hl10 := log10_bounds.1
  have hL : 1 / 2 ≤ |Real.log ((val (logArg d) : ℚ) : ℝ)| := by
    rw [hval2, Real.log_zpow, abs_mul, abs_of_pos (by linarith : (0 : ℝ) < Real.log 10)]
    have hk1 : (1 : ℝ) ≤ |(k : ℝ)| := by
      have : 1 ≤ |k| := Int.one_le_abs hk0
      exact_mod_cast this
    nlinarith
  have := scaled_exact g.DefaultRoundingMode hg (logArg d) invLn10 hsig hexp hL (Or.inr invLn10_exp)
    (1 / Real.log 10) invLn10_close inv_log10_ge inv_log10_le k.natAbs
    (by rw [hval2]; exact abs_log_zpow 10 (by norm_num) k)
  rw [hval2] at this
  have hdec : decide ((10 : ℝ) ^ k < 1) = decide (k < 0) :=
    decide_eq_decide.mpr (zpow_lt_one_iff' 10 (by norm_num) k)
  rw [hdec] at this
  rw [Log10_eq' g d h1 h2 h3]
  exact this

end LogAcc
