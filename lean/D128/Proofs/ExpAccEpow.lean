/-
  D128/Proofs/ExpAccEpow.lean — property C16: `decomposed192.epow` against `Real.exp` (`EpowHyp` of
  ExpAccExp.lean), assembled from
  * `epow_head` (ExpAccHornerEpow.lean, by sub-engineer SA1): the Horner value `y` with size information,
  * `D192.powexp10_spec` (value of `powexp10`), `powexp10_big` (ExpAccPwNorm.lean, SA4: size),
  * `horner_real`, `pow_real` (ExpAccReal.lean).

  Provided (namespace `ExpAcc`):
  * `epow_arg`  : the argument reduction `x·10^o = val a`, `0 < x ≤ 1`, `0 ≤ o ≤ 7`, `o = 0 ∨ x ≥ 1/10`
  * `epowHyp`   : `EpowHyp`
  * `epowPre_of_log` : `EpowPre a l10` from `a.sig ≠ 0`, the exponent range, `l10 = ⌊log10 a.sig⌋`, `a.exp + l10 + 1 ≤ 7`
  * `Exp_ok`    : `Exp_general` without hypothesis
-/
import D128.Proofs.ExpAccExp
import D128.Proofs.ExpAccHornerEpow
import D128.Proofs.ExpAccPwNorm
set_option autoImplicit false
set_option maxRecDepth 4096
set_option exponentiation.threshold 512

namespace ExpAcc
open Gen D192 Spec SpecRound EnclPf
local notation "𝔳[" d "]" => Spec.interp (Gen.Decimal.lo d) (Gen.Decimal.hi d)

theorem i16_zero_toInt : (0 : Int16).toInt = 0 := by decide

/-- the argument reduction of `epow` -/
theorem epow_arg (a : decomposed192) (l10 : Int16) (h : EpowPre a l10) :
    0 ≤ (epowO a l10).toInt ∧ (epowO a l10).toInt ≤ 7 ∧ 0 < epowX a l10 ∧ epowX a l10 ≤ 1 ∧
    epowX a l10 * (10 : ℚ) ^ ((epowO a l10).toInt.toNat) = val a ∧
    (epowO a l10 = 0 ∨ (l10.toInt = Nat.log 10 a.sig.toNat → 1 / 10 ≤ epowX a l10)) := by
  have he := epow_exp_toInt a l10 h
  obtain ⟨h0, h1, h2, h3, h4, h5, h6⟩ := h
  have hsig : (0 : ℚ) < (a.sig.toNat : ℚ) := by exact_mod_cast Nat.pos_of_ne_zero h0
  by_cases hE : epowE a l10 < 0
  · have hX : epowX a l10 = val a := by unfold epowX; rw [if_pos hE]
    have hO : epowO a l10 = 0 := by unfold epowO; rw [if_pos hE]
    rw [hX] at h6 ⊢
    rw [hO, i16_zero_toInt]
    refine ⟨le_refl _, by norm_num, ?_, h6, by simp, Or.inl rfl⟩
    exact mul_pos hsig (zpow_pos (by norm_num) _)
  · have hX : epowX a l10 = (a.sig.toNat : ℚ) * (10 : ℚ) ^ (-l10.toInt - 1) := by
      unfold epowX; rw [if_neg hE]
    have hO : epowO a l10 = a.exp + l10 + 1 := by unfold epowO; rw [if_neg hE]
    rw [hX] at h6 ⊢
    rw [hO, he]
    have hEn : 0 ≤ epowE a l10 := not_lt.1 hE
    refine ⟨hEn, h5, mul_pos hsig (zpow_pos (by norm_num) _), h6, ?_, Or.inr ?_⟩
    · unfold val
      rw [mul_assoc, ← zpow_natCast, ← zpow_add₀ (by norm_num : (10 : ℚ) ≠ 0)]
      congr 2
      rw [Int.toNat_of_nonneg hEn]; unfold epowE; ring
    · intro hl
      have hb := (log_bounds a.sig.toNat (Nat.pos_of_ne_zero h0)).1
      rw [hl]
      have hp : (0 : ℚ) < (10 : ℚ) ^ (-(Nat.log 10 a.sig.toNat : Int) - 1) := zpow_pos (by norm_num) _
      have e1 : (10 : ℚ) ^ ((Nat.log 10 a.sig.toNat : Int)) * (10 : ℚ) ^ (-(Nat.log 10 a.sig.toNat : Int) - 1)
          = 1 / 10 := by
        rw [← zpow_add₀ (by norm_num),
          show ((Nat.log 10 a.sig.toNat : Int)) + (-(Nat.log 10 a.sig.toNat : Int) - 1) = -1 by ring]
        norm_num
      calc (1 : ℚ) / 10 = (10 : ℚ) ^ ((Nat.log 10 a.sig.toNat : Int)) * (10 : ℚ) ^ (-(Nat.log 10 a.sig.toNat : Int) - 1) :=
            e1.symm
        _ ≤ (a.sig.toNat : ℚ) * (10 : ℚ) ^ (-(Nat.log 10 a.sig.toNat : Int) - 1) :=
            mul_le_mul_of_nonneg_right hb hp.le

/-- `R x ≥ 1 + x` -/
theorem R_ge (x : ℚ) (h0 : 0 ≤ x) : 1 + x ≤ R x := by
  rw [R_eq]
  have hs : (∑ k ∈ Finset.range 39, x ^ k / (Nat.factorial k : ℚ))
      = 1 + x + ∑ k ∈ Finset.range 37, x ^ (k + 2) / (Nat.factorial (k + 2) : ℚ) := by
    rw [Finset.sum_range_succ' _ 38, Finset.sum_range_succ' _ 37]
    simp; ring
  rw [hs]
  have h1 : 0 ≤ ∑ k ∈ Finset.range 37, x ^ (k + 2) / (Nat.factorial (k + 2) : ℚ) :=
    Finset.sum_nonneg (fun k _ => by positivity)
  have h2 : 0 ≤ x ^ 40 / (Nat.factorial 40 : ℚ) := by positivity
  linarith

/-- the Horner value is above 1 by about `x` -/
theorem horner_gt_one (x v : ℚ) (h0 : 0 ≤ x) (hlo : R x * (1 - theta) ^ 118 ≤ v) :
    (1 + x) * (1 - 118 / 10 ^ 56) ≤ v := by
  have hR := R_ge x h0
  have hb := one_add_mul_le_pow (a := -theta) (by have := theta_pos; unfold theta at *; norm_num) 118
  have e : (1 + -theta) = 1 - theta := by ring
  rw [e] at hb
  have hθ : theta = 1 / 10 ^ 56 := rfl
  have h1 : (1 : ℚ) - 118 / 10 ^ 56 ≤ (1 - theta) ^ 118 := by
    rw [hθ] at hb ⊢; push_cast at hb; linarith
  have hp : (0 : ℚ) ≤ (1 - theta) ^ 118 := pow_nonneg one_sub_theta_pos.le _
  calc (1 + x) * (1 - 118 / 10 ^ 56) ≤ R x * (1 - 118 / 10 ^ 56) :=
        mul_le_mul_of_nonneg_right hR (by norm_num)
    _ ≤ R x * (1 - theta) ^ 118 := mul_le_mul_of_nonneg_left h1 (by linarith)
    _ ≤ v := hlo

/-- **the power stage**: a Horner value `y` for the reduced argument `x` (`x·10^o = val a`), raised to the power
`10^o` by `powexp10`, against `e^(val a)` -/
theorem pow_stage (a : decomposed192) (x : ℚ) (o : Int16) (y : decomposed192) (ty : Int8)
    (hx0 : 0 < x) (hx1 : x ≤ 1) (ho0 : 0 ≤ o.toInt) (ho7 : o.toInt ≤ 7)
    (hxa : x * (10 : ℚ) ^ (o.toInt.toNat) = val a) (hx10 : o = 0 ∨ 1 / 10 ≤ x)
    (hy1 : R x * (1 - theta) ^ 118 ≤ val y) (hy2 : val y ≤ R x) (hy3 : 1 ≤ val y)
    (htyf : ty = 0 ∨ ty = 1) (hysz : y = D192.one ∨ 10 ^ 55 ≤ y.sig.toNat) :
    ∃ z, decomposed192.powexp10 y o ty = .ok z ∧ EpowFacts a z := by
  obtain ⟨z, hz, hcases⟩ := powexp10_spec y o ty hy3 ho0 ho7
  refine ⟨z, hz, ?_⟩
  obtain ⟨hr1, hr2⟩ := horner_real x hx0.le hx1 (val y) hy1 hy2
  have hgt := horner_gt_one x (val y) hx0.le hy1
  rcases hcases with ⟨ho0', hzy⟩ | ⟨hone, hpost⟩
  · -- o = 0: the result is the Horner value
    right
    have hav : val a = x := by
      rw [← hxa, ho0', i16_zero_toInt]; simp
    rw [hzy, hav]
    refine ⟨htyf, ?_, hr2, by linarith, hysz, ?_⟩
    · have he : 0 < Real.exp (x : ℝ) := Real.exp_pos _
      nlinarith
    · intro hyo
      have hyo' : y = D192.one := hyo
      have hv1 : val y = 1 := by rw [hyo', val_one]
      rw [hv1] at hgt
      -- (1+x)(1 - 1.18e-54) ≤ 1
      have : x * (1 - 118 / 10 ^ 56) ≤ 118 / 10 ^ 56 := by linarith
      have h2 : x * (1 / 2) ≤ x * (1 - 118 / 10 ^ 56) := mul_le_mul_of_nonneg_left (by norm_num) hx0.le
      have : x ≤ 236 / 10 ^ 56 := by linarith
      calc x ≤ 236 / 10 ^ 56 := this
        _ < 1 / 10 ^ 50 := by norm_num
  · -- o ≥ 1: the power
    have hoN : o ≠ 0 := hone
    have hx10' : 1 / 10 ≤ x := hx10.resolve_left hoN
    have hopos : 1 ≤ o.toInt := by
      by_contra hcon
      apply hoN; apply Int16.toInt_inj.1; rw [i16_zero_toInt]; omega
    set P := 10 ^ o.toInt.toNat with hP
    have hP7 : P ≤ 10 ^ 7 := Nat.pow_le_pow_right (by norm_num) (by omega)
    have hP10 : 10 ≤ P := by
      calc 10 = 10 ^ 1 := by norm_num
        _ ≤ 10 ^ o.toInt.toNat := Nat.pow_le_pow_right (by norm_num) (by omega)
    have hav : (x : ℝ) * (P : ℝ) = ((val a : ℚ) : ℝ) := by
      rw [← hxa, hP]; push_cast; rfl
    -- x·P ≥ 1
    have hxP : (1 : ℝ) ≤ (x : ℝ) * (P : ℝ) := by
      have h1 : ((1 / 10 : ℚ) : ℝ) ≤ (x : ℝ) := by exact_mod_cast hx10'
      have h2 : (10 : ℝ) ≤ (P : ℝ) := by exact_mod_cast hP10
      push_cast at h1
      nlinarith
    rcases hpost with ⟨hdinf, hhuge⟩ | ⟨hz1, hz2, hf1, hf2⟩
    · left
      refine ⟨hdinf, ?_⟩
      rw [← hav, mul_comm, Real.exp_nat_mul]
      have h1 : (((10 : ℚ) ^ (16326 : Int) : ℚ) : ℝ) ≤ ((val y ^ P : ℚ) : ℝ) := Rat.cast_le.2 hhuge
      rw [Rat.cast_zpow, Rat.cast_pow, Rat.cast_ofNat, zpow_ofNat] at h1
      have hy0 : (0 : ℝ) ≤ ((val y : ℚ) : ℝ) := by exact_mod_cast (val_nonneg y)
      exact le_trans h1 (pow_le_pow_left₀ hy0 hr2 P)
    · right
      obtain ⟨hp1, hp2⟩ := pow_real x P hP7 (val y) (val z.1) hr1 hr2 hz1 hz2
      rw [hav] at hp1 hp2
      refine ⟨?_, hp1, hp2, ?_, ?_, ?_⟩
      · by_cases hex : val z.1 = val y ^ P
        · rw [hf1 hex]; split <;> simp
        · right; exact hf2 hex
      · -- 1/2 ≤ val z
        have h1 : (1 : ℚ) ≤ val y ^ P := one_le_pow₀ hy3
        have h2 := pow_eps_ge_half P hP7
        calc (1 : ℚ) / 2 ≤ 1 * (1 - D192.eps) ^ P := by linarith
          _ ≤ val y ^ P * (1 - D192.eps) ^ P := mul_le_mul_of_nonneg_right h1 (by linarith)
          _ ≤ val z.1 := hz1
      · -- size: y is not `one` here
        have hyne : y ≠ D192.one := by
          intro hyo
          have hv1 : val y = 1 := by rw [hyo, val_one]
          rw [hv1] at hgt
          have : (1 + 1 / 10 : ℚ) * (1 - 118 / 10 ^ 56) ≤ (1 + x) * (1 - 118 / 10 ^ 56) :=
            mul_le_mul_of_nonneg_right (by linarith) (by norm_num)
          have h3 : (1 : ℚ) < (1 + 1 / 10) * (1 - 118 / 10 ^ 56) := by norm_num
          linarith
        have hbig := powexp10_big y o ty (10 ^ 55) (by norm_num) (by norm_num) (hysz.resolve_left hyne) z hz
        right
        rcases hbig with h | h
        · rw [h]; decide
        · exact h
      · -- z = one is impossible: val z ≥ e·(1 - 1e-38) > 1
        intro hzo
        exfalso
        have hv1 : ((val z.1 : ℚ) : ℝ) = 1 := by rw [hzo, val_one]; norm_num
        rw [hv1] at hp1
        have he : (2 : ℝ) ≤ Real.exp ((val a : ℚ) : ℝ) := by
          rw [← hav]
          have := Real.add_one_le_exp ((x : ℝ) * (P : ℝ))
          linarith
        nlinarith


/-- **`epow` against the real exponential** -/
theorem epowHyp : EpowHyp := by
  intro a l10 t hpre hl ht
  obtain ⟨ho0, ho7, hx0, hx1, hxa, hx10⟩ := epow_arg a l10 hpre
  obtain ⟨y, ty, heq, hy1, hy2, hy3, hty, hysz, -, -⟩ := epow_head a l10 t hpre
  have htyf : ty = 0 ∨ ty = 1 := by
    rcases hty with h | h
    · rw [h]; exact ht
    · right; exact h
  rw [heq]
  exact pow_stage a _ _ y ty hx0 hx1 ho0 ho7 hxa
    (hx10.imp id (fun h => h hl)) hy1 hy2 hy3 htyf hysz

/-- `EpowPre` from the digit count of the significand -/
theorem epowPre_of_log (a : decomposed192) (l10 : Int16) (hs : a.sig.toNat ≠ 0)
    (he0 : -15900 ≤ a.exp.toInt) (he1 : a.exp.toInt ≤ 16000)
    (hl : l10.toInt = Nat.log 10 a.sig.toNat) (hE : a.exp.toInt + l10.toInt + 1 ≤ 7) :
    EpowPre a l10 := by
  have hk : Nat.log 10 a.sig.toNat < 58 := by
    have hlt := D128.Proofs.WordsWide.U192.toNat_lt a.sig
    by_contra hc
    have h1 := Nat.pow_log_le_self 10 (x := a.sig.toNat) hs
    have h2 : 10 ^ 58 ≤ 10 ^ Nat.log 10 a.sig.toNat := Nat.pow_le_pow_right (by norm_num) (by omega)
    have : (2 : Nat) ^ 192 < 10 ^ 58 := by norm_num
    omega
  obtain ⟨hb1, hb2⟩ := log_bounds a.sig.toNat (Nat.pos_of_ne_zero hs)
  refine ⟨hs, he0, he1, by omega, by omega, hE, ?_⟩
  set L := Nat.log 10 a.sig.toNat with hL
  have hp : (0 : ℚ) < (10 : ℚ) ^ (-(L : Int) - 1) := zpow_pos (by norm_num) _
  have e1 : (10 : ℚ) ^ ((L : Int) + 1) * (10 : ℚ) ^ (-(L : Int) - 1) = 1 := by
    rw [← zpow_add₀ (by norm_num)]; norm_num
  have hcq : (0 : ℚ) ≤ (a.sig.toNat : ℚ) := Nat.cast_nonneg _
  unfold epowX epowE
  rw [hl]
  split
  · rename_i hneg
    unfold val
    have h10 : (10 : ℚ) ^ a.exp.toInt ≤ (10 : ℚ) ^ (-(L : Int) - 1) :=
      zpow_le_zpow_right₀ (by norm_num) (by omega)
    calc (a.sig.toNat : ℚ) * (10 : ℚ) ^ a.exp.toInt
        ≤ (a.sig.toNat : ℚ) * (10 : ℚ) ^ (-(L : Int) - 1) := mul_le_mul_of_nonneg_left h10 hcq
      _ ≤ (10 : ℚ) ^ ((L : Int) + 1) * (10 : ℚ) ^ (-(L : Int) - 1) :=
          mul_le_mul_of_nonneg_right hb2.le hp.le
      _ = 1 := e1
  · calc (a.sig.toNat : ℚ) * (10 : ℚ) ^ (-(L : Int) - 1)
        ≤ (10 : ℚ) ^ ((L : Int) + 1) * (10 : ℚ) ^ (-(L : Int) - 1) :=
          mul_le_mul_of_nonneg_right hb2.le hp.le
      _ = 1 := e1

/-- **`Gen.Exp` on every finite non-zero argument**, nearest default mode: no panic; the result is non-negative
and is not a `GeneralViolation` for `e^x`. -/
theorem Exp_ok (g : Globals) (m : Spec.Mode)
    (hm : Spec.Mode.ofNat? g.DefaultRoundingMode.toNat = some m) (hn : isNearest m = true)
    (d : Decimal) (h1 : Decimal.isSpecial d = false) (h2 : Decimal.IsZero d = false) :
    ∃ r, Gen.Exp g d = .ok r ∧ (𝔳[r]).neg = false ∧
      ¬ GeneralViolation
        (Real.exp (X (Decimal.Signbit d) d.decompose.1.toNat (d.decompose.2.toInt - 6176))) 𝔳[r] :=
  Exp_general epowHyp g m hm hn d h1 h2

end ExpAcc
