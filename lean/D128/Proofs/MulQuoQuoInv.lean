/-
  D128/Proofs/MulQuoQuoInv.lean — the two digit-accumulation loops of `Gen.Decimal.QuoWithMode`
  (bodies `MQ.fastBody`, `MQ.mainBody` of `MulQuoQuoCode.lean`) against the quotient invariant.

  With `D`, `O` the significands of dividend and divisor and `E0` the starting exponent:
  * `QI D O E0 e s r`     : `∃ k, e = E0 - k ∧ D·10^k = s·O + r ∧ r < O`
                            (`s` is the integer quotient of `D·10^k` by `O`, `r` the remainder)
  * `MI D O E0 e s r t`   : the same after `j` low digits of the quotient `S` were dropped:
                            `e = E0 - k + j`, `s = S / 10^j`, `t = 1` iff a non-zero digit was dropped,
                            and `j = 0` unless `s ≥ (2^128 - 9)/10`
  * `QI_scale_div`, `QI_scale_stop`, `QE_k_lt` : arithmetic of one pass
  * `fastLoop`            : the 64-bit loop keeps `QI` (result significand `sig64 + 2^64·carry`)
  * `mainLoop`            : the 128-bit loop establishes `MI` and `rem = 0 ∨ Cmax < sig`
  Both show termination and absence of panics / `Int16` wrap-around.
-/
import D128.Proofs.MulQuoQuoLoops
import D128.Proofs.Words128Div

set_option autoImplicit false
set_option maxRecDepth 8192
set_option linter.unusedVariables false

namespace MQ
open Gen

/-- `s`, `r` are quotient and remainder of `D·10^k` by `O`, with `e = E0 - k` -/
def QI (D O : Nat) (E0 : Int) (e : Int) (s r : Nat) : Prop :=
  ∃ k : Nat, e = E0 - (k : Int) ∧ D * 10 ^ k = s * O + r ∧ r < O

theorem QE_k_lt (D O k s r : Nat) (h : D * 10 ^ k = s * O + r) (hD : 0 < D) (hs : s < 2 ^ 128)
    (hO : O < 2 ^ 114) (hr : r < 2 ^ 128) : k < 80 := by
  by_contra hc
  have h1 : (10 : Nat) ^ 80 ≤ 10 ^ k := Nat.pow_le_pow_right (by norm_num) (by omega)
  have h2 : 10 ^ k ≤ D * 10 ^ k := Nat.le_mul_of_pos_left _ hD
  have h3 : s * O ≤ 2 ^ 128 * 2 ^ 114 := Nat.mul_le_mul hs.le hO.le
  have h4 : (2 : Nat) ^ 128 * 2 ^ 114 + 2 ^ 128 < 10 ^ 80 := by norm_num
  omega

/-- scaling by `10^m`, then dividing the remainder -/
theorem QI_scale_div (D O : Nat) (E0 e : Int) (s r m : Nat) (hO : 0 < O) (h : QI D O E0 e s r) :
    QI D O E0 (e - (m : Int)) (s * 10 ^ m + r * 10 ^ m / O) (r * 10 ^ m % O) := by
  obtain ⟨k, he, hq, hr⟩ := h
  refine ⟨k + m, by rw [he]; push_cast; ring, ?_, Nat.mod_lt _ hO⟩
  have := Nat.div_add_mod (r * 10 ^ m) O
  calc D * 10 ^ (k + m) = (D * 10 ^ k) * 10 ^ m := by rw [Nat.pow_add, Nat.mul_assoc]
    _ = s * 10 ^ m * O + r * 10 ^ m := by rw [hq]; ring
    _ = s * 10 ^ m * O + (O * (r * 10 ^ m / O) + r * 10 ^ m % O) := by rw [this]
    _ = _ := by ring

/-- scaling by `10^m` when the scaled remainder is still below the divisor -/
theorem QI_scale_stop (D O : Nat) (E0 e : Int) (s r m : Nat) (h : QI D O E0 e s r)
    (hlt : r * 10 ^ m < O) : QI D O E0 (e - (m : Int)) (s * 10 ^ m) (r * 10 ^ m) := by
  obtain ⟨k, he, hq, hr⟩ := h
  refine ⟨k + m, by rw [he]; push_cast; ring, ?_, hlt⟩
  calc D * 10 ^ (k + m) = (D * 10 ^ k) * 10 ^ m := by rw [Nat.pow_add, Nat.mul_assoc]
    _ = _ := by rw [hq]; ring

theorem QI_e_ge (D O : Nat) (E0 e : Int) (s r : Nat) (h : QI D O E0 e s r) (hD : 0 < D)
    (hs : s < 2 ^ 128) (hO : O < 2 ^ 114) : E0 - 80 ≤ e ∧ e ≤ E0 := by
  obtain ⟨k, he, hq, hr⟩ := h
  have := QE_k_lt D O k s r hq hD hs hO (by omega)
  omega

/-! ## the 64-bit loop -/

theorem div64_zero (lo y : UInt64) (hy : 0 < y.toNat) :
    ∃ q r : UInt64, Go.bits.Div64 0 lo y = .ok (q, r) ∧ q.toNat = lo.toNat / y.toNat ∧
      r.toNat = lo.toNat % y.toNat := by
  have h0 : (0 : UInt64).toNat < y.toNat := by simpa using hy
  refine ⟨_, _, Go.bits.Div64_eq 0 lo y h0, ?_, ?_⟩
  · rw [Go.bits.Div64_quo_toNat 0 lo y h0]; simp
  · rw [Go.bits.Div64_rem_toNat 0 lo y h0]; simp

theorem pow_lt_of_mul_lt (r m B : Nat) (hr : 0 < r) (h : r * 10 ^ m < B) : 10 ^ m < B :=
  lt_of_le_of_lt (Nat.le_mul_of_pos_left _ hr) h

theorem fastLoop (D O : Nat) (E0 : Int) (o : UInt64) (hO : o.toNat = O) (hOpos : 0 < O) (hD : 0 < D)
    (hE0 : -7000 ≤ E0) (hE1 : E0 ≤ 19000)
    (s : FSt) (hc : s.2.2.2 = 0) (h : QI D O E0 s.1.toInt s.2.1.toNat s.2.2.1.toNat) :
    ∃ s' : FSt, forIn (m := Go.GoM) Lean.Loop.mk s (fastBody o) = .ok s' ∧
      QI D O E0 s'.1.toInt (s'.2.1.toNat + 2 ^ 64 * s'.2.2.2.toNat) s'.2.2.1.toNat := by
  apply RK.loop_inv (fastBody o)
    (fun b : FSt => b.2.2.2 = 0 ∧ QI D O E0 b.1.toInt b.2.1.toNat b.2.2.1.toNat)
    (fun b : FSt => QI D O E0 b.1.toInt (b.2.1.toNat + 2 ^ 64 * b.2.2.2.toNat) b.2.2.1.toNat)
    (fun b : FSt => 2 ^ 64 - b.2.1.toNat) _ s ⟨hc, h⟩
  rintro b ⟨hcb, hb⟩
  have hOlt : O < 2 ^ 114 := by have := o.toNat_lt; omega
  have hslt := b.2.1.toNat_lt
  obtain ⟨he0, he1⟩ := QI_e_ge D O E0 _ _ _ hb hD (by omega) hOlt
  by_cases hcond : (b.2.2.1 != 0 && decide (b.2.1 ≤ 1801439850948198399)) = true
  · have hcond' := hcond
    rw [Bool.and_eq_true, RK.u64_ne_zero_iff, decide_eq_true_eq, decide_eq_true_eq] at hcond'
    obtain ⟨hr0, hsle⟩ := hcond'
    obtain ⟨s1, m1, e1, h1e, h1s, h1r, h1c⟩ := fsLoop4 (b.1, b.2.1, b.2.2.1)
      (by show 0 < b.2.2.1.toNat; omega) (by show -31000 ≤ b.1.toInt; omega)
    simp only [] at h1e h1s h1r
    have hm1 : m1 < 39 := by
      apply pow_lt_imp_lt
      have := s1.2.2.toNat_lt
      have := pow_lt_of_mul_lt b.2.2.1.toNat m1 (2 ^ 64) (by omega) (by omega)
      omega
    have hp1 : 0 < 10 ^ m1 := Nat.pow_pos (by norm_num)
    obtain ⟨s2, m2, e2, h2e, h2s, h2r, h2c⟩ := fsLoop1 (s1.1, s1.2.1, s1.2.2)
      (by show 0 < s1.2.2.toNat; rw [h1r]; exact Nat.mul_pos (by omega) hp1)
      (by show -31000 ≤ s1.1.toInt; omega)
    simp only [] at h2e h2s h2r
    -- the combined scaling
    have hS : s2.2.1.toNat = b.2.1.toNat * 10 ^ (m1 + m2) := by
      rw [h2s, h1s, Nat.pow_add, Nat.mul_assoc]
    have hR : s2.2.2.toNat = b.2.2.1.toNat * 10 ^ (m1 + m2) := by
      rw [h2r, h1r, Nat.pow_add, Nat.mul_assoc]
    have hE : s2.1.toInt = b.1.toInt - ((m1 + m2 : Nat) : Int) := by
      rw [h2e, h1e]; push_cast; ring
    have hp : 0 < 10 ^ (m1 + m2) := Nat.pow_pos (by norm_num)
    by_cases hlt : decide (s2.2.2 < o) = true
    · right
      refine ⟨(s2.1, s2.2.1, s2.2.2, b.2.2.2), ?_, ?_⟩
      · simp only [fastBody, hcond, if_true, e1, e2, D128.Proofs.WordsWide.ok_bind, hlt]; rfl
      · show QI D O E0 s2.1.toInt (s2.2.1.toNat + 2 ^ 64 * b.2.2.2.toNat) s2.2.2.toNat
        rw [hcb, hS, hR, hE]
        simp only [UInt64.toNat_zero, Nat.mul_zero, Nat.add_zero]
        apply QI_scale_stop _ _ _ _ _ _ _ hb
        rw [decide_eq_true_eq, UInt64.lt_iff_toNat_lt, hR, hO] at hlt
        exact hlt
    · have hge : O ≤ s2.2.2.toNat := by
        rw [decide_eq_true_eq, UInt64.lt_iff_toNat_lt, hO] at hlt; omega
      obtain ⟨q, r, ed, hq, hr⟩ := div64_zero s2.2.2 o (by omega)
      rw [hO, hR] at hq hr
      have hadd := Go.bits.Add64_spec s2.2.1 q 0 (by simp)
      simp only [UInt64.toNat_zero, Nat.add_zero] at hadd
      have hQ := QI_scale_div D O E0 _ _ _ (m1 + m2) hOpos hb
      have hq1 : 1 ≤ q.toNat := by
        rw [hq, ← hR]; exact (Nat.one_le_div_iff hOpos).2 hge
      have hsge : b.2.1.toNat ≤ s2.2.1.toNat := by
        rw [hS]; exact Nat.le_mul_of_pos_right _ hp
      by_cases hcarry : ((Go.bits.Add64 s2.2.1 q 0).2 != 0) = true
      · right
        refine ⟨(s2.1, (Go.bits.Add64 s2.2.1 q 0).1, r, (Go.bits.Add64 s2.2.1 q 0).2), ?_, ?_⟩
        · simp only [fastBody, hcond, if_true, e1, e2, D128.Proofs.WordsWide.ok_bind, hlt, ed,
            Bool.false_eq_true, if_false, hcarry]
          rfl
        · show QI D O E0 s2.1.toInt ((Go.bits.Add64 s2.2.1 q 0).1.toNat +
            2 ^ 64 * (Go.bits.Add64 s2.2.1 q 0).2.toNat) r.toNat
          have : (Go.bits.Add64 s2.2.1 q 0).1.toNat + 2 ^ 64 * (Go.bits.Add64 s2.2.1 q 0).2.toNat
              = b.2.1.toNat * 10 ^ (m1 + m2) + b.2.2.1.toNat * 10 ^ (m1 + m2) / O := by
            rw [← hS, ← hq]; omega
          rw [this, hr, hE]; exact hQ
      · left
        have hc0 : (Go.bits.Add64 s2.2.1 q 0).2 = 0 := by simpa using hcarry
        have hsum : (Go.bits.Add64 s2.2.1 q 0).1.toNat
            = b.2.1.toNat * 10 ^ (m1 + m2) + b.2.2.1.toNat * 10 ^ (m1 + m2) / O := by
          have := hadd.1
          rw [hc0] at this
          rw [← hS, ← hq]; simpa using this
        refine ⟨(s2.1, (Go.bits.Add64 s2.2.1 q 0).1, r, (Go.bits.Add64 s2.2.1 q 0).2), ?_, ⟨hc0, ?_⟩, ?_⟩
        · simp only [fastBody, hcond, if_true, e1, e2, D128.Proofs.WordsWide.ok_bind, hlt, ed,
            Bool.false_eq_true, if_false, hcarry]
          rfl
        · show QI D O E0 s2.1.toInt (Go.bits.Add64 s2.2.1 q 0).1.toNat r.toNat
          rw [hsum, hr, hE]; exact hQ
        · show 2 ^ 64 - (Go.bits.Add64 s2.2.1 q 0).1.toNat < 2 ^ 64 - b.2.1.toNat
          have := (Go.bits.Add64 s2.2.1 q 0).1.toNat_lt
          rw [hsum, ← hS, ← hq]
          rw [hsum, ← hS, ← hq] at this
          omega
  · right
    refine ⟨b, ?_, ?_⟩
    · simp only [fastBody, hcond, Bool.false_eq_true, if_false]; rfl
    · rw [hcb]; simpa using hb

/-- the hypotheses of `fastLoop` are satisfiable: `1 / 3` before the first digit -/
example := fastLoop 1 3 6176 3 rfl (by decide) (by decide) (by decide) (by decide) (6176, 0, 1, 0) rfl
  ⟨0, by decide, by decide, by decide⟩

/-! ## the 128-bit loop -/

/-- the state of the 128-bit loop: `S` is the integer quotient of `D·10^k` by `O`, `rem` the remainder,
    `sig` is `S` without its `j` low digits, the sticky flag `t` tells whether a non-zero digit was
    dropped; digits are only dropped from a sum that overflowed 128 bits -/
def MI (D O : Nat) (E0 : Int) (e : Int) (sig rem : Nat) (t : Int8) : Prop :=
  ∃ k j S : Nat, e = E0 - (k : Int) + (j : Int) ∧ D * 10 ^ k = S * O + rem ∧ rem < O ∧
    sig = S / 10 ^ j ∧ t = (if S % 10 ^ j ≠ 0 then 1 else 0) ∧ (j = 0 ∨ 2 ^ 128 ≤ 10 * sig + 9)

theorem MI_of_QI (D O : Nat) (E0 e : Int) (s r : Nat) (h : QI D O E0 e s r) : MI D O E0 e s r 0 := by
  obtain ⟨k, he, hq, hr⟩ := h
  exact ⟨k, 0, s, by rw [he]; simp, hq, hr, by simp, by simp [Nat.mod_one], Or.inl rfl⟩

theorem u128_ne_zero_iff (n : U128) : (n.w0 ||| n.w1 != 0) = decide (n.toNat ≠ 0) := by
  have h0 := n.w0.toNat_lt
  rw [Bool.eq_iff_iff, bne_iff_ne, decide_eq_true_eq, ne_eq, ne_eq, UInt64.or_eq_zero_iff,
    ← UInt64.toNat_inj, ← UInt64.toNat_inj]
  simp only [U128.toNat, UInt64.toNat_zero]
  omega

theorem u192_low (n : U192) (h : n.toNat < 2 ^ 128) :
    ({ w0 := n.w0, w1 := n.w1 } : U128).toNat = n.toNat := by
  have h0 := n.w0.toNat_lt
  have h1 := n.w1.toNat_lt
  simp only [U128.toNat, U192.toNat] at *
  omega

theorem mainLoop (D O : Nat) (E0 : Int) (oS : U128) (hO : oS.toNat = O) (hOpos : 0 < O)
    (hOle : O ≤ 12980742146337069071326240823050239) (hD : 0 < D)
    (hE0 : -7000 ≤ E0) (hE1 : E0 ≤ 19000)
    (s : MSt) (h : MI D O E0 s.1.toInt s.2.1.toNat s.2.2.1.toNat s.2.2.2) :
    ∃ s' : MSt, forIn (m := Go.GoM) Lean.Loop.mk s (mainBody oS) = .ok s' ∧
      MI D O E0 s'.1.toInt s'.2.1.toNat s'.2.2.1.toNat s'.2.2.2 ∧
      (s'.2.2.1.toNat = 0 ∨ 12980742146337069071326240823050239 < s'.2.1.toNat) := by
  apply RK.loop_inv (mainBody oS)
    (fun b : MSt => MI D O E0 b.1.toInt b.2.1.toNat b.2.2.1.toNat b.2.2.2)
    (fun b : MSt => MI D O E0 b.1.toInt b.2.1.toNat b.2.2.1.toNat b.2.2.2 ∧
      (b.2.2.1.toNat = 0 ∨ 12980742146337069071326240823050239 < b.2.1.toNat))
    (fun b : MSt => if b.2.2.1.toNat ≠ 0 ∧ b.2.1.toNat ≤ 12980742146337069071326240823050239
      then 2 ^ 128 - b.2.1.toNat else 0) _ s h
  intro b hb
  have hOlt : O < 2 ^ 114 := by omega
  by_cases hcond : (b.2.2.1.w0 ||| b.2.2.1.w1 != 0 && decide (b.2.1.w1 ≤ 703687441776639)) = true
  · left
    have hcond' := hcond
    rw [Bool.and_eq_true, u128_ne_zero_iff, w1_le4_iff, decide_eq_true_eq, decide_eq_true_eq] at hcond'
    obtain ⟨hr0, hsle⟩ := hcond'
    -- no digit has been dropped yet
    obtain ⟨k, j, S, hek, hqk, hrk, hsig, htr, hJ⟩ := hb
    have hj : j = 0 := by
      rcases hJ with hJ | hJ
      · exact hJ
      · omega
    subst hj
    simp only [Nat.pow_zero, Nat.div_one, Nat.mod_one, ne_eq, not_true_eq_false, if_false,
      Nat.cast_zero, add_zero] at hek hsig htr
    have hqi : QI D O E0 b.1.toInt b.2.1.toNat b.2.2.1.toNat := ⟨k, hek, by rw [hsig]; exact hqk, hrk⟩
    obtain ⟨he0, he1⟩ := QI_e_ge D O E0 _ _ _ hqi hD (by omega) hOlt
    obtain ⟨s1, m1, e1, h1e, h1s, h1r, h1c⟩ := msLoop4 (b.1, b.2.1, b.2.2.1)
      (by show 0 < b.2.2.1.toNat; omega) (by show -31000 ≤ b.1.toInt; omega)
    simp only [] at h1e h1s h1r
    have hm1 : m1 < 39 := by
      apply pow_lt_imp_lt
      have := s1.2.2.toNat_lt
      have := pow_lt_of_mul_lt b.2.2.1.toNat m1 (2 ^ 128) (by omega) (by omega)
      omega
    have hp1 : 0 < 10 ^ m1 := Nat.pow_pos (by norm_num)
    obtain ⟨s2, m2, e2, h2e, h2s, h2r, h2c⟩ := msLoop1 (s1.1, s1.2.1, s1.2.2)
      (by show 0 < s1.2.2.toNat; rw [h1r]; exact Nat.mul_pos (by omega) hp1)
      (by show -31000 ≤ s1.1.toInt; omega)
    simp only [] at h2e h2s h2r
    have hS : s2.2.1.toNat = b.2.1.toNat * 10 ^ (m1 + m2) := by
      rw [h2s, h1s, Nat.pow_add, Nat.mul_assoc]
    have hR : s2.2.2.toNat = b.2.2.1.toNat * 10 ^ (m1 + m2) := by
      rw [h2r, h1r, Nat.pow_add, Nat.mul_assoc]
    have hE : s2.1.toInt = b.1.toInt - ((m1 + m2 : Nat) : Int) := by
      rw [h2e, h1e]; push_cast; ring
    have hp : 0 < 10 ^ (m1 + m2) := Nat.pow_pos (by norm_num)
    obtain ⟨q, r, ed, hq, hr⟩ := U128_div_spec s2.2.2 oS (by omega)
    rw [hO, hR] at hq hr
    have hadd : (U128.add s2.2.1 q).toNat
        = b.2.1.toNat * 10 ^ (m1 + m2) + b.2.2.1.toNat * 10 ^ (m1 + m2) / O := by
      rw [U128_add_toNat, hS, hq]
    obtain ⟨s3, j', e3, h3e, h3n, h3lt, h3t, h3J⟩ := dropLoop192 (s2.1, b.2.2.2, U128.add s2.2.1 q)
      (by show s2.1.toInt ≤ 31000; omega)
    simp only [] at h3e h3n h3t
    rw [hadd] at h3n h3t
    rw [htr] at h3t
    have hQ := QI_scale_div D O E0 _ _ _ (m1 + m2) hOpos hqi
    obtain ⟨k', hek', hqk', hrk'⟩ := hQ
    have hlow := u192_low s3.2.2 h3lt
    refine ⟨(s3.1, { w0 := s3.2.2.w0, w1 := s3.2.2.w1 }, r, s3.2.1), ?_, ?_, ?_⟩
    · simp only [mainBody, hcond, if_true, e1, e2, ed, e3, D128.Proofs.WordsWide.ok_bind]
      rfl
    · show MI D O E0 s3.1.toInt ({ w0 := s3.2.2.w0, w1 := s3.2.2.w1 } : U128).toNat r.toNat s3.2.1
      rw [hlow]
      refine ⟨k', j', _, ?_, ?_, ?_, h3n, h3t, h3J⟩
      · rw [h3e, hE, hek']
      · rw [hr]; exact hqk'
      · rw [hr]; exact hrk'
    · show (if r.toNat ≠ 0 ∧ ({ w0 := s3.2.2.w0, w1 := s3.2.2.w1 } : U128).toNat
            ≤ 12980742146337069071326240823050239
          then 2 ^ 128 - ({ w0 := s3.2.2.w0, w1 := s3.2.2.w1 } : U128).toNat else 0)
        < (if b.2.2.1.toNat ≠ 0 ∧ b.2.1.toNat ≤ 12980742146337069071326240823050239
          then 2 ^ 128 - b.2.1.toNat else 0)
      have hμ : (if b.2.2.1.toNat ≠ 0 ∧ b.2.1.toNat ≤ 12980742146337069071326240823050239
          then 2 ^ 128 - b.2.1.toNat else 0) = 2 ^ 128 - b.2.1.toNat := if_pos ⟨hr0, hsle⟩
      rw [hlow, hμ]
      split
      · rename_i hc'
        have hj' : j' = 0 := by
          rcases h3J with h | h
          · exact h
          · omega
        rw [hj', Nat.pow_zero, Nat.div_one] at h3n
        have hsge : b.2.1.toNat ≤ b.2.1.toNat * 10 ^ (m1 + m2) := Nat.le_mul_of_pos_right _ hp
        have hq1 : 1 ≤ b.2.2.1.toNat * 10 ^ (m1 + m2) / O := by
          apply (Nat.one_le_div_iff hOpos).2
          rw [← hR]
          by_contra hcon
          have : s2.2.1.toNat ≤ 33230699894622896822595176507008614399 := by
            by_contra hcon2
            rw [hS] at hcon2
            omega
          omega
        omega
      · omega
  · right
    refine ⟨b, ?_, hb, ?_⟩
    · simp only [mainBody, hcond, Bool.false_eq_true, if_false]; rfl
    · rw [Bool.and_eq_true, u128_ne_zero_iff, w1_le4_iff, decide_eq_true_eq, decide_eq_true_eq,
        not_and_or] at hcond
      rcases hcond with h | h
      · left; omega
      · right; omega

/-- the hypotheses of `mainLoop` are satisfiable: `1 / 3` before the first digit -/
example := mainLoop 1 3 6176 ⟨3, 0⟩ rfl (by decide) (by decide) (by decide) (by decide) (by decide)
  (6176, ⟨0, 0⟩, ⟨1, 0⟩, 0) (MI_of_QI _ _ _ _ _ _ ⟨0, by decide, by decide, by decide⟩)

end MQ
