/-
  D128/Proofs/PowAccTop.lean — property C18, accuracy of `Pow`: from `Gen.Decimal.PowWithMode` to the general
  path `PowPf.general` (D128/Proofs/PowCode.lean) for the operands `Spec.powSpecial` leaves open.

  Provided (namespace `PowAcc`):
  * `none_facts`       : `powSpecial m (.fin …) (.fin …) = none` (y with a coefficient ≤ Cmax): x ≠ 0, y ≠ 0,
                         |y| ≠ 1, x is not +1, not (x < 0 ∧ y ∉ ℤ), and `psFin … = none`
  * `half_excluded`    : x = ±10^K (coefficient `10^a`), K even, |y| = 1/2 is decided by `powSpecial`
  * `pow_to_general`   : finite operands with `powSpecial = none`: the call IS `PowPf.general` on the stripped
                         operands with the sign `EnclPf.powNeg`, or x = ±10^K and y = Y ∈ ℕ, Y ≥ 2 (given with a
                         negative exponent, e.g. `20e-1`) and the result denotes `flushOrRoundS m neg 1 (K·Y)`
  * `stripped_val`     : `c = s·10^k`, `E = e + 6176 + k` ⇒ `c·10^e = s·10^(E − 6176)` over ℝ
-/
import D128.Proofs.PowAccDefs
import D128.Proofs.NeverNaNPow

set_option autoImplicit false
set_option maxRecDepth 8192
set_option linter.unusedVariables false
set_option linter.unusedSimpArgs false

namespace PowAcc
open Gen Spec EnclPf PowPf
local notation "𝔳[" d "]" => Spec.interp (Gen.Decimal.lo d) (Gen.Decimal.hi d)

/-- what `powSpecial = none` says about finite operands -/
theorem none_facts (m : Spec.Mode) (xn : Bool) (xc : Nat) (xe : Int) (yn : Bool) (yc : Nat) (ye : Int)
    (hyc : yc ≤ Spec.Cmax)
    (hs : powSpecial m (.fin xn xc xe) (.fin yn yc ye) = none) :
    xc ≠ 0 ∧ yc ≠ 0 ∧ Spec.mag yc ye ≠ 1 ∧ (!xn && absOne (.fin xn xc xe)) = false ∧
      (xn = false ∨ isIntQ (Spec.mag yc ye) = true) ∧
      psFin m (.fin xn xc xe) yn yc ye = none := by
  obtain ⟨xn', xc', xe', yn', yc', ye', e1, e2, hx0, hy0, hexc⟩ := NN.powSpecial_none m _ _ hs
  injection e1 with e11 e12 e13
  injection e2 with e21 e22 e23
  subst e11 e12 e13 e21 e22 e23
  rw [powSpecial_eq'] at hs
  have h0 : (Val.fin yn yc ye).isZero = false := by rw [Enc.isZero_fin]; simpa using hy0
  rw [h0] at hs
  simp only [Bool.false_eq_true, if_false] at hs
  by_cases h1 : (!(Val.fin xn xc xe).neg && absOne (.fin xn xc xe)) = true
  · rw [if_pos h1] at hs; cases hs
  rw [if_neg h1] at hs
  have h2 : (((Val.fin xn xc xe).neg && absOne (.fin xn xc xe)) && (Val.fin yn yc ye).isInf) = false := by
    simp [Val.isInf]
  rw [h2] at hs
  simp only [Bool.false_eq_true, if_false] at hs
  have hm1 : (Spec.mag yc ye == 1) = false := by
    by_contra hcon
    have hcon' : (Spec.mag yc ye == 1) = true := by simpa using hcon
    rw [psLate_one m _ yn yc ye hyc hcon'] at hs
    cases hs
  rw [psLate_fin _ _ _ _ _ hm1] at hs
  refine ⟨hx0, hy0, by simpa using hm1, by simpa [Val.neg] using h1, ?_, hs⟩
  cases xn
  · exact Or.inl rfl
  · right
    have : ¬ (intParity yc ye).isNone = true := fun h => hexc ⟨rfl, h⟩
    rw [intParity_isNone yc ye hy0 hyc] at this
    simpa using this

/-- x = ±10^K with K even and |y| = 1/2 is decided by the table (x > 0: the exact root; x < 0: invalid) -/
theorem half_excluded (m : Spec.Mode) (xn : Bool) (a : Nat) (xe : Int) (yn : Bool) (yc : Nat) (ye : Int)
    (hyc : yc ≤ Spec.Cmax) (hY : Spec.mag yc ye = 1 / 2) (hev : ((a : Int) + xe) % 2 = 0)
    (hint : xn = false ∨ isIntQ (Spec.mag yc ye) = true) :
    psFin m (.fin xn (10 ^ a) xe) yn yc ye ≠ none := by
  rcases hint with h | h
  · subst h
    unfold psFin
    have hc0 : ((10 ^ a : Nat) == 0) = false := by simp
    have hye : ¬ 0 ≤ ye := by
      intro h0
      have h1 : yc = yc * 10 ^ 0 := by simp
      have hm := mag_strip yc 0 ye
      rw [← h1, hY] at hm
      push_cast at hm
      rw [add_zero, strip_nat _ _ h0] at hm
      generalize yc * 10 ^ ye.toNat = N at hm
      have h2 : (2 : Rat) * (N : Rat) = 1 := by linarith
      have h3 : 2 * N = 1 := by exact_mod_cast h2
      omega
    have hcond : (!yn && decide (ye ≥ 0)) = false := by simp [hye]
    have hhalf : (Spec.mag yc ye == 1 / 2) = true := by rw [hY]; simp
    have hk : (((a : Int) + xe) % 2 == 0) = true := by simp [hev]
    simp only [hc0, Bool.false_eq_true, if_false, Bool.false_and, powerOfTen_pow10, hcond, Bool.not_false,
      Bool.true_and, hhalf, hk, Bool.and_self, if_true]
    intro hcon; cases hcon
  · rw [hY] at h
    exact absurd h (by simp [isIntQ])

/-- `c = s·10^k`, `E = e + 6176 + k`: the stripped pair denotes the same real number -/
theorem stripped_val (c s k : Nat) (e E : Int) (h1 : c = s * 10 ^ k) (h2 : E = e + 6176 + k) :
    (c : ℝ) * (10 : ℝ) ^ e = (s : ℝ) * (10 : ℝ) ^ (E - 6176) := by
  have : E - 6176 = e + (k : Int) := by omega
  rw [this, h1, zpow_add₀ (by norm_num : (10 : ℝ) ≠ 0), zpow_natCast]
  push_cast; ring

/-- **from `PowWithMode` to the general path.**  Finite operands for which `Spec.powSpecial` leaves the result
    open: either the call is `PowPf.general` on the operands with trailing zeros removed (`dSig·10^(dExp−6176) = |x|`,
    `oSig·10^(oExp−6176) = |y|`), with the sign `powNeg`; or x = ±10^K (coefficient `10^a`) and y is a natural
    number `Y ≥ 2` (necessarily given with a negative exponent, e.g. `20e-1`) and the power-of-ten shortcut
    returns `flushOrRoundS m neg 1 (K·Y)`.  The square-root shortcut is unreachable. -/
theorem pow_to_general (d o : Gen.Decimal) (rm : UInt8) (m : Spec.Mode)
    (hm : Spec.Mode.ofNat? rm.toNat = some m)
    (xn : Bool) (xc : Nat) (xe : Int) (yn : Bool) (yc : Nat) (ye : Int)
    (hx : 𝔳[d] = .fin xn xc xe) (hy : 𝔳[o] = .fin yn yc ye)
    (hs : powSpecial m 𝔳[d] 𝔳[o] = none) :
    (∃ (dSig oSig : U128) (dExp oExp : Int16) (j k : Nat),
      xc = dSig.toNat * 10 ^ k ∧ dExp.toInt = xe + 6176 + k ∧ 1 ≤ dSig.toNat ∧ dSig.toNat ≤ Spec.Cmax ∧
      yc = oSig.toNat * 10 ^ j ∧ oExp.toInt = ye + 6176 + j ∧ 1 ≤ oSig.toNat ∧ oSig.toNat ≤ Spec.Cmax ∧
      0 ≤ dExp.toInt ∧ dExp.toInt ≤ 12400 ∧ 0 ≤ oExp.toInt ∧ oExp.toInt ≤ 12400 ∧
      Gen.Decimal.PowWithMode d o rm = PowPf.general rm yn (powNeg xn yc ye) oSig oExp dSig dExp) ∨
    (∃ (a Y : Nat) (r : Gen.Decimal), xc = 10 ^ a ∧ yn = false ∧ Spec.mag yc ye = (Y : ℚ) ∧ 2 ≤ Y ∧
      Gen.Decimal.PowWithMode d o rm = .ok r ∧
      (𝔳[r]).same (Spec.flushOrRoundS m (xn && decide (Y % 2 = 1)) 1 (((a : Int) + xe) * (Y : Int))) = true) := by
  obtain ⟨a3, a1, a2, a5, a4⟩ := fin_of_interp d xn xc xe hx
  obtain ⟨h3, b1, b2, b5, b4⟩ := fin_of_interp o yn yc ye hy
  have hc : yc ≤ Spec.Cmax := by rw [← b2]; exact Enc.decompose_sig_le o
  have hxC : xc ≤ Spec.Cmax := by rw [← a2]; exact Enc.decompose_sig_le d
  rw [hx, hy] at hs
  obtain ⟨hx0, hy0, hy1, hx1, hint, hps⟩ := none_facts m xn xc xe yn yc ye hc hs
  have a4' : Decimal.IsZero d = false := by rw [a4]; simpa using hx0
  have h4 : Decimal.IsZero o = false := by rw [b4]; simpa using hy0
  have hyo : absOne 𝔳[o] = false := by rw [hy]; exact absOne_of_mag _ _ _ hy1
  have hoi : Decimal.isInf o = false := (fin_class o h3).2
  have hb' : (absOne 𝔳[d] && ((!(Decimal.Signbit d)) || (Decimal.isInf o))) = false := by
    rw [hoi, Bool.or_false, a1, hx, Bool.and_comm]; exact hx1
  have e1 := (to_ladder d o rm m h4 hb' hyo).1
  obtain ⟨s, j, hs'⟩ := strip_fin o h4
  obtain ⟨t, k, ht⟩ := strip_fin d a4'
  have hint' : Decimal.Signbit d = false ∨ 6176 ≤ s.2.toInt := by
    rcases hint with hh | hh
    · left; rw [a1]; exact hh
    · right
      have h1 := stripped_exp_neg_iff o s j hs'
      rw [b2, b5, intParity_isNone yc ye hy0 hc, hh] at h1
      have : ¬ s.2.toInt < 6176 := by simpa using h1.symm
      omega
  have e2 := ladder_to_finish d o rm a3 a4' h3 s j hs' t k ht hint'
  rw [a1, b1, b2, b5] at e2
  -- the arithmetic of the stripped operands
  have hxs : xc = t.1.toNat * 10 ^ k := by rw [← a2]; exact ht.2.1
  have hys : yc = s.1.toNat * 10 ^ j := by rw [← b2]; exact hs'.2.1
  have hdE : t.2.toInt = xe + 6176 + k := by have := stripped_exp d t k ht; rw [a5] at this; omega
  have hoE : s.2.toInt = ye + 6176 + j := by have := stripped_exp o s j hs'; rw [b5] at this; omega
  have ht1 : 1 ≤ t.1.toNat := by have := ht.2.2.2.1; omega
  have hs1 : 1 ≤ s.1.toNat := by have := hs'.2.2.2.1; omega
  have htC : t.1.toNat ≤ Spec.Cmax := by
    have : t.1.toNat ≤ t.1.toNat * 10 ^ k := Nat.le_mul_of_pos_right _ (by positivity)
    omega
  have hsC : s.1.toNat ≤ Spec.Cmax := by
    have : s.1.toNat ≤ s.1.toNat * 10 ^ j := Nat.le_mul_of_pos_right _ (by positivity)
    omega
  have hd0 : 0 ≤ t.2.toInt := by
    have := Enc.decompose_exp_nonneg d; have := ht.2.2.1; omega
  have hd1 : t.2.toInt ≤ 12400 := by
    have := Enc.decompose_exp_le d a3; have := ht.2.2.1; have := ht.2.2.2.2; omega
  have ho0 : 0 ≤ s.2.toInt := by
    have := Enc.decompose_exp_nonneg o; have := hs'.2.2.1; omega
  have ho1 : s.2.toInt ≤ 12400 := by
    have := Enc.decompose_exp_le o h3; have := hs'.2.2.1; have := hs'.2.2.2.2; omega
  have e6 : (6176 : Int16).toInt = 6176 := by decide
  have e5 : (6175 : Int16).toInt = 6175 := by decide
  by_cases c1 : (((!yn) && (decide (s.2 ≥ (6176 : Int16)))) && (t.1 == (U128.mk (1 : UInt64) (0 : UInt64)))) = true
  · -- the power-of-ten shortcut
    right
    simp only [Bool.and_eq_true, u128_beq, u128_one, decide_eq_true_eq, ge_iff_le, Int16.le_iff_toInt_le, e6,
      Bool.not_eq_true'] at c1
    obtain ⟨⟨hyn, hge⟩, hd1'⟩ := c1
    have hxa : xc = 10 ^ k := by rw [hxs, hd1', one_mul]
    have hnn : 0 ≤ ye + (j : Int) := by omega
    have hY : Spec.mag yc ye = ((s.1.toNat * 10 ^ (ye + (j : Int)).toNat : Nat) : ℚ) := by
      rw [hys, mag_strip, strip_nat _ _ hnn]
    have hY2 : 2 ≤ s.1.toNat * 10 ^ (ye + (j : Int)).toNat := by
      have hp : 1 ≤ 10 ^ (ye + (j : Int)).toNat := Nat.one_le_pow _ _ (by norm_num)
      have h1 : 1 ≤ s.1.toNat * 10 ^ (ye + (j : Int)).toNat := Nat.mul_le_mul hs1 hp
      have h2 : s.1.toNat * 10 ^ (ye + (j : Int)).toNat ≠ 1 := by
        intro h; apply hy1; rw [hY, h]; norm_num
      omega
    subst hyn
    obtain ⟨r, hr, hv⟩ := Props.C18b.pow_ten_int d o rm xn k xe yc ye _ (by rw [hx, hxa]) hy hY hY2
    exact ⟨k, _, r, hxa, rfl, hY, hY2, hr, hv m hm⟩
  by_cases c2 : (((((t.2 &&& (1 : Int16)) == (0 : Int16)) && (s.2 == (6175 : Int16))) && (t.1 == (U128.mk (1 : UInt64) (0 : UInt64)))) && (s.1 == (U128.mk (5 : UInt64) (0 : UInt64)))) = true
  · -- the square-root shortcut: excluded by `hs`
    exfalso
    simp only [Bool.and_eq_true, i16_and_one, decide_eq_true_eq] at c2
    simp only [i16_beq, e5, u128_beq, u128_one, u128_five, decide_eq_true_eq] at c2
    obtain ⟨⟨⟨hev, hoE'⟩, hd1'⟩, ho5⟩ := c2
    have hxa : xc = 10 ^ k := by rw [hxs, hd1', one_mul]
    have hY : Spec.mag yc ye = 1 / 2 := by
      rw [hys, mag_strip, ho5]
      have : ye + (j : Int) = -1 := by omega
      rw [this]; norm_num
    rw [hxa] at hps
    exact half_excluded m xn k xe yn yc ye hc hY (by omega) hint hps
  · -- the general path
    left
    refine ⟨t.1, s.1, t.2, s.2, j, k, hxs, hdE, ht1, htC, hys, hoE, hs1, hsC, hd0, hd1, ho0, ho1, ?_⟩
    rw [e1, e2]
    unfold finish
    rw [if_neg c1, if_neg c2]
    rfl

/-- hypotheses of `pow_to_general`: x = 3, y = 0.5 (as `5e-1`), nearest-even -/
example := pow_to_general ⟨3, 3476778912330022912⟩ ⟨5, 3476215962376601600⟩ 0 .nearestEven (by decide)
    false 3 0 false 5 (-1) (by decide) (by decide) (by
      have e1 : 𝔳[(⟨3, 3476778912330022912⟩ : Gen.Decimal)] = .fin false 3 0 := by decide
      have e2 : 𝔳[(⟨5, 3476215962376601600⟩ : Gen.Decimal)] = .fin false 5 (-1) := by decide
      rw [e1, e2]
      have hp : powerOfTen 3 0 = none := by decide
      have h1 : absOne (.fin false 3 0) = false := by
        simp only [absOne, mag_one_iff]; decide
      have h2 : (Spec.mag 5 (-1) == 1) = false := by rw [mag_one_iff]; decide
      rw [powSpecial_late _ _ _ (by rfl) (by rw [h1]; rfl), psLate_fin _ _ _ _ _ h2]
      unfold psFin
      simp [hp])

end PowAcc
