/-
  D128/Proofs/PowAccTail.lean — property C18, general path of `Pow`: the end of the path (`PowPf.genTail`:
  `reduce192`, overflow test, `compose`; before it the optional reciprocal) against a real target with tolerance.

  Provided (namespace `PowAcc`):
  * `genTail_good` : nearest mode, any flag: a working value within relative `tol/2 + 15·10^-39` of `T` is rounded
                     to a Decimal that is `PowGood neg tol T`
  * `flag3_neg`    : `flag3 t → flag3 (t * -1)`
  * `rcp_rel`      : `rcp` is accurate to relative `10^-55` (from `D192.rcp_contract`), with the range of the exponent
  * `tail_good`    : the tail after `epow`, with or without the reciprocal
-/
import D128.Proofs.PowAccGood
import D128.Proofs.PowAccFlag
import D128.Proofs.PowAccReal
import D128.Proofs.PowLadderGeneral
import D128.Proofs.LogAccFinish
import D128.Proofs.LogAccOps
set_option autoImplicit false
set_option maxRecDepth 4096

namespace PowAcc
open Gen D192 Spec SpecRound EnclPf ExpAcc LogAcc PowPf RK
local notation "𝔳[" d "]" => Spec.interp (Gen.Decimal.lo d) (Gen.Decimal.hi d)

theorem flag3_neg {t : Int8} (h : flag3 t) : flag3 (t * -1) := by
  rcases h with h | h | h <;> subst h
  · exact Or.inl (by decide)
  · exact Or.inr (Or.inr (by decide))
  · exact Or.inr (Or.inl (by decide))

/-- a perturbation of the significand by `|τ| ≤ 10^-40` keeps the working value close to the target -/
theorem perturb_close (N : Nat) (E : Int) (τ : ℚ) (T tol : ℝ) (hT : 0 < T) (ht1 : tol ≤ 1 / 1000)
    (hs1 : 1 ≤ N) (hτ : |τ| ≤ 1 / 10 ^ 40)
    (hc : |(N : ℝ) * (10 : ℝ) ^ E - T| ≤ (tol / 2 + 15 / 10 ^ 39) * T) :
    |((((N : ℚ) + τ) * (10 : ℚ) ^ E : ℚ) : ℝ) - T| ≤ (tol / 2 + 16 / 10 ^ 39) * T := by
  have hp : (0 : ℝ) < (10 : ℝ) ^ E := zpow_pos (by norm_num) _
  have hNr : (1 : ℝ) ≤ (N : ℝ) := by exact_mod_cast hs1
  have hτr : |(τ : ℝ)| ≤ 1 / 10 ^ 40 := by
    have : ((|τ| : ℚ) : ℝ) ≤ ((1 / 10 ^ 40 : ℚ) : ℝ) := by exact_mod_cast hτ
    push_cast at this; exact this
  set V : ℝ := (N : ℝ) * (10 : ℝ) ^ E with hV
  have hV2 : V ≤ 2 * T := by
    have h1 := (abs_le.1 hc).2
    have : (tol / 2 + 15 / 10 ^ 39) * T ≤ 1 * T := by
      apply mul_le_mul_of_nonneg_right _ hT.le
      have : (15 : ℝ) / 10 ^ 39 ≤ 1 / 2 := by norm_num
      linarith
    linarith
  have hWV : |((((N : ℚ) + τ) * (10 : ℚ) ^ E : ℚ) : ℝ) - V| ≤ 1 / 10 ^ 40 * V := by
    push_cast
    rw [hV, show ((N : ℝ) + (τ : ℝ)) * (10 : ℝ) ^ E - (N : ℝ) * (10 : ℝ) ^ E = (τ : ℝ) * (10 : ℝ) ^ E by ring,
      abs_mul, abs_of_pos hp]
    have h1 : |(τ : ℝ)| * (10 : ℝ) ^ E ≤ 1 / 10 ^ 40 * (10 : ℝ) ^ E := mul_le_mul_of_nonneg_right hτr hp.le
    have h2 : 1 / 10 ^ 40 * ((10 : ℝ) ^ E * 1) ≤ 1 / 10 ^ 40 * ((10 : ℝ) ^ E * (N : ℝ)) :=
      mul_le_mul_of_nonneg_left (mul_le_mul_of_nonneg_left hNr hp.le) (by norm_num)
    have e : (1 : ℝ) / 10 ^ 40 * ((N : ℝ) * (10 : ℝ) ^ E) = 1 / 10 ^ 40 * ((10 : ℝ) ^ E * (N : ℝ)) := by ring
    rw [e]; linarith
  have htri := abs_sub_le ((((N : ℚ) + τ) * (10 : ℚ) ^ E : ℚ) : ℝ) V T
  have h3 : 1 / 10 ^ 40 * V ≤ 1 / 10 ^ 40 * (2 * T) := mul_le_mul_of_nonneg_left hV2 (by norm_num)
  have e : (tol / 2 + 16 / 10 ^ 39) * T = (tol / 2 + 15 / 10 ^ 39) * T + 1 / 10 ^ 39 * T := by ring
  have h4 : 1 / 10 ^ 40 * (2 * T) ≤ 1 / 10 ^ 39 * T := by
    have : (1 : ℝ) / 10 ^ 40 * (2 * T) = 2 / 10 ^ 40 * T := by ring
    rw [this]; apply mul_le_mul_of_nonneg_right _ hT.le; norm_num
  rw [e]; linarith

/-- **the final rounding of the general path against a real target with tolerance** -/
theorem genTail_good (rm : UInt8) (m : Spec.Mode) (hm : Spec.Mode.ofNat? rm.toNat = some m)
    (hn : isNearest m = true) (neg : Bool) (res : decomposed192) (trunc : Int8) (T tol : ℝ)
    (hT : 0 < T) (ht0 : 0 ≤ tol) (ht1 : tol ≤ 1 / 1000)
    (hs1 : 1 ≤ res.sig.toNat) (he0 : -20000 ≤ res.exp.toInt) (he1 : res.exp.toInt ≤ 13000) (ht : flag3 trunc)
    (hc : |((val res : ℚ) : ℝ) - T| ≤ (tol / 2 + 15 / 10 ^ 39) * T)
    (hTlo : 1 / (10 : ℝ) ^ (17000 : ℕ) ≤ T) (hThi : T ≤ (10 : ℝ) ^ (17000 : ℕ))
    (r : Decimal) (h : genTail rm neg res trunc = .ok r) : PowGood neg tol T 𝔳[r] := by
  have hE := i16_add_6176 res.exp he0 (by omega)
  obtain ⟨τ, sig', exp', hτ, hred, hpost⟩ := reduce192_nearest_all rm m neg res.sig (res.exp + 6176) trunc hm hn hs1
    (by omega) (by omega) ht
  rw [hE, show res.exp.toInt + 6176 - 6176 = res.exp.toInt by ring] at hpost
  have hτ' := abs_le.1 hτ
  have hq : (0 : ℚ) < (res.sig.toNat : ℚ) + τ := by
    have hsq : (1 : ℚ) ≤ (res.sig.toNat : ℚ) := by exact_mod_cast hs1
    have : (1 : ℚ) / 10 ^ 40 < 1 := by norm_num
    linarith [hτ'.1]
  have hclose : |((((res.sig.toNat : ℚ) + τ) * (10 : ℚ) ^ res.exp.toInt : ℚ) : ℝ) - T|
      ≤ (tol / 2 + 16 / 10 ^ 39) * T :=
    perturb_close res.sig.toNat res.exp.toInt τ T tol hT ht1 hs1 hτ (by rw [← val_cast]; exact hc)
  unfold genTail at h
  rw [hred, RK.ok_bind] at h
  unfold RoundPost at hpost
  by_cases hgt : exp'.toInt > 12287
  · rw [if_pos hgt] at hpost
    have hd : decide (exp' > 12287) = true := by simpa [gt_12287] using hgt
    rw [if_pos hd] at h
    have hr : Gen.inf neg = r := by injection h
    rw [← hr, Enc.interp_inf]
    exact good_round hn neg res.exp.toInt hq hT ht0 ht1 hclose hTlo hThi _ (by rw [hpost]; exact same_inf neg)
  · rw [if_neg hgt] at hpost
    obtain ⟨hs', he', hsame⟩ := hpost
    have hd : ¬ decide (exp' > 12287) = true := by simpa [gt_12287] using hgt
    rw [if_neg hd] at h
    have hr : Gen.compose neg sig' exp' = r := by injection h
    rw [← hr, Sp.interp_compose neg sig' exp' hs' he' (by omega)]
    exact good_round hn neg res.exp.toInt hq hT ht0 ht1 hclose hTlo hThi _ hsame

/-- `decomposed192.rcp` is accurate to relative `10^-55` (the divisor loses at most two digits) -/
theorem rcp_rel (z : decomposed192) (t : Int8) (hs : z.sig.toNat ≠ 0)
    (he0 : -16000 ≤ z.exp.toInt) (he1 : z.exp.toInt ≤ 16000) :
    ∃ r t', decomposed192.rcp z t = .ok (r, t') ∧
      1 / ((val z : ℚ) : ℝ) * (1 - 1 / 10 ^ 55) ≤ ((val r : ℚ) : ℝ) ∧
      ((val r : ℚ) : ℝ) ≤ 1 / ((val z : ℚ) : ℝ) * (1 + 1 / 10 ^ 55) ∧ 1 ≤ r.sig.toNat ∧
      -57 - z.exp.toInt - 61 ≤ r.exp.toInt ∧ r.exp.toInt ≤ -57 - z.exp.toInt + 1 ∧ (t' = t ∨ t' = 1) := by
  obtain ⟨r, t', d', hr, hd0, hd1, hd2, -, c1, c2, c3, c4, c5, c6, c7, c8⟩ := rcp_contract z t hs ⟨he0, he1⟩
  refine ⟨r, t', hr, ?_, ?_, c6, c7, c8, ?_⟩
  · have hlow : (1 / d') * (1 - theta) ≤ val r :=
      lower_of_sig r (1 / d') theta LIM (by unfold LIM; norm_num) theta_pos theta_LIM c1 c2 c5
    have hd0r : (0 : ℝ) < (d' : ℝ) := by exact_mod_cast hd0
    have hd1r : (d' : ℝ) ≤ ((val z : ℚ) : ℝ) := by exact_mod_cast hd1
    have hlowr : (1 / (d' : ℝ)) * (1 - ((theta : ℚ) : ℝ)) ≤ ((val r : ℚ) : ℝ) := by
      have : (((1 / d') * (1 - theta) : ℚ) : ℝ) ≤ ((val r : ℚ) : ℝ) := by exact_mod_cast hlow
      push_cast at this; exact this
    rw [theta_real] at hlowr
    have hinv : 1 / ((val z : ℚ) : ℝ) ≤ 1 / (d' : ℝ) := one_div_le_one_div_of_le hd0r hd1r
    have hz0 : (0 : ℝ) < 1 / ((val z : ℚ) : ℝ) := by
      have : (0 : ℝ) < ((val z : ℚ) : ℝ) := lt_of_lt_of_le hd0r hd1r
      positivity
    have h1 : 1 / ((val z : ℚ) : ℝ) * (1 - 1 / 10 ^ 55) ≤ 1 / ((val z : ℚ) : ℝ) * (1 - 1 / 10 ^ 56) :=
      mul_le_mul_of_nonneg_left (by norm_num) hz0.le
    have h2 : 1 / ((val z : ℚ) : ℝ) * (1 - 1 / 10 ^ 56) ≤ 1 / (d' : ℝ) * (1 - 1 / 10 ^ 56) :=
      mul_le_mul_of_nonneg_right hinv (by norm_num)
    linarith
  · have hd0r : (0 : ℝ) < (d' : ℝ) := by exact_mod_cast hd0
    have hd2r : ((val z : ℚ) : ℝ) ≤ (d' : ℝ) * (1 + 1 / 2 ^ 185) := by
      have : ((val z : ℚ) : ℝ) ≤ ((d' * (1 + 1 / 2 ^ 185) : ℚ) : ℝ) := by exact_mod_cast hd2
      push_cast at this; exact this
    have hupr : ((val r : ℚ) : ℝ) ≤ 1 / (d' : ℝ) := by
      have : ((val r : ℚ) : ℝ) ≤ ((1 / d' : ℚ) : ℝ) := by exact_mod_cast c1
      push_cast at this; exact this
    have hzpos : (0 : ℝ) < ((val z : ℚ) : ℝ) := by
      have hd1r : (d' : ℝ) ≤ ((val z : ℚ) : ℝ) := by exact_mod_cast hd1
      linarith
    -- 1/d' ≤ (1 + 2^-185)/val z
    have h1 : 1 / (d' : ℝ) ≤ 1 / ((val z : ℚ) : ℝ) * (1 + 1 / 2 ^ 185) := by
      rw [div_mul_eq_mul_div, one_mul, div_le_div_iff₀ hd0r hzpos]
      linarith
    have h2 : 1 / ((val z : ℚ) : ℝ) * (1 + 1 / 2 ^ 185) ≤ 1 / ((val z : ℚ) : ℝ) * (1 + 1 / 10 ^ 55) :=
      mul_le_mul_of_nonneg_left (by norm_num) (by positivity)
    linarith
  · by_cases hc : val r = 1 / d' ∧ d' = val z
    · left; exact c3 hc
    · right; exact c4 hc

/-- from two-sided relative bounds to the absolute form used by `genTail_good` -/
theorem abs_of_rel {V T lo hi b : ℝ} (hT : 0 < T) (h1 : T * (1 - lo) ≤ V) (h2 : V ≤ T * (1 + hi))
    (hlo : lo ≤ b) (hhi : hi ≤ b) : |V - T| ≤ b * T := by
  rw [abs_le]
  have e1 : T * (1 - lo) = T - lo * T := by ring
  have e2 : T * (1 + hi) = T + hi * T := by ring
  have h3 : lo * T ≤ b * T := mul_le_mul_of_nonneg_right hlo hT.le
  have h4 : hi * T ≤ b * T := mul_le_mul_of_nonneg_right hhi hT.le
  constructor <;> linarith

/-- **the tail of the general path after `epow`**: optional reciprocal, final rounding.  `T0 = e^(|y·ln|x||) ≥ 1` is the
true power (or its reciprocal), `η` the relative error of the working value `z`. -/
theorem tail_good (rm : UInt8) (m : Spec.Mode) (hm : Spec.Mode.ofNat? rm.toNat = some m)
    (hn : isNearest m = true) (neg sgn : Bool) (z : decomposed192) (tz : Int8) (T0 η tol : ℝ)
    (hT0 : 1 ≤ T0) (hη0 : 0 ≤ η) (hη1 : η ≤ 1 / 10 ^ 8) (ht0 : 0 ≤ tol) (ht1 : tol ≤ 1 / 1000)
    (hbud : η + 2 * η ^ 2 + 2 / 10 ^ 55 ≤ tol / 2 + 15 / 10 ^ 39)
    (hz1 : T0 * (1 - η) ≤ ((val z : ℚ) : ℝ)) (hz2 : ((val z : ℚ) : ℝ) ≤ T0 * (1 + η))
    (hflag : flag3 tz) (hexp : z.exp.toInt ≤ 6169)
    (r : Decimal)
    (h : (if sgn = true then (decomposed192.rcp z tz >>= fun x3 => genTail rm neg x3.1 (x3.2 * -1))
          else genTail rm neg z tz) = .ok r) :
    PowGood neg tol (if sgn = true then 1 / T0 else T0) 𝔳[r] := by
  have hT0pos : 0 < T0 := by linarith
  have h1η : (1 : ℝ) / 2 ≤ 1 - η := by
    have : (1 : ℝ) / 10 ^ 8 ≤ 1 / 2 := by norm_num
    linarith
  have hzhalf : (1 : ℝ) / 2 ≤ ((val z : ℚ) : ℝ) := by nlinarith
  have hzq : (1 : ℚ) / 2 ≤ val z := by
    have : (((1 / 2 : ℚ)) : ℝ) ≤ ((val z : ℚ) : ℝ) := by push_cast; exact hzhalf
    exact_mod_cast this
  have hs1 : 1 ≤ z.sig.toNat := sig_pos_of_val_pos z (by linarith)
  have hexp0 : -58 ≤ z.exp.toInt := D192.exp_ge_of_val z hzq
  have hη2 : η ^ 2 ≤ η := by
    rw [pow_two]
    have : η * η ≤ η * 1 := mul_le_mul_of_nonneg_left (by linarith [show (1:ℝ)/10^8 ≤ 1 by norm_num]) hη0
    linarith
  -- size of T0: val z ≤ 10^58·10^6169
  have hzup : ((val z : ℚ) : ℝ) ≤ (10 : ℝ) ^ (6227 : ℕ) := by
    rw [val_cast]
    have hlt := D128.Proofs.WordsWide.U192.toNat_lt z.sig
    have h58 : (z.sig.toNat : ℝ) ≤ (10 : ℝ) ^ (58 : ℕ) := by
      have : z.sig.toNat ≤ 10 ^ 58 := by
        have : (2 : Nat) ^ 192 < 10 ^ 58 := by norm_num
        omega
      exact_mod_cast this
    have hp : (10 : ℝ) ^ z.exp.toInt ≤ (10 : ℝ) ^ (6169 : Int) := zpow_le_zpow_right₀ (by norm_num) hexp
    have e : (10 : ℝ) ^ (6227 : ℕ) = (10 : ℝ) ^ (58 : ℕ) * (10 : ℝ) ^ (6169 : Int) := by
      rw [← zpow_natCast, ← zpow_natCast, ← zpow_add₀ (by norm_num)]; norm_num
    rw [e]
    exact mul_le_mul h58 hp (zpow_pos (by norm_num) _).le (by positivity)
  have hT0up : T0 ≤ 2 * (10 : ℝ) ^ (6227 : ℕ) := by
    have h3 : T0 * (1 / 2) ≤ T0 * (1 - η) := mul_le_mul_of_nonneg_left h1η hT0pos.le
    generalize (10 : ℝ) ^ (6227 : ℕ) = A at *
    linarith
  have h17 : 2 * (10 : ℝ) ^ (6227 : ℕ) ≤ (10 : ℝ) ^ (17000 : ℕ) := by
    have e : (10 : ℝ) ^ (17000 : ℕ) = (10 : ℝ) ^ (6227 : ℕ) * (10 : ℝ) ^ (10773 : ℕ) := by rw [← pow_add]
    rw [e]
    have h1 : (2 : ℝ) ≤ (10 : ℝ) ^ (10773 : ℕ) := by
      calc (2 : ℝ) ≤ 10 ^ 1 := by norm_num
        _ ≤ (10 : ℝ) ^ (10773 : ℕ) := pow_le_pow_right₀ (by norm_num) (by norm_num)
    have hp : (0 : ℝ) < (10 : ℝ) ^ (6227 : ℕ) := by positivity
    rw [mul_comm 2]
    exact mul_le_mul_of_nonneg_left h1 hp.le
  have hT17 : T0 ≤ (10 : ℝ) ^ (17000 : ℕ) := le_trans hT0up h17
  have hlo17 : 1 / (10 : ℝ) ^ (17000 : ℕ) ≤ 1 := by
    rw [div_le_one (by positivity)]; exact one_le_pow₀ (by norm_num)
  cases sgn
  · -- no reciprocal
    simp only [Bool.false_eq_true, if_false] at h ⊢
    refine genTail_good rm m hm hn neg z tz T0 tol hT0pos ht0 ht1 hs1 (by omega) (by omega) hflag ?_
      (le_trans hlo17 hT0) hT17 r h
    apply abs_of_rel hT0pos hz1 hz2 <;> nlinarith [sq_nonneg η]
  · -- reciprocal
    simp only [if_true] at h ⊢
    obtain ⟨x3, hx3, h⟩ := bind_ok h
    obtain ⟨rr, t', hr, hr1, hr2, hrs, hre0, hre1, hrt⟩ := rcp_rel z tz (by omega) (by omega) (by omega)
    rw [hr] at hx3
    have hx : (rr, t') = x3 := by injection hx3
    subst hx
    have hT' : (0 : ℝ) < 1 / T0 := by positivity
    obtain ⟨hc1, hc2⟩ := rcp_close hT0pos hη0 hη1 hz1 hz2 hr1 hr2
    have hfl : flag3 (t' * -1) := flag3_neg (flag3_of_or hflag hrt)
    refine genTail_good rm m hm hn neg rr (t' * -1) (1 / T0) tol hT' ht0 ht1 hrs (by omega) (by omega) hfl ?_
      ?_ ?_ r h
    · have e1 : 1 / T0 * (1 - η - 2 / 10 ^ 55) = 1 / T0 * (1 - (η + 2 / 10 ^ 55)) := by ring
      have e2 : 1 / T0 * (1 + η + 2 * η ^ 2 + 2 / 10 ^ 55) = 1 / T0 * (1 + (η + 2 * η ^ 2 + 2 / 10 ^ 55)) := by ring
      rw [e1] at hc1; rw [e2] at hc2
      apply abs_of_rel hT' hc1 hc2 <;> nlinarith [sq_nonneg η]
    · -- 1/T0 ≥ 1/10^17000
      exact one_div_le_one_div_of_le hT0pos hT17
    · have h0 : 1 / T0 ≤ 1 := by rw [div_le_one hT0pos]; exact hT0
      have h1 : (1 : ℝ) ≤ (10 : ℝ) ^ (17000 : ℕ) := one_le_pow₀ (by norm_num)
      exact le_trans h0 h1

end PowAcc
