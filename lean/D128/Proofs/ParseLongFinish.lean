/-
  The value of a numeral, part 3: the loop-free tail of `parseNumber` (`Parse.finish`) on a state that
  denotes the ghost reading, against `Spec.literalValue`.

  Specification side (exact value `n·10^sc` with `n = N·10^k + r`, `r < 10^k`):
  * `ParseLong.flushS_huge`, `flushS_tiny`   `Spec.flushOrRoundS` far outside the exponent range
  * `lit_big`     `1 ≤ N`, `6151 ≤ sc + k`   ⇒  `flushOrRoundS m neg n sc = .inf neg`
  * `lit_small`   `N < 2^128`, `sc + k ≤ −6216`  ⇒  `flushOrRoundS m neg n sc = .fin neg 0 Emin`
  * `lit_mid`     `flushOrRoundS m neg n sc = flushOrRoundS m neg (N + r/10^k) (sc + k)`

  Code side:
  * `finE_toInt`          the `int` arithmetic `±exp − nfrac` of the tail does not wrap
  * `accepted_run2`       an accepted numeral: the fold returns a state with `caneof` and `sawdig`
  * `finish_value`        `Parse.finish` on a state related to the ghost `gh` returns the Decimal denoting
                          `Spec.literalValue m neg gh.n (±gh.ev − gh.nf)` and the range error exactly when
                          that value is infinite
  * `model_value`         the functional model `Parse.model` of `parseNumber` on every numeral `Spec.readNumber`
                          accepts (at most `2^58 − 6216` bytes): value and error of `Spec.literalValue`
-/
import D128.Proofs.ParseLongInv
import D128.Proofs.RoundKernel
import D128.Proofs.Specials
import D128.Proofs.SpecRound

set_option linter.unusedSimpArgs false
set_option linter.unusedVariables false
set_option maxRecDepth 4096

namespace ParseLong
open Parse Spec SpecRound

local notation "𝔳[" d "]" => Spec.interp (Gen.Decimal.lo d) (Gen.Decimal.hi d)

/-! ## the specification far outside the exponent range -/

/-- below `10^(Emin-1)` every mode gives the zero of the given sign -/
theorem flushS_tiny (m : Mode) (neg : Bool) {q : Rat} (hq : 0 < q) (k : Int)
    (h : q * (10 : Rat) ^ k < (10 : Rat) ^ (Spec.Emin - 1)) :
    Spec.flushOrRoundS m neg q k = .fin neg 0 Spec.Emin := by
  rw [flushOrRoundS_eq m neg q hq.le k]
  exact flushOrRound_tiny m neg (mul_pos hq (zpow_pos (by norm_num) _)) h

/-- from `(Cmax+1)·10^Emax` on every mode overflows to the infinity of the given sign -/
theorem roundTo_huge (m : Mode) (neg : Bool) {q : Rat} (hq : 0 < q)
    (h : ((Spec.Cmax : Rat) + 1) * (10 : Rat) ^ Spec.Emax ≤ q) : Spec.roundTo m neg q = .inf neg := by
  have hp : (0 : Rat) < (10 : Rat) ^ Spec.Emax := zpow_pos (by norm_num) _
  rcases mode_cases m neg with hd | hu | hn
  · exact (roundTo_down_inf_iff hd hq).2 h
  · apply (roundTo_up_inf_iff hu hq).2
    refine lt_of_lt_of_le ?_ h
    exact mul_lt_mul_of_pos_right (by linarith) hp
  · apply (roundTo_nearest_inf_iff hn neg hq).2
    refine le_trans ?_ h
    exact mul_le_mul_of_nonneg_right (by linarith) hp.le

theorem flushS_huge (m : Mode) (neg : Bool) {q : Rat} (hq : 0 < q) (k : Int)
    (h : ((Spec.Cmax : Rat) + 1) * (10 : Rat) ^ Spec.Emax ≤ q * (10 : Rat) ^ k) :
    Spec.flushOrRoundS m neg q k = .inf neg := by
  have hqk : 0 < q * (10 : Rat) ^ k := mul_pos hq (zpow_pos (by norm_num) _)
  rw [flushOrRoundS_eq m neg q hq.le k, flushOrRound_eq_roundTo]
  · exact roundTo_huge m neg hqk h
  · refine le_trans ?_ h
    have h1 : (10 : Rat) ^ (Spec.Emin - 1) ≤ (10 : Rat) ^ Spec.Emax :=
      zpow_le_zpow_right₀ (by norm_num) (by unfold Spec.Emin Spec.Emax; omega)
    have h2 : (0 : Rat) < (10 : Rat) ^ Spec.Emax := zpow_pos (by norm_num) _
    have h3 : (0 : Rat) ≤ (Spec.Cmax : Rat) := Nat.cast_nonneg _
    nlinarith

/-! ## the literal value in terms of the kept significand -/

theorem zpow_nat_mul (k : Nat) (sc : Int) : ((10 : Rat) ^ k) * (10 : Rat) ^ sc = (10 : Rat) ^ (sc + (k : Int)) := by
  rw [zpow_add₀ (by norm_num : (10 : Rat) ≠ 0), zpow_natCast, mul_comm]

theorem lit_big (m : Mode) (neg : Bool) (n N k r : Nat) (sc : Int) (hn : n = N * 10 ^ k + r)
    (hN : 1 ≤ N) (h : 6151 ≤ sc + (k : Int)) : Spec.flushOrRoundS m neg (n : Rat) sc = .inf neg := by
  have hge : 10 ^ k ≤ n := by
    rw [hn]
    have : 1 * 10 ^ k ≤ N * 10 ^ k := Nat.mul_le_mul_right _ hN
    omega
  have hgeq : ((10 : Rat) ^ k) ≤ (n : Rat) := by exact_mod_cast hge
  have hnpos : (0 : Rat) < (n : Rat) := lt_of_lt_of_le (by positivity) hgeq
  apply flushS_huge m neg hnpos
  have hsc : (0 : Rat) < (10 : Rat) ^ sc := zpow_pos (by norm_num) _
  have h1 : (10 : Rat) ^ (sc + (k : Int)) ≤ (n : Rat) * (10 : Rat) ^ sc := by
    rw [← zpow_nat_mul]
    exact mul_le_mul_of_nonneg_right hgeq hsc.le
  have h2 : (10 : Rat) ^ (6151 : Int) ≤ (10 : Rat) ^ (sc + (k : Int)) :=
    zpow_le_zpow_right₀ (by norm_num) h
  have h3 : ((Spec.Cmax : Rat) + 1) * (10 : Rat) ^ Spec.Emax ≤ (10 : Rat) ^ (6151 : Int) := by
    rw [RK.Cmax_cast]
    have e : (10 : Rat) ^ (6151 : Int) = (10 : Rat) ^ (40 : Int) * (10 : Rat) ^ Spec.Emax := by
      rw [← zpow_add₀ (by norm_num : (10 : Rat) ≠ 0)]; unfold Spec.Emax; norm_num
    rw [e]
    apply mul_le_mul_of_nonneg_right _ (zpow_pos (by norm_num) _).le
    norm_num
  linarith

theorem lit_small (m : Mode) (neg : Bool) (n N k r : Nat) (sc : Int) (hn : n = N * 10 ^ k + r)
    (hr : r < 10 ^ k) (hN : N < 2 ^ 128) (hpos : 0 < n) (h : sc + (k : Int) ≤ -6216) :
    Spec.flushOrRoundS m neg (n : Rat) sc = .fin neg 0 Spec.Emin := by
  have hnpos : (0 : Rat) < (n : Rat) := by exact_mod_cast hpos
  apply flushS_tiny m neg hnpos
  have hlt : n < 10 ^ 39 * 10 ^ k := by
    rw [hn]
    have h1 : N * 10 ^ k + r < (N + 1) * 10 ^ k := by rw [Nat.add_mul]; omega
    have h2 : (N + 1) * 10 ^ k ≤ 10 ^ 39 * 10 ^ k := by
      apply Nat.mul_le_mul_right
      have : (2 : Nat) ^ 128 < 10 ^ 39 := by norm_num
      omega
    omega
  have hltq : (n : Rat) < (10 : Rat) ^ (39 : Int) * (10 : Rat) ^ k := by
    have : ((n : Nat) : Rat) < ((10 ^ 39 * 10 ^ k : Nat) : Rat) := by exact_mod_cast hlt
    push_cast at this
    rw [show (10 : Rat) ^ (39 : Int) = (10 : Rat) ^ (39 : Nat) by norm_cast]
    exact this
  have hsc : (0 : Rat) < (10 : Rat) ^ sc := zpow_pos (by norm_num) _
  calc (n : Rat) * (10 : Rat) ^ sc < (10 : Rat) ^ (39 : Int) * (10 : Rat) ^ k * (10 : Rat) ^ sc :=
        mul_lt_mul_of_pos_right hltq hsc
    _ = (10 : Rat) ^ (39 + (sc + (k : Int))) := by
        rw [mul_assoc, zpow_nat_mul, ← zpow_add₀ (by norm_num : (10 : Rat) ≠ 0)]
    _ ≤ (10 : Rat) ^ (Spec.Emin - 1) :=
        zpow_le_zpow_right₀ (by norm_num) (by unfold Spec.Emin; omega)

theorem lit_mid (m : Mode) (neg : Bool) (n N k r : Nat) (sc : Int) (hn : n = N * 10 ^ k + r) :
    Spec.flushOrRoundS m neg (n : Rat) sc =
      Spec.flushOrRoundS m neg ((N : Rat) + (r : Rat) / (10 : Rat) ^ k) (sc + (k : Int)) := by
  have hp : (0 : Rat) < (10 : Rat) ^ k := by positivity
  have hq : (0 : Rat) ≤ (N : Rat) + (r : Rat) / (10 : Rat) ^ k := by positivity
  rw [flushOrRoundS_eq m neg _ (Nat.cast_nonneg n) sc, flushOrRoundS_eq m neg _ hq (sc + (k : Int))]
  congr 1
  rw [← zpow_nat_mul, ← mul_assoc]
  congr 1
  rw [hn]
  push_cast
  field_simp

/-! ## the integer arithmetic of the tail -/

theorem finE_toInt (s : S2) (h0 : 0 ≤ s.exp.toInt) (h1 : s.exp.toInt < 2 ^ 62)
    (hn : -2 ^ 60 ≤ s.nfrac.toInt ∧ s.nfrac.toInt ≤ 2 ^ 60) :
    ((if s.eneg then s.exp * (-1 : Int64) else s.exp) - s.nfrac).toInt =
      (if s.eneg then -s.exp.toInt else s.exp.toInt) - s.nfrac.toInt := by
  have hm1 : (-1 : Int64).toInt = -1 := by decide
  have hmul : (s.exp * (-1 : Int64)).toInt = -s.exp.toInt := by
    rw [Int64.toInt_mul, hm1, show s.exp.toInt * -1 = -s.exp.toInt by omega]
    apply Int.bmod_eq_of_le <;> omega
  cases s.eneg
  · simp only [Bool.false_eq_true, if_false]
    rw [i64_sub_toInt] <;> omega
  · simp only [if_true]
    rw [i64_sub_toInt] <;> rw [hmul] <;> omega

theorem conv16_toInt (e : Int64) (h0 : -30000 ≤ e.toInt) (h1 : e.toInt ≤ 20000) :
    (Go.conv (e + (6176 : Int64)) : Int16).toInt = e.toInt + 6176 := by
  have h6 : (6176 : Int64).toInt = 6176 := by decide
  show (Int16.ofInt (e + (6176 : Int64)).toInt).toInt = _
  rw [i64_add_toInt _ _ (by rw [h6]; omega) (by rw [h6]; omega), h6]
  exact Int16.toInt_ofInt_of_le (by omega) (by omega)

/-! ## accepted numerals -/

theorem accepted_run2 (sep : Bool) (cs : List UInt8) (v : Nat × Int)
    (h : Spec.readNumber sep (cs.map toChar) = some v) :
    ∃ s, run2 sep cs (toS2 init1) = some s ∧ s.caneof = true ∧ s.sawdig = true := by
  have hacc := accF_eq_readNumber sep cs
  rw [h, ← flags_init, ← run2_flags] at hacc
  cases hr : run2 sep cs (toS2 init1) with
  | none => rw [hr] at hacc; simp [accF] at hacc
  | some s =>
    rw [hr] at hacc
    simp only [Option.map_some, accF, flags, Option.isSome_some, Bool.and_eq_true] at hacc
    exact ⟨s, rfl, hacc.1, hacc.2⟩

/-! ## the tail -/

theorem same_symm (x y : Spec.Val) : x.same y = y.same x := by
  cases x <;> cases y <;> simp [Spec.Val.same, Bool.beq_comm]

theorem same_fin_not_inf {v : Spec.Val} {n : Bool} {c : Nat} {e : Int}
    (h : v.same (.fin n c e) = true) : v.isInf = false := by
  cases v <;> simp [Spec.Val.same, Spec.Val.isInf] at h ⊢

theorem trunc_ne_neg_one {r : Nat} {t : Int8} (h : t = if r = 0 then (0 : Int8) else (1 : Int8)) :
    ¬ t = -1 := by
  rw [h]; split <;> decide

/-- **the tail of `parseNumber` on a state denoting the ghost `gh`** (at most `2^58 − 6216` significand
    digits, so that a saturated exponent is out of range whatever the significand is). -/
theorem finish_value (g : Globals) (neg : Bool) (m : Spec.Mode)
    (hm : Spec.Mode.ofNat? g.DefaultRoundingMode.toNat = some m)
    (s : S2) (gh : G) (k r : Nat) (hR : Rel s gh k r) (hI : GInv gh) (hnd : gh.nd + 6216 ≤ 2 ^ 58)
    (hce : s.caneof = true) (hsd : s.sawdig = true) :
    ∃ v e, finish g neg s = .ok (v, e) ∧
      (𝔳[v]).same (Spec.literalValue m neg gh.n
          ((if gh.eneg then -(gh.ev : Int) else (gh.ev : Int)) - (gh.nf : Int))).1 = true ∧
      e = (if (Spec.literalValue m neg gh.n
          ((if gh.eneg then -(gh.ev : Int) else (gh.ev : Int)) - (gh.nf : Int))).2
           then Go.Err.parseNumberRangeError else Go.Err.nil) := by
  have hsyn : ¬ ((!s.caneof) || (!s.sawdig)) = true := by rw [hce, hsd]; decide
  obtain ⟨hI1, hI2⟩ := hI
  generalize hsc : ((if gh.eneg then -(gh.ev : Int) else (gh.ev : Int)) - (gh.nf : Int)) = sc
  have hw0 := s.sig.w0.toNat_lt
  have hw1 := s.sig.w1.toNat_lt
  by_cases hz : ((s.sig.w0 ||| s.sig.w1) == (0 : UInt64)) = true
  · -- the significand is zero
    rw [finish_zero g neg s hsyn hz]
    rw [beq_iff_eq, UInt64.or_eq_zero_iff] at hz
    obtain ⟨h0, h1⟩ := hz
    have hk0 : k = 0 := by
      by_contra hne
      exact hR.kpos (Nat.pos_of_ne_zero hne) (by rw [h1]; decide)
    have hr0 : r = 0 := by have := hR.rlt; rw [hk0] at this; omega
    have hn0 : gh.n = 0 := by
      rw [hR.val, hr0, hk0]; simp [U128.toNat, h0, h1]
    refine ⟨_, _, rfl, ?_, ?_⟩
    · rw [hn0, Enc.interp_zero]
      simp only [Spec.literalValue, beq_self_eq_true, if_true]
      exact Sp.same_zero _ _ _
    · rw [hn0]
      simp only [Spec.literalValue, beq_self_eq_true, if_true, Bool.false_eq_true, if_false]
  · -- a non-zero significand
    have hN1 : 1 ≤ s.sig.toNat := by
      by_contra hc
      apply hz
      rw [beq_iff_eq, UInt64.or_eq_zero_iff]
      have : s.sig.toNat = 0 := by omega
      unfold U128.toNat at this
      constructor <;> apply UInt64.toNat_inj.mp <;> simp <;> omega
    have hN128 := s.sig.toNat_lt
    have hnpos : 0 < gh.n := by
      rw [hR.val]
      have : 1 * 10 ^ k ≤ s.sig.toNat * 10 ^ k := Nat.mul_le_mul_right _ hN1
      have : 0 < 10 ^ k := by positivity
      omega
    have hlit : Spec.literalValue m neg gh.n sc =
        (Spec.flushOrRoundS m neg (gh.n : Rat) sc, (Spec.flushOrRoundS m neg (gh.n : Rat) sc).isInf) := by
      unfold Spec.literalValue
      have : (gh.n == 0) = false := by simp; omega
      simp only [this, Bool.false_eq_true, if_false]
    rw [hlit]
    simp only []
    -- the exponent arithmetic
    have hknd := hR.knd
    have hnf := hR.nfrac
    have hx0 := hR.ex0
    have hx1 := hR.ex1
    have hx2 := hR.ex2
    have hx3 := hR.ex3
    have hE := finE_toInt s hx0 (by omega) (by omega)
    rw [hR.eneg] at hE
    generalize hE64 : ((if gh.eneg = true then s.exp * (-1 : Int64) else s.exp) - s.nfrac) = E64 at hE
    have hE64' : E64 = (if s.eneg then s.exp * (-1 : Int64) else s.exp) - s.nfrac := by
      rw [← hE64, hR.eneg]
    have h6150 : (6150 : Int64).toInt = 6150 := by decide
    have h6215 : (-6215 : Int64).toInt = -6215 := by decide
    by_cases hbig : decide (E64 > (6150 : Int64)) = true
    · -- out of range above
      rw [finish_big g neg s hsyn hz E64 hE64' hbig]
      rw [decide_eq_true_eq, gt_iff_lt, Int64.lt_iff_toInt_lt, h6150] at hbig
      have hkey : 6151 ≤ sc + (k : Int) := by
        rw [← hsc]
        cases hen : gh.eneg <;> simp only [hen, Bool.false_eq_true, if_false, if_true] at hE ⊢ <;>
          by_cases hsat : s.exp.toInt < 2 ^ 58 <;> (try have := hx3 hsat) <;> omega
      have := lit_big m neg gh.n s.sig.toNat k r sc hR.val hN1 hkey
      rw [this]
      refine ⟨_, _, rfl, ?_, ?_⟩
      · rw [Enc.interp_inf]; exact Sp.same_refl _
      · simp [Spec.Val.isInf]
    by_cases hsmall : decide (E64 < (-6215 : Int64)) = true
    · -- flushed to zero
      rw [finish_small g neg s hsyn hz E64 hE64' hbig hsmall]
      rw [decide_eq_true_eq, Int64.lt_iff_toInt_lt, h6215] at hsmall
      have hkey : sc + (k : Int) ≤ -6216 := by
        rw [← hsc]
        cases hen : gh.eneg <;> simp only [hen, Bool.false_eq_true, if_false, if_true] at hE ⊢ <;>
          by_cases hsat : s.exp.toInt < 2 ^ 58 <;> (try have := hx3 hsat) <;> omega
      have := lit_small m neg gh.n s.sig.toNat k r sc hR.val hR.rlt hN128 hnpos hkey
      rw [this]
      refine ⟨_, _, rfl, ?_, ?_⟩
      · rw [Enc.interp_zero]; exact Sp.same_zero _ _ _
      · simp [Spec.Val.isInf]
    · -- the rounding kernel
      rw [decide_eq_true_eq, gt_iff_lt, Int64.lt_iff_toInt_lt, h6150] at hbig
      rw [decide_eq_true_eq, Int64.lt_iff_toInt_lt, h6215] at hsmall
      have hkey : sc + (k : Int) = E64.toInt := by
        rw [← hsc]
        cases hen : gh.eneg <;> simp only [hen, Bool.false_eq_true, if_false, if_true] at hE ⊢ <;>
          by_cases hsat : s.exp.toInt < 2 ^ 58 <;> (try have := hx3 hsat) <;> omega
      have hc16 := conv16_toInt E64 (by omega) (by omega)
      rw [lit_mid m neg gh.n s.sig.toNat k r sc hR.val, hkey]
      have hp : (0 : Rat) < (10 : Rat) ^ k := by positivity
      have hrq : (r : Rat) < (10 : Rat) ^ k := by exact_mod_cast hR.rlt
      have htr : RK.TruncRel s.trunc.toInt ((r : Rat) / (10 : Rat) ^ k) := by
        rw [hR.tr]
        by_cases hr : r = 0
        · left; simp [hr]
        · right; left
          rw [if_neg hr]
          refine ⟨by decide, ?_, ?_⟩
          · apply div_pos _ hp
            exact_mod_cast Nat.pos_of_ne_zero hr
          · rw [div_lt_one hp]; exact hrq
      have hqpos : (0 : Rat) < (s.sig.toNat : Rat) + (r : Rat) / (10 : Rat) ^ k := by
        have : (1 : Rat) ≤ (s.sig.toNat : Rat) := by exact_mod_cast hN1
        have : (0 : Rat) ≤ (r : Rat) / (10 : Rat) ^ k := by positivity
        linarith
      obtain ⟨sig', exp', hred, hpost⟩ := reduce128_correct g.DefaultRoundingMode m neg s.sig
        (Go.conv (E64 + (6176 : Int64)) : Int16) s.trunc ((r : Rat) / (10 : Rat) ^ k) hm
        (by rw [hc16]; omega) (by rw [hc16]; omega) htr hqpos
        (by
          intro ht
          have hr : r ≠ 0 := by
            intro hr; rw [hR.tr, if_pos hr] at ht; exact absurd ht (by decide)
          have hk : 0 < k := by
            by_contra hk0
            have hk00 : k = 0 := by omega
            have hrl := hR.rlt; rw [hk00] at hrl; omega
          have hw := hR.kpos hk
          rw [UInt64.le_iff_toNat_le] at hw
          have e1 : (1801439850948198399 : UInt64).toNat = 1801439850948198399 := rfl
          rw [e1] at hw
          rw [RK.Cmax_val]
          unfold U128.toNat
          omega)
        (fun ht => absurd ht (trunc_ne_neg_one hR.tr))
        (fun ht => absurd ht (trunc_ne_neg_one hR.tr))
      rw [finish_red g neg s hsyn hz E64 hE64' (by
            rw [decide_eq_true_eq, gt_iff_lt, Int64.lt_iff_toInt_lt, h6150]; exact hbig) (by
            rw [decide_eq_true_eq, Int64.lt_iff_toInt_lt, h6215]; exact hsmall) (sig', exp') hred]
      rw [hc16] at hpost
      have hsub : E64.toInt + 6176 - 6176 = E64.toInt := by omega
      rw [hsub] at hpost
      have e12 : (exp' > (12287 : Int16)) ↔ exp'.toInt > 12287 := by
        rw [gt_iff_lt, Int16.lt_iff_toInt_lt]; simp
      by_cases hov : exp'.toInt > 12287
      · rw [if_pos hov] at hpost
        rw [if_pos (by simpa [e12] using hov), hpost]
        refine ⟨_, _, rfl, ?_, ?_⟩
        · rw [Enc.interp_inf]; exact Sp.same_refl _
        · simp [Spec.Val.isInf]
      · rw [if_neg hov] at hpost
        rw [if_neg (by simpa [e12] using hov)]
        refine ⟨_, _, rfl, ?_, ?_⟩
        · show (𝔳[Gen.compose neg sig' exp']).same _ = true
          rw [Sp.interp_compose neg sig' exp' hpost.1 hpost.2.1 (by omega), same_symm]
          exact hpost.2.2
        · rw [same_fin_not_inf hpost.2.2]
          simp

/-! ## the functional model of `parseNumber` -/

/-- **the model computes the literal value**: for every numeral the grammar accepts (at most
    `2^58 − 6216` bytes), with literal value `n·10^sc` according to `Spec.readNumber`, the functional
    model `Parse.model` of `parseNumber` returns the Decimal denoting `Spec.literalValue m neg n sc`, with the
    range error exactly when that value is infinite.  (No hypothesis about `reduce128`: its termination on
    the state reached is part of `reduce128_correct`.) -/
theorem model_value (g : Globals) (cs : List UInt8) (neg sep : Bool) (m : Spec.Mode)
    (hm : Spec.Mode.ofNat? g.DefaultRoundingMode.toNat = some m)
    (hlen : cs.length + 6216 ≤ 2 ^ 58) (n : Nat) (sc : Int)
    (h : Spec.readNumber sep (cs.map toChar) = some (n, sc)) :
    ∃ v e, model g cs neg sep = .ok (v, e) ∧
      (𝔳[v]).same (Spec.literalValue m neg n sc).1 = true ∧
      e = (if (Spec.literalValue m neg n sc).2 then Go.Err.parseNumberRangeError else Go.Err.nil) := by
  obtain ⟨s, hrun, hce, hsd⟩ := accepted_run2 sep cs (n, sc) h
  obtain ⟨k, r, hR⟩ := run2_rel sep cs (toS2 init1) s g0 0 0 hrun rel_init g0_inv
    (by show 0 + cs.length < 2 ^ 62; omega)
  have hnd := gfold_nd_le cs g0
  have hnd0 : g0.nd = 0 := rfl
  obtain ⟨hn, hsc⟩ := readNumber_gfold sep cs n sc h
  have := finish_value g neg m hm s (gfold cs g0) k r hR (gfold_inv cs g0 g0_inv) (by omega) hce hsd
  rw [← hn, ← hsc] at this
  unfold model
  rw [loops_eq_run2, hrun]
  exact this

end ParseLong
