/-
  D128/Proofs/RoundKernelWide.lean — correctness of `Gen.RoundingMode.reduce192`, `reduce256`,
  `reduce64` (Go: /repo/rounding.go) against `Spec.flushOrRoundS`.

  Provided:
  * `RK.wide192_core`      : `if sig192[2] > 10000 …; for sig192[2] > 0 …` followed by the 128-bit part
  * `reduce192_correct`, `reduce256_correct`, `reduce64_correct` : T3
-/
import D128.Proofs.RoundKernelReduce
import D128.Proofs.RoundKernelWideCode

set_option autoImplicit false
set_option maxRecDepth 4096

namespace RK
open Gen Spec

theorem tailP_funext (rm : UInt8) (neg : Bool) :
    (fun (s' : U128) (e' : Int16) (t' : Int8) (d' : UInt64) => reduceTailP rm neg e' t' s' d')
      = reduceTail rm neg := by
  funext s' e' t' d'
  exact reduceTailP_eq rm neg e' t' s' d'

/-- the 192-bit phases followed by the 128-bit ladder and tail, from an `Entry` state -/
theorem wide192_core (rm : UInt8) (m : Mode) (neg : Bool) (sig : U192) (exp : Int16) (trunc : Int8)
    (q : ℚ) (k : Int) (V : ℚ) (hm : Spec.Mode.ofNat? rm.toNat = some m)
    (he0 : -20100 ≤ exp.toInt) (he1 : exp.toInt ≤ 20100)
    (hent : Entry V sig.toNat trunc.toInt exp.toInt) (hVpos : 0 < V) (hq : 0 < q)
    (hVV : q * Spec.pow10 k = V * Spec.pow10 (-6176)) :
    ∃ sig' exp', step192 (fun n e t => do
        let s ← forIn Lean.Loop.mk (n, e, t) wide192Body
        ladder128 (reduceTail rm neg) { w0 := s.1.w0, w1 := s.1.w1 } s.2.1 s.2.2) sig exp trunc
        = .ok (sig', exp') ∧
      RoundPost (flushOrRoundS m neg q k) neg sig' exp' := by
  have hCm := Cmax_val
  obtain ⟨n1, e1, t1, hstep, hrel⟩ := step192_spec sig exp trunc (by omega) (by omega)
  rw [hstep _]
  have hent1 : Entry V n1.toNat t1.toInt e1.toInt ∧ exp.toInt ≤ e1.toInt ∧
      e1.toInt ≤ exp.toInt + 8 := by
    rcases hrel with ⟨h1, h2, h3⟩ | ⟨hbig, h1, h2, h3⟩
    · subst h1 h2 h3; exact ⟨hent, le_refl _, by omega⟩
    · refine ⟨?_, by omega, by omega⟩
      have := entry_drop V sig.toNat trunc.toInt exp.toInt (10 ^ 8) 8 rfl (by norm_num)
        (by rw [hCm]; omega) hent
      rw [h1, h2, h3]
      simpa using this
  obtain ⟨hE1, hge1, hle1⟩ := hent1
  have h192 := n1.toNat_lt
  -- the 192-bit loop
  let PW : Nat → Int → Int → Prop := fun n t e =>
    Entry V n t e ∧ e1.toInt ≤ e ∧ n * 10 ^ (e - e1.toInt).toNat ≤ n1.toNat
  have hstepW : ∀ n t e, PW n t e → 2 ^ 128 ≤ n →
      PW (n / 10000) (if n % 10000 ≠ 0 then 1 else t) (e + 4) ∧ e < 32700 := by
    intro n t e ⟨hE, hge, hmul⟩ hbig
    have hx : (e - e1.toInt).toNat < 58 - 38 + 1 := by
      apply pow_lt_of_mul_le' n _ n1.toNat 38 58 hmul
        (by have : (10 : Nat) ^ 38 ≤ 2 ^ 128 := by norm_num
            omega)
        (by have : (2 : Nat) ^ 192 < 10 ^ 58 := by norm_num
            omega) (by norm_num)
    refine ⟨⟨?_, by omega, ?_⟩, by omega⟩
    · have := entry_drop V n t e (10 ^ 4) 4 rfl (by norm_num) (by rw [hCm]; omega) hE
      simpa using this
    · have : (e + 4 - e1.toInt).toNat = (e - e1.toInt).toNat + 4 := by omega
      rw [this, pow_add]
      calc n / 10000 * (10 ^ (e - e1.toInt).toNat * 10 ^ 4)
          = (n / 10000 * 10000) * 10 ^ (e - e1.toInt).toNat := by ring
        _ ≤ n * 10 ^ (e - e1.toInt).toNat := Nat.mul_le_mul_right _ (Nat.div_mul_le_self n 10000)
        _ ≤ n1.toNat := hmul
  obtain ⟨st, hL, ⟨hE', hge', hmul'⟩, hlt⟩ := wide192_inv PW hstepW (n1, e1, t1)
    ⟨hE1, le_refl _, by simp⟩
  rw [hL, ok_bind]
  have hn1 : 1 ≤ st.1.toNat := entry_pos V _ _ _ hE' hVpos
  have hx : (st.2.1.toInt - e1.toInt).toNat < 58 - 0 + 1 := by
    apply pow_lt_of_mul_le' st.1.toNat _ n1.toNat 0 58 hmul' (by omega)
      (by have : (2 : Nat) ^ 192 < 10 ^ 58 := by norm_num
          omega) (by norm_num)
  have htoNat : ({ w0 := st.1.w0, w1 := st.1.w1 } : U128).toNat = st.1.toNat := by
    have hw0 := st.1.w0.toNat_lt
    have hw1 := st.1.w1.toNat_lt
    simp only [U128.toNat, U192.toNat] at hlt ⊢
    omega
  exact reduce_core_entry rm m neg _ st.2.1 st.2.2 q k V hm (by omega) (by omega)
    (by rw [htoNat]; exact hE') hVpos hq hVV

/-- the callers' hypotheses give an `Entry` state -/
theorem entry_of_hyps (N : Nat) (T E : Int) (τ : ℚ) (ht : TruncRel T τ)
    (hT1 : T = 1 → Spec.Cmax < N)
    (hTm1 : T = -1 → Spec.Cmax < N ∧ (100 * 2 ^ 110 ≤ N ∨ -1 / 10 < τ))
    (hfl : T = -1 → Spec.pow10 (Emin - 1) ≤ ((N : ℚ) + τ) * Spec.pow10 (E - 6176)) :
    Entry (((N : ℚ) + τ) * Spec.pow10 E) N T E := by
  refine ⟨τ, ht, rfl, hT1, hTm1, ?_⟩
  intro h
  have h1 := hfl h
  have e1 : Spec.pow10 (Emin - 1) = 1 / 10 * Spec.pow10 (-6176) := by
    have : Emin - 1 = -1 + -6176 := by unfold Spec.Emin; ring
    rw [this, pow10_add, pow10_neg_one]
  have e2 : ((N : ℚ) + τ) * Spec.pow10 (E - 6176)
      = ((N : ℚ) + τ) * Spec.pow10 E * Spec.pow10 (-6176) := by
    rw [sub_eq_add_neg, pow10_add]; ring
  rw [e1, e2] at h1
  exact le_of_mul_le_mul_right h1 (pow10_pos _)

theorem int8_eq_of_toInt (t : Int8) (v : Int8) (h : t.toInt = v.toInt) : t = v :=
  Int8.toInt_inj.1 h

end RK

open RK in
/-- **T3 (192 bits).**  `Gen.RoundingMode.reduce192` terminates without panic and returns the member
of the format that mode `m` selects for the exact magnitude `(sig + τ)·10^(exp-6176)` (a correctly
signed zero below `10^(Emin-1)`).  Hypotheses as for `reduce128_correct`. -/
theorem reduce192_correct (rm : UInt8) (m : Spec.Mode) (neg : Bool) (sig : U192) (exp : Int16)
    (trunc : Int8) (τ : ℚ)
    (hm : Spec.Mode.ofNat? rm.toNat = some m)
    (he0 : -20000 ≤ exp.toInt) (he1 : exp.toInt ≤ 20000)
    (ht : RK.TruncRel trunc.toInt τ) (hq : 0 < (sig.toNat : ℚ) + τ)
    (hT1 : trunc = 1 → Spec.Cmax < sig.toNat)
    (hTm1 : trunc = -1 → Spec.Cmax < sig.toNat ∧ (100 * 2 ^ 110 ≤ sig.toNat ∨ -1 / 10 < τ))
    (hfl : trunc = -1 →
      Spec.pow10 (Spec.Emin - 1) ≤ ((sig.toNat : ℚ) + τ) * Spec.pow10 (exp.toInt - 6176)) :
    ∃ sig' exp', Gen.RoundingMode.reduce192 rm neg sig exp trunc = .ok (sig', exp') ∧
      (if exp'.toInt > 12287 then
         Spec.flushOrRoundS m neg ((sig.toNat : ℚ) + τ) (exp.toInt - 6176) = .inf neg
       else sig'.toNat ≤ Spec.Cmax ∧ 0 ≤ exp'.toInt ∧
         (Spec.flushOrRoundS m neg ((sig.toNat : ℚ) + τ) (exp.toInt - 6176)).same
           (.fin neg sig'.toNat (exp'.toInt - 6176)) = true) := by
  rw [reduce192_eq, tailP_funext]
  have hent := entry_of_hyps sig.toNat trunc.toInt exp.toInt τ ht
    (fun h => hT1 (int8_eq_of_toInt _ 1 h)) (fun h => hTm1 (int8_eq_of_toInt _ (-1) h))
    (fun h => hfl (int8_eq_of_toInt _ (-1) h))
  exact wide192_core rm m neg sig exp trunc _ _ _ hm (by omega) (by omega) hent
    (mul_pos hq (pow10_pos _)) hq (by rw [sub_eq_add_neg, pow10_add]; ring)

open RK in
/-- **T3 (256 bits).**  The same for `Gen.RoundingMode.reduce256`. -/
theorem reduce256_correct (rm : UInt8) (m : Spec.Mode) (neg : Bool) (sig : U256) (exp : Int16)
    (trunc : Int8) (τ : ℚ)
    (hm : Spec.Mode.ofNat? rm.toNat = some m)
    (he0 : -20000 ≤ exp.toInt) (he1 : exp.toInt ≤ 20000)
    (ht : RK.TruncRel trunc.toInt τ) (hq : 0 < (sig.toNat : ℚ) + τ)
    (hT1 : trunc = 1 → Spec.Cmax < sig.toNat)
    (hTm1 : trunc = -1 → Spec.Cmax < sig.toNat ∧ (100 * 2 ^ 110 ≤ sig.toNat ∨ -1 / 10 < τ))
    (hfl : trunc = -1 →
      Spec.pow10 (Spec.Emin - 1) ≤ ((sig.toNat : ℚ) + τ) * Spec.pow10 (exp.toInt - 6176)) :
    ∃ sig' exp', Gen.RoundingMode.reduce256 rm neg sig exp trunc = .ok (sig', exp') ∧
      (if exp'.toInt > 12287 then
         Spec.flushOrRoundS m neg ((sig.toNat : ℚ) + τ) (exp.toInt - 6176) = .inf neg
       else sig'.toNat ≤ Spec.Cmax ∧ 0 ≤ exp'.toInt ∧
         (Spec.flushOrRoundS m neg ((sig.toNat : ℚ) + τ) (exp.toInt - 6176)).same
           (.fin neg sig'.toNat (exp'.toInt - 6176)) = true) := by
  have hCm := Cmax_val
  rw [reduce256_eq, tailP_funext]
  set V : ℚ := ((sig.toNat : ℚ) + τ) * Spec.pow10 exp.toInt with hV
  have hVpos : 0 < V := mul_pos hq (pow10_pos _)
  have hent : Entry V sig.toNat trunc.toInt exp.toInt :=
    entry_of_hyps sig.toNat trunc.toInt exp.toInt τ ht
      (fun h => hT1 (int8_eq_of_toInt _ 1 h)) (fun h => hTm1 (int8_eq_of_toInt _ (-1) h))
      (fun h => hfl (int8_eq_of_toInt _ (-1) h))
  have h256 := D128.Proofs.WordsWide.U256.toNat_lt sig
  -- the 256-bit loop
  let PW : Nat → Int → Int → Prop := fun n t e =>
    Entry V n t e ∧ exp.toInt ≤ e ∧ n * 10 ^ (e - exp.toInt).toNat ≤ sig.toNat
  have hstepW : ∀ n t e, PW n t e → 2 ^ 192 ≤ n →
      PW (n / 10000000000000000000) (if n % 10000000000000000000 ≠ 0 then 1 else t) (e + 19) ∧
        e < 32700 := by
    intro n t e ⟨hE, hge, hmul⟩ hbig
    have hx : (e - exp.toInt).toNat < 78 - 57 + 1 := by
      apply pow_lt_of_mul_le' n _ sig.toNat 57 78 hmul
        (by have : (10 : Nat) ^ 57 ≤ 2 ^ 192 := by norm_num
            omega)
        (by have : (2 : Nat) ^ 256 < 10 ^ 78 := by norm_num
            omega) (by norm_num)
    refine ⟨⟨?_, by omega, ?_⟩, by omega⟩
    · have := entry_drop V n t e (10 ^ 19) 19 rfl (by norm_num) (by rw [hCm]; omega) hE
      simpa using this
    · have : (e + 19 - exp.toInt).toNat = (e - exp.toInt).toNat + 19 := by omega
      rw [this, pow_add]
      calc n / 10000000000000000000 * (10 ^ (e - exp.toInt).toNat * 10 ^ 19)
          = (n / 10000000000000000000 * 10000000000000000000) * 10 ^ (e - exp.toInt).toNat := by
            ring
        _ ≤ n * 10 ^ (e - exp.toInt).toNat :=
            Nat.mul_le_mul_right _ (Nat.div_mul_le_self n 10000000000000000000)
        _ ≤ sig.toNat := hmul
  obtain ⟨st, hL, ⟨hE', hge', hmul'⟩, hlt⟩ := wide256_inv PW hstepW (sig, exp, trunc)
    ⟨hent, le_refl _, by simp⟩
  rw [hL, ok_bind]
  have hn1 : 1 ≤ st.1.toNat := entry_pos V _ _ _ hE' hVpos
  have hx : (st.2.1.toInt - exp.toInt).toNat < 78 - 0 + 1 := by
    apply pow_lt_of_mul_le' st.1.toNat _ sig.toNat 0 78 hmul' (by omega)
      (by have : (2 : Nat) ^ 256 < 10 ^ 78 := by norm_num
          omega) (by norm_num)
  have htoNat : ({ w0 := st.1.w0, w1 := st.1.w1, w2 := st.1.w2 } : U192).toNat = st.1.toNat := by
    have hw0 := st.1.w0.toNat_lt
    have hw1 := st.1.w1.toNat_lt
    have hw2 := st.1.w2.toNat_lt
    simp only [U192.toNat, U256.toNat] at hlt ⊢
    omega
  -- the 192-bit loop of `reduce256` is the one of `reduce192`
  have hK : (fun (n : U192) (e : Int16) (t : Int8) => do
        let s2 ← forIn (m := Go.GoM) Lean.Loop.mk (e, t, n) wide192BodyP
        ladder128 (reduceTail rm neg) { w0 := s2.2.2.w0, w1 := s2.2.2.w1 } s2.1 s2.2.1)
      = (fun n e t => do
        let s ← forIn (m := Go.GoM) Lean.Loop.mk (n, e, t) wide192Body
        ladder128 (reduceTail rm neg) { w0 := s.1.w0, w1 := s.1.w1 } s.2.1 s.2.2) := by
    funext n e t
    rw [wide192P_eq, map_bind]
  rw [hK]
  exact wide192_core rm m neg _ st.2.1 st.2.2 _ _ V hm (by omega) (by omega)
    (by rw [htoNat]; exact hE') hVpos hq (by rw [hV, sub_eq_add_neg, pow10_add]; ring)

open RK in
/-- **T3 (64 bits).**  `Gen.RoundingMode.reduce64` (exact input `sig·10^(exp-6176)`, no sticky)
terminates without panic and returns the member of the format that mode `m` selects (a correctly
signed zero for `sig = 0` and below `10^(Emin-1)`). -/
theorem reduce64_correct (rm : UInt8) (m : Spec.Mode) (neg : Bool) (sig : UInt64) (exp : Int16)
    (hm : Spec.Mode.ofNat? rm.toNat = some m)
    (he0 : -20000 ≤ exp.toInt) (he1 : exp.toInt ≤ 20000) :
    ∃ sig' exp', Gen.RoundingMode.reduce64 rm neg sig exp = .ok (sig', exp') ∧
      (if exp'.toInt > 12287 then
         Spec.flushOrRoundS m neg (sig.toNat : ℚ) (exp.toInt - 6176) = .inf neg
       else sig'.toNat ≤ Spec.Cmax ∧ 0 ≤ exp'.toInt ∧
         (Spec.flushOrRoundS m neg (sig.toNat : ℚ) (exp.toInt - 6176)).same
           (.fin neg sig'.toNat (exp'.toInt - 6176)) = true) := by
  have hCm := Cmax_val
  have h64 := sig.toNat_lt
  show ∃ sig' exp', _ ∧ RoundPost _ neg sig' exp'
  rw [reduce64_eq]
  have htoNat : ∀ x : UInt64, ({ w0 := x, w1 := 0 } : U128).toNat = x.toNat := by
    intro x; simp [U128.toNat]
  by_cases hz : sig.toNat = 0
  · -- zero
    have hspec : Spec.flushOrRoundS m neg (sig.toNat : ℚ) (exp.toInt - 6176) = .fin neg 0 0 := by
      rw [hz]; simp [Spec.flushOrRoundS]
    rw [hspec]
    obtain ⟨st3, hC, hpost⟩ := sub64_inv (fun s d t e => s = 0 ∧ d = 0 ∧ t = 0 ∧ e ≤ 20000)
      (by intro s d t e ⟨h1, _, _, _⟩ _ hnz; subst h1; exact absurd ⟨rfl, rfl⟩ hnz)
      (sig, exp, 0, 0) ⟨hz, rfl, rfl, he1⟩
    rw [hC, ok_bind, upLoopP_eq, RK.map_bind]
    have hst : st3.1.toNat = 0 ∧ st3.2.2.1 = 0 ∧ st3.2.2.2 = 0 ∧ 0 ≤ st3.2.1.toInt ∧
        st3.2.1.toInt ≤ 20000 := by
      rcases hpost with ⟨h1, h2, h3, h4, _⟩ | ⟨⟨h1, h2, h3, h4⟩, h5⟩
      · exact ⟨h1, h3, h4, by rw [h2]; decide, by rw [h2]; decide⟩
      · exact ⟨h1, int8_eq_of_toInt _ 0 h3, UInt64.toNat_inj.1 h2, h5, h4⟩
    obtain ⟨hs0, ht0, hd0, hnn, hle⟩ := hst
    obtain ⟨st4, hD, ⟨h4s, h4e0, h4e1⟩, hrange⟩ := upLoop_inv
      (fun s e => s = 0 ∧ 0 ≤ e ∧ e ≤ 20000)
      (by intro s e ⟨h1, h2, h3⟩ hgt _; exact ⟨by omega, by omega, by omega⟩)
      (({ w0 := st3.1, w1 := 0 } : U128), st3.2.1) ⟨by rw [htoNat]; exact hs0, hnn, hle⟩
    rw [hD, ok_bind, ht0, hd0]
    have ha : adjZ m neg (st4.1.w0.toNat % 2 == 1) (0 : Int8).toInt (0 : UInt64).toNat = 0 := by
      cases m <;> cases neg <;> simp [adjZ]
    have hW := adjW_eq_of rm m neg st4.1.w0 0 0 hm (by simp) 0 (by rw [ha]; rfl)
    refine ⟨st4.1, st4.2, round_adj0 _ _ _ _ _ _ _ hW, ?_⟩
    have hle4 : st4.2.toInt ≤ 12287 := by
      rcases hrange with h | h
      · exact h
      · rw [h4s] at h; norm_num at h
    unfold RoundPost
    rw [if_neg (by omega), h4s]
    refine ⟨by omega, h4e0, ?_⟩
    simp [Spec.Val.same, Spec.mag]
  · -- non-zero
    have hN1 : 1 ≤ sig.toNat := by omega
    set V : ℚ := (sig.toNat : ℚ) * Spec.pow10 exp.toInt with hV
    have hqpos : (0 : ℚ) < (sig.toNat : ℚ) := by exact_mod_cast hN1
    have hVpos : 0 < V := mul_pos hqpos (pow10_pos _)
    have hVV : (sig.toNat : ℚ) * Spec.pow10 (exp.toInt - 6176) = V * Spec.pow10 (-6176) := by
      rw [hV, sub_eq_add_neg, pow10_add]; ring
    have hPC : PCd V 0 sig.toNat (0 : UInt64).toNat (0 : Int8).toInt exp.toInt := by
      refine ⟨⟨0, Or.inl ⟨rfl, rfl⟩, by decide, ?_, fun h => absurd h (by decide)⟩,
        by rw [hCm]; omega, Or.inl rfl, by omega, ?_, Or.inr (Or.inl ⟨rfl, rfl⟩)⟩
      · rw [hV]; simp
      · show 1 ≤ 10 * sig.toNat + 0; omega
    obtain ⟨st3, hC, hpost⟩ := sub64_inv (PCd V 0) (pcd_step V 0) (sig, exp, 0, 0) hPC
    rw [hC, ok_bind, upLoopP_eq, RK.map_bind]
    exact phaseD_correct rm m neg { w0 := st3.1, w1 := 0 } st3.2.1 st3.2.2.1 st3.2.2.2 _ _ V 0 hm
      hVpos hqpos hVV (fun h => absurd h (by decide)) (by rw [htoNat]; exact hpost)

/-- the hypotheses of `reduce192_correct` are satisfiable (a 58-digit product, exact) -/
example :=
  reduce192_correct 0 .nearestEven false ⟨1, 2, 3⟩ 6000 0 0 rfl
    (by decide) (by decide) (Or.inl ⟨by decide, rfl⟩) (by simp [U192.toNat])
    (fun h => absurd h (by decide)) (fun h => absurd h (by decide))
    (fun h => absurd h (by decide))

/-- the hypotheses of `reduce256_correct` are satisfiable (a product with positive sticky) -/
example :=
  reduce256_correct 1 .nearestAway true ⟨1, 2, 3, 4⟩ 6000 1 (1 / 3) rfl
    (by decide) (by decide) (Or.inr (Or.inl ⟨by decide, by norm_num, by norm_num⟩))
    (by positivity)
    (fun _ => by rw [RK.Cmax_val]; decide) (fun h => absurd h (by decide))
    (fun h => absurd h (by decide))

/-- `reduce64_correct` has no side conditions beyond the exponent range -/
example := reduce64_correct 5 .toPosInf false 12345 (-3) rfl (by decide) (by decide)
