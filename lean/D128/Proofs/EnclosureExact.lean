/-
  Soundness of the oracle, part 12: the remaining paths of `Spec.judgeElem` — special operands, exactly
  representable results, huge arguments of the exponential family — and the complete statement
  "a `.bad` verdict is a violation of a claim of property C16 about the real number f(x)".

  1. `judgeElem_special` : special operand ⇒ verdict = comparison with the table `specialCase`
  2. `judgeElem_exact`   : exact case ⇒ verdict = comparison with `exactCase`
     `ExactSpec f want F` : `want` is a finite value equal to `F`, or (Exp10 of an integer k) the nearest-even
                            member for the exact `10^k` (`flushOrRoundS`)
     `exactCase_sound`    : exactCase f n c e = some want → ExactSpec f want (realFn f X)
  3. `judgeElem_huge`     : huge argument of the exp family ⇒ verdict = the overflow / underflow rule
     `huge_real`          : |X| ≥ 10^7: f(X) > 10^17000 (X > 0), 0 < f(X) < 10^-17000 resp. −1 < Expm1 X < −1+10^-17000 (X < 0)
  4. `Violation f x r ne`, `judgeElem_bad_sound` : for every operand, result and mode flag,
        judgeElem f x r ne = .bad msg → Violation f x r ne
-/
import D128.Proofs.EnclosureJudge
set_option autoImplicit false

namespace EnclPf
open Spec Spec.Encl SpecRound

/-! ## 1. special operands -/

theorem judgeElem_special (f : Fn) (x r : Val) (ne : Bool) (want : Val) (h : specialCase f x = some want) :
    judgeElem f x r ne = if r.same want then .ok else .bad "special operand" := by
  unfold judgeElem; simp only [h]

/-! ## 2. exactly representable results -/

theorem judgeElem_exact (f : Fn) (n : Bool) (c : Nat) (e : Int) (r : Val) (want : Val)
    (hspec : specialCase f (.fin n c e) = none) (h : exactCase f n c e = some want) :
    judgeElem f (.fin n c e) r true =
      if r.same want then .ok else .bad "exactly representable result not returned exactly" := by
  unfold judgeElem; simp only [hspec, h, if_true]

/-- `want` is the exact value `F` as a finite Decimal value, or — for `Exp10` of an integer `k` — the member
    that nearest-even rounding selects for the exact `10^k` (itself when representable, +Inf / +0 beyond the
    range) -/
def ExactSpec (want : Val) (F : ℝ) : Prop :=
  (∃ wn wc we, want = .fin wn wc we ∧ X wn wc we = F) ∨
  (∃ k : Int, F = (10 : ℝ) ^ k ∧ want = flushOrRoundS .nearestEven false 1 k)

theorem exact_guard (n : Bool) (c : Nat) (e : Int) (h : ¬ e.natAbs > 50) :
    (if e.natAbs > 50 then (0 : ℚ) else (if n then -(mag c e) else mag c e)) = (Val.fin n c e).toRat := by
  rw [if_neg h]; rfl

theorem cast_num_of_den_one {q : ℚ} (h : q.den = 1) : ((q.num : ℤ) : ℝ) = (q : ℝ) := by
  have := Rat.coe_int_num_of_den_eq_one h
  have h2 : (((q.num : ℤ) : ℚ) : ℝ) = (q : ℝ) := by rw [this]
  simpa using h2

theorem X_zero (n : Bool) (e : Int) : X n 0 e = 0 := by rw [X_eq]; simp

theorem X_int (k : Int) : X (decide (k < 0)) k.natAbs 0 = (k : ℝ) := by
  rw [X_eq]
  by_cases h : k < 0
  · simp only [h, decide_true, if_true, zpow_zero, mul_one]
    have h2 : ((k.natAbs : ℕ) : ℝ) = -(k : ℝ) := by
      rw [Nat.cast_natAbs, Int.cast_abs, abs_of_neg (by exact_mod_cast h)]
    rw [h2]; ring
  · simp only [h, decide_false, Bool.false_eq_true, if_false, zpow_zero, mul_one]
    rw [Nat.cast_natAbs, Int.cast_abs, abs_of_nonneg (by exact_mod_cast not_lt.1 h)]

theorem exactCase_sound (f : Fn) (n : Bool) (c : Nat) (e : Int) (want : Val)
    (hspec : specialCase f (.fin n c e) = none) (h : exactCase f n c e = some want) :
    ExactSpec want (realFn f (X n c e)) := by
  obtain ⟨hc0, -⟩ := specialCase_none hspec
  unfold exactCase at h
  simp only at h
  split at h
  · exact absurd h (by simp)
  rename_i hg
  rw [← toRat_fin n c e] at h
  have hXdef : X n c e = (((Val.fin n c e).toRat : ℚ) : ℝ) := rfl
  set x : ℚ := (Val.fin n c e).toRat with hx
  cases f
  case exp => exact absurd h (by simp)
  case expm1 => exact absurd h (by simp)
  case log1p => exact absurd h (by simp)
  case sqrt => exact absurd h (by simp)
  case cbrt => exact absurd h (by simp)
  case exp10 =>
    simp only at h
    split at h
    · rename_i hcnd
      simp only [Bool.and_eq_true, beq_iff_eq, decide_eq_true_eq] at hcnd
      obtain rfl := Option.some.inj h
      right
      refine ⟨x.num, ?_, rfl⟩
      show (10 : ℝ) ^ (X n c e) = _
      rw [hXdef, ← cast_num_of_den_one hcnd.1, Real.rpow_intCast]
    · exact absurd h (by simp)
  case exp2 =>
    simp only at h
    split at h
    · rename_i hcnd
      simp only [Bool.and_eq_true, beq_iff_eq, decide_eq_true_eq] at hcnd
      obtain rfl := Option.some.inj h
      left
      refine ⟨false, _, 0, rfl, ?_⟩
      show _ = (2 : ℝ) ^ (X n c e)
      rw [hXdef, ← cast_num_of_den_one hcnd.1.1, X_eq]
      simp only [Bool.false_eq_true, if_false, zpow_zero, mul_one]
      have hnn : ((x.num.toNat : ℕ) : ℤ) = x.num := Int.toNat_of_nonneg hcnd.1.2
      rw [show ((x.num : ℤ) : ℝ) = ((x.num.toNat : ℕ) : ℝ) from by exact_mod_cast hnn.symm,
        Real.rpow_natCast]
      push_cast; rfl
    · split at h
      · rename_i hcnd
        simp only [Bool.and_eq_true, beq_iff_eq, decide_eq_true_eq] at hcnd
        obtain rfl := Option.some.inj h
        left
        refine ⟨false, _, x.num, rfl, ?_⟩
        show _ = (2 : ℝ) ^ (X n c e)
        rw [hXdef, ← cast_num_of_den_one hcnd.1.1, X_eq, Real.rpow_intCast]
        simp only [Bool.false_eq_true, if_false]
        obtain ⟨m, hm⟩ : ∃ m : ℕ, x.num = -(m : ℤ) := ⟨(-x.num).toNat, by omega⟩
        rw [hm]
        simp only [neg_neg, Int.toNat_natCast, zpow_neg, zpow_natCast]
        push_cast
        have h5 : ((5 : ℝ) ^ m) * (2 : ℝ) ^ m = (10 : ℝ) ^ m := by rw [← mul_pow]; norm_num
        have h2 : (2 : ℝ) ^ m ≠ 0 := by positivity
        have h10 : (10 : ℝ) ^ m ≠ 0 := by positivity
        field_simp
        linarith
      · exact absurd h (by simp)
  case log =>
    simp only at h
    split at h
    · rename_i hcnd
      have hx1 : x = 1 := by simpa using hcnd
      obtain rfl := Option.some.inj h
      left
      refine ⟨false, 0, 0, rfl, ?_⟩
      show _ = Real.log (X n c e)
      rw [X_zero, hXdef, hx1]; simp
    · exact absurd h (by simp)
  case log10 =>
    simp only at h
    split at h
    · rename_i hcnd
      simp only [Bool.and_eq_true, Bool.not_eq_true', beq_iff_eq] at hcnd
      obtain ⟨rfl, hcp⟩ := hcnd
      obtain rfl := Option.some.inj h
      left
      have hval : Real.logb 10 (X false c e) = (((ndigits c : ℤ) - 1 + e : ℤ) : ℝ) := by
        rw [X_eq]
        simp only [Bool.false_eq_true, if_false]
        have : (c : ℝ) = (10 : ℝ) ^ (ndigits c - 1 : ℕ) := by
          conv_lhs => rw [hcp]
          push_cast; rfl
        rw [this, ← zpow_natCast, ← zpow_add₀ (by norm_num : (10 : ℝ) ≠ 0), ← Real.rpow_intCast,
          Real.logb_rpow (by norm_num) (by norm_num)]
        have hnd := ndigits_pos c
        congr 1
        omega
      split
      · rename_i hk
        have hk0 : (ndigits c : ℤ) - 1 + e = 0 := by simpa using hk
        refine ⟨false, 0, 0, rfl, ?_⟩
        show _ = Real.logb 10 (X false c e)
        rw [hval, hk0, X_zero]; simp
      · refine ⟨_, _, 0, rfl, ?_⟩
        show _ = Real.logb 10 (X false c e)
        rw [hval, X_int]
    · exact absurd h (by simp)
  case log2 =>
    simp only at h
    split at h
    · exact absurd h (by simp)
    rename_i hcnd
    simp only [Bool.or_eq_true, Bool.and_eq_true, bne_iff_ne, ne_eq, not_or, not_and, Bool.not_eq_true,
      Decidable.not_not] at hcnd
    obtain ⟨hn, hdn⟩ := hcnd
    have hxpos : (0 : ℝ) < X n c e := by
      subst hn
      rw [X_eq]; simp only [Bool.false_eq_true, if_false]
      have : (0 : ℝ) < (c : ℝ) := by exact_mod_cast Nat.pos_of_ne_zero hc0
      positivity
    split at h
    · rename_i hden
      have hden : x.den = 1 := by simpa using hden
      split at h
      · rename_i hv
        have hv : x.num.toNat = 2 ^ (x.num.toNat.log2) := by simpa using hv
        obtain rfl := Option.some.inj h
        left
        have hnum : (0 : ℤ) ≤ x.num := by
          have : (0 : ℝ) < ((x.num : ℤ) : ℝ) := by rw [cast_num_of_den_one hden, ← hXdef]; exact hxpos
          have : (0 : ℤ) < x.num := by exact_mod_cast this
          omega
        have hval : Real.logb 2 (X n c e) = ((x.num.toNat.log2 : ℕ) : ℝ) := by
          rw [hXdef, ← cast_num_of_den_one hden]
          have h1 : ((x.num : ℤ) : ℝ) = ((x.num.toNat : ℕ) : ℝ) := by
            have := Int.toNat_of_nonneg hnum
            exact_mod_cast this.symm
          rw [h1]
          conv_lhs => rw [hv]
          push_cast
          rw [← Real.rpow_natCast, Real.logb_rpow (by norm_num) (by norm_num)]
        split
        · rename_i hk
          have hk0 : x.num.toNat.log2 = 0 := by simpa using hk
          refine ⟨false, 0, 0, rfl, ?_⟩
          show _ = Real.logb 2 (X n c e)
          rw [hval, hk0, X_zero]; simp
        · refine ⟨false, _, 0, rfl, ?_⟩
          show _ = Real.logb 2 (X n c e)
          rw [hval, X_eq]; simp
      · exact absurd h (by simp)
    · rename_i hden
      have hden : x.den ≠ 1 := by simpa using hden
      have hnum1 : x.num = 1 := hdn hden
      split at h
      · rename_i hv
        have hv : x.den = 2 ^ (x.den.log2) := by simpa using hv
        obtain rfl := Option.some.inj h
        left
        refine ⟨true, _, 0, rfl, ?_⟩
        show _ = Real.logb 2 (X n c e)
        have hxq : x = 1 / (x.den : ℚ) := by
          have := Rat.num_div_den x
          rw [hnum1] at this
          rw [← this]; simp
        have hv' : ((x.den : ℕ) : ℝ) = (2 : ℝ) ^ (x.den.log2 : ℕ) := by exact_mod_cast hv
        have hxr : X n c e = ((2 : ℝ) ^ (x.den.log2 : ℕ))⁻¹ := by
          calc X n c e = (x : ℝ) := hXdef
            _ = ((1 / (x.den : ℚ) : ℚ) : ℝ) := by rw [← hxq]
            _ = (((x.den : ℕ) : ℝ))⁻¹ := by push_cast; rw [one_div]
            _ = ((2 : ℝ) ^ (x.den.log2 : ℕ))⁻¹ := by rw [hv']
        rw [hxr, Real.logb_inv, ← Real.rpow_natCast, Real.logb_rpow (by norm_num) (by norm_num), X_eq]
        simp
      · exact absurd h (by simp)

/-! ## 3. huge arguments of the exponential family -/

theorem judgeElem_huge (f : Fn) (n : Bool) (c : Nat) (e : Int) (r : Val) (ne : Bool)
    (hspec : specialCase f (.fin n c e) = none)
    (hexact : (if ne then exactCase f n c e else none) = none)
    (hhuge : hugeArg f c e = true) :
    judgeElem f (.fin n c e) r ne =
      if n then (if f == .expm1 then (if r.same (.fin true 1 0) then .ok
                                      else .bad "Expm1 of a huge negative argument is -1")
                 else if r.isZero && !r.neg then .ok else .bad "underflow must give +0")
      else if r.same (.inf false) then .ok else .bad "overflow must give +Inf" := by
  unfold judgeElem
  unfold hugeArg at hhuge
  simp only [hspec, hexact, hhuge, if_true]

theorem exp_40000_gt : (10 : ℝ) ^ (17000 : ℕ) < Real.exp 40000 := by
  have h1 : (27 / 10 : ℝ) < Real.exp 1 := lt_trans (by norm_num) Real.exp_one_gt_d9
  have h2 : Real.exp 40000 = (Real.exp 1 ^ 40) ^ 1000 := by
    rw [← pow_mul, ← Real.exp_nat_mul]; norm_num
  have h3 : (10 : ℝ) ^ 17 < Real.exp 1 ^ 40 :=
    lt_of_lt_of_le (by norm_num : (10 : ℝ) ^ 17 < (27 / 10) ^ 40) (pow_le_pow_left₀ (by norm_num) h1.le 40)
  rw [h2, show (17000 : ℕ) = 17 * 1000 from rfl, pow_mul]
  exact pow_lt_pow_left₀ h3 (by positivity) (by norm_num)

theorem exp_gt_of_ge {v : ℝ} (h : 40000 ≤ v) : (10 : ℝ) ^ (17000 : ℕ) < Real.exp v :=
  lt_of_lt_of_le exp_40000_gt (Real.exp_le_exp.2 h)

theorem exp_lt_of_le {v : ℝ} (h : v ≤ -40000) : Real.exp v < 1 / (10 : ℝ) ^ (17000 : ℕ) := by
  have h2 : Real.exp v ≤ Real.exp (-40000) := Real.exp_le_exp.2 h
  have h3 : Real.exp (-40000) < 1 / (10 : ℝ) ^ (17000 : ℕ) := by
    rw [Real.exp_neg, one_div]
    exact inv_strictAnti₀ (by positivity) exp_40000_gt
  exact lt_of_le_of_lt h2 h3

theorem log2_ge : (69 / 100 : ℝ) ≤ Real.log 2 := by
  have a2 : (((69 / 100 : ℚ)) : ℝ) ≤ ((ln2.lo : ℚ) : ℝ) := by exact_mod_cast ln2_lo_ge
  push_cast at a2
  linarith [ln2_sound.1]

theorem log10_ge : (23 / 10 : ℝ) ≤ Real.log 10 := by
  have a2 : (((23 / 10 : ℚ)) : ℝ) ≤ ((ln10.lo : ℚ) : ℝ) := by exact_mod_cast ln10_lo_ge
  push_cast at a2
  linarith [ln10_sound.1]

/-- what the true value is for a huge argument: beyond every finite Decimal for `X ≥ 10^7`, below every
    positive Decimal (resp. within 10^-17000 of −1 for Expm1) for `X ≤ −10^7` -/
theorem huge_real (f : Fn) (n : Bool) (c : Nat) (e : Int) (hc0 : c ≠ 0) (hhuge : hugeArg f c e = true) :
    (n = false → (10 : ℝ) ^ (17000 : ℕ) < realFn f (X n c e)) ∧
    (n = true → f ≠ .expm1 → 0 < realFn f (X n c e) ∧ realFn f (X n c e) < 1 / (10 : ℝ) ^ (17000 : ℕ)) ∧
    (n = true → f = .expm1 →
      -1 < realFn f (X n c e) ∧ realFn f (X n c e) < -1 + 1 / (10 : ℝ) ^ (17000 : ℕ)) := by
  unfold hugeArg at hhuge
  simp only [Bool.and_eq_true, Bool.or_eq_true, beq_iff_eq, decide_eq_true_eq] at hhuge
  obtain ⟨hf, h7⟩ := hhuge
  have hA : (10 : ℝ) ^ (7 : ℤ) ≤ |X n c e| :=
    le_trans (zpow_le_zpow_right₀ (by norm_num) (by omega)) (abs_X_ge n hc0 e)
  have h107 : (10 : ℝ) ^ (7 : ℤ) = 10000000 := by norm_num
  rw [h107, abs_X] at hA
  have l2 := log2_ge
  have l10 := log10_ge
  have hXp : n = false → X n c e = (c : ℝ) * (10 : ℝ) ^ e := by rintro rfl; rw [X_eq]; simp
  have hXn : n = true → X n c e = -((c : ℝ) * (10 : ℝ) ^ e) := by rintro rfl; rw [X_eq]; simp
  set A := (c : ℝ) * (10 : ℝ) ^ e with hAdef
  refine ⟨fun hn => ?_, fun hn hfe => ?_, fun hn hfe => ?_⟩
  · rw [hXp hn]
    rcases hf with ((rfl | rfl) | rfl) | rfl
    · exact exp_gt_of_ge (by linarith)
    · show _ < (2 : ℝ) ^ A
      rw [Real.rpow_def_of_pos (by norm_num)]
      exact exp_gt_of_ge (by nlinarith)
    · show _ < (10 : ℝ) ^ A
      rw [Real.rpow_def_of_pos (by norm_num)]
      exact exp_gt_of_ge (by nlinarith)
    · show _ < Real.exp A - 1
      have h1 : Real.exp A = Real.exp (A - 1) * Real.exp 1 := by rw [← Real.exp_add]; ring_nf
      have h2 := exp_gt_of_ge (v := A - 1) (by linarith)
      have h3 : (2 : ℝ) < Real.exp 1 := lt_trans (by norm_num) Real.exp_one_gt_d9
      have h4 : (1 : ℝ) ≤ (10 : ℝ) ^ (17000 : ℕ) := one_le_pow₀ (by norm_num)
      have h5 : (10 : ℝ) ^ (17000 : ℕ) * 2 < Real.exp (A - 1) * Real.exp 1 :=
        mul_lt_mul'' h2 h3 (by positivity) (by norm_num)
      generalize (10 : ℝ) ^ (17000 : ℕ) = P at *
      linarith
  · rw [hXn hn]
    rcases hf with ((rfl | rfl) | rfl) | rfl
    · exact ⟨Real.exp_pos _, exp_lt_of_le (by linarith)⟩
    · show 0 < (2 : ℝ) ^ (-A) ∧ (2 : ℝ) ^ (-A) < _
      rw [Real.rpow_def_of_pos (by norm_num)]
      exact ⟨Real.exp_pos _, exp_lt_of_le (by nlinarith)⟩
    · show 0 < (10 : ℝ) ^ (-A) ∧ (10 : ℝ) ^ (-A) < _
      rw [Real.rpow_def_of_pos (by norm_num)]
      exact ⟨Real.exp_pos _, exp_lt_of_le (by nlinarith)⟩
    · exact absurd rfl hfe
  · subst hfe
    rw [hXn hn]
    show -1 < Real.exp (-A) - 1 ∧ Real.exp (-A) - 1 < _
    have h1 := Real.exp_pos (-A)
    have h2 := exp_lt_of_le (v := -A) (by linarith)
    generalize (10 : ℝ) ^ (17000 : ℕ) = P at *
    constructor <;> linarith

/-! ## 4. every `.bad` verdict of `judgeElem` -/

/-- **What a `.bad` verdict of `judgeElem` asserts**, for every operand `x`, result `r` and mode flag:
    * special operand: `r` differs from the table value `specialCase f x` (property C15);
    * exact case (default mode): the exact result `f(x)` is representable (`ExactSpec`) and `r` is not it;
    * huge argument of the exp family: `f(x)` is beyond every finite Decimal / below every positive one /
      within 10^-17000 of −1, and `r` is not +Inf / +0 / −1;
    * otherwise `GeneralViolation (f x) r`: NaN, wrong sign, more than one unit in the last place, zero or
      Inf although representable, finite although out of range. -/
def Violation (f : Fn) (x r : Val) (ne : Bool) : Prop :=
  (∃ want, specialCase f x = some want ∧ r.same want = false) ∨
  (∃ n c e, x = .fin n c e ∧ specialCase f x = none ∧
    ((∃ want, ne = true ∧ exactCase f n c e = some want ∧ ExactSpec want (realFn f (X n c e)) ∧
        r.same want = false) ∨
     (hugeArg f c e = true ∧ n = false ∧ (10 : ℝ) ^ (17000 : ℕ) < realFn f (X n c e) ∧
        r.same (.inf false) = false) ∨
     (hugeArg f c e = true ∧ n = true ∧ f ≠ .expm1 ∧ 0 < realFn f (X n c e) ∧
        realFn f (X n c e) < 1 / (10 : ℝ) ^ (17000 : ℕ) ∧ (r.isZero && !r.neg) = false) ∨
     (hugeArg f c e = true ∧ n = true ∧ f = .expm1 ∧ -1 < realFn f (X n c e) ∧
        realFn f (X n c e) < -1 + 1 / (10 : ℝ) ^ (17000 : ℕ) ∧ r.same (.fin true 1 0) = false) ∨
     GeneralViolation (realFn f (X n c e)) r))

theorem judgeElem_bad_sound (f : Fn) (x r : Val) (ne : Bool) (msg : String)
    (hx : ∀ n c e, x = .fin n c e → c < 10 ^ 35)
    (h : judgeElem f x r ne = .bad msg) : Violation f x r ne := by
  cases hs : specialCase f x with
  | some want =>
    rw [judgeElem_special f x r ne want hs] at h
    left
    refine ⟨want, hs, ?_⟩
    split at h
    · exact absurd h (by simp)
    · rename_i hne; simpa using hne
  | none =>
    right
    match x with
    | .nan nn p => exact absurd hs (by simp [specialCase])
    | .inf nn => exact absurd hs (by cases f <;> simp [specialCase])
    | .fin n c e =>
      refine ⟨n, c, e, rfl, hs, ?_⟩
      have hc := hx n c e rfl
      obtain ⟨hc0, -⟩ := specialCase_none hs
      cases hex : (if ne then exactCase f n c e else none) with
      | some want =>
        have hne : ne = true := by
          cases ne
          · simp at hex
          · rfl
        subst hne
        simp only [if_true] at hex
        rw [judgeElem_exact f n c e r want hs hex] at h
        left
        refine ⟨want, rfl, hex, exactCase_sound f n c e want hs hex, ?_⟩
        split at h
        · exact absurd h (by simp)
        · rename_i hne; simpa using hne
      | none =>
        right
        cases hh : hugeArg f c e with
        | true =>
          obtain ⟨r1, r2, r3⟩ := huge_real f n c e hc0 hh
          rw [judgeElem_huge f n c e r ne hs hex hh] at h
          cases n with
          | false =>
            left
            simp only [Bool.false_eq_true, if_false] at h
            split at h
            · exact absurd h (by simp)
            · rename_i hne
              exact ⟨rfl, rfl, r1 rfl, by simpa using hne⟩
          | true =>
            right
            simp only [if_true] at h
            split at h
            · rename_i hfe
              have hfe : f = .expm1 := by simpa using hfe
              right; left
              split at h
              · exact absurd h (by simp)
              · rename_i hne
                exact ⟨rfl, rfl, hfe, (r3 rfl hfe).1, (r3 rfl hfe).2, by simpa using hne⟩
            · rename_i hfe
              have hfe : f ≠ .expm1 := by simpa using hfe
              left
              split at h
              · exact absurd h (by simp)
              · rename_i hne
                exact ⟨rfl, rfl, hfe, (r2 rfl hfe).1, (r2 rfl hfe).2, by simpa using hne⟩
        | false =>
          right; right; right
          cases htv : trueValue f n c e with
          | none =>
            exfalso
            unfold judgeElem at h
            unfold hugeArg at hh
            simp only [hs, hex, hh, htv, Bool.false_eq_true, if_false] at h
            exact absurd h (by simp)
          | some p =>
            obtain ⟨tn, t⟩ := p
            exact general_bad_sound f n c e ne tn t r msg hs hex hh htv hc h

end EnclPf
