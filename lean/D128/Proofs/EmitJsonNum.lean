/-
  D128/Proofs/EmitJsonNum.lean — `UnmarshalJSON` on a JSON number (RFC 8259, `Spec.readJsonNumber`).

  * `Emit.jsonRest_neg`, `Emit.jsonRest_head`, `Emit.readJsonNumber_head` : an accepted text is `[-] digit …`, and the sign it reports is the written one
  * `Emit.unmarshalJSON_of_json` : on every JSON number `UnmarshalJSON g d data` is `parseNumber g digits neg false`
        (separators off) with the error translated by `Emit.jsonResult`
-/
import D128.Proofs.EmitJson
import D128.Proofs.EmitRead
import D128.Gen.Scan
set_option autoImplicit false
namespace Emit

/-- the sign reported by `Spec.readJsonNumber` is the one found by its first step -/
theorem jsonRest_neg (ng : Bool) (r : Spec.Str) (x : Bool × Nat × Int × Nat)
    (hr : jsonRest ng r = some x) : x.1 = ng := by
  unfold jsonRest at hr
  repeat' split at hr
  all_goals (first | (cases hr; done) | (injection hr with hr; rw [← hr]))

/-- an accepted number has a digit right after the sign -/
theorem jsonRest_head (ng : Bool) (r : Spec.Str) (x : Bool × Nat × Int × Nat)
    (hr : jsonRest ng r = some x) : ∃ c rest, Spec.isDigit c = true ∧ r = c :: rest := by
  cases r with
  | nil =>
    unfold jsonRest at hr
    rw [Spec.readDigits.eq_def] at hr
    simp at hr
  | cons c rest =>
    by_cases hc : Spec.isDigit c = true
    · exact ⟨c, rest, hc, rfl⟩
    · unfold jsonRest at hr
      rw [readDigits_cons] at hr
      have hc' : Spec.isDigit c = false := by simpa using hc
      simp [hc'] at hr

/-- an accepted JSON number starts with an optional `-` followed by a digit -/
theorem readJsonNumber_head (s : Spec.Str) (neg : Bool) (n : Nat) (sc : Int) (nd : Nat)
    (h : Spec.readJsonNumber s = some (neg, n, sc, nd)) :
    ∃ c rest, Spec.isDigit c = true ∧ s = (if neg then ['-'] else []) ++ c :: rest := by
  rw [readJsonNumber_eq] at h
  have hng : neg = (jsonSign s).1 := jsonRest_neg _ _ _ h
  obtain ⟨c, rest, hc, hr⟩ := jsonRest_head _ _ _ h
  refine ⟨c, rest, hc, ?_⟩
  -- the sign: `jsonSign` strips exactly a leading '-'
  unfold jsonSign at hng hr
  split at hng
  · rename_i r
    simp only at hng hr
    rw [hng, hr]; rfl
  · rename_i r hne
    simp only at hng hr
    rw [hng, hr]; rfl

theorem toChar_45 {b : UInt8} (h : toChar b = '-') : b = 45 := toChar_inj (by rw [h]; rfl)

theorem isDigit_not_sign {c : Char} (h : Spec.isDigit c = true) : c ≠ '-' ∧ c ≠ '+' := by
  constructor <;> (intro hc; subst hc; exact absurd h (by decide))

/-- **`UnmarshalJSON` on a JSON number is `parseNumber`** (separators off) on the digits after the optional
minus sign, with the error translated. -/
theorem unmarshalJSON_of_json (g : Globals) (d : Gen.Decimal) (data : Go.Bytes) (hsz : data.size < 2 ^ 63)
    (neg : Bool) (n : Nat) (sc : Int) (nd : Nat)
    (h : Spec.readJsonNumber (chars data) = some (neg, n, sc, nd)) :
    Gen.Decimal.UnmarshalJSON g d data =
      Gen.parseNumber g (data.extract (if neg then 1 else 0) data.size) neg false >>= fun r =>
        pure (jsonResult d r) := by
  obtain ⟨c, rest, hc, hs⟩ := readJsonNumber_head _ neg n sc nd h
  obtain ⟨hm, hp⟩ := isDigit_not_sign hc
  have hl := chars_length data
  have hpos : 0 < data.size := by
    rw [hs] at hl; cases neg <;> simp at hl <;> omega
  have hnull : data ≠ Go.str "null" := by
    intro h0
    rw [h0] at hs
    have h1 : chars (Go.str "null") = ['n', 'u', 'l', 'l'] := by decide
    rw [h1] at hs
    cases neg
    · simp only [Bool.false_eq_true, if_false, List.nil_append] at hs
      injection hs with h2 _
      rw [← h2] at hc; exact absurd hc (by decide)
    · simp at hs
  have hhead : toChar data[0] = (if neg then '-' else c) := by
    have := congrArg List.head? hs
    simp only [chars, List.head?_map] at this
    rw [List.head?_eq_getElem?, List.getElem?_eq_getElem (by simpa using hpos)] at this
    cases neg <;> simpa using this
  rw [unmarshalJSON_eq g d data hsz, if_neg hnull, dif_neg (by omega)]
  cases neg
  · simp only [Bool.false_eq_true, if_false] at hhead ⊢
    have h43 : data[0] ≠ 43 := by
      intro h0; rw [h0] at hhead; exact hp hhead.symm
    have h45 : data[0] ≠ 45 := by
      intro h0; rw [h0] at hhead; exact hm hhead.symm
    have : jsonStart data[0] = (false, 0) := by unfold jsonStart; rw [if_neg h43, if_neg h45]
    rw [this]
  · simp only [if_true] at hhead ⊢
    have : jsonStart data[0] = (true, 1) := by
      unfold jsonStart; rw [toChar_45 hhead]; rfl
    rw [this]

end Emit
