/-
  D128/Proofs/FmtFormatSprintf.lean — `Gen.Decimal.Format` on a state that package fmt fills in from a verb
  string writes what `Gen.Decimal.Append` returns for that string (the last clause of property C07:
  `fmt.Sprintf("%" + spec, d) = string(d.Append(nil, spec))`, modulo fmt's own parsing, which is runtime).

  * `Ly.StateFor st a`        : the state `st` carries the flags, width and precision of the parsed spec `a`
        (`Dg.parseSpec`, = `parseFormat`); `zero` may or may not survive a `-` (Go 1.23 / Go ≤ 1.22)
  * `Ly.ofInt_toNat8`, `Ly.conv_verb`, `Ly.verb_eq_118` : a rune that IS the verb byte
  * `Ly.widOf_eq`, `Ly.precOfSt_eq`, `Ly.argsOf_eq` : on such a state `Format` builds exactly the record `a`
  * `Ly.format_buf`           : `format d buf a` is `buf ++` what `format d nil a` returns, or both end in the
        unmodelled `fmt.Appendf` arm (finite `d`, any parsed `a`)
  * `Ly.appendSpecial_eq_out` : `appendSpecial` as an equation with `specialOut`
  * `Ly.sprintf_eq_append`    : `Format d st verb = Append d st.out spec >>= fun r => pure { st with out := r }`
-/
import D128.Proofs.FmtFormatMain

set_option autoImplicit false
set_option maxRecDepth 4096

namespace Ly
open Dg Gen

/-- the state package fmt hands to a `Formatter` for the verb string that parses to `a`: same flags
(`0` with `-`: fmt of Go 1.23 keeps `zero`, Go ≤ 1.22 cleared it — both are covered, `Format` drops
it itself), the width and precision options present or absent as in `a` (an absent width parses to 0,
an absent precision to −1) -/
structure StateFor (st : Go.FmtState) (a : formatArgs) : Prop where
  plus : st.plus = a.printSign
  sharp : st.sharp = a.forceDP
  space : st.space = a.padSign
  minus : st.minus = a.padRight
  zero : (st.zero && !st.minus) = a.padZero
  wid : (st.wid = none ∧ a.wid = 0) ∨ st.wid = some a.wid
  prec : (st.prec = none ∧ a.prec = -1) ∨ st.prec = some a.prec

theorem ofInt_toNat8 (v : UInt8) : UInt8.ofInt (v.toNat : Int) = v := by
  unfold UInt8.ofInt
  have h := v.toNat_lt
  have : ((v.toNat : Int) % 2 ^ 8).toNat = v.toNat := by omega
  rw [this]; exact UInt8.ofNat_toNat

/-- a rune that is the verb byte (ASCII, or any value below 256) converts to that byte -/
theorem conv_verb (verb : Int32) (v : UInt8) (h : verb.toInt = v.toNat) :
    (Go.conv verb : UInt8) = v := by
  show UInt8.ofInt verb.toInt = v
  rw [h]; exact ofInt_toNat8 v

theorem verb_eq_118 (verb : Int32) (v : UInt8) (h : verb.toInt = v.toNat) :
    verb = 118 ↔ v = 118 := by
  constructor
  · intro e; subst e; apply UInt8.toNat_inj.mp
    have h1 : (118 : Int32).toInt = 118 := by decide
    rw [h1] at h
    have : (118 : UInt8).toNat = 118 := rfl
    omega
  · intro e; subst e; apply Int32.toInt_inj.mp; rw [h]; decide

/-- for a rune in `[0, 256)` the byte is one of the seven verbs iff the rune is -/
theorem knownVerb_rune (verb : Int32) (h0 : 0 ≤ verb.toInt) (h1 : verb.toInt < 256) :
    knownVerb (Go.conv verb : UInt8) ↔
      (verb = 101 ∨ verb = 69 ∨ verb = 102 ∨ verb = 70 ∨ verb = 103 ∨ verb = 71 ∨ verb = 118) := by
  have hv : verb.toInt = (UInt8.ofNat verb.toInt.toNat).toNat := by
    rw [UInt8.toNat_ofNat']; omega
  rw [conv_verb verb _ hv]
  generalize UInt8.ofNat verb.toInt.toNat = v at hv
  have key : ∀ (k : Int32) (k' : UInt8), k.toInt = k'.toNat → (v = k' ↔ verb = k) := by
    intro k k' hk
    constructor
    · intro e; apply Int32.toInt_inj.mp; rw [hv, hk, e]
    · intro e; apply UInt8.toNat_inj.mp
      have := congrArg Int32.toInt e
      rw [hv, hk] at this; omega
  unfold knownVerb
  rw [key 101 101 (by decide), key 69 69 (by decide), key 102 102 (by decide), key 70 70 (by decide),
    key 103 103 (by decide), key 71 71 (by decide), key 118 118 (by decide)]

theorem widOf_eq (st : Go.FmtState) (a : formatArgs) (h : StateFor st a) : widOf st = a.wid := by
  unfold widOf
  rcases h.wid with ⟨e1, e2⟩ | e
  · rw [e1, e2]
  · rw [e]

theorem precOfSt_eq (st : Go.FmtState) (a : formatArgs) (h : StateFor st a) :
    precOfSt st = a.prec := by
  unfold precOfSt
  rcases h.prec with ⟨e1, e2⟩ | e
  · rw [e1, e2]
  · rw [e]

/-- on such a state, with the rune being the verb byte, `Format` builds exactly the parsed record -/
theorem argsOf_eq (st : Go.FmtState) (a : formatArgs) (verb : Int32) (h : StateFor st a)
    (hv : verb.toInt = a.verb.toNat) : argsOf st verb = a := by
  have h1 := widOf_eq st a h
  have h2 := precOfSt_eq st a h
  have h3 := conv_verb verb a.verb hv
  unfold argsOf
  rw [h1, h2, h3, h.plus, h.sharp, h.space, h.zero, h.minus]

/-! ## `format` with and without a prefix in the buffer -/

/-- `format d buf a` returns `buf ++` what `format d nil a` returns — or both end in the unmodelled
`fmt.Appendf` arm — for a finite `d` and any arguments as `parseFormat` produces them -/
theorem format_buf (d : Decimal) (buf : Go.Bytes) (a : formatArgs)
    (hfin : Decimal.isSpecial d = false) (hok : ArgsOK a) (hp : PrecOK a) (hb : buf.size < 2 ^ 61) :
    (∃ r, Decimal.format d #[] a = .ok (a, r) ∧ Decimal.format d buf a = .ok (a, buf ++ r)) ∨
    (Decimal.format d #[] a = .error (Go.Panic.unmodelled "fmt.Appendf") ∧
      Decimal.format d buf a = .error (Go.Panic.unmodelled "fmt.Appendf")) := by
  obtain ⟨hw0, hw1, hprz⟩ := hok
  have hprec : a.prec.toInt < 2 ^ 56 := by rcases hp with h | h <;> omega
  by_cases hk : knownVerb a.verb
  · left
    have six : (a.verb = 101 ∨ a.verb = 69 ∨ a.verb = 102 ∨ a.verb = 70 ∨ a.verb = 103 ∨
        a.verb = 71) →
        ∃ r, Decimal.format d #[] a = .ok (a, r) ∧ Decimal.format d buf a = .ok (a, buf ++ r) := by
      intro hv
      obtain ⟨r1, hr1, hs1⟩ := format_spec d #[] a hfin hv hprec a.wid.toInt.toNat (by omega)
        (by omega) (by decide) hprz
      obtain ⟨r2, hr2, hs2⟩ := format_spec d buf a hfin hv hprec a.wid.toInt.toNat (by omega)
        (by omega) hb hprz
      refine ⟨r1, hr1, ?_⟩
      have : r2 = buf ++ r1 := bstr_inj (by
        rw [hs2, bstr_append, hs1, bstr_empty, List.nil_append])
      rw [hr2, this]
    rcases hk with h | h | h | h | h | h | h
    · exact six (Or.inl h)
    · exact six (Or.inr (Or.inl h))
    · exact six (Or.inr (Or.inr (Or.inl h)))
    · exact six (Or.inr (Or.inr (Or.inr (Or.inl h))))
    · exact six (Or.inr (Or.inr (Or.inr (Or.inr (Or.inl h)))))
    · exact six (Or.inr (Or.inr (Or.inr (Or.inr (Or.inr h)))))
    · obtain ⟨r0, hr0, hwf, hneg, hs0, hx0, hdp, hz⟩ := digits_fin d (default : digits) hfin
      obtain ⟨r1, hr1, hs1, _⟩ := formatV_shortest r0 ⟨hwf, hx0, hdp, hz⟩ #[] a (by decide)
      obtain ⟨r2, hr2, hs2, _⟩ := formatV_shortest r0 ⟨hwf, hx0, hdp, hz⟩ buf a (by omega)
      refine ⟨r1, ?_, ?_⟩
      · rw [format_V d #[] a h, hr0]; exact hr1
      · have : r2 = buf ++ r1 := bstr_inj (by
          rw [hs2, bstr_append, hs1, bstr_empty, List.nil_append])
        rw [format_V d buf a h, hr0, ← this]; exact hr2
  · right
    have hne : a.verb ≠ 101 ∧ a.verb ≠ 69 ∧ a.verb ≠ 102 ∧ a.verb ≠ 70 ∧ a.verb ≠ 103 ∧
        a.verb ≠ 71 ∧ a.verb ≠ 118 :=
      ⟨fun e => hk (Or.inl e), fun e => hk (Or.inr (Or.inl e)),
        fun e => hk (Or.inr (Or.inr (Or.inl e))), fun e => hk (Or.inr (Or.inr (Or.inr (Or.inl e)))),
        fun e => hk (Or.inr (Or.inr (Or.inr (Or.inr (Or.inl e))))),
        fun e => hk (Or.inr (Or.inr (Or.inr (Or.inr (Or.inr (Or.inl e)))))),
        fun e => hk (Or.inr (Or.inr (Or.inr (Or.inr (Or.inr (Or.inr e))))))⟩
    obtain ⟨r0, hr0, _⟩ := digits_fin d (default : digits) hfin
    obtain ⟨t, ht⟩ := String_ok d hfin
    constructor
    · rw [format_other d #[] a hne, hr0, ht]; rfl
    · rw [format_other d buf a hne, hr0, ht]; rfl

/-! ## NaN and the infinities -/

/-- `appendSpecial` as an equation -/
theorem appendSpecial_eq_out (d : Decimal) (buf : Go.Bytes) (width : Int64) (ps pds pr : Bool)
    (W : Nat) (hW : width.toInt = W) (hW' : W < 2 ^ 62) (hb : buf.size < 2 ^ 62) :
    Decimal.appendSpecial d buf width ps pds pr =
      .ok (specialOut buf (specialValue d ps pds) W pr) := by
  have := specialValue_size d ps pds
  rw [appendSpecial_unfold]
  exact appendSpecial_t_eq buf _ width pr W hW hW' hb (by omega)

/-! ## the corollary -/

/-- **`Format` on the state of a verb string = `Append` with that string.**  For EVERY bit pattern `d`
(finite, NaN, infinite) and every byte string `spec` with a verb: if the state carries the flags, width
and precision that `spec` parses to (`StateFor`) and the verb rune is the verb byte, then `Format`
extends `st.out` by exactly the bytes `d.Append(st.out, spec)` appends — as an equation of outcomes, so
the unmodelled `fmt.Appendf` arm (finite `d`, unknown verb) is covered too: it is reached by both or by
neither. -/
theorem sprintf_eq_append (d : Decimal) (st : Go.FmtState) (verb : Int32) (spec : Go.Bytes)
    (hs : spec.size < 2 ^ 63) (hb : st.out.size < 2 ^ 61)
    (hst : StateFor st (parseSpec spec.toList))
    (hverb : verb.toInt = (parseSpec spec.toList).verb.toNat)
    (hv0 : (parseSpec spec.toList).verb ≠ 0) :
    Decimal.Format d st verb =
      (Decimal.Append d st.out spec >>= fun r => pure { st with out := r }) := by
  have hok := argsOK_parseSpec spec.toList
  have hpo := precOK_parseSpec spec.toList
  have hunf := append_unfold d st.out spec hs
  generalize parseSpec spec.toList = a at *
  obtain ⟨hw0, hw1, hprz⟩ := hok
  have hv0' : (a.verb == (0 : UInt8)) = false := by simpa using hv0
  rw [hunf, Format_unfold]
  simp only [hv0', Bool.false_eq_true, if_false]
  by_cases hsp : Decimal.isSpecial d = true
  · simp only [hsp, if_true]
    by_cases h118 : a.verb = 118
    · have hvb : verb = 118 := (verb_eq_118 verb a.verb hverb).mpr h118
      have h9 : ((118 : Int32) != (118 : Int32)) = false := rfl
      have h9' : ((118 : UInt8) != (118 : UInt8)) = false := rfl
      simp only [h118, hvb, h9, h9', Bool.false_eq_true, if_false]
      rw [writeSpecial_eq d st 0 false false st.minus (by decide) (by decide),
        appendSpecial_eq_out d st.out 0 false false a.padRight 0 (by decide) (by decide) (by omega),
        hst.minus]
      rfl
    · have hvb : ¬ verb = 118 := fun e => h118 ((verb_eq_118 verb a.verb hverb).mp e)
      have c1 : (verb != (118 : Int32)) = true := by simpa using hvb
      have c2 : (a.verb != (118 : UInt8)) = true := by simpa using h118
      simp only [c1, c2, if_true]
      rw [widOf_eq st a hst,
        writeSpecial_eq d st a.wid st.plus st.space st.minus (by omega) (by omega),
        appendSpecial_eq_out d st.out (formatArgs.width a) a.printSign a.padSign a.padRight
          a.wid.toInt.toNat (by show a.wid.toInt = _; omega) (by omega) (by omega),
        hst.minus, hst.plus, hst.space]
      rfl
  · have hfin : Decimal.isSpecial d = false := by simpa using hsp
    simp only [hfin, Bool.false_eq_true, if_false]
    by_cases hge : verb ≥ 128
    · -- a verb byte ≥ 128 is no verb of `format` either: both sides end in the `fmt.Appendf` arm
      have h : decide (verb ≥ (128 : Int32)) = true := by simpa using hge
      obtain ⟨t, ht⟩ := String_ok d hfin
      have hk : ¬ knownVerb a.verb := by
        have h1 := Int32.le_iff_toInt_le.mp hge
        rw [hverb, show (128 : Int32).toInt = 128 from by decide] at h1
        unfold knownVerb
        rintro (e | e | e | e | e | e | e) <;> rw [e] at h1 <;> revert h1 <;> decide
      rcases format_buf d st.out a hfin ⟨hw0, hw1, hprz⟩ hpo hb with ⟨r, h1, h2⟩ | ⟨h1, h2⟩
      · exfalso
        have hne : a.verb ≠ 101 ∧ a.verb ≠ 69 ∧ a.verb ≠ 102 ∧ a.verb ≠ 70 ∧ a.verb ≠ 103 ∧
            a.verb ≠ 71 ∧ a.verb ≠ 118 :=
          ⟨fun e => hk (Or.inl e), fun e => hk (Or.inr (Or.inl e)),
            fun e => hk (Or.inr (Or.inr (Or.inl e))), fun e => hk (Or.inr (Or.inr (Or.inr (Or.inl e)))),
            fun e => hk (Or.inr (Or.inr (Or.inr (Or.inr (Or.inl e))))),
            fun e => hk (Or.inr (Or.inr (Or.inr (Or.inr (Or.inr (Or.inl e)))))),
            fun e => hk (Or.inr (Or.inr (Or.inr (Or.inr (Or.inr (Or.inr e))))))⟩
        obtain ⟨r0, hr0, _⟩ := digits_fin d (default : digits) hfin
        rw [format_other d #[] a hne, hr0, ht] at h1
        cases h1
      · rw [h, h2, ht]; rfl
    · have h : decide (verb ≥ (128 : Int32)) = false := by simpa using hge
      rw [h]
      simp only [Bool.false_eq_true, if_false]
      rw [argsOf_eq st a verb hst hverb]
      rcases format_buf d st.out a hfin ⟨hw0, hw1, hprz⟩ hpo hb with ⟨r, h1, h2⟩ | ⟨h1, h2⟩
      · rw [h1, h2]; rfl
      · rw [h1, h2]; rfl

end Ly
