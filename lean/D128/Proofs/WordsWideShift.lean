/-
  D128.Proofs.WordsWideShift — item 6: shifts of the wide integers (all shift counts `o : UInt64`).

  The generated code handles every count correctly (beyond the width the result is 0), so the
  specifications hold without any bound on `o`:
  * `U192_lsh_toNat : (Gen.U192.lsh n o).toNat = (n.toNat * 2^o.toNat) % 2^192`
  * `U192_rsh_toNat : (Gen.U192.rsh n o).toNat = n.toNat / 2^o.toNat`
  * `U256_lsh_toNat : (Gen.U256.lsh n o).toNat = (n.toNat * 2^o.toNat) % 2^256`
  * `U256_rsh_toNat : (Gen.U256.rsh n o).toNat = n.toNat / 2^o.toNat`
  Helpers: `shl_toNat`, `shr_toNat` (Go shift of a word by a `UInt64` count, all counts),
  `shl_or_shr`, `shr_or_shl` (the two-word funnel), `shift_split`, `rsh4_nat/rsh3_nat/rsh2_nat`,
  `two_pow_split`.
-/
import D128.Proofs.WordsWide

set_option autoImplicit false
set_option exponentiation.threshold 512
set_option linter.unusedSimpArgs false

namespace D128.Proofs.WordsWide

/-! ## 6. shifts -/

theorem shift_split (w k : Nat) (hk : k ≤ 64) (hw : w < 2^64) :
    ∃ a c, w / 2^(64-k) = a ∧ (w * 2^k) % 2^64 = c ∧ w * 2^k = a * 2^64 + c ∧
      c + 2^k ≤ 2^64 ∧ a < 2^k ∧ (c ||| a) = c + a ∧
      (∃ b, w = a * 2^(64-k) + b ∧ b < 2^(64-k) ∧ c = b * 2^k) := by
  have hPQ : 2^(64-k) * 2^k = 2^64 := by rw [← Nat.pow_add]; congr 1; omega
  have hQpos : 0 < 2^(64-k) := Nat.two_pow_pos _
  have hPpos : 0 < 2^k := Nat.two_pow_pos _
  set Q := 2^(64-k) with hQ
  set P := 2^k with hP
  have hdm : w = (w / Q) * Q + w % Q := by rw [Nat.mul_comm]; exact (Nat.div_add_mod w Q).symm
  have hb : w % Q < Q := Nat.mod_lt _ hQpos
  have ha : w / Q < P := by
    rw [Nat.div_lt_iff_lt_mul hQpos, Nat.mul_comm, hPQ]; exact hw
  have hc : (w % Q) * P + P ≤ 2^64 := by
    calc (w % Q) * P + P = (w % Q + 1) * P := by ring
      _ ≤ Q * P := Nat.mul_le_mul_right _ hb
      _ = 2^64 := hPQ
  have hwP : w * P = (w / Q) * 2^64 + (w % Q) * P := by
    conv_lhs => rw [hdm]
    rw [← hPQ]; ring
  have hmod : (w * P) % 2^64 = (w % Q) * P := by
    rw [hwP, Nat.mul_comm (w / Q), Nat.mul_add_mod]; exact Nat.mod_eq_of_lt (by omega)
  refine ⟨w / Q, (w % Q) * P, rfl, hmod, hwP, hc, ha, ?_, w % Q, hdm, hb, rfl⟩
  rw [Nat.mul_comm (w % Q) P]
  exact (Nat.two_pow_add_eq_or_of_lt ha _).symm

theorem two_pow_split (a b : Nat) (h : b ≤ a) : (2:Nat)^a = 2^b * 2^(a-b) := by
  rw [← Nat.pow_add]; congr 1; omega

theorem two_pow_split' (a b : Nat) (h : b ≤ a) : (2:Nat)^a = 2^(a-b) * 2^b := by
  rw [Nat.mul_comm]; exact two_pow_split a b h

theorem shl_toNat (w x : UInt64) :
    (Go.shl w (Go.idx x)).toNat = (w.toNat * 2^x.toNat) % 2^64 := by
  have : Go.shl w (Go.idx x) = if x.toNat < 64 then w <<< UInt64.ofNat x.toNat else 0 := rfl
  rw [this]
  split
  · next h =>
    rw [UInt64.ofNat_toNat, UInt64.toNat_shiftLeft, Nat.shiftLeft_eq, Nat.mod_eq_of_lt h]
  · next h =>
    have h2 : (2:Nat)^x.toNat = 2^64 * 2^(x.toNat - 64) := by
      rw [← Nat.pow_add]; congr 1; omega
    rw [h2, ← Nat.mul_assoc, Nat.mul_comm _ (2^64), Nat.mul_assoc, Nat.mul_mod_right]; rfl

theorem shr_toNat (w x : UInt64) :
    (Go.shr w (Go.idx x)).toNat = w.toNat / 2^x.toNat := by
  have : Go.shr w (Go.idx x) = if x.toNat < 64 then w >>> UInt64.ofNat x.toNat else 0 := rfl
  rw [this]
  split
  · next h =>
    rw [UInt64.ofNat_toNat, UInt64.toNat_shiftRight, Nat.shiftRight_eq_div_pow, Nat.mod_eq_of_lt h]
  · next h =>
    have h2 : (2:Nat)^64 ≤ 2^x.toNat := Nat.pow_le_pow_right (by norm_num) (by omega)
    rw [Nat.div_eq_of_lt (Nat.lt_of_lt_of_le w.toNat_lt h2)]; rfl

theorem shl_or_shr (hi lo x y : UInt64) (h : x.toNat + y.toNat = 64) :
    (Go.shl hi (Go.idx x) ||| Go.shr lo (Go.idx y)).toNat =
      (hi.toNat * 2^x.toNat) % 2^64 + lo.toNat / 2^(64 - x.toNat) := by
  rw [UInt64.toNat_or, shl_toNat, shr_toNat]
  have hy : y.toNat = 64 - x.toNat := by omega
  rw [hy]
  obtain ⟨a, c, -, hc, -, -, -, -, b, -, -, hcb⟩ :=
    shift_split hi.toNat x.toNat (by omega) hi.toNat_lt
  obtain ⟨a', c', ha', -, -, -, hlt, -⟩ :=
    shift_split lo.toNat x.toNat (by omega) lo.toNat_lt
  rw [hc, ha', hcb, Nat.mul_comm b]
  exact (Nat.two_pow_add_eq_or_of_lt hlt b).symm

theorem shr_or_shl (hi lo x y : UInt64) (h : x.toNat + y.toNat = 64) :
    (Go.shr lo (Go.idx x) ||| Go.shl hi (Go.idx y)).toNat =
      lo.toNat / 2^x.toNat + (hi.toNat * 2^(64 - x.toNat)) % 2^64 := by
  rw [UInt64.or_comm, shl_or_shr hi lo y x (by omega)]
  have : 64 - y.toNat = x.toNat := by omega
  have hy : y.toNat = 64 - x.toNat := by omega
  rw [this, hy, Nat.add_comm]

theorem U192_lsh_toNat (n : U192) (o : UInt64) :
    (Gen.U192.lsh n o).toNat = (n.toNat * 2^o.toNat) % 2^192 := by
  unfold Gen.U192.lsh
  have hb := U192.bounds n
  by_cases h1 : o > 128
  · have h1' : 128 < o.toNat := by
      rw [gt_iff_lt, UInt64.lt_iff_toNat_lt] at h1; exact h1
    have hsub : (o - 128).toNat = o.toNat - 128 := UInt64.toNat_sub_of_le _ _ (by rw [UInt64.le_iff_toNat_le]; exact Nat.le_of_lt h1')
    simp only [h1, decide_true, ↓reduceIte, Id.run_pure, U192.toNat, shl_toNat,
      UInt64.toNat_zero, hsub]
    have h2 : (2:Nat)^o.toNat = 2^(o.toNat-128) * 2^128 :=
      two_pow_split' _ _ (by omega)
    have hmul : (n.w0.toNat + n.w1.toNat * 2^64 + n.w2.toNat * 2^128) * 2^o.toNat
        = (n.w0.toNat * 2^(o.toNat-128)) * 2^128 + (n.w1.toNat * 2^(o.toNat-128)) * 2^192
          + (n.w2.toNat * 2^(o.toNat-128)) * 2^256 := by rw [h2]; ring
    rw [hmul]
    omega
  · have h1' : o.toNat ≤ 128 := by
      rw [gt_iff_lt, UInt64.lt_iff_toNat_lt] at h1; exact Nat.le_of_not_lt h1
    by_cases h2 : o > 64
    · have h2' : 64 < o.toNat := by
        rw [gt_iff_lt, UInt64.lt_iff_toNat_lt] at h2; exact h2
      have hsub : (o - 64).toNat = o.toNat - 64 := UInt64.toNat_sub_of_le _ _ (by rw [UInt64.le_iff_toNat_le]; exact Nat.le_of_lt h2')
      have hsub2 : (128 - o).toNat = 128 - o.toNat :=
        UInt64.toNat_sub_of_le _ _ (by rw [UInt64.le_iff_toNat_le]; exact h1')
      simp only [h1, h2, decide_true, decide_false, Bool.false_eq_true, ↓reduceIte, Id.run_pure,
        U192.toNat, shl_toNat, UInt64.toNat_zero]
      rw [shl_or_shr _ _ _ _ (by rw [hsub, hsub2]; omega), hsub]
      obtain ⟨a0, c0, ha0, hc0, hw0, hcK0, haK0, -⟩ :=
        shift_split n.w0.toNat (o.toNat - 64) (by omega) hb.1
      obtain ⟨a1, c1, ha1, hc1, hw1, hcK1, haK1, -⟩ :=
        shift_split n.w1.toNat (o.toNat - 64) (by omega) hb.2.1
      have h3 : (2:Nat)^o.toNat = 2^(o.toNat-64) * 2^64 :=
      two_pow_split' _ _ (by omega)
      have hmul : (n.w0.toNat + n.w1.toNat * 2^64 + n.w2.toNat * 2^128) * 2^o.toNat
          = (n.w0.toNat * 2^(o.toNat-64)) * 2^64 + (n.w1.toNat * 2^(o.toNat-64)) * 2^128
            + (n.w2.toNat * 2^(o.toNat-64)) * 2^192 := by rw [h3]; ring
      rw [hmul, ha0, hc0, hc1, hw0, hw1]
      clear hmul ha0 ha1 hc0 hc1 hw0 hw1 hb hsub hsub2 h3
      omega
    · have h2' : o.toNat ≤ 64 := by
        rw [gt_iff_lt, UInt64.lt_iff_toNat_lt] at h2; exact Nat.le_of_not_lt h2
      have hsub2 : (64 - o).toNat = 64 - o.toNat :=
        UInt64.toNat_sub_of_le _ _ (by rw [UInt64.le_iff_toNat_le]; exact h2')
      simp only [h1, h2, decide_false, Bool.false_eq_true, ↓reduceIte, Id.run_pure,
        U192.toNat, shl_toNat]
      rw [shl_or_shr _ _ _ _ (by rw [hsub2]; omega), shl_or_shr _ _ _ _ (by rw [hsub2]; omega)]
      obtain ⟨a0, c0, ha0, hc0, hw0, hcK0, haK0, -⟩ :=
        shift_split n.w0.toNat o.toNat h2' hb.1
      obtain ⟨a1, c1, ha1, hc1, hw1, hcK1, haK1, -⟩ :=
        shift_split n.w1.toNat o.toNat h2' hb.2.1
      obtain ⟨a2, c2, ha2, hc2, hw2, hcK2, haK2, -⟩ :=
        shift_split n.w2.toNat o.toNat h2' hb.2.2
      have hmul : (n.w0.toNat + n.w1.toNat * 2^64 + n.w2.toNat * 2^128) * 2^o.toNat
          = (n.w0.toNat * 2^o.toNat) + (n.w1.toNat * 2^o.toNat) * 2^64
            + (n.w2.toNat * 2^o.toNat) * 2^128 := by ring
      rw [hmul, ha0, ha1, hc0, hc1, hc2, hw0, hw1, hw2]
      clear hmul ha0 ha1 ha2 hc0 hc1 hc2 hw0 hw1 hw2 hb hsub2
      omega

/-- right shift of a four-word number by `k ≤ 64`, word by word (set upper words to 0 for
fewer words). -/
theorem rsh4_nat (w0 w1 w2 w3 k : Nat) (hk : k ≤ 64)
    (h0 : w0 < 2^64) (h1 : w1 < 2^64) (h2 : w2 < 2^64) (h3 : w3 < 2^64) :
    (w0 + w1 * 2^64 + w2 * 2^128 + w3 * 2^192) / 2^k =
      (w0 / 2^k + (w1 * 2^(64-k)) % 2^64) + (w1 / 2^k + (w2 * 2^(64-k)) % 2^64) * 2^64
      + (w2 / 2^k + (w3 * 2^(64-k)) % 2^64) * 2^128 + (w3 / 2^k) * 2^192 := by
  have hkk : 64 - (64 - k) = k := by omega
  obtain ⟨a0, c0, ha0, hc0, -, -, -, -, b0, hw0, hb0, hcb0⟩ := shift_split w0 (64-k) (by omega) h0
  obtain ⟨a1, c1, ha1, hc1, -, -, -, -, b1, hw1, hb1, hcb1⟩ := shift_split w1 (64-k) (by omega) h1
  obtain ⟨a2, c2, ha2, hc2, -, -, -, -, b2, hw2, hb2, hcb2⟩ := shift_split w2 (64-k) (by omega) h2
  obtain ⟨a3, c3, ha3, hc3, -, -, -, -, b3, hw3, hb3, hcb3⟩ := shift_split w3 (64-k) (by omega) h3
  simp only [hkk] at ha0 ha1 ha2 ha3 hw0 hw1 hw2 hw3 hb0 hb1 hb2 hb3
  have hKK : 2^k * 2^(64-k) = 2^64 := by rw [← Nat.pow_add]; congr 1; omega
  have e1 : b1 * 2^64 = c1 * 2^k := by rw [hcb1, ← hKK]; ring
  have e2 : b2 * 2^64 = c2 * 2^k := by rw [hcb2, ← hKK]; ring
  have e3 : b3 * 2^64 = c3 * 2^k := by rw [hcb3, ← hKK]; ring
  rw [ha0, ha1, ha2, ha3, hc1, hc2, hc3]
  have expand : 2^k * ((a0 + c1) + (a1 + c2) * 2^64 + (a2 + c3) * 2^128 + a3 * 2^192)
      = a0 * 2^k + c1 * 2^k + (a1 * 2^k) * 2^64 + (c2 * 2^k) * 2^64 + (a2 * 2^k) * 2^128
        + (c3 * 2^k) * 2^128 + (a3 * 2^k) * 2^192 := by ring
  have e : w0 + w1 * 2^64 + w2 * 2^128 + w3 * 2^192
      = 2^k * ((a0 + c1) + (a1 + c2) * 2^64 + (a2 + c3) * 2^128 + a3 * 2^192) + b0 := by
    rw [expand]
    clear expand ha0 ha1 ha2 ha3 hc0 hc1 hc2 hc3 hcb0 hcb1 hcb2 hcb3 hKK hb0 hb1 hb2 hb3
    omega
  rw [e, Nat.mul_add_div (Nat.two_pow_pos k), Nat.div_eq_of_lt hb0, Nat.add_zero]

theorem rsh3_nat (w0 w1 w2 k : Nat) (hk : k ≤ 64)
    (h0 : w0 < 2^64) (h1 : w1 < 2^64) (h2 : w2 < 2^64) :
    (w0 + w1 * 2^64 + w2 * 2^128) / 2^k =
      (w0 / 2^k + (w1 * 2^(64-k)) % 2^64) + (w1 / 2^k + (w2 * 2^(64-k)) % 2^64) * 2^64
      + (w2 / 2^k) * 2^128 := by
  have key := rsh4_nat w0 w1 w2 0 k hk h0 h1 h2 (Nat.two_pow_pos 64)
  rw [Nat.zero_mul, Nat.zero_mul, Nat.zero_div, Nat.zero_mul, Nat.zero_mod, Nat.add_zero,
    Nat.add_zero, Nat.add_zero] at key
  exact key

theorem rsh2_nat (w0 w1 k : Nat) (hk : k ≤ 64) (h0 : w0 < 2^64) (h1 : w1 < 2^64) :
    (w0 + w1 * 2^64) / 2^k =
      (w0 / 2^k + (w1 * 2^(64-k)) % 2^64) + (w1 / 2^k) * 2^64 := by
  have key := rsh3_nat w0 w1 0 k hk h0 h1 (Nat.two_pow_pos 64)
  rw [Nat.zero_mul, Nat.zero_mul, Nat.zero_div, Nat.zero_mul, Nat.zero_mod, Nat.add_zero,
    Nat.add_zero, Nat.add_zero] at key
  exact key

theorem U192_rsh_toNat (n : U192) (o : UInt64) :
    (Gen.U192.rsh n o).toNat = n.toNat / 2^o.toNat := by
  unfold Gen.U192.rsh
  have hb := U192.bounds n
  by_cases h1 : o > 128
  · have h1' : 128 < o.toNat := by
      rw [gt_iff_lt, UInt64.lt_iff_toNat_lt] at h1; exact h1
    have hsub : (o - 128).toNat = o.toNat - 128 :=
      UInt64.toNat_sub_of_le _ _ (by rw [UInt64.le_iff_toNat_le]; exact Nat.le_of_lt h1')
    simp only [h1, decide_true, ↓reduceIte, Id.run_pure, U192.toNat, shr_toNat,
      UInt64.toNat_zero, hsub]
    have h2 : (2:Nat)^o.toNat = 2^128 * 2^(o.toNat-128) :=
      two_pow_split _ _ (by omega)
    have h3 : (n.w0.toNat + n.w1.toNat * 2^64 + n.w2.toNat * 2^128) / 2^128 = n.w2.toNat := by
      omega
    rw [h2, ← Nat.div_div_eq_div_mul, h3]
    omega
  · have h1' : o.toNat ≤ 128 := by
      rw [gt_iff_lt, UInt64.lt_iff_toNat_lt] at h1; exact Nat.le_of_not_lt h1
    by_cases h2 : o > 64
    · have h2' : 64 < o.toNat := by
        rw [gt_iff_lt, UInt64.lt_iff_toNat_lt] at h2; exact h2
      have hsub : (o - 64).toNat = o.toNat - 64 :=
        UInt64.toNat_sub_of_le _ _ (by rw [UInt64.le_iff_toNat_le]; exact Nat.le_of_lt h2')
      have hsub2 : (128 - o).toNat = 128 - o.toNat :=
        UInt64.toNat_sub_of_le _ _ (by rw [UInt64.le_iff_toNat_le]; exact h1')
      simp only [h1, h2, decide_true, decide_false, Bool.false_eq_true, ↓reduceIte, Id.run_pure,
        U192.toNat, shr_toNat, UInt64.toNat_zero]
      rw [shr_or_shl _ _ _ _ (by rw [hsub, hsub2]; omega), hsub]
      have h3 : (2:Nat)^o.toNat = 2^64 * 2^(o.toNat-64) :=
      two_pow_split _ _ (by omega)
      have h4 : (n.w0.toNat + n.w1.toNat * 2^64 + n.w2.toNat * 2^128) / 2^64
          = n.w1.toNat + n.w2.toNat * 2^64 := by omega
      have key := rsh2_nat n.w1.toNat n.w2.toNat (o.toNat - 64) (by omega) hb.2.1 hb.2.2
      rw [h3, ← Nat.div_div_eq_div_mul, h4]
      clear h3 h4 hb
      simp only [Nat.reducePow] at key ⊢
      omega
    · have h2' : o.toNat ≤ 64 := by
        rw [gt_iff_lt, UInt64.lt_iff_toNat_lt] at h2; exact Nat.le_of_not_lt h2
      have hsub2 : (64 - o).toNat = 64 - o.toNat :=
        UInt64.toNat_sub_of_le _ _ (by rw [UInt64.le_iff_toNat_le]; exact h2')
      simp only [h1, h2, decide_false, Bool.false_eq_true, ↓reduceIte, Id.run_pure,
        U192.toNat, shr_toNat]
      rw [shr_or_shl _ _ _ _ (by rw [hsub2]; omega), shr_or_shl _ _ _ _ (by rw [hsub2]; omega)]
      have key := rsh3_nat n.w0.toNat n.w1.toNat n.w2.toNat o.toNat h2' hb.1 hb.2.1 hb.2.2
      simp only [Nat.reducePow] at key ⊢
      exact key.symm

theorem U256_lsh_toNat (n : U256) (o : UInt64) :
    (Gen.U256.lsh n o).toNat = (n.toNat * 2^o.toNat) % 2^256 := by
  unfold Gen.U256.lsh
  have hb0 := n.w0.toNat_lt; have hb1 := n.w1.toNat_lt
  have hb2 := n.w2.toNat_lt; have hb3 := n.w3.toNat_lt
  by_cases h3 : o > 192
  · have h3' : 192 < o.toNat := by
      rw [gt_iff_lt, UInt64.lt_iff_toNat_lt] at h3; exact h3
    have hsub : (o - 192).toNat = o.toNat - 192 :=
      UInt64.toNat_sub_of_le _ _ (by rw [UInt64.le_iff_toNat_le]; exact Nat.le_of_lt h3')
    simp only [h3, decide_true, decide_false, Bool.false_eq_true, ↓reduceIte, Id.run_pure,
      U256.toNat, shl_toNat, UInt64.toNat_zero]
    rw [hsub]
    have hpow : (2:Nat)^o.toNat = 2^(o.toNat-192) * 2^192 :=
      two_pow_split' _ _ (by omega)
    have hmul : (n.w0.toNat + n.w1.toNat * 2^64 + n.w2.toNat * 2^128 + n.w3.toNat * 2^192) * 2^o.toNat
        = (n.w0.toNat * 2^(o.toNat-192)) * 2^192 + (n.w1.toNat * 2^(o.toNat-192)) * 2^256 + (n.w2.toNat * 2^(o.toNat-192)) * 2^320 + (n.w3.toNat * 2^(o.toNat-192)) * 2^384 := by
      rw [hpow]; ring
    rw [hmul]
    clear hmul hpow
    omega
  · have h3' : o.toNat ≤ 192 := by
      rw [gt_iff_lt, UInt64.lt_iff_toNat_lt] at h3; exact Nat.le_of_not_lt h3
    by_cases h2 : o > 128
    · have h2' : 128 < o.toNat := by
        rw [gt_iff_lt, UInt64.lt_iff_toNat_lt] at h2; exact h2
      have hsub : (o - 128).toNat = o.toNat - 128 :=
        UInt64.toNat_sub_of_le _ _ (by rw [UInt64.le_iff_toNat_le]; exact Nat.le_of_lt h2')
      have hsub2 : (192 - o).toNat = 192 - o.toNat :=
        UInt64.toNat_sub_of_le _ _ (by rw [UInt64.le_iff_toNat_le]; exact h3')
      simp only [h3, h2, decide_true, decide_false, Bool.false_eq_true, ↓reduceIte, Id.run_pure,
        U256.toNat, shl_toNat, UInt64.toNat_zero]
      rw [shl_or_shr _ _ _ _ (by rw [hsub, hsub2]; omega), hsub]
      obtain ⟨a0, c0, ha0, hc0, hw0, hcK0, haK0, -⟩ :=
        shift_split n.w0.toNat (o.toNat-128) (by omega) hb0
      obtain ⟨a1, c1, ha1, hc1, hw1, hcK1, haK1, -⟩ :=
        shift_split n.w1.toNat (o.toNat-128) (by omega) hb1
      have hpow : (2:Nat)^o.toNat = 2^(o.toNat-128) * 2^128 :=
        two_pow_split' _ _ (by omega)
      have hmul : (n.w0.toNat + n.w1.toNat * 2^64 + n.w2.toNat * 2^128 + n.w3.toNat * 2^192) * 2^o.toNat
          = (n.w0.toNat * 2^(o.toNat-128)) * 2^128 + (n.w1.toNat * 2^(o.toNat-128)) * 2^192 + (n.w2.toNat * 2^(o.toNat-128)) * 2^256 + (n.w3.toNat * 2^(o.toNat-128)) * 2^320 := by
        rw [hpow]; ring
      rw [hmul, ha0, hc0, hc1, hw0, hw1]
      clear hmul ha0 ha1 hc0 hc1 hw0 hw1 hpow hsub hsub2
      omega
    · have h2' : o.toNat ≤ 128 := by
        rw [gt_iff_lt, UInt64.lt_iff_toNat_lt] at h2; exact Nat.le_of_not_lt h2
      by_cases h1 : o > 64
      · have h1' : 64 < o.toNat := by
          rw [gt_iff_lt, UInt64.lt_iff_toNat_lt] at h1; exact h1
        have hsub : (o - 64).toNat = o.toNat - 64 :=
          UInt64.toNat_sub_of_le _ _ (by rw [UInt64.le_iff_toNat_le]; exact Nat.le_of_lt h1')
        have hsub2 : (128 - o).toNat = 128 - o.toNat :=
          UInt64.toNat_sub_of_le _ _ (by rw [UInt64.le_iff_toNat_le]; exact h2')
        simp only [h3, h2, h1, decide_true, decide_false, Bool.false_eq_true, ↓reduceIte, Id.run_pure,
          U256.toNat, shl_toNat, UInt64.toNat_zero]
        rw [shl_or_shr _ _ _ _ (by rw [hsub, hsub2]; omega), shl_or_shr _ _ _ _ (by rw [hsub, hsub2]; omega), hsub]
        obtain ⟨a0, c0, ha0, hc0, hw0, hcK0, haK0, -⟩ :=
          shift_split n.w0.toNat (o.toNat-64) (by omega) hb0
        obtain ⟨a1, c1, ha1, hc1, hw1, hcK1, haK1, -⟩ :=
          shift_split n.w1.toNat (o.toNat-64) (by omega) hb1
        obtain ⟨a2, c2, ha2, hc2, hw2, hcK2, haK2, -⟩ :=
          shift_split n.w2.toNat (o.toNat-64) (by omega) hb2
        have hpow : (2:Nat)^o.toNat = 2^(o.toNat-64) * 2^64 :=
          two_pow_split' _ _ (by omega)
        have hmul : (n.w0.toNat + n.w1.toNat * 2^64 + n.w2.toNat * 2^128 + n.w3.toNat * 2^192) * 2^o.toNat
            = (n.w0.toNat * 2^(o.toNat-64)) * 2^64 + (n.w1.toNat * 2^(o.toNat-64)) * 2^128 + (n.w2.toNat * 2^(o.toNat-64)) * 2^192 + (n.w3.toNat * 2^(o.toNat-64)) * 2^256 := by
          rw [hpow]; ring
        rw [hmul, ha0, ha1, hc0, hc1, hc2, hw0, hw1, hw2]
        clear hmul ha0 ha1 ha2 hc0 hc1 hc2 hw0 hw1 hw2 hpow hsub hsub2
        omega
      · have h1' : o.toNat ≤ 64 := by
          rw [gt_iff_lt, UInt64.lt_iff_toNat_lt] at h1; exact Nat.le_of_not_lt h1
        have hsub2 : (64 - o).toNat = 64 - o.toNat :=
          UInt64.toNat_sub_of_le _ _ (by rw [UInt64.le_iff_toNat_le]; exact h1')
        simp only [h3, h2, h1, decide_true, decide_false, Bool.false_eq_true, ↓reduceIte, Id.run_pure,
          U256.toNat, shl_toNat, UInt64.toNat_zero]
        rw [shl_or_shr _ _ _ _ (by rw [hsub2]; omega), shl_or_shr _ _ _ _ (by rw [hsub2]; omega), shl_or_shr _ _ _ _ (by rw [hsub2]; omega)]
        obtain ⟨a0, c0, ha0, hc0, hw0, hcK0, haK0, -⟩ :=
          shift_split n.w0.toNat o.toNat (by omega) hb0
        obtain ⟨a1, c1, ha1, hc1, hw1, hcK1, haK1, -⟩ :=
          shift_split n.w1.toNat o.toNat (by omega) hb1
        obtain ⟨a2, c2, ha2, hc2, hw2, hcK2, haK2, -⟩ :=
          shift_split n.w2.toNat o.toNat (by omega) hb2
        obtain ⟨a3, c3, ha3, hc3, hw3, hcK3, haK3, -⟩ :=
          shift_split n.w3.toNat o.toNat (by omega) hb3
        have hmul : (n.w0.toNat + n.w1.toNat * 2^64 + n.w2.toNat * 2^128 + n.w3.toNat * 2^192) * 2^o.toNat
            = (n.w0.toNat * 2^o.toNat) + (n.w1.toNat * 2^o.toNat) * 2^64 + (n.w2.toNat * 2^o.toNat) * 2^128 + (n.w3.toNat * 2^o.toNat) * 2^192 := by
          ring
        rw [hmul, ha0, ha1, ha2, hc0, hc1, hc2, hc3, hw0, hw1, hw2, hw3]
        clear hmul ha0 ha1 ha2 ha3 hc0 hc1 hc2 hc3 hw0 hw1 hw2 hw3 hsub2
        omega

theorem U256_rsh_toNat (n : U256) (o : UInt64) :
    (Gen.U256.rsh n o).toNat = n.toNat / 2^o.toNat := by
  unfold Gen.U256.rsh
  have hb0 := n.w0.toNat_lt; have hb1 := n.w1.toNat_lt
  have hb2 := n.w2.toNat_lt; have hb3 := n.w3.toNat_lt
  by_cases h3 : o > 192
  · have h3' : 192 < o.toNat := by
      rw [gt_iff_lt, UInt64.lt_iff_toNat_lt] at h3; exact h3
    have hsub : (o - 192).toNat = o.toNat - 192 :=
      UInt64.toNat_sub_of_le _ _ (by rw [UInt64.le_iff_toNat_le]; exact Nat.le_of_lt h3')
    simp only [h3, decide_true, decide_false, Bool.false_eq_true, ↓reduceIte, Id.run_pure,
      U256.toNat, shr_toNat, UInt64.toNat_zero]
    rw [hsub]
    have hpow : (2:Nat)^o.toNat = 2^192 * 2^(o.toNat-192) :=
      two_pow_split _ _ (by omega)
    have hdiv : (n.w0.toNat + n.w1.toNat * 2^64 + n.w2.toNat * 2^128 + n.w3.toNat * 2^192) / 2^192
        = n.w3.toNat := by omega
    rw [hpow, ← Nat.div_div_eq_div_mul, hdiv]
    clear hpow hdiv hsub
    omega
  · have h3' : o.toNat ≤ 192 := by
      rw [gt_iff_lt, UInt64.lt_iff_toNat_lt] at h3; exact Nat.le_of_not_lt h3
    by_cases h2 : o > 128
    · have h2' : 128 < o.toNat := by
        rw [gt_iff_lt, UInt64.lt_iff_toNat_lt] at h2; exact h2
      have hsub : (o - 128).toNat = o.toNat - 128 :=
        UInt64.toNat_sub_of_le _ _ (by rw [UInt64.le_iff_toNat_le]; exact Nat.le_of_lt h2')
      have hsub2 : (192 - o).toNat = 192 - o.toNat :=
        UInt64.toNat_sub_of_le _ _ (by rw [UInt64.le_iff_toNat_le]; exact h3')
      simp only [h3, h2, decide_true, decide_false, Bool.false_eq_true, ↓reduceIte, Id.run_pure,
        U256.toNat, shr_toNat, UInt64.toNat_zero]
      rw [shr_or_shl _ _ _ _ (by rw [hsub, hsub2]; omega), hsub]
      have hpow : (2:Nat)^o.toNat = 2^128 * 2^(o.toNat-128) :=
        two_pow_split _ _ (by omega)
      have hdiv : (n.w0.toNat + n.w1.toNat * 2^64 + n.w2.toNat * 2^128 + n.w3.toNat * 2^192) / 2^128
          = n.w2.toNat + n.w3.toNat * 2^64 := by omega
      have key := rsh2_nat n.w2.toNat n.w3.toNat (o.toNat-128) (by omega) hb2 hb3
      rw [hpow, ← Nat.div_div_eq_div_mul, hdiv]
      clear hpow hdiv hsub hsub2
      simp only [Nat.reducePow] at key ⊢
      omega
    · have h2' : o.toNat ≤ 128 := by
        rw [gt_iff_lt, UInt64.lt_iff_toNat_lt] at h2; exact Nat.le_of_not_lt h2
      by_cases h1 : o > 64
      · have h1' : 64 < o.toNat := by
          rw [gt_iff_lt, UInt64.lt_iff_toNat_lt] at h1; exact h1
        have hsub : (o - 64).toNat = o.toNat - 64 :=
          UInt64.toNat_sub_of_le _ _ (by rw [UInt64.le_iff_toNat_le]; exact Nat.le_of_lt h1')
        have hsub2 : (128 - o).toNat = 128 - o.toNat :=
          UInt64.toNat_sub_of_le _ _ (by rw [UInt64.le_iff_toNat_le]; exact h2')
        simp only [h3, h2, h1, decide_true, decide_false, Bool.false_eq_true, ↓reduceIte, Id.run_pure,
          U256.toNat, shr_toNat, UInt64.toNat_zero]
        rw [shr_or_shl _ _ _ _ (by rw [hsub, hsub2]; omega), shr_or_shl _ _ _ _ (by rw [hsub, hsub2]; omega), hsub]
        have hpow : (2:Nat)^o.toNat = 2^64 * 2^(o.toNat-64) :=
          two_pow_split _ _ (by omega)
        have hdiv : (n.w0.toNat + n.w1.toNat * 2^64 + n.w2.toNat * 2^128 + n.w3.toNat * 2^192) / 2^64
            = n.w1.toNat + n.w2.toNat * 2^64 + n.w3.toNat * 2^128 := by omega
        have key := rsh3_nat n.w1.toNat n.w2.toNat n.w3.toNat (o.toNat-64) (by omega) hb1 hb2 hb3
        rw [hpow, ← Nat.div_div_eq_div_mul, hdiv]
        clear hpow hdiv hsub hsub2
        simp only [Nat.reducePow] at key ⊢
        omega
      · have h1' : o.toNat ≤ 64 := by
          rw [gt_iff_lt, UInt64.lt_iff_toNat_lt] at h1; exact Nat.le_of_not_lt h1
        have hsub2 : (64 - o).toNat = 64 - o.toNat :=
          UInt64.toNat_sub_of_le _ _ (by rw [UInt64.le_iff_toNat_le]; exact h1')
        simp only [h3, h2, h1, decide_true, decide_false, Bool.false_eq_true, ↓reduceIte, Id.run_pure,
          U256.toNat, shr_toNat, UInt64.toNat_zero]
        rw [shr_or_shl _ _ _ _ (by rw [hsub2]; omega), shr_or_shl _ _ _ _ (by rw [hsub2]; omega), shr_or_shl _ _ _ _ (by rw [hsub2]; omega)]
        have key := rsh4_nat n.w0.toNat n.w1.toNat n.w2.toNat n.w3.toNat o.toNat (by omega) hb0 hb1 hb2 hb3
        clear hsub2
        simp only [Nat.reducePow] at key ⊢
        omega

end D128.Proofs.WordsWide
