/-
  D128/Proofs/CohortElemQuoSharp.lean — property C19 for the elementary functions: the SHARP result equation of
  `Gen.decomposed192.quo` (Go: /repo/decomposed.go), i.e. `D192.quo_triple`/`QuoPost` re-proved with loop invariants
  that pin down every loop counter.

  `quo d o t` (`d.sig, o.sig ≠ 0`):
    (S) numerator scaled up to `Dn = d.sig·10^a`, `a` the LEAST exponent with `LIM ≤ d.sig·10^a` (`ScUp'`:
        `a = 0 ∨ d.sig·10^(a-1) < LIM`); hence `Dn < 10·LIM` if `d.sig < 10·LIM`, `Dn = d.sig` if `LIM ≤ d.sig`;
    (T) divisor truncated to `On = o.sig / 10^b`, `b` the LEAST exponent with `o.sig / 10^b < OLIM` (`TrO'`:
        `b = 0 ∨ OLIM ≤ o.sig / 10^(b-1)`); flag raised iff a non-zero digit is dropped;
    (Q) long division: `r.sig = ⌊Dn·10^c / On⌋`, `r.exp = (d.exp − a) − (o.exp + b) − c` (wrapping), flag `1` iff
        `On ∤ Dn·10^c`; the loop stops with remainder `0` or `LIM ≤ r.sig`; `1 ≤ r.sig`.
        - The final reduction `for sig256[3] != 0` NEVER fires (`quo_sum_lt`: `sig·10^m + tmp < 2^192` always), so
          `D192.QFin`'s `tt` is `0`.
        - `QPath Dn On c`: the LAST round of the division started at some `c0 < c` with quotient `s0 = ⌊Dn·10^c0/On⌋ < LIM`
          and remainder `r0 ≠ 0`, and scaled both by `10^(c−c0)`, which the loop conditions allow only if
          `s0·10^(c−1−c0) < LIM` and `r0·10^(c−1−c0) < LIM`.

  FINDING (see CohortElemQuoCongr.lean for the evaluated instance): the loop tests `s0·10^(c−1−c0) < LIM`, NOT
  `⌊Dn·10^(c−1)/On⌋ < LIM`.  `LIM = 25·2^184` is divisible by `100` but `LIM % 1000 = 400`, so a round of `≥ 4` digits
  can step over the first position with a 57-digit quotient and stop ONE digit later with
  `10·LIM ≤ r.sig < 10·LIM + 10^(c−c0)` — an over-full, inexact quotient although `Dn < 10·LIM`.  It cannot happen when
  the round is short (`c−1−c0 ≤ 2`), when the divisor is long (`LIM ≤ 400·On`), or when the quotient is not within
  `10^56` above `LIM` (`QPath.noskip_*` in CohortElemQuoCongr.lean).

  Provided (namespace `CohortElem`):
  * `ScUp'`, `TrO'`, `QSc'`, `QPath`, `QReach`, `QSt'`, `QRed'`, `QFin'`, `QuoPost'` and their VC lemmas
  * `QReach Dn On i c` : after `i` rounds the division is at position `c` (every round with its loop conditions);
    `round_unique`, `QReach.det`, `QReach.prefix`, **`QReach.final_unique`**: the stopping position `c` is DETERMINED by
    `Dn` and `On` (it is the first visited position with remainder `0` or quotient `≥ LIM`); `QReach.path`: the last round
  * `quo_sum_lt`      : the 256-bit sum of a round is below `2^192`
  * `quo_triple'`     : the Hoare triple of `Gen.decomposed192.quo` with the sharp post-condition
  * `QuoSharp`, `quo_sharp` : `quo d o t = .ok (r, t')` with all the facts above (wrapping `Int16` arithmetic);
    `QuoSharp.a_le/b_le/c_le`: `a ≤ 57`, `b ≤ 2`, `c ≤ 57`
-/
import D128.Proofs.D192Quo
import D128.Proofs.CohortElemBase
set_option autoImplicit false
set_option maxRecDepth 4096
set_option exponentiation.threshold 512
set_option linter.unusedVariables false
open Std.Do D128.Proofs.WordsWide
set_option mvcgen.warning false

namespace CohortElem
open Gen D192

/-! ### (S) numerator scaling, with the minimal exponent -/

/-- scaled-up numerator `x = D·10^a`, where the last step was needed: `a = 0 ∨ D·10^(a-1) < LIM` -/
def ScUp' (D : Nat) (e : Int16) (x : decomposed192) : Prop :=
  ∃ a : Nat, x.sig.toNat = D * 10 ^ a ∧ x.exp = e - Int16.ofNat a ∧ (a = 0 ∨ D * 10 ^ (a - 1) < LIM)

theorem ScUp'.refl (d : decomposed192) : ScUp' d.sig.toNat d.exp d :=
  ⟨0, by simp, by simp, Or.inl rfl⟩

theorem ScUp'.toScUp {D : Nat} {e : Int16} {x : decomposed192} (h : ScUp' D e x) : ScUp D e x := by
  obtain ⟨a, h1, h2, -⟩ := h
  exact ⟨a, h1, h2⟩

theorem LIM10_lt : 10 * LIM < 2 ^ 192 := by unfold LIM; norm_num

theorem lt19' (x : U192) (h : x.w2 = 0) : x.toNat * 10 ^ (19 - 1) < LIM := by
  have h' : x.w2.toNat ≤ 0 := by rw [h]; simp
  have := (U192.w2_le_iff x 0 (by norm_num)).mp h'
  unfold LIM; omega

theorem lt4' (x : U192) (h : x.w2 ≤ 703687441776639) : x.toNat * 10 ^ (4 - 1) < LIM := by
  rw [UInt64.le_iff_toNat_le] at h
  have := (U192.w2_le_iff x 703687441776639 (by norm_num)).mp h
  unfold LIM; omega

theorem lt1' (x : U192) (h : x.w2 ≤ 1801439850948198399) : x.toNat * 10 ^ (1 - 1) < LIM := by
  have := lt_LIM_of_le x h
  simpa using this

theorem pow_pred_mul (j : Nat) (hj : 0 < j) : 10 ^ j = 10 ^ (j - 1) * 10 := by
  rw [← Nat.pow_succ]; congr 1; omega

theorem fit_of_lt (n j : Nat) (hj : 0 < j) (h : n * 10 ^ (j - 1) < LIM) : n * 10 ^ j < 2 ^ 192 := by
  rw [pow_pred_mul j hj, ← Nat.mul_assoc]
  have := LIM10_lt
  omega

theorem vc_up' {D : Nat} {e : Int16} (x : decomposed192) (mb : Nat) (c : UInt64) (j : Nat)
    (hc : c.toNat = 10 ^ j) (hj : 0 < j) (hD : 1 ≤ D)
    (hfit : x.sig.toNat * 10 ^ (j - 1) < LIM) (hinv : mb = gap x.sig.toNat ∧ ScUp' D e x) :
    gap (Gen.U192.mul64 x.sig c).toNat < mb ∧
      ScUp' D e ⟨Gen.U192.mul64 x.sig c, x.exp - Int16.ofNat j⟩ := by
  obtain ⟨h1, a', ha', he'⟩ :=
    vc_up x mb c j hc hj hD (fit_of_lt _ j hj hfit) ⟨hinv.1, hinv.2.toScUp⟩
  obtain ⟨a, ha, he, hm⟩ := hinv.2
  refine ⟨h1, a + j, ?_, ?_, Or.inr ?_⟩
  · show (Gen.U192.mul64 x.sig c).toNat = _
    rw [U192_mul64_toNat_of_lt _ _ (by rw [hc]; exact fit_of_lt _ j hj hfit), hc, ha, Nat.pow_add]; ring
  · show x.exp - Int16.ofNat j = _
    rw [he, Int16.sub_sub, ← Int16.ofNat_add]
  · have e1 : a + j - 1 = a + (j - 1) := by omega
    rw [e1, Nat.pow_add, ← Nat.mul_assoc, ← ha]
    exact hfit

/-! ### (T) divisor truncation, with the minimal number of dropped digits -/

/-- truncated divisor: `b` low digits dropped, the last drop was needed: `b = 0 ∨ OLIM ≤ O / 10^(b-1)` -/
def TrO' (O : Nat) (t0 : Int8) (e0 : Int16) (x : decomposed192 × Int8) : Prop :=
  ∃ b : Nat, x.1.sig.toNat = O / 10 ^ b ∧ x.1.exp = e0 + Int16.ofNat b ∧
    x.2 = (if O % 10 ^ b = 0 then t0 else 1) ∧ (b = 0 ∨ OLIM ≤ O / 10 ^ (b - 1))

theorem TrO'.refl (o : decomposed192) (t : Int8) : TrO' o.sig.toNat t o.exp (o, t) :=
  ⟨0, by simp, by simp, by simp [Nat.mod_one], Or.inl rfl⟩

theorem TrO'.toTrO {O : Nat} {t0 : Int8} {e0 : Int16} {x : decomposed192 × Int8}
    (h : TrO' O t0 e0 x) : TrO O t0 e0 x := by
  obtain ⟨b, h1, h2, h3, h4⟩ := h
  refine ⟨b, h1, h2, h3, ?_⟩
  rcases h4 with h4 | h4
  · exact Or.inl h4
  · rcases Nat.eq_zero_or_pos b with hb | hb
    · exact Or.inl hb
    · right
      have hO : O / 10 ^ (b - 1) ≤ O := Nat.div_le_self _ _
      refine ⟨?_, by omega⟩
      rw [h1, pow_pred_mul b hb, ← Nat.div_div_eq_div_mul]
      unfold OLIM lim at h4
      omega

theorem ge_OLIM_of_le (x : U192) (hg : 1801439850948198399 ≤ x.w2) : OLIM ≤ x.toNat := by
  rw [UInt64.le_iff_toNat_le] at hg
  have := x.w0.toNat_lt; have := x.w1.toNat_lt
  simp only [U192.toNat, UInt64.reduceToNat] at hg ⊢
  unfold OLIM lim
  omega

theorem TrO'.step {O : Nat} {t0 : Int8} {e0 : Int16} {x : decomposed192 × Int8}
    (h : TrO' O t0 e0 x) (q : U192) (r : UInt64)
    (hdiv : q.toNat = x.1.sig.toNat / 10 ∧ r.toNat = x.1.sig.toNat % 10)
    (hg : 1801439850948198399 ≤ x.1.sig.w2) :
    q.toNat < x.1.sig.toNat ∧
      TrO' O t0 e0 (⟨q, x.1.exp + 1⟩, if r = 0 then x.2 else 1) := by
  obtain ⟨h1, b', hb1, hb2, hb3, -⟩ := TrO.step h.toTrO q r hdiv hg
  obtain ⟨b, g1, g2, g3, g4⟩ := h
  have hge := ge_OLIM_of_le _ hg
  refine ⟨h1, b + 1, ?_, ?_, ?_, Or.inr ?_⟩
  · show q.toNat = _
    rw [hdiv.1, g1, Nat.div_div_eq_div_mul, Nat.pow_succ]
  · show x.1.exp + 1 = _
    rw [g2, Int16.ofNat_add, Int16.add_assoc]; rfl
  · show (if r = 0 then x.2 else 1) = _
    have := mod_pow_add O b 1
    rw [← g1, Nat.pow_one, ← hdiv.2] at this
    by_cases hb : O % 10 ^ b = 0
    · by_cases hr : r = 0
      · rw [if_pos hr, if_pos (this.mpr ⟨hb, by rw [hr]; rfl⟩), g3, if_pos hb]
      · rw [if_neg hr, if_neg (fun h => hr (UInt64.toNat_inj.mp (by simpa using (this.mp h).2)))]
    · rw [if_neg (fun h => hb (this.mp h).1), g3, if_neg hb]; split <;> rfl
  · show OLIM ≤ O / 10 ^ (b + 1 - 1)
    rw [Nat.add_sub_cancel, ← g1]
    exact hge

/-! ### (Q) the long division -/

/-- inner scaling of quotient and remainder by the same power of ten; the last step was allowed by the loop
conditions: `m = 0 ∨ (sig·10^(m-1) < LIM ∧ rem·10^(m-1) < LIM)` -/
def QSc' (sig rem : Nat) (exp : Int16) (st : U192 × U192 × Int16) : Prop :=
  ∃ m : Nat, st.1.toNat = sig * 10 ^ m ∧ st.2.1.toNat = rem * 10 ^ m ∧
    st.2.2 = exp - Int16.ofNat m ∧ (m = 0 ∨ (sig * 10 ^ (m - 1) < LIM ∧ rem * 10 ^ (m - 1) < LIM))

theorem QSc'.toQSc {sig rem : Nat} {exp : Int16} {st : U192 × U192 × Int16}
    (h : QSc' sig rem exp st) : QSc sig rem exp st := by
  obtain ⟨m, h1, h2, h3, -⟩ := h
  exact ⟨m, h1, h2, h3⟩

theorem QSc'.refl (sig rem : U192) (exp : Int16) : QSc' sig.toNat rem.toNat exp (sig, rem, exp) :=
  ⟨0, by simp, by simp, by simp, Or.inl rfl⟩

theorem QSc'.step {sig rem : Nat} {exp : Int16} {st : U192 × U192 × Int16} (mb : Nat)
    (c : UInt64) (j : Nat) (hc : c.toNat = 10 ^ j) (hj : 0 < j) (hs : 1 ≤ sig)
    (hf1 : st.1.toNat * 10 ^ (j - 1) < LIM) (hf2 : st.2.1.toNat * 10 ^ (j - 1) < LIM)
    (hinv : mb = gap st.1.toNat ∧ QSc' sig rem exp st) :
    gap (Gen.U192.mul64 st.1 c).toNat < mb ∧
      QSc' sig rem exp (Gen.U192.mul64 st.1 c, Gen.U192.mul64 st.2.1 c, st.2.2 - Int16.ofNat j) := by
  obtain ⟨h1, m', g1, g2, g3⟩ := QSc.step mb c j hc hj hs (fit_of_lt _ j hj hf1) (fit_of_lt _ j hj hf2)
    ⟨hinv.1, hinv.2.toQSc⟩
  obtain ⟨m, k1, k2, k3, k4⟩ := hinv.2
  refine ⟨h1, m + j, ?_, ?_, ?_, Or.inr ⟨?_, ?_⟩⟩
  · show (Gen.U192.mul64 st.1 c).toNat = _
    rw [U192_mul64_toNat_of_lt _ _ (by rw [hc]; exact fit_of_lt _ j hj hf1), hc, k1, Nat.pow_add]; ring
  · show (Gen.U192.mul64 st.2.1 c).toNat = _
    rw [U192_mul64_toNat_of_lt _ _ (by rw [hc]; exact fit_of_lt _ j hj hf2), hc, k2, Nat.pow_add]; ring
  · show st.2.2 - Int16.ofNat j = _
    rw [k3, Int16.sub_sub, ← Int16.ofNat_add]
  · have e1 : m + j - 1 = m + (j - 1) := by omega
    rw [e1, Nat.pow_add, ← Nat.mul_assoc, ← k1]; exact hf1
  · have e1 : m + j - 1 = m + (j - 1) := by omega
    rw [e1, Nat.pow_add, ← Nat.mul_assoc, ← k2]; exact hf2

/-- how the division reached position `c`: it is the start, or the last round began at `c0 < c` with a quotient
`< LIM` and a remainder `≠ 0`, both of which could be scaled by `10^(c-1-c0)` without reaching `LIM` -/
def QPath (Dn On c : Nat) : Prop :=
  c = 0 ∨ ∃ c0 : Nat, c0 < c ∧ Dn * 10 ^ c0 / On * 10 ^ (c - 1 - c0) < LIM ∧
    Dn * 10 ^ c0 % On * 10 ^ (c - 1 - c0) < LIM ∧ Dn * 10 ^ c0 % On ≠ 0

/-- the positions visited by the division: after `i` rounds it is at position `c`.  A round starts only with a quotient
`< LIM` and a remainder `≠ 0`, and its length `m` is fixed by the loop conditions: both can be scaled by `10^(m-1)` without
reaching `LIM`, and one of them reaches `LIM` when scaled by `10^m`. -/
inductive QReach (Dn On : Nat) : Nat → Nat → Prop
  | zero : QReach Dn On 0 0
  | step (i c m : Nat) : QReach Dn On i c → Dn * 10 ^ c / On < LIM → Dn * 10 ^ c % On ≠ 0 → 1 ≤ m →
      Dn * 10 ^ c / On * 10 ^ (m - 1) < LIM → Dn * 10 ^ c % On * 10 ^ (m - 1) < LIM →
      (LIM ≤ Dn * 10 ^ c / On * 10 ^ m ∨ LIM ≤ Dn * 10 ^ c % On * 10 ^ m) → QReach Dn On (i + 1) (c + m)

theorem QReach.path {Dn On i c : Nat} (h : QReach Dn On i c) : QPath Dn On c := by
  cases h with
  | zero => exact Or.inl rfl
  | step i c m h0 h1 h2 h3 h4 h5 h6 =>
    right
    have e1 : c + m - 1 - c = m - 1 := by omega
    exact ⟨c, by omega, by rw [e1]; exact h4, by rw [e1]; exact h5, h2⟩

/-- the length of a round is determined by its start -/
theorem round_unique {s r m m' : Nat} (h3 : 1 ≤ m) (h4 : s * 10 ^ (m - 1) < LIM) (h5 : r * 10 ^ (m - 1) < LIM)
    (h6 : LIM ≤ s * 10 ^ m ∨ LIM ≤ r * 10 ^ m)
    (h3' : 1 ≤ m') (h4' : s * 10 ^ (m' - 1) < LIM) (h5' : r * 10 ^ (m' - 1) < LIM)
    (h6' : LIM ≤ s * 10 ^ m' ∨ LIM ≤ r * 10 ^ m') : m = m' := by
  have key : ∀ a b : Nat, s * 10 ^ (b - 1) < LIM → r * 10 ^ (b - 1) < LIM →
      (LIM ≤ s * 10 ^ a ∨ LIM ≤ r * 10 ^ a) → ¬ a < b := by
    intro a b k1 k2 k3 hlt
    have hp : 10 ^ a ≤ 10 ^ (b - 1) := Nat.pow_le_pow_right (by norm_num) (by omega)
    have := Nat.mul_le_mul_left s hp
    have := Nat.mul_le_mul_left r hp
    omega
  have := key m m' h4' h5' h6
  have := key m' m h4 h5 h6'
  omega

/-- the position after `i` rounds is determined -/
theorem QReach.det {Dn On i c c' : Nat} (h : QReach Dn On i c) (h' : QReach Dn On i c') : c = c' := by
  induction h generalizing c' with
  | zero => cases h'; rfl
  | step i c m h0 h1 h2 h3 h4 h5 h6 ih =>
    cases h' with
    | step _ c2 m2 g0 g1 g2 g3 g4 g5 g6 =>
      have := ih g0
      subst this
      rw [round_unique h3 h4 h5 h6 g3 g4 g5 g6]

/-- every earlier round started from a state in which the division continues -/
theorem QReach.prefix {Dn On i c : Nat} (h : QReach Dn On i c) :
    ∀ j, j < i → ∃ cj, QReach Dn On j cj ∧ Dn * 10 ^ cj / On < LIM ∧ Dn * 10 ^ cj % On ≠ 0 := by
  induction h with
  | zero => intro j hj; omega
  | step i c m h0 h1 h2 h3 h4 h5 h6 ih =>
    intro j hj
    rcases Nat.lt_or_ge j i with hlt | hge
    · exact ih j hlt
    · have : j = i := by omega
      subst this
      exact ⟨c, h0, h1, h2⟩

/-- **the stopping position is determined by numerator and divisor** -/
theorem QReach.final_unique {Dn On i c i' c' : Nat} (h : QReach Dn On i c) (h' : QReach Dn On i' c')
    (hs : Dn * 10 ^ c % On = 0 ∨ LIM ≤ Dn * 10 ^ c / On)
    (hs' : Dn * 10 ^ c' % On = 0 ∨ LIM ≤ Dn * 10 ^ c' / On) : c = c' := by
  have key : ∀ i c i' c', QReach Dn On i c → QReach Dn On i' c' →
      (Dn * 10 ^ c % On = 0 ∨ LIM ≤ Dn * 10 ^ c / On) → ¬ i < i' := by
    intro i c i' c' h h' hs hlt
    obtain ⟨cj, hj, k1, k2⟩ := h'.prefix i hlt
    have := hj.det h
    subst this
    rcases hs with hs | hs
    · exact k2 hs
    · omega
  have h1 := key i c i' c' h h' hs
  have h2 := key i' c' i c h' h hs'
  have : i = i' := by omega
  subst this
  exact h.det h'

/-- state of the long division: `c` digits of scaling, nothing dropped, flag untouched -/
def QSt' (Dn On : Nat) (e0 : Int16) (t1 : Int8) (st : Int8 × U192 × U192 × Int16) : Prop :=
  ∃ c : Nat, st.2.1.toNat = Dn * 10 ^ c / On ∧ st.2.2.1.toNat = Dn * 10 ^ c % On ∧
    st.2.2.2 = e0 - Int16.ofNat c ∧ st.1 = t1 ∧ 1 ≤ st.2.1.toNat ∧ ∃ i, QReach Dn On i c

/-- the final `for sig256[3] != 0` loop does nothing -/
def QRed' (S : Nat) (t1 : Int8) (e : Int16) (st : Int8 × Int16 × U256) : Prop :=
  st.2.2.toNat = S ∧ st.2.1 = e ∧ st.1 = t1

theorem QSt'.init (Dn On : Nat) (e0 : Int16) (t1 : Int8) (q r : U192)
    (hq : q.toNat = Dn / On) (hr : r.toNat = Dn % On) (hD : LIM ≤ Dn) (hO : On < OLIM)
    (hO0 : On ≠ 0) : QSt' Dn On e0 t1 (t1, q, r, e0) := by
  refine ⟨0, by simpa using hq, by simpa using hr, by simp, rfl, ?_, 0, QReach.zero⟩
  show 1 ≤ q.toNat
  rw [hq, Nat.le_div_iff_mul_le (Nat.pos_of_ne_zero hO0)]
  unfold LIM at hD; unfold OLIM lim at hO; omega

/-- **no carry into the fourth word**: the sum `sig·10^m + ⌊rem·10^m / On⌋ = ⌊Dn·10^(c+m) / On⌋` of a round of the long
division is below `2^192`, so the reduction loop `for sig256[3] != 0` never runs. -/
theorem quo_sum_lt (Dn On c m sig rem : Nat) (hOn : 0 < On) (hDn : LIM ≤ Dn)
    (hs : sig = Dn * 10 ^ c / On) (hr : rem = Dn * 10 ^ c % On) (hsl : sig < LIM)
    (hm : m = 0 ∨ (sig * 10 ^ (m - 1) < LIM ∧ rem * 10 ^ (m - 1) < LIM)) :
    sig * 10 ^ m + rem * 10 ^ m / On < 2 ^ 192 := by
  have hL := LIM10_lt
  have hrem : rem < On := by rw [hr]; exact Nat.mod_lt _ hOn
  rcases Nat.eq_zero_or_pos m with h0 | h0
  · subst h0
    simp only [Nat.pow_zero, Nat.mul_one]
    rw [Nat.div_eq_of_lt hrem]
    omega
  · obtain ⟨hA, hR⟩ := hm.resolve_left (by omega)
    rw [pow_pred_mul m h0, ← Nat.mul_assoc, ← Nat.mul_assoc]
    generalize hAe : sig * 10 ^ (m - 1) = A at *
    generalize hRe : rem * 10 ^ (m - 1) = R at *
    by_cases h42 : 42 ≤ sig
    · -- the quotient has at least two digits: `10^m` is small against `sig·10^m`
      have hP : 42 * 10 ^ (m - 1) ≤ A := by rw [← hAe]; exact Nat.mul_le_mul_right _ h42
      have hRP : R < On * 10 ^ (m - 1) := by
        rw [← hRe]; exact Nat.mul_lt_mul_of_pos_right hrem (by positivity)
      have hq : R * 10 / On < 10 ^ (m - 1) * 10 := by
        rw [Nat.div_lt_iff_lt_mul hOn]
        calc R * 10 < On * 10 ^ (m - 1) * 10 := Nat.mul_lt_mul_of_pos_right hRP (by norm_num)
          _ = 10 ^ (m - 1) * 10 * On := by ring
      unfold LIM at *
      omega
    · -- the quotient is tiny: then the divisor is huge and `tmp` is tiny
      have hsl' : Dn * 10 ^ c / On < 42 := by rw [← hs]; omega
      rw [Nat.div_lt_iff_lt_mul hOn] at hsl'
      have hDc : Dn ≤ Dn * 10 ^ c := Nat.le_mul_of_pos_right _ (by positivity)
      have hq : R * 10 / On < 420 := by
        rw [Nat.div_lt_iff_lt_mul hOn]
        omega
      unfold LIM at *
      omega

/-- the body of `for sig256[3] != 0` is unreachable -/
theorem QRed'.absurd {Dn On : Nat} {e0 : Int16} {t1 : Int8} {b : Int8 × U192 × U192 × Int16}
    {s2 : U192 × U192 × Int16} {tq : U192 × U192} {st : Int8 × Int16 × U256}
    (hOn0 : On ≠ 0) (hDn : LIM ≤ Dn)
    (hcond : b.2.1.w2 ≤ 1801439850948198399)
    (hinv : QSt' Dn On e0 t1 b)
    (hsc : QSc' b.2.1.toNat b.2.2.1.toNat b.2.2.2 s2)
    (hdiv : tq.1.toNat = s2.2.1.toNat / On)
    (hred : QRed' (s2.1.toNat + tq.1.toNat) b.1 s2.2.2 st) (hw : ¬ st.2.2.w3 = 0) : False := by
  obtain ⟨c, hs, hr, -, -, -, -⟩ := hinv
  obtain ⟨m, hm1, hm2, -, hm4⟩ := hsc
  have hge : 2 ^ 192 ≤ st.2.2.toNat := by
    have : 1 ≤ st.2.2.w3.toNat := by
      by_contra hc; apply hw; exact UInt64.toNat_inj.mp (by simp; omega)
    simp only [U256.toNat]; omega
  have := quo_sum_lt Dn On c m b.2.1.toNat b.2.2.1.toNat (Nat.pos_of_ne_zero hOn0) hDn hs hr
    (lt_LIM_of_le _ hcond) hm4
  rw [hred.1, hdiv, hm1, hm2] at hge
  omega

theorem QRed'.init (s tq : U192) (t1 : Int8) (e : Int16) :
    QRed' (s.toNat + tq.toNat) t1 e (t1, e, Gen.U192.add s tq) :=
  ⟨by simp [U192_add_toNat], rfl, rfl⟩

/-- one pass of the outer loop of the long division re-establishes the state and makes progress. -/
theorem QSt'.next {Dn On : Nat} {e0 : Int16} {t1 : Int8} (b : Int8 × U192 × U192 × Int16)
    (s2 : U192 × U192 × Int16) (tq : U192 × U192) (r : Int8 × Int16 × U256) (mb : Nat)
    (hOn0 : On ≠ 0) (hOn : On < OLIM)
    (hnz : b.2.2.1.toNat ≠ 0)
    (hcond : b.2.1.w2 ≤ 1801439850948198399)
    (hinv : mb = gap b.2.1.toNat ∧ QSt' Dn On e0 t1 b)
    (hsc : QSc' b.2.1.toNat b.2.2.1.toNat b.2.2.2 s2 ∧
      (lim < s2.2.1.w2.toNat ∨ lim < s2.1.w2.toNat))
    (hdiv : tq.1.toNat = s2.2.1.toNat / On ∧ tq.2.toNat = s2.2.1.toNat % On)
    (hred : QRed' (s2.1.toNat + tq.1.toNat) b.1 s2.2.2 r ∧ r.2.2.w3 = 0) :
    gap (U192.mk r.2.2.w0 r.2.2.w1 r.2.2.w2).toNat < mb ∧
      QSt' Dn On e0 t1 (r.1, U192.mk r.2.2.w0 r.2.2.w1 r.2.2.w2, tq.2, r.2.1) := by
  obtain ⟨hmb, c, hs, hr, he, ht, h1, hp⟩ := hinv
  obtain ⟨⟨m, hm1, hm2, hm3, hm4⟩, hex⟩ := hsc
  obtain ⟨⟨hq, hqe, hqt⟩, hw3⟩ := hred
  have hOnpos : 0 < On := Nat.pos_of_ne_zero hOn0
  have hsig_lt : b.2.1.toNat < LIM := lt_LIM_of_le _ hcond
  have hrem_lt : b.2.2.1.toNat < On := by rw [hr]; exact Nat.mod_lt _ hOnpos
  -- at least one digit of scaling happened
  have hm : 1 ≤ m := by
    by_contra hc
    have hm0 : m = 0 := by omega
    subst hm0
    simp only [Nat.pow_zero, Nat.mul_one] at hm1 hm2
    have a1 : s2.1.w2.toNat < lim + 1 := by
      apply w2_lt_of_lt; rw [hm1, ← LIM_eq]; exact hsig_lt
    have a2 : s2.2.1.w2.toNat < lim := by
      apply w2_lt_of_lt; rw [hm2]; unfold OLIM at hOn; omega
    omega
  obtain ⟨hS, hR⟩ := quo_step Dn On c m b.2.1.toNat b.2.2.1.toNat hOnpos hs hr
  rw [← hm1, ← hm2, ← hdiv.1] at hS
  rw [← hm2, ← hdiv.2] at hR
  have hlow : (U192.mk r.2.2.w0 r.2.2.w1 r.2.2.w2).toNat = r.2.2.toNat := U256.toNat_low3 _ hw3
  have hs2 : 10 * b.2.1.toNat ≤ s2.1.toNat := by
    rw [hm1]
    have : 10 ≤ 10 ^ m := by
      calc 10 = 10 ^ 1 := by norm_num
        _ ≤ 10 ^ m := Nat.pow_le_pow_right (by norm_num) hm
    rw [Nat.mul_comm]; exact Nat.mul_le_mul_left _ this
  have hnew_lt : r.2.2.toNat < 2 ^ 192 := by
    rw [← hlow]; exact U192.toNat_lt _
  obtain ⟨i, hp⟩ := hp
  have hex' : LIM ≤ Dn * 10 ^ c / On * 10 ^ m ∨ LIM ≤ Dn * 10 ^ c % On * 10 ^ m := by
    rw [← hs, ← hr, ← hm1, ← hm2]
    rcases hex with h | h
    · right
      apply ge_LIM_of_not_le
      rw [UInt64.not_le, UInt64.lt_iff_toNat_lt]
      exact h
    · left
      apply ge_LIM_of_not_le
      rw [UInt64.not_le, UInt64.lt_iff_toNat_lt]
      exact h
  refine ⟨?_, c + m, ?_, ?_, ?_, ?_, ?_, i + 1, QReach.step i c m hp ?_ ?_ hm ?_ ?_ hex'⟩
  · rw [hmb, hlow, hq]; unfold gap; omega
  · show (U192.mk r.2.2.w0 r.2.2.w1 r.2.2.w2).toNat = _
    rw [hlow, hq, hS]
  · show tq.2.toNat = _
    exact hR
  · show r.2.1 = _
    rw [hqe, hm3, he, Int16.sub_sub, ← Int16.ofNat_add]
  · show r.1 = t1
    rw [hqt, ht]
  · show 1 ≤ (U192.mk r.2.2.w0 r.2.2.w1 r.2.2.w2).toNat
    rw [hlow, hq]; omega
  · rw [← hs]; exact hsig_lt
  · rw [← hr]; exact hnz
  · rw [← hs]; exact (hm4.resolve_left (by omega)).1
  · rw [← hr]; exact (hm4.resolve_left (by omega)).2

/-- result of the long division (after the trailing `if rem != 0 { trunc = 1 }`) -/
def QFin' (Dn On : Nat) (e0 : Int16) (t1 : Int8) (r : decomposed192) (t' : Int8) : Prop :=
  ∃ c : Nat, r.sig.toNat = Dn * 10 ^ c / On ∧ r.exp = e0 - Int16.ofNat c ∧
    t' = (if Dn * 10 ^ c % On = 0 then t1 else 1) ∧
    (Dn * 10 ^ c % On = 0 ∨ LIM ≤ r.sig.toNat) ∧ 1 ≤ r.sig.toNat ∧ ∃ i, QReach Dn On i c

theorem QFin'.of_nz {Dn On : Nat} {e0 : Int16} {t1 : Int8} {st : Int8 × U192 × U192 × Int16}
    (h : QSt' Dn On e0 t1 st) (hx : st.2.2.1.toNat = 0 ∨ LIM ≤ st.2.1.toNat)
    (hnz : st.2.2.1.w0 = 0 → st.2.2.1.w1 = 0 → ¬ st.2.2.1.w2 = 0) :
    QFin' Dn On e0 t1 ⟨st.2.1, st.2.2.2⟩ 1 := by
  obtain ⟨c, hs, hr, he, ht, h1, hp⟩ := h
  have hne := (rem_ne_zero_iff _).mp hnz
  refine ⟨c, hs, he, ?_, ?_, h1, hp⟩
  · rw [if_neg (by rw [← hr]; exact hne)]
  · exact Or.inr (hx.resolve_left hne)

theorem QFin'.of_z {Dn On : Nat} {e0 : Int16} {t1 : Int8} {st : Int8 × U192 × U192 × Int16}
    (h : QSt' Dn On e0 t1 st)
    (hz : st.2.2.1.w0 = 0 ∧ st.2.2.1.w1 = 0 ∧ st.2.2.1.w2 = 0) :
    QFin' Dn On e0 t1 ⟨st.2.1, st.2.2.2⟩ st.1 := by
  obtain ⟨c, hs, hr, he, ht, h1, hp⟩ := h
  have h0 : st.2.2.1.toNat = 0 := by
    simp [U192.toNat, hz.1, hz.2.1, hz.2.2]
  refine ⟨c, hs, he, ?_, Or.inl (by rw [← hr]; exact h0), h1, hp⟩
  rw [if_pos (by rw [← hr]; exact h0), ht]

/-- what `quo` returns, sharp form -/
def QuoPost' (d o : decomposed192) (t : Int8) (x : decomposed192 × Int8) : Prop :=
  (d.sig.toNat = 0 ∧ x = (⟨⟨0, 0, 0⟩, 0⟩, t)) ∨
  (d.sig.toNat ≠ 0 ∧ ∃ (d1 : decomposed192) (o1 : decomposed192 × Int8),
    QFin' d1.sig.toNat o1.1.sig.toNat (d1.exp - o1.1.exp) o1.2 x.1 x.2 ∧
    (ScUp' d.sig.toNat d.exp d1 ∧ LIM ≤ d1.sig.toNat) ∧
    (TrO' o.sig.toNat t o.exp o1 ∧ o1.1.sig.toNat < OLIM) ∧ o1.1.sig.toNat ≠ 0)

/-- **`decomposed192.quo`, sharp Hoare triple** (no panic, termination, and the sharp post-condition) -/
theorem quo_triple' (d o : decomposed192) (t : Int8) :
    ⦃⌜o.sig.toNat ≠ 0⌝⦄ Gen.decomposed192.quo d o t
    ⦃⇓ x => ⌜QuoPost' d o t x⌝⦄ := by
  mvcgen [Gen.decomposed192.quo]
  case inv1 | inv3 | inv5 => exact fun st => ⟨gap st.sig.toNat⟩
  case inv2 => exact ⇓ x => match x with
    | .inl st => ⌜ScUp' d.sig.toNat d.exp st⌝
    | .inr st => ⌜ScUp' d.sig.toNat d.exp st⌝
  case inv4 => exact ⇓ x => match x with
    | .inl st => ⌜ScUp' d.sig.toNat d.exp st⌝
    | .inr st => ⌜ScUp' d.sig.toNat d.exp st⌝
  case inv6 => exact ⇓ x => match x with
    | .inl st => ⌜ScUp' d.sig.toNat d.exp st⌝
    | .inr st => ⌜ScUp' d.sig.toNat d.exp st ∧ LIM ≤ st.sig.toNat⌝
  case inv7 => exact fun st => ⟨st.1.sig.toNat⟩
  case inv8 => exact ⇓ x => match x with
    | .inl st => ⌜TrO' o.sig.toNat t o.exp st⌝
    | .inr st => ⌜TrO' o.sig.toNat t o.exp st ∧ st.1.sig.toNat < OLIM⌝
  case inv9 => exact fun st => ⟨gap st.2.1.toNat⟩
  case inv10 =>
    rename_i d3 _ o1 _ _ _ q0 _ _ _ _
    exact ⇓ x => match x with
    | .inl st => ⌜QSt' d3.sig.toNat o1.1.sig.toNat (d3.exp - o1.1.exp) o1.2 st⌝
    | .inr st => ⌜QSt' d3.sig.toNat o1.1.sig.toNat (d3.exp - o1.1.exp) o1.2 st ∧
        (st.2.2.1.toNat = 0 ∨ LIM ≤ st.2.1.toNat)⌝
  case inv11 | inv13 => exact fun st => ⟨gap st.1.toNat⟩
  case inv12 =>
    rename_i d3 _ o1 _ _ _ q0 _ _ _ _ b _ _ _ _ _ _ _ _ _
    exact ⇓ x => match x with
    | .inl st => ⌜QSc' b.2.1.toNat b.2.2.1.toNat b.2.2.2 st⌝
    | .inr st => ⌜QSc' b.2.1.toNat b.2.2.1.toNat b.2.2.2 st⌝
  case inv14 =>
    rename_i b _ _ _ _ _ _ _ _ _ _ _ _ _ _ _
    exact ⇓ x => match x with
    | .inl st => ⌜QSc' b.2.1.toNat b.2.2.1.toNat b.2.2.2 st⌝
    | .inr st => ⌜QSc' b.2.1.toNat b.2.2.1.toNat b.2.2.2 st ∧
        (lim < st.2.1.w2.toNat ∨ lim < st.1.w2.toNat)⌝
  case inv15 => exact fun st => ⟨st.2.2.toNat⟩
  case inv16 =>
    rename_i b _ _ _ _ _ _ _ _ _ _ _ _ _ _ _ s2 _ _ _ _ _ tq _ _ _ _
    exact ⇓ x => match x with
    | .inl st => ⌜QRed' (s2.1.toNat + tq.1.toNat) b.1 s2.2.2 st⌝
    | .inr st => ⌜QRed' (s2.1.toNat + tq.1.toNat) b.1 s2.2.2 st ∧ st.2.2.w3 = 0⌝
  all_goals (simp +zetaDelta at *)
  case vc1 =>
    rename_i h
    left
    refine ⟨?_, rfl⟩
    simp [U192.toNat, h.1.1, h.1.2, h.2]
  case vc2 =>
    rename_i hD hz hinv
    exact vc_up' _ _ 10000000000000000000 19 (by decide) (by norm_num) (sig_ne_zero d hD) (lt19' _ hz) hinv
  case vc3 | vc6 => rename_i hinv; exact hinv.2
  case vc4 => exact ScUp'.refl d
  case vc5 =>
    rename_i hD hz hinv
    exact vc_up' _ _ 10000 4 (by decide) (by norm_num) (sig_ne_zero d hD) (lt4' _ hz) hinv
  case vc7 | vc10 => rename_i h _; exact h
  case vc8 =>
    rename_i hD hz hinv
    exact vc_up' _ _ 10 1 (by decide) (by norm_num) (sig_ne_zero d hD) (lt1' _ hz) hinv
  case vc9 =>
    rename_i hz hinv
    exact ⟨hinv.2, ge_LIM_of_not_le _ (by rw [UInt64.not_le]; exact hz)⟩
  case vc11 =>
    rename_i hdiv _ hg hinv hnz
    have := TrO'.step hinv.2 _ _ hdiv hg
    rw [if_neg hnz] at this
    exact ⟨by rw [hinv.1]; exact this.1, this.2⟩
  case vc12 =>
    rename_i hdiv _ hg hinv hz
    have := TrO'.step hinv.2 _ _ hdiv hg
    rw [if_pos hz] at this
    exact ⟨by rw [hinv.1]; exact this.1, this.2⟩
  case vc13 => rename_i hlt hinv; exact ⟨hinv.2, lt_OLIM_of_lt _ hlt⟩
  case vc14 => exact TrO'.refl o t
  case vc15 | vc22 =>
    exact TrO.ne_zero (O := o.sig.toNat) (t0 := t) (e0 := o.exp) (TrO'.toTrO (And.left (by assumption)))
      (by assumption)
  case vc16 =>
    rename_i _ hc hq hz hinv
    obtain ⟨_, _, _, _, _, h1, _⟩ := hq.2
    exact QSc'.step _ 10000 4 (by decide) (by norm_num) h1 (lt4' _ hz.2) (lt4' _ hz.1) hinv
  case vc17 => rename_i hinv; exact hinv.2
  case vc21 => assumption
  case vc18 => exact QSc'.refl _ _ _
  case vc19 =>
    rename_i _ hc hq hz hinv
    obtain ⟨_, _, _, _, _, h1, _⟩ := hq.2
    exact QSc'.step _ 10 1 (by decide) (by norm_num) h1 (lt1' _ hz.2) (lt1' _ hz.1) hinv
  case vc20 => rename_i hex hinv; exact ⟨hinv.2, exit2 _ _ hex⟩
  case vc23 | vc24 =>
    rename_i hcond hinv hw hred _
    have hO0 := TrO.ne_zero (O := o.sig.toNat) (t0 := t) (e0 := o.exp) (TrO'.toTrO (And.left (by assumption)))
      (by assumption)
    exact (QRed'.absurd hO0 (And.right (by assumption)) hcond.2 hinv.2 (And.left (by assumption))
      (And.left (by assumption)) hred.2 hw).elim
  case vc25 => rename_i hw hinv; exact ⟨hinv.2, hw⟩
  case vc26 => exact QRed'.init _ _ _ _
  case vc27 =>
    rename_i hcond hinv
    exact QSt'.next _ _ _ _ _
      (TrO.ne_zero (O := o.sig.toNat) (t0 := t) (e0 := o.exp) (TrO'.toTrO (And.left (by assumption))) (by assumption))
      (And.right (by assumption)) ((rem_ne_zero_iff _).mp hcond.1) hcond.2 hinv (by assumption) (by assumption)
      (by assumption)
  case vc31 => rename_i hex hinv; exact ⟨hinv.2, exit_outer _ _ hex⟩
  case vc32 =>
    exact QSt'.init _ _ _ _ _ _ (And.left (by assumption)) (And.right (by assumption))
      (And.right (by assumption)) (And.right (by assumption))
      (TrO.ne_zero (O := o.sig.toNat) (t0 := t) (e0 := o.exp) (TrO'.toTrO (And.left (by assumption))) (by assumption))
  case vc33 =>
    rename_i hst _ hnz
    right
    have hO0 := TrO.ne_zero (O := o.sig.toNat) (t0 := t) (e0 := o.exp) (TrO'.toTrO (And.left (by assumption)))
      (by assumption)
    exact ⟨Nat.pos_iff_ne_zero.mp (sig_ne_zero d (by assumption)), _, _,
      QFin'.of_nz hst.1 hst.2 hnz, by assumption, by assumption, hO0⟩
  case vc34 =>
    rename_i hst _ hz
    right
    have hO0 := TrO.ne_zero (O := o.sig.toNat) (t0 := t) (e0 := o.exp) (TrO'.toTrO (And.left (by assumption)))
      (by assumption)
    exact ⟨Nat.pos_iff_ne_zero.mp (sig_ne_zero d (by assumption)), _, _,
      QFin'.of_z hst.1 hz, by assumption, by assumption, hO0⟩

/-! ### the result equation -/

/-- everything the code determines about `quo d o t = (r, t')`: `a` digits appended to the numerator, `b` digits
dropped from the divisor, `c` digits produced by the long division -/
structure QuoSharp (d o : decomposed192) (t : Int8) (r : decomposed192) (t' : Int8) (a b c : Nat) : Prop where
  /-- `a` is minimal -/
  a_min : a = 0 ∨ d.sig.toNat * 10 ^ (a - 1) < LIM
  dn_ge : LIM ≤ d.sig.toNat * 10 ^ a
  dn_lt : d.sig.toNat * 10 ^ a < 2 ^ 192
  /-- `b` is minimal -/
  b_min : b = 0 ∨ OLIM ≤ o.sig.toNat / 10 ^ (b - 1)
  on_lt : o.sig.toNat / 10 ^ b < OLIM
  on_ne : o.sig.toNat / 10 ^ b ≠ 0
  sig : r.sig.toNat = d.sig.toNat * 10 ^ a * 10 ^ c / (o.sig.toNat / 10 ^ b)
  exp : r.exp = d.exp - Int16.ofNat a - (o.exp + Int16.ofNat b) - Int16.ofNat c
  flag : t' = (if o.sig.toNat % 10 ^ b = 0 ∧ d.sig.toNat * 10 ^ a * 10 ^ c % (o.sig.toNat / 10 ^ b) = 0 then t else 1)
  /-- the division stops when it terminates or the quotient has 57 digits -/
  stop : d.sig.toNat * 10 ^ a * 10 ^ c % (o.sig.toNat / 10 ^ b) = 0 ∨ LIM ≤ r.sig.toNat
  pos : 1 ≤ r.sig.toNat
  path : QPath (d.sig.toNat * 10 ^ a) (o.sig.toNat / 10 ^ b) c
  /-- the full list of rounds -/
  reach : ∃ i, QReach (d.sig.toNat * 10 ^ a) (o.sig.toNat / 10 ^ b) i c

theorem QuoSharp.a_le {d o : decomposed192} {t : Int8} {r : decomposed192} {t' : Int8} {a b c : Nat}
    (h : QuoSharp d o t r t' a b c) (hd : d.sig.toNat ≠ 0) : a ≤ 57 := by
  by_contra hc
  have h58 : 10 ^ 58 ≤ 10 ^ a := Nat.pow_le_pow_right (by norm_num) (by omega)
  have := h.dn_lt
  have : 1 * 10 ^ 58 ≤ d.sig.toNat * 10 ^ a := Nat.mul_le_mul (Nat.pos_of_ne_zero hd) h58
  omega

theorem QuoSharp.b_le {d o : decomposed192} {t : Int8} {r : decomposed192} {t' : Int8} {a b c : Nat}
    (h : QuoSharp d o t r t' a b c) : b ≤ 2 := by
  rcases h.b_min with h4 | h4
  · omega
  · by_contra hc
    have h3' : 10 ^ 2 ≤ 10 ^ (b - 1) := Nat.pow_le_pow_right (by norm_num) (by omega)
    have : o.sig.toNat / 10 ^ (b - 1) ≤ o.sig.toNat / 10 ^ 2 := Nat.div_le_div_left h3' (by norm_num)
    have := U192.toNat_lt o.sig
    unfold OLIM lim at h4
    omega

theorem QuoSharp.c_le {d o : decomposed192} {t : Int8} {r : decomposed192} {t' : Int8} {a b c : Nat}
    (h : QuoSharp d o t r t' a b c) : c ≤ 57 := by
  by_contra hc
  have h58 : 10 ^ 58 ≤ 10 ^ c := Nat.pow_le_pow_right (by norm_num) (by omega)
  have hr := U192.toNat_lt r.sig
  rw [h.sig, Nat.div_lt_iff_lt_mul (Nat.pos_of_ne_zero h.on_ne)] at hr
  have h1 := h.on_lt
  have h2 := h.dn_ge
  have : LIM * 10 ^ 58 ≤ d.sig.toNat * 10 ^ a * 10 ^ c := Nat.mul_le_mul h2 h58
  have : 2 ^ 192 * (o.sig.toNat / 10 ^ b) ≤ 2 ^ 192 * OLIM := Nat.mul_le_mul_left _ h1.le
  unfold LIM OLIM lim at *
  omega

/-- **`decomposed192.quo`, sharp result equation** (non-zero significands; `Int16` arithmetic wrapping) -/
theorem quo_sharp (d o : decomposed192) (t : Int8) (hd : d.sig.toNat ≠ 0) (ho : o.sig.toNat ≠ 0) :
    ∃ (r : decomposed192) (t' : Int8) (a b c : Nat),
      decomposed192.quo d o t = .ok (r, t') ∧ QuoSharp d o t r t' a b c := by
  have h' : ⦃⌜True⌝⦄ Gen.decomposed192.quo d o t ⦃⇓ x => ⌜QuoPost' d o t x⌝⦄ := by
    simpa [ho] using quo_triple' d o t
  obtain ⟨⟨r, t'⟩, hr, hpost⟩ := ok_of_triple h'
  rcases hpost with ⟨h0, -⟩ | ⟨-, d1, o1, ⟨c, f1, f2, f3, f4, f5, f6⟩, ⟨⟨a, s1, s2, s3⟩, hdL⟩,
    ⟨⟨b, u1, u2, u3, u4⟩, hoL⟩, ho1⟩
  · exact absurd h0 hd
  dsimp only at f1 f2 f3 f4 f5 f6
  rw [s1, u1] at f1 f3 f4 f6
  rw [s1] at hdL
  rw [u1] at hoL ho1
  obtain ⟨i, f6⟩ := f6
  refine ⟨r, t', a, b, c, hr, s3, hdL, s1 ▸ U192.toNat_lt d1.sig, u4, hoL, ho1, f1, ?_, ?_, f4, f5, f6.path, i, f6⟩
  · rw [f2, s2, u2]
  · rw [f3, u3]
    by_cases h1 : o.sig.toNat % 10 ^ b = 0
    · simp only [h1, true_and, if_true]
    · simp only [h1, false_and, if_false]
      split <;> rfl

end CohortElem
