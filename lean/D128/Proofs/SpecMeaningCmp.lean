/-
  D128/Proofs/SpecMeaningCmp.lean — what `Spec.cmp`, `Spec.equal`, `Spec.compare`, `Spec.cmpAbs`,
  `Spec.minVal`, `Spec.maxVal`, `Spec.isZero`, `Spec.sign` MEAN, stated on the denoted values
  (pure mathematics on the specification; no generated code).  Reuses `CmpPf.spec_cmp_fin_rat`
  (D128/Proofs/CmpOrder.lean) for the finite–finite case.

  The denotation of a non-NaN value is `ext x : WithBot (WithTop ℚ)` (−Inf ↦ ⊥, +Inf ↦ ⊤,
  finite ↦ `x.toRat`); with NaN below everything it is `extN x : WithBot (WithBot (WithTop ℚ))`;
  refined by "−0 below +0" it is `ordKey x` (lexicographic pair).

  Provided (namespace `SpecMeaning`):
  * `ext`, `ext_fin`, `ext_inf_pos`, `ext_inf_neg`, `ext_eq_iff_fin` (`ext` of two finite values agree iff the rationals agree)
  * `cmp_range`            : `Spec.cmp x y ∈ {-2,-1,0,1}`
  * `cmp_eq_unordered_iff` : `Spec.cmp x y = -2 ↔ x is NaN ∨ y is NaN`
  * `cmp_lt_iff`, `cmp_eq_iff`, `cmp_gt_iff` : for non-NaN x y: `-1 ↔ ext x < ext y`, `0 ↔ ext x = ext y`,
                             `1 ↔ ext y < ext x`
  * `cmp_eq_compare`       : for non-NaN x y, `Spec.cmp x y` is `compare (ext x) (ext y)` as −1/0/1
  * `cmp_fin_fin`          : finite operands: `compare x.toRat y.toRat` as −1/0/1
  * `cmp_neg_zero`         : `Spec.cmp (-0) (+0) = 0`
  * `equal_iff`            : `Spec.equal x y ↔ neither is NaN ∧ ext x = ext y`
  * `cmpAbs_eq`, `ext_absVal`, `toRat_absVal` : `cmpAbs` compares `|x|`, `|y|`
  * `extN`, `compare_lt_iff`, `compare_eq_iff`, `compare_gt_iff`, `compare_eq_compare`,
    `compare_range`, `compare_antisymm`, `compare_le_total`, `compare_trans`, `compare_neg_zero`
                           : `Spec.compare` is the total preorder induced by `extN` (NaN first; all NaNs
                             equivalent; −0 equivalent to +0)
  * `minVal_nan_left`, `minVal_nan_right`, `maxVal_…` : NaN if either is NaN (the first one)
  * `ext_minVal`, `ext_maxVal` : non-NaN operands: the result denotes `min`/`max` of the denotations
  * `minVal_same`, `maxVal_same` : the result is one of the two operands up to encoding
  * `ordKey`, `ordKey_minVal`, `ordKey_maxVal` : … also with −0 ordered below +0
  * `ordKey_eq_iff_same`   : `ordKey` identifies exactly the values that are `Val.same` (non-NaN)
  * `isZero_iff`, `sign_eq` : `isZero x ↔ finite ∧ toRat = 0`; `sign` is the sign of the denotation
-/
import D128.Proofs.CmpOrder
import Mathlib.Order.WithBot
import Mathlib.Algebra.Order.Ring.Abs
import Mathlib.Data.Prod.Lex

set_option autoImplicit false

namespace SpecMeaning
open Spec

/-! ## denotation of non-NaN values -/

/-- the extended rational a non-NaN value denotes: −Inf ↦ ⊥, +Inf ↦ ⊤ (NaN ↦ 0, never used) -/
def ext : Val → WithBot (WithTop ℚ)
  | .inf true => ⊥
  | .inf false => ((⊤ : WithTop ℚ) : WithBot (WithTop ℚ))
  | v => ((v.toRat : WithTop ℚ) : WithBot (WithTop ℚ))

@[simp] theorem ext_fin (n : Bool) (c : Nat) (e : Int) :
    ext (.fin n c e) = (((Val.fin n c e).toRat : WithTop ℚ) : WithBot (WithTop ℚ)) := rfl
@[simp] theorem ext_inf_neg : ext (.inf true) = ⊥ := rfl
@[simp] theorem ext_inf_pos : ext (.inf false) = ((⊤ : WithTop ℚ) : WithBot (WithTop ℚ)) := rfl

theorem ext_lt_fin (a b : ℚ) :
    (((a : WithTop ℚ) : WithBot (WithTop ℚ)) < ((b : WithTop ℚ) : WithBot (WithTop ℚ))) ↔ a < b := by
  rw [WithBot.coe_lt_coe, WithTop.coe_lt_coe]

theorem ext_eq_fin (a b : ℚ) :
    (((a : WithTop ℚ) : WithBot (WithTop ℚ)) = ((b : WithTop ℚ) : WithBot (WithTop ℚ))) ↔ a = b := by
  rw [WithBot.coe_inj, WithTop.coe_inj]

theorem ext_eq_iff_fin (n n' : Bool) (c c' : Nat) (e e' : Int) :
    ext (.fin n c e) = ext (.fin n' c' e') ↔ (Val.fin n c e).toRat = (Val.fin n' c' e').toRat := by
  simp only [ext_fin, ext_eq_fin]

theorem fin_lt_top (a : ℚ) :
    ((a : WithTop ℚ) : WithBot (WithTop ℚ)) < ((⊤ : WithTop ℚ) : WithBot (WithTop ℚ)) := by
  rw [WithBot.coe_lt_coe]; exact WithTop.coe_lt_top a

theorem bot_lt_fin (a : ℚ) : (⊥ : WithBot (WithTop ℚ)) < ((a : WithTop ℚ) : WithBot (WithTop ℚ)) :=
  WithBot.bot_lt_coe _

theorem bot_lt_top' : (⊥ : WithBot (WithTop ℚ)) < ((⊤ : WithTop ℚ) : WithBot (WithTop ℚ)) :=
  WithBot.bot_lt_coe _

/-! ## `Spec.cmp` -/

theorem cmp_range (x y : Val) :
    Spec.cmp x y = -2 ∨ Spec.cmp x y = -1 ∨ Spec.cmp x y = 0 ∨ Spec.cmp x y = 1 := by
  cases x with
  | nan n p => left; exact CmpPf.cmp_nan_left n p y
  | inf n =>
    cases y with
    | nan n' p' => left; rfl
    | inf n' => cases n <;> cases n' <;> simp [CmpPf.cmp_inf_inf]
    | fin n' c' e' => cases n <;> simp [CmpPf.cmp_inf_fin]
  | fin n c e =>
    cases y with
    | nan n' p' => left; rfl
    | inf n' => cases n' <;> simp [CmpPf.cmp_fin_inf]
    | fin n' c' e' => rw [CmpPf.spec_cmp_fin_rat]; split_ifs <;> simp

/-- the "unordered" code −2 is returned exactly when an operand is NaN -/
theorem cmp_eq_unordered_iff (x y : Val) :
    Spec.cmp x y = -2 ↔ (x.isNaN = true ∨ y.isNaN = true) := by
  cases x with
  | nan n p => simp [CmpPf.cmp_nan_left, Val.isNaN]
  | inf n =>
    cases y with
    | nan n' p' => simp [CmpPf.cmp_nan_right, Val.isNaN]
    | inf n' => cases n <;> cases n' <;> simp [CmpPf.cmp_inf_inf, Val.isNaN]
    | fin n' c' e' => cases n <;> simp [CmpPf.cmp_inf_fin, Val.isNaN]
  | fin n c e =>
    cases y with
    | nan n' p' => simp [CmpPf.cmp_nan_right, Val.isNaN]
    | inf n' => cases n' <;> simp [CmpPf.cmp_fin_inf, Val.isNaN]
    | fin n' c' e' =>
      rw [CmpPf.spec_cmp_fin_rat]; simp only [Val.isNaN]; split_ifs <;> simp

/-- finite operands: the three-way comparison of the denoted rationals -/
theorem cmp_fin_fin (n n' : Bool) (c c' : Nat) (e e' : Int) :
    Spec.cmp (.fin n c e) (.fin n' c' e') =
      match compare (Val.fin n c e).toRat (Val.fin n' c' e').toRat with
      | .lt => -1 | .eq => 0 | .gt => 1 := by
  rw [CmpPf.spec_cmp_fin_rat]
  generalize (Val.fin n c e).toRat = X
  generalize (Val.fin n' c' e').toRat = Y
  rcases lt_trichotomy X Y with h | h | h
  · rw [if_pos h, compare_lt_iff_lt.2 h]
  · subst h; simp
  · rw [if_neg (not_lt.2 h.le), if_neg (ne_of_gt h), compare_gt_iff_gt.2 h]

/-- for non-NaN operands, `Spec.cmp` is the three-way comparison of the denoted extended rationals
    (±Inf the extremes), with `Ordering` read as −1/0/1 -/
theorem cmp_trichotomy (x y : Val) (hx : x.isNaN = false) (hy : y.isNaN = false) :
    (Spec.cmp x y = -1 ∧ ext x < ext y) ∨ (Spec.cmp x y = 0 ∧ ext x = ext y) ∨
    (Spec.cmp x y = 1 ∧ ext y < ext x) := by
  cases x with
  | nan n p => simp [Val.isNaN] at hx
  | inf n =>
    cases y with
    | nan n' p' => simp [Val.isNaN] at hy
    | inf n' =>
      cases n <;> cases n' <;> simp [CmpPf.cmp_inf_inf]
    | fin n' c' e' =>
      cases n
      · exact Or.inr (Or.inr ⟨by simp [CmpPf.cmp_inf_fin], fin_lt_top _⟩)
      · exact Or.inl ⟨by simp [CmpPf.cmp_inf_fin], bot_lt_fin _⟩
  | fin n c e =>
    cases y with
    | nan n' p' => simp [Val.isNaN] at hy
    | inf n' =>
      cases n'
      · exact Or.inl ⟨by simp [CmpPf.cmp_fin_inf], fin_lt_top _⟩
      · exact Or.inr (Or.inr ⟨by simp [CmpPf.cmp_fin_inf], bot_lt_fin _⟩)
    | fin n' c' e' =>
      rw [CmpPf.spec_cmp_fin_rat]
      simp only [ext_fin, ext_lt_fin, ext_eq_fin]
      generalize (Val.fin n c e).toRat = X
      generalize (Val.fin n' c' e').toRat = Y
      rcases lt_trichotomy X Y with h | h | h
      · left; exact ⟨if_pos h, h⟩
      · right; left; subst h; simp
      · right; right; exact ⟨by rw [if_neg (not_lt.2 h.le), if_neg (ne_of_gt h)], h⟩

theorem cmp_lt_iff (x y : Val) (hx : x.isNaN = false) (hy : y.isNaN = false) :
    Spec.cmp x y = -1 ↔ ext x < ext y := by
  rcases cmp_trichotomy x y hx hy with ⟨h1, h2⟩ | ⟨h1, h2⟩ | ⟨h1, h2⟩
  · simp [h1, h2]
  · simp [h1, h2]
  · simp [h1, not_lt_of_gt h2]

theorem cmp_eq_iff (x y : Val) (hx : x.isNaN = false) (hy : y.isNaN = false) :
    Spec.cmp x y = 0 ↔ ext x = ext y := by
  rcases cmp_trichotomy x y hx hy with ⟨h1, h2⟩ | ⟨h1, h2⟩ | ⟨h1, h2⟩
  · simp [h1, ne_of_lt h2]
  · simp [h1, h2]
  · simp [h1, ne_of_gt h2]

theorem cmp_gt_iff (x y : Val) (hx : x.isNaN = false) (hy : y.isNaN = false) :
    Spec.cmp x y = 1 ↔ ext y < ext x := by
  rcases cmp_trichotomy x y hx hy with ⟨h1, h2⟩ | ⟨h1, h2⟩ | ⟨h1, h2⟩
  · simp [h1, not_lt_of_gt h2]
  · simp [h1, h2]
  · simp [h1, h2]

/-- `Ordering` read as −1/0/1 -/
def ordInt : Ordering → Int | .lt => -1 | .eq => 0 | .gt => 1

theorem cmp_eq_compare (x y : Val) (hx : x.isNaN = false) (hy : y.isNaN = false) :
    Spec.cmp x y = ordInt (compare (ext x) (ext y)) := by
  rcases cmp_trichotomy x y hx hy with ⟨h1, h2⟩ | ⟨h1, h2⟩ | ⟨h1, h2⟩
  · rw [h1, compare_lt_iff_lt.2 h2]; rfl
  · rw [h1, compare_eq_iff_eq.2 h2]; rfl
  · rw [h1, compare_gt_iff_gt.2 h2]; rfl

/-- −0 and +0 compare equal, whatever their exponents -/
theorem cmp_neg_zero (n n' : Bool) (e e' : Int) : Spec.cmp (.fin n 0 e) (.fin n' 0 e') = 0 := by
  rw [cmp_eq_iff _ _ rfl rfl, ext_eq_iff_fin]
  cases n <;> cases n' <;> simp [Val.toRat, Spec.mag]

example : Spec.cmp (.fin true 0 (-3)) (.fin false 0 5) = 0 := cmp_neg_zero _ _ _ _
example : Spec.cmp (.fin false 10 (-1)) (.fin false 1 0) = 0 := by decide
example : Spec.cmp (.inf true) (.fin true 7 6111) = -1 := by decide

/-! ## `Spec.equal`, `Spec.cmpAbs` -/

theorem equal_iff (x y : Val) :
    Spec.equal x y = true ↔ (x.isNaN = false ∧ y.isNaN = false ∧ ext x = ext y) := by
  unfold Spec.equal
  rw [beq_iff_eq]
  by_cases hx : x.isNaN = true
  · have : Spec.cmp x y = -2 := (cmp_eq_unordered_iff x y).2 (Or.inl hx)
    simp [this, hx]
  by_cases hy : y.isNaN = true
  · have : Spec.cmp x y = -2 := (cmp_eq_unordered_iff x y).2 (Or.inr hy)
    simp [this, hy]
  simp only [Bool.not_eq_true] at hx hy
  rw [cmp_eq_iff x y hx hy]; simp [hx, hy]

/-- finite operands are `equal` exactly when they denote the same rational -/
theorem equal_fin_iff (n n' : Bool) (c c' : Nat) (e e' : Int) :
    Spec.equal (.fin n c e) (.fin n' c' e') = true ↔
      (Val.fin n c e).toRat = (Val.fin n' c' e').toRat := by
  rw [equal_iff, ext_eq_iff_fin]; simp [Val.isNaN]

example : Spec.equal (.fin false 100 (-2)) (.fin false 1 0) = true := by decide
example : Spec.equal (.nan false 0) (.nan false 0) = false := by decide

theorem isNaN_absVal (x : Val) : (Spec.absVal x).isNaN = x.isNaN := by cases x <;> rfl

theorem toRat_absVal (x : Val) : (Spec.absVal x).toRat = |x.toRat| := by
  cases x with
  | nan n p => simp [Spec.absVal, Val.toRat]
  | inf n => simp [Spec.absVal, Val.toRat]
  | fin n c e =>
    have h : 0 ≤ Spec.mag c e := mul_nonneg (Nat.cast_nonneg _) (CmpPf.pow10_pos e).le
    cases n
    · simp [Spec.absVal, Val.toRat, abs_of_nonneg h]
    · simp [Spec.absVal, Val.toRat, abs_of_nonneg h]

/-- the denotation of `absVal x`: `|x|`, with both infinities going to `+Inf` -/
theorem ext_absVal (x : Val) (hx : x.isNaN = false) :
    ext (Spec.absVal x) =
      match x with
      | .inf _ => ((⊤ : WithTop ℚ) : WithBot (WithTop ℚ))
      | v => (((|v.toRat| : ℚ) : WithTop ℚ) : WithBot (WithTop ℚ)) := by
  cases x with
  | nan n p => simp [Val.isNaN] at hx
  | inf n => rfl
  | fin n c e =>
    have := toRat_absVal (.fin n c e)
    simp only [Spec.absVal] at this
    simp only [Spec.absVal, ext_fin, this]

/-- `cmpAbs` is `cmp` on the absolute values (definition), whose denotations are `|x|`, `|y|` -/
theorem cmpAbs_eq (x y : Val) : Spec.cmpAbs x y = Spec.cmp (Spec.absVal x) (Spec.absVal y) := rfl

theorem cmpAbs_fin_fin (n n' : Bool) (c c' : Nat) (e e' : Int) :
    Spec.cmpAbs (.fin n c e) (.fin n' c' e') =
      ordInt (compare |(Val.fin n c e).toRat| |(Val.fin n' c' e').toRat|) := by
  have h1 := toRat_absVal (.fin n c e)
  have h2 := toRat_absVal (.fin n' c' e')
  simp only [Spec.absVal] at h1 h2
  rw [cmpAbs_eq]
  simp only [Spec.absVal]
  rw [cmp_fin_fin, h1, h2]
  cases compare |(Val.fin n c e).toRat| |(Val.fin n' c' e').toRat| <;> rfl

example : Spec.cmpAbs (.fin true 5 0) (.fin false 3 0) = 1 := by decide

/-! ## `Spec.compare`: the total preorder with NaN first -/

/-- denotation with NaN below everything -/
def extN (x : Val) : WithBot (WithBot (WithTop ℚ)) :=
  if x.isNaN then ⊥ else ((ext x : WithBot (WithTop ℚ)) : WithBot (WithBot (WithTop ℚ)))

theorem extN_nan (n : Bool) (p : UInt64) : extN (.nan n p) = ⊥ := rfl
theorem extN_of_not_nan (x : Val) (hx : x.isNaN = false) :
    extN x = ((ext x : WithBot (WithTop ℚ)) : WithBot (WithBot (WithTop ℚ))) := by
  simp [extN, hx]

theorem compare_trichotomy (x y : Val) :
    (Spec.compare x y = -1 ∧ extN x < extN y) ∨ (Spec.compare x y = 0 ∧ extN x = extN y) ∨
    (Spec.compare x y = 1 ∧ extN y < extN x) := by
  by_cases hx : x.isNaN = true
  · by_cases hy : y.isNaN = true
    · right; left
      simp [Spec.compare, hx, hy, extN]
    · simp only [Bool.not_eq_true] at hy
      left
      refine ⟨by simp [Spec.compare, hx, hy], ?_⟩
      rw [extN_of_not_nan y hy]; simp only [extN, hx, if_true]; exact WithBot.bot_lt_coe _
  · simp only [Bool.not_eq_true] at hx
    by_cases hy : y.isNaN = true
    · right; right
      refine ⟨by simp [Spec.compare, hx, hy], ?_⟩
      rw [extN_of_not_nan x hx]; simp only [extN, hy, if_true]; exact WithBot.bot_lt_coe _
    · simp only [Bool.not_eq_true] at hy
      have hc : Spec.compare x y = Spec.cmp x y := by simp [Spec.compare, hx, hy]
      rw [hc, extN_of_not_nan x hx, extN_of_not_nan y hy]
      simp only [WithBot.coe_lt_coe, WithBot.coe_inj]
      exact cmp_trichotomy x y hx hy

theorem compare_range (x y : Val) :
    Spec.compare x y = -1 ∨ Spec.compare x y = 0 ∨ Spec.compare x y = 1 := by
  rcases compare_trichotomy x y with ⟨h, -⟩ | ⟨h, -⟩ | ⟨h, -⟩ <;> simp [h]

theorem compare_lt_iff (x y : Val) : Spec.compare x y = -1 ↔ extN x < extN y := by
  rcases compare_trichotomy x y with ⟨h1, h2⟩ | ⟨h1, h2⟩ | ⟨h1, h2⟩
  · simp [h1, h2]
  · simp [h1, h2]
  · simp [h1, not_lt_of_gt h2]

theorem compare_eq_iff (x y : Val) : Spec.compare x y = 0 ↔ extN x = extN y := by
  rcases compare_trichotomy x y with ⟨h1, h2⟩ | ⟨h1, h2⟩ | ⟨h1, h2⟩
  · simp [h1, ne_of_lt h2]
  · simp [h1, h2]
  · simp [h1, ne_of_gt h2]

theorem compare_gt_iff (x y : Val) : Spec.compare x y = 1 ↔ extN y < extN x := by
  rcases compare_trichotomy x y with ⟨h1, h2⟩ | ⟨h1, h2⟩ | ⟨h1, h2⟩
  · simp [h1, not_lt_of_gt h2]
  · simp [h1, h2]
  · simp [h1, h2]

/-- `Spec.compare` is the three-way comparison of `extN` (a linear order), read as −1/0/1 -/
theorem compare_eq_compare (x y : Val) : Spec.compare x y = ordInt (compare (extN x) (extN y)) := by
  rcases compare_trichotomy x y with ⟨h1, h2⟩ | ⟨h1, h2⟩ | ⟨h1, h2⟩
  · rw [h1, compare_lt_iff_lt.2 h2]; rfl
  · rw [h1, compare_eq_iff_eq.2 h2]; rfl
  · rw [h1, compare_gt_iff_gt.2 h2]; rfl

/-- consequences: antisymmetry, totality, transitivity of "`compare x y ≤ 0`" -/
theorem compare_le_iff (x y : Val) : Spec.compare x y ≤ 0 ↔ extN x ≤ extN y := by
  rcases compare_trichotomy x y with ⟨h1, h2⟩ | ⟨h1, h2⟩ | ⟨h1, h2⟩
  · simp [h1, h2.le]
  · simp [h1, h2]
  · simp [h1, not_le_of_gt h2]

theorem compare_antisymm (x y : Val) : Spec.compare y x = -Spec.compare x y := by
  rcases compare_trichotomy x y with ⟨h1, h2⟩ | ⟨h1, h2⟩ | ⟨h1, h2⟩
  · rw [h1, (compare_gt_iff y x).2 h2]; rfl
  · rw [h1, (compare_eq_iff y x).2 h2.symm]; rfl
  · rw [h1, (compare_lt_iff y x).2 h2]

theorem compare_le_total (x y : Val) : Spec.compare x y ≤ 0 ∨ Spec.compare y x ≤ 0 := by
  rw [compare_le_iff, compare_le_iff]; exact le_total _ _

theorem compare_trans (x y z : Val) (h1 : Spec.compare x y ≤ 0) (h2 : Spec.compare y z ≤ 0) :
    Spec.compare x z ≤ 0 := by
  rw [compare_le_iff] at *; exact le_trans h1 h2

/-- all NaNs are equivalent under `compare` and strictly below everything else -/
theorem compare_nan_lt (n : Bool) (p : UInt64) (y : Val) (hy : y.isNaN = false) :
    Spec.compare (.nan n p) y = -1 := by
  cases y with
  | nan n' p' => simp [Val.isNaN] at hy
  | inf n' => rfl
  | fin n' c' e' => rfl

/-- `compare` does NOT separate −0 from +0 (only `minVal`/`maxVal` do, see `ordKey`): it is a total
    preorder whose equivalence classes are "all NaNs" and "same numerical value" -/
theorem compare_neg_zero (n n' : Bool) (e e' : Int) :
    Spec.compare (.fin n 0 e) (.fin n' 0 e') = 0 := by
  have : Spec.compare (.fin n 0 e) (.fin n' 0 e') = Spec.cmp (.fin n 0 e) (.fin n' 0 e') := rfl
  rw [this, cmp_neg_zero]

example : Spec.compare (.nan true 7) (.inf true) = -1 := by decide
example : Spec.compare (.fin true 0 0) (.fin false 0 3) = 0 := by decide

/-! ## `Spec.minVal`, `Spec.maxVal` -/

theorem minVal_nan_left (n : Bool) (p : UInt64) (y : Val) : Spec.minVal (.nan n p) y = .nan n p := by
  cases y <;> rfl
theorem minVal_nan_right (x : Val) (hx : x.isNaN = false) (n : Bool) (p : UInt64) :
    Spec.minVal x (.nan n p) = .nan n p := by
  cases x with
  | nan n p => simp [Val.isNaN] at hx
  | inf n => rfl
  | fin n c e => rfl
theorem maxVal_nan_left (n : Bool) (p : UInt64) (y : Val) : Spec.maxVal (.nan n p) y = .nan n p := by
  cases y <;> rfl
theorem maxVal_nan_right (x : Val) (hx : x.isNaN = false) (n : Bool) (p : UInt64) :
    Spec.maxVal x (.nan n p) = .nan n p := by
  cases x with
  | nan n p => simp [Val.isNaN] at hx
  | inf n => rfl
  | fin n c e => rfl

theorem minVal_of_not_nan (x y : Val) (hx : x.isNaN = false) (hy : y.isNaN = false) :
    Spec.minVal x y =
      if x.isZero && y.isZero then .fin (x.neg || y.neg) 0 0
      else if Spec.cmp y x == -1 then y else x := by
  cases x <;> cases y <;> simp [Val.isNaN] at hx hy <;> rfl

theorem maxVal_of_not_nan (x y : Val) (hx : x.isNaN = false) (hy : y.isNaN = false) :
    Spec.maxVal x y =
      if x.isZero && y.isZero then .fin (x.neg && y.neg) 0 0
      else if Spec.cmp y x == 1 then y else x := by
  cases x <;> cases y <;> simp [Val.isNaN] at hx hy <;> rfl

theorem isZero_iff (x : Val) : Spec.isZero x = true ↔ (x.isFin = true ∧ x.toRat = 0) := by
  cases x with
  | nan n p => simp [Spec.isZero, Val.isFin]
  | inf n => simp [Spec.isZero, Val.isFin]
  | fin n c e =>
    have hp := CmpPf.pow10_pos e
    cases c with
    | zero => simp [Spec.isZero, Val.isFin, Val.toRat, Spec.mag]
    | succ k =>
      have : (0 : ℚ) < Spec.mag (k + 1) e := mul_pos (by positivity) hp
      cases n <;> simp [Spec.isZero, Val.isFin, Val.toRat, this.ne']

theorem Val_isZero_eq (x : Val) : x.isZero = Spec.isZero x := by
  cases x with
  | nan n p => rfl
  | inf n => rfl
  | fin n c e => cases c <;> rfl

theorem ext_zero (x : Val) (h : x.isZero = true) : ext x = (((0 : ℚ) : WithTop ℚ) : WithBot (WithTop ℚ)) := by
  rw [Val_isZero_eq, isZero_iff] at h
  cases x with
  | nan n p => simp [Val.isFin] at h
  | inf n => simp [Val.isFin] at h
  | fin n c e => rw [ext_fin, h.2]

/-- non-NaN operands: `minVal` denotes the minimum of the two denotations -/
theorem ext_minVal (x y : Val) (hx : x.isNaN = false) (hy : y.isNaN = false) :
    ext (Spec.minVal x y) = min (ext x) (ext y) := by
  rw [minVal_of_not_nan x y hx hy]
  by_cases hz : (x.isZero && y.isZero) = true
  · rw [if_pos hz]
    simp only [Bool.and_eq_true] at hz
    rw [ext_zero x hz.1, ext_zero y hz.2, min_self]
    simp [Val.toRat, Spec.mag]
  · rw [if_neg hz]
    by_cases hc : Spec.cmp y x = -1
    · rw [if_pos (by simpa using hc)]
      rw [cmp_lt_iff y x hy hx] at hc
      rw [min_eq_right hc.le]
    · rw [if_neg (by simpa using hc)]
      rw [cmp_lt_iff y x hy hx, not_lt] at hc
      rw [min_eq_left hc]

/-- non-NaN operands: `maxVal` denotes the maximum of the two denotations -/
theorem ext_maxVal (x y : Val) (hx : x.isNaN = false) (hy : y.isNaN = false) :
    ext (Spec.maxVal x y) = max (ext x) (ext y) := by
  rw [maxVal_of_not_nan x y hx hy]
  by_cases hz : (x.isZero && y.isZero) = true
  · rw [if_pos hz]
    simp only [Bool.and_eq_true] at hz
    rw [ext_zero x hz.1, ext_zero y hz.2, max_self]
    simp [Val.toRat, Spec.mag]
  · rw [if_neg hz]
    by_cases hc : Spec.cmp y x = 1
    · rw [if_pos (by simpa using hc)]
      rw [cmp_gt_iff y x hy hx] at hc
      rw [max_eq_right hc.le]
    · rw [if_neg (by simpa using hc)]
      rw [cmp_gt_iff y x hy hx, not_lt] at hc
      rw [max_eq_left hc]

theorem minVal_isNaN (x y : Val) : (Spec.minVal x y).isNaN = (x.isNaN || y.isNaN) := by
  by_cases hx : x.isNaN = true
  · cases x with
    | nan n p => rw [minVal_nan_left]; rfl
    | inf n => simp [Val.isNaN] at hx
    | fin n c e => simp [Val.isNaN] at hx
  · simp only [Bool.not_eq_true] at hx
    by_cases hy : y.isNaN = true
    · cases y with
      | nan n p => rw [minVal_nan_right x hx]; simp [Val.isNaN]
      | inf n => simp [Val.isNaN] at hy
      | fin n c e => simp [Val.isNaN] at hy
    · simp only [Bool.not_eq_true] at hy
      rw [minVal_of_not_nan x y hx hy, hx, hy]
      split_ifs <;> first | simpa using hy | simpa using hx | simp [Val.isNaN]

theorem maxVal_isNaN (x y : Val) : (Spec.maxVal x y).isNaN = (x.isNaN || y.isNaN) := by
  by_cases hx : x.isNaN = true
  · cases x with
    | nan n p => rw [maxVal_nan_left]; rfl
    | inf n => simp [Val.isNaN] at hx
    | fin n c e => simp [Val.isNaN] at hx
  · simp only [Bool.not_eq_true] at hx
    by_cases hy : y.isNaN = true
    · cases y with
      | nan n p => rw [maxVal_nan_right x hx]; simp [Val.isNaN]
      | inf n => simp [Val.isNaN] at hy
      | fin n c e => simp [Val.isNaN] at hy
    · simp only [Bool.not_eq_true] at hy
      rw [maxVal_of_not_nan x y hx hy, hx, hy]
      split_ifs <;> first | simpa using hy | simpa using hx | simp [Val.isNaN]

theorem same_refl (x : Val) : x.same x = true := by
  cases x <;> simp [Val.same]

theorem same_zero (x : Val) (h : x.isZero = true) (b : Bool) (hb : b = x.neg) :
    (Val.fin b 0 0).same x = true := by
  cases x with
  | nan n p => simp [Val.isZero] at h
  | inf n => simp [Val.isZero] at h
  | fin n c e =>
    cases c with
    | zero => subst hb; simp [Val.same, Spec.mag]
    | succ k => simp [Val.isZero] at h

/-- the result of `minVal` is one of the operands up to encoding (also for NaN operands) -/
theorem minVal_same (x y : Val) :
    (Spec.minVal x y).same x = true ∨ (Spec.minVal x y).same y = true := by
  by_cases hx : x.isNaN = true
  · cases x with
    | nan n p => left; rw [minVal_nan_left]; exact same_refl _
    | inf n => simp [Val.isNaN] at hx
    | fin n c e => simp [Val.isNaN] at hx
  · simp only [Bool.not_eq_true] at hx
    by_cases hy : y.isNaN = true
    · cases y with
      | nan n p => right; rw [minVal_nan_right x hx]; exact same_refl _
      | inf n => simp [Val.isNaN] at hy
      | fin n c e => simp [Val.isNaN] at hy
    · simp only [Bool.not_eq_true] at hy
      rw [minVal_of_not_nan x y hx hy]
      by_cases hz : (x.isZero && y.isZero) = true
      · rw [if_pos hz]
        simp only [Bool.and_eq_true] at hz
        cases hxn : x.neg
        · cases hyn : y.neg
          · left; exact same_zero x hz.1 _ (by simp [hxn])
          · right; exact same_zero y hz.2 _ (by simp [hyn])
        · left; exact same_zero x hz.1 _ (by simp [hxn])
      · rw [if_neg hz]
        split_ifs
        · right; exact same_refl _
        · left; exact same_refl _

theorem maxVal_same (x y : Val) :
    (Spec.maxVal x y).same x = true ∨ (Spec.maxVal x y).same y = true := by
  by_cases hx : x.isNaN = true
  · cases x with
    | nan n p => left; rw [maxVal_nan_left]; exact same_refl _
    | inf n => simp [Val.isNaN] at hx
    | fin n c e => simp [Val.isNaN] at hx
  · simp only [Bool.not_eq_true] at hx
    by_cases hy : y.isNaN = true
    · cases y with
      | nan n p => right; rw [maxVal_nan_right x hx]; exact same_refl _
      | inf n => simp [Val.isNaN] at hy
      | fin n c e => simp [Val.isNaN] at hy
    · simp only [Bool.not_eq_true] at hy
      rw [maxVal_of_not_nan x y hx hy]
      by_cases hz : (x.isZero && y.isZero) = true
      · rw [if_pos hz]
        simp only [Bool.and_eq_true] at hz
        cases hxn : x.neg
        · left; exact same_zero x hz.1 _ (by simp [hxn])
        · cases hyn : y.neg
          · right; exact same_zero y hz.2 _ (by simp [hyn])
          · left; exact same_zero x hz.1 _ (by simp [hxn])
      · rw [if_neg hz]
        split_ifs
        · right; exact same_refl _
        · left; exact same_refl _

example : Spec.minVal (.fin false 0 0) (.fin true 0 5) = .fin true 0 0 := by decide
example : Spec.maxVal (.fin false 0 0) (.fin true 0 5) = .fin false 0 0 := by decide
example : Spec.minVal (.fin false 3 0) (.inf true) = .inf true := by decide

/-! ## Min/Max with −0 ordered below +0 -/

/-- the denotation refined by the sign of a zero: −0 sits immediately below +0; every other value has
    second component `true`.  Lexicographic order. -/
def ordKey (x : Val) : (WithBot (WithTop ℚ)) ×ₗ Bool := toLex (ext x, !(x.isZero && x.neg))

theorem eq_min_of {α : Type} [LinearOrder α] {m a b : α} (h1 : a ≤ b → m = a) (h2 : b < a → m = b) :
    m = min a b := by
  rcases le_or_gt a b with h | h
  · rw [min_eq_left h]; exact h1 h
  · rw [min_eq_right h.le]; exact h2 h

theorem eq_max_of {α : Type} [LinearOrder α] {m a b : α} (h1 : b ≤ a → m = a) (h2 : a < b → m = b) :
    m = max a b := by
  rcases le_or_gt b a with h | h
  · rw [max_eq_left h]; exact h1 h
  · rw [max_eq_right h.le]; exact h2 h

theorem ordKey_zero (b : Bool) : ordKey (.fin b 0 0) =
    toLex ((((0 : ℚ) : WithTop ℚ) : WithBot (WithTop ℚ)), !b) := by
  cases b <;> simp [ordKey, Val.isZero, Val.neg, Val.toRat, Spec.mag]

theorem ordKey_of_zero (x : Val) (h : x.isZero = true) : ordKey x =
    toLex ((((0 : ℚ) : WithTop ℚ) : WithBot (WithTop ℚ)), !x.neg) := by
  simp [ordKey, ext_zero x h, h]

theorem ordKey_of_not_zero (x : Val) (h : x.isZero = false) : ordKey x = toLex (ext x, true) := by
  simp [ordKey, h]

/-- a non-NaN value whose denotation is that of a zero is a zero -/
theorem isZero_of_ext_eq (x y : Val) (hx : x.isNaN = false) (hy : y.isZero = true)
    (h : ext x = ext y) : x.isZero = true := by
  rw [ext_zero y hy] at h
  cases x with
  | nan n p => simp [Val.isNaN] at hx
  | inf n =>
    cases n
    · exact absurd h (fin_lt_top 0).ne'
    · exact absurd h (bot_lt_fin 0).ne
  | fin n c e =>
    rw [ext_fin, ext_eq_fin] at h
    rw [Val_isZero_eq, isZero_iff]; exact ⟨rfl, h⟩

/-- non-NaN operands: `minVal` is the minimum for the order in which −0 precedes +0 -/
theorem ordKey_minVal (x y : Val) (hx : x.isNaN = false) (hy : y.isNaN = false) :
    ordKey (Spec.minVal x y) = min (ordKey x) (ordKey y) := by
  rw [minVal_of_not_nan x y hx hy]
  by_cases hz : (x.isZero && y.isZero) = true
  · rw [if_pos hz]
    simp only [Bool.and_eq_true] at hz
    rw [ordKey_zero, ordKey_of_zero x hz.1, ordKey_of_zero y hz.2]
    apply eq_min_of
    · rw [Prod.Lex.toLex_le_toLex]; cases x.neg <;> cases y.neg <;> simp
    · rw [Prod.Lex.toLex_lt_toLex]; cases x.neg <;> cases y.neg <;> simp
  · rw [if_neg hz]
    by_cases hc : Spec.cmp y x = -1
    · rw [if_pos (by simpa using hc)]
      rw [cmp_lt_iff y x hy hx] at hc
      have : ordKey y < ordKey x := by
        unfold ordKey; rw [Prod.Lex.toLex_lt_toLex]; exact Or.inl hc
      rw [min_eq_right this.le]
    · rw [if_neg (by simpa using hc)]
      rw [cmp_lt_iff y x hy hx, not_lt] at hc
      have : ordKey x ≤ ordKey y := by
        rcases lt_or_eq_of_le hc with h | h
        · unfold ordKey; rw [Prod.Lex.toLex_le_toLex]; exact Or.inl h
        · have hxz : x.isZero = false := by
            by_contra hxz
            simp only [Bool.not_eq_false] at hxz
            exact hz (by simp [hxz, isZero_of_ext_eq y x hy hxz h.symm])
          have hyz : y.isZero = false := by
            by_contra hyz
            simp only [Bool.not_eq_false] at hyz
            rw [isZero_of_ext_eq x y hx hyz h] at hxz; cases hxz
          rw [ordKey_of_not_zero x hxz, ordKey_of_not_zero y hyz, h]
      rw [min_eq_left this]

/-- non-NaN operands: `maxVal` is the maximum for the order in which −0 precedes +0 -/
theorem ordKey_maxVal (x y : Val) (hx : x.isNaN = false) (hy : y.isNaN = false) :
    ordKey (Spec.maxVal x y) = max (ordKey x) (ordKey y) := by
  rw [maxVal_of_not_nan x y hx hy]
  by_cases hz : (x.isZero && y.isZero) = true
  · rw [if_pos hz]
    simp only [Bool.and_eq_true] at hz
    rw [ordKey_zero, ordKey_of_zero x hz.1, ordKey_of_zero y hz.2]
    apply eq_max_of
    · rw [Prod.Lex.toLex_le_toLex]; cases x.neg <;> cases y.neg <;> simp
    · rw [Prod.Lex.toLex_lt_toLex]; cases x.neg <;> cases y.neg <;> simp
  · rw [if_neg hz]
    by_cases hc : Spec.cmp y x = 1
    · rw [if_pos (by simpa using hc)]
      rw [cmp_gt_iff y x hy hx] at hc
      have : ordKey x < ordKey y := by
        unfold ordKey; rw [Prod.Lex.toLex_lt_toLex]; exact Or.inl hc
      rw [max_eq_right this.le]
    · rw [if_neg (by simpa using hc)]
      rw [cmp_gt_iff y x hy hx, not_lt] at hc
      have : ordKey y ≤ ordKey x := by
        rcases lt_or_eq_of_le hc with h | h
        · unfold ordKey; rw [Prod.Lex.toLex_le_toLex]; exact Or.inl h
        · have hxz : x.isZero = false := by
            by_contra hxz
            simp only [Bool.not_eq_false] at hxz
            exact hz (by simp [hxz, isZero_of_ext_eq y x hy hxz h])
          have hyz : y.isZero = false := by
            by_contra hyz
            simp only [Bool.not_eq_false] at hyz
            rw [isZero_of_ext_eq x y hx hyz h.symm] at hxz; cases hxz
          rw [ordKey_of_not_zero x hxz, ordKey_of_not_zero y hyz, h]
      rw [max_eq_left this]

/-- `ordKey` identifies exactly the values that are the same up to encoding (non-NaN):
    the refined order has no further identifications -/
theorem ordKey_eq_iff_same (x y : Val) (hx : x.isNaN = false) (hy : y.isNaN = false) :
    ordKey x = ordKey y ↔ x.same y = true := by
  unfold ordKey
  rw [toLex_inj, Prod.mk.injEq]
  cases x with
  | nan n p => simp [Val.isNaN] at hx
  | inf n =>
    cases y with
    | nan n' p' => simp [Val.isNaN] at hy
    | inf n' => cases n <;> cases n' <;> simp [Val.same, Val.isZero]
    | fin n' c' e' => cases n <;> simp [Val.same]
  | fin n c e =>
    cases y with
    | nan n' p' => simp [Val.isNaN] at hy
    | inf n' => cases n' <;> simp [Val.same]
    | fin n' c' e' =>
      rw [ext_eq_iff_fin]
      have hp := CmpPf.pow10_pos e
      have hp' := CmpPf.pow10_pos e'
      have hm : 0 ≤ Spec.mag c e := mul_nonneg (Nat.cast_nonneg _) hp.le
      have hm' : 0 ≤ Spec.mag c' e' := mul_nonneg (Nat.cast_nonneg _) hp'.le
      have hz : ∀ (c : Nat) (e : Int), Spec.mag c e = 0 ↔ c = 0 := by
        intro c e
        unfold Spec.mag
        rw [mul_eq_zero]
        simp [(CmpPf.pow10_pos e).ne']
      have hZ : ∀ (n : Bool) (c : Nat) (e : Int), (Val.fin n c e).isZero = decide (c = 0) := by
        intro n c e; cases c <;> simp [Val.isZero]
      simp only [Val.same, Bool.and_eq_true, beq_iff_eq, Val.toRat, hZ, Val.neg]
      constructor
      · rintro ⟨h1, h2⟩
        cases n <;> cases n' <;> simp only [Bool.false_eq_true, if_false, if_true] at h1
        · exact ⟨rfl, h1⟩
        · have h0 : Spec.mag c e = 0 := by linarith
          have h0' : Spec.mag c' e' = 0 := by linarith
          rw [hz] at h0 h0'; subst h0 h0'; simp at h2
        · have h0 : Spec.mag c e = 0 := by linarith
          have h0' : Spec.mag c' e' = 0 := by linarith
          rw [hz] at h0 h0'; subst h0 h0'; simp at h2
        · exact ⟨rfl, by linarith⟩
      · rintro ⟨rfl, h⟩
        refine ⟨by rw [h], ?_⟩
        have : c = 0 ↔ c' = 0 := by rw [← hz c e, ← hz c' e', h]
        by_cases h0 : c = 0
        · simp [h0, this.1 h0]
        · simp [h0, mt this.2 h0]

/-! ## `Spec.sign` -/

/-- `sign` is `none` exactly on NaN; otherwise the sign of the denoted extended rational -/
theorem sign_eq (x : Val) :
    Spec.sign x =
      if x.isNaN then none
      else some (if ext x < (((0 : ℚ) : WithTop ℚ) : WithBot (WithTop ℚ)) then -1
                 else if ext x = (((0 : ℚ) : WithTop ℚ) : WithBot (WithTop ℚ)) then 0 else 1) := by
  cases x with
  | nan n p => rfl
  | inf n =>
    cases n
    · have h1 : ¬ ((⊤ : WithTop ℚ) : WithBot (WithTop ℚ)) < (((0 : ℚ) : WithTop ℚ) : WithBot (WithTop ℚ)) :=
        not_lt.2 (fin_lt_top 0).le
      have h2 : ¬ ((⊤ : WithTop ℚ) : WithBot (WithTop ℚ)) = (((0 : ℚ) : WithTop ℚ) : WithBot (WithTop ℚ)) :=
        (fin_lt_top 0).ne'
      simp only [Spec.sign, Val.isNaN, ext_inf_pos, Bool.false_eq_true, if_false, h1, h2]
    · simp only [Spec.sign, Val.isNaN, ext_inf_neg, Bool.false_eq_true, if_false, if_true, bot_lt_fin]
  | fin n c e =>
    have hp := CmpPf.pow10_pos e
    simp only [Spec.sign, Val.isNaN, Bool.false_eq_true, if_false, ext_fin, ext_lt_fin, ext_eq_fin]
    cases c with
    | zero => cases n <;> simp [Val.toRat, Spec.mag]
    | succ k =>
      have hm : (0 : ℚ) < Spec.mag (k + 1) e := mul_pos (by positivity) hp
      cases n
      · simp [Val.toRat, not_lt.2 hm.le, hm.ne']
      · simp [Val.toRat, hm]

example : Spec.sign (.fin true 0 7) = some 0 := by decide
example : ordKey (Spec.minVal (.fin false 0 0) (.fin true 0 5)) = ordKey (.fin true 0 1) := by
  rw [ordKey_minVal _ _ rfl rfl, ordKey_of_zero _ rfl, ordKey_of_zero _ rfl, ordKey_of_zero _ rfl]
  decide

end SpecMeaning
