/-
  D128/Proofs/FloatFromMain.lean — `Gen.FromFloat64` on finite non-zero inputs, up to the last rounding.

  Provided (namespace `FF`):
  * `Hardish V`    : `V` is `M·2^S` (S ≥ 204) or `T/2^S` (S ≥ 61) — the inputs for which the scaling loops truncate
  * `core_spec`    : `FF.core rm neg mant exp` does not panic and returns `flushOrRoundS m neg a 0` for some `a`
      with `Close a V`, `V = mant·2^(exp-52)`, and `a = V` unless `Hardish V`
-/
import D128.Proofs.FloatFromSmallPath
import D128.Proofs.SpecRoundMain

set_option autoImplicit false
set_option maxRecDepth 8192
set_option exponentiation.threshold 2000

namespace FF
open Gen
local notation "𝔳[" d "]" => Spec.interp (Gen.Decimal.lo d) (Gen.Decimal.hi d)

/-- the magnitudes for which the scaling loops of `FromFloat64` may truncate -/
def Hardish (V : ℚ) : Prop :=
  (∃ M S : Nat, 2 ^ 52 ≤ M ∧ M < 2 ^ 53 ∧ 204 ≤ S ∧ S ≤ 971 ∧ V = (M : ℚ) * 2 ^ S) ∨
  (∃ T S : Nat, T % 2 = 1 ∧ T < 2 ^ 53 ∧ 61 ≤ S ∧ S ≤ 1074 ∧ V = (T : ℚ) / 2 ^ S)

/-- an integer `1 ≤ c ≤ Cmax` is returned unchanged by every mode -/
theorem flushOrRoundS_nat (m : Spec.Mode) (neg : Bool) (c : Nat) (h1 : 1 ≤ c) (h2 : c ≤ Spec.Cmax) :
    (Spec.Val.fin neg c 0).same (Spec.flushOrRoundS m neg (c : ℚ) 0) = true := by
  have hc : (1 : ℚ) ≤ c := by exact_mod_cast h1
  have e1 : Spec.flushOrRoundS m neg (c : ℚ) 0 = Spec.roundTo m neg (c : ℚ) := by
    have := SpecRound.flushOrRoundS_eq m neg (c : ℚ) (by linarith) 0
    rw [zpow_zero, mul_one] at this
    rw [this]
    apply SpecRound.flushOrRound_eq_roundTo
    calc (10 : ℚ) ^ (Spec.Emin - 1) ≤ 10 ^ (0 : Int) :=
          zpow_le_zpow_right₀ (by norm_num) (by unfold Spec.Emin; norm_num)
      _ = 1 := by simp
      _ ≤ c := hc
  obtain ⟨c', e', hr, hval, _, _, _⟩ := SpecRound.roundTo_exact m neg (c := c) (e := 0) h1 h2
    (by unfold Spec.Emin; norm_num) (by unfold Spec.Emax; norm_num)
  rw [zpow_zero, mul_one] at hr hval
  rw [e1, hr]
  simp only [Spec.Val.same, Spec.mag, BEq.rfl, Bool.true_and, beq_iff_eq]
  rw [SpecRound.pow10_eq_zpow, SpecRound.pow10_eq_zpow, hval]
  simp

theorem core_spec (rm : UInt8) (m : Spec.Mode) (hm : Spec.Mode.ofNat? rm.toNat = some m)
    (neg : Bool) (mant : UInt64) (exp : Int16) (hE0 : -1022 ≤ exp.toInt) (hE1 : exp.toInt ≤ 1023)
    (hm1 : 1 ≤ mant.toNat) (hm2 : mant.toNat < 2 ^ 53) (hnorm : 52 < exp.toInt → 2 ^ 52 ≤ mant.toNat) :
    ∃ r a, core rm neg mant exp = .ok r ∧
      (𝔳[r]).same (Spec.flushOrRoundS m neg a 0) = true ∧
      Close a ((mant.toNat : ℚ) * 2 ^ (exp.toInt - 52)) ∧
      (a = (mant.toNat : ℚ) * 2 ^ (exp.toInt - 52) ∨ Hardish ((mant.toNat : ℚ) * 2 ^ (exp.toInt - 52))) := by
  have h52 : (52 : Int16).toInt = 52 := by decide
  have hsub : ((52 : Int16) - exp).toInt = 52 - exp.toInt := by
    rw [Int16.toInt_sub_of] <;> rw [h52] <;> omega
  have hconv : (Go.conv ((52 : Int16) - exp) : Int64).toInt = 52 - exp.toInt := by
    show (Int64.ofInt ((52 : Int16) - exp).toInt).toInt = _
    rw [hsub, Int64.toInt_ofInt_of_le] <;> omega
  have hmpos : (0 : ℚ) < mant.toNat := by exact_mod_cast hm1
  unfold core
  by_cases h0 : exp.toInt = 52
  · rw [if_pos (by rw [i64_eq_zero, hconv]; simp; omega)]
    have hC : mant.toNat ≤ Spec.Cmax := by rw [RK.Cmax_val]; omega
    have hsig : ({ w0 := mant, w1 := 0 } : U128).toNat = mant.toNat := U128.toNat_mk_zero mant
    refine ⟨_, (mant.toNat : ℚ), rfl, ?_, ?_, Or.inl ?_⟩
    · rw [Sp.interp_compose neg _ 6176 (by rw [hsig]; exact hC) (by decide) (by decide), hsig]
      have : (6176 : Int16).toInt - 6176 = 0 := by decide
      rw [this]
      exact flushOrRoundS_nat m neg _ hm1 hC
    · rw [h0]; simp; exact close_refl hmpos
    · rw [h0]; simp
  · rw [if_neg (by rw [i64_eq_zero, hconv]; simp; omega)]
    by_cases hlt : 52 < exp.toInt
    · rw [if_pos (by rw [i64_lt, hconv]; simp; omega)]
      obtain ⟨S, hS⟩ : ∃ S : Nat, exp.toInt - 52 = S := ⟨(exp.toInt - 52).toNat, by omega⟩
      have hneg : ((Go.conv ((52 : Int16) - exp) : Int64) * -1).toInt = S := by
        have hm1' : (-1 : Int64).toInt = -1 := by decide
        rw [Int64.toInt_mul, hconv, hm1']
        rw [Int.bmod_eq_of_le] <;> omega
      obtain ⟨r, a, hr, hsame, hclose, hor⟩ := bigPath_spec rm m hm neg mant _ S hneg (by omega)
        (by omega) (hnorm hlt) hm2
      have hV : (mant.toNat : ℚ) * 2 ^ (exp.toInt - 52) = (mant.toNat : ℚ) * 2 ^ S := by
        rw [hS, zpow_natCast]
      rw [hV]
      refine ⟨r, a, hr, hsame, hclose, ?_⟩
      rcases hor with h | h
      · exact Or.inl h
      · exact Or.inr (Or.inl ⟨mant.toNat, S, hnorm hlt, hm2, h, by omega, rfl⟩)
    · rw [if_neg (by rw [i64_lt, hconv]; simp; omega)]
      obtain ⟨S, hS⟩ : ∃ S : Nat, 52 - exp.toInt = S := ⟨(52 - exp.toInt).toNat, by omega⟩
      obtain ⟨r, a, hr, hsame, hclose, hor⟩ := smallPath_spec rm m hm neg mant _ S
        (by rw [hconv, hS]) (by omega) hm1 hm2
      have hV : (mant.toNat : ℚ) * 2 ^ (exp.toInt - 52) = (mant.toNat : ℚ) / 2 ^ S := by
        have : exp.toInt - 52 = -(S : Int) := by omega
        rw [this, zpow_neg, zpow_natCast, div_eq_mul_inv]
      rw [hV]
      refine ⟨r, a, hr, hsame, hclose, ?_⟩
      rcases hor with h | ⟨T, S', h1, h2, h3, h4, h5⟩
      · exact Or.inl h
      · exact Or.inr (Or.inr ⟨T, S', h1, h2, h3, by omega, h5⟩)

end FF
