/-
  D128/Proofs/LogAccLog1p.lean — `Gen.Log1p`: staged form on its general path (finite, non-zero, `x > -1`).

  * `log1pBody g d neg`  : everything after the domain check: `l10 = ⌊log₁₀ c⌋ + e`;
        `l10 > -10` (|x| ≥ 10^-9): `1 ± |x|` by `add1` / `add1neg`, then `log`, then the finish stage;
        otherwise the 10-term series `decomposed192.log1p`, then the finish stage
  * `Log1p_eq_pos`       : `Signbit d = false` ⇒ `Gen.Log1p g d = log1pBody g d false`
  * `Log1p_eq_neg`       : `Signbit d = true`, `|x| < 1` ⇒ `Gen.Log1p g d = log1pBody g d true`
  * `big_pos`            : `x ≥ 10^-9`: `add1` (relative 10^-56), `log`, finish — within one unit of `ln(1+x)`
  * `big_neg`            : `-1 < x ≤ -10^-9`: `add1neg` is EXACT here (exponent ≥ -57), `log`, finish
  * `small_path`         : `|x| ≤ 10^-9`, exponent ≥ -3264: the series `decomposed192.log1p`, finish
-/
import D128.Proofs.LogAccTop
import D128.Proofs.SpecialsLog1p
import D128.Proofs.LogAccP1Real
import D128.Proofs.D192OneAddContract
import D128.Proofs.D192OneNegContract
set_option autoImplicit false
set_option maxRecDepth 4096
set_option linter.unusedVariables false
namespace LogAcc
open Gen D192 Root
local notation "𝔳[" d "]" => Spec.interp (Gen.Decimal.lo d) (Gen.Decimal.hi d)

/-- the finish stage applied to what `log` / `log1p` return -/
def fin3 (rm : UInt8) (r : Bool × decomposed192 × Int8) : Go.GoM Decimal :=
  Root.finishK rm r.1 r.2.1.sig (r.2.1.exp + 6176) r.2.2

/-- `Log1p` after the domain check -/
def log1pBody (g : Globals) (d : Decimal) (neg : Bool) : Go.GoM Decimal := do
  let t_4 ← U128.log10 d.decompose.1
  if decide ((Go.conv t_4 : Int16) + (d.decompose.2 - 6176) > -10) = true then
    (if neg = true then do
      let a ← decomposed192.add1neg (logArg d) 0
      let r ← decomposed192.log a.2.1
      fin3 g.DefaultRoundingMode r
    else do
      let a ← decomposed192.add1 (logArg d) 0
      let r ← decomposed192.log a.1
      fin3 g.DefaultRoundingMode r)
  else do
    let r ← decomposed192.log1p (logArg d) neg
    fin3 g.DefaultRoundingMode r

theorem Log1p_eq_pos (g : Globals) (d : Decimal) (h1 : Decimal.isSpecial d = false)
    (h2 : Decimal.IsZero d = false) (h3 : Decimal.Signbit d = false) :
    Gen.Log1p g d = log1pBody g d false := by
  unfold Gen.Log1p log1pBody fin3 Root.finishK logArg
  simp only [h1, h2, h3, if_false, Bool.false_eq_true]

theorem Log1p_eq_neg (g : Globals) (d : Decimal) (h1 : Decimal.isSpecial d = false)
    (h2 : Decimal.IsZero d = false) (h3 : Decimal.Signbit d = true)
    (he : Sp.ex d ≤ 0) (hlt : Sp.cf d < 10 ^ (-(Sp.ex d)).toNat) :
    Gen.Log1p g d = log1pBody g d true := by
  have hE := Sp.dExp_toInt d h1
  have h0 := Enc.decompose_exp_nonneg d
  have h1' := Enc.decompose_exp_le d h1
  unfold Gen.Log1p log1pBody fin3 Root.finishK logArg
  simp only [h1, h2, h3, if_false, if_true, Bool.false_eq_true]
  generalize hX : (Gen.Decimal.decompose d).2 - 6176 = X at hE ⊢
  have t1 : decide (X > 0) = false := by
    simp only [gt_iff_lt, Int16.lt_iff_toInt_lt, hE, decide_eq_false_iff_not]
    show ¬ (0 : Int16).toInt < Sp.ex d
    have : (0 : Int16).toInt = 0 := by decide
    rw [this]; omega
  simp only [t1, if_false, Bool.false_eq_true]
  by_cases c2 : -39 < Sp.ex d
  · have t2 : decide (X > -39) = true := by
      simp only [gt_iff_lt, Int16.lt_iff_toInt_lt, hE, decide_eq_true_eq]
      show (-39 : Int16).toInt < Sp.ex d
      have : (-39 : Int16).toInt = -39 := by decide
      rw [this]; exact c2
    have hidx : Go.idx (-X) = -(Sp.ex d) := by
      show (-X).toInt = _
      rw [Sp.i16_neg X (by rw [hE]; omega), hE]
    obtain ⟨t, ht, htn⟩ := uint128PowersOf10_vget (Go.idx (-X)) (by rw [hidx]; omega) (by rw [hidx]; omega)
    rw [hidx] at htn
    simp only [t2, if_true, ht, bind, Except.bind]
    have hcmp : U128.cmp d.decompose.1 t = -1 := by
      rw [U128_cmp_eq_neg_one_iff, htn]; exact hlt
    simp only [hcmp]
    have e3 : ((-1 : Int64) == 0) = false := by decide
    have e4 : decide ((-1 : Int64) > 0) = false := by decide
    simp only [e3, e4, if_false, Bool.false_eq_true]
  · have t2 : decide (X > -39) = false := by
      simp only [gt_iff_lt, Int16.lt_iff_toInt_lt, hE, decide_eq_false_iff_not]
      show ¬ (-39 : Int16).toInt < Sp.ex d
      have : (-39 : Int16).toInt = -39 := by decide
      rw [this]; exact c2
    simp only [t2, if_false, Bool.false_eq_true]

end LogAcc

namespace LogAcc
open Gen D192 Root
local notation "𝔳[" d "]" => Spec.interp (Gen.Decimal.lo d) (Gen.Decimal.hi d)

/-- path `x ≥ 10^-9`: `add1`, `log`, finish -/
theorem big_pos (rm : UInt8) (hrm : rm = 0 ∨ rm = 1) (a0 : decomposed192)
    (he : -6200 ≤ a0.exp.toInt ∧ a0.exp.toInt ≤ 6200) (hx9 : 1 / 10 ^ 9 ≤ ((val a0 : ℚ) : ℝ)) :
    ∃ r rc re, (decomposed192.add1 a0 0 >>= fun a => decomposed192.log a.1 >>= fin3 rm) = .ok r ∧
      𝔳[r] = .fin false rc re ∧ rc ≤ Spec.Cmax ∧ Spec.Emin ≤ re ∧ re ≤ Spec.Emax ∧
      |(rc : ℝ) * (10 : ℝ) ^ re - Real.log (1 + ((val a0 : ℚ) : ℝ))|
        ≤ (10 : ℝ) ^ (EnclPf.ulpExp (Real.log (1 + ((val a0 : ℚ) : ℝ)))) := by
  obtain ⟨a, ta, hadd, c1, c2, -, -, c5, c6, c7⟩ := add1_contract a0 0
  set x : ℝ := ((val a0 : ℚ) : ℝ) with hx
  set A : ℝ := ((val a : ℚ) : ℝ) with hA
  have c1R : A ≤ x + 1 := by
    have : ((val a : ℚ) : ℝ) ≤ ((val a0 + 1 : ℚ) : ℝ) := Rat.cast_le.mpr c1
    push_cast at this; exact this
  have c5R : 1 ≤ A := by
    have : ((1 : ℚ) : ℝ) ≤ ((val a : ℚ) : ℝ) := Rat.cast_le.mpr c5
    simpa using this
  have c6R : (x + 1 - A) * 10 ^ 56 ≤ A := by
    have : (((val a0 + 1 - val a) * (10 : ℚ) ^ 56 : ℚ) : ℝ) ≤ ((val a : ℚ) : ℝ) := Rat.cast_le.mpr c6
    push_cast at this; exact this
  have hasig : a.sig.toNat ≠ 0 := sig_ne_of_val_pos a (by linarith)
  have haexp : -16000 ≤ a.exp.toInt ∧ a.exp.toInt ≤ 16000 := by
    rcases c7 with ⟨h, _⟩ | h
    · rw [h]; omega
    · omega
  -- A ≥ 1 + 10^-10
  have hA10 : 1 + 1 / 10 ^ 10 ≤ A := by nlinarith
  obtain ⟨neg, y, t, hlog, ht, hye0, hye1, hneg, hclose, hT0, hT1⟩ :=
    log_rel_close a hasig haexp (Or.inl (by rw [← hA]; linarith [show (1 : ℝ) / 10 ^ 60 ≤ 1 / 10 ^ 10 by norm_num]))
  rw [← hA] at hneg hclose hT0 hT1
  have hnegf : neg = false := by rw [hneg]; simp; linarith
  have hApos : 0 < A := by linarith
  have hLa0 : 0 ≤ Real.log A := Real.log_nonneg c5R
  rw [abs_of_nonneg hLa0] at hclose hT0 hT1
  set T : ℝ := Real.log (1 + x) with hT
  have hx1 : 0 < 1 + x := by linarith
  have hTA : Real.log A ≤ T := Real.log_le_log hApos (by linarith)
  have hTA2 : T - Real.log A ≤ 1 / 10 ^ 56 := by
    have h1 := log_sub_le hx1 hApos
    have h2 : (1 + x - A) / A ≤ 1 / 10 ^ 56 := by
      rw [div_le_iff₀ hApos]; nlinarith
    linarith
  have hLa10 : 9 / 10 ^ 11 ≤ Real.log A := by
    refine log_ge A _ hApos ?_
    rw [le_sub_iff_add_le, ← le_sub_iff_add_le', div_le_iff₀ hApos]; nlinarith
  have hcloseT : |((val y : ℚ) : ℝ) - T| * (29 * 10 ^ 33) ≤ T := by
    have h1 : |((val y : ℚ) : ℝ) - T| ≤ |((val y : ℚ) : ℝ) - Real.log A| + (T - Real.log A) := by
      have e : ((val y : ℚ) : ℝ) - T = (((val y : ℚ) : ℝ) - Real.log A) - (T - Real.log A) := by ring
      rw [e]
      refine le_trans (abs_sub _ _) ?_
      rw [abs_of_nonneg (by linarith : 0 ≤ T - Real.log A)]
    have h2 : |((val y : ℚ) : ℝ) - Real.log A| ≤ Real.log A / (30 * 10 ^ 33) := by
      rw [le_div_iff₀ (by norm_num)]; exact hclose
    have h3 : Real.log A / (30 * 10 ^ 33) ≤ T / (30 * 10 ^ 33) := div_le_div_of_nonneg_right hTA (by norm_num)
    have h4 : (1 : ℝ) / 10 ^ 56 ≤ T / 10 ^ 40 := by
      rw [le_div_iff₀ (by positivity)]; nlinarith
    have h5 : |((val y : ℚ) : ℝ) - T| ≤ T / (30 * 10 ^ 33) + T / 10 ^ 40 := by linarith
    have hT0' : 0 ≤ T := by linarith
    calc |((val y : ℚ) : ℝ) - T| * (29 * 10 ^ 33)
        ≤ (T / (30 * 10 ^ 33) + T / 10 ^ 40) * (29 * 10 ^ 33) := mul_le_mul_of_nonneg_right h5 (by norm_num)
      _ = T * (29 / 30 + 29 / 10 ^ 7) := by ring
      _ ≤ T * 1 := mul_le_mul_of_nonneg_left (by norm_num) hT0'
      _ = T := mul_one _
  subst hnegf
  obtain ⟨r, rc, re, hr, hvr, hrc, hre0, hre1, hb⟩ :=
    finish_close rm false y t T hrm ht (by omega) (by omega)
      (by linarith [show (1 : ℝ) / 10 ^ 70 ≤ 9 / 10 ^ 11 by norm_num])
      (by linarith [show (10 : ℝ) ^ 5 + 1 / 10 ^ 56 ≤ 10 ^ 6 by norm_num]) hcloseT
  refine ⟨r, rc, re, ?_, hvr, hrc, hre0, hre1, hb⟩
  simp only [hadd, hlog, bind, Except.bind]
  exact hr

/-- path `-1 < x ≤ -10^-9`: `add1neg` (exact), `log`, finish -/
theorem big_neg (rm : UInt8) (hrm : rm = 0 ∨ rm = 1) (a0 : decomposed192)
    (he0 : -57 ≤ a0.exp.toInt) (he1 : a0.exp.toInt ≤ 0) (hx9 : 1 / 10 ^ 9 ≤ ((val a0 : ℚ) : ℝ))
    (hx1 : ((val a0 : ℚ) : ℝ) < 1) :
    ∃ r rc re, (decomposed192.add1neg a0 0 >>= fun a => decomposed192.log a.2.1 >>= fin3 rm) = .ok r ∧
      𝔳[r] = .fin true rc re ∧ rc ≤ Spec.Cmax ∧ Spec.Emin ≤ re ∧ re ≤ Spec.Emax ∧
      |(rc : ℝ) * (10 : ℝ) ^ re - (|Real.log (1 - ((val a0 : ℚ) : ℝ))|)|
        ≤ (10 : ℝ) ^ (EnclPf.ulpExp (|Real.log (1 - ((val a0 : ℚ) : ℝ))|)) := by
  have hxq9 : (1 : ℚ) / 10 ^ 9 ≤ val a0 := by
    have : (((1 : ℚ) / 10 ^ 9 : ℚ) : ℝ) ≤ ((val a0 : ℚ) : ℝ) := by push_cast; exact hx9
    exact_mod_cast this
  have hxq1 : val a0 < 1 := by exact_mod_cast hx1
  have hs : 0 < a0.sig.toNat := Nat.pos_of_ne_zero (sig_ne_of_val_pos a0 (by linarith [show (0 : ℚ) < 1 / 10 ^ 9 by norm_num]))
  obtain ⟨ng, a, ta, hadd, h⟩ := add1neg_down a0 0 hs (by omega) he1
  have hpe := pow_neg_cancel a0.exp.toInt he1
  have hpos : (0 : ℚ) < (10 : ℚ) ^ a0.exp.toInt := zpow_pos (by norm_num) _
  -- the exact branch
  have hex : ng = false ∧ val a = 1 - val a0 ∧ a.exp.toInt = a0.exp.toInt := by
    rcases h with ⟨-, -, -, -, hlt⟩ | ⟨k, hk1, hk2, hk3, hk4, hk5, hle, hgt⟩
    · exfalso
      have : (10 : ℚ) ^ (-57 : Int) < 1 / 10 ^ 9 := by rw [zpow_neg]; norm_num
      exact absurd (lt_trans hlt this) (not_lt.mpr hxq9)
    · have hk0 : k = 0 := by
        rcases hk4 with h | h
        · exact h
        · omega
      subst hk0
      simp only [pow_zero, Nat.div_one, Nat.mod_one, if_true] at hle hgt hk5
      have hexp : a.exp.toInt = a0.exp.toInt := by simpa using hk1
      have hsl : a0.sig.toNat ≤ 10 ^ (-a.exp.toInt).toNat := by
        rw [hexp]
        have : (a0.sig.toNat : ℚ) ≤ ((10 ^ (-a0.exp.toInt).toNat : Nat) : ℚ) := by
          push_cast
          by_contra hc
          rw [not_le] at hc
          have : (10 : ℚ) ^ (-a0.exp.toInt).toNat * (10 : ℚ) ^ a0.exp.toInt
              < (a0.sig.toNat : ℚ) * (10 : ℚ) ^ a0.exp.toInt := mul_lt_mul_of_pos_right hc hpos
          rw [mul_comm ((10 : ℚ) ^ (-a0.exp.toInt).toNat), hpe] at this
          unfold val at hxq1; linarith
        exact_mod_cast this
      obtain ⟨hn, hsig, -⟩ := hle hsl
      refine ⟨hn, ?_, hexp⟩
      unfold val
      rw [hsig, hexp, Nat.cast_sub (by rw [← hexp]; exact hsl)]
      push_cast
      rw [sub_mul, mul_comm ((10 : ℚ) ^ (-a0.exp.toInt).toNat), hpe]
  obtain ⟨hng, hva, hae⟩ := hex
  set x : ℝ := ((val a0 : ℚ) : ℝ) with hx
  have hvaR : ((val a : ℚ) : ℝ) = 1 - x := by rw [hva]; push_cast; rfl
  have hasig : a.sig.toNat ≠ 0 := sig_ne_of_val_pos a (by rw [hva]; linarith)
  obtain ⟨neg, y, t, hlog, ht, hye0, hye1, hneg, hclose, hT0, hT1⟩ :=
    log_rel_close a hasig (by omega)
      (Or.inr (by rw [hvaR]; linarith [show (1 : ℝ) / 10 ^ 21 ≤ 1 / 10 ^ 9 by norm_num]))
  rw [hvaR] at hneg hclose hT0 hT1
  have hnegt : neg = true := by rw [hneg]; simp; linarith [show (0 : ℝ) < 1 / 10 ^ 9 by norm_num]
  subst hnegt
  set T : ℝ := |Real.log (1 - x)| with hT
  have hcloseT : |((val y : ℚ) : ℝ) - T| * (29 * 10 ^ 33) ≤ T := by
    have h0 : 0 ≤ |((val y : ℚ) : ℝ) - T| := abs_nonneg _
    nlinarith
  obtain ⟨r, rc, re, hr, hvr, hrc, hre0, hre1, hb⟩ :=
    finish_close rm true y t T hrm ht (by omega) (by omega)
      (le_trans (by norm_num) hT0) (le_trans hT1 (by norm_num)) hcloseT
  refine ⟨r, rc, re, ?_, hvr, hrc, hre0, hre1, hb⟩
  subst hng
  simp only [hadd, hlog, bind, Except.bind]
  exact hr

end LogAcc

namespace LogAcc
open Gen D192 Root
local notation "𝔳[" d "]" => Spec.interp (Gen.Decimal.lo d) (Gen.Decimal.hi d)

/-- path `|x| < 10^-9`: the 10-term series, finish -/
theorem small_path (rm : UInt8) (hrm : rm = 0 ∨ rm = 1) (a0 : decomposed192) (neg : Bool)
    (hd : a0.sig.toNat ≠ 0) (hx : ((val a0 : ℚ) : ℝ) ≤ 1 / 10 ^ 9) (he0 : -3264 ≤ a0.exp.toInt) :
    ∃ r rc re, (decomposed192.log1p a0 neg >>= fin3 rm) = .ok r ∧
      𝔳[r] = .fin neg rc re ∧ rc ≤ Spec.Cmax ∧ Spec.Emin ≤ re ∧ re ≤ Spec.Emax ∧
      |(rc : ℝ) * (10 : ℝ) ^ re - logT neg ((val a0 : ℚ) : ℝ)|
        ≤ (10 : ℝ) ^ (EnclPf.ulpExp (logT neg ((val a0 : ℚ) : ℝ))) := by
  have hxq : val a0 ≤ 1 / 10 ^ 9 := by
    have : ((val a0 : ℚ) : ℝ) ≤ (((1 : ℚ) / 10 ^ 9 : ℚ) : ℝ) := by push_cast; exact hx
    exact_mod_cast this
  obtain ⟨y, t, hl, ht, hysig, hc1, hc2, hye0, hye1⟩ := log1p_real_strong a0 neg hd hxq he0
  set x : ℝ := ((val a0 : ℚ) : ℝ) with hxdef
  set T : ℝ := logT neg x with hT
  have hx0q : (0 : ℚ) < val a0 := val_pos_of_sig a0 hd
  have hx0 : 0 < x := by rw [hxdef]; exact_mod_cast hx0q
  obtain ⟨-, f2⟩ := logT_facts neg x hx0 hx
  have hTlo : x / 2 ≤ T := by nlinarith
  have hTpos : 0 < T := by linarith
  -- exponent of the argument
  have hexp_hi : a0.exp.toInt ≤ 0 := exp_hi_of_lt_ten a0 hd (by
    have : val a0 ≤ 1 / 10 ^ 9 := hxq
    linarith [show (1 : ℚ) / 10 ^ 9 < 10 by norm_num])
  -- lower bound of x
  have hxlow : (10 : ℝ) ^ (-3264 : ℤ) ≤ x := by
    have h1 : (1 : ℝ) ≤ (a0.sig.toNat : ℝ) := by exact_mod_cast Nat.pos_of_ne_zero hd
    have h2 : (10 : ℝ) ^ (-3264 : ℤ) ≤ (10 : ℝ) ^ a0.exp.toInt := zpow_le_zpow_right₀ (by norm_num) he0
    rw [hxdef, val_cast]
    have hp : (0 : ℝ) < (10 : ℝ) ^ a0.exp.toInt := zpow_pos (by norm_num) _
    nlinarith
  have hT0 : (10 : ℝ) ^ (-6000 : ℤ) ≤ T := by
    have h1 : (10 : ℝ) ^ (-6000 : ℤ) ≤ (10 : ℝ) ^ (-3265 : ℤ) := zpow_le_zpow_right₀ (by norm_num) (by norm_num)
    have h2 : (10 : ℝ) ^ (-3265 : ℤ) = (10 : ℝ) ^ (-3264 : ℤ) / 10 := by
      rw [show (-3265 : ℤ) = -3264 - 1 by norm_num, zpow_sub₀ (by norm_num)]; norm_num
    have hp : (0 : ℝ) < (10 : ℝ) ^ (-3264 : ℤ) := zpow_pos (by norm_num) _
    linarith
  have hT1 : T ≤ (10 : ℝ) ^ (6000 : ℤ) := by
    have hup : T ≤ 1 := by
      have := le_trans hc1 hc2
      -- T ≤ |val y| … use the crude bound through the polynomial: T ≤ 2x
      have hT2 : T ≤ 2 * x := by
        rw [hT, logT_eq neg x hx0 (le_trans hx (by norm_num))]
        obtain ⟨b1, b2, b3, b4⟩ := log1p_bounds_real x hx0 (le_trans hx (by norm_num))
        cases neg
        · simp only [Bool.false_eq_true, if_false]; linarith
        · simp only [if_true]; nlinarith
      linarith [show (2 : ℝ) * (1 / 10 ^ 9) ≤ 1 by norm_num]
    have : (1 : ℝ) ≤ (10 : ℝ) ^ (6000 : ℤ) := one_le_zpow₀ (by norm_num) (by norm_num)
    exact le_trans hup this
  have hclose : |((val y : ℚ) : ℝ) - T| * (29 * 10 ^ 33) ≤ T := by
    have h1 : |((val y : ℚ) : ℝ) - T| ≤ 2 / 10 ^ 56 * T := le_trans hc1 hc2
    calc |((val y : ℚ) : ℝ) - T| * (29 * 10 ^ 33) ≤ 2 / 10 ^ 56 * T * (29 * 10 ^ 33) :=
          mul_le_mul_of_nonneg_right h1 (by norm_num)
      _ = T * (58 / 10 ^ 23) := by ring
      _ ≤ T * 1 := mul_le_mul_of_nonneg_left (by norm_num) hTpos.le
      _ = T := mul_one _
  obtain ⟨r, rc, re, hr, hvr, hrc, hre0, hre1, hb, -⟩ :=
    finish_within_ulp' rm neg y t T hrm ht (by omega) (by omega) hT0 hT1
      (close_lt_half_ulp _ _ hTpos hclose)
  refine ⟨r, rc, re, ?_, hvr, hrc, hre0, hre1, hb⟩
  simp only [hl, bind, Except.bind]
  exact hr

end LogAcc
