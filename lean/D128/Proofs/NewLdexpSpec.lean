/-
  D128/Proofs/NewLdexpSpec.lean — specification-side facts used by the proofs of `Gen.New` and
  `Gen.Ldexp` (property C11): what `Spec.flushOrRoundS` returns far outside the exponent range and
  on members of the format.

  Provided (namespace `NL`):
  * `flushS_tiny`   : `0 < q`, `q·10^k < 10^(Emin-1)`  →  `flushOrRoundS m neg q k = .fin neg 0 Emin`
  * `flushS_huge`   : `0 < q`, `(Cmax+1)·10^Emax ≤ q·10^k`  →  `flushOrRoundS m neg q k = .inf neg` (all modes)
  * `flushS_exact`  : `0 < c ≤ Cmax`, `Emin ≤ e ≤ Emax`  →  `(flushOrRoundS m neg c e).same (.fin neg c e)`
  * `same_trans`, `same_symm` : `Spec.Val.same` is an equivalence (with `Sp.same_refl`)
  * `nat_lt_zpow`, `zpow_le_nat` : casts of `n < 10^d`, `10^d ≤ n`
  * `mul_zpow_lt`, `le_mul_zpow` : `q < 10^a → a + k ≤ b → q·10^k < 10^b` and the converse bound
  * `flushS_tiny_of_lt`, `flushS_huge_of_le` : the two facts above from a digit-count bound on `q`
-/
import D128.Proofs.SpecRound
set_option autoImplicit false

namespace NL
open Spec SpecRound

theorem same_symm (x y : Spec.Val) : x.same y = y.same x := by
  cases x <;> cases y <;> simp [Spec.Val.same, Bool.beq_comm]

theorem same_trans {x y z : Spec.Val} (h1 : x.same y = true) (h2 : y.same z = true) :
    x.same z = true := by
  cases x <;> cases y <;> cases z <;>
    simp only [Spec.Val.same, Bool.and_eq_true, beq_iff_eq, Bool.false_eq_true] at h1 h2 ⊢
  · exact ⟨h1.1.trans h2.1, h1.2.trans h2.2⟩
  · exact h1.trans h2
  · exact ⟨h1.1.trans h2.1, h1.2.trans h2.2⟩

/-- below `10^(Emin-1)` every mode gives the zero of the given sign -/
theorem flushS_tiny (m : Mode) (neg : Bool) {q : Rat} (hq : 0 < q) (k : Int)
    (h : q * (10 : Rat) ^ k < (10 : Rat) ^ (Spec.Emin - 1)) :
    Spec.flushOrRoundS m neg q k = .fin neg 0 Spec.Emin := by
  rw [flushOrRoundS_eq m neg q hq.le k]
  exact flushOrRound_tiny m neg (mul_pos hq (zpow_pos (by norm_num) _)) h

/-- from `(Cmax+1)·10^Emax` on every mode overflows to the infinity of the given sign -/
theorem roundTo_huge (m : Mode) (neg : Bool) {q : Rat} (hq : 0 < q)
    (h : ((Spec.Cmax : Rat) + 1) * (10 : Rat) ^ Spec.Emax ≤ q) : Spec.roundTo m neg q = .inf neg := by
  have hp : (0 : Rat) < (10 : Rat) ^ Spec.Emax := zpow_pos (by norm_num) _
  rcases mode_cases m neg with hd | hu | hn
  · exact (roundTo_down_inf_iff hd hq).2 h
  · apply (roundTo_up_inf_iff hu hq).2
    refine lt_of_lt_of_le ?_ h
    exact mul_lt_mul_of_pos_right (by linarith) hp
  · apply (roundTo_nearest_inf_iff hn neg hq).2
    refine le_trans ?_ h
    exact mul_le_mul_of_nonneg_right (by linarith) hp.le

theorem flushS_huge (m : Mode) (neg : Bool) {q : Rat} (hq : 0 < q) (k : Int)
    (h : ((Spec.Cmax : Rat) + 1) * (10 : Rat) ^ Spec.Emax ≤ q * (10 : Rat) ^ k) :
    Spec.flushOrRoundS m neg q k = .inf neg := by
  have hqk : 0 < q * (10 : Rat) ^ k := mul_pos hq (zpow_pos (by norm_num) _)
  rw [flushOrRoundS_eq m neg q hq.le k, flushOrRound_eq_roundTo]
  · exact roundTo_huge m neg hqk h
  · refine le_trans ?_ h
    have h1 : (10 : Rat) ^ (Spec.Emin - 1) ≤ (10 : Rat) ^ Spec.Emax :=
      zpow_le_zpow_right₀ (by norm_num) (by unfold Spec.Emin Spec.Emax; omega)
    have h2 : (0 : Rat) < (10 : Rat) ^ Spec.Emax := zpow_pos (by norm_num) _
    have h3 : (0 : Rat) ≤ (Spec.Cmax : Rat) := Nat.cast_nonneg _
    nlinarith

/-- a member of the format is returned as such (up to the choice of cohort member) -/
theorem flushS_exact (m : Mode) (neg : Bool) {c : Nat} {e : Int} (hc0 : 0 < c) (hc : c ≤ Spec.Cmax)
    (he1 : Spec.Emin ≤ e) (he2 : e ≤ Spec.Emax) :
    (Spec.flushOrRoundS m neg (c : Rat) e).same (.fin neg c e) = true := by
  have hcq : (0 : Rat) < (c : Rat) := by exact_mod_cast hc0
  rw [flushOrRoundS_eq m neg _ hcq.le e, flushOrRound_eq_roundTo]
  · obtain ⟨c', e', hr, hv, -⟩ := roundTo_exact m neg hc0 hc he1 he2
    rw [hr]
    simp only [Spec.Val.same, Spec.mag, pow10_eq_zpow, hv, beq_self_eq_true, Bool.and_self]
  · have h1 : (10 : Rat) ^ (Spec.Emin - 1) ≤ (10 : Rat) ^ e :=
      zpow_le_zpow_right₀ (by norm_num) (by omega)
    have h2 : (1 : Rat) ≤ (c : Rat) := by exact_mod_cast hc0
    have h3 : (0 : Rat) < (10 : Rat) ^ e := zpow_pos (by norm_num) _
    nlinarith

theorem nat_lt_zpow {n d : Nat} (h : n < 10 ^ d) : (n : Rat) < (10 : Rat) ^ (d : Int) := by
  rw [zpow_natCast]; exact_mod_cast h

theorem zpow_le_nat {n d : Nat} (h : 10 ^ d ≤ n) : (10 : Rat) ^ (d : Int) ≤ (n : Rat) := by
  rw [zpow_natCast]; exact_mod_cast h

theorem mul_zpow_lt {q : Rat} {a k b : Int} (hq : q < (10 : Rat) ^ a) (h : a + k ≤ b) :
    q * (10 : Rat) ^ k < (10 : Rat) ^ b := by
  have hk : (0 : Rat) < (10 : Rat) ^ k := zpow_pos (by norm_num) _
  calc q * (10 : Rat) ^ k < (10 : Rat) ^ a * (10 : Rat) ^ k := mul_lt_mul_of_pos_right hq hk
    _ = (10 : Rat) ^ (a + k) := (zpow_add₀ (by norm_num) _ _).symm
    _ ≤ (10 : Rat) ^ b := zpow_le_zpow_right₀ (by norm_num) h

theorem le_mul_zpow {q : Rat} {a k b : Int} (hq : (10 : Rat) ^ a ≤ q) (h : b ≤ a + k) :
    (10 : Rat) ^ b ≤ q * (10 : Rat) ^ k := by
  have hk : (0 : Rat) < (10 : Rat) ^ k := zpow_pos (by norm_num) _
  calc (10 : Rat) ^ b ≤ (10 : Rat) ^ (a + k) := zpow_le_zpow_right₀ (by norm_num) h
    _ = (10 : Rat) ^ a * (10 : Rat) ^ k := zpow_add₀ (by norm_num) _ _
    _ ≤ q * (10 : Rat) ^ k := mul_le_mul_of_nonneg_right hq hk.le

/-- a magnitude with at most `a` digits before the point, scaled below `10^(Emin-1)` -/
theorem flushS_tiny_of_lt (m : Mode) (neg : Bool) {q : Rat} (hq : 0 < q) {a k : Int}
    (hqa : q < (10 : Rat) ^ a) (h : a + k ≤ -6177) :
    Spec.flushOrRoundS m neg q k = .fin neg 0 Spec.Emin :=
  flushS_tiny m neg hq k (mul_zpow_lt hqa (by unfold Spec.Emin; omega))

/-- a magnitude of at least `10^a`, scaled to `10^6146` or more -/
theorem flushS_huge_of_le (m : Mode) (neg : Bool) {q : Rat} (hq : 0 < q) {a k : Int}
    (hqa : (10 : Rat) ^ a ≤ q) (h : 6146 ≤ a + k) :
    Spec.flushOrRoundS m neg q k = .inf neg := by
  apply flushS_huge m neg hq k
  refine le_trans ?_ (le_mul_zpow hqa h)
  have h1 : ((Spec.Cmax : Rat) + 1) ≤ (10 : Rat) ^ (35 : Int) := by
    have := Cmax_upper
    have h2 : ((Spec.Cmax + 1 : Nat) : Rat) ≤ ((10 ^ 35 : Nat) : Rat) := by exact_mod_cast this
    push_cast at h2
    rw [zpow_ofNat]; exact h2
  have hp : (0 : Rat) < (10 : Rat) ^ Spec.Emax := zpow_pos (by norm_num) _
  calc ((Spec.Cmax : Rat) + 1) * (10 : Rat) ^ Spec.Emax
      ≤ (10 : Rat) ^ (35 : Int) * (10 : Rat) ^ Spec.Emax := mul_le_mul_of_nonneg_right h1 hp.le
    _ = (10 : Rat) ^ (6146 : Int) := by
        rw [← zpow_add₀ (by norm_num)]; rfl

end NL
