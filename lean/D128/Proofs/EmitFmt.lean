/-
  D128/Proofs/EmitFmt.lean — `fmtE_spec`, `fmtF_spec`: the generated emitters against the layouts of the
  specification (character level), for every width that needs no padding (in particular `width = 0`, the
  value passed by String, MarshalText, Format, Append, MarshalJSON).

  * `Emit.eBytes_size_le`, `Emit.fBytes_size_le` : length bounds of the emitted text
  * `Emit.fmtE_spec` : `fmtE d buf prec width …` = `buf ++ sign ++ Spec.layoutE (slice d) prec # e minExpDigits`
  * `Emit.fmtF_spec` : `fmtF d buf prec width …` = `buf ++ sign ++ Spec.layoutF (slice d) prec #`
  Both include: no panic, termination of all loops, the record `d` is returned unchanged.
-/
import D128.Proofs.EmitSpec
set_option autoImplicit false
namespace Emit

/-! ## sizes -/

theorem signB_size_le (a b c : Bool) : (E.signB a b c).size ≤ 1 := by
  cases a <;> cases b <;> cases c <;> decide

theorem expDigitsB_size_le (p : Bool) (x : Int64) : (E.expDigitsB p x).size ≤ 4 := by
  unfold E.expDigitsB
  split
  · cases p <;> simp
  · split
    · simp
    · split <;> simp

theorem expB_size_le (p : Bool) (x : Int64) : (E.expB p x).size ≤ 5 := by
  unfold E.expB
  have h1 := expDigitsB_size_le p x
  have h2 := expDigitsB_size_le p (-x)
  split <;> (rw [Array.size_append]; simp; omega)

/-- sizes of literal byte arrays, without touching `Int64.toInt` -/
macro "sz" : tactic =>
  `(tactic| simp only [Array.size_append, Array.size_replicate, List.size_toArray, List.length_cons,
      List.length_nil, Array.size_empty])

theorem fracEB_size_le (d : Gen.digits) (prec : Int64) (forceDP : Bool) (h39 : d.ndig.toInt ≤ 39) :
    (E.fracB d prec forceDP).size ≤ 39 + prec.toInt.toNat := by
  unfold E.fracB
  split
  · split
    · rename_i h
      rw [i64_gt_iff, i64_one] at h
      rw [Array.size_append, Array.size_append, digB_size _ _ _ (by omega), Array.size_replicate]
      sz; omega
    · rw [Array.size_append, Array.size_replicate]; sz; omega
  · split <;> (sz; omega)

theorem eBytes_size_le (d : Gen.digits) (prec : Int64) (forceDP printSign padSign padExp : Bool) (e : UInt8)
    (h39 : d.ndig.toInt ≤ 39) :
    (E.eBytes d prec forceDP printSign padSign padExp e).size ≤ 47 + prec.toInt.toNat := by
  unfold E.eBytes
  have h1 := signB_size_le d.neg printSign padSign
  have h2 := fracEB_size_le d prec forceDP h39
  have h3 := expB_size_le padExp (E.expOf d)
  sz; omega

theorem intB_size_le (d : Gen.digits) (h0 : 0 ≤ d.ndig.toInt) (h39 : d.ndig.toInt ≤ 39) (hexp : Dg.ExpOK d) :
    (F.intB d).size ≤ 40 + d.exp.toInt.toNat := by
  have hadd := addexp_toInt d h0 h39 hexp
  obtain ⟨he0, he1⟩ := hexp
  unfold F.intB
  split
  · sz; omega
  · split
    · split
      · rename_i h
        rw [i64_gt_iff, hadd] at h
        rw [digB_size _ _ _ (by omega)]; omega
      · rename_i h1 h
        rw [i64_gt_iff, hadd] at h
        rw [i64_gt_iff, i64_zero, hadd] at h1
        have hsub : (d.ndig + d.exp - d.ndig).toInt = d.exp.toInt := by
          rw [Dg.i64_sub _ _ (by rw [hadd]; omega) (by rw [hadd]; omega), hadd]
          omega
        rw [Array.size_append, digB_size _ _ _ (by omega), Array.size_replicate, hsub]; omega
    · sz; omega

theorem fracFB_size_le (d : Gen.digits) (prec : Int64) (forceDP : Bool)
    (h0 : 0 ≤ d.ndig.toInt) (h39 : d.ndig.toInt ≤ 39) (hexp : Dg.ExpOK d) (hp62 : prec.toInt ≤ 2 ^ 62) :
    (F.fracB d prec forceDP).size ≤ 41 + (-d.exp.toInt).toNat + prec.toInt.toNat := by
  have hadd := addexp_toInt d h0 h39 hexp
  obtain ⟨he0, he1⟩ := hexp
  have hdp : (-(F.dpOf d).toInt).toNat ≤ (-d.exp.toInt).toNat ∧ -(2:Int) ^ 62 ≤ (F.dpOf d).toInt ∧
      (F.dpOf d).toInt ≤ 2 ^ 62 + 39 := by
    unfold F.dpOf
    split
    · rw [i64_zero]; omega
    · rw [hadd]; omega
  unfold F.fracB
  split
  · rename_i hp
    rw [i64_gt_iff, i64_zero] at hp
    rw [Array.size_append, Array.size_append, Array.size_replicate]
    have ht : (F.tailB d (if F.dpOf d < 0 then prec + F.dpOf d else prec)
        (if F.dpOf d < 0 then 0 else F.dpOf d)).size ≤ 39 + prec.toInt.toNat := by
      have hp' : (if F.dpOf d < 0 then prec + F.dpOf d else prec).toInt ≤ prec.toInt := by
        split
        · rename_i h
          rw [i64_lt_iff, i64_zero] at h
          rw [Dg.i64_add _ _ (by omega) (by omega)]; omega
        · omega
      have hd0 : 0 ≤ (if F.dpOf d < 0 then (0 : Int64) else F.dpOf d).toInt ∧
          (if F.dpOf d < 0 then (0 : Int64) else F.dpOf d).toInt ≤ 2 ^ 62 + 39 := by
        split
        · rw [i64_zero]; omega
        · rename_i h
          rw [i64_lt_iff, i64_zero] at h; omega
      generalize (if F.dpOf d < 0 then prec + F.dpOf d else prec) = prec' at *
      generalize (if F.dpOf d < 0 then (0 : Int64) else F.dpOf d) = dp' at *
      unfold F.tailB
      split
      · rename_i h
        rw [i64_gt_iff] at h
        have hsub : (d.ndig - dp').toInt = d.ndig.toInt - dp'.toInt :=
          Dg.i64_sub _ _ (by omega) (by omega)
        rw [Array.size_append, digB_size _ _ _ (by omega), Array.size_replicate, hsub]
        omega
      · rw [Array.size_replicate]; omega
    sz; omega
  · split <;> (sz; omega)

theorem fBytes_size_le (d : Gen.digits) (prec : Int64) (forceDP printSign padSign : Bool)
    (h0 : 0 ≤ d.ndig.toInt) (h39 : d.ndig.toInt ≤ 39) (hexp : Dg.ExpOK d) (hp62 : prec.toInt ≤ 2 ^ 62) :
    (F.fBytes d prec forceDP printSign padSign).size ≤ 82 + d.exp.toInt.natAbs + prec.toInt.toNat := by
  unfold F.fBytes
  have h1 := signB_size_le d.neg printSign padSign
  have h2 := intB_size_le d h0 h39 hexp
  have h3 := fracFB_size_le d prec forceDP h0 h39 hexp hp62
  sz
  omega

/-! ## the emitters against the specification layouts -/

/-- **`fmtE` is `Spec.layoutE`.**  For a well-formed digit record whose digits fit the precision (or with
no fraction at all: `prec ≤ 0`), whose empty form is normalised and whose leading-digit exponent has at
most four digits, and for any width that requires no padding, `fmtE` returns the record unchanged and
appends to `buf` exactly: the sign (`-`, or `+`/space on request), then the `%e` layout of the
specification — leading digit, `.` and `prec` fraction digits (or a bare `.` with `forceDP`), the exponent
letter `e`, the exponent sign and at least two (`padExp`) exponent digits, three or four when needed. -/
theorem fmtE_spec (d : Gen.digits) (buf : Go.Bytes) (prec width : Int64)
    (forceDP printSign padSign padExp padRight padZero : Bool) (e : UInt8)
    (hwf : Dg.WF d) (hz : d.ndig.toInt = 0 → d.exp.toInt = 0)
    (hx : -9999 ≤ d.exp.toInt ∧ d.exp.toInt + d.ndig.toInt ≤ 10000)
    (hfit : d.ndig.toInt ≤ prec.toInt + 1 ∨ prec.toInt ≤ 0)
    (hw0 : 0 ≤ width.toInt)
    (hw : width.toInt ≤ (signS d.neg printSign padSign ++ Spec.layoutE (Dg.slice d) prec.toInt.toNat
      forceDP (toChar e) (if padExp then 2 else 1)).length)
    (hsz : buf.size + (signS d.neg printSign padSign ++ Spec.layoutE (Dg.slice d) prec.toInt.toNat
      forceDP (toChar e) (if padExp then 2 else 1)).length < 2 ^ 63) :
    ∃ out, Gen.digits.fmtE d buf prec width forceDP printSign padSign padExp padRight padZero e =
        .ok (d, out) ∧
      chars out = chars buf ++ signS d.neg printSign padSign ++
        Spec.layoutE (Dg.slice d) prec.toInt.toNat forceDP (toChar e) (if padExp then 2 else 1) := by
  have hc := eBytes_chars d prec forceDP printSign padSign padExp e hwf hz hx hfit
  have hlen := chars_length (E.eBytes d prec forceDP printSign padSign padExp e)
  rw [hc] at hlen
  refine ⟨_, E.fmtE_bytes d buf prec width forceDP printSign padSign padExp padRight padZero e
    hwf.n0 hwf.n39 hw0 (by rw [← hlen]; exact hsz) (by rw [← hlen]; exact hw), ?_⟩
  rw [chars_append, hc, List.append_assoc]

/-- **`fmtF` is `Spec.layoutF`.**  Same as `fmtE_spec` for the positional layout: sign, integer part
(digits, then zeros up to the decimal point, or a single `0`), `.` and exactly `prec` fraction digits
(or a bare `.` with `forceDP`).  `hfit`: when a fraction is printed all digits of the record fit in it. -/
theorem fmtF_spec (d : Gen.digits) (buf : Go.Bytes) (prec width : Int64)
    (forceDP printSign padSign padRight padZero : Bool)
    (hwf : Dg.WF d) (hexp : Dg.ExpOK d) (hz : d.ndig.toInt = 0 → d.exp.toInt = 0)
    (hp62 : prec.toInt ≤ 2 ^ 62)
    (hfit : 0 < d.ndig.toInt → 0 < prec.toInt → -d.exp.toInt ≤ prec.toInt)
    (hw0 : 0 ≤ width.toInt)
    (hw : width.toInt ≤ (signS d.neg printSign padSign ++
      Spec.layoutF (Dg.slice d) prec.toInt.toNat forceDP).length)
    (hsz : buf.size + (signS d.neg printSign padSign ++
      Spec.layoutF (Dg.slice d) prec.toInt.toNat forceDP).length < 2 ^ 63) :
    ∃ out, Gen.digits.fmtF d buf prec width forceDP printSign padSign padRight padZero = .ok (d, out) ∧
      chars out = chars buf ++ signS d.neg printSign padSign ++
        Spec.layoutF (Dg.slice d) prec.toInt.toNat forceDP := by
  have hc := fBytes_chars d prec forceDP printSign padSign hwf hexp hz hp62 hfit
  have hlen := chars_length (F.fBytes d prec forceDP printSign padSign)
  rw [hc] at hlen
  refine ⟨_, F.fmtF_bytes d buf prec width forceDP printSign padSign padRight padZero
    hwf.n0 hwf.n39 hw0 (by rw [← hlen]; exact hsz) (by rw [← hlen]; exact hw), ?_⟩
  rw [chars_append, hc, List.append_assoc]

end Emit
