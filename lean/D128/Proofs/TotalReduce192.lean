/-
  D128.Proofs.TotalReduce192 — totality (termination + no panic) of the digit-reduction front ends of
  the rounding kernel, `Gen.RoundingMode.reduce192`, `reduce128`, `reduce256`, `reduce64`
  (Go: /repo/rounding.go), for EVERY rounding-mode byte (including invalid ones ≥ 6), every sign,
  every `exp : Int16` (no range hypothesis) and every `trunc : Int8`.

  Provided (namespace `D128.Proofs.Total`):
  * `J`                      : the state invariant `sig ≠ 0 ∨ trunc ≠ -1 ∨ digit ≠ 0`
  * `dropLoop_total`, `subLoop_total`, `upLoop_total`, `reduceTail_total` : the common tail
  * `ladder128_total`, `step192_total`, `wide192_total`, `wide256_total`  : the wide phases
  * `reduce192_total` : `sig.toNat ≠ 0 ∨ trunc ≠ -1 → ∃ r, reduce192 rm neg sig exp trunc = .ok r`
  * `reduce128_total`, `reduce256_total` : the same for the 128/256-bit entry points
  * `reduce64_total`  : unconditional (`trunc` starts at 0 there)
  * `reduce192_total_triple`, `reduce128_total_triple`, `reduce256_total_triple`,
    `reduce64_total_triple` : the `@[spec]` Hoare-triple forms
  * `reduce192_total_nodown`, `reduce192_total_modes_sign`, `reduce192_total_modes`,
    `reduce192_total_modes_triple` (not `@[spec]`) and the same for `reduce128`, `reduce256` :
    totality for ALL `sig exp trunc` when `rm ∉ {2,4,5}` (sign-aware: `rm ≠ 2 ∧ ¬(rm = 5 ∧ neg) ∧
    ¬(rm = 4 ∧ ¬neg)`), in particular for the default mode `ToNearestEven` and invalid mode bytes
  For the other modes the hypothesis `sig ≠ 0 ∨ trunc ≠ -1` is necessary: see `round_zero_stuck_shift` in `TotalRound.lean`
  and `reduce192_zero_stuck` below (`reduce192 ToZero neg 0 exp (-1)` enters the stuck state of `round`).
-/
import D128.Proofs.TotalRound
import D128.Proofs.RoundKernelWideCode

set_option autoImplicit false
set_option maxRecDepth 4096
set_option linter.unusedVariables false
set_option mvcgen.warning false

namespace D128.Proofs.Total
open Std.Do
open RK

/-- the invariant under which `round` terminates -/
def J (s : U128) (t : Int8) (d : UInt64) : Prop := s.toNat ≠ 0 ∨ t ≠ -1 ∨ d ≠ 0

theorem i8_one_ne : (1 : Int8) ≠ -1 := by decide
theorem i8_zero_ne : (0 : Int8) ≠ -1 := by decide

theorem i8_ite_ne (c : Bool) (t : Int8) (h : t ≠ -1) : (if c = true then (1 : Int8) else t) ≠ -1 := by
  cases c
  · simpa using h
  · simp

/-! ## the common tail -/

/-- loop B (`for sig[1] > 0x0002_7fff_ffff_ffff`) -/
theorem dropLoop_total (st : TSt) (h : J st.1 st.2.2.1 st.2.2.2) :
    ∃ st', dropLoop st = .ok st' ∧ J st'.1 st'.2.2.1 st'.2.2.2 := by
  unfold dropLoop
  apply loop_inv dropBody (fun st : TSt => J st.1 st.2.2.1 st.2.2.2)
    (fun st : TSt => J st.1 st.2.2.1 st.2.2.2) (fun st : TSt => st.1.toNat) _ st h
  intro b hb
  obtain ⟨q, r, e, hq, hr⟩ := U128_div10_spec b.1
  by_cases hc : decide (b.1.w1 > 703687441776639) = true
  · left
    have hgt : 12980742146337069071326240823050240 ≤ b.1.toNat := by
      rw [U128_w1_gt_iff] at hc; simpa using hc
    refine ⟨(q, b.2.1 + 1, (if (b.2.2.2 != 0) = true then 1 else b.2.2.1), r), ?_, Or.inl ?_, ?_⟩
    · simp only [dropBody, hc, if_true]
      by_cases hd : (b.2.2.2 != 0) = true
      · simp only [hd, if_true, e, ok_bind]; rfl
      · simp only [hd, e, ok_bind]; rfl
    · show q.toNat ≠ 0
      omega
    · show q.toNat < b.1.toNat
      omega
  · right
    exact ⟨(b.1, b.2.1, b.2.2.1, b.2.2.2), by simp only [dropBody, hc]; rfl, hb⟩

/-- loop C (`for exp < minBiasedExponent`) -/
theorem subLoop_total (st : TSt) (h : J st.1 st.2.2.1 st.2.2.2) :
    ∃ st', subLoop st = .ok st' ∧ J st'.1 st'.2.2.1 st'.2.2.2 := by
  unfold subLoop
  apply loop_inv subBody (fun st : TSt => J st.1 st.2.2.1 st.2.2.2)
    (fun st : TSt => J st.1 st.2.2.1 st.2.2.2) (fun st : TSt => (-st.2.1.toInt).toNat) _ st h
  intro b hb
  obtain ⟨q, r, e, hq, hr⟩ := U128_div10_spec b.1
  by_cases hc : decide (b.2.1 < 0) = true
  · have hneg : b.2.1.toInt < 0 := by
      rw [i16_lt_zero] at hc; simpa using hc
    have hexp : (b.2.1 + 1).toInt = b.2.1.toInt + 1 := by
      have := b.2.1.le_toInt
      rw [Int16.toInt_add_of] <;> simp <;> omega
    by_cases hf : (q.w0 ||| q.w1 ||| r == 0) = true
    · right
      refine ⟨(q, 0, 0, 0), ?_, Or.inr (Or.inl i8_zero_ne)⟩
      by_cases hd : (b.2.2.2 != 0) = true
      · simp only [subBody, hc, hd, if_true, e, ok_bind, hf]; rfl
      · simp only [subBody, hc, hd, if_true, e, ok_bind, hf]; rfl
    · left
      have hf' : ¬ (q.toNat = 0 ∧ r.toNat = 0) := by
        rw [or3_eq_zero, decide_eq_true_eq] at hf; exact hf
      refine ⟨(q, b.2.1 + 1, (if (b.2.2.2 != 0) = true then 1 else b.2.2.1), r), ?_, ?_, ?_⟩
      · by_cases hd : (b.2.2.2 != 0) = true
        · simp only [subBody, hc, hd, if_true, e, ok_bind, hf]; rfl
        · simp only [subBody, hc, hd, if_true, e, ok_bind, hf]; rfl
      · show J q _ r
        by_cases hq0 : q.toNat = 0
        · refine Or.inr (Or.inr fun hr0 => hf' ⟨hq0, ?_⟩)
          rw [hr0]; rfl
        · exact Or.inl hq0
      · show (-(b.2.1 + 1).toInt).toNat < (-b.2.1.toInt).toNat
        rw [hexp]; omega
  · right
    exact ⟨(b.1, b.2.1, b.2.2.1, b.2.2.2), by simp only [subBody, hc]; rfl, hb⟩

/-- loop D (`for exp > maxBiasedExponent && sig[1] < 0x0002_7fff_ffff_ffff`) -/
theorem upLoop_total (st : U128 × Int16) :
    ∃ st', upLoop st = .ok st' ∧ (st.1.toNat ≠ 0 → st'.1.toNat ≠ 0) := by
  obtain ⟨st', e, hP, _⟩ := upLoop_inv (fun s _ => st.1.toNat ≠ 0 → s ≠ 0)
    (fun s e hP _ _ h0 => by have := hP h0; omega) st id
  exact ⟨st', e, hP⟩

/-- the common tail of `reduce128/192/256` (loops B, C, D and `round`) -/
theorem reduceTail_total (rm : UInt8) (neg : Bool) (sig : U128) (exp : Int16) (trunc : Int8)
    (digit : UInt64) (h : J sig trunc digit) :
    ∃ r, reduceTail rm neg sig exp trunc digit = .ok r := by
  obtain ⟨s1, e1, h1⟩ := dropLoop_total (sig, exp, trunc, digit) h
  obtain ⟨s2, e2, h2⟩ := subLoop_total (s1.1, s1.2.1, s1.2.2.1, s1.2.2.2) h1
  obtain ⟨s3, e3, h3⟩ := upLoop_total (s2.1, s2.2.1)
  unfold reduceTail
  rw [e1, ok_bind, e2, ok_bind, e3, ok_bind]
  apply round_total
  rcases h2 with h2 | h2
  · exact Or.inl (h3 h2)
  · exact Or.inr h2

/-! ## the first ladder, the 192-bit and 256-bit phases -/

theorem ladder128_total {α : Type} (k : U128 → Int16 → Int8 → UInt64 → Go.GoM α) (sig : U128)
    (exp : Int16) (trunc : Int8) (h : sig.toNat ≠ 0 ∨ trunc ≠ -1)
    (hk : ∀ s' e' t' d', (s'.toNat ≠ 0 ∨ t' ≠ -1) → ∃ r, k s' e' t' d' = .ok r) :
    ∃ r, ladder128 k sig exp trunc = .ok r := by
  have hw0 := sig.w0.toNat_lt
  have hJ : ∀ (q : U128) (c : Bool), q.toNat ≠ 0 →
      (q.toNat ≠ 0 ∨ (if c = true then (1 : Int8) else trunc) ≠ -1) := fun q c hq => Or.inl hq
  unfold ladder128
  by_cases h4 : decide (sig.w1 > 703687441776640000) = true
  · obtain ⟨q, r, e, hq, hr⟩ := U128_div10000_spec sig
    simp only [h4, if_true, e, ok_bind]
    rw [ladder_branch k q r (exp + 4) trunc 1000]
    apply hk
    apply hJ
    rw [decide_eq_true_eq, gt_iff_lt, UInt64.lt_iff_toNat_lt] at h4
    have h4' : 703687441776640000 < sig.w1.toNat := h4
    have hs : sig.toNat = sig.w0.toNat + sig.w1.toNat * 2 ^ 64 := rfl
    omega
  · by_cases h3 : decide (sig.w1 > 70368744177664000) = true
    · obtain ⟨q, r, e, hq, hr⟩ := U128_div1000_spec sig
      simp only [h4, h3, if_true, e, ok_bind]
      rw [ladder_branch k q r (exp + 3) trunc 100]
      apply hk
      apply hJ
      rw [decide_eq_true_eq, gt_iff_lt, UInt64.lt_iff_toNat_lt] at h3
      have h3' : 70368744177664000 < sig.w1.toNat := h3
      have hs : sig.toNat = sig.w0.toNat + sig.w1.toNat * 2 ^ 64 := rfl
      omega
    · by_cases h2 : decide (sig.w1 > 7036874417766400) = true
      · obtain ⟨q, r, e, hq, hr⟩ := U128_div100_spec sig
        simp only [h4, h3, h2, if_true, e, ok_bind]
        rw [ladder_branch k q r (exp + 2) trunc 10]
        apply hk
        apply hJ
        rw [decide_eq_true_eq, gt_iff_lt, UInt64.lt_iff_toNat_lt] at h2
        have h2' : 7036874417766400 < sig.w1.toNat := h2
        have hs : sig.toNat = sig.w0.toNat + sig.w1.toNat * 2 ^ 64 := rfl
        omega
      · simp only [h4, h3, h2]
        exact hk _ _ _ _ h

theorem step192_total {α : Type} (k : U192 → Int16 → Int8 → Go.GoM α) (sig : U192) (exp : Int16)
    (trunc : Int8) (h : sig.toNat ≠ 0 ∨ trunc ≠ -1)
    (hk : ∀ n' e' t', (n'.toNat ≠ 0 ∨ t' ≠ -1) → ∃ r, k n' e' t' = .ok r) :
    ∃ r, step192 k sig exp trunc = .ok r := by
  have hw0 := sig.w0.toNat_lt
  have hw1 := sig.w1.toNat_lt
  unfold step192
  by_cases hc : decide (sig.w2 > 10000) = true
  · obtain ⟨q, r, e, hq, hr⟩ := D128.Proofs.WordsWide.U192_div1e8_eq sig
    have hq0 : q.toNat ≠ 0 := by
      rw [decide_eq_true_eq, gt_iff_lt, UInt64.lt_iff_toNat_lt] at hc
      have hc' : 10000 < sig.w2.toNat := hc
      have hs : sig.toNat = sig.w0.toNat + sig.w1.toNat * 2 ^ 64 + sig.w2.toNat * 2 ^ 128 := rfl
      omega
    simp only [hc, if_true, e, ok_bind]
    by_cases hd : (r != 0) = true
    · simp only [hd, if_true]
      exact hk _ _ _ (Or.inl hq0)
    · simp only [hd, Bool.false_eq_true, if_false]
      exact hk _ _ _ (Or.inl hq0)
  · simp only [hc]
    exact hk _ _ _ h

/-- `for sig192[2] > 0 { sig192, rem = sig192.div10000(); … }`; the result fits 128 bits, so its low
    two words carry the invariant. -/
theorem wide192_total (st : W192) (h : st.1.toNat ≠ 0 ∨ st.2.2 ≠ -1) :
    ∃ st', forIn (m := Go.GoM) Lean.Loop.mk st wide192Body = .ok st' ∧
      ((({ w0 := st'.1.w0, w1 := st'.1.w1 } : U128).toNat ≠ 0) ∨ st'.2.2 ≠ -1) := by
  apply loop_inv wide192Body (fun st : W192 => st.1.toNat ≠ 0 ∨ st.2.2 ≠ -1)
    (fun st' : W192 => (({ w0 := st'.1.w0, w1 := st'.1.w1 } : U128).toNat ≠ 0) ∨ st'.2.2 ≠ -1)
    (fun st : W192 => st.1.toNat) _ st h
  intro b hb
  have hw0 := b.1.w0.toNat_lt
  have hw1 := b.1.w1.toNat_lt
  obtain ⟨q, r, e, hq, hr⟩ := D128.Proofs.WordsWide.U192_div10000_eq b.1
  by_cases hc : decide (b.1.w2 > 0) = true
  · left
    have hgt : 2 ^ 128 ≤ b.1.toNat := by
      rw [decide_eq_true_eq, gt_iff_lt, UInt64.lt_iff_toNat_lt] at hc
      have hc' : 0 < b.1.w2.toNat := hc
      simp only [U192.toNat]; omega
    refine ⟨(q, b.2.1 + 4, (if (r != 0) = true then 1 else b.2.2)), ?_, Or.inl ?_, ?_⟩
    · simp only [wide192Body, hc, if_true, e, ok_bind]
      by_cases hd : (r != 0) = true
      · simp only [hd, if_true]; rfl
      · simp only [hd]; rfl
    · show q.toNat ≠ 0
      omega
    · show q.toNat < b.1.toNat
      omega
  · right
    refine ⟨(b.1, b.2.1, b.2.2), by simp only [wide192Body, hc]; rfl, ?_⟩
    rw [decide_eq_true_eq, gt_iff_lt, UInt64.lt_iff_toNat_lt] at hc
    have hc' : ¬ 0 < b.1.w2.toNat := hc
    rcases hb with hb | hb
    · left
      show ({ w0 := b.1.w0, w1 := b.1.w1 } : U128).toNat ≠ 0
      simp only [U192.toNat, U128.toNat] at *
      omega
    · exact Or.inr hb

/-- `for sig256[3] > 0 { sig256, rem = sig256.div1e19(); … }` -/
theorem wide256_total (st : W256) (h : st.1.toNat ≠ 0 ∨ st.2.2 ≠ -1) :
    ∃ st', forIn (m := Go.GoM) Lean.Loop.mk st wide256Body = .ok st' ∧
      ((({ w0 := st'.1.w0, w1 := st'.1.w1, w2 := st'.1.w2 } : U192).toNat ≠ 0) ∨ st'.2.2 ≠ -1) := by
  apply loop_inv wide256Body (fun st : W256 => st.1.toNat ≠ 0 ∨ st.2.2 ≠ -1)
    (fun st' : W256 =>
      (({ w0 := st'.1.w0, w1 := st'.1.w1, w2 := st'.1.w2 } : U192).toNat ≠ 0) ∨ st'.2.2 ≠ -1)
    (fun st : W256 => st.1.toNat) _ st h
  intro b hb
  have hw0 := b.1.w0.toNat_lt
  have hw1 := b.1.w1.toNat_lt
  have hw2 := b.1.w2.toNat_lt
  obtain ⟨q, r, e, hq, hr⟩ := D128.Proofs.WordsWide.U256_div1e19_eq b.1
  by_cases hc : decide (b.1.w3 > 0) = true
  · left
    have hgt : 2 ^ 192 ≤ b.1.toNat := by
      rw [decide_eq_true_eq, gt_iff_lt, UInt64.lt_iff_toNat_lt] at hc
      have hc' : 0 < b.1.w3.toNat := hc
      simp only [U256.toNat]; omega
    refine ⟨(q, b.2.1 + 19, (if (r != 0) = true then 1 else b.2.2)), ?_, Or.inl ?_, ?_⟩
    · simp only [wide256Body, hc, if_true, e, ok_bind]
      by_cases hd : (r != 0) = true
      · simp only [hd, if_true]; rfl
      · simp only [hd]; rfl
    · show q.toNat ≠ 0
      omega
    · show q.toNat < b.1.toNat
      omega
  · right
    refine ⟨(b.1, b.2.1, b.2.2), by simp only [wide256Body, hc]; rfl, ?_⟩
    rw [decide_eq_true_eq, gt_iff_lt, UInt64.lt_iff_toNat_lt] at hc
    have hc' : ¬ 0 < b.1.w3.toNat := hc
    rcases hb with hb | hb
    · left
      show ({ w0 := b.1.w0, w1 := b.1.w1, w2 := b.1.w2 } : U192).toNat ≠ 0
      simp only [U256.toNat, U192.toNat] at *
      omega
    · exact Or.inr hb

/-! ## the entry points -/

/-- **Totality of `reduce128`** for every mode byte, sign, exponent and `trunc`. -/
theorem reduce128_total (rm : UInt8) (neg : Bool) (sig : U128) (exp : Int16) (trunc : Int8)
    (h : sig.toNat ≠ 0 ∨ trunc ≠ -1) :
    ∃ r, Gen.RoundingMode.reduce128 rm neg sig exp trunc = .ok r := by
  rw [reduce128_eq]
  apply ladder128_total _ _ _ _ h
  intro s' e' t' d' hJ
  apply reduceTail_total
  rcases hJ with hJ | hJ
  · exact Or.inl hJ
  · exact Or.inr (Or.inl hJ)

/-- **Totality of `reduce192`** for every mode byte, sign, exponent and `trunc`. -/
theorem reduce192_total (rm : UInt8) (neg : Bool) (sig : U192) (exp : Int16) (trunc : Int8)
    (h : sig.toNat ≠ 0 ∨ trunc ≠ -1) :
    ∃ r, Gen.RoundingMode.reduce192 rm neg sig exp trunc = .ok r := by
  rw [reduce192_eq]
  apply step192_total _ _ _ _ h
  intro n e t hnt
  obtain ⟨s, es, hs⟩ := wide192_total (n, e, t) hnt
  show ∃ r, (do
    let s ← forIn (m := Go.GoM) Lean.Loop.mk (n, e, t) wide192Body
    ladder128 (fun s' e' t' d' => reduceTailP rm neg e' t' s' d')
      { w0 := s.1.w0, w1 := s.1.w1 } s.2.1 s.2.2) = .ok r
  rw [es, ok_bind]
  apply ladder128_total _ _ _ _ hs
  intro s' e' t' d' hJ
  rw [reduceTailP_eq]
  apply reduceTail_total
  rcases hJ with hJ | hJ
  · exact Or.inl hJ
  · exact Or.inr (Or.inl hJ)

/-- **Totality of `reduce256`** for every mode byte, sign, exponent and `trunc`. -/
theorem reduce256_total (rm : UInt8) (neg : Bool) (sig : U256) (exp : Int16) (trunc : Int8)
    (h : sig.toNat ≠ 0 ∨ trunc ≠ -1) :
    ∃ r, Gen.RoundingMode.reduce256 rm neg sig exp trunc = .ok r := by
  rw [reduce256_eq]
  obtain ⟨s0, e0, h0⟩ := wide256_total (sig, exp, trunc) h
  rw [e0, ok_bind]
  apply step192_total _ _ _ _ h0
  intro n e t hnt
  obtain ⟨s, es, hs⟩ := wide192_total (n, e, t) hnt
  show ∃ r, (do
    let s2 ← forIn (m := Go.GoM) Lean.Loop.mk (e, t, n) wide192BodyP
    ladder128 (fun s' e' t' d' => reduceTailP rm neg e' t' s' d')
      { w0 := s2.2.2.w0, w1 := s2.2.2.w1 } s2.1 s2.2.1) = .ok r
  have hP : forIn (m := Go.GoM) Lean.Loop.mk (e, t, n) wide192BodyP = .ok (s.2.1, s.2.2, s.1) := by
    rw [wide192P_eq]
    show Except.map _ (forIn (m := Go.GoM) Lean.Loop.mk (n, e, t) wide192Body) = _
    rw [es]; rfl
  rw [hP, ok_bind]
  apply ladder128_total _ _ _ _ hs
  intro s' e' t' d' hJ
  rw [reduceTailP_eq]
  apply reduceTail_total
  rcases hJ with hJ | hJ
  · exact Or.inl hJ
  · exact Or.inr (Or.inl hJ)

/-- the sub-minimum-exponent loop of `reduce64`: `trunc` stays in `{0, 1}` -/
theorem sub64_total (st : UInt64 × Int16 × Int8 × UInt64) (h : st.2.2.1 ≠ -1) :
    ∃ st', forIn (m := Go.GoM) Lean.Loop.mk st sub64Body = .ok st' ∧ st'.2.2.1 ≠ -1 := by
  apply loop_inv sub64Body (fun st => st.2.2.1 ≠ -1) (fun st => st.2.2.1 ≠ -1)
    (fun st => (-st.2.1.toInt).toNat) _ st h
  intro b hb
  by_cases hc : decide (b.2.1 < 0) = true
  · have hneg : b.2.1.toInt < 0 := by
      rw [i16_lt_zero] at hc; simpa using hc
    have hexp : (b.2.1 + 1).toInt = b.2.1.toInt + 1 := by
      have := b.2.1.le_toInt
      rw [Int16.toInt_add_of] <;> simp <;> omega
    by_cases hf : (b.1 / 10 ||| b.1 % 10 == 0) = true
    · right
      refine ⟨(b.1 / 10, 0, 0, 0), ?_, i8_zero_ne⟩
      simp only [sub64Body, hc, if_true, hf]
      by_cases hd : (b.2.2.2 != 0) = true
      · simp only [hd, if_true]; rfl
      · simp only [hd]; rfl
    · left
      refine ⟨(b.1 / 10, b.2.1 + 1, (if (b.2.2.2 != 0) = true then 1 else b.2.2.1), b.1 % 10),
        ?_, i8_ite_ne _ _ hb, ?_⟩
      · simp only [sub64Body, hc, if_true, hf]
        by_cases hd : (b.2.2.2 != 0) = true
        · simp only [hd, if_true]; rfl
        · simp only [hd]; rfl
      · show (-(b.2.1 + 1).toInt).toNat < (-b.2.1.toInt).toNat
        rw [hexp]; omega
  · right
    exact ⟨(b.1, b.2.1, b.2.2.1, b.2.2.2), by simp only [sub64Body, hc]; rfl, hb⟩

/-- **Totality of `reduce64`**: unconditional. -/
theorem reduce64_total (rm : UInt8) (neg : Bool) (sig : UInt64) (exp : Int16) :
    ∃ r, Gen.RoundingMode.reduce64 rm neg sig exp = .ok r := by
  rw [reduce64_eq]
  obtain ⟨s, es, hs⟩ := sub64_total (sig, exp, (0 : Int8), (0 : UInt64)) i8_zero_ne
  rw [es, ok_bind]
  obtain ⟨s1, e1, _⟩ := upLoop_total (({ w0 := s.1, w1 := 0 } : U128), s.2.1)
  have hU : forIn (m := Go.GoM) Lean.Loop.mk (s.2.1, ({ w0 := s.1, w1 := 0 } : U128)) upBodyP
      = .ok (s1.2, s1.1) := by
    rw [upLoopP_eq]
    show Except.map _ (upLoop (({ w0 := s.1, w1 := 0 } : U128), s.2.1)) = _
    rw [e1]; rfl
  rw [hU, ok_bind]
  exact round_total _ _ _ _ _ _ _ (Or.inr (Or.inl hs))

/-! ## Hoare-triple forms -/

@[spec] theorem reduce192_total_triple (rm : UInt8) (neg : Bool) (sig : U192) (exp : Int16)
    (trunc : Int8) :
    ⦃⌜sig.toNat ≠ 0 ∨ trunc ≠ -1⌝⦄ Gen.RoundingMode.reduce192 rm neg sig exp trunc ⦃⇓ _ => ⌜True⌝⦄ :=
  triple_of_total (reduce192_total rm neg sig exp trunc)

@[spec] theorem reduce128_total_triple (rm : UInt8) (neg : Bool) (sig : U128) (exp : Int16)
    (trunc : Int8) :
    ⦃⌜sig.toNat ≠ 0 ∨ trunc ≠ -1⌝⦄ Gen.RoundingMode.reduce128 rm neg sig exp trunc ⦃⇓ _ => ⌜True⌝⦄ :=
  triple_of_total (reduce128_total rm neg sig exp trunc)

@[spec] theorem reduce256_total_triple (rm : UInt8) (neg : Bool) (sig : U256) (exp : Int16)
    (trunc : Int8) :
    ⦃⌜sig.toNat ≠ 0 ∨ trunc ≠ -1⌝⦄ Gen.RoundingMode.reduce256 rm neg sig exp trunc ⦃⇓ _ => ⌜True⌝⦄ :=
  triple_of_total (reduce256_total rm neg sig exp trunc)

@[spec] theorem reduce64_total_triple (rm : UInt8) (neg : Bool) (sig : UInt64) (exp : Int16) :
    ⦃⌜True⌝⦄ Gen.RoundingMode.reduce64 rm neg sig exp ⦃⇓ _ => ⌜True⌝⦄ :=
  triple_of_total (fun _ => reduce64_total rm neg sig exp)

/-! ## mode-restricted unconditional totality (no hypothesis on `sig`, `exp`, `trunc`)

  For mode/sign combinations that never decide `adjust = -1` (`NoDown`: every mode byte except
  `ToZero` = 2, `ToPositiveInf` = 5 on negative values, `ToNegativeInf` = 4 on non-negative values) the
  `sig - 1` wrap in `round` is unreachable, and all phases of `reduce*` terminate unconditionally. -/

/-- a `while` loop whose body never panics and decreases a variant on every continuing pass -/
theorem loop_ok {β : Type} (f : Unit → β → Go.GoM (ForInStep β)) (μ : β → Nat)
    (step : ∀ b, (∃ b', f () b = .ok (.yield b') ∧ μ b' < μ b) ∨ (∃ b', f () b = .ok (.done b')))
    (b : β) : ∃ b', forIn (m := Go.GoM) Lean.Loop.mk b f = .ok b' := by
  obtain ⟨b', e, _⟩ := loop_inv f (fun _ => True) (fun _ => True) μ
    (fun b _ => by
      rcases step b with ⟨b', e, hlt⟩ | ⟨b', e⟩
      · exact Or.inl ⟨b', e, trivial, hlt⟩
      · exact Or.inr ⟨b', e, trivial⟩) b trivial
  exact ⟨b', e⟩

theorem reduceTail_total_nodown (rm : UInt8) (neg : Bool) (sig : U128) (exp : Int16) (trunc : Int8)
    (digit : UInt64) (hm : NoDown rm neg) :
    ∃ r, reduceTail rm neg sig exp trunc digit = .ok r := by
  obtain ⟨s1, e1⟩ := loop_ok dropBody (fun b => b.1.toNat) dropBody_total (sig, exp, trunc, digit)
  obtain ⟨s2, e2⟩ := loop_ok subBody (fun b => (-b.2.1.toInt).toNat) subBody_total
    (s1.1, s1.2.1, s1.2.2.1, s1.2.2.2)
  obtain ⟨s3, e3, _⟩ := upLoop_total (s2.1, s2.2.1)
  unfold reduceTail dropLoop subLoop
  rw [e1, ok_bind, e2, ok_bind, e3, ok_bind]
  exact round_total_nodown _ _ _ _ _ _ _ hm

theorem ladder128_ok {α : Type} (k : U128 → Int16 → Int8 → UInt64 → Go.GoM α) (sig : U128)
    (exp : Int16) (trunc : Int8) (hk : ∀ s' e' t' d', ∃ r, k s' e' t' d' = .ok r) :
    ∃ r, ladder128 k sig exp trunc = .ok r := by
  unfold ladder128
  by_cases h4 : decide (sig.w1 > 703687441776640000) = true
  · obtain ⟨q, r, e, hq, hr⟩ := U128_div10000_spec sig
    simp only [h4, if_true, e, ok_bind]
    rw [ladder_branch k q r (exp + 4) trunc 1000]
    apply hk
  · by_cases h3 : decide (sig.w1 > 70368744177664000) = true
    · obtain ⟨q, r, e, hq, hr⟩ := U128_div1000_spec sig
      simp only [h4, h3, if_true, e, ok_bind]
      rw [ladder_branch k q r (exp + 3) trunc 100]
      apply hk
    · by_cases h2 : decide (sig.w1 > 7036874417766400) = true
      · obtain ⟨q, r, e, hq, hr⟩ := U128_div100_spec sig
        simp only [h4, h3, h2, if_true, e, ok_bind]
        rw [ladder_branch k q r (exp + 2) trunc 10]
        apply hk
      · simp only [h4, h3, h2]
        exact hk _ _ _ _

theorem step192_ok {α : Type} (k : U192 → Int16 → Int8 → Go.GoM α) (sig : U192) (exp : Int16)
    (trunc : Int8) (hk : ∀ n' e' t', ∃ r, k n' e' t' = .ok r) :
    ∃ r, step192 k sig exp trunc = .ok r := by
  unfold step192
  by_cases hc : decide (sig.w2 > 10000) = true
  · obtain ⟨q, r, e, hq, hr⟩ := D128.Proofs.WordsWide.U192_div1e8_eq sig
    simp only [hc, if_true, e, ok_bind]
    by_cases hd : (r != 0) = true
    · simp only [hd, if_true]
      exact hk _ _ _
    · simp only [hd, Bool.false_eq_true, if_false]
      exact hk _ _ _
  · simp only [hc]
    exact hk _ _ _

theorem wide256Body_total (b : W256) :
    (∃ b', wide256Body () b = .ok (.yield b') ∧ b'.1.toNat < b.1.toNat) ∨
    (∃ b', wide256Body () b = .ok (.done b')) := by
  obtain ⟨q, r, e, hq, hr⟩ := D128.Proofs.WordsWide.U256_div1e19_eq b.1
  have hw0 := b.1.w0.toNat_lt
  have hw1 := b.1.w1.toNat_lt
  have hw2 := b.1.w2.toNat_lt
  by_cases hc : decide (b.1.w3 > 0) = true
  · left
    have hgt : 2 ^ 192 ≤ b.1.toNat := by
      rw [decide_eq_true_eq, gt_iff_lt, UInt64.lt_iff_toNat_lt] at hc
      have hc' : 0 < b.1.w3.toNat := hc
      simp only [U256.toNat]; omega
    by_cases hd : (r != 0) = true
    · exact ⟨_, by simp only [wide256Body, hc, if_true, e, ok_bind, hd]; rfl,
        by show q.toNat < _; omega⟩
    · exact ⟨_, by simp only [wide256Body, hc, if_true, e, ok_bind, hd]; rfl,
        by show q.toNat < _; omega⟩
  · right
    exact ⟨_, by simp only [wide256Body, hc]; rfl⟩

/-- **`reduce128` is total for ALL arguments** when the mode/sign never decides `adjust = -1`. -/
theorem reduce128_total_nodown (rm : UInt8) (neg : Bool) (sig : U128) (exp : Int16) (trunc : Int8)
    (hm : NoDown rm neg) : ∃ r, Gen.RoundingMode.reduce128 rm neg sig exp trunc = .ok r := by
  rw [reduce128_eq]
  apply ladder128_ok
  intro s' e' t' d'
  exact reduceTail_total_nodown _ _ _ _ _ _ hm

/-- **`reduce192` is total for ALL arguments** when the mode/sign never decides `adjust = -1`. -/
theorem reduce192_total_nodown (rm : UInt8) (neg : Bool) (sig : U192) (exp : Int16) (trunc : Int8)
    (hm : NoDown rm neg) : ∃ r, Gen.RoundingMode.reduce192 rm neg sig exp trunc = .ok r := by
  rw [reduce192_eq]
  apply step192_ok
  intro n e t
  obtain ⟨s, es⟩ := loop_ok wide192Body (fun b => b.1.toNat) wide192Body_total (n, e, t)
  show ∃ r, (do
    let s ← forIn (m := Go.GoM) Lean.Loop.mk (n, e, t) wide192Body
    ladder128 (fun s' e' t' d' => reduceTailP rm neg e' t' s' d')
      { w0 := s.1.w0, w1 := s.1.w1 } s.2.1 s.2.2) = .ok r
  rw [es, ok_bind]
  apply ladder128_ok
  intro s' e' t' d'
  rw [reduceTailP_eq]
  exact reduceTail_total_nodown _ _ _ _ _ _ hm

/-- **`reduce256` is total for ALL arguments** when the mode/sign never decides `adjust = -1`. -/
theorem reduce256_total_nodown (rm : UInt8) (neg : Bool) (sig : U256) (exp : Int16) (trunc : Int8)
    (hm : NoDown rm neg) : ∃ r, Gen.RoundingMode.reduce256 rm neg sig exp trunc = .ok r := by
  rw [reduce256_eq]
  obtain ⟨s0, e0⟩ := loop_ok wide256Body (fun b => b.1.toNat) wide256Body_total (sig, exp, trunc)
  rw [e0, ok_bind]
  apply step192_ok
  intro n e t
  obtain ⟨s, es⟩ := loop_ok wide192Body (fun b => b.1.toNat) wide192Body_total (n, e, t)
  show ∃ r, (do
    let s2 ← forIn (m := Go.GoM) Lean.Loop.mk (e, t, n) wide192BodyP
    ladder128 (fun s' e' t' d' => reduceTailP rm neg e' t' s' d')
      { w0 := s2.2.2.w0, w1 := s2.2.2.w1 } s2.1 s2.2.1) = .ok r
  have hP : forIn (m := Go.GoM) Lean.Loop.mk (e, t, n) wide192BodyP = .ok (s.2.1, s.2.2, s.1) := by
    rw [wide192P_eq]
    show Except.map _ (forIn (m := Go.GoM) Lean.Loop.mk (n, e, t) wide192Body) = _
    rw [es]; rfl
  rw [hP, ok_bind]
  apply ladder128_ok
  intro s' e' t' d'
  rw [reduceTailP_eq]
  exact reduceTail_total_nodown _ _ _ _ _ _ hm

/-- sign-aware form -/
theorem reduce192_total_modes_sign (rm : UInt8) (neg : Bool) (sig : U192) (exp : Int16) (trunc : Int8)
    (hm : rm ≠ 2 ∧ ¬ (rm = 5 ∧ neg = true) ∧ ¬ (rm = 4 ∧ neg = false)) :
    ∃ r, Gen.RoundingMode.reduce192 rm neg sig exp trunc = .ok r :=
  reduce192_total_nodown rm neg sig exp trunc (noDown_of_modes_sign rm neg hm)

/-- `ToNearestEven` (0), `ToNearestAway` (1), `AwayFromZero` (3) and every invalid mode byte ≥ 6:
    `reduce192` terminates without panic for ALL `neg sig exp trunc`. -/
theorem reduce192_total_modes (rm : UInt8) (neg : Bool) (sig : U192) (exp : Int16) (trunc : Int8)
    (hm : rm ≠ 2 ∧ rm ≠ 4 ∧ rm ≠ 5) :
    ∃ r, Gen.RoundingMode.reduce192 rm neg sig exp trunc = .ok r :=
  reduce192_total_nodown rm neg sig exp trunc (noDown_of_modes rm neg hm)

theorem reduce128_total_modes_sign (rm : UInt8) (neg : Bool) (sig : U128) (exp : Int16) (trunc : Int8)
    (hm : rm ≠ 2 ∧ ¬ (rm = 5 ∧ neg = true) ∧ ¬ (rm = 4 ∧ neg = false)) :
    ∃ r, Gen.RoundingMode.reduce128 rm neg sig exp trunc = .ok r :=
  reduce128_total_nodown rm neg sig exp trunc (noDown_of_modes_sign rm neg hm)

theorem reduce128_total_modes (rm : UInt8) (neg : Bool) (sig : U128) (exp : Int16) (trunc : Int8)
    (hm : rm ≠ 2 ∧ rm ≠ 4 ∧ rm ≠ 5) :
    ∃ r, Gen.RoundingMode.reduce128 rm neg sig exp trunc = .ok r :=
  reduce128_total_nodown rm neg sig exp trunc (noDown_of_modes rm neg hm)

theorem reduce256_total_modes_sign (rm : UInt8) (neg : Bool) (sig : U256) (exp : Int16) (trunc : Int8)
    (hm : rm ≠ 2 ∧ ¬ (rm = 5 ∧ neg = true) ∧ ¬ (rm = 4 ∧ neg = false)) :
    ∃ r, Gen.RoundingMode.reduce256 rm neg sig exp trunc = .ok r :=
  reduce256_total_nodown rm neg sig exp trunc (noDown_of_modes_sign rm neg hm)

theorem reduce256_total_modes (rm : UInt8) (neg : Bool) (sig : U256) (exp : Int16) (trunc : Int8)
    (hm : rm ≠ 2 ∧ rm ≠ 4 ∧ rm ≠ 5) :
    ∃ r, Gen.RoundingMode.reduce256 rm neg sig exp trunc = .ok r :=
  reduce256_total_nodown rm neg sig exp trunc (noDown_of_modes rm neg hm)

/-- Hoare-triple forms; deliberately NOT `@[spec]` (they would clash with `reduce*_total_triple`) -/
theorem reduce192_total_modes_triple (rm : UInt8) (neg : Bool) (sig : U192) (exp : Int16)
    (trunc : Int8) :
    ⦃⌜rm ≠ 2 ∧ rm ≠ 4 ∧ rm ≠ 5⌝⦄ Gen.RoundingMode.reduce192 rm neg sig exp trunc ⦃⇓ _ => ⌜True⌝⦄ :=
  triple_of_total (reduce192_total_modes rm neg sig exp trunc)

theorem reduce128_total_modes_triple (rm : UInt8) (neg : Bool) (sig : U128) (exp : Int16)
    (trunc : Int8) :
    ⦃⌜rm ≠ 2 ∧ rm ≠ 4 ∧ rm ≠ 5⌝⦄ Gen.RoundingMode.reduce128 rm neg sig exp trunc ⦃⇓ _ => ⌜True⌝⦄ :=
  triple_of_total (reduce128_total_modes rm neg sig exp trunc)

theorem reduce256_total_modes_triple (rm : UInt8) (neg : Bool) (sig : U256) (exp : Int16)
    (trunc : Int8) :
    ⦃⌜rm ≠ 2 ∧ rm ≠ 4 ∧ rm ≠ 5⌝⦄ Gen.RoundingMode.reduce256 rm neg sig exp trunc ⦃⇓ _ => ⌜True⌝⦄ :=
  triple_of_total (reduce256_total_modes rm neg sig exp trunc)

/-- the default mode on the input on which `ToZero` loops forever (`reduce192_zero_stuck`) -/
example : ∃ r, Gen.RoundingMode.reduce192 0 false { w0 := 0, w1 := 0, w2 := 0 } 6176 (-1) = .ok r :=
  reduce192_total_modes _ _ _ _ _ (by decide)

/-! ## FINDING: the hypothesis is necessary -/

/-- `reduce192` on `sig = 0, trunc = -1` (exponent in range) with a mode/sign whose decision is
    `adjust = -1` (`ToZero`; `ToPositiveInf` & `neg`; `ToNegativeInf` & `¬neg`) reaches the stuck state of
    `round` (see `roundLoop_zero_stuck`: from there every pass is a `continue` to the same state). -/
theorem reduce192_zero_stuck (rm : UInt8) (neg : Bool) (exp : Int16)
    (h : adjW rm neg 0 (-1) 0 = -1) (h0 : 0 ≤ exp.toInt) (h1 : exp.toInt ≤ 12287) :
    Gen.RoundingMode.reduce192 rm neg { w0 := 0, w1 := 0, w2 := 0 } exp (-1)
      = roundLoop rm neg (none, false, { w0 := 0, w1 := 0 }, 1, -1, 0) := by
  have hw : forIn (m := Go.GoM) Lean.Loop.mk
      ((({ w0 := 0, w1 := 0, w2 := 0 } : U192), exp, (-1 : Int8)) : W192) wide192Body
      = .ok ({ w0 := 0, w1 := 0, w2 := 0 }, exp, -1) := by
    rw [Go.loop_unfold]; rfl
  have hd : dropLoop (({ w0 := 0, w1 := 0 } : U128), exp, (-1 : Int8), (0 : UInt64))
      = .ok ({ w0 := 0, w1 := 0 }, exp, -1, 0) := by
    unfold dropLoop; rw [Go.loop_unfold]; rfl
  have hs : subLoop (({ w0 := 0, w1 := 0 } : U128), exp, (-1 : Int8), (0 : UInt64))
      = .ok ({ w0 := 0, w1 := 0 }, exp, -1, 0) := by
    have hc : ¬ (decide (exp < 0) = true) := by
      rw [i16_lt_zero]; simp only [decide_eq_true_eq]; omega
    unfold subLoop; rw [Go.loop_unfold]
    simp only [subBody, hc]
    rfl
  have hu : upLoop (({ w0 := 0, w1 := 0 } : U128), exp) = .ok ({ w0 := 0, w1 := 0 }, exp) := by
    have hc : ¬ ((decide (exp > 12287) && decide (({ w0 := 0, w1 := 0 } : U128).w1 < 703687441776639)) = true) := by
      rw [i16_gt_12287]; simp only [Bool.and_eq_true, decide_eq_true_eq, not_and]; omega
    unfold upLoop; rw [Go.loop_unfold]
    simp only [upBody, hc]
    rfl
  rw [reduce192_eq]
  unfold step192
  rw [if_neg (by decide)]
  show (do
    let s ← forIn (m := Go.GoM) Lean.Loop.mk
      ((({ w0 := 0, w1 := 0, w2 := 0 } : U192), exp, (-1 : Int8)) : W192) wide192Body
    ladder128 (fun s' e' t' d' => reduceTailP rm neg e' t' s' d')
      { w0 := s.1.w0, w1 := s.1.w1 } s.2.1 s.2.2) = _
  rw [hw, ok_bind]
  show ladder128 (fun s' e' t' d' => reduceTailP rm neg e' t' s' d') { w0 := 0, w1 := 0 } exp (-1) = _
  unfold ladder128
  rw [if_neg (by decide), if_neg (by decide), if_neg (by decide)]
  show reduceTailP rm neg exp (-1) { w0 := 0, w1 := 0 } 0 = _
  rw [reduceTailP_eq]
  unfold reduceTail
  rw [hd, ok_bind, hs, ok_bind, hu, ok_bind]
  exact round_zero_stuck_shift rm neg exp h

/-! ## examples: the hypotheses are satisfiable on non-trivial inputs -/

/-- invalid mode byte, exponent near the top of `Int16`, a full 192-bit significand -/
example : ∃ r, Gen.RoundingMode.reduce192 77 true
    { w0 := 12345, w1 := 18446744073709551615, w2 := 18446744073709551615 } 32767 (-1) = .ok r :=
  reduce192_total _ _ _ _ _ (Or.inl (by decide))

/-- zero significand with a sticky flag -/
example : ∃ r, Gen.RoundingMode.reduce192 2 false { w0 := 0, w1 := 0, w2 := 0 } (-5) 1 = .ok r :=
  reduce192_total _ _ _ _ _ (Or.inr (by decide))

example : ∃ r, Gen.RoundingMode.reduce128 2 false { w0 := 7, w1 := 9 } (-32768) (-1) = .ok r :=
  reduce128_total _ _ _ _ _ (Or.inl (by decide))

example : ∃ r, Gen.RoundingMode.reduce256 9 false { w0 := 0, w1 := 0, w2 := 0, w3 := 1 } 32767 0 = .ok r :=
  reduce256_total _ _ _ _ _ (Or.inr (by decide))

end D128.Proofs.Total
