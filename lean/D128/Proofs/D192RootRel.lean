/-
  D128/Proofs/D192RootRel.lean — the final step of `Sqrt`/`Cbrt` in RELATIVE form, covering also short
  (un-normalised) exact iterates.

  Provided (namespace `Root`):
  * `finishK_of_spec`   : the finish stage returns what `Spec.flushOrRoundS` says (through `reduce192_correct`),
                          for any property of the representations of the rounded value
  * `bridge_pow`        : relative closeness `(1-β)x^k ≤ X ≤ (1+γ)x^k`, `x = N·P` ⇒ `((N∓a)P)^k ≤/≥ X` (k ≥ 1)
  * `rel_to_abs`        : for `N ≥ 6e56`, `β, γ ≤ 4.1e-55` the tolerance `a = N/(2e54)` does it
  * `finishK_rootOk_rel`: **final step, relative form**: `(1-β)x^k ≤ c·10^e ≤ (1+γ)x^k`, `β,γ ≤ 4.1e-55`,
                          flag ∈ {0,±1}, and (`LIM ≤ sig` ∨ flag = 0) ⇒ `Spec.rootOk`.  A short exact iterate
                          (flag 0) is handled by rescaling the specification by `10^60`.
-/
import D128.Proofs.D192RootFinish
import D128.Proofs.D192RootOps
set_option autoImplicit false
set_option maxRecDepth 4096
set_option linter.unusedVariables false
namespace Root
open Gen Spec SpecRound D192
local notation "𝔳[" d "]" => Spec.interp (Gen.Decimal.lo d) (Gen.Decimal.hi d)

/-- the finish stage returns what the specification of the final rounding says, for any property `P` of
the representations of the rounded value -/
theorem finishK_of_spec (rm : UInt8) (m : Spec.Mode) (neg : Bool) (sig : U192) (exp : Int16)
    (trunc : Int8) (τ : ℚ) (P : Nat → Int → Prop)
    (hm : Spec.Mode.ofNat? rm.toNat = some m)
    (he0 : -20000 ≤ exp.toInt) (he1 : exp.toInt ≤ 20000)
    (ht : RK.TruncRel trunc.toInt τ) (hq : 0 < (sig.toNat : ℚ) + τ)
    (hT1 : trunc = 1 → Spec.Cmax < sig.toNat)
    (hTm1 : trunc = -1 → Spec.Cmax < sig.toNat ∧ (100 * 2 ^ 110 ≤ sig.toNat ∨ -1 / 10 < τ))
    (hfl : trunc = -1 →
      Spec.pow10 (Spec.Emin - 1) ≤ ((sig.toNat : ℚ) + τ) * Spec.pow10 (exp.toInt - 6176))
    (hspec : ∃ c0 e0, Spec.flushOrRoundS m neg ((sig.toNat : ℚ) + τ) (exp.toInt - 6176) = .fin neg c0 e0 ∧
      ∀ rc re, rc ≤ Spec.Cmax → (rc : ℚ) * (10 : ℚ) ^ re = (c0 : ℚ) * (10 : ℚ) ^ e0 → P rc re) :
    ∃ r rc re, finishK rm neg sig exp trunc = .ok r ∧ 𝔳[r] = .fin neg rc re ∧ P rc re := by
  obtain ⟨c0, e0, hfin, hall⟩ := hspec
  obtain ⟨sig', exp', hred, hpost⟩ := reduce192_correct rm m neg sig exp trunc τ hm he0 he1 ht hq hT1 hTm1 hfl
  rw [hfin] at hpost
  unfold finishK
  rw [hred]
  have e12 : (exp' > 12287) ↔ exp'.toInt > 12287 := by
    rw [gt_iff_lt, Int16.lt_iff_toInt_lt]; simp
  by_cases hgt : exp'.toInt > 12287
  · rw [if_pos hgt] at hpost; cases hpost
  · rw [if_neg hgt] at hpost
    obtain ⟨hs', he', hsame⟩ := hpost
    refine ⟨compose neg sig' exp', sig'.toNat, exp'.toInt - 6176, ?_, ?_, ?_⟩
    · show (if decide (exp' > 12287) = true then _ else _) = _
      rw [if_neg (by simpa [e12] using hgt)]; rfl
    · exact Sp.interp_compose neg sig' exp' hs' he' (by omega)
    · apply hall _ _ hs'
      simp only [Spec.Val.same, Bool.and_eq_true, beq_iff_eq, Spec.mag, pow10_eq_zpow] at hsame
      exact hsame.2.symm

/-- relative closeness ⇒ absolute closeness in units of `P`, k-th powers, `k ≥ 1` -/
theorem bridge_pow (j : ℕ) (N a : ℕ) (P X β γ : ℚ) (hP : 0 ≤ P) (hβ0 : 0 ≤ β) (hγ0 : 0 ≤ γ)
    (hlo : (1 - β) * ((N : ℚ) * P) ^ (j + 1) ≤ X) (hhi : X ≤ (1 + γ) * ((N : ℚ) * P) ^ (j + 1))
    (hβa : β * N ≤ a) (hγa : γ * N ≤ a) (haN : a ≤ N) :
    (((N : ℚ) - a) * P) ^ (j + 1) ≤ X ∧ X ≤ (((N : ℚ) + a) * P) ^ (j + 1) := by
  have hPk : 0 ≤ P ^ (j + 1) := pow_nonneg hP _
  have hN0 : (0 : ℚ) ≤ (N : ℚ) := Nat.cast_nonneg _
  have ha0 : (0 : ℚ) ≤ (a : ℚ) := Nat.cast_nonneg _
  have haNq : (a : ℚ) ≤ (N : ℚ) := by exact_mod_cast haN
  have hNj : (0 : ℚ) ≤ (N : ℚ) ^ j := pow_nonneg hN0 j
  constructor
  · have h1 : ((N : ℚ) - a) ^ (j + 1) ≤ (1 - β) * (N : ℚ) ^ (j + 1) := by
      have h2 : ((N : ℚ) - a) ^ j ≤ (N : ℚ) ^ j := pow_le_pow_left₀ (by linarith) (by linarith) j
      have h3 : ((N : ℚ) - a) ^ (j + 1) ≤ (N : ℚ) ^ j * ((N : ℚ) - a) := by
        rw [pow_succ]; exact mul_le_mul_of_nonneg_right h2 (by linarith)
      have h4 : (β * N) * (N : ℚ) ^ j ≤ a * (N : ℚ) ^ j := mul_le_mul_of_nonneg_right hβa hNj
      have e1 : (N : ℚ) ^ j * ((N : ℚ) - a) = (N : ℚ) ^ (j + 1) - a * (N : ℚ) ^ j := by ring
      have e2 : (1 - β) * (N : ℚ) ^ (j + 1) = (N : ℚ) ^ (j + 1) - (β * N) * (N : ℚ) ^ j := by ring
      rw [e2]; rw [e1] at h3; linarith
    calc (((N : ℚ) - a) * P) ^ (j + 1) = ((N : ℚ) - a) ^ (j + 1) * P ^ (j + 1) := mul_pow _ _ _
      _ ≤ ((1 - β) * (N : ℚ) ^ (j + 1)) * P ^ (j + 1) := mul_le_mul_of_nonneg_right h1 hPk
      _ = (1 - β) * ((N : ℚ) * P) ^ (j + 1) := by rw [mul_pow]; ring
      _ ≤ X := hlo
  · have h1 : (1 + γ) * (N : ℚ) ^ (j + 1) ≤ ((N : ℚ) + a) ^ (j + 1) := by
      have h2 : (N : ℚ) ^ j ≤ ((N : ℚ) + a) ^ j := pow_le_pow_left₀ hN0 (by linarith) j
      have h3 : (N : ℚ) ^ j * ((N : ℚ) + a) ≤ ((N : ℚ) + a) ^ (j + 1) := by
        rw [pow_succ]; exact mul_le_mul_of_nonneg_right h2 (by linarith)
      have h4 : (γ * N) * (N : ℚ) ^ j ≤ a * (N : ℚ) ^ j := mul_le_mul_of_nonneg_right hγa hNj
      have e1 : (N : ℚ) ^ j * ((N : ℚ) + a) = (N : ℚ) ^ (j + 1) + a * (N : ℚ) ^ j := by ring
      have e2 : (1 + γ) * (N : ℚ) ^ (j + 1) = (N : ℚ) ^ (j + 1) + (γ * N) * (N : ℚ) ^ j := by ring
      rw [e2]; rw [e1] at h3; linarith
    calc X ≤ (1 + γ) * ((N : ℚ) * P) ^ (j + 1) := hhi
      _ = ((1 + γ) * (N : ℚ) ^ (j + 1)) * P ^ (j + 1) := by rw [mul_pow]; ring
      _ ≤ ((N : ℚ) + a) ^ (j + 1) * P ^ (j + 1) := mul_le_mul_of_nonneg_right h1 hPk
      _ = (((N : ℚ) + a) * P) ^ (j + 1) := (mul_pow _ _ _).symm

/-- for `N ≥ 6e56` and relative defects `≤ 4.1e-55` the tolerance `a = N/(2e54)` satisfies everything the
final-step theorems ask for -/
theorem rel_to_abs (j : ℕ) (N : ℕ) (P X β γ : ℚ) (hN : 6 * 10 ^ 56 ≤ N) (hP : 0 ≤ P)
    (hβ0 : 0 ≤ β) (hβ : β ≤ 41 / 10 ^ 56) (hγ0 : 0 ≤ γ) (hγ : γ ≤ 41 / 10 ^ 56)
    (hlo : (1 - β) * ((N : ℚ) * P) ^ (j + 1) ≤ X) (hhi : X ≤ (1 + γ) * ((N : ℚ) * P) ^ (j + 1)) :
    ∃ a : ℕ, (a + 1) * 10 ^ 20 * (Spec.Cmax + 1) < N ∧
      (((N : ℚ) - a) * P) ^ (j + 1) ≤ X ∧ X ≤ (((N : ℚ) + a) * P) ^ (j + 1) := by
  have hNq : (6 * 10 ^ 56 : ℚ) ≤ (N : ℚ) := by exact_mod_cast hN
  have hN0 : (0 : ℚ) ≤ (N : ℚ) := Nat.cast_nonneg _
  have ha : ((N / (2 * 10 ^ 54) : Nat) : ℚ) ≥ 5 / 10 ^ 55 * (N : ℚ) - 1 := by
    have := Nat.lt_div_mul_add (a := N) (b := 2 * 10 ^ 54) (by norm_num)
    have h' : (N : ℚ) < ((N / (2 * 10 ^ 54) : Nat) : ℚ) * (2 * 10 ^ 54) + (2 * 10 ^ 54) := by
      exact_mod_cast this
    have e : (5 : ℚ) / 10 ^ 55 * (N : ℚ) = (N : ℚ) / (2 * 10 ^ 54) := by ring
    rw [ge_iff_le, e, sub_le_iff_le_add, div_le_iff₀ (by norm_num)]
    linarith
  have hkey : (41 : ℚ) / 10 ^ 56 * (N : ℚ) ≤ 5 / 10 ^ 55 * (N : ℚ) - 1 := by
    have : (9 : ℚ) / 10 ^ 56 * (6 * 10 ^ 56) ≤ 9 / 10 ^ 56 * (N : ℚ) :=
      mul_le_mul_of_nonneg_left hNq (by norm_num)
    have e2 : (9 : ℚ) / 10 ^ 56 * (6 * 10 ^ 56) = 54 := by norm_num
    linarith
  refine ⟨N / (2 * 10 ^ 54), ?_, ?_⟩
  · have h1' : N / (2 * 10 ^ 54) * (2 * 10 ^ 54) ≤ N := Nat.div_mul_le_self _ _
    have hC : Spec.Cmax + 1 = 12980742146337069071326240823050240 := by unfold Spec.Cmax; norm_num
    rw [hC]
    generalize N / (2 * 10 ^ 54) = q at h1' ⊢
    omega
  · refine bridge_pow j N _ P X β γ hP hβ0 hγ0 hlo hhi ?_ ?_ (Nat.div_le_self _ _)
    · have := mul_le_mul_of_nonneg_right hβ hN0
      linarith
    · have := mul_le_mul_of_nonneg_right hγ hN0
      linarith

/-- **Final step, relative form.**  The last iterate `x = sig·10^(exp-6176)` satisfies
`(1-β)·x^k ≤ c·10^e ≤ (1+γ)·x^k` with `β, γ ≤ 4.1e-55`; the flag is 0, 1 or -1; and either the significand is
normalised (`LIM ≤ sig`) or the flag is 0 (an exact short iterate).  Then the finish stage returns a Decimal
accepted by `Spec.rootOk`. -/
theorem finishK_rootOk_rel (rm : UInt8) (m : Spec.Mode) (neg : Bool) (sig : U192) (exp : Int16)
    (trunc : Int8) (j c : Nat) (e : Int) (β γ : ℚ)
    (hm : Spec.Mode.ofNat? rm.toNat = some m) (hn : isNearest m = true)
    (hj1 : 1 ≤ j) (hj2 : j ≤ 2)
    (ht : trunc = 0 ∨ trunc = 1 ∨ trunc = -1)
    (hx0 : -20000 ≤ exp.toInt) (hx1 : exp.toInt ≤ 20000)
    (hc0 : 0 < c) (hc : c ≤ Spec.Cmax) (he0 : Spec.Emin ≤ e) (he1 : e ≤ Spec.Emax)
    (hsig : 1 ≤ sig.toNat) (hnorm : LIM ≤ sig.toNat ∨ trunc = 0)
    (hβ0 : 0 ≤ β) (hβ : β ≤ 41 / 10 ^ 56) (hγ0 : 0 ≤ γ) (hγ : γ ≤ 41 / 10 ^ 56)
    (hlo : (1 - β) * ((sig.toNat : ℚ) * (10 : ℚ) ^ (exp.toInt - 6176)) ^ (j + 1) ≤ (c : ℚ) * (10 : ℚ) ^ e)
    (hhi : (c : ℚ) * (10 : ℚ) ^ e ≤ (1 + γ) * ((sig.toNat : ℚ) * (10 : ℚ) ^ (exp.toInt - 6176)) ^ (j + 1)) :
    ∃ r rc re, finishK rm neg sig exp trunc = .ok r ∧ 𝔳[r] = .fin neg rc re ∧
      Spec.rootOk (j + 1) c e rc re = true := by
  by_cases hL : LIM ≤ sig.toNat
  · -- normalised significand: any flag
    obtain ⟨a, hN, h1, h2⟩ := rel_to_abs j sig.toNat ((10 : ℚ) ^ (exp.toInt - 6176)) ((c : ℚ) * (10 : ℚ) ^ e) β γ
      (le_trans (by unfold LIM; norm_num) hL) (zpow_pos (by norm_num) _).le hβ0 hβ hγ0 hγ hlo hhi
    exact finishK_rootOk rm m neg sig exp trunc (j + 1) c e a hm hn (by omega) (by omega) ht hx0 hx1
      hc0 hc he0 he1 hN h1 h2
  · -- short significand: the flag is 0 and the iterate is exact; rescale by 10^60
    have ht0 : trunc = 0 := by rcases hnorm with h | h; exact absurd h hL; exact h
    subst ht0
    set E : Int := exp.toInt - 6176 with hE
    set N' : Nat := sig.toNat * 10 ^ 60 with hN'
    have hN'ge : 6 * 10 ^ 56 ≤ N' := by
      have : 1 * 10 ^ 60 ≤ sig.toNat * 10 ^ 60 := Nat.mul_le_mul_right _ hsig
      omega
    have hval : (N' : ℚ) * (10 : ℚ) ^ (E - 60) = (sig.toNat : ℚ) * (10 : ℚ) ^ E := by
      rw [hN', zpow_sub₀ (by norm_num : (10 : ℚ) ≠ 0)]; push_cast
      field_simp
    obtain ⟨a, hN, h1, h2⟩ := rel_to_abs j N' ((10 : ℚ) ^ (E - 60)) ((c : ℚ) * (10 : ℚ) ^ e) β γ hN'ge
      (zpow_pos (by norm_num) _).le hβ0 hβ hγ0 hγ (by rw [hval]; exact hlo) (by rw [hval]; exact hhi)
    obtain ⟨c0, e0, hfl, -, hall⟩ := nearest_rootOk m hn (j + 1) (by omega) (by omega) c e N' a 0 (E - 60)
      neg hc0 hc he0 he1 (by norm_num) (by norm_num) hN h1 h2
    have hsq : (0 : ℚ) < (sig.toNat : ℚ) := by exact_mod_cast hsig
    have hspec : Spec.flushOrRoundS m neg ((sig.toNat : ℚ) + 0) E = .fin neg c0 e0 := by
      rw [← hfl, flushOrRoundS_eq m neg _ (by linarith) E,
        flushOrRoundS_eq m neg _ (by positivity) (E - 60), add_zero, add_zero, hval]
    exact finishK_of_spec rm m neg sig exp 0 0 _ hm hx0 hx1 (Or.inl ⟨by decide, rfl⟩)
      (by linarith) (fun h => absurd h (by decide)) (fun h => absurd h (by decide))
      (fun h => absurd h (by decide)) ⟨c0, e0, hspec, hall⟩
end Root
