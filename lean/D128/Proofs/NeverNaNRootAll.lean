/-
  D128/Proofs/NeverNaNRootAll.lean — property C15, "never NaN from finite operands": `Sqrt` and `Cbrt` for
  EVERY value of `DefaultRoundingMode` (invalid mode bytes included; D128/Proofs/NeverNaNRoot.lean covers the
  six valid modes through the accuracy theorems of C17).  Structural: the core (`Root.sqrtCore_ok`,
  `Root.cbrtCore_ok`) delivers a non-zero significand with a small exponent; the finish stage is `reduce192`
  + overflow test + `compose`, and `reduce192` returns a non-negative exponent for every mode byte.

  Provided (namespace `NN`):
  * `tailE_not_nan`                : `reduce192` on any non-wrapping entry exponent, overflow test, `compose`
  * `Sqrt_fin_not_nan`, `Cbrt_fin_not_nan`
  * `Sqrt_isNaN_all`, `Cbrt_isNaN_all` : all bit patterns, every `Globals`
-/
import D128.Proofs.NeverNaNRoot
import D128.Proofs.NeverNaNExp
import D128.Proofs.D192RootSqrtMain
import D128.Proofs.D192RootCbrtMain
set_option autoImplicit false
set_option maxRecDepth 8192
set_option linter.unusedVariables false

namespace NN
open Gen PowPf Root

local notation "𝔳[" d "]" => Spec.interp (Gen.Decimal.lo d) (Gen.Decimal.hi d)

theorem tailE_not_nan (rm : UInt8) (neg sgn : Bool) (sig : U192) (exp : Int16) (trunc : Int8)
    (alt : Decimal) (halt : Decimal.IsNaN alt = false)
    (hJ : sig.toNat ≠ 0 ∨ trunc ≠ -1) (h0 : -32000 ≤ exp.toInt) (h1 : exp.toInt ≤ 20000) (r : Decimal)
    (h : (do
      let x ← RoundingMode.reduce192 rm neg sig exp trunc
      if decide (x.2 > 12287) = true then pure alt else pure (compose sgn x.1 x.2)) = Except.ok r) :
    Decimal.IsNaN r = false := by
  obtain ⟨x, hx, hx0⟩ := reduce192_range rm neg sig exp trunc hJ h0 h1
  rw [hx, RK.ok_bind] at h
  by_cases hc : decide (x.2 > 12287) = true
  · rw [if_pos hc] at h
    have : alt = r := by injection h
    rw [← this]; exact halt
  · rw [if_neg hc] at h
    have : compose sgn x.1 x.2 = r := by injection h
    rw [← this]
    refine (signOk_compose sgn x.1 x.2 hx0 ?_).2
    rw [decide_eq_true_eq, gt_iff_lt, Int16.lt_iff_toInt_lt] at hc
    have : (12287 : Int16).toInt = 12287 := by decide
    omega

/-- finite positive non-zero argument: no result of `Sqrt` is a NaN (every `Globals`) -/
theorem Sqrt_fin_not_nan (g : Globals) (d r : Decimal) (h1 : Decimal.isSpecial d = false)
    (h2 : Decimal.IsZero d = false) (h3 : Decimal.Signbit d = false) (h : Gen.Sqrt g d = .ok r) :
    Decimal.IsNaN r = false := by
  rw [Sqrt_eq g d h1 h2 h3] at h
  obtain ⟨res, trunc, dExp, ν, hcore, -, hs, he0, he1, -, -, -, -⟩ := sqrtCore_ok d h1 h2
  obtain ⟨-, hd0, hd1⟩ := sqrtCore_dExp d h1 res trunc dExp hcore
  rw [hcore] at h
  have h' : sqrtFinish g res trunc dExp = .ok r := h
  unfold sqrtFinish at h'
  have hE := sqrt_exp res.exp dExp (by omega) (by omega) (by omega) (by omega)
  have hb := tdiv2_bounds dExp.toInt
  exact tailE_not_nan _ _ _ res.sig _ trunc _ rfl (Or.inl hs) (by rw [hE]; omega) (by rw [hE]; omega) r h'

/-- finite non-zero argument: no result of `Cbrt` is a NaN (every `Globals`) -/
theorem Cbrt_fin_not_nan (g : Globals) (d r : Decimal) (h1 : Decimal.isSpecial d = false)
    (h2 : Decimal.IsZero d = false) (h : Gen.Cbrt g d = .ok r) : Decimal.IsNaN r = false := by
  rw [Cbrt_eq g d h1 h2] at h
  obtain ⟨res, trunc, hcore, hs, he0, he1, -⟩ := cbrtCore_ok d h1 h2
  rw [hcore] at h
  have h' : cbrtFinish g (Decimal.Signbit d) res trunc = .ok r := h
  unfold cbrtFinish at h'
  exact tail_not_nan _ _ _ res trunc _ (Enc.IsNaN_inf _) (Or.inl hs) (by omega) r h'

/-- **Sqrt**, all bit patterns, every `Globals` (invalid mode bytes included) -/
theorem Sqrt_isNaN_all (g : Globals) (d : Decimal) :
    ∃ r, Gen.Sqrt g d = .ok r ∧
      Decimal.IsNaN r = (Decimal.IsNaN d || (Decimal.Signbit d && !Decimal.IsZero d)) := by
  rcases Enc.classify_partition d with ⟨a, b, c, e⟩ | ⟨a, b, c, e⟩ | ⟨a, b, c, e⟩ | ⟨a, b, c, e⟩
  · exact ⟨d, Props.C17.sqrt_nan g d a, by rw [a]; rfl⟩
  · cases hs : Decimal.Signbit d
    · exact ⟨d, Props.C17.sqrt_pos_inf g d b hs, by rw [a]; rfl⟩
    · exact ⟨_, (Props.C17.sqrt_neg_inf g d b hs).1, by rw [Enc.IsNaN_nan, a, e]; rfl⟩
  · exact ⟨d, Props.C17.sqrt_zero g d c e, by rw [a, e]; simp⟩
  · cases hs : Decimal.Signbit d
    · obtain ⟨r, hr⟩ := D128.Proofs.Total.Sqrt_total g d
      exact ⟨r, hr, by rw [Sqrt_fin_not_nan g d r c e hs hr, a]; rfl⟩
    · exact ⟨_, (Props.C17.sqrt_neg_finite g d c e hs).1, by rw [Enc.IsNaN_nan, a, e]; rfl⟩

/-- **Cbrt**, all bit patterns, every `Globals` -/
theorem Cbrt_isNaN_all (g : Globals) (d : Decimal) :
    ∃ r, Gen.Cbrt g d = .ok r ∧ Decimal.IsNaN r = Decimal.IsNaN d := by
  rcases Enc.classify_partition d with ⟨a, b, c, e⟩ | ⟨a, b, c, e⟩ | ⟨a, b, c, e⟩ | ⟨a, b, c, e⟩
  · exact ⟨d, Props.C17.cbrt_nan g d a, rfl⟩
  · exact ⟨d, Props.C17.cbrt_inf g d b, rfl⟩
  · exact ⟨d, Props.C17.cbrt_zero g d e, rfl⟩
  · obtain ⟨r, hr⟩ := D128.Proofs.Total.Cbrt_total g d
    exact ⟨r, hr, by rw [Cbrt_fin_not_nan g d r c e hr, a]⟩

end NN
