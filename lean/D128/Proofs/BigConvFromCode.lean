/-
  D128/Proofs/BigConvFromCode.lean — code-level normal form of the generated `Gen.FromInt`
  (Go: /repo/convert.go, `func FromInt(i *big.Int) Decimal`; D128/Gen/ConvertBig.lean).

  The generated function is one `do` block with three `while` loops, two of them with an early
  `return inf(neg)`.  Its loops and continuations are named here; they are NOT models proved
  "instead of" the code: `FromInt_eq` ties them to the generated definition by unfolding.

  * `DSt`, `divBody`, `divLoop`   `for bl > lim { i.QuoRem(i, den, r); exp += step; if exp > max { return inf }; … }`
  * `bitsBody`, `bitsLoop`        `for i := len(b)-1; i >= 0; i-- { sig = sig.lsh(64).or64(b[i]) }`
  * `finishFrom`, `from128`, `fromSigned`   the continuations
  * `FromInt_eq` : `Gen.FromInt g i = if i.Sign() == 0 then zero(false) else fromSigned g (i.Sign() < 0) i`
-/
import D128.Proofs.BigConvInt
import D128.Proofs.RoundKernelReduce
set_option autoImplicit false
set_option maxRecDepth 4096
set_option linter.unusedVariables false

namespace BigConv
open Gen

/-- state of the two digit-dropping loops of `FromInt`: early result, i, exp, trunc, bl, r -/
abbrev DSt := Option Gen.Decimal × Go.BigInt × Int16 × Int8 × Int64 × Go.BigInt

/-- body of `for bl > lim { i.QuoRem(i, den, r); exp += step; … }` -/
def divBody (neg : Bool) (lim : Int64) (den : Go.BigInt) (step : Int16) (_ : Unit) (s : DSt) :
    Go.GoM (ForInStep DSt) :=
  if decide (s.2.2.2.2.1 > lim) = true then do
    let x ← Go.BigInt.QuoRem s.2.1 den
    if decide (s.2.2.1 + step > 12287) = true then
      pure (ForInStep.done (some (Gen.inf neg), x.1, s.2.2.1 + step, s.2.2.2.1, s.2.2.2.2.1, x.2))
    else if (Go.BigInt.Sign x.2 != 0) = true then
      pure (ForInStep.yield (none, x.1, s.2.2.1 + step, 1, Go.BigInt.BitLen x.1, x.2))
    else pure (ForInStep.yield (none, x.1, s.2.2.1 + step, s.2.2.2.1, Go.BigInt.BitLen x.1, x.2))
  else pure (ForInStep.done (none, s.2.1, s.2.2.1, s.2.2.2.1, s.2.2.2.2.1, s.2.2.2.2.2))

def divLoop (neg : Bool) (lim : Int64) (den : Go.BigInt) (step : Int16) (st : DSt) : Go.GoM DSt :=
  forIn Lean.Loop.mk st (divBody neg lim den step)

/-- body of `for i := len(b) - 1; i >= 0; i-- { sig = sig.lsh(64).or64(b[i]) }` -/
def bitsBody (b : Go.BigWords) (_ : Unit) (s : U128 × Int64) : Go.GoM (ForInStep (U128 × Int64)) :=
  if decide (s.2 ≥ 0) = true then do
    let t ← Go.BigInt.wget b (Go.idx s.2)
    pure (ForInStep.yield (Gen.U128.or64 (Gen.U128.lsh s.1 64) t, s.2 - 1))
  else pure (ForInStep.done (s.1, s.2))

def bitsLoop (b : Go.BigWords) (st : U128 × Int64) : Go.GoM (U128 × Int64) :=
  forIn Lean.Loop.mk st (bitsBody b)

/-- from `b := i.Bits()` to the end -/
def finishFrom (g : Globals) (neg : Bool) (i : Go.BigInt) (exp : Int16) (trunc : Int8) : Go.GoM Decimal := do
  let s ← bitsLoop (Go.BigInt.Bits i) (default, Go.BigInt.wlen (Go.BigInt.Bits i) - 1)
  let x ← RoundingMode.reduce128 g.DefaultRoundingMode neg s.1 exp trunc
  if decide (x.2 > 12287) = true then pure (Gen.inf neg) else pure (Gen.compose neg x.1 x.2)

/-- the second digit-dropping loop and the rest -/
def from128 (g : Globals) (neg : Bool) (st : DSt) : Go.GoM Decimal := do
  let s ← divLoop neg 128 10 1 st
  match s.1 with
  | some r => pure r
  | none => finishFrom g neg s.2.1 s.2.2.1 s.2.2.2.1

/-- `FromInt` after the sign has been taken -/
def fromSigned (g : Globals) (neg : Bool) (i : Go.BigInt) : Go.GoM Decimal :=
  if decide (Go.BigInt.BitLen i > 128) = true then
    if decide (Go.BigInt.BitLen i > 256) = true then do
      let s ← divLoop neg 256 1000000000000000000 18 (none, Go.BigInt.Set i, 6176, 0, Go.BigInt.BitLen i, 0)
      match s.1 with
      | some r => pure r
      | none => from128 g neg (none, s.2.1, s.2.2.1, s.2.2.2.1, s.2.2.2.2.1, s.2.2.2.2.2)
    else from128 g neg (none, Go.BigInt.Set i, 6176, 0, Go.BigInt.BitLen i, 0)
  else finishFrom g neg i 6176 0

theorem FromInt_eq (g : Globals) (i : Int) :
    Gen.FromInt g i =
      if (Go.BigInt.Sign i == 0) = true then pure (Gen.zero false)
      else fromSigned g (decide (Go.BigInt.Sign i < 0)) i := by
  unfold Gen.FromInt fromSigned from128 finishFrom divLoop bitsLoop divBody bitsBody
  by_cases h0 : (Go.BigInt.Sign i == 0) = true
  · simp only [h0, if_true]
  · by_cases h1 : decide (Go.BigInt.Sign i < 0) = true <;>
      simp only [h0, h1, if_true, if_false, Bool.false_eq_true] <;>
      (split
       · split
         · congr 1
           funext s
           rcases s with ⟨_ | r, s2⟩
           · dsimp only
             congr 1
             funext s
             rcases s with ⟨_ | r, s2⟩ <;> rfl
           · rfl
         · congr 1
           funext s
           rcases s with ⟨_ | r, s2⟩ <;> rfl
       · rfl)
end BigConv
