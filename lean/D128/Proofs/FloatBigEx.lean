/-
  D128/Proofs/FloatBigEx.lean — concrete instances for the big.Float conversions (property C09).  Each value
  was first obtained by `#eval` of the generated `Gen.Decimal.Float` / `Gen.FromFloat`; the proofs go through
  `Float_nonzero`, `FromFloat_eq_FromRat`, `FromRat_spec'` and kernel evaluation (`decide +kernel`) of the
  model's `roundBits` and of the executable specification.

  Provided (namespace `FB`):
  * `cex_trip`       default mode: `FromFloat(0.7.Float(nil)) = 0.6999999999999999999999999999999999`, not `Equal`
                     to 0.7 — the round trip through a 128-bit `big.Float` is not the identity
  * `cex_trip_away`  AwayFromZero: the integer `9999999999999999999999999999999999e10` comes back as `1e44`
  * `ex_float_3bit`  `0.7.Float(f)`, `f` a 3-bit ToPositiveInf receiver holding −5: `0.75`, precision and mode kept
  * `d07`, `d12345`, `dTiny` (= 1e-6150) with their values and the side conditions of `trip_rel_error`,
    `trip_int`, `trip_underflow`
-/
import D128.Proofs.FloatBigTrip
import D128.Proofs.FromRatBoundEx
set_option autoImplicit false
set_option maxRecDepth 4096

namespace FB
open Go Go.BigFloat BF BigConv FromRatBound
local notation "𝔳[" d "]" => Spec.interp (Gen.Decimal.lo d) (Gen.Decimal.hi d)

/-- `0.7` -/
def d07 : Gen.Decimal := Gen.compose false ⟨7, 0⟩ 6175

theorem d07_val : 𝔳[d07] = .fin false 7 (-1) := by
  unfold d07
  rw [Sp.interp_compose false ⟨7, 0⟩ 6175 (by unfold Spec.Cmax; decide) (by decide) (by decide)]
  rfl

def N07 : ℕ := 238197656844656924424362225202237748019
def r07 : ℚ := ((N07 : ℤ) : ℚ) / (((2 ^ 128 : ℕ) : ℤ) : ℚ)

theorem r07_num : r07.num = (N07 : ℤ) :=
  Rat.num_div_eq_of_coprime (by decide +kernel) (by decide +kernel)
theorem r07_den : r07.den = 2 ^ 128 :=
  Int.natCast_inj.1 (Rat.den_div_eq_of_coprime (a := (N07 : ℤ)) (b := ((2 ^ 128 : ℕ) : ℤ)) (by decide +kernel)
    (by decide +kernel))

theorem round07 : roundBits 128 0 false (7 / 10 : ℚ) = r07 := by
  unfold r07 N07; decide +kernel

theorem d07_rat : (𝔳[d07]).toRat = 7 / 10 := by
  rw [d07_val, SpecMeaning.toRat_fin']; norm_num

/-- **The round trip is not the identity.**  Default mode: `0.7.Float(nil)` is
    `238197656844656924424362225202237748019·2^-128` (correctly rounded, error `< 2^-129`), and `FromFloat` of it
    is `0.6999999999999999999999999999999999`, which is not `Equal` to `0.7`: `FromRat` rounds the 39-digit
    numerator to `2381976568446569244243622252022377·10^5` and the denominator `2^128` to
    `3402823669209384634633746074317682·10^5` before it divides.  (Evaluated on the generated code first.) -/
theorem cex_trip (g : Globals) (hg : g.DefaultRoundingMode = 0) :
    ∃ F d', Gen.Decimal.Float d07 none = .ok F ∧ Gen.FromFloat g F = .ok d' ∧
      (𝔳[d07]).toRat = 7 / 10 ∧
      (𝔳[d']).toRat = 6999999999999999999999999999999999 / 10 ^ 34 ∧
      Spec.equal 𝔳[d'] 𝔳[d07] = false := by
  have hm : Spec.Mode.ofNat? g.DefaultRoundingMode.toNat = some .nearestEven := by rw [hg]; rfl
  have hz : (𝔳[d07]).toRat ≠ 0 := by rw [d07_rat]; norm_num
  have hF := Float_nil_nonzero d07 rfl hz
  have hsg : Gen.Decimal.Signbit d07 = false := rfl
  have habs : |(𝔳[d07]).toRat| = 7 / 10 := by rw [d07_rat]; norm_num
  rw [hsg, habs, round07] at hF
  have hr0 : r07 ≠ 0 := by
    intro h; have := r07_num; rw [h] at this; revert this; decide +kernel
  have hbn : Go.Big.bitLen r07.num.natAbs < 2 ^ 63 := by
    rw [r07_num]; exact bitLen_lt_of_lt (L := 128) (by decide +kernel) (by norm_num)
  have hbd : Go.Big.bitLen r07.den < 2 ^ 63 := by
    rw [r07_den]; exact bitLen_lt_of_lt (L := 129) (by decide +kernel) (by norm_num)
  have hq : Spec.quo .nearestEven (Spec.roundTo .nearestEven (decide (r07.num < 0)) (r07.num.natAbs : ℚ))
        (Spec.roundTo .nearestEven false (r07.den : ℚ)) =
      .fin false 6999999999999999999999999999999999 (-34) := by
    rw [r07_num, r07_den]; decide +kernel
  obtain ⟨d', hd', s⟩ := FromRat_spec' g r07 .nearestEven hm hbn hbd hr0
  rw [hq] at s
  have hfv : fvalue ⟨128, 0, .finite, false, r07⟩ = r07 := rfl
  refine ⟨_, d', hF, by rw [FromFloat_eq_FromRat g _ rfl, hfv]; exact hd', d07_rat, ?_⟩
  rcases Cohort.same_cases s with ⟨_, _, _, h2⟩ | ⟨_, h1, h2⟩ | ⟨n, c1, e1, c2, e2, h1, h2, h3⟩
  · cases h2
  · cases h2
  · injection h2 with hn' hc he
    subst hn' hc he
    have hval : (𝔳[d']).toRat = 6999999999999999999999999999999999 / 10 ^ 34 := by
      rw [h1, SpecMeaning.toRat_fin', h3]; norm_num
    refine ⟨hval, ?_⟩
    rw [h1, d07_val]
    cases hE : Spec.equal (.fin false c1 e1) (.fin false 7 (-1)) with
    | false => rfl
    | true =>
      exfalso
      rw [SpecMeaning.equal_fin_iff, ← h1, hval, ← d07_val, d07_rat] at hE
      norm_num at hE

/-! ## instances of the positive theorems -/

/-- `0.7.Float(f)` for a 3-bit receiver in mode ToPositiveInf that holds −5: `0.75`, precision and mode kept -/
theorem ex_float_3bit :
    Gen.Decimal.Float d07 (some ⟨3, 5, .finite, true, 5⟩) = .ok ⟨3, 5, .finite, false, 3 / 4⟩ := by
  have hz : (𝔳[d07]).toRat ≠ 0 := by rw [d07_rat]; norm_num
  have h := Float_nonzero d07 (some ⟨3, 5, .finite, true, 5⟩) rfl
    (fun x hx => by cases hx; show (3 : ℕ) < 2 ^ 64; norm_num) hz
  have habs : |(𝔳[d07]).toRat| = 7 / 10 := by rw [d07_rat]; norm_num
  have hsg : Gen.Decimal.Signbit d07 = false := rfl
  have hP : recvPrec (some (⟨3, 5, .finite, true, 5⟩ : BigFloat)) = 3 := rfl
  have hM : recvMode (some (⟨3, 5, .finite, true, 5⟩ : BigFloat)) = 5 := rfl
  have hr : roundBits 3 5 false (7 / 10 : ℚ) = 3 / 4 := by decide +kernel
  rw [habs, hsg, hP, hM, hr] at h
  exact h

/-- `12345` -/
def d12345 : Gen.Decimal := Gen.compose false ⟨12345, 0⟩ 6176

theorem d12345_val : 𝔳[d12345] = .fin false 12345 0 := by
  unfold d12345
  rw [Sp.interp_compose false ⟨12345, 0⟩ 6176 (by unfold Spec.Cmax; decide) (by decide) (by decide)]
  rfl

theorem d12345_abs : |(𝔳[d12345]).toRat| = ((12345 : ℕ) : ℚ) := by
  rw [d12345_val, abs_toRat_fin]; norm_num

/-- `1e-6150` -/
def dTiny : Gen.Decimal := Gen.compose false ⟨1, 0⟩ 26

theorem dTiny_val : 𝔳[dTiny] = .fin false 1 (-6150) := by
  unfold dTiny
  rw [Sp.interp_compose false ⟨1, 0⟩ 26 (by unfold Spec.Cmax; decide) (by decide) (by decide)]
  rfl

set_option exponentiation.threshold 30000 in
theorem tiny_nat : 2 ^ 20414 < 10 ^ 6150 := by decide +kernel

theorem tiny_generic (a b : ℕ) (h : 2 ^ b < 10 ^ a) :
    (10 : ℚ) ^ (-((a : ℕ) : ℤ)) < (2 : ℚ) ^ (-((b : ℕ) : ℤ)) := by
  have h' : ((2 ^ b : ℕ) : ℚ) < ((10 ^ a : ℕ) : ℚ) := by exact_mod_cast h
  rw [zpow_neg, zpow_neg, zpow_natCast, zpow_natCast]
  push_cast at h'
  exact inv_strictAnti₀ (by positivity) h'

theorem dTiny_small : |(𝔳[dTiny]).toRat| < (2 : ℚ) ^ (-20414 : ℤ) := by
  rw [dTiny_val, abs_toRat_fin, Nat.cast_one, one_mul]
  exact tiny_generic 6150 20414 tiny_nat

theorem dTiny_ne : (𝔳[dTiny]).toRat ≠ 0 := by
  rw [dTiny_val, SpecMeaning.toRat_fin']
  simp only [Bool.false_eq_true, if_false, Nat.cast_one, one_mul]
  exact (zpow_pos (by norm_num) _).ne'

theorem d07_large : (2 : ℚ) ^ (-20286 : ℤ) ≤ |(𝔳[d07]).toRat| := by
  rw [d07_rat]
  have : (2 : ℚ) ^ (-20286 : ℤ) ≤ (2 : ℚ) ^ (-1 : ℤ) := zpow_le_zpow_right₀ (by norm_num) (by norm_num)
  refine le_trans this ?_
  norm_num

/-! ## a directed `DefaultRoundingMode` breaks the round trip even for integers -/

/-- `9999999999999999999999999999999999e10` (34 nines) -/
def d9 : Gen.Decimal := Gen.compose false ⟨4003012203950112767, 542101086242752⟩ 6186

theorem d9_val : 𝔳[d9] = .fin false 9999999999999999999999999999999999 10 := by
  unfold d9
  rw [Sp.interp_compose false ⟨4003012203950112767, 542101086242752⟩ 6186 (by unfold Spec.Cmax; decide)
    (by decide) (by decide)]
  rfl

theorem d9_rat : (𝔳[d9]).toRat = 99999999999999999999999999999999990000000000 := by
  rw [d9_val, SpecMeaning.toRat_fin']; norm_num

def N9 : ℕ := 99999999999999999999999999999999990000254976

theorem round9 : roundBits 128 0 false (99999999999999999999999999999999990000000000 : ℚ) = (N9 : ℚ) := by
  unfold N9; decide +kernel

/-- **AwayFromZero**: `d = 9999999999999999999999999999999999e10` is an integer above `2^128`; `d.Float(nil)` is
    `d + 254976` (correctly rounded to 128 bits), `FromInt` of that rounds AWAY to `1e44`, so
    `FromFloat(d.Float(nil)) = 1e44`, one unit of the 34th digit above `d`.  (In a nearest mode this `d` comes
    back exactly.) -/
theorem cex_trip_away (g : Globals) (hg : g.DefaultRoundingMode = 3) :
    ∃ F d', Gen.Decimal.Float d9 none = .ok F ∧ Gen.FromFloat g F = .ok d' ∧
      (𝔳[d9]).toRat = 9999999999999999999999999999999999 * 10 ^ 10 ∧
      (𝔳[d']).toRat = 10 ^ 44 ∧ Spec.equal 𝔳[d'] 𝔳[d9] = false := by
  have hm : Spec.Mode.ofNat? g.DefaultRoundingMode.toNat = some .awayFromZero := by rw [hg]; rfl
  have hz : (𝔳[d9]).toRat ≠ 0 := by rw [d9_rat]; norm_num
  have hF := Float_nil_nonzero d9 rfl hz
  have hsg : Gen.Decimal.Signbit d9 = false := rfl
  have habs : |(𝔳[d9]).toRat| = 99999999999999999999999999999999990000000000 := by rw [d9_rat]; norm_num
  rw [hsg, habs, round9] at hF
  have hnum : ((N9 : ℕ) : ℚ).num = (N9 : ℤ) := Rat.num_natCast N9
  have hden : ((N9 : ℕ) : ℚ).den = 1 := Rat.den_natCast N9
  have hr0 : ((N9 : ℕ) : ℚ) ≠ 0 := by unfold N9; norm_num
  have hbn : Go.Big.bitLen ((N9 : ℕ) : ℚ).num.natAbs < 2 ^ 63 := by
    rw [hnum]; exact bitLen_lt_of_lt (L := 200) (by decide +kernel) (by norm_num)
  have hbd : Go.Big.bitLen ((N9 : ℕ) : ℚ).den < 2 ^ 63 := by
    rw [hden]; exact bitLen_lt_of_lt (L := 1) (by decide) (by norm_num)
  have hq : Spec.quo .awayFromZero
        (Spec.roundTo .awayFromZero (decide (((N9 : ℕ) : ℚ).num < 0)) (((N9 : ℕ) : ℚ).num.natAbs : ℚ))
        (Spec.roundTo .awayFromZero false ((((N9 : ℕ) : ℚ).den : ℕ) : ℚ)) =
      .fin false 10000000000000000000000000000000000 10 := by
    rw [hnum, hden]; decide +kernel
  obtain ⟨d', hd', s⟩ := FromRat_spec' g ((N9 : ℕ) : ℚ) .awayFromZero hm hbn hbd hr0
  rw [hq] at s
  have hfv : fvalue ⟨128, 0, .finite, false, ((N9 : ℕ) : ℚ)⟩ = ((N9 : ℕ) : ℚ) := rfl
  refine ⟨_, d', hF, by rw [FromFloat_eq_FromRat g _ rfl, hfv]; exact hd', by rw [d9_rat]; norm_num, ?_⟩
  rcases Cohort.same_cases s with ⟨_, _, _, h2⟩ | ⟨_, h1, h2⟩ | ⟨n, c1, e1, c2, e2, h1, h2, h3⟩
  · cases h2
  · cases h2
  · injection h2 with hn' hc he
    subst hn' hc he
    have hval : (𝔳[d']).toRat = 10 ^ 44 := by
      rw [h1, SpecMeaning.toRat_fin', h3]; norm_num
    refine ⟨hval, ?_⟩
    rw [h1, d9_val]
    cases hE : Spec.equal (.fin false c1 e1) (.fin false 9999999999999999999999999999999999 10) with
    | false => rfl
    | true =>
      exfalso
      rw [SpecMeaning.equal_fin_iff, ← h1, hval, ← d9_val, d9_rat] at hE
      norm_num at hE

end FB
