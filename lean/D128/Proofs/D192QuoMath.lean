/-
  D128/Proofs/D192QuoMath.lean — loop-state predicates and verification-condition lemmas for
  `decomposed192.quo` / `decomposed192.rcp` (Go: /repo/decomposed.go).

  * `lim`, `LIM`        : the normalisation threshold `0x18ff_ffff_ffff_ffff` on the top word and the
                          significand bound `25·2^184 = (lim+1)·2^128` it stands for
  * `gap`               : loop variant `2^192 - n`
  * `ScUp`              : numerator scaled up, `x = D·10^a`, exponent lowered by `a`
  * `TrO`               : divisor with `b` low digits DROPPED (`O / 10^b`), flag raised if inexact
  * `QSt`, `QSc`, `QRed`: states of the long division (outer loop, inner common scaling, final drop)
  * `fit19/fit4/fit1`, `vc_up`, `vc_o_nz/z`, `QSt.init`, `QSc.step`, `QRed.step_*`, `quo_step`,
    `QSt.next` : the VC lemmas used by `D192Quo.lean`.
-/
import D128.Proofs.D192Base
import D128.Proofs.D192Div2
import D128.Proofs.WordsWideMsd2

set_option autoImplicit false
set_option maxRecDepth 4096
set_option exponentiation.threshold 512
set_option linter.unusedVariables false
open D128.Proofs.WordsWide

namespace D192

/-- the normalisation threshold `0x18ff_ffff_ffff_ffff` on the top word -/
def lim : Nat := 1801439850948198399
/-- `(lim + 1)·2^128 = 25·2^184`: a significand with `w2 > lim` is at least this -/
def LIM : Nat := 25 * 2 ^ 184
/-- `lim·2^128`: a significand with `w2 < lim` is below this -/
def OLIM : Nat := lim * 2 ^ 128
/-- loop variant of the scaling loops -/
def gap (n : Nat) : Nat := 2 ^ 192 - n

theorem LIM_eq : LIM = (lim + 1) * 2 ^ 128 := by unfold LIM lim; norm_num

theorem U192.w2_le_iff (x : U192) (k : Nat) (hk : k < 2 ^ 64) :
    x.w2.toNat ≤ k ↔ x.toNat < (k + 1) * 2 ^ 128 := by
  have := x.w0.toNat_lt; have := x.w1.toNat_lt
  simp only [U192.toNat]
  constructor
  · intro h
    have : (x.w2.toNat + 1) * 2 ^ 128 ≤ (k + 1) * 2 ^ 128 := Nat.mul_le_mul_right _ (by omega)
    omega
  · intro h
    by_contra hc
    have : (k + 1) * 2 ^ 128 ≤ x.w2.toNat * 2 ^ 128 := Nat.mul_le_mul_right _ (by omega)
    omega

theorem fit19 (x : U192) (h : x.w2 = 0) : x.toNat * 10 ^ 19 < 2 ^ 192 := by
  have h' : x.w2.toNat ≤ 0 := by rw [h]; simp
  have := (U192.w2_le_iff x 0 (by norm_num)).mp h'
  omega

theorem fit4 (x : U192) (h : x.w2 ≤ 703687441776639) : x.toNat * 10 ^ 4 < 2 ^ 192 := by
  rw [UInt64.le_iff_toNat_le] at h
  have := (U192.w2_le_iff x 703687441776639 (by norm_num)).mp h
  omega

theorem fit1 (x : U192) (h : x.w2 ≤ 1801439850948198399) : x.toNat * 10 ^ 1 < 2 ^ 192 := by
  rw [UInt64.le_iff_toNat_le] at h
  have := (U192.w2_le_iff x 1801439850948198399 (by norm_num)).mp h
  omega

theorem ge_LIM_of_not_le (x : U192) (h : ¬ x.w2 ≤ 1801439850948198399) : LIM ≤ x.toNat := by
  rw [UInt64.le_iff_toNat_le] at h
  have := (U192.w2_le_iff x 1801439850948198399 (by norm_num)).not.mp h
  unfold LIM; omega

theorem lt_LIM_of_le (x : U192) (h : x.w2 ≤ 1801439850948198399) : x.toNat < LIM := by
  rw [UInt64.le_iff_toNat_le] at h
  have := (U192.w2_le_iff x 1801439850948198399 (by norm_num)).mp h
  unfold LIM; omega

/-! ### numerator scaling -/

/-- scaled-up numerator: `x = D·10^a` with the exponent lowered by `a` (wrapping) -/
def ScUp (D : Nat) (e : Int16) (x : Gen.decomposed192) : Prop :=
  ∃ a : Nat, x.sig.toNat = D * 10 ^ a ∧ x.exp = e - Int16.ofNat a

theorem ScUp.refl (d : Gen.decomposed192) : ScUp d.sig.toNat d.exp d :=
  ⟨0, by simp, by simp⟩

theorem sig_ne_zero (d : Gen.decomposed192)
    (h : d.sig.w0 = 0 → d.sig.w1 = 0 → ¬ d.sig.w2 = 0) : 1 ≤ d.sig.toNat := by
  by_contra hc
  have h0 : d.sig.toNat = 0 := by omega
  simp only [U192.toNat] at h0
  have e0 : d.sig.w0 = 0 := UInt64.toNat_inj.mp (by simp; omega)
  have e1 : d.sig.w1 = 0 := UInt64.toNat_inj.mp (by simp; omega)
  have e2 : d.sig.w2 = 0 := UInt64.toNat_inj.mp (by simp; omega)
  exact h e0 e1 e2

theorem vc_up {D : Nat} {e : Int16} (x : Gen.decomposed192) (mb : Nat) (c : UInt64) (j : Nat)
    (hc : c.toNat = 10 ^ j) (hj : 0 < j) (hD : 1 ≤ D)
    (hfit : x.sig.toNat * 10 ^ j < 2 ^ 192) (hinv : mb = gap x.sig.toNat ∧ ScUp D e x) :
    gap (Gen.U192.mul64 x.sig c).toNat < mb ∧
      ScUp D e ⟨Gen.U192.mul64 x.sig c, x.exp - Int16.ofNat j⟩ := by
  obtain ⟨hmb, a, ha, he⟩ := hinv
  have hm : (Gen.U192.mul64 x.sig c).toNat = x.sig.toNat * 10 ^ j := by
    rw [U192_mul64_toNat_of_lt _ _ (by rw [hc]; exact hfit), hc]
  have hpos : 1 ≤ x.sig.toNat := by
    rw [ha]; exact Nat.mul_pos hD (Nat.pow_pos (by norm_num))
  have h10 : 10 ≤ 10 ^ j := by
    calc 10 = 10 ^ 1 := by norm_num
      _ ≤ 10 ^ j := Nat.pow_le_pow_right (by norm_num) hj
  refine ⟨?_, a + j, ?_, ?_⟩
  · rw [hmb, hm]; unfold gap
    have : x.sig.toNat * 10 ≤ x.sig.toNat * 10 ^ j := Nat.mul_le_mul_left _ h10
    omega
  · show (Gen.U192.mul64 x.sig c).toNat = _
    rw [hm, ha, Nat.pow_add]; ring
  · show x.exp - Int16.ofNat j = _
    rw [he, Int16.sub_sub, ← Int16.ofNat_add]

/-! ### divisor truncation -/

/-- truncated divisor: `b` low digits dropped, flag raised if one of them was non-zero -/
def TrO (O : Nat) (t0 : Int8) (e0 : Int16) (x : Gen.decomposed192 × Int8) : Prop :=
  ∃ b : Nat, x.1.sig.toNat = O / 10 ^ b ∧ x.1.exp = e0 + Int16.ofNat b ∧
    x.2 = (if O % 10 ^ b = 0 then t0 else 1) ∧ (b = 0 ∨ (2 ^ 185 ≤ x.1.sig.toNat ∧ OLIM ≤ O))

theorem TrO.refl (o : Gen.decomposed192) (t : Int8) : TrO o.sig.toNat t o.exp (o, t) :=
  ⟨0, by simp, by simp, by simp [Nat.mod_one], Or.inl rfl⟩

theorem TrO.ne_zero {O : Nat} {t0 : Int8} {e0 : Int16} {x : Gen.decomposed192 × Int8}
    (h : TrO O t0 e0 x) (hO : O ≠ 0) : x.1.sig.toNat ≠ 0 := by
  obtain ⟨b, h1, -, -, h4⟩ := h
  rcases h4 with h4 | h4
  · rw [h1, h4]; simpa using hO
  · omega

theorem TrO.step {O : Nat} {t0 : Int8} {e0 : Int16} {x : Gen.decomposed192 × Int8}
    (h : TrO O t0 e0 x) (q : U192) (r : UInt64)
    (hdiv : q.toNat = x.1.sig.toNat / 10 ∧ r.toNat = x.1.sig.toNat % 10)
    (hg : 1801439850948198399 ≤ x.1.sig.w2) :
    q.toNat < x.1.sig.toNat ∧
      TrO O t0 e0 (⟨q, x.1.exp + 1⟩, if r = 0 then x.2 else 1) := by
  obtain ⟨b, h1, h2, h3, _⟩ := h
  rw [UInt64.le_iff_toNat_le] at hg
  have hge : 1801439850948198399 * 2 ^ 128 ≤ x.1.sig.toNat := by
    have := x.1.sig.w0.toNat_lt; have := x.1.sig.w1.toNat_lt
    simp only [U192.toNat, UInt64.reduceToNat] at hg ⊢
    omega
  have hOge : OLIM ≤ O := by
    have : x.1.sig.toNat ≤ O := by rw [h1]; exact Nat.div_le_self _ _
    unfold OLIM lim; omega
  refine ⟨by omega, b + 1, ?_, ?_, ?_, Or.inr ⟨?_, hOge⟩⟩
  · show q.toNat = _
    rw [hdiv.1, h1, Nat.div_div_eq_div_mul, Nat.pow_succ]
  · show x.1.exp + 1 = _
    rw [h2, Int16.ofNat_add, Int16.add_assoc]; rfl
  · show (if r = 0 then x.2 else 1) = _
    have := mod_pow_add O b 1
    rw [← h1, Nat.pow_one, ← hdiv.2] at this
    by_cases hb : O % 10 ^ b = 0
    · by_cases hr : r = 0
      · rw [if_pos hr, if_pos (this.mpr ⟨hb, by rw [hr]; rfl⟩), h3, if_pos hb]
      · rw [if_neg hr, if_neg (fun h => hr (UInt64.toNat_inj.mp (by simpa using (this.mp h).2)))]
    · rw [if_neg (fun h => hb (this.mp h).1), h3, if_neg hb]; split <;> rfl
  · show 2 ^ 185 ≤ q.toNat
    rw [hdiv.1]; omega

/-! ### the long division -/

/-- state of the long division: `c` digits of scaling, `tt ≤ 1` digits dropped at the end -/
def QSt (Dn On : Nat) (e0 : Int16) (t1 : Int8) (st : Int8 × U192 × U192 × Int16) : Prop :=
  ∃ c tt : Nat, tt ≤ 1 ∧ st.2.1.toNat = Dn * 10 ^ c / On / 10 ^ tt ∧
    st.2.2.1.toNat = Dn * 10 ^ c % On ∧
    st.2.2.2 = e0 - Int16.ofNat c + Int16.ofNat tt ∧
    st.1 = (if (Dn * 10 ^ c / On) % 10 ^ tt = 0 then t1 else 1) ∧
    (tt = 1 → LIM ≤ st.2.1.toNat) ∧ 1 ≤ st.2.1.toNat

/-- inner scaling of quotient and remainder by the same power of ten -/
def QSc (sig rem : Nat) (exp : Int16) (st : U192 × U192 × Int16) : Prop :=
  ∃ m : Nat, st.1.toNat = sig * 10 ^ m ∧ st.2.1.toNat = rem * 10 ^ m ∧
    st.2.2 = exp - Int16.ofNat m

/-- the (at most one) final digit drop of the 256-bit sum -/
def QRed (S : Nat) (t1 : Int8) (e : Int16) (st : Int8 × Int16 × U256) : Prop :=
  ∃ tt : Nat, tt ≤ 1 ∧ st.2.2.toNat = S / 10 ^ tt ∧ st.2.1 = e + Int16.ofNat tt ∧
    st.1 = (if S % 10 ^ tt = 0 then t1 else 1) ∧
    (tt = 1 → 2 ^ 192 / 10 ≤ st.2.2.toNat ∧ st.2.2.toNat < 2 ^ 192)

theorem QSt.init (Dn On : Nat) (e0 : Int16) (t1 : Int8) (q r : U192)
    (hq : q.toNat = Dn / On) (hr : r.toNat = Dn % On) (hD : LIM ≤ Dn) (hO : On < OLIM)
    (hO0 : On ≠ 0) : QSt Dn On e0 t1 (t1, q, r, e0) := by
  refine ⟨0, 0, by omega, by simpa using hq, by simpa using hr, by simp, by simp [Nat.mod_one],
    by omega, ?_⟩
  show 1 ≤ q.toNat
  rw [hq, Nat.le_div_iff_mul_le (Nat.pos_of_ne_zero hO0)]
  unfold LIM at hD; unfold OLIM lim at hO; omega

theorem QSc.refl (sig rem : U192) (exp : Int16) : QSc sig.toNat rem.toNat exp (sig, rem, exp) :=
  ⟨0, by simp, by simp, by simp⟩

theorem QSc.step {sig rem : Nat} {exp : Int16} {st : U192 × U192 × Int16} (mb : Nat)
    (c : UInt64) (j : Nat) (hc : c.toNat = 10 ^ j) (hj : 0 < j) (hs : 1 ≤ sig)
    (hf1 : st.1.toNat * 10 ^ j < 2 ^ 192) (hf2 : st.2.1.toNat * 10 ^ j < 2 ^ 192)
    (hinv : mb = gap st.1.toNat ∧ QSc sig rem exp st) :
    gap (Gen.U192.mul64 st.1 c).toNat < mb ∧
      QSc sig rem exp (Gen.U192.mul64 st.1 c, Gen.U192.mul64 st.2.1 c, st.2.2 - Int16.ofNat j) := by
  obtain ⟨hmb, m, h1, h2, h3⟩ := hinv
  have hm1 : (Gen.U192.mul64 st.1 c).toNat = st.1.toNat * 10 ^ j := by
    rw [U192_mul64_toNat_of_lt _ _ (by rw [hc]; exact hf1), hc]
  have hm2 : (Gen.U192.mul64 st.2.1 c).toNat = st.2.1.toNat * 10 ^ j := by
    rw [U192_mul64_toNat_of_lt _ _ (by rw [hc]; exact hf2), hc]
  have hpos : 1 ≤ st.1.toNat := by
    rw [h1]; exact Nat.mul_pos hs (Nat.pow_pos (by norm_num))
  have h10 : 10 ≤ 10 ^ j := by
    calc 10 = 10 ^ 1 := by norm_num
      _ ≤ 10 ^ j := Nat.pow_le_pow_right (by norm_num) hj
  refine ⟨?_, m + j, ?_, ?_, ?_⟩
  · rw [hmb, hm1]; unfold gap
    have : st.1.toNat * 10 ≤ st.1.toNat * 10 ^ j := Nat.mul_le_mul_left _ h10
    omega
  · show (Gen.U192.mul64 st.1 c).toNat = _
    rw [hm1, h1, Nat.pow_add]; ring
  · show (Gen.U192.mul64 st.2.1 c).toNat = _
    rw [hm2, h2, Nat.pow_add]; ring
  · show st.2.2 - Int16.ofNat j = _
    rw [h3, Int16.sub_sub, ← Int16.ofNat_add]

theorem QRed.init (s tq : U192) (t1 : Int8) (e : Int16) :
    QRed (s.toNat + tq.toNat) t1 e (t1, e, Gen.U192.add s tq) :=
  ⟨0, by omega, by simp [U192_add_toNat], by simp, by simp [Nat.mod_one], by omega⟩

theorem QRed.step {S : Nat} {t1 : Int8} {e : Int16} {st : Int8 × Int16 × U256} (hS : S < 2 ^ 193)
    (h : QRed S t1 e st) (hw : ¬ st.2.2.w3 = 0) (q : U256) (r : UInt64)
    (hdiv : q.toNat = st.2.2.toNat / 10 ∧ r.toNat = st.2.2.toNat % 10) :
    q.toNat < st.2.2.toNat ∧ QRed S t1 e (if r = 0 then st.1 else 1, st.2.1 + 1, q) := by
  obtain ⟨tt, h1, h2, h3, h4, h5⟩ := h
  have hge : 2 ^ 192 ≤ st.2.2.toNat := by
    have : 1 ≤ st.2.2.w3.toNat := by
      by_contra hc; apply hw; exact UInt64.toNat_inj.mp (by simp; omega)
    simp only [U256.toNat]; omega
  have htt : tt = 0 := by
    by_contra hc
    have := (h5 (by omega)).2
    omega
  subst htt
  simp only [Nat.pow_zero, Nat.div_one, Nat.mod_one, if_true] at h2 h4
  refine ⟨by omega, 1, by omega, ?_, ?_, ?_, fun _ => ?_⟩
  · show q.toNat = _
    rw [hdiv.1, h2, Nat.pow_one]
  · show st.2.1 + 1 = _
    rw [h3]; simp
  · show (if r = 0 then st.1 else 1) = _
    rw [h4, Nat.pow_one, ← h2, ← hdiv.2]
    by_cases hr : r = 0
    · rw [if_pos hr, if_pos (by rw [hr]; rfl)]
    · rw [if_neg hr, if_neg (fun h => hr (UInt64.toNat_inj.mp (by simpa using h)))]
  · show 2 ^ 192 / 10 ≤ q.toNat ∧ q.toNat < 2 ^ 192
    rw [hdiv.1]; omega

/-- one round of the schoolbook division in ℕ. -/
theorem quo_step (Dn On c m sig rem : Nat) (hOn : 0 < On) (h1 : sig = Dn * 10 ^ c / On)
    (h2 : rem = Dn * 10 ^ c % On) :
    sig * 10 ^ m + rem * 10 ^ m / On = Dn * 10 ^ (c + m) / On ∧
      rem * 10 ^ m % On = Dn * 10 ^ (c + m) % On := by
  have hdm := Nat.div_add_mod (Dn * 10 ^ c) On
  rw [← h1, ← h2] at hdm
  have e : Dn * 10 ^ (c + m) = On * (sig * 10 ^ m) + rem * 10 ^ m := by
    rw [Nat.pow_add, ← Nat.mul_assoc, ← hdm]; ring
  rw [e, Nat.mul_add_div hOn, Nat.mul_add_mod]
  exact ⟨rfl, rfl⟩

theorem lt_OLIM_of_lt (x : U192) (h : x.w2 < 1801439850948198399) : x.toNat < OLIM := by
  rw [UInt64.lt_iff_toNat_lt] at h
  have := x.w0.toNat_lt; have := x.w1.toNat_lt
  simp only [U192.toNat, UInt64.reduceToNat] at h ⊢
  unfold OLIM lim
  omega

theorem w2_lt_of_lt (x : U192) (B : Nat) (h : x.toNat < B * 2 ^ 128) : x.w2.toNat < B := by
  have := x.w0.toNat_lt; have := x.w1.toNat_lt
  simp only [U192.toNat] at h
  by_contra hc
  have : B * 2 ^ 128 ≤ x.w2.toNat * 2 ^ 128 := Nat.mul_le_mul_right _ (by omega)
  omega

/-- one pass of the outer loop of the long division re-establishes the state and makes progress. -/
theorem QSt.next {Dn On : Nat} {e0 : Int16} {t1 : Int8} (b : Int8 × U192 × U192 × Int16)
    (s2 : U192 × U192 × Int16) (tq : U192 × U192) (r : Int8 × Int16 × U256) (mb : Nat)
    (hOn0 : On ≠ 0) (hOn : On < OLIM)
    (hcond : b.2.1.w2 ≤ 1801439850948198399)
    (hinv : mb = gap b.2.1.toNat ∧ QSt Dn On e0 t1 b)
    (hsc : QSc b.2.1.toNat b.2.2.1.toNat b.2.2.2 s2 ∧
      (lim < s2.2.1.w2.toNat ∨ lim < s2.1.w2.toNat))
    (hdiv : tq.1.toNat = s2.2.1.toNat / On ∧ tq.2.toNat = s2.2.1.toNat % On)
    (hred : QRed (s2.1.toNat + tq.1.toNat) b.1 s2.2.2 r ∧ r.2.2.w3 = 0) :
    gap (U192.mk r.2.2.w0 r.2.2.w1 r.2.2.w2).toNat < mb ∧
      QSt Dn On e0 t1 (r.1, U192.mk r.2.2.w0 r.2.2.w1 r.2.2.w2, tq.2, r.2.1) := by
  obtain ⟨hmb, c, tt0, htt0, hs, hr, he, ht, hL, h1⟩ := hinv
  obtain ⟨⟨m, hm1, hm2, hm3⟩, hex⟩ := hsc
  obtain ⟨⟨tt, htt, hq, hqe, hqt, hqL⟩, hw3⟩ := hred
  have hOnpos : 0 < On := Nat.pos_of_ne_zero hOn0
  have hsig_lt : b.2.1.toNat < LIM := lt_LIM_of_le _ hcond
  -- no digit had been dropped before
  have htt00 : tt0 = 0 := by
    by_contra hc
    have := hL (by omega)
    omega
  subst htt00
  simp only [Nat.pow_zero, Nat.div_one, Nat.mod_one, if_true] at hs ht
  have hrem_lt : b.2.2.1.toNat < On := by rw [hr]; exact Nat.mod_lt _ hOnpos
  -- at least one digit of scaling happened
  have hm : 1 ≤ m := by
    by_contra hc
    have hm0 : m = 0 := by omega
    subst hm0
    simp only [Nat.pow_zero, Nat.mul_one] at hm1 hm2
    have a1 : s2.1.w2.toNat < lim + 1 := by
      apply w2_lt_of_lt; rw [hm1, ← LIM_eq]; exact hsig_lt
    have a2 : s2.2.1.w2.toNat < lim := by
      apply w2_lt_of_lt; rw [hm2]; unfold OLIM at hOn; omega
    omega
  obtain ⟨hS, hR⟩ := quo_step Dn On c m b.2.1.toNat b.2.2.1.toNat hOnpos hs hr
  rw [← hm1, ← hm2, ← hdiv.1] at hS
  rw [← hm2, ← hdiv.2] at hR
  have hlow : (U192.mk r.2.2.w0 r.2.2.w1 r.2.2.w2).toNat = r.2.2.toNat := U256.toNat_low3 _ hw3
  have hs2 : 10 * b.2.1.toNat ≤ s2.1.toNat := by
    rw [hm1]
    have : 10 ≤ 10 ^ m := by
      calc 10 = 10 ^ 1 := by norm_num
        _ ≤ 10 ^ m := Nat.pow_le_pow_right (by norm_num) hm
    rw [Nat.mul_comm]; exact Nat.mul_le_mul_left _ this
  have hnew_lt : r.2.2.toNat < 2 ^ 192 := by
    have := r.2.2.w0.toNat_lt; have := r.2.2.w1.toNat_lt; have := r.2.2.w2.toNat_lt
    rw [← hlow]; simp only [U192.toNat]; omega
  have hLIM10 : LIM ≤ 2 ^ 192 / 10 := by unfold LIM; norm_num
  have hnew_gt : b.2.1.toNat < r.2.2.toNat ∧ (tt = 1 → LIM ≤ r.2.2.toNat) ∧ 1 ≤ r.2.2.toNat := by
    rcases Nat.eq_zero_or_pos tt with h0 | h0
    · subst h0
      simp only [Nat.pow_zero, Nat.div_one] at hq
      refine ⟨by omega, by omega, by omega⟩
    · have htt1 : tt = 1 := by omega
      have := hqL htt1
      refine ⟨by omega, fun _ => by omega, by omega⟩
  refine ⟨?_, c + m, tt, htt, ?_, ?_, ?_, ?_, ?_, ?_⟩
  · rw [hmb, hlow]; unfold gap; omega
  · show (U192.mk r.2.2.w0 r.2.2.w1 r.2.2.w2).toNat = _
    rw [hlow, hq, hS]
  · show tq.2.toNat = _
    exact hR
  · show r.2.1 = _
    rw [hqe, hm3, he]
    have h0 : Int16.ofNat 0 = 0 := rfl
    rw [h0, Int16.add_zero, Int16.sub_sub, ← Int16.ofNat_add]
  · show r.1 = _
    rw [hqt, ht, hS]
  · show tt = 1 → LIM ≤ (U192.mk r.2.2.w0 r.2.2.w1 r.2.2.w2).toNat
    rw [hlow]; exact hnew_gt.2.1
  · show 1 ≤ (U192.mk r.2.2.w0 r.2.2.w1 r.2.2.w2).toNat
    rw [hlow]; exact hnew_gt.2.2

theorem mod_mul_eq_zero (N a b : Nat) (ha : 0 < a) :
    N % (a * b) = 0 ↔ (N % a = 0 ∧ (N / a) % b = 0) := by
  rw [Nat.mod_mul]
  constructor
  · intro h
    have h1 : N % a = 0 := by
      have := Nat.mod_lt N ha
      rcases Nat.eq_zero_or_pos (N / a % b) with h0 | h0
      · rw [h0] at h; simpa using h
      · have : a ≤ a * (N / a % b) := Nat.le_mul_of_pos_right _ h0
        omega
    rw [h1] at h
    simp only [Nat.zero_add, Nat.mul_eq_zero] at h
    exact ⟨h1, h.resolve_left (by omega)⟩
  · rintro ⟨h1, h2⟩; rw [h1, h2]; simp

/-- result of the long division (after the trailing `if rem != 0 { trunc = 1 }`) -/
def QFin (Dn On : Nat) (e0 : Int16) (t1 : Int8) (r : Gen.decomposed192) (t' : Int8) : Prop :=
  ∃ c tt : Nat, tt ≤ 1 ∧ r.sig.toNat = Dn * 10 ^ c / On / 10 ^ tt ∧
    r.exp = e0 - Int16.ofNat c + Int16.ofNat tt ∧
    t' = (if Dn * 10 ^ c % (On * 10 ^ tt) = 0 then t1 else 1) ∧
    (Dn * 10 ^ c % On = 0 ∨ LIM ≤ r.sig.toNat) ∧ (tt = 1 → LIM ≤ r.sig.toNat) ∧ 1 ≤ r.sig.toNat

theorem QFin.of_QSt {Dn On : Nat} {e0 : Int16} {t1 : Int8} {st : Int8 × U192 × U192 × Int16}
    (hOn : 0 < On) (h : QSt Dn On e0 t1 st) (hx : st.2.2.1.toNat = 0 ∨ LIM ≤ st.2.1.toNat) :
    QFin Dn On e0 t1 ⟨st.2.1, st.2.2.2⟩
      (if (st.2.2.1.w0 ||| st.2.2.1.w1 ||| st.2.2.1.w2 != 0) = true then 1 else st.1) := by
  obtain ⟨c, tt, htt, hs, hr, he, ht, hL, h1⟩ := h
  refine ⟨c, tt, htt, hs, he, ?_, ?_, hL, h1⟩
  · have hz : (st.2.2.1.w0 ||| st.2.2.1.w1 ||| st.2.2.1.w2 != 0) = true ↔ st.2.2.1.toNat ≠ 0 := by
      have := st.2.2.1.w0.toNat_lt; have := st.2.2.1.w1.toNat_lt
      rw [bne_iff_ne, ne_eq, UInt64.or_eq_zero_iff, UInt64.or_eq_zero_iff,
        ← UInt64.toNat_inj, ← UInt64.toNat_inj, ← UInt64.toNat_inj]
      simp only [U192.toNat, UInt64.toNat_zero]
      omega
    have key := mod_mul_eq_zero (Dn * 10 ^ c) On (10 ^ tt) hOn
    by_cases hrem : st.2.2.1.toNat = 0
    · rw [if_neg (fun h => (hz.mp h) hrem), ht]
      rw [hr] at hrem
      by_cases h2 : (Dn * 10 ^ c / On) % 10 ^ tt = 0
      · rw [if_pos h2, if_pos (key.mpr ⟨hrem, h2⟩)]
      · rw [if_neg h2, if_neg (fun h => h2 (key.mp h).2)]
    · rw [if_pos (hz.mpr hrem)]
      rw [hr] at hrem
      rw [if_neg (fun h => hrem (key.mp h).1)]
  · rcases hx with hx | hx
    · left; rw [← hr]; exact hx
    · right; exact hx

theorem rem_ne_zero_iff (x : U192) :
    (x.w0 = 0 → x.w1 = 0 → ¬ x.w2 = 0) ↔ x.toNat ≠ 0 := by
  have := x.w0.toNat_lt; have := x.w1.toNat_lt
  rw [← UInt64.toNat_inj, ← UInt64.toNat_inj, ← UInt64.toNat_inj]
  simp only [U192.toNat, UInt64.toNat_zero]
  omega

theorem QFin.of_nz {Dn On : Nat} {e0 : Int16} {t1 : Int8} {st : Int8 × U192 × U192 × Int16}
    (hOn : 0 < On) (h : QSt Dn On e0 t1 st) (hx : st.2.2.1.toNat = 0 ∨ LIM ≤ st.2.1.toNat)
    (hnz : st.2.2.1.w0 = 0 → st.2.2.1.w1 = 0 → ¬ st.2.2.1.w2 = 0) :
    QFin Dn On e0 t1 ⟨st.2.1, st.2.2.2⟩ 1 := by
  have := QFin.of_QSt hOn h hx
  rwa [if_pos (by
    rw [bne_iff_ne, ne_eq, UInt64.or_eq_zero_iff, UInt64.or_eq_zero_iff]
    intro hh; exact hnz hh.1.1 hh.1.2 hh.2)] at this

theorem QFin.of_z {Dn On : Nat} {e0 : Int16} {t1 : Int8} {st : Int8 × U192 × U192 × Int16}
    (hOn : 0 < On) (h : QSt Dn On e0 t1 st) (hx : st.2.2.1.toNat = 0 ∨ LIM ≤ st.2.1.toNat)
    (hz : st.2.2.1.w0 = 0 ∧ st.2.2.1.w1 = 0 ∧ st.2.2.1.w2 = 0) :
    QFin Dn On e0 t1 ⟨st.2.1, st.2.2.2⟩ st.1 := by
  have := QFin.of_QSt hOn h hx
  rwa [if_neg (by
    rw [bne_iff_ne, ne_eq, UInt64.or_eq_zero_iff, UInt64.or_eq_zero_iff]
    intro hh; exact hh ⟨⟨hz.1, hz.2.1⟩, hz.2.2⟩)] at this

theorem exit2 (x y : UInt64) (h : x ≤ 1801439850948198399 → 1801439850948198399 < y) :
    lim < x.toNat ∨ lim < y.toNat := by
  by_cases hx : x ≤ 1801439850948198399
  · right
    have := h hx
    rw [UInt64.lt_iff_toNat_lt] at this
    exact this
  · left
    rw [UInt64.not_le, UInt64.lt_iff_toNat_lt] at hx
    exact hx

theorem QRed.vc_nz {a b : U192} {t1 : Int8} {e : Int16} {st : Int8 × Int16 × U256} (mb : Nat)
    (q : U256) (r : UInt64)
    (hdiv : q.toNat = st.2.2.toNat / 10 ∧ r.toNat = st.2.2.toNat % 10) (hw : ¬ st.2.2.w3 = 0)
    (hinv : mb = st.2.2.toNat ∧ QRed (a.toNat + b.toNat) t1 e st) (hnz : ¬ r = 0) :
    q.toNat < mb ∧ QRed (a.toNat + b.toNat) t1 e (1, st.2.1 + 1, q) := by
  have hS : a.toNat + b.toNat < 2 ^ 193 := by
    have := U192.toNat_lt a; have := U192.toNat_lt b; omega
  have := QRed.step hS hinv.2 hw q r hdiv
  rw [if_neg hnz] at this
  exact ⟨by rw [hinv.1]; exact this.1, this.2⟩

theorem QRed.vc_z {a b : U192} {t1 : Int8} {e : Int16} {st : Int8 × Int16 × U256} (mb : Nat)
    (q : U256) (r : UInt64)
    (hdiv : q.toNat = st.2.2.toNat / 10 ∧ r.toNat = st.2.2.toNat % 10) (hw : ¬ st.2.2.w3 = 0)
    (hinv : mb = st.2.2.toNat ∧ QRed (a.toNat + b.toNat) t1 e st) (hz : r = 0) :
    q.toNat < mb ∧ QRed (a.toNat + b.toNat) t1 e (st.1, st.2.1 + 1, q) := by
  have hS : a.toNat + b.toNat < 2 ^ 193 := by
    have := U192.toNat_lt a; have := U192.toNat_lt b; omega
  have := QRed.step hS hinv.2 hw q r hdiv
  rw [if_pos hz] at this
  exact ⟨by rw [hinv.1]; exact this.1, this.2⟩

theorem exit_outer (x y : U192)
    (hex : (x.w0 = 0 → x.w1 = 0 → ¬ x.w2 = 0) → 1801439850948198399 < y.w2) :
    x.toNat = 0 ∨ LIM ≤ y.toNat := by
  by_cases hr : x.toNat = 0
  · exact Or.inl hr
  · right
    have := hex ((rem_ne_zero_iff _).mpr hr)
    exact ge_LIM_of_not_le _ (by rw [UInt64.not_le]; exact this)

end D192
