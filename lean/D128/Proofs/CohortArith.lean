/-
  D128/Proofs/CohortArith.lean — the specification functions of the four arithmetic operations
  respect "same value" in both arguments (property C19, first clause; pure specification-level
  mathematics, no generated code).  For every mode `m`:

  * `add_congr`, `sub_congr`, `mul_congr`, `quo_congr` :
        `x.same x' → y.same y' → (Spec.op m x y).same (Spec.op m x' y')`
    (same class, sign, numeric value, and the same NaN payload — `same` operands have equal payloads
    and equal class codes)
  * `add_congr_num`, `sub_congr_num`, `mul_congr_num`, `quo_congr_num` :
        `x.sameNum x' → y.sameNum y' → (Spec.op m x y).sameNum (Spec.op m x' y')`
    (operands may be NaNs with different signs/payloads; the results are then NaNs, whose payloads —
    which are copied from the operand — may differ: for NaN operands C19 speaks of class only)
  * the finite cores `addCore_fin_congr`, `mul_fin_congr`, `quo_fin_congr` (results are even *equal* when
    no operand is passed through), and the lifting principle `lift_num`.
-/
import D128.Proofs.CohortBase
import D128.Proofs.AddAlignSpec
set_option autoImplicit false

namespace Cohort
open Spec

/-! ## from `same`-congruence to `sameNum`-congruence -/

theorem sameNum_of_isNaN {a b : Val} (ha : a.isNaN = true) (hb : b.isNaN = true) :
    a.sameNum b = true := by
  cases a <;> cases b <;> simp_all [Val.isNaN, Val.sameNum]

/-- a binary operation that respects `same` and returns a NaN whenever an operand is a NaN
    respects `sameNum` -/
theorem lift_num (f : Val → Val → Val)
    (hs : ∀ x x' y y', x.same x' = true → y.same y' = true → (f x y).same (f x' y') = true)
    (hl : ∀ x y, x.isNaN = true → (f x y).isNaN = true)
    (hr : ∀ x y, y.isNaN = true → (f x y).isNaN = true)
    {x x' y y' : Val} (hx : x.sameNum x' = true) (hy : y.sameNum y' = true) :
    (f x y).sameNum (f x' y') = true := by
  cases hxn : x.isNaN
  · cases hyn : y.isNaN
    · exact sameNum_of_same (hs x x' y y' (same_of_sameNum hx hxn) (same_of_sameNum hy hyn))
    · exact sameNum_of_isNaN (hr x y hyn) (hr x' y' (by rw [← isNaN_congr hy]; exact hyn))
  · exact sameNum_of_isNaN (hl x y hxn) (hl x' y' (by rw [← isNaN_congr hx]; exact hxn))

/-! ## addition and subtraction -/

theorem addCore_nan_left (m : Mode) (n : Bool) (p : UInt64) (y : Val) (sub : Bool) :
    addCore m (.nan n p) y sub = .nan n p := by
  cases sub <;> simp [addCore]

theorem addCore_nan_right (m : Mode) (x : Val) (n : Bool) (p : UInt64) (sub : Bool)
    (hx : x.isNaN = false) : addCore m x (.nan n p) sub = .nan n p := by
  cases x with
  | nan _ _ => simp [Val.isNaN] at hx
  | inf _ => cases sub <;> simp [addCore, negate]
  | fin _ _ _ => cases sub <;> simp [addCore, negate]

theorem addCore_inf_fin (m : Mode) (n n' : Bool) (c : Nat) (e : Int) (sub : Bool) :
    addCore m (.inf n) (.fin n' c e) sub = .inf n := by
  cases sub <;> simp [addCore, negate]

theorem addCore_fin_inf (m : Mode) (n n' : Bool) (c : Nat) (e : Int) (sub : Bool) :
    addCore m (.fin n c e) (.inf n') sub = .inf (if sub then !n' else n') := by
  cases sub <;> simp [addCore, negate]

theorem addCore_zero_zero (m : Mode) (n n' : Bool) (e e' : Int) (sub : Bool) :
    addCore m (.fin n 0 e) (.fin n' 0 e') sub = .fin (n && (if sub then !n' else n')) 0 0 := by
  cases sub <;> simp [addCore, negate]

theorem addCore_zero_left (m : Mode) (n n' : Bool) (c' : Nat) (e e' : Int) (sub : Bool)
    (hc' : c' ≠ 0) :
    addCore m (.fin n 0 e) (.fin n' c' e') sub = .fin (if sub then !n' else n') c' e' := by
  cases sub <;> simp [addCore, negate, hc']

theorem addCore_zero_right (m : Mode) (n n' : Bool) (c : Nat) (e e' : Int) (sub : Bool)
    (hc : c ≠ 0) :
    addCore m (.fin n c e) (.fin n' 0 e') sub = .fin n c e := by
  cases sub <;> simp [addCore, negate, hc]

/-- two finite operands, each replaced by another pair with the same magnitude -/
theorem addCore_fin_congr (m : Mode) (n n' : Bool) (c c1 c' c1' : Nat) (e e1 e' e1' : Int)
    (sub : Bool)
    (h : (c : ℚ) * (10 : ℚ) ^ e = (c1 : ℚ) * (10 : ℚ) ^ e1)
    (h' : (c' : ℚ) * (10 : ℚ) ^ e' = (c1' : ℚ) * (10 : ℚ) ^ e1') :
    (addCore m (.fin n c e) (.fin n' c' e') sub).same
      (addCore m (.fin n c1 e1) (.fin n' c1' e1') sub) = true := by
  by_cases hc : c = 0
  · have hc1 : c1 = 0 := (zero_iff_of_mag h).1 hc
    subst hc; subst hc1
    by_cases hc' : c' = 0
    · have hc1' : c1' = 0 := (zero_iff_of_mag h').1 hc'
      subst hc'; subst hc1'
      rw [addCore_zero_zero, addCore_zero_zero]
      exact same_refl _
    · have hc1' : c1' ≠ 0 := fun h0 => hc' ((zero_iff_of_mag h').2 h0)
      rw [addCore_zero_left m n n' c' e e' sub hc', addCore_zero_left m n n' c1' e1 e1' sub hc1']
      rw [same_fin_iff]
      exact ⟨rfl, h'⟩
  · have hc1 : c1 ≠ 0 := fun h0 => hc ((zero_iff_of_mag h).2 h0)
    by_cases hc' : c' = 0
    · have hc1' : c1' = 0 := (zero_iff_of_mag h').1 hc'
      subst hc'; subst hc1'
      rw [addCore_zero_right m n n' c e e' sub hc, addCore_zero_right m n n' c1 e1 e1' sub hc1]
      rw [same_fin_iff]
      exact ⟨rfl, h⟩
    · have hc1' : c1' ≠ 0 := fun h0 => hc' ((zero_iff_of_mag h').2 h0)
      rw [AD.addCore_fin m n n' c c' e e' sub hc hc' 0
            ((if n then -1 else 1) * ((c : ℚ) * (10 : ℚ) ^ e)
              + (if (if sub then !n' else n') then -1 else 1) * ((c' : ℚ) * (10 : ℚ) ^ e'))
            (by rw [zpow_zero, mul_one]),
          AD.addCore_fin m n n' c1 c1' e1 e1' sub hc1 hc1' 0
            ((if n then -1 else 1) * ((c : ℚ) * (10 : ℚ) ^ e)
              + (if (if sub then !n' else n') then -1 else 1) * ((c' : ℚ) * (10 : ℚ) ^ e'))
            (by rw [zpow_zero, mul_one, h, h'])]
      exact same_refl _

theorem addCore_congr (m : Mode) (sub : Bool) {x x' y y' : Val}
    (hx : x.same x' = true) (hy : y.same y' = true) :
    (addCore m x y sub).same (addCore m x' y' sub) = true := by
  rcases same_cases hx with ⟨n, p, rfl, rfl⟩ | ⟨n, rfl, rfl⟩ | ⟨n, c, e, c1, e1, rfl, rfl, hm⟩
  · rw [addCore_nan_left, addCore_nan_left]; exact same_refl _
  · rcases same_cases hy with ⟨n', p', rfl, rfl⟩ | ⟨n', rfl, rfl⟩ |
      ⟨n', c', e', c1', e1', rfl, rfl, hm'⟩
    · exact same_refl _
    · exact same_refl _
    · rw [addCore_inf_fin, addCore_inf_fin]; exact same_refl _
  · rcases same_cases hy with ⟨n', p', rfl, rfl⟩ | ⟨n', rfl, rfl⟩ |
      ⟨n', c', e', c1', e1', rfl, rfl, hm'⟩
    · rw [addCore_nan_right _ _ _ _ _ rfl, addCore_nan_right _ _ _ _ _ rfl]; exact same_refl _
    · rw [addCore_fin_inf, addCore_fin_inf]; exact same_refl _
    · exact addCore_fin_congr m n n' c c1 c' c1' e e1 e' e1' sub hm hm'

theorem addCore_isNaN_left (m : Mode) (sub : Bool) (x y : Val) (h : x.isNaN = true) :
    (addCore m x y sub).isNaN = true := by
  cases x with
  | nan n p => rw [addCore_nan_left]; rfl
  | inf _ => simp [Val.isNaN] at h
  | fin _ _ _ => simp [Val.isNaN] at h

theorem addCore_isNaN_right (m : Mode) (sub : Bool) (x y : Val) (h : y.isNaN = true) :
    (addCore m x y sub).isNaN = true := by
  cases hx : x.isNaN
  · cases y with
    | nan n p => rw [addCore_nan_right m x n p sub hx]; rfl
    | inf _ => simp [Val.isNaN] at h
    | fin _ _ _ => simp [Val.isNaN] at h
  · exact addCore_isNaN_left m sub x y hx

/-- **`Spec.add` depends on the operand values only.** -/
theorem add_congr (m : Mode) {x x' y y' : Val} (hx : x.same x' = true) (hy : y.same y' = true) :
    (Spec.add m x y).same (Spec.add m x' y') = true := addCore_congr m false hx hy

/-- **`Spec.sub` depends on the operand values only.** -/
theorem sub_congr (m : Mode) {x x' y y' : Val} (hx : x.same x' = true) (hy : y.same y' = true) :
    (Spec.sub m x y).same (Spec.sub m x' y') = true := addCore_congr m true hx hy

theorem add_congr_num (m : Mode) {x x' y y' : Val} (hx : x.sameNum x' = true)
    (hy : y.sameNum y' = true) : (Spec.add m x y).sameNum (Spec.add m x' y') = true :=
  lift_num (Spec.add m) (fun _ _ _ _ h1 h2 => add_congr m h1 h2)
    (addCore_isNaN_left m false) (addCore_isNaN_right m false) hx hy

theorem sub_congr_num (m : Mode) {x x' y y' : Val} (hx : x.sameNum x' = true)
    (hy : y.sameNum y' = true) : (Spec.sub m x y).sameNum (Spec.sub m x' y') = true :=
  lift_num (Spec.sub m) (fun _ _ _ _ h1 h2 => sub_congr m h1 h2)
    (addCore_isNaN_left m true) (addCore_isNaN_right m true) hx hy

/-! ## multiplication -/

theorem beq_zero_congr {c c' : Nat} {e e' : Int}
    (h : (c : ℚ) * (10 : ℚ) ^ e = (c' : ℚ) * (10 : ℚ) ^ e') : (c == 0) = (c' == 0) := by
  have := zero_iff_of_mag h
  by_cases h0 : c = 0
  · rw [h0, this.1 h0]
  · have h1 : c' ≠ 0 := fun h1 => h0 (this.2 h1)
    simp [h0, h1]

theorem mul_fin_congr (m : Mode) (n n' : Bool) (c c1 c' c1' : Nat) (e e1 e' e1' : Int)
    (h : (c : ℚ) * (10 : ℚ) ^ e = (c1 : ℚ) * (10 : ℚ) ^ e1)
    (h' : (c' : ℚ) * (10 : ℚ) ^ e' = (c1' : ℚ) * (10 : ℚ) ^ e1') :
    Spec.mul m (.fin n c e) (.fin n' c' e') = Spec.mul m (.fin n c1 e1) (.fin n' c1' e1') := by
  simp only [Spec.mul]
  rw [SpecRound.flushOrRoundS_scale m _ _ (Nat.cast_nonneg _) (e + e'),
    SpecRound.flushOrRoundS_scale m _ _ (Nat.cast_nonneg _) (e1 + e1')]
  congr 1
  have h10 : (10 : ℚ) ≠ 0 := by norm_num
  rw [zpow_add₀ h10, zpow_add₀ h10]
  push_cast
  calc (c : ℚ) * c' * ((10 : ℚ) ^ e * (10 : ℚ) ^ e')
      = ((c : ℚ) * (10 : ℚ) ^ e) * ((c' : ℚ) * (10 : ℚ) ^ e') := by ring
    _ = ((c1 : ℚ) * (10 : ℚ) ^ e1) * ((c1' : ℚ) * (10 : ℚ) ^ e1') := by rw [h, h']
    _ = (c1 : ℚ) * c1' * ((10 : ℚ) ^ e1 * (10 : ℚ) ^ e1') := by ring

theorem invalid2_congr (op : Op) {x x' y y' : Val} (hx : x.sameNum x' = true)
    (hy : y.sameNum y' = true) : invalid2 op x y = invalid2 op x' y' := by
  unfold invalid2
  rw [classCode_congr hx, classCode_congr hy]

theorem mul_congr (m : Mode) {x x' y y' : Val} (hx : x.same x' = true) (hy : y.same y' = true) :
    (Spec.mul m x y).same (Spec.mul m x' y') = true := by
  have hi := invalid2_congr .mul (sameNum_of_same hx) (sameNum_of_same hy)
  rcases same_cases hx with ⟨n, p, rfl, rfl⟩ | ⟨n, rfl, rfl⟩ | ⟨n, c, e, c1, e1, rfl, rfl, hm⟩
  · exact same_refl _
  · rcases same_cases hy with ⟨n', p', rfl, rfl⟩ | ⟨n', rfl, rfl⟩ |
      ⟨n', c', e', c1', e1', rfl, rfl, hm'⟩
    · exact same_refl _
    · exact same_refl _
    · simp only [Spec.mul]
      rw [hi, beq_zero_congr hm']
      exact same_refl _
  · rcases same_cases hy with ⟨n', p', rfl, rfl⟩ | ⟨n', rfl, rfl⟩ |
      ⟨n', c', e', c1', e1', rfl, rfl, hm'⟩
    · exact same_refl _
    · simp only [Spec.mul]
      rw [hi, beq_zero_congr hm]
      exact same_refl _
    · rw [mul_fin_congr m n n' c c1 c' c1' e e1 e' e1' hm hm']
      exact same_refl _

theorem mul_isNaN_left (m : Mode) (x y : Val) (h : x.isNaN = true) :
    (Spec.mul m x y).isNaN = true := by
  cases x <;> simp_all [Val.isNaN, Spec.mul]

theorem mul_isNaN_right (m : Mode) (x y : Val) (h : y.isNaN = true) :
    (Spec.mul m x y).isNaN = true := by
  cases x <;> cases y <;> simp_all [Val.isNaN, Spec.mul]

theorem mul_congr_num (m : Mode) {x x' y y' : Val} (hx : x.sameNum x' = true)
    (hy : y.sameNum y' = true) : (Spec.mul m x y).sameNum (Spec.mul m x' y') = true :=
  lift_num (Spec.mul m) (fun _ _ _ _ h1 h2 => mul_congr m h1 h2)
    (mul_isNaN_left m) (mul_isNaN_right m) hx hy

/-! ## division -/

theorem quo_fin_congr (m : Mode) (n n' : Bool) (c c1 c' c1' : Nat) (e e1 e' e1' : Int)
    (h : (c : ℚ) * (10 : ℚ) ^ e = (c1 : ℚ) * (10 : ℚ) ^ e1)
    (h' : (c' : ℚ) * (10 : ℚ) ^ e' = (c1' : ℚ) * (10 : ℚ) ^ e1') :
    Spec.quo m (.fin n c e) (.fin n' c' e') = Spec.quo m (.fin n c1 e1) (.fin n' c1' e1') := by
  have hi : invalid2 .quo (.fin n c e) (.fin n' c' e') = invalid2 .quo (.fin n c1 e1) (.fin n' c1' e1') :=
    invalid2_congr .quo (sameNum_of_same ((same_fin_iff _ _ _ _ _ _).2 ⟨rfl, h⟩))
      (sameNum_of_same ((same_fin_iff _ _ _ _ _ _).2 ⟨rfl, h'⟩))
  simp only [Spec.quo]
  rw [hi, beq_zero_congr h, beq_zero_congr h']
  by_cases hc' : c1' = 0
  · simp [hc']
  · have hb : (c1' == 0) = false := by simpa using hc'
    simp only [hb, Bool.false_eq_true, if_false]
    have hc0 : c' ≠ 0 := fun h0 => hc' ((zero_iff_of_mag h').1 h0)
    rw [SpecRound.flushOrRoundS_scale m _ _ (div_nonneg (Nat.cast_nonneg _) (Nat.cast_nonneg _)) (e - e'),
      SpecRound.flushOrRoundS_scale m _ _ (div_nonneg (Nat.cast_nonneg _) (Nat.cast_nonneg _)) (e1 - e1')]
    congr 1
    have h10 : (10 : ℚ) ≠ 0 := by norm_num
    have hp : (10 : ℚ) ^ e' ≠ 0 := (zpow_pos (by norm_num) _).ne'
    have hp1 : (10 : ℚ) ^ e1' ≠ 0 := (zpow_pos (by norm_num) _).ne'
    have hq : (c' : ℚ) ≠ 0 := by exact_mod_cast hc0
    have hq1 : (c1' : ℚ) ≠ 0 := by exact_mod_cast hc'
    rw [zpow_sub₀ h10, zpow_sub₀ h10]
    calc (c : ℚ) / c' * ((10 : ℚ) ^ e / (10 : ℚ) ^ e')
        = ((c : ℚ) * (10 : ℚ) ^ e) / ((c' : ℚ) * (10 : ℚ) ^ e') := by field_simp
      _ = ((c1 : ℚ) * (10 : ℚ) ^ e1) / ((c1' : ℚ) * (10 : ℚ) ^ e1') := by rw [h, h']
      _ = (c1 : ℚ) / c1' * ((10 : ℚ) ^ e1 / (10 : ℚ) ^ e1') := by field_simp

theorem quo_congr (m : Mode) {x x' y y' : Val} (hx : x.same x' = true) (hy : y.same y' = true) :
    (Spec.quo m x y).same (Spec.quo m x' y') = true := by
  rcases same_cases hx with ⟨n, p, rfl, rfl⟩ | ⟨n, rfl, rfl⟩ | ⟨n, c, e, c1, e1, rfl, rfl, hm⟩
  · exact same_refl _
  · rcases same_cases hy with ⟨n', p', rfl, rfl⟩ | ⟨n', rfl, rfl⟩ |
      ⟨n', c', e', c1', e1', rfl, rfl, hm'⟩
    · exact same_refl _
    · exact same_refl _
    · exact same_refl _
  · rcases same_cases hy with ⟨n', p', rfl, rfl⟩ | ⟨n', rfl, rfl⟩ |
      ⟨n', c', e', c1', e1', rfl, rfl, hm'⟩
    · exact same_refl _
    · exact same_refl _
    · rw [quo_fin_congr m n n' c c1 c' c1' e e1 e' e1' hm hm']
      exact same_refl _

theorem quo_isNaN_left (m : Mode) (x y : Val) (h : x.isNaN = true) :
    (Spec.quo m x y).isNaN = true := by
  cases x <;> simp_all [Val.isNaN, Spec.quo]

theorem quo_isNaN_right (m : Mode) (x y : Val) (h : y.isNaN = true) :
    (Spec.quo m x y).isNaN = true := by
  cases x <;> cases y <;> simp_all [Val.isNaN, Spec.quo]

theorem quo_congr_num (m : Mode) {x x' y y' : Val} (hx : x.sameNum x' = true)
    (hy : y.sameNum y' = true) : (Spec.quo m x y).sameNum (Spec.quo m x' y') = true :=
  lift_num (Spec.quo m) (fun _ _ _ _ h1 h2 => quo_congr m h1 h2)
    (quo_isNaN_left m) (quo_isNaN_right m) hx hy

end Cohort
