/-
  The value of a numeral, part 4: `Gen.parseNumber` computes its functional model `Parse.model` without
  assuming that `reduce128` returns on all inputs.

  `Parse.parseNumber_eq_model` takes the hypothesis `hred : ∀ rm neg sig exp trunc, ∃ r, reduce128 … = .ok r`.
  Here the verification conditions are generated again with a *conditional* specification of the call
  (`⦃∃ r, reduce128 … = .ok r⦄ reduce128 … ⦃…⦄`), so that only the one call `parseNumber` actually makes
  has to return — and that follows from `reduce128_correct` on the state the loops reach
  (`ParseLong.finish_value`).

  * `ParseLong.triple_pre`               a pure precondition may be assumed
  * `ParseLong.G_loops`                  at the exit of the second loop the state is the model's
  * `ParseLong.parseNumber_triple_call`  the Hoare triple, given that the call made returns (`hcall`)
  * `ParseLong.parseNumber_eq_model_call`   the same as an equation
  * `ParseLong.finish_ok_reduce`         if the tail returns in the rounding branch, the call returned
  * `ParseLong.parseNumber_eq_model'`    for a valid default rounding mode and at most `10^9 − 6216` bytes:
                                         `Gen.parseNumber g d neg sep = Parse.model g d.toList neg sep`
                                         (every input, accepted or not; no panic, termination)
-/
import D128.Proofs.ParseLongFinish

open Std.Do

set_option mvcgen.warning false
set_option linter.unusedSimpArgs false
set_option linter.unusedVariables false

namespace ParseLong
open Parse

theorem triple_pre {α : Type} {f : Go.GoM α} {P : Prop} {Q : PostCond α PS}
    (h : P → ⦃⌜True⌝⦄ f ⦃Q⦄) : ⦃⌜P⌝⦄ f ⦃Q⦄ := by
  unfold Triple at *
  exact SPred.pure_elim' h

theorem G_loops {d : Go.Bytes} {sep : Bool} {b : B2}
    (h : ((inv2 d sep).fst (Sum.inr b)).down) (hb : b.1 = none) :
    loops sep d.toList = some (st2 b.2) := by
  have h' : E2 d sep b := h
  unfold E2 at h'
  rw [hb] at h'
  simp only at h'
  exact h'.symm

/-- what `parseNumber` needs from `reduce128`: the call it makes returns -/
def CallOK (g : Globals) (neg sep : Bool) (cs : List UInt8) : Prop :=
  ∀ s, loops sep cs = some s → ¬ ((!s.caneof) || (!s.sawdig)) = true →
    ¬ ((s.sig.w0 ||| s.sig.w1) == (0 : UInt64)) = true →
    ∀ e : Int64, e = (if s.eneg then s.exp * (-1 : Int64) else s.exp) - s.nfrac →
    ¬ decide (e > (6150 : Int64)) = true → ¬ decide (e < (-6215 : Int64)) = true →
    ∃ r, Gen.RoundingMode.reduce128 g.DefaultRoundingMode neg s.sig
      (Go.conv (e + (6176 : Int64)) : Int16) s.trunc = .ok r

set_option maxHeartbeats 400000 in
theorem parseNumber_triple_call (g : Globals) (d : Go.Bytes) (neg sep : Bool)
    (hcall : CallOK g neg sep d.toList) (hsz : d.size < 2^63) :
   ⦃⌜True⌝⦄ Gen.parseNumber g d neg sep ⦃⇓ r => ⌜.ok r = model g d.toList neg sep⌝⦄ := by
  have hspec : ∀ rm neg sig exp trunc,
      ⦃⌜∃ r, Gen.RoundingMode.reduce128 rm neg sig exp trunc = .ok r⌝⦄
      Gen.RoundingMode.reduce128 rm neg sig exp trunc
      ⦃⇓ r => ⌜Gen.RoundingMode.reduce128 rm neg sig exp trunc = .ok r⌝⦄ := by
    intro rm neg sig exp trunc
    apply triple_pre
    intro ⟨r, hr⟩
    exact triple_of_ok hr hr
  mvcgen [Gen.parseNumber, hspec]
  case inv1 => exact var1 d
  case inv2 => exact inv1 d sep
  case inv3 => exact var2 d
  case inv4 => exact inv2 d sep
  case vc1 hc hpre => exact (L1_cond hsz hpre hc).1
  case vc2 hc hpre => exact (L1_cond hsz hpre hc).2
  case vc3 | vc4 | vc5 | vc6 | vc7 | vc8 | vc9 | vc10 | vc11 =>
    first
    | refine L1_step hsz (by assumption) (by assumption) (L1_cond hsz (by assumption) (by assumption)).2 _ (by assumption) _ ?_ ?_
      · simp +zetaDelta only [ix1, st1, isDig_fold] at *
        simp at *
        simp_all [step1]
      · rfl
    | refine L1_err hsz (by assumption) (by assumption) (L1_cond hsz (by assumption) (by assumption)).2 _ (by assumption) ?_ _
      simp +zetaDelta only [ix1, st1, isDig_fold] at *
      simp at *
      simp_all [step1]
  case vc12 => exact L1_exit hsz (by assumption) (by assumption)
  case vc13 => exact L1_init d sep
  case vc14 => exact G_ret1 g neg (by assumption) (by assumption)
  case vc43 => exact G_12 (by assumption) (by assumption)
  case vc44 => exact G_ret2 g neg (by assumption) (by assumption)
  case vc15 => exact (L2_cond hsz (by assumption) (by assumption)).1
  case vc16 => exact (L2_cond hsz (by assumption) (by assumption)).2
  case vc19 => exact (L2_cond2 hsz (by assumption) (by assumption)).1
  case vc20 => exact (L2_cond2 hsz (by assumption) (by assumption)).2
  case vc42 => exact L2_exit hsz (by assumption) (by assumption)
  case vc21 | vc22 =>
    refine L2_two hsz (by assumption) (by assumption) (L2_cond hsz (by assumption) (by assumption)).2 _ (by assumption)
      (L2_cond2 hsz (by assumption) (by assumption)).2 _ (by assumption) (by assumption) ?_ _ ?_ ?_
    · simp +zetaDelta only [ix2, st2, isDig_fold] at *
      simp at *
      simp_all
    · simp +zetaDelta only [ix2, st2, isDig_fold] at *
      simp at *
      simp_all [step22]
    · rfl
  case vc17 | vc18 | vc23 | vc24 | vc25 | vc26 | vc27 | vc28 | vc29 | vc30 | vc31 | vc32 | vc33 | vc34
      | vc35 | vc36 | vc37 | vc38 | vc39 | vc40 | vc41 =>
    first
    | refine L2_step_b hsz (by assumption) (by assumption) (L2_cond hsz (by assumption) (by assumption)).2 _ (by assumption)
        (L2_cond2 hsz (by assumption) (by assumption)).2 _ (by assumption) ?_ _ ?_ ?_
      · simp +zetaDelta only [ix2, st2, isDig_fold] at *
        simp at *
        simp_all
      · simp +zetaDelta only [ix2, st2, isDig_fold] at *
        simp at *
        simp_all [step2, expDigit, u64_le_false, i64_lt_false]
      · rfl
    | refine L2_step_a hsz (by assumption) (by assumption) (L2_cond hsz (by assumption) (by assumption)).2 _ (by assumption)
        ?_ _ ?_ ?_
      · simp +zetaDelta only [ix2, st2, isDig_fold] at *
        simp at *
        simp_all [u64_le_false, i64_lt_false]
      · simp +zetaDelta only [ix2, st2, isDig_fold] at *
        simp at *
        simp_all [step2, expDigit, u64_le_false, i64_lt_false]
      · rfl
    | refine L2_err hsz (by assumption) (by assumption) (L2_cond hsz (by assumption) (by assumption)).2 _ (by assumption) ?_ ?_ _
      · simp +zetaDelta only [ix2, st2, isDig_fold] at *
        simp at *
        simp_all
      · simp +zetaDelta only [ix2, st2, isDig_fold] at *
        simp at *
        simp_all [step2]
  case vc45 =>
    rw [G_fin g neg (by assumption) (by assumption)]
    exact (finish_syn g neg _ (by assumption)).symm
  case vc46 =>
    rw [G_fin g neg (by assumption) (by assumption)]
    exact (finish_zero g neg _ (by assumption) (by assumption)).symm
  case vc47 | vc52 =>
    rw [G_fin g neg (by assumption) (by assumption)]
    refine (finish_big g neg _ (by assumption) (by assumption) _ ?_ (by assumption)).symm
    first | rw [if_pos (by assumption)] | rw [if_neg (by assumption)]
    rfl
  case vc48 | vc53 =>
    rw [G_fin g neg (by assumption) (by assumption)]
    refine (finish_small g neg _ (by assumption) (by assumption) _ ?_ (by assumption) (by assumption)).symm
    first | rw [if_pos (by assumption)] | rw [if_neg (by assumption)]
    rfl
  case vc49 | vc54 =>
    have hl := G_loops (d := d) (sep := sep) (by assumption) (by assumption)
    refine hcall _ hl (by assumption) (by assumption) _ ?_ (by assumption) (by assumption)
    first | rw [if_pos (by assumption)] | rw [if_neg (by assumption)]
    rfl
  case vc50 h12 hr | vc51 h12 hr | vc55 h12 hr | vc56 h12 hr =>
    rw [G_fin g neg (by assumption) (by assumption)]
    rw [finish_red g neg _ (by assumption) (by assumption) _ ?_ (by assumption) (by assumption) _ hr]
    · first | rw [if_pos h12] | rw [if_neg h12]
    · first | rw [if_pos (by assumption)] | rw [if_neg (by assumption)]
      rfl
  case vc57 => simp [inv2]
  case vc58 => simp [inv1]

theorem parseNumber_eq_model_call (g : Globals) (d : Go.Bytes) (neg sep : Bool)
    (hcall : CallOK g neg sep d.toList) (hsz : d.size < 2^63) :
    Gen.parseNumber g d neg sep = model g d.toList neg sep := by
  obtain ⟨r, h1, h2⟩ := ok_of_triple (parseNumber_triple_call g d neg sep hcall hsz)
  rw [h1, h2]

/-- if the tail returns in the rounding branch, the call of `reduce128` returned -/
theorem finish_ok_reduce (g : Globals) (neg : Bool) (s : S2) (h : ¬ ((!s.caneof) || (!s.sawdig)) = true)
    (hz : ¬ ((s.sig.w0 ||| s.sig.w1) == (0 : UInt64)) = true)
    (e : Int64) (he : e = (if s.eneg then s.exp * (-1 : Int64) else s.exp) - s.nfrac)
    (hb : ¬ decide (e > (6150 : Int64)) = true) (hs : ¬ decide (e < (-6215 : Int64)) = true)
    (x : Gen.Decimal × Go.Err) (hx : finish g neg s = .ok x) :
    ∃ r, Gen.RoundingMode.reduce128 g.DefaultRoundingMode neg s.sig
      (Go.conv (e + (6176 : Int64)) : Int16) s.trunc = .ok r := by
  subst he
  unfold finish at hx
  rw [if_neg h, if_neg hz] at hx
  simp only [] at hx
  rw [if_neg hb, if_neg hs] at hx
  cases hr : Gen.RoundingMode.reduce128 g.DefaultRoundingMode neg s.sig
      (Go.conv ((if s.eneg then s.exp * (-1 : Int64) else s.exp) - s.nfrac + (6176 : Int64)) : Int16) s.trunc with
  | ok r => exact ⟨r, rfl⟩
  | error p => rw [hr] at hx; cases hx

/-- the call `parseNumber` makes returns, for a valid rounding mode and at most `10^9 − 6216` bytes -/
theorem callOK (g : Globals) (neg sep : Bool) (cs : List UInt8) (m : Spec.Mode)
    (hm : Spec.Mode.ofNat? g.DefaultRoundingMode.toNat = some m) (hlen : cs.length + 6216 ≤ 10 ^ 9) :
    CallOK g neg sep cs := by
  intro s hl hsyn hz e he hb hs
  rw [loops_eq_run2] at hl
  obtain ⟨k, r, hR⟩ := run2_rel sep cs (toS2 init1) s g0 0 0 hl rel_init g0_inv
    (by show 0 + cs.length < 2 ^ 62; omega)
  have hnd := gfold_nd_le cs g0
  have hnd0 : g0.nd = 0 := rfl
  have hce : s.caneof = true := by
    cases h : s.caneof
    · exfalso; apply hsyn; simp [h]
    · rfl
  have hsd : s.sawdig = true := by
    cases h : s.sawdig
    · exfalso; apply hsyn; simp [h]
    · rfl
  obtain ⟨v, e', hfin, -, -⟩ :=
    finish_value g neg m hm s (gfold cs g0) k r hR (gfold_inv cs g0 g0_inv) (by omega) hce hsd
  exact finish_ok_reduce g neg s hsyn hz e he hb hs _ hfin

/-- **`parseNumber` computes its functional model**, for every input of at most `10^9 − 6216` bytes and
    a valid default rounding mode: no panic (all indexing in range, `reduce128` returns), termination,
    and the result is `Parse.model`. -/
theorem parseNumber_eq_model' (g : Globals) (d : Go.Bytes) (neg sep : Bool) (m : Spec.Mode)
    (hm : Spec.Mode.ofNat? g.DefaultRoundingMode.toNat = some m) (hsz : d.size + 6216 ≤ 10 ^ 9) :
    Gen.parseNumber g d neg sep = model g d.toList neg sep :=
  parseNumber_eq_model_call g d neg sep
    (callOK g neg sep d.toList m hm (by simpa using hsz)) (by omega)

end ParseLong
