/-
  D128/Proofs/PowLadderFinish.lean — property C18: the dispatch in stage `finish` of
  `Gen.Decimal.PowWithMode`, the square-root shortcut (y = ±0.5, x = 10^(2k)), and the assembly of the
  power-of-ten cases from `ladder` on.  All bit patterns, every mode byte.

  Provided (namespace `PowPf`):
  * `finish_pow10`     : `¬oNeg ∧ oExp ≥ bias ∧ dSig = 1` enters `pow10Path`
  * `i16_and_one`      : `(a &&& 1 == 0) = decide (a.toInt % 2 = 0)` on `Int16`
  * `half_exp`         : the exponent arithmetic `(dExp - bias)/2·(±1) + bias` in `Int16`
  * `finish_half`      : y = ±0.5, x = 10^K with K even: `compose neg 1 (±K/2 + bias)`
  * `strip_pow10`      : s·10^k = 10^a with s % 10 ≠ 0 forces s = 1, k = a
  * `stripped_int`     : a stripped y equal to the natural number Y: exponent ≥ bias, Y = s·10^(exp-bias)
  * `ladder_to_finish` : finite non-zero x, finite y (not 0, not ±1), not (x < 0 ∧ y ∉ ℤ):
                         `ladder` continues at `finish` with the stripped operands and `neg = signOf …`
  * `case_pow10`       : x = ±10^K (coefficient 10^a, any cohort member), y = Y ∈ ℕ, Y ≥ 2 (any encoding):
                         the result denotes `flushOrRoundS m neg 1 (K·Y)`, neg = x < 0 ∧ Y odd
  * `case_half`        : x = +10^K, K even, y = ±0.5 (any encoding): the result denotes 10^(±K/2) exactly
-/
import D128.Proofs.PowLadderTen

set_option autoImplicit false
set_option maxRecDepth 8192
set_option linter.unusedVariables false
set_option linter.unusedSimpArgs false

namespace PowPf
open Gen Sp Spec
local notation "𝔳[" d "]" => Spec.interp (Gen.Decimal.lo d) (Gen.Decimal.hi d)

theorem u128_one : (U128.mk (1 : UInt64) (0 : UInt64)).toNat = 1 := by decide
theorem u128_five : (U128.mk (5 : UInt64) (0 : UInt64)).toNat = 5 := by decide

theorem finish_pow10 (rm : UInt8) (dNeg neg : Bool) (oSig : U128) (oExp : Int16) (dSig : U128)
    (dExp : Int16) (ho : 6176 ≤ oExp.toInt) (hd : dSig.toNat = 1) :
    finish rm dNeg false neg oSig oExp dSig dExp = pow10Path rm dNeg neg oSig oExp dSig dExp := by
  unfold finish
  have e6 : (6176 : Int16).toInt = 6176 := by decide
  have : (((!false) && (decide (oExp ≥ (6176 : Int16)))) && (dSig == (U128.mk (1 : UInt64) (0 : UInt64)))) = true := by
    simp only [u128_beq, u128_one, ge_iff_le, i16_le_iff, e6]
    simp [ho, hd]
  rw [if_pos this]

theorem i16_and_one (a : Int16) : ((a &&& (1 : Int16)) == (0 : Int16)) = decide (a.toInt % 2 = 0) := by
  rw [Bool.eq_iff_iff, beq_iff_eq, decide_eq_true_eq]
  rw [← Int16.toBitVec_inj, Int16.toBitVec_and]
  have h1 : (1 : Int16).toBitVec = 1#16 := rfl
  have h0 : (0 : Int16).toBitVec = 0#16 := rfl
  rw [h1, h0]
  have ht : a.toInt = a.toBitVec.toInt := rfl
  rw [ht]
  generalize a.toBitVec = b
  rw [BitVec.toInt_eq_toNat_bmod]
  constructor
  · intro h
    have := congrArg BitVec.toNat h
    simp only [BitVec.toNat_and, BitVec.toNat_ofNat] at this
    have h2 : b.toNat % 2 = 0 := by
      have := Nat.and_one_is_mod b.toNat
      simp at *
      omega
    rw [Int.bmod_def]
    split <;> omega
  · intro h
    apply BitVec.eq_of_toNat_eq
    simp only [BitVec.toNat_and, BitVec.toNat_ofNat]
    have : b.toNat % 2 = 0 := by
      rw [Int.bmod_def] at h
      split at h <;> omega
    have := Nat.and_one_is_mod b.toNat
    simp at *
    omega

/-- `(dExp - bias)/2 + bias` and `(dExp - bias)/2·(-1) + bias` for an even unbiased exponent -/
theorem half_exp (dExp : Int16) (hd0 : 0 ≤ dExp.toInt) (hd1 : dExp.toInt ≤ 12400)
    (hev : (dExp.toInt - 6176) % 2 = 0) :
    ((((dExp - (6176 : Int16)) / (2 : Int16)) + (6176 : Int16)).toInt = (dExp.toInt - 6176) / 2 + 6176 ∧
    ((((dExp - (6176 : Int16)) / (2 : Int16)) * (-1 : Int16)) + (6176 : Int16)).toInt =
      -((dExp.toInt - 6176) / 2) + 6176) ∧
    (0 ≤ (dExp.toInt - 6176) / 2 + 6176 ∧ (dExp.toInt - 6176) / 2 + 6176 ≤ 12287) ∧
    (0 ≤ -((dExp.toInt - 6176) / 2) + 6176 ∧ -((dExp.toInt - 6176) / 2) + 6176 ≤ 12287) := by
  refine ⟨?_, by omega, by omega⟩
  have e6 : (6176 : Int16).toInt = 6176 := by decide
  have e2 : (2 : Int16).toInt = 2 := by decide
  have em : (-1 : Int16).toInt = -1 := by decide
  have hK : (dExp - (6176 : Int16)).toInt = dExp.toInt - 6176 := by
    rw [i16_sub _ _ (by rw [e6]; omega) (by rw [e6]; omega), e6]
  have hdvd : (2 : Int) ∣ dExp.toInt - 6176 := Int.dvd_of_emod_eq_zero hev
  have hq : ((dExp - (6176 : Int16)) / (2 : Int16)).toInt = (dExp.toInt - 6176) / 2 := by
    rw [Int16.toInt_div, hK, e2, Int.tdiv_eq_ediv_of_dvd hdvd, bmod16_small] <;> omega
  constructor
  · rw [Int16.toInt_add_of] <;> rw [hq, e6] <;> omega
  · have hm : (((dExp - (6176 : Int16)) / (2 : Int16)) * (-1 : Int16)).toInt = -((dExp.toInt - 6176) / 2) := by
      rw [Int16.toInt_mul, hq, em, bmod16_small] <;> omega
    rw [Int16.toInt_add_of] <;> rw [hm, e6] <;> omega

/-- the square-root shortcut -/
theorem finish_half (rm : UInt8) (dNeg oNeg neg : Bool) (oSig : U128) (oExp : Int16) (dSig : U128)
    (dExp : Int16) (hev : (dExp.toInt - 6176) % 2 = 0) (hoE : oExp.toInt = 6175) (hd : dSig.toNat = 1)
    (ho : oSig.toNat = 5) :
    finish rm dNeg oNeg neg oSig oExp dSig dExp =
      .ok (compose neg dSig (if oNeg = true
        then ((((dExp - (6176 : Int16)) / (2 : Int16)) * (-1 : Int16)) + (6176 : Int16))
        else (((dExp - (6176 : Int16)) / (2 : Int16)) + (6176 : Int16)))) := by
  unfold finish
  have e6 : (6176 : Int16).toInt = 6176 := by decide
  have e5 : (6175 : Int16).toInt = 6175 := by decide
  have c1 : ¬ (((!oNeg) && (decide (oExp ≥ (6176 : Int16)))) && (dSig == (U128.mk (1 : UInt64) (0 : UInt64)))) = true := by
    simp only [ge_iff_le, i16_le_iff, e6]
    have : ¬ 6176 ≤ oExp.toInt := by omega
    simp [this]
  have hev' : dExp.toInt % 2 = 0 := by omega
  have c2 : (((((dExp &&& (1 : Int16)) == (0 : Int16)) && (oExp == (6175 : Int16))) && (dSig == (U128.mk (1 : UInt64) (0 : UInt64)))) && (oSig == (U128.mk (5 : UInt64) (0 : UInt64)))) = true := by
    rw [i16_and_one, i16_beq, e5, u128_beq, u128_beq, u128_one, u128_five]
    simp [hev', hoE, hd, ho]
  rw [if_neg c1, if_pos c2]
  cases oNeg <;> rfl

/-! ## arithmetic of stripped coefficients -/

theorem strip_pow10 (s k a : Nat) (h : s * 10 ^ k = 10 ^ a) (hs : s % 10 ≠ 0) : s = 1 ∧ k = a := by
  have h1 := powerOfTen_strip s k 0 hs
  have h2 := powerOfTen_strip 1 a 0 (by norm_num)
  rw [h, ← one_mul (10 ^ a), h2] at h1
  simp only [if_true] at h1
  by_cases hs1 : s = 1
  · rw [if_pos hs1] at h1
    refine ⟨hs1, ?_⟩
    have := Option.some.inj h1
    omega
  · rw [if_neg hs1] at h1; cases h1

/-- a stripped y that equals the natural number Y -/
theorem stripped_int (o : Decimal) (s : U128 × Int16) (j : Nat) (hs : Stripped o s j) (Y : Nat)
    (hY : Spec.mag (cf o) (ex o) = (Y : Rat)) :
    6176 ≤ s.2.toInt ∧ Y = s.1.toNat * 10 ^ (s.2.toInt - 6176).toNat := by
  have he := stripped_exp o s j hs
  obtain ⟨-, hc, -, hm, -⟩ := hs
  rw [hc, mag_strip] at hY
  have hint : isIntQ ((s.1.toNat : Rat) * (10 : Rat) ^ (ex o + (j : Int))) = true := by
    rw [hY]; simp [isIntQ]
  rw [isIntQ_strip _ _ hm, decide_eq_true_eq] at hint
  refine ⟨by omega, ?_⟩
  rw [strip_nat _ _ hint] at hY
  have : s.1.toNat * 10 ^ (ex o + (j : Int)).toNat = Y := by exact_mod_cast hY
  rw [← this, he]

theorem oddIntQ_nat (Y : Nat) : oddIntQ (Y : Rat) = decide (Y % 2 = 1) := by
  unfold oddIntQ
  simp only [Rat.den_natCast, beq_self_eq_true, Bool.true_and, Rat.num_natCast]
  rw [Bool.eq_iff_iff, beq_iff_eq, decide_eq_true_eq]; omega

/-! ## from `ladder` to `finish` -/

theorem fin_class (d : Decimal) (a3 : Decimal.isSpecial d = false) :
    Decimal.IsNaN d = false ∧ Decimal.isInf d = false := by
  rcases view d with ⟨b1, b2, b3, b4, bv⟩ | ⟨b1, b2, b3, b4, bv⟩ | ⟨b1, b2, b3, b4, b5, bc, bv⟩ | ⟨b1, b2, b3, b4, b5, bc, bb, bv⟩
  · rw [a3] at b3; cases b3
  · rw [a3] at b3; cases b3
  · exact ⟨b1, b2⟩
  · exact ⟨b1, b2⟩

/-- finite non-zero x, finite non-zero y, and not (x < 0 with y ∉ ℤ): the ladder reaches `finish` with
    both coefficients stripped and the sign of the result decided -/
theorem ladder_to_finish (d o : Decimal) (rm : UInt8)
    (a3 : Decimal.isSpecial d = false) (a4 : Decimal.IsZero d = false)
    (h3 : Decimal.isSpecial o = false)
    (s : U128 × Int16) (j : Nat) (hs : Stripped o s j) (t : U128 × Int16) (k : Nat) (ht : Stripped d t k)
    (hint : Decimal.Signbit d = false ∨ 6176 ≤ s.2.toInt) :
    ladder rm d o =
      finish rm (Decimal.Signbit d) (Decimal.Signbit o)
        (Decimal.Signbit d && (intParity (cf o) (ex o) == some true)) s.1 s.2 t.1 t.2 := by
  obtain ⟨hn, hi⟩ := fin_class d a3
  rw [ladder_finY d o rm hn h3 s j hs, afterO_fin _ _ _ _ _ _ a4 hi t k ht,
    afterD_finish _ _ _ _ _ _ _ hint, signOf_eq _ o s j hs]

/-! ## the power-of-ten cases -/

/-- x = ±10^K given by the coefficient 10^a (any member of the cohort), y = Y a natural number ≥ 2 in
    any encoding: no panic for any mode byte, and the result denotes 10^(K·Y) as the format has it -/
theorem case_pow10 (d o : Decimal) (rm : UInt8) (a Y : Nat)
    (a3 : Decimal.isSpecial d = false) (hxc : cf d = 10 ^ a)
    (h3 : Decimal.isSpecial o = false) (hyn : Decimal.Signbit o = false)
    (hY : Spec.mag (cf o) (ex o) = (Y : Rat)) (hY0 : Y ≠ 0) :
    ∃ r, ladder rm d o = .ok r ∧
      ∀ m, Spec.Mode.ofNat? rm.toNat = some m →
        (𝔳[r]).same (flushOrRoundS m (Decimal.Signbit d && decide (Y % 2 = 1)) 1
          (((a : Int) + ex d) * (Y : Int))) = true := by
  have hdc : cf d ≠ 0 := by rw [hxc]; positivity
  have a4 : Decimal.IsZero d = false := by
    rw [IsZero_eq_sig]; simpa using hdc
  have hoc : cf o ≠ 0 := by
    intro h; rw [h, mag_zero] at hY
    have : (Y : Rat) = 0 := hY.symm
    exact hY0 (by exact_mod_cast this)
  have h4 : Decimal.IsZero o = false := by
    rw [IsZero_eq_sig]; simpa using hoc
  obtain ⟨s, j, hs⟩ := strip_fin o h4
  obtain ⟨t, k, ht⟩ := strip_fin d a4
  obtain ⟨hge, hYs⟩ := stripped_int o s j hs Y hY
  obtain ⟨ht1, hka⟩ := strip_pow10 t.1.toNat k a (by rw [← ht.2.1]; exact hxc) ht.2.2.2.1
  have hpar : (intParity (cf o) (ex o) == some true) = decide (Y % 2 = 1) := by
    rw [intParity_odd _ _ hoc (Enc.decompose_sig_le o), hY, oddIntQ_nat]
  have hK : t.2.toInt - 6176 = (a : Int) + ex d := by
    have := stripped_exp d t k ht; omega
  have hd0 : 0 ≤ t.2.toInt := by
    have := Enc.decompose_exp_nonneg d; have := ht.2.2.1; omega
  have hd1 : t.2.toInt ≤ 12400 := by
    have := Enc.decompose_exp_le d a3; have := ht.2.2.1; have := ht.2.2.2.2; omega
  have hos : s.1.toNat ≠ 0 := by
    intro h; have := hs.2.2.2.1; rw [h] at this; simp at this
  obtain ⟨r, hr, hv⟩ := pow10Path_spec rm (Decimal.Signbit d) s.1 s.2 t.1 t.2 ht1 hd0 hd1 hge hos
  rw [signOf_eq _ o s j hs, hpar] at hr
  rw [signOf_eq _ o s j hs, hpar, hK, ← hYs] at hv
  refine ⟨r, ?_, hv⟩
  rw [ladder_to_finish d o rm a3 a4 h3 s j hs t k ht (Or.inr hge), hyn, hpar,
    finish_pow10 _ _ _ _ _ _ _ hge ht1]
  exact hr

/-- x = +10^K with K even, y = ±0.5 in any encoding: exactly 10^(±K/2) -/
theorem case_half (d o : Decimal) (rm : UInt8) (a : Nat)
    (a3 : Decimal.isSpecial d = false) (hxn : Decimal.Signbit d = false) (hxc : cf d = 10 ^ a)
    (hev : ((a : Int) + ex d) % 2 = 0)
    (h3 : Decimal.isSpecial o = false) (hY : Spec.mag (cf o) (ex o) = 1 / 2) :
    ∃ r, ladder rm d o = .ok r ∧
      𝔳[r] = .fin false 1 (if Decimal.Signbit o = true then -(((a : Int) + ex d) / 2)
                            else ((a : Int) + ex d) / 2) := by
  have hdc : cf d ≠ 0 := by rw [hxc]; positivity
  have a4 : Decimal.IsZero d = false := by
    rw [IsZero_eq_sig]; simpa using hdc
  have hoc : cf o ≠ 0 := by
    intro h; rw [h, mag_zero] at hY; norm_num at hY
  have h4 : Decimal.IsZero o = false := by
    rw [IsZero_eq_sig]; simpa using hoc
  obtain ⟨s, j, hs⟩ := strip_fin o h4
  obtain ⟨t, k, ht⟩ := strip_fin d a4
  obtain ⟨ht1, hka⟩ := strip_pow10 t.1.toNat k a (by rw [← ht.2.1]; exact hxc) ht.2.2.2.1
  have hK : t.2.toInt - 6176 = (a : Int) + ex d := by
    have := stripped_exp d t k ht; omega
  have hd0 : 0 ≤ t.2.toInt := by
    have := Enc.decompose_exp_nonneg d; have := ht.2.2.1; omega
  have hd1 : t.2.toInt ≤ 12400 := by
    have := Enc.decompose_exp_le d a3; have := ht.2.2.1; have := ht.2.2.2.2; omega
  -- y = s·10^(ex o + j) = 1/2 forces s = 5 and exponent -1
  have he := stripped_exp o s j hs
  have hyv : (s.1.toNat : Rat) * (10 : Rat) ^ (ex o + (j : Int)) = 1 / 2 := by
    rw [← mag_strip, ← hs.2.1]; exact hY
  have hs5 : s.1.toNat = 5 ∧ ex o + (j : Int) = -1 := by
    have hm := hs.2.2.2.1
    have hnot : ¬ 0 ≤ ex o + (j : Int) := by
      intro h0
      rw [strip_nat _ _ h0] at hyv
      generalize s.1.toNat * 10 ^ (ex o + (j : Int)).toNat = N at hyv
      have h2 : (2 : Rat) * (N : Rat) = 1 := by linarith
      have h3 : 2 * N = 1 := by exact_mod_cast h2
      omega
    -- 2·s = 10^n with n = -(ex o + j) ≥ 1
    have hn : ex o + (j : Int) = -((-(ex o + (j : Int))).toNat : Int) := by omega
    have hn1 : 1 ≤ (-(ex o + (j : Int))).toNat := by omega
    generalize (-(ex o + (j : Int))).toNat = n at *
    rw [hn, zpow_neg, zpow_natCast] at hyv
    have hp : ((10 : Rat) ^ n) ≠ 0 := by positivity
    have h2 : (2 : Rat) * (s.1.toNat : Rat) = (10 : Rat) ^ n := by
      field_simp at hyv; linarith
    have h2n : 2 * s.1.toNat = 10 ^ n := by exact_mod_cast h2
    by_cases hn2 : n = 1
    · subst hn2; constructor <;> omega
    · exfalso
      have : 10 ^ n = 10 ^ (n - 2) * 100 := by
        rw [show (100 : Nat) = 10 ^ 2 by norm_num, ← pow_add]; congr 1; omega
      omega
  have hoE : s.2.toInt = 6175 := by omega
  have hev' : (t.2.toInt - 6176) % 2 = 0 := by rw [hK]; exact hev
  obtain ⟨⟨hx1, hx2⟩, ⟨hb1, hb2⟩, ⟨hb3, hb4⟩⟩ := half_exp t.2 hd0 hd1 hev'
  have hC1 : t.1.toNat ≤ Spec.Cmax := by rw [ht1]; unfold Spec.Cmax; norm_num
  have hlad := ladder_to_finish d o rm a3 a4 h3 s j hs t k ht (Or.inl hxn)
  rw [hxn, Bool.false_and, finish_half _ _ _ _ _ _ _ _ hev' hoE ht1 hs5.1] at hlad
  refine ⟨_, hlad, ?_⟩
  cases hso : Decimal.Signbit o
  · simp only [Bool.false_eq_true, if_false]
    rw [Sp.interp_compose false t.1 _ hC1 (by rw [hx1]; exact hb1) (by rw [hx1]; exact hb2), ht1, hx1, hK,
      Int.add_sub_cancel]
  · simp only [if_true]
    rw [Sp.interp_compose false t.1 _ hC1 (by rw [hx2]; exact hb3) (by rw [hx2]; exact hb4), ht1, hx2, hK,
      Int.add_sub_cancel]

end PowPf
