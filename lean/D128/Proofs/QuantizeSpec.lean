/-
  D128/Proofs/QuantizeSpec.lean — the specification side of property C08: normal forms of
  `Spec.quantize`, `Spec.ceilDp`, `Spec.floorDp` on a non-zero finite value whose exponent lies below the
  quantum, in terms of natural-number arithmetic on the coefficient, and the behaviour of
  `Spec.exactOrInfS` on members / non-members of the format.  Pure mathematics, no generated code.

  Provided (namespace `Qz`):
  * `same_fin_of_mag`, `same_trans`
  * `scaled_eq`            : `c · pow10 x = c / 10^K` for `x = -K`
  * `den_one_iff`          : `(c / 10^K : ℚ).den = 1 ↔ 10^K ∣ c`
  * `lt_tenth_iff`         : `(c / 10^K : ℚ) < 1/10 ↔ 10·c < 10^K`
  * `floorNat_div`         : `floorNat (c / 10^K) = c / 10^K` (natural division)
  * `exactOrInfS_zero`, `exactOrInfS_member`, `exactOrInfS_not_member`
  * `quantize_fin`, `ceilDp_fin`, `floorDp_fin` : the three specification functions for `0 < c`,
      `e + dp = -K < 0` (the three-way shortcut on the digit count is absorbed)
  * `quantize_keep`, `ceilDp_keep`, `floorDp_keep` : `0 ≤ e + dp` leaves the value unchanged
  * `cast_div_of_dvd`, `rndQ_of_dvd`, `exact_keep` : when `10^K ∣ c` the quantised magnitude is `c / 10^K`
      quanta, which denotes the operand itself
-/
import D128.Proofs.SpecRound
import D128.Proofs.RoundKernelTable
import D128.Spec.Arith

set_option autoImplicit false

namespace Qz
open Spec

theorem same_fin_of_mag (n : Bool) (c c' : Nat) (e e' : Int)
    (h : (c : ℚ) * (10 : ℚ) ^ e = (c' : ℚ) * (10 : ℚ) ^ e') :
    (Val.fin n c e).same (Val.fin n c' e') = true := by
  simp only [Val.same, beq_self_eq_true, Bool.true_and, beq_iff_eq, Spec.mag,
    SpecRound.pow10_eq_zpow]
  exact h

theorem same_trans (x y z : Val) (h1 : x.same y = true) (h2 : y.same z = true) :
    x.same z = true := by
  cases x <;> cases y <;> simp only [Val.same, Bool.false_eq_true] at h1 <;>
    cases z <;> simp only [Val.same, Bool.false_eq_true] at h2 <;>
    simp only [Val.same, Bool.and_eq_true, beq_iff_eq] at h1 h2 ⊢
  · exact ⟨h1.1.trans h2.1, h1.2.trans h2.2⟩
  · exact h1.trans h2
  · exact ⟨h1.1.trans h2.1, h1.2.trans h2.2⟩

/-! ## the scaled magnitude `c / 10^K` -/

theorem scaled_eq (c : Nat) (x : Int) (K : Nat) (h : x = -(K : Int)) :
    (c : ℚ) * Spec.pow10 x = (c : ℚ) / (10 : ℚ) ^ K := by
  rw [h, RK.pow10_neg, RK.pow10_natCast]; rfl

theorem den_one_iff (c K : Nat) : ((c : ℚ) / (10 : ℚ) ^ K).den = 1 ↔ 10 ^ K ∣ c := by
  have hp : (0 : ℚ) < (10 : ℚ) ^ K := by positivity
  constructor
  · intro h
    rw [Rat.den_eq_one_iff] at h
    set z := ((c : ℚ) / (10 : ℚ) ^ K).num with hz
    have h1 : (z : ℚ) * (10 : ℚ) ^ K = (c : ℚ) := by
      rw [h]; field_simp
    have h2 : z * ((10 ^ K : Nat) : Int) = (c : Int) := by
      have : ((z * ((10 ^ K : Nat) : Int) : Int) : ℚ) = (((c : Nat) : Int) : ℚ) := by
        push_cast; exact h1
      exact_mod_cast this
    have h3 : ((10 ^ K : Nat) : Int) ∣ (c : Int) := ⟨z, by rw [← h2]; ring⟩
    exact Int.natCast_dvd_natCast.1 h3
  · rintro ⟨t, rfl⟩
    have : (((10 ^ K * t : Nat)) : ℚ) / (10 : ℚ) ^ K = ((t : Nat) : ℚ) := by
      push_cast; field_simp
    rw [this]; exact Rat.den_natCast t

theorem lt_tenth_iff (c K : Nat) : (c : ℚ) / (10 : ℚ) ^ K < 1 / 10 ↔ 10 * c < 10 ^ K := by
  have hp : (0 : ℚ) < (10 : ℚ) ^ K := by positivity
  rw [div_lt_div_iff₀ hp (by norm_num)]
  constructor
  · intro h
    have : ((10 * c : Nat) : ℚ) < ((10 ^ K : Nat) : ℚ) := by push_cast; linarith
    exact_mod_cast this
  · intro h
    have : ((10 * c : Nat) : ℚ) < ((10 ^ K : Nat) : ℚ) := by exact_mod_cast h
    push_cast at this; linarith

theorem floorNat_div (c K : Nat) : floorNat ((c : ℚ) / (10 : ℚ) ^ K) = c / 10 ^ K := by
  have hp : (0 : ℚ) < (10 : ℚ) ^ K := by positivity
  have hpn : 0 < 10 ^ K := by positivity
  apply RK.floorNat_eq
  · rw [le_div_iff₀ hp]
    have : c / 10 ^ K * 10 ^ K ≤ c := Nat.div_mul_le_self c (10 ^ K)
    have : ((c / 10 ^ K * 10 ^ K : Nat) : ℚ) ≤ (c : ℚ) := by exact_mod_cast this
    push_cast at this; exact this
  · rw [div_lt_iff₀ hp]
    have : c < (c / 10 ^ K + 1) * 10 ^ K := by
      have := Nat.div_add_mod c (10 ^ K)
      have := Nat.mod_lt c hpn
      nlinarith
    have : (c : ℚ) < (((c / 10 ^ K + 1) * 10 ^ K : Nat) : ℚ) := by exact_mod_cast this
    push_cast at this; exact this

/-! ## `exactOrInfS` -/

theorem exactOrInfS_zero (neg : Bool) (k : Int) : Spec.exactOrInfS neg 0 k = .fin neg 0 0 := by
  simp [Spec.exactOrInfS]

theorem exactOrInfS_member (neg : Bool) (q : ℚ) (k : Int) (hq : 0 < q)
    (hm : SpecRound.Member (q * (10 : ℚ) ^ k)) :
    ∃ c e, Spec.exactOrInfS neg q k = .fin neg c e ∧ (c : ℚ) * (10 : ℚ) ^ e = q * (10 : ℚ) ^ k ∧
      c ≤ Spec.Cmax ∧ Spec.Emin ≤ e ∧ e ≤ Spec.Emax := by
  rw [SpecRound.exactOrInfS_scale neg q hq.le k]
  have hp : (0 : ℚ) < (10 : ℚ) ^ k := zpow_pos (by norm_num) _
  exact SpecRound.exactOrInf_of_member neg (mul_pos hq hp) hm

theorem exactOrInfS_not_member (neg : Bool) (q : ℚ) (k : Int) (hq : 0 < q)
    (hm : ¬ SpecRound.Member (q * (10 : ℚ) ^ k)) : Spec.exactOrInfS neg q k = .inf neg := by
  rw [SpecRound.exactOrInfS_scale neg q hq.le k]
  have hp : (0 : ℚ) < (10 : ℚ) ^ k := zpow_pos (by norm_num) _
  exact SpecRound.exactOrInf_of_not_member neg (mul_pos hq hp) hm

/-! ## normal forms of the three specification functions -/

/-- under the digit-count shortcut of the specification the scaled magnitude is below `1/100` -/
theorem shortcut (c : Nat) (K : Nat) (hc : 0 < c) (h : (Spec.ndigits c : Int) + 1 < (K : Int)) :
    10 * c < 10 ^ K ∧ ¬ 10 ^ K ∣ c ∧ c / 10 ^ K = 0 := by
  have h2 := (RK.ndigits_spec c hc).2
  have hK : Spec.ndigits c + 2 ≤ K := by omega
  have h3 : 10 ^ (Spec.ndigits c + 2) ≤ 10 ^ K := Nat.pow_le_pow_right (by norm_num) hK
  have h4 : 10 ^ (Spec.ndigits c + 2) = 100 * 10 ^ Spec.ndigits c := by ring
  have hlt : c < 10 ^ K := by omega
  refine ⟨by omega, ?_, Nat.div_eq_of_lt hlt⟩
  intro hd
  exact absurd (Nat.le_of_dvd hc hd) (by omega)

theorem quantize_fin (dp : Int) (m : Mode) (n : Bool) (c : Nat) (e : Int) (K : Nat) (hc : 0 < c)
    (hK : e + dp = -(K : Int)) (hK0 : 0 < K) :
    Spec.quantize dp m (.fin n c e) =
      if 10 ^ K ∣ c then .fin n c e
      else if 10 * c < 10 ^ K then .fin n 0 0
      else Spec.exactOrInfS n ((RK.rndQ m n ((c : ℚ) / (10 : ℚ) ^ K) : Nat) : ℚ) (-dp) := by
  have hc0 : (c == 0) = false := by simp; omega
  have hge : ¬ (e + dp ≥ 0) := by omega
  have hs0 : (0 : ℚ) ≤ (c : ℚ) / (10 : ℚ) ^ K := by positivity
  simp only [Spec.quantize, hc0, Bool.false_eq_true, if_false, hge]
  by_cases hsc : e + dp < -((Spec.ndigits c : Int) + 1)
  · obtain ⟨a1, a2, _⟩ := shortcut c K hc (by omega)
    rw [if_pos hsc, if_neg a2, if_pos a1]
  · rw [if_neg hsc, scaled_eq c (e + dp) K hK]
    simp only [beq_iff_eq, den_one_iff, lt_tenth_iff]
    rw [RK.roundAt_eq _ _ _ _ hs0, RK.pow10_zero, div_one]

theorem ceilDp_fin (dp : Int) (n : Bool) (c : Nat) (e : Int) (K : Nat) (hc : 0 < c)
    (hK : e + dp = -(K : Int)) (hK0 : 0 < K) :
    Spec.ceilDp dp (.fin n c e) =
      if 10 ^ K ∣ c then .fin n c e
      else Spec.exactOrInfS n (((if n then c / 10 ^ K else c / 10 ^ K + 1 : Nat)) : ℚ) (-dp) := by
  have hc0 : (c == 0) = false := by simp; omega
  have hge : ¬ (e + dp ≥ 0) := by omega
  simp only [Spec.ceilDp, hc0, Bool.false_eq_true, if_false, hge]
  by_cases hsc : e + dp < -((Spec.ndigits c : Int) + 1)
  · obtain ⟨a1, a2, a3⟩ := shortcut c K hc (by omega)
    rw [if_pos hsc, if_neg a2, a3]
    cases n
    · simp
    · simp [exactOrInfS_zero]
  · rw [if_neg hsc, scaled_eq c (e + dp) K hK]
    simp only [beq_iff_eq, den_one_iff, floorNat_div]

theorem floorDp_fin (dp : Int) (n : Bool) (c : Nat) (e : Int) (K : Nat) (hc : 0 < c)
    (hK : e + dp = -(K : Int)) (hK0 : 0 < K) :
    Spec.floorDp dp (.fin n c e) =
      if 10 ^ K ∣ c then .fin n c e
      else Spec.exactOrInfS n (((if n then c / 10 ^ K + 1 else c / 10 ^ K : Nat)) : ℚ) (-dp) := by
  have hc0 : (c == 0) = false := by simp; omega
  have hge : ¬ (e + dp ≥ 0) := by omega
  simp only [Spec.floorDp, hc0, Bool.false_eq_true, if_false, hge]
  by_cases hsc : e + dp < -((Spec.ndigits c : Int) + 1)
  · obtain ⟨a1, a2, a3⟩ := shortcut c K hc (by omega)
    rw [if_pos hsc, if_neg a2, a3]
    cases n
    · simp [exactOrInfS_zero]
    · simp
  · rw [if_neg hsc, scaled_eq c (e + dp) K hK]
    simp only [beq_iff_eq, den_one_iff, floorNat_div]

theorem quantize_keep (dp : Int) (m : Mode) (n : Bool) (c : Nat) (e : Int) (hc : 0 < c)
    (h : 0 ≤ e + dp) : Spec.quantize dp m (.fin n c e) = .fin n c e := by
  have hc0 : (c == 0) = false := by simp; omega
  simp only [Spec.quantize, hc0, Bool.false_eq_true, if_false, ge_iff_le, h, if_true]

theorem ceilDp_keep (dp : Int) (n : Bool) (c : Nat) (e : Int) (hc : 0 < c)
    (h : 0 ≤ e + dp) : Spec.ceilDp dp (.fin n c e) = .fin n c e := by
  have hc0 : (c == 0) = false := by simp; omega
  simp only [Spec.ceilDp, hc0, Bool.false_eq_true, if_false, ge_iff_le, h, if_true]

theorem floorDp_keep (dp : Int) (n : Bool) (c : Nat) (e : Int) (hc : 0 < c)
    (h : 0 ≤ e + dp) : Spec.floorDp dp (.fin n c e) = .fin n c e := by
  have hc0 : (c == 0) = false := by simp; omega
  simp only [Spec.floorDp, hc0, Bool.false_eq_true, if_false, ge_iff_le, h, if_true]

/-! ## an operand that is already a multiple of the quantum -/

theorem cast_div_of_dvd (c K : Nat) (h : 10 ^ K ∣ c) :
    (c : ℚ) / (10 : ℚ) ^ K = ((c / 10 ^ K : Nat) : ℚ) := by
  obtain ⟨t, rfl⟩ := h
  have hpn : 0 < 10 ^ K := by positivity
  rw [Nat.mul_div_cancel_left _ hpn]
  push_cast; field_simp

theorem rndQ_of_dvd (m : Mode) (n : Bool) (c K : Nat) (h : 10 ^ K ∣ c) :
    RK.rndQ m n ((c : ℚ) / (10 : ℚ) ^ K) = c / 10 ^ K := by
  rw [cast_div_of_dvd c K h, RK.rndQ_exact]

/-- `c / 10^K` quanta `10^(-dp)` are the operand `c·10^e` itself when `10^K ∣ c` and `e + dp = -K` -/
theorem exact_keep (n : Bool) (c : Nat) (e dp : Int) (K : Nat) (hc : 0 < c) (hcm : c ≤ Spec.Cmax)
    (he1 : Spec.Emin ≤ e) (he2 : e ≤ Spec.Emax) (hK : e + dp = -(K : Int)) (h : 10 ^ K ∣ c) :
    (Spec.exactOrInfS n ((c / 10 ^ K : Nat) : ℚ) (-dp)).same (.fin n c e) = true := by
  have hpn : 0 < 10 ^ K := by positivity
  have hmag : ((c / 10 ^ K : Nat) : ℚ) * (10 : ℚ) ^ (-dp) = (c : ℚ) * (10 : ℚ) ^ e := by
    rw [← cast_div_of_dvd c K h]
    have : -dp = e + (K : Int) := by omega
    rw [this, zpow_add₀ (by norm_num), zpow_natCast]
    field_simp
  have hq : (0 : ℚ) < ((c / 10 ^ K : Nat) : ℚ) := by
    have : 0 < c / 10 ^ K := Nat.div_pos (Nat.le_of_dvd hc h) hpn
    exact_mod_cast this
  obtain ⟨c', e', hv, hce, _⟩ := exactOrInfS_member n _ (-dp) hq ⟨c, e, hcm, he1, he2, hmag⟩
  rw [hv]
  exact same_fin_of_mag _ _ _ _ _ (hce.trans hmag)

end Qz
