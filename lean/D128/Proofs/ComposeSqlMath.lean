/-
  D128/Proofs/ComposeSqlMath.lean — the mathematics behind `Decimal.Compose` (property C14):
  when is `n · 10^x` (n a natural number, x any integer) a member of the format, i.e. of the form
  `c · 10^e` with `c ≤ Cmax`, `Emin ≤ e ≤ Emax` (`SpecRound.Member`).  No generated code here.

  Provided (namespace `CS`):
  * `zpow_split`           : `10^b = 10^(b-a).toNat · 10^a` for `a ≤ b`
  * `member_nat`           : a member `n·10^x` in natural-number form (either `c = n·10^(x-e)` or
                             `n = c·10^(e-x)`)
  * `member_dvd`           : member, `Cmax·10^(k-1) < n`  ⇒  `10^k ∣ n`        (the division stages)
  * `member_hi`            : member, `Emax < x`            ⇒  `10·n ≤ Cmax`     (the overflow exits)
  * `member_ge`            : member, `Emax ≤ x`            ⇒  `n ≤ Cmax`
  * `member_lo`            : member, `0 < n`, `x < Emin`   ⇒  `10^(Emin-x) ∣ n` (the underflow exits)
  * `not_member_tiny`      : `0 < n ≤ Cmax`, `x < Emin - 35`  ⇒  not a member
  * `member_of`            : `n ≤ Cmax`, `Emin ≤ x ≤ Emax`  ⇒  member
  * `val_div`, `val_mul10` : the value `n·10^x` is unchanged by `(n/10^k, x+k)` (exact division) and
                             `(10·n, x-1)`
  * thresholds `two192_gt`, `two128_gt`, `two256_div`, … (closed numeric facts)
  * `Res d neg V r`        : the contract of `Compose` for the exact value `V`: either success with a
                             finite result denoting exactly `V`, or the range error with `d` unchanged and
                             `V` not a member
-/
import D128.Proofs.SpecRound
import D128.Proofs.Canon
import Mathlib.Tactic.Ring
import Mathlib.Tactic.Linarith
import Mathlib.Tactic.NormNum
import Mathlib.Tactic.Positivity

set_option autoImplicit false

namespace CS
open SpecRound (Member)

local notation "𝔳[" d "]" => Spec.interp (Gen.Decimal.lo d) (Gen.Decimal.hi d)

theorem Cmax_val : Spec.Cmax = 12980742146337069071326240823050239 := CanonPf.Cmax_val
theorem Emin_val : Spec.Emin = -6176 := rfl
theorem Emax_val : Spec.Emax = 6111 := rfl

theorem zpow_split (a b : Int) (h : a ≤ b) :
    (10 : ℚ) ^ b = (10 : ℚ) ^ ((b - a).toNat) * (10 : ℚ) ^ a := by
  have : b = ((b - a).toNat : Int) + a := by rw [Int.toNat_of_nonneg (by omega)]; ring
  conv_lhs => rw [this, zpow_add₀ (by norm_num : (10 : ℚ) ≠ 0), zpow_natCast]

/-- a member `n·10^x` in natural-number form -/
theorem member_nat {n : Nat} {x : Int} (h : Member ((n : ℚ) * (10 : ℚ) ^ x)) :
    ∃ c : Nat, ∃ e : Int, c ≤ Spec.Cmax ∧ Spec.Emin ≤ e ∧ e ≤ Spec.Emax ∧
      ((e ≤ x ∧ c = n * 10 ^ (x - e).toNat) ∨ (x < e ∧ n = c * 10 ^ (e - x).toNat)) := by
  obtain ⟨c, e, hc, he1, he2, hv⟩ := h
  refine ⟨c, e, hc, he1, he2, ?_⟩
  by_cases hex : e ≤ x
  · left
    refine ⟨hex, ?_⟩
    rw [zpow_split e x hex] at hv
    have hp : (10 : ℚ) ^ e ≠ 0 := zpow_ne_zero _ (by norm_num)
    have h2 : ((n : ℚ) * (10 : ℚ) ^ (x - e).toNat) = (c : ℚ) := by
      have := mul_right_cancel₀ hp (by rw [mul_assoc]; exact hv :
        ((n : ℚ) * (10 : ℚ) ^ (x - e).toNat) * (10 : ℚ) ^ e = (c : ℚ) * (10 : ℚ) ^ e)
      exact this
    have h3 : ((n * 10 ^ (x - e).toNat : Nat) : ℚ) = (c : ℚ) := by push_cast; exact h2
    exact (by exact_mod_cast h3.symm)
  · right
    have hxe : x ≤ e := by omega
    refine ⟨by omega, ?_⟩
    rw [zpow_split x e hxe] at hv
    have hp : (10 : ℚ) ^ x ≠ 0 := zpow_ne_zero _ (by norm_num)
    have h2 : (n : ℚ) = (c : ℚ) * (10 : ℚ) ^ (e - x).toNat := by
      have := mul_right_cancel₀ hp (by rw [mul_assoc]; exact hv :
        (n : ℚ) * (10 : ℚ) ^ x = ((c : ℚ) * (10 : ℚ) ^ (e - x).toNat) * (10 : ℚ) ^ x)
      exact this
    have h3 : (n : ℚ) = ((c * 10 ^ (e - x).toNat : Nat) : ℚ) := by push_cast; exact h2
    exact (by exact_mod_cast h3)

/-- a member whose coefficient exceeds `Cmax·10^(k-1)` is divisible by `10^k` -/
theorem member_dvd {n : Nat} {x : Int} (k : Nat) (hk : 1 ≤ k) (hn : Spec.Cmax * 10 ^ (k - 1) < n)
    (h : Member ((n : ℚ) * (10 : ℚ) ^ x)) : 10 ^ k ∣ n := by
  obtain ⟨c, e, hc, -, -, hcase⟩ := member_nat h
  have hp1 : 1 ≤ 10 ^ (k - 1) := Nat.one_le_pow _ _ (by norm_num)
  rcases hcase with ⟨-, hce⟩ | ⟨-, hne⟩
  · exfalso
    have hp : 1 ≤ 10 ^ (x - e).toNat := Nat.one_le_pow _ _ (by norm_num)
    have : n ≤ c := by rw [hce]; exact Nat.le_mul_of_pos_right _ hp
    have : Spec.Cmax ≤ Spec.Cmax * 10 ^ (k - 1) := Nat.le_mul_of_pos_right _ hp1
    omega
  · by_cases hm : k ≤ (e - x).toNat
    · rw [hne]
      exact Dvd.dvd.mul_left (Nat.pow_dvd_pow 10 hm) c
    · exfalso
      have hm' : (e - x).toNat ≤ k - 1 := by omega
      have h1 : 10 ^ (e - x).toNat ≤ 10 ^ (k - 1) := Nat.pow_le_pow_right (by norm_num) hm'
      have : n ≤ Spec.Cmax * 10 ^ (k - 1) := by rw [hne]; exact Nat.mul_le_mul hc h1
      omega

/-- a member with an exponent above `Emax` has a coefficient that can absorb a factor ten -/
theorem member_hi {n : Nat} {x : Int} (hx : Spec.Emax < x)
    (h : Member ((n : ℚ) * (10 : ℚ) ^ x)) : 10 * n ≤ Spec.Cmax := by
  obtain ⟨c, e, hc, -, he2, hcase⟩ := member_nat h
  rcases hcase with ⟨-, hce⟩ | ⟨hxe, -⟩
  · have hm : 1 ≤ (x - e).toNat := by omega
    have h1 : 10 ^ 1 ≤ 10 ^ (x - e).toNat := Nat.pow_le_pow_right (by norm_num) hm
    have : n * 10 ≤ c := by rw [hce]; exact Nat.mul_le_mul_left _ (by simpa using h1)
    omega
  · omega

/-- a member with an exponent at or above `Emax` has a coefficient within `Cmax` -/
theorem member_ge {n : Nat} {x : Int} (hx : Spec.Emax ≤ x)
    (h : Member ((n : ℚ) * (10 : ℚ) ^ x)) : n ≤ Spec.Cmax := by
  obtain ⟨c, e, hc, -, he2, hcase⟩ := member_nat h
  rcases hcase with ⟨-, hce⟩ | ⟨hxe, -⟩
  · have hp : 1 ≤ 10 ^ (x - e).toNat := Nat.one_le_pow _ _ (by norm_num)
    have : n ≤ c := by rw [hce]; exact Nat.le_mul_of_pos_right _ hp
    omega
  · omega

/-- a non-zero member with an exponent below `Emin` has the missing powers of ten in its coefficient -/
theorem member_lo {n : Nat} {x : Int} (hx : x < Spec.Emin)
    (h : Member ((n : ℚ) * (10 : ℚ) ^ x)) : 10 ^ (Spec.Emin - x).toNat ∣ n := by
  obtain ⟨c, e, -, he1, -, hcase⟩ := member_nat h
  rcases hcase with ⟨hex, -⟩ | ⟨-, hne⟩
  · omega
  · rw [hne]
    exact Dvd.dvd.mul_left (Nat.pow_dvd_pow 10 (by omega)) c

theorem member_lo_ten {n : Nat} {x : Int} (hx : x < Spec.Emin)
    (h : Member ((n : ℚ) * (10 : ℚ) ^ x)) : 10 ∣ n := by
  have h1 := member_lo hx h
  have : (10 : Nat) ∣ 10 ^ (Spec.Emin - x).toNat := by
    have : 1 ≤ (Spec.Emin - x).toNat := by omega
    exact dvd_pow_self 10 (by omega)
  exact Nat.dvd_trans this h1

theorem not_member_tiny {n : Nat} {x : Int} (hn : 0 < n) (hc : n ≤ Spec.Cmax)
    (hx : x < Spec.Emin - 35) : ¬ Member ((n : ℚ) * (10 : ℚ) ^ x) := by
  intro h
  have h1 := member_lo (by omega) h
  have h2 : 10 ^ 36 ≤ 10 ^ (Spec.Emin - x).toNat := Nat.pow_le_pow_right (by norm_num) (by omega)
  have h3 := Nat.le_of_dvd hn h1
  rw [Cmax_val] at hc
  omega

theorem member_of {n : Nat} {x : Int} (hc : n ≤ Spec.Cmax) (h1 : Spec.Emin ≤ x) (h2 : x ≤ Spec.Emax) :
    Member ((n : ℚ) * (10 : ℚ) ^ x) := ⟨n, x, hc, h1, h2, rfl⟩

/-! ## the value is preserved by the reduction steps -/

theorem val_div (n k : Nat) (x : Int) (h : 10 ^ k ∣ n) :
    ((n / 10 ^ k : Nat) : ℚ) * (10 : ℚ) ^ (x + (k : Int)) = (n : ℚ) * (10 : ℚ) ^ x := by
  obtain ⟨t, rfl⟩ := h
  have hp : 0 < 10 ^ k := by positivity
  rw [Nat.mul_div_cancel_left _ hp, zpow_add₀ (by norm_num : (10 : ℚ) ≠ 0), zpow_natCast]
  push_cast; ring

theorem val_mul10 (n : Nat) (x : Int) :
    ((n * 10 : Nat) : ℚ) * (10 : ℚ) ^ (x - 1) = (n : ℚ) * (10 : ℚ) ^ x := by
  rw [zpow_sub₀ (by norm_num : (10 : ℚ) ≠ 0), zpow_one]
  push_cast; field_simp

/-! ## numeric thresholds -/

theorem two192_gt : Spec.Cmax * 10 ^ 18 < 2 ^ 192 := by rw [Cmax_val]; norm_num
theorem two128_gt : Spec.Cmax * 10 ^ 3 < 2 ^ 128 := by rw [Cmax_val]; norm_num
theorem two256_gt : Spec.Cmax * 10 ^ 18 < 2 ^ 256 := by rw [Cmax_val]; norm_num

/-! ## the contract -/

/-- contract of `Compose` (form 0) for the exact value `V ≥ 0` with sign `neg`, starting from `d` -/
def Res (d : Gen.Decimal) (neg : Bool) (V : ℚ) (r : Gen.Decimal × Go.Err) : Prop :=
  (r.2 = Go.Err.nil ∧ ∃ c : Nat, ∃ e : Int, 𝔳[r.1] = .fin neg c e ∧ c ≤ Spec.Cmax ∧ Spec.Emin ≤ e ∧
      e ≤ Spec.Emax ∧ (c : ℚ) * (10 : ℚ) ^ e = V)
  ∨ (r = (d, Go.Err.composeRangeError) ∧ ¬ Member V)

theorem Res.err {d : Gen.Decimal} {neg : Bool} {V : ℚ} (h : ¬ Member V) :
    Res d neg V (d, Go.Err.composeRangeError) := Or.inr ⟨rfl, h⟩

theorem Res.member {d : Gen.Decimal} {neg : Bool} {V : ℚ} {r : Gen.Decimal × Go.Err}
    (h : Res d neg V r) (hm : Member V) :
    r.2 = Go.Err.nil ∧ ∃ c : Nat, ∃ e : Int, 𝔳[r.1] = .fin neg c e ∧ c ≤ Spec.Cmax ∧ Spec.Emin ≤ e ∧
      e ≤ Spec.Emax ∧ (c : ℚ) * (10 : ℚ) ^ e = V := by
  rcases h with h | ⟨-, h⟩
  · exact h
  · exact absurd hm h

theorem Res.not_member {d : Gen.Decimal} {neg : Bool} {V : ℚ} {r : Gen.Decimal × Go.Err}
    (h : Res d neg V r) (hm : ¬ Member V) : r = (d, Go.Err.composeRangeError) := by
  rcases h with ⟨-, c, e, -, hc, h1, h2, hv⟩ | ⟨h, -⟩
  · exact absurd ⟨c, e, hc, h1, h2, hv.symm⟩ hm
  · exact h

end CS
