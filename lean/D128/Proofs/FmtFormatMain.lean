/-
  D128/Proofs/FmtFormatMain.lean — `Gen.Decimal.Format` (Go: `func (d Decimal) Format(f fmt.State, verb rune)`,
  /repo/format.go), the `fmt.Formatter` entry point, over the value model `Go.FmtState`.

  * `Ly.widOf`, `Ly.precOfSt`, `Ly.argsOf`, `Ly.flagsSt`, `Ly.precSt` : what `Format` reads off the state
  * `Ly.Format_unfold`, `Ly.Format_ascii` : `Format` = `writeSpecial …` for NaN / ±Inf, the `fmt.Appendf` notice for
                               `verb ≥ 128`, `format d nil (argsOf st verb)` + `Write` otherwise
  * `Ly.format_state_spec`   : finite `d`, ASCII verbs `e E f F g G`: `Spec.fmtSpec`
  * `Ly.formatV_gSel`, `Ly.gSel_shortest`, `Ly.formatV_shortest`, `Ly.format_state_v`, `Ly.String_shortest`,
    `Ly.format_state_v_string` : `v` (shortest form, = `d.String()`, flags / width / precision ignored)
  * `Ly.format_state_special`: NaN / ±Inf, every verb
  * `Ly.format_state_other`, `Ly.format_state_nonascii` : finite `d`, any other verb below 128 / any verb ≥ 128:
                               the unmodelled `fmt.Appendf` arm
  * `Ly.format_state_total_prec56` : every `d`, state, verb: `.ok` with only `out` extended, or that arm
-/
import D128.Proofs.FmtFormatSpecial
import D128.Proofs.LayoutTotal
import D128.Proofs.EmitMain

set_option autoImplicit false
set_option maxRecDepth 4096

namespace Ly
open Dg Gen

/-! ## what `Format` reads off the state -/

/-- the width option, 0 when absent -/
def widOf (f : Go.FmtState) : Int64 := match f.wid with | some w => w | none => 0

/-- the precision option, −1 when absent -/
def precOfSt (f : Go.FmtState) : Int64 := match f.prec with | some p => p | none => -1

/-- the `formatArgs` record `Format` builds: the flags of the state, `0` dropped when `-` is set, the
verb converted to a byte (the identity for the verbs below 128 that reach this record; a
negative `verb`, which is no rune, would be narrowed) -/
def argsOf (f : Go.FmtState) (verb : Int32) : formatArgs :=
  { forceDP := f.sharp, printSign := f.plus, padSign := f.space, padRight := f.minus,
    padZero := f.zero && !f.minus, verb := (Go.conv verb : UInt8), prec := precOfSt f, wid := widOf f }

/-- the flag set in effect: `0` is dropped when `-` is set (as fmt does for a float64) -/
def flagsSt (f : Go.FmtState) : Spec.Flags :=
  { plus := f.plus, minus := f.minus, sharp := f.sharp, space := f.space, zero := f.zero && !f.minus }

/-- the precision in effect: a present negative one counts as absent (fmt never hands one over) -/
def precSt (f : Go.FmtState) : Option Nat :=
  match f.prec with
  | some p => if p.toInt < 0 then none else some p.toInt.toNat
  | none => none

theorem flagsOf_argsOf (f : Go.FmtState) (verb : Int32) : flagsOf (argsOf f verb) = flagsSt f := rfl

theorem precOf_argsOf (f : Go.FmtState) (verb : Int32) : precOf (argsOf f verb) = precSt f := by
  unfold precOf argsOf precOfSt precSt
  cases f.prec <;> rfl

theorem map_throw {α β : Type} (g : α → β) (e : Go.Panic) :
    (g <$> (throw e : Go.GoM α)) = (throw e : Go.GoM β) := rfl

/-- **normal form of `Format`** -/
theorem Format_unfold (d : Decimal) (f : Go.FmtState) (verb : Int32) :
    Decimal.Format d f verb =
      (if Decimal.isSpecial d = true then
        (if (verb != (118 : Int32)) = true then
          Decimal.writeSpecial d f (widOf f) f.plus f.space f.minus
         else Decimal.writeSpecial d f 0 false false f.minus)
       else if decide (verb ≥ (128 : Int32)) = true then (do
         let _ ← Decimal.String d
         throw (Go.Panic.unmodelled "fmt.Appendf"))
       else (do
         let x ← Decimal.format d (#[] : Go.Bytes) (argsOf f verb)
         pure { f with out := f.out ++ x.2 })) := by
  unfold Decimal.Format argsOf widOf precOfSt
  cases hw : f.wid <;> cases hp : f.prec <;>
    simp [Go.FmtState.Width, Go.FmtState.Precision, Go.FmtState.Flag, hw, hp, write_out, map_throw]

/-- a finite `d` and an ASCII verb (anything below 128): the formatting arm -/
theorem Format_ascii (d : Decimal) (f : Go.FmtState) (verb : Int32)
    (hfin : Decimal.isSpecial d = false) (hlt : verb < 128) :
    Decimal.Format d f verb = (do
      let x ← Decimal.format d (#[] : Go.Bytes) (argsOf f verb)
      pure { f with out := f.out ++ x.2 }) := by
  have h : decide (verb ≥ (128 : Int32)) = false := by
    rw [decide_eq_false_iff_not, ge_iff_le, Int32.not_le]; exact hlt
  rw [Format_unfold, hfin, h]
  rfl

theorem bstr_empty : bstr (#[] : Go.Bytes) = [] := rfl

theorem widOf_bounds (st : Go.FmtState) (lo hi : Int) (hlo : lo ≤ 0) (hhi : 0 < hi)
    (hwid : ∀ w, st.wid = some w → lo ≤ w.toInt ∧ w.toInt < hi) :
    lo ≤ (widOf st).toInt ∧ (widOf st).toInt < hi := by
  unfold widOf
  cases h : st.wid with
  | none => exact ⟨hlo, hhi⟩
  | some w => exact hwid w h

theorem precOfSt_lt (st : Go.FmtState) (hprec : ∀ p, st.prec = some p → p.toInt < 2 ^ 56) :
    (precOfSt st).toInt < 2 ^ 56 := by
  unfold precOfSt
  cases h : st.prec with
  | none => decide
  | some p => exact hprec p h

/-! ## finite `d`, the six float verbs -/

/-- **`Format` on a finite `d`, verbs `e E f F g G`**: `Spec.fmtSpec` of the flags of the state (with `0`
dropped when `-` is present), the precision and width options, appended to `st.out`; every other field
of the state unchanged; no panic.  `verb < 128` (from 128 on: `format_state_nonascii`). -/
theorem format_state_spec (d : Decimal) (st : Go.FmtState) (verb : Int32)
    (hfin : Decimal.isSpecial d = false)
    (hv : (Go.conv verb : UInt8) = 101 ∨ (Go.conv verb : UInt8) = 69 ∨ (Go.conv verb : UInt8) = 102 ∨
      (Go.conv verb : UInt8) = 70 ∨ (Go.conv verb : UInt8) = 103 ∨ (Go.conv verb : UInt8) = 71)
    (hlt : verb < 128)
    (hprec : ∀ p, st.prec = some p → p.toInt < 2 ^ 56)
    (hwid : ∀ w, st.wid = some w → 0 ≤ w.toInt ∧ w.toInt < 2 ^ 62) :
    ∃ r, Decimal.Format d st verb = .ok { st with out := st.out ++ r } ∧
      bstr r = Spec.fmtSpec (flagsSt st) (chr (Go.conv verb)) (precSt st)
        (some (widOf st).toInt.toNat) (Decimal.Signbit d) (Spec.sliceOf (coefOf d) (expoOf d)) := by
  obtain ⟨hw0, hw1⟩ := widOf_bounds st 0 (2 ^ 62) (by decide) (by decide) hwid
  obtain ⟨r, hr, hs⟩ := format_spec d #[] (argsOf st verb) hfin hv (precOfSt_lt st hprec)
    (widOf st).toInt.toNat (by show (widOf st).toInt = _; omega) (by omega) (by decide)
    (by
      show st.minus = true → (st.zero && !st.minus) = false
      intro h; rw [h]; simp)
  refine ⟨r, ?_, ?_⟩
  · rw [Format_ascii d st verb hfin hlt, hr]; rfl
  · rw [hs, bstr_empty, List.nil_append, flagsOf_argsOf, precOf_argsOf]; rfl

/-! ## finite `d`, the verb `v` -/

/-- the `v` arm of `format` is the layout selection of `String` / `MarshalText` -/
theorem formatV_gSel (r : digits) (buf : Go.Bytes) (args : formatArgs) :
    formatV r buf args =
      Emit.gSel r buf (-4) 6 true 101 (fun b => (pure (args, b) : Go.GoM (formatArgs × Go.Bytes))) := rfl

theorem chars_eq_bstr (b : Go.Bytes) : Emit.chars b = bstr b := rfl

/-- the layout selection appends the shortest form, whatever the rest `k` of the caller -/
theorem gSel_shortest {α : Type} (r0 : digits) (h : Fin0 r0) (buf : Go.Bytes)
    (k : Go.Bytes → Go.GoM α) (hb : buf.size < 2 ^ 62) :
    ∃ r, Emit.gSel r0 buf (-4) 6 true 101 k = k r ∧
      bstr r = bstr buf ++ Spec.shortestG r0.neg (slice r0) 'e' ∧ r.size ≤ buf.size + 12500 := by
  obtain ⟨out, ho, hco, hos⟩ := Emit.gSel_spec r0 buf (-4) 6 true 101 k h.wf h.z h.x0 h.dp
    (by decide) (by decide) hb
  refine ⟨out, ho, ?_, hos⟩
  rw [← chars_eq_bstr, hco, Emit.shortestG_eq]
  rfl

/-- the `v` arm appends the shortest form -/
theorem formatV_shortest (r0 : digits) (h : Fin0 r0) (buf : Go.Bytes) (args : formatArgs)
    (hb : buf.size < 2 ^ 62) :
    ∃ r, formatV r0 buf args = .ok (args, r) ∧
      bstr r = bstr buf ++ Spec.shortestG r0.neg (slice r0) 'e' ∧ r.size ≤ buf.size + 12500 := by
  obtain ⟨out, ho, hco, hos⟩ := gSel_shortest r0 h buf
    (fun b => (pure (args, b) : Go.GoM (formatArgs × Go.Bytes))) hb
  exact ⟨out, by rw [formatV_gSel, ho]; rfl, hco, hos⟩

/-- **`Format` on a finite `d`, verb `v`** (`verb < 128` with byte 118): the shortest form `%v` of C06 —
positional for `−4 ≤ x < 6`, exponent form otherwise — whatever flags, width and precision the state
carries (they are ignored: `%12v` is not padded). -/
theorem format_state_v (d : Decimal) (st : Go.FmtState) (verb : Int32)
    (hfin : Decimal.isSpecial d = false) (hv : (Go.conv verb : UInt8) = 118) (hlt : verb < 128) :
    ∃ r, Decimal.Format d st verb = .ok { st with out := st.out ++ r } ∧
      bstr r = Spec.shortestG (Decimal.Signbit d) (Spec.sliceOf (coefOf d) (expoOf d)) 'e' ∧
      r.size ≤ 12500 := by
  obtain ⟨r0, hr0, hwf, hneg, hs, hx0, hdp, hz⟩ := digits_fin d (default : digits) hfin
  obtain ⟨r, hr, hstr, hsz⟩ := formatV_shortest r0 ⟨hwf, hx0, hdp, hz⟩ #[] (argsOf st verb)
    (by decide)
  refine ⟨r, ?_, ?_, by simpa using hsz⟩
  · rw [Format_ascii d st verb hfin hlt, format_V d #[] (argsOf st verb) hv, hr0]
    simp only [ok_bind, hr]
    rfl
  · rw [hstr, bstr_empty, List.nil_append, hneg, hs]; rfl

/-- `d.String()` of a finite `d` is the shortest form (as `Emit.string_fin`, in the vocabulary here) -/
theorem String_shortest (d : Decimal) (hfin : Decimal.isSpecial d = false) :
    ∃ r, Decimal.String d = .ok r ∧
      bstr r = Spec.shortestG (Decimal.Signbit d) (Spec.sliceOf (coefOf d) (expoOf d)) 'e' := by
  obtain ⟨r0, hr0, hwf, hneg, hs, hx0, hdp, hz⟩ := digits_fin d (default : digits) hfin
  obtain ⟨out, ho, hco, _⟩ := gSel_shortest r0 ⟨hwf, hx0, hdp, hz⟩ #[]
    (fun b => (pure b : Go.GoM Go.Bytes)) (by decide)
  refine ⟨out, ?_, ?_⟩
  · rw [Emit.String_eq, if_neg (by rw [hfin]; decide), hr0]
    exact ho
  · rw [hco, bstr_empty, List.nil_append, hneg, hs]; rfl

/-- … and that text is `d.String()`, byte for byte -/
theorem format_state_v_string (d : Decimal) (st : Go.FmtState) (verb : Int32)
    (hfin : Decimal.isSpecial d = false) (hv : (Go.conv verb : UInt8) = 118) (hlt : verb < 128) :
    ∃ r, Decimal.String d = .ok r ∧ Decimal.Format d st verb = .ok { st with out := st.out ++ r } := by
  obtain ⟨r, hr, hstr, _⟩ := format_state_v d st verb hfin hv hlt
  obtain ⟨out, hS, hso⟩ := String_shortest d hfin
  have : out = r := bstr_inj (by rw [hstr, hso])
  subst this
  exact ⟨out, hS, hr⟩

/-! ## NaN and the infinities -/

/-- **`Format` on NaN / ±Inf, EVERY verb**: `NaN` / `+NaN` / ` NaN`, `+Inf` / ` Inf` / `-Inf` by the
sign flags, blank-padded to the width (on the right for `-`); `st.zero` does not occur: no zero
padding; `st.sharp` and the precision do not occur either.  The verb `v` — tested on the rune itself,
not on a byte — prints the bare text.  A negative width counts as none. -/
theorem format_state_special (d : Decimal) (st : Go.FmtState) (verb : Int32)
    (hsp : Decimal.isSpecial d = true)
    (hwid : verb ≠ 118 → ∀ w, st.wid = some w → -2 ^ 62 < w.toInt ∧ w.toInt < 2 ^ 62) :
    ∃ r, Decimal.Format d st verb = .ok { st with out := st.out ++ r } ∧
      bstr r = (if verb = 118 then specialStr (Decimal.IsNaN d) (Decimal.Signbit d) false false
        else specialPad (specialStr (Decimal.IsNaN d) (Decimal.Signbit d) st.plus st.space)
          (widOf st).toInt.toNat st.minus) := by
  rw [Format_unfold, if_pos hsp]
  by_cases h118 : verb = 118
  · have h9 : ((118 : Int32) != (118 : Int32)) = false := rfl
    simp only [h118, if_true, h9, Bool.false_eq_true, if_false]
    refine ⟨_, writeSpecial_neg_width d st 0 false false st.minus (by decide) (by decide), ?_⟩
    exact specialValue_str d false false
  · have : (verb != (118 : Int32)) = true := by simpa using h118
    simp only [this, if_true, h118, if_false]
    obtain ⟨hw0, hw1⟩ := widOf_bounds st (-2 ^ 62 + 1) (2 ^ 62) (by decide) (by decide)
      (fun w hw => by have := hwid h118 w hw; omega)
    refine ⟨specialBytes (specialValue d st.plus st.space) (widOf st).toInt.toNat st.minus, ?_, ?_⟩
    · rw [writeSpecial_eq d st (widOf st) st.plus st.space st.minus (by omega) hw1, specialOut_eq]
    · rw [specialBytes_str, specialValue_str]

/-! ## finite `d`, any other verb -/

/-- **`Format` on a finite `d` with a verb below 128 whose byte is none of `e E f F g G v`** ends in the one
arm that is not modelled (`fmt.Appendf` of the `%!verb(decimal128.Decimal=…)` notice) — after
`d.digits` and `d.String()` have returned normally: no panic of the library's own code.  Nothing is
assumed about the state. -/
theorem format_state_other (d : Decimal) (st : Go.FmtState) (verb : Int32)
    (hfin : Decimal.isSpecial d = false) (hk : ¬ knownVerb (Go.conv verb : UInt8)) (hlt : verb < 128) :
    Decimal.Format d st verb = .error (Go.Panic.unmodelled "fmt.Appendf") := by
  have hne : (argsOf st verb).verb ≠ 101 ∧ (argsOf st verb).verb ≠ 69 ∧ (argsOf st verb).verb ≠ 102 ∧
      (argsOf st verb).verb ≠ 70 ∧ (argsOf st verb).verb ≠ 103 ∧ (argsOf st verb).verb ≠ 71 ∧
      (argsOf st verb).verb ≠ 118 := by
    unfold knownVerb at hk
    show (Go.conv verb : UInt8) ≠ 101 ∧ _
    exact ⟨fun e => hk (Or.inl e), fun e => hk (Or.inr (Or.inl e)),
      fun e => hk (Or.inr (Or.inr (Or.inl e))), fun e => hk (Or.inr (Or.inr (Or.inr (Or.inl e)))),
      fun e => hk (Or.inr (Or.inr (Or.inr (Or.inr (Or.inl e))))),
      fun e => hk (Or.inr (Or.inr (Or.inr (Or.inr (Or.inr (Or.inl e)))))),
      fun e => hk (Or.inr (Or.inr (Or.inr (Or.inr (Or.inr (Or.inr e))))))⟩
  obtain ⟨r0, hr0, _⟩ := digits_fin d (default : digits) hfin
  obtain ⟨t, ht⟩ := String_ok d hfin
  rw [Format_ascii d st verb hfin hlt, format_other d #[] (argsOf st verb) hne, hr0, ht]
  rfl

/-- **`Format` on a finite `d` with a verb outside ASCII** (`verb ≥ 128`; the fix of /repo 81ce116: the
rune is no longer narrowed to a byte first) ends in the unmodelled `fmt.Appendf` arm, after `d.String()`
has returned normally.  Nothing is assumed about the state. -/
theorem format_state_nonascii (d : Decimal) (st : Go.FmtState) (verb : Int32)
    (hfin : Decimal.isSpecial d = false) (hge : verb ≥ 128) :
    Decimal.Format d st verb = .error (Go.Panic.unmodelled "fmt.Appendf") := by
  obtain ⟨t, ht⟩ := String_ok d hfin
  have h : decide (verb ≥ (128 : Int32)) = true := by simpa using hge
  rw [Format_unfold, hfin, h, ht]
  rfl

/-! ## totality -/

/-- the outcome is the unmodelled `fmt.Appendf` arm: `d` finite and the verb outside ASCII, or (below
128) its byte none of `e E f F g G v` -/
def appendfArm (d : Decimal) (verb : Int32) : Prop :=
  Decimal.isSpecial d = false ∧ (verb ≥ 128 ∨ ¬ knownVerb (Go.conv verb : UInt8))

/-- **No panic of `Format`**: for every bit pattern `d`, every verb and every state whose width, if
present, is in `[0, 2^62)` and whose precision, if present, is below `2^56` (package fmt hands over
neither a negative width nor a width or precision above `10^6`), `Format` either returns the state with
only `out` extended, or — exactly when `appendfArm` — ends in the unmodelled `fmt.Appendf` arm. -/
theorem format_state_total_prec56 (d : Decimal) (st : Go.FmtState) (verb : Int32)
    (hwid : ∀ w, st.wid = some w → 0 ≤ w.toInt ∧ w.toInt < 2 ^ 62)
    (hprec : ∀ p, st.prec = some p → p.toInt < 2 ^ 56) :
    (appendfArm d verb →
      Decimal.Format d st verb = .error (Go.Panic.unmodelled "fmt.Appendf")) ∧
    (¬ appendfArm d verb →
      ∃ r, Decimal.Format d st verb = .ok { st with out := st.out ++ r }) := by
  constructor
  · rintro ⟨hfin, hk⟩
    by_cases hge : verb ≥ 128
    · exact format_state_nonascii d st verb hfin hge
    · have hlt : verb < 128 := Int32.not_le.mp hge
      rcases hk with hk | hk
      · exact absurd hk hge
      · exact format_state_other d st verb hfin hk hlt
  · intro hnot
    by_cases hsp : Decimal.isSpecial d = true
    · obtain ⟨r, hr, _⟩ := format_state_special d st verb hsp
        (fun _ w hw => by have := hwid w hw; omega)
      exact ⟨r, hr⟩
    · have hfin : Decimal.isSpecial d = false := by simpa using hsp
      have hlt : verb < 128 := by
        apply Int32.not_le.mp
        intro hge; exact hnot ⟨hfin, Or.inl hge⟩
      have hk : knownVerb (Go.conv verb : UInt8) := by
        by_contra hk; exact hnot ⟨hfin, Or.inr hk⟩
      have six : ((Go.conv verb : UInt8) = 101 ∨ (Go.conv verb : UInt8) = 69 ∨
          (Go.conv verb : UInt8) = 102 ∨ (Go.conv verb : UInt8) = 70 ∨ (Go.conv verb : UInt8) = 103 ∨
          (Go.conv verb : UInt8) = 71) →
          ∃ r, Decimal.Format d st verb = .ok { st with out := st.out ++ r } := by
        intro hv
        obtain ⟨r, hr, _⟩ := format_state_spec d st verb hfin hv hlt hprec hwid
        exact ⟨r, hr⟩
      rcases hk with h | h | h | h | h | h | h
      · exact six (Or.inl h)
      · exact six (Or.inr (Or.inl h))
      · exact six (Or.inr (Or.inr (Or.inl h)))
      · exact six (Or.inr (Or.inr (Or.inr (Or.inl h))))
      · exact six (Or.inr (Or.inr (Or.inr (Or.inr (Or.inl h)))))
      · exact six (Or.inr (Or.inr (Or.inr (Or.inr (Or.inr h)))))
      · obtain ⟨r, hr, _⟩ := format_state_v d st verb hfin h hlt
        exact ⟨r, hr⟩

end Ly
