/-
  D128/Proofs/QuoRemTop.lean — the finite, non-zero path of `Gen.Decimal.QuoRemWithMode`
  (Go: /repo/arith.go) against `Spec.quoRem` (property C03).

  Provided (namespace `QR`):
  * `qrDiv_correct`  : the first division (64-bit or 128-bit; the 64-bit accumulation loop is dead
                       code) and everything after it
  * `qrNeg_correct`  : exponent gap < 0 — the divisor is scaled; `|x| < |y|` returns `(±0, x)`
  * `qrPos_correct`  : exponent gap > 0 — the dividend is scaled as far as 128 bits allow
  * `gap_toInt`, `i16_le_m19`, `i16_ge_19'`, `mul64_1e19` : the exponent gap and the pre-scaling by 10¹⁹
  * `quoRem_finite`  : both operands finite and non-zero: `QuoRemWithMode d o rm` does not panic and
                       returns `(q, r)` denoting `Spec.quoRem m 𝔳[d] 𝔳[o]`
-/
import D128.Proofs.QuoRemMain
import D128.Proofs.MulQuoMul

set_option autoImplicit false
set_option maxRecDepth 8192
set_option linter.unusedVariables false
set_option linter.unusedSimpArgs false

namespace QR
open Gen
local notation "𝔳[" d "]" => Spec.interp (Gen.Decimal.lo d) (Gen.Decimal.hi d)

theorem qrDiv_correct (rm : UInt8) (m : Spec.Mode) (hm : Spec.Mode.ofNat? rm.toNat = some m)
    (qneg rneg : Bool) (dS : U128) (dE : Int16) (oS : U128) (exp : Int16)
    (hd : 0 < dS.toNat) (ho : 0 < oS.toNat)
    (he0 : 0 ≤ exp.toInt) (he1 : exp.toInt ≤ dE.toInt) (hdE : dE.toInt ≤ 12287)
    (hbig : 0 < exp.toInt → B18 ≤ dS.toNat)
    (hO : oS.toNat ≤ Spec.Cmax ∨ (exp.toInt = 0 ∧ dS.toNat ≤ Spec.Cmax)) :
    ∃ q r, qrDiv rm qneg rneg dS dE oS exp = .ok (q, r) ∧
      (𝔳[q]).same (qv m qneg (dS.toNat * 10 ^ exp.toInt.toNat / oS.toNat)) = true ∧
      (𝔳[r]).same (Spec.exactOrInfS rneg
        ((dS.toNat * 10 ^ exp.toInt.toNat % oS.toNat : Nat) : Rat) (dE.toInt - exp.toInt - 6176)) = true := by
  have hqe : (exp + 6176).toInt = exp.toInt + 6176 := by
    rw [Int16.toInt_add_of] <;> simp <;> omega
  have hT : 0 < dS.toNat * 10 ^ exp.toInt.toNat := Nat.mul_pos hd (Nat.pow_pos (by norm_num))
  have hremC : dS.toNat * 10 ^ exp.toInt.toNat % oS.toNat ≤ Spec.Cmax := by
    rcases hO with h | ⟨h1, h2⟩
    · have := Nat.mod_lt (dS.toNat * 10 ^ exp.toInt.toNat) ho
      omega
    · rw [h1]
      simp only [Int.toNat_zero, Nat.pow_zero, Nat.mul_one]
      exact le_trans (Nat.mod_le _ _) h2
  have hO' : oS.toNat ≤ Spec.Cmax ∨ exp.toInt = 0 := by
    rcases hO with h | h
    · exact Or.inl h
    · exact Or.inr h.1
  have hmain : ∀ sig rem : U128, sig.toNat = dS.toNat / oS.toNat → rem.toNat = dS.toNat % oS.toNat →
      ∃ q r, qrMain rm qneg rneg oS exp (exp + 6176) dE sig rem = .ok (q, r) ∧
      (𝔳[q]).same (qv m qneg (dS.toNat * 10 ^ exp.toInt.toNat / oS.toNat)) = true ∧
      (𝔳[r]).same (Spec.exactOrInfS rneg
        ((dS.toNat * 10 ^ exp.toInt.toNat % oS.toNat : Nat) : Rat) (dE.toInt - exp.toInt - 6176)) = true := by
    intro sig rem hs hr
    have hLD := ld_init oS.toNat exp.toInt.toNat sig.toNat rem.toNat
      (by rw [hr]; exact Nat.mod_lt _ ho)
    have hD : sig.toNat * oS.toNat + rem.toNat = dS.toNat := by
      rw [hs, hr, Nat.mul_comm]; exact Nat.div_add_mod _ _
    rw [hD] at hLD
    exact qrMain_correct rm m hm qneg rneg oS exp (exp + 6176) dE sig rem _ _ hO' hT he0
      (by omega) hqe (by omega) hdE hLD hremC rfl
  unfold qrDiv
  by_cases h64 : (dS.w1 ||| oS.w1 == 0) = true
  · rw [if_pos h64]
    rw [MQ.u64_or_eq_zero] at h64
    have hd0 : dS.toNat = dS.w0.toNat := by simp [U128.toNat, h64.1]
    have ho0 : oS.toNat = oS.w0.toNat := by simp [U128.toNat, h64.2]
    have hexp0 : exp.toInt = 0 := by
      by_contra hne
      have := hbig (by omega)
      have := dS.w0.toNat_lt
      simp only [B18] at *
      omega
    obtain ⟨q, r, ediv, hq, hr⟩ := Go.bits.Div64_ok 0 dS.w0 oS.w0 (by
      simp only [UInt64.toNat_zero]; omega)
    simp only [UInt64.toNat_zero, Nat.zero_mul, Nat.zero_add] at hq hr
    rw [ediv, RK.ok_bind, aLoop_dead _ _ (by show exp.toInt ≤ 0; omega), RK.ok_bind]
    exact hmain ⟨q, 0⟩ ⟨r, 0⟩ (by rw [U128.toNat_mk_zero, hq, hd0, ho0])
      (by rw [U128.toNat_mk_zero, hr, hd0, ho0])
  · rw [if_neg h64]
    obtain ⟨x1, x2, ediv, h1, h2⟩ := U128_div_spec dS oS (by omega)
    rw [ediv, RK.ok_bind]
    exact hmain x1 x2 h1 h2

theorem B18_gt_Cmax : Spec.Cmax < B18 := Cmax_lt_B18

/-- exponent gap < 0 (after the optional pre-scaling of the divisor): the divisor is scaled to the
    exponent of the dividend; if that is impossible in 128 bits or the scaled divisor exceeds the
    dividend, the quotient is zero and the remainder is the dividend itself -/
theorem qrNeg_correct (rm : UInt8) (m : Spec.Mode) (hm : Spec.Mode.ofNat? rm.toNat = some m)
    (d : Decimal) (qneg rneg : Bool) (dS : U128) (dE : Int16) (oS : U128) (exp : Int16)
    (hd : 0 < dS.toNat) (hdC : dS.toNat ≤ Spec.Cmax) (ho : 0 < oS.toNat)
    (he0 : exp.toInt ≤ 0) (hdE0 : 0 ≤ dE.toInt) (hdE : dE.toInt ≤ 12287)
    (hv : 𝔳[d] = .fin rneg dS.toNat (dE.toInt - 6176)) :
    ∃ q r, qrNeg rm d qneg rneg dS dE oS exp = .ok (q, r) ∧
      (𝔳[q]).same (qv m qneg (dS.toNat / (oS.toNat * 10 ^ (-exp.toInt).toNat))) = true ∧
      (𝔳[r]).same (Spec.exactOrInfS rneg
        ((dS.toNat % (oS.toNat * 10 ^ (-exp.toInt).toNat) : Nat) : Rat) (dE.toInt - 6176)) = true := by
  obtain ⟨s1, m1, e1, h1e, h1s, h1m⟩ := so4Loop (oS, exp)
  obtain ⟨s2, m2, e2, h2e, h2s, h2m, h2exit⟩ := so1Loop (s1.1, s1.2)
  simp only at h1e h1s h1m h2e h2s h2m
  have hX : s2.1.toNat = oS.toNat * 10 ^ (m1 + m2) := by
    rw [h2s, h1s, Nat.pow_add, Nat.mul_assoc]
  have hE : s2.2.toInt = exp.toInt + ((m1 + m2 : Nat) : Int) := by push_cast; omega
  have hEle : s2.2.toInt ≤ 0 := by omega
  have hb : oS.toNat * 10 ^ (-exp.toInt).toNat = s2.1.toNat * 10 ^ (-s2.2.toInt).toNat := by
    rw [hX, Nat.mul_assoc, ← Nat.pow_add]
    congr 2
    omega
  rw [hb]
  have hXpos : 0 < s2.1.toNat := by
    rw [hX]; exact Nat.mul_pos ho (Nat.pow_pos (by norm_num))
  unfold qrNeg
  rw [e1, RK.ok_bind, e2, RK.ok_bind]
  by_cases hc : (decide (s2.2 < 0) || decide (U128.cmp s2.1 dS > 0)) = true
  · rw [if_pos hc]
    have hlt : dS.toNat < s2.1.toNat * 10 ^ (-s2.2.toInt).toNat := by
      have hge : s2.1.toNat ≤ s2.1.toNat * 10 ^ (-s2.2.toInt).toNat :=
        Nat.le_mul_of_pos_right _ (Nat.pow_pos (by norm_num))
      rw [Bool.or_eq_true, decide_eq_true_eq, decide_eq_true_eq, Int16.lt_iff_toInt_lt,
        U128_cmp_gt_zero_iff] at hc
      rcases hc with hc | hc
      · have hneg : s2.2.toInt < 0 := by simpa using hc
        have : ¬ s2.1.toNat < B18 := fun h => h2exit ⟨hneg, h⟩
        have := B18_gt_Cmax
        omega
      · omega
    rw [Nat.div_eq_of_lt hlt, Nat.mod_eq_of_lt hlt]
    refine ⟨_, _, rfl, ?_, ?_⟩
    · rw [Enc.interp_zero]
      simp only [qv, beq_self_eq_true, if_true]
      exact Sp.same_zero _ _ _
    · rw [hv]
      exact exact_member_same rneg _ _ hdC (by unfold Spec.Emin; omega) (by unfold Spec.Emax; omega)
  · rw [if_neg hc]
    rw [Bool.or_eq_true, decide_eq_true_eq, decide_eq_true_eq, Int16.lt_iff_toInt_lt,
      U128_cmp_gt_zero_iff, not_or] at hc
    have h0 : s2.2.toInt = 0 := by
      have : ¬ s2.2.toInt < 0 := by simpa using hc.1
      omega
    obtain ⟨q, r, hr, hq1, hq2⟩ := qrDiv_correct rm m hm qneg rneg dS dE s2.1 s2.2 hd hXpos
      (by omega) (by omega) hdE (fun h => by omega) (Or.inr ⟨h0, hdC⟩)
    refine ⟨q, r, hr, ?_, ?_⟩
    · simpa [h0] using hq1
    · simpa [h0] using hq2

/-- exponent gap > 0 (after the optional pre-scaling of the dividend): the dividend is scaled as
    far as 128 bits allow -/
theorem qrPos_correct (rm : UInt8) (m : Spec.Mode) (hm : Spec.Mode.ofNat? rm.toNat = some m)
    (qneg rneg : Bool) (dS : U128) (dE : Int16) (oS : U128) (exp : Int16)
    (hd : 0 < dS.toNat) (ho : 0 < oS.toNat) (hoC : oS.toNat ≤ Spec.Cmax)
    (he0 : 0 ≤ exp.toInt) (he1 : exp.toInt ≤ dE.toInt) (hdE : dE.toInt ≤ 12287) :
    ∃ q r, qrPos rm qneg rneg dS dE oS exp = .ok (q, r) ∧
      (𝔳[q]).same (qv m qneg (dS.toNat * 10 ^ exp.toInt.toNat / oS.toNat)) = true ∧
      (𝔳[r]).same (Spec.exactOrInfS rneg
        ((dS.toNat * 10 ^ exp.toInt.toNat % oS.toNat : Nat) : Rat) (dE.toInt - exp.toInt - 6176)) = true := by
  obtain ⟨s1, m1, e1, h1e, h1s, h1p, h1m⟩ := sd4Loop (dS, dE, exp)
  obtain ⟨s2, m2, e2, h2e, h2s, h2p, h2m, h2exit⟩ := sd1Loop (s1.1, s1.2.1, s1.2.2)
  simp only at h1e h1s h1p h1m h2e h2s h2p h2m
  have hX : s2.1.toNat = dS.toNat * 10 ^ (m1 + m2) := by
    rw [h2s, h1s, Nat.pow_add, Nat.mul_assoc]
  have hE : s2.2.2.toInt = exp.toInt - ((m1 + m2 : Nat) : Int) := by push_cast; omega
  have hE0 : 0 ≤ s2.2.2.toInt := by omega
  have hdE2 : s2.2.1.toInt = dE.toInt - exp.toInt + s2.2.2.toInt :=
    i16_pass _ _ _ _ (h2p.trans h1p) (by omega) (by omega) (by omega) (by omega)
  have hT : dS.toNat * 10 ^ exp.toInt.toNat = s2.1.toNat * 10 ^ s2.2.2.toInt.toNat := by
    rw [hX, Nat.mul_assoc, ← Nat.pow_add]
    congr 2
    omega
  have hk : dE.toInt - exp.toInt - 6176 = s2.2.1.toInt - s2.2.2.toInt - 6176 := by omega
  rw [hT, hk]
  unfold qrPos
  rw [e1, RK.ok_bind, e2, RK.ok_bind]
  exact qrDiv_correct rm m hm qneg rneg s2.1 s2.2.1 oS s2.2.2
    (by rw [hX]; exact Nat.mul_pos hd (Nat.pow_pos (by norm_num))) ho hE0 (by omega) (by omega)
    (fun h => by
      by_contra hlt
      exact h2exit ⟨h, by omega⟩)
    (Or.inl hoC)

theorem gap_toInt (a b : Int16) (ha0 : 0 ≤ a.toInt) (ha1 : a.toInt ≤ 12287) (hb0 : 0 ≤ b.toInt)
    (hb1 : b.toInt ≤ 12287) : (a - 6176 - (b - 6176)).toInt = a.toInt - b.toInt := by
  have h6 : (6176 : Int16).toInt = 6176 := by decide
  have e1 : (a - 6176).toInt = a.toInt - 6176 := by
    rw [Int16.toInt_sub_of] <;> rw [h6] <;> omega
  have e2 : (b - 6176).toInt = b.toInt - 6176 := by
    rw [Int16.toInt_sub_of] <;> rw [h6] <;> omega
  rw [Int16.toInt_sub_of] <;> rw [e1, e2] <;> omega

theorem i16_le_m19 (e : Int16) : decide (e ≤ -19) = decide (e.toInt ≤ -19) := by
  apply decide_eq_decide.2
  rw [Int16.le_iff_toInt_le]; simp

theorem i16_ge_19' (e : Int16) : decide (e ≥ 19) = decide (19 ≤ e.toInt) := by
  apply decide_eq_decide.2
  exact RK.i16_ge_19 e

theorem mul64_1e19 (x : U128) (h : x.w1 = 0) :
    (U128.mul64 x 10000000000000000000).toNat = x.toNat * 10 ^ 19 := by
  have h0 := x.w0.toNat_lt
  have hx : x.toNat = x.w0.toNat := by simp [U128.toNat, h]
  rw [U128_mul64_toNat_of_lt]
  · rfl
  · have : (10000000000000000000 : UInt64).toNat = 10000000000000000000 := rfl
    rw [this, hx]; omega

/-- **C03, finite path.**  Both operands finite and non-zero: `QuoRemWithMode d o rm` terminates
    without panic and returns `(q, r)` denoting the quotient and the remainder that
    `Spec.quoRem m 𝔳[d] 𝔳[o]` specifies. -/
theorem quoRem_finite (d o : Gen.Decimal) (rm : UInt8) (m : Spec.Mode)
    (hm : Spec.Mode.ofNat? rm.toNat = some m)
    (hd : Gen.Decimal.isSpecial d = false) (ho : Gen.Decimal.isSpecial o = false)
    (zd : Gen.Decimal.IsZero d = false) (zo : Gen.Decimal.IsZero o = false) :
    ∃ q r, Gen.Decimal.QuoRemWithMode d o rm = .ok (q, r) ∧
      (𝔳[q]).same (Spec.quoRem m 𝔳[d] 𝔳[o]).1 = true ∧
      (𝔳[r]).same (Spec.quoRem m 𝔳[d] 𝔳[o]).2 = true := by
  have hzd : Sp.sigz d = false := by rw [Sp.sigz_eq, zd]
  have hzo : Sp.sigz o = false := by rw [Sp.sigz_eq, zo]
  rw [QuoRemWithMode_eq d o rm hd ho hzo hzd]
  have hvd := Enc.interp_decompose d hd
  have hcd : (Gen.Decimal.decompose d).1.toNat ≠ 0 := by
    have := Sp.IsZero_eq_sig d; rw [zd] at this; simpa using this.symm
  have hco : (Gen.Decimal.decompose o).1.toNat ≠ 0 := by
    have := Sp.IsZero_eq_sig o; rw [zo] at this; simpa using this.symm
  rw [Enc.interp_decompose o ho, hvd, spec_quoRem_fin m _ _ _ _ _ _ hcd hco]
  have hdC := Enc.decompose_sig_le d
  have hoC := Enc.decompose_sig_le o
  have hd0 := Enc.decompose_exp_nonneg d
  have hd1 := Enc.decompose_exp_le d hd
  have ho0 := Enc.decompose_exp_nonneg o
  have ho1 := Enc.decompose_exp_le o ho
  have hgap := gap_toInt _ _ hd0 hd1 ho0 ho1
  generalize (Gen.Decimal.decompose d).1 = dS at *
  generalize (Gen.Decimal.decompose o).1 = oS at *
  generalize (Gen.Decimal.decompose d).2 = dE at *
  generalize (Gen.Decimal.decompose o).2 = oE at *
  generalize (Gen.Decimal.Signbit d != Gen.Decimal.Signbit o) = qneg
  generalize Gen.Decimal.Signbit d = rneg at *
  have hdpos : 0 < dS.toNat := Nat.pos_of_ne_zero hcd
  have hopos : 0 < oS.toNat := Nat.pos_of_ne_zero hco
  unfold qrFinite
  generalize dE - 6176 - (oE - 6176) = gap at *
  rw [RK.i16_lt_zero, i16_gt_0]
  by_cases hneg : gap.toInt < 0
  · -- exponent of the dividend below that of the divisor
    simp only [hneg, decide_true, if_true]
    have hle : dE.toInt - 6176 ≤ oE.toInt - 6176 := by omega
    rw [if_pos hle]
    simp only [sub_self, Int.toNat_zero, Nat.pow_zero, Nat.mul_one]
    have hg : (oE.toInt - 6176 - (dE.toInt - 6176)).toNat = (-gap.toInt).toNat := by omega
    rw [hg]
    by_cases h19 : (decide (gap ≤ -19) && oS.w1 == 0) = true
    · rw [if_pos h19]
      rw [Bool.and_eq_true, i16_le_m19, decide_eq_true_eq, beq_iff_eq] at h19
      have hmul := mul64_1e19 oS h19.2
      have hexp : (gap + 19).toInt = gap.toInt + 19 := by
        rw [Int16.toInt_add_of] <;> simp <;> omega
      obtain ⟨q, r, hr, hq1, hq2⟩ := qrNeg_correct rm m hm d qneg rneg dS dE
        (U128.mul64 oS 10000000000000000000) (gap + 19) hdpos hdC
        (by rw [hmul]; exact Nat.mul_pos hopos (by norm_num)) (by omega) hd0 hd1 hvd
      refine ⟨q, r, hr, ?_, ?_⟩
      · have : (U128.mul64 oS 10000000000000000000).toNat * 10 ^ (-(gap + 19).toInt).toNat
            = oS.toNat * 10 ^ (-gap.toInt).toNat := by
          rw [hmul, hexp, Nat.mul_assoc, ← Nat.pow_add]
          congr 2; omega
        rw [this] at hq1; exact hq1
      · have : (U128.mul64 oS 10000000000000000000).toNat * 10 ^ (-(gap + 19).toInt).toNat
            = oS.toNat * 10 ^ (-gap.toInt).toNat := by
          rw [hmul, hexp, Nat.mul_assoc, ← Nat.pow_add]
          congr 2; omega
        rw [this] at hq2; exact hq2
    · rw [if_neg h19]
      exact qrNeg_correct rm m hm d qneg rneg dS dE oS gap hdpos hdC hopos (by omega) hd0 hd1 hvd
  · simp only [hneg, decide_false, Bool.false_eq_true, if_false]
    by_cases hpos : (1 : Int) ≤ gap.toInt
    · -- exponent of the dividend above that of the divisor
      simp only [hpos, decide_true, if_true]
      have hle : ¬ dE.toInt - 6176 ≤ oE.toInt - 6176 := by omega
      rw [if_neg hle]
      simp only [sub_self, Int.toNat_zero, Nat.pow_zero, Nat.mul_one]
      have hg : (dE.toInt - 6176 - (oE.toInt - 6176)).toNat = gap.toInt.toNat := by omega
      rw [hg]
      by_cases h19 : (decide (gap ≥ 19) && dS.w1 == 0) = true
      · rw [if_pos h19]
        rw [Bool.and_eq_true, i16_ge_19', decide_eq_true_eq, beq_iff_eq] at h19
        have hmul := mul64_1e19 dS h19.2
        have hexp : (gap - 19).toInt = gap.toInt - 19 := by
          rw [Int16.toInt_sub_of] <;> simp <;> omega
        have hdE19 : (dE - 19).toInt = dE.toInt - 19 := by
          rw [Int16.toInt_sub_of] <;> simp <;> omega
        obtain ⟨q, r, hr, hq1, hq2⟩ := qrPos_correct rm m hm qneg rneg
          (U128.mul64 dS 10000000000000000000) (dE - 19) oS (gap - 19)
          (by rw [hmul]; exact Nat.mul_pos hdpos (by norm_num)) hopos hoC (by omega) (by omega)
          (by omega)
        have hval : (U128.mul64 dS 10000000000000000000).toNat * 10 ^ (gap - 19).toInt.toNat
            = dS.toNat * 10 ^ gap.toInt.toNat := by
          rw [hmul, hexp, Nat.mul_assoc, ← Nat.pow_add]
          congr 2; omega
        have hk : (dE - 19).toInt - (gap - 19).toInt - 6176 = oE.toInt - 6176 := by omega
        rw [hval] at hq1 hq2
        rw [hk] at hq2
        exact ⟨q, r, hr, hq1, hq2⟩
      · rw [if_neg h19]
        obtain ⟨q, r, hr, hq1, hq2⟩ := qrPos_correct rm m hm qneg rneg dS dE oS gap hdpos hopos hoC
          (by omega) (by omega) hd1
        have hk : dE.toInt - gap.toInt - 6176 = oE.toInt - 6176 := by omega
        rw [hk] at hq2
        exact ⟨q, r, hr, hq1, hq2⟩
    · -- equal exponents
      simp only [hpos, decide_false, Bool.false_eq_true, if_false]
      have hz : gap.toInt = 0 := by omega
      have hle : dE.toInt - 6176 ≤ oE.toInt - 6176 := by omega
      rw [if_pos hle]
      have hg : (oE.toInt - 6176 - (dE.toInt - 6176)).toNat = 0 := by omega
      simp only [sub_self, Int.toNat_zero, Nat.pow_zero, Nat.mul_one, hg]
      obtain ⟨q, r, hr, hq1, hq2⟩ := qrDiv_correct rm m hm qneg rneg dS dE oS gap hdpos hopos
        (by omega) (by omega) hd1 (fun h => by omega) (Or.inl hoC)
      rw [hz] at hq1 hq2
      simp only [Int.toNat_zero, Nat.pow_zero, Nat.mul_one, sub_zero] at hq1 hq2
      exact ⟨q, r, hr, hq1, hq2⟩

/-- the hypotheses of `quoRem_finite` are satisfiable: `1e100 ÷ 7` in mode ToNearestEven and
    `-7 ÷ 3e-3` in mode ToNegativeInf -/
example := quoRem_finite ⟨1, 0x3108000000000000⟩ ⟨7, 0x3040000000000000⟩ 0 .nearestEven rfl
  (by decide) (by decide) (by decide) (by decide)
example := quoRem_finite ⟨7, 0xb040000000000000⟩ ⟨3, 0x303a000000000000⟩ 4 .toNegInf rfl
  (by decide) (by decide) (by decide) (by decide)

end QR
