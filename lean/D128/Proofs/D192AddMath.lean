/-
  D128/Proofs/D192AddMath.lean — arithmetic side of the contracts of `decomposed192.add` / `.sub`:
  loop-state predicates and the verification-condition lemmas used by the `mvcgen` proofs in
  `D192Add.lean` / `D192Sub.lean` (namespace `D192`).

  * `negNat`, `posNat`, `i16_add_nat`, `i16_sub_nat` … : `Int16` helpers (loop variants)
  * `Dr P t f i cur trunc` : "`i` low digits of `P` dropped": `cur = P / 10^i` and
        `trunc = if 10^i ∣ P then t else f` (`f` is the flag value the loop writes), `Dr.step`, `Dr.zero`
  * `DvN …`, `dvN_init/step/zero/final` : the loops dividing `d.sig` in the branch `exp < 0`
  * `scaleLim = 25·2^184`, `ScN`/`ScP`, `scN_step`/`scP_step` : the loops scaling the operand with
        the larger exponent (`sig' = sig·10^j`, `exp' = exp - j`), word guards `U192.scale19/4/1`
  * `AddNegPost`, `addNeg_post(A|B)` : result of the branch `exp < 0` of `add`
  * `flagDiv`, `DvP1`, `DvP2`, `dvP1_*`, `dvP2_*` : the loops dividing `o.sig` in the branch `exp > 0`
        of `add` (flag `-1` in the `div10000` loop, `+1` in the `div10` loop)
  * `addFlagPos`, `AddPosPost`, `addPos_post(A|B|C)` : result of the branch `exp > 0` of `add`
  * `AddPost` : result of `add`
-/
import D128.Proofs.D192Base
set_option autoImplicit false
set_option maxRecDepth 4096
set_option exponentiation.threshold 512
open D128.Proofs.WordsWide
namespace D192

/-! ### Int16 helpers -/
def negNat (x : Int16) : Nat := (-x.toInt).toNat
def posNat (x : Int16) : Nat := x.toInt.toNat

theorem i16_bounds (x : Int16) : -32768 ≤ x.toInt ∧ x.toInt ≤ 32767 := by
  exact ⟨Int16.le_toInt x, Int16.toInt_le x⟩

theorem i16_add_nat (x : Int16) (c : Nat) (hc : c < 32768) (h : x.toInt + c ≤ 32767) :
    (x + Int16.ofNat c).toInt = x.toInt + c := by
  have := i16_bounds x
  rw [Int16.toInt_add_of] <;> rw [i16_ofNat_toInt c hc] <;> omega

theorem i16_sub_nat (x : Int16) (c : Nat) (hc : c < 32768) (h : -32768 ≤ x.toInt - c) :
    (x - Int16.ofNat c).toInt = x.toInt - c := by
  have := i16_bounds x
  rw [Int16.toInt_sub_of] <;> rw [i16_ofNat_toInt c hc] <;> omega

theorem i16_le_lit (x : Int16) (c : Int16) : x ≤ c ↔ x.toInt ≤ c.toInt := Int16.le_iff_toInt_le
theorem i16_lt_lit (x : Int16) (c : Int16) : x < c ↔ x.toInt < c.toInt := Int16.lt_iff_toInt_lt

theorem i16_eq_zero (x : Int16) (h : x.toInt = 0) : x = 0 := by
  apply Int16.toInt_inj.1; simpa using h

theorem i16_dec_lt0 {x : Int16} (h : decide (x < 0) = true) : x.toInt < 0 := by
  have := (i16_lt_lit _ _).mp (of_decide_eq_true h); simpa using this

theorem i16_dec_gt0 {x : Int16} (h : decide (x > 0) = true) : 0 < x.toInt := by
  have := (i16_lt_lit _ _).mp (of_decide_eq_true h); simpa using this

theorem i16_dec_eq0 {x : Int16} (h1 : ¬ decide (x < 0) = true) (h2 : ¬ decide (x > 0) = true) :
    x.toInt = 0 := by
  have a : ¬ x < 0 := fun h => h1 (decide_eq_true h)
  have b : ¬ x > 0 := fun h => h2 (decide_eq_true h)
  rw [i16_lt_lit] at a
  rw [gt_iff_lt, i16_lt_lit] at b
  simp at a b; omega

/-! ### dropping digits -/
def Dr (P : Nat) (t f : Int8) (i : Nat) (cur : Nat) (trunc : Int8) : Prop :=
  cur = P / 10 ^ i ∧ trunc = if P % 10 ^ i = 0 then t else f

theorem Dr.refl (P : Nat) (t f : Int8) : Dr P t f 0 P t := by
  simp [Dr, Nat.mod_one]

theorem Dr.step {P : Nat} {t f : Int8} {i cur : Nat} {trunc : Int8} (c : Nat)
    (h : Dr P t f i cur trunc) (q r : Nat) (hq : q = cur / 10 ^ c) (hr : r = cur % 10 ^ c) :
    Dr P t f (i + c) q (if r = 0 then trunc else f) := by
  obtain ⟨hc, ht⟩ := h
  refine ⟨by rw [hq, hc, Nat.div_div_eq_div_mul, Nat.pow_add], ?_⟩
  have := mod_pow_add P i c
  rw [← hc, ← hr] at this
  by_cases h1 : P % 10 ^ i = 0
  · by_cases h2 : r = 0
    · rw [if_pos h2, if_pos (this.mpr ⟨h1, h2⟩), ht, if_pos h1]
    · rw [if_neg h2, if_neg (fun h => h2 (this.mp h).2)]
  · rw [if_neg (fun h => h1 (this.mp h).1), ht, if_neg h1]; split <;> rfl

/-- once the current value is zero, all remaining digits are zero: any larger count describes the
same state. -/
theorem Dr.zero {P : Nat} {t f : Int8} {i : Nat} {trunc : Int8} (k : Nat)
    (h : Dr P t f i 0 trunc) (hik : i ≤ k) : Dr P t f k 0 trunc := by
  obtain ⟨hc, ht⟩ := h
  have hlt : P < 10 ^ i := by
    by_contra hge
    have : 0 < P / 10 ^ i := Nat.div_pos (by omega) (Nat.pow_pos (by norm_num))
    omega
  have hlt' : P < 10 ^ k := Nat.lt_of_lt_of_le hlt (Nat.pow_le_pow_right (by norm_num) hik)
  refine ⟨by rw [Nat.div_eq_of_lt hlt'], ?_⟩
  rw [ht, Nat.mod_eq_of_lt hlt, Nat.mod_eq_of_lt hlt']

theorem U192.toNat_eq_zero (q : U192) (h : (q.w0 = 0 ∧ q.w1 = 0) ∧ q.w2 = 0) : q.toNat = 0 := by
  simp [U192.toNat, h.1.1, h.1.2, h.2]

/-! ### branch `exp < 0`, the loops dividing `d.sig` -/
def DvN (d o : Gen.decomposed192) (t : Int8) (e : Int16) (d' : Gen.decomposed192)
    (trunc' : Int8) (exp' : Int16) : Prop :=
  exp'.toInt ≤ 0 ∧ d'.exp = o.exp + exp' ∧
    ∃ i : Nat, i + negNat exp' = negNat e ∧ Dr d.sig.toNat t 1 i d'.sig.toNat trunc'

theorem dvN_init (d o : Gen.decomposed192) (t : Int8) (e : Int16)
    (h : e.toInt ≤ 0 ∧ d.exp = o.exp + e) : DvN d o t e d t e :=
  ⟨h.1, h.2, 0, by simp, Dr.refl _ _ _⟩

theorem dvN_step {d o : Gen.decomposed192} {t : Int8} {e : Int16} (c : Nat) (hc0 : 0 < c) (hc : c < 100)
    (cur : Gen.decomposed192) (trunc' tr' : Int8) (exp' : Int16) (mb : Nat) (q : U192) (r : UInt64)
    (hdiv : q.toNat = cur.sig.toNat / 10 ^ c ∧ r.toNat = cur.sig.toNat % 10 ^ c)
    (hg : exp'.toInt ≤ -(c : Int))
    (hinv : mb = negNat exp' ∧ DvN d o t e cur trunc' exp')
    (htr : tr' = if r = 0 then trunc' else 1) :
    negNat (exp' + Int16.ofNat c) < mb ∧
      DvN d o t e { sig := q, exp := cur.exp + Int16.ofNat c } tr' (exp' + Int16.ofNat c) := by
  obtain ⟨hmb, h0, hexp, i, hi, hdr⟩ := hinv
  have hb := i16_bounds exp'
  have hadd : (exp' + Int16.ofNat c).toInt = exp'.toInt + c := i16_add_nat _ _ (by omega) (by omega)
  refine ⟨?_, ?_, ?_, i + c, ?_, ?_⟩
  · rw [hmb]; unfold negNat; rw [hadd]; omega
  · rw [hadd]; omega
  · show cur.exp + Int16.ofNat c = o.exp + (exp' + Int16.ofNat c)
    rw [hexp, Int16.add_assoc]
  · unfold negNat at *; rw [hadd]; omega
  · have := Dr.step c hdr q.toNat r.toNat hdiv.1 hdiv.2
    rw [htr]
    by_cases hr : r = 0
    · rwa [if_pos hr, if_pos ((u64_eq_zero_iff r).mp hr)] at *
    · rwa [if_neg hr, if_neg (fun h => hr ((u64_eq_zero_iff r).mpr h))] at *

theorem dvN_zero {d o : Gen.decomposed192} {t : Int8} {e : Int16} (c : Nat) (hc0 : 0 < c) (hc : c < 100)
    (cur : Gen.decomposed192) (trunc' tr' : Int8) (exp' : Int16) (mb : Nat) (q : U192) (r : UInt64)
    (hdiv : q.toNat = cur.sig.toNat / 10 ^ c ∧ r.toNat = cur.sig.toNat % 10 ^ c)
    (hg : exp'.toInt ≤ -(c : Int))
    (hinv : mb = negNat exp' ∧ DvN d o t e cur trunc' exp')
    (htr : tr' = if r = 0 then trunc' else 1)
    (hz : (q.w0 = 0 ∧ q.w1 = 0) ∧ q.w2 = 0) :
    0 < mb ∧ DvN d o t e { sig := q, exp := o.exp } tr' 0 := by
  obtain ⟨hmb, h0, hexp, i, hi, hdr⟩ := hinv
  have hb := i16_bounds exp'
  refine ⟨?_, ?_, ?_, negNat e, ?_, ?_⟩
  · rw [hmb]; unfold negNat; omega
  · simp
  · simp
  · simp [negNat]
  · have h1 := Dr.step c hdr q.toNat r.toNat hdiv.1 hdiv.2
    rw [U192.toNat_eq_zero q hz] at h1
    have h2 := Dr.zero (negNat e) h1 (by unfold negNat at *; omega)
    show Dr _ _ _ _ q.toNat _
    rw [U192.toNat_eq_zero q hz, htr]
    by_cases hr : r = 0
    · rwa [if_pos hr, if_pos ((u64_eq_zero_iff r).mp hr)] at *
    · rwa [if_neg hr, if_neg (fun h => hr ((u64_eq_zero_iff r).mpr h))] at *

/-- the final state of the dividing loops in closed form -/
theorem dvN_final {d o : Gen.decomposed192} {t : Int8} {e : Int16} {d' : Gen.decomposed192}
    {trunc' : Int8} {exp' : Int16} (h : DvN d o t e d' trunc' exp') (h0 : 0 ≤ exp'.toInt) :
    d'.exp = o.exp ∧ d'.sig.toNat = d.sig.toNat / 10 ^ negNat e ∧
      trunc' = if d.sig.toNat % 10 ^ negNat e = 0 then t else 1 := by
  obtain ⟨h1, hexp, i, hi, hdr⟩ := h
  have hz : exp' = 0 := i16_eq_zero _ (by omega)
  subst hz
  have : i = negNat e := by simpa [negNat] using hi
  subst this
  exact ⟨by simpa using hexp, hdr.1, hdr.2⟩

/-- the scaling loops stop once the significand has reached `25·2^184` (Go: `sig[2] > 0x18ff…ff`). -/
def scaleLim : Nat := 25 * 2 ^ 184

theorem i16_ring1 (a b c : Int16) : a - c + (b - a + c) = b := by
  apply Int16.toBitVec_inj.1
  simp only [Int16.toBitVec_add, Int16.toBitVec_sub]
  bv_omega

theorem i16_ring2 (a c1 c2 : Int16) : a - c1 - c2 = a - (c1 + c2) := by
  apply Int16.toBitVec_inj.1
  simp only [Int16.toBitVec_add, Int16.toBitVec_sub]
  bv_omega

theorem U192.scale19 (n : U192) (h : n.w2 = 0) : n.toNat * 10 ^ 19 < 2 ^ 192 := by
  have := U192.bounds n
  rw [u64_eq_zero_iff] at h
  simp only [U192.toNat] at *
  omega

theorem U192.scale4 (n : U192) (h : n.w2 ≤ 703687441776639) : n.toNat * 10 ^ 4 < 2 ^ 192 := by
  have := U192.bounds n
  rw [UInt64.le_iff_toNat_le] at h
  simp only [U192.toNat, UInt64.reduceToNat] at *
  omega

theorem U192.scale1 (n : U192) (h : n.w2 ≤ 1801439850948198399) : n.toNat * 10 ^ 1 < 2 ^ 192 := by
  have := U192.bounds n
  rw [UInt64.le_iff_toNat_le] at h
  simp only [U192.toNat, UInt64.reduceToNat] at *
  omega

theorem U192.scaleLim_le (n : U192) (h : 1801439850948198399 < n.w2) : scaleLim ≤ n.toNat := by
  have := U192.bounds n
  rw [UInt64.lt_iff_toNat_lt] at h
  simp only [U192.toNat, UInt64.reduceToNat, scaleLim] at *
  omega

theorem scaleN_exit (x : Int16) (n : U192) (hg : x < 0 → 1801439850948198399 < n.w2) :
    0 ≤ x.toInt ∨ scaleLim ≤ n.toNat := by
  by_cases h : 0 ≤ x.toInt
  · exact Or.inl h
  · exact Or.inr (U192.scaleLim_le _ (hg (by rw [i16_lt_lit]; simp; omega)))

theorem U192.default_toNat : (default : U192).toNat = 0 := rfl

theorem U192.toNat_pos_of (n : U192) (h : n.w0 = 0 → n.w1 = 0 → ¬ n.w2 = 0) : n.toNat ≠ 0 := by
  intro h0
  have := U192.bounds n
  simp only [U192.toNat] at h0
  exact h ((u64_eq_zero_iff _).mpr (by omega)) ((u64_eq_zero_iff _).mpr (by omega))
    ((u64_eq_zero_iff _).mpr (by omega))

/-! ### branch `exp < 0`: scaling `o.sig` up -/
def ScN (o : Gen.decomposed192) (e : Int16) (o' : Gen.decomposed192) (exp' : Int16) : Prop :=
  exp'.toInt ≤ 0 ∧ ∃ j : Nat, j + negNat exp' = negNat e ∧ exp' = e + Int16.ofNat j ∧
    o'.sig.toNat = o.sig.toNat * 10 ^ j ∧ o'.exp = o.exp - Int16.ofNat j

theorem scN_init (o : Gen.decomposed192) (e : Int16) (h : e.toInt ≤ 0) : ScN o e o e :=
  ⟨h, 0, by simp, by simp, by simp, by simp⟩

theorem scN_step {o : Gen.decomposed192} {e : Int16} (c : Nat) (hc0 : 0 < c) (hc : c < 100)
    (m : UInt64) (hm : m.toNat = 10 ^ c) (cur : Gen.decomposed192) (exp' : Int16) (mb : Nat)
    (hg : exp'.toInt ≤ -(c : Int)) (hlt : cur.sig.toNat * 10 ^ c < 2 ^ 192)
    (hinv : mb = negNat exp' ∧ ScN o e cur exp') :
    negNat (exp' + Int16.ofNat c) < mb ∧
      ScN o e { sig := Gen.U192.mul64 cur.sig m, exp := cur.exp - Int16.ofNat c }
        (exp' + Int16.ofNat c) := by
  obtain ⟨hmb, h0, j, hj, hexp, hsig, hoexp⟩ := hinv
  have hb := i16_bounds exp'
  have hadd : (exp' + Int16.ofNat c).toInt = exp'.toInt + c := i16_add_nat _ _ (by omega) (by omega)
  refine ⟨?_, ?_, j + c, ?_, ?_, ?_, ?_⟩
  · rw [hmb]; unfold negNat; rw [hadd]; omega
  · rw [hadd]; omega
  · unfold negNat at *; rw [hadd]; omega
  · rw [hexp, Int16.ofNat_add, Int16.add_assoc]
  · show (Gen.U192.mul64 cur.sig m).toNat = _
    rw [U192_mul64_toNat_of_lt _ _ (by rw [hm]; exact hlt), hm, hsig, Nat.pow_add, Nat.mul_assoc]
  · show cur.exp - Int16.ofNat c = _
    rw [hoexp, Int16.ofNat_add, i16_ring2]

theorem drop_all (D k : Nat) (hD : D < 2 ^ 192) (hk : 58 ≤ k) : D / 10 ^ k = 0 ∧ D % 10 ^ k = D := by
  have h58 : (10 : Nat) ^ 58 ≤ 10 ^ k := Nat.pow_le_pow_right (by norm_num) hk
  have : D < 10 ^ k := by
    calc D < 2 ^ 192 := hD
      _ ≤ 10 ^ 58 := by norm_num
      _ ≤ _ := h58
  exact ⟨Nat.div_eq_of_lt this, Nat.mod_eq_of_lt this⟩

/-- result of the branch `exp < 0` of `add` -/
def AddNegPost (d o : Gen.decomposed192) (t : Int8) (e : Int16) (r : Gen.decomposed192)
    (t' : Int8) : Prop :=
  ∃ j k : Nat, j + k = negNat e ∧ o.sig.toNat * 10 ^ j < 2 ^ 192 ∧
    (k = 0 ∨ scaleLim ≤ o.sig.toNat * 10 ^ j) ∧
    Tr (d.sig.toNat / 10 ^ k + o.sig.toNat * 10 ^ j) (if d.sig.toNat % 10 ^ k = 0 then t else 1)
      (o.exp - Int16.ofNat j) t' r.sig.toNat r.exp

theorem scN_pre {d o : Gen.decomposed192} {e : Int16} {o' : Gen.decomposed192} {exp' : Int16}
    (he : e = d.exp - o.exp) (h : ScN o e o' exp') : exp'.toInt ≤ 0 ∧ d.exp = o'.exp + exp' := by
  obtain ⟨h0, j, hj, hexp, hsig, hoexp⟩ := h
  refine ⟨h0, ?_⟩
  rw [hoexp, hexp, he, i16_ring1]

theorem addNeg_post {d o : Gen.decomposed192} {t : Int8} {e : Int16} {o' : Gen.decomposed192}
    {exp' : Int16} {r : Gen.decomposed192} {t' : Int8} (X : Nat) (T : Int8)
    (hsc : ScN o e o' exp') (hbig : 0 ≤ exp'.toInt ∨ scaleLim ≤ o'.sig.toNat)
    (hX : X = d.sig.toNat / 10 ^ negNat exp')
    (hT : T = if d.sig.toNat % 10 ^ negNat exp' = 0 then t else 1)
    (h : Tr (X + o'.sig.toNat) T o'.exp t' r.sig.toNat r.exp) : AddNegPost d o t e r t' := by
  obtain ⟨h0, j, hj, hexp, hsig, hoexp⟩ := hsc
  refine ⟨j, negNat exp', hj, ?_, ?_, ?_⟩
  · rw [← hsig]; exact U192.toNat_lt _
  · rcases hbig with h | h
    · left; unfold negNat; omega
    · right; rw [← hsig]; exact h
  · rw [← hsig, ← hoexp, ← hX, ← hT]; exact h


theorem addNeg_postA {d o : Gen.decomposed192} {t : Int8} {e : Int16} {o' : Gen.decomposed192}
    {exp' : Int16} {r : Gen.decomposed192} {t' : Int8}
    (hinv : ScN o e o' exp' ∧ (0 ≤ exp'.toInt ∨ scaleLim ≤ o'.sig.toNat)) (hg : exp' < -57)
    (hnz : d.sig.w0 = 0 → d.sig.w1 = 0 → ¬ d.sig.w2 = 0)
    (h : Tr ((default : U192).toNat / 10 ^ negNat 0 + o'.sig.toNat) 1 o'.exp t' r.sig.toNat r.exp) :
    AddNegPost d o t e r t' := by
  have hk : 58 ≤ negNat exp' := by
    have := (i16_lt_lit _ _).mp hg; simp at this; unfold negNat; omega
  obtain ⟨h1, h2⟩ := drop_all d.sig.toNat _ (U192.toNat_lt _) hk
  exact addNeg_post _ _ hinv.1 hinv.2 (by rw [h1, U192.default_toNat]; simp)
    (by rw [h2, if_neg (U192.toNat_pos_of _ hnz)]) h

theorem addNeg_postB {d o : Gen.decomposed192} {t : Int8} {e : Int16} {o' : Gen.decomposed192}
    {exp' : Int16} {r : Gen.decomposed192} {t' : Int8}
    (hinv : ScN o e o' exp' ∧ (0 ≤ exp'.toInt ∨ scaleLim ≤ o'.sig.toNat))
    (hz : d.sig.w0 = 0 ∧ d.sig.w1 = 0 ∧ d.sig.w2 = 0)
    (h : Tr (d.sig.toNat / 10 ^ negNat 0 + o'.sig.toNat)
      (if d.sig.toNat % 10 ^ negNat 0 = 0 then t else 1) o'.exp t' r.sig.toNat r.exp) :
    AddNegPost d o t e r t' := by
  have h0 : d.sig.toNat = 0 := U192.toNat_eq_zero _ ⟨⟨hz.1, hz.2.1⟩, hz.2.2⟩
  exact addNeg_post _ _ hinv.1 hinv.2 (by rw [h0]; simp) (by rw [h0]; simp) h


/-! ### branch `exp > 0`: scaling `d.sig` up -/
def ScP (d : Gen.decomposed192) (e : Int16) (d' : Gen.decomposed192) (exp' : Int16) : Prop :=
  0 ≤ exp'.toInt ∧ ∃ j : Nat, j + posNat exp' = posNat e ∧ exp' = e - Int16.ofNat j ∧
    d'.sig.toNat = d.sig.toNat * 10 ^ j ∧ d'.exp = d.exp - Int16.ofNat j

theorem scP_init (d : Gen.decomposed192) (e : Int16) (h : 0 ≤ e.toInt) : ScP d e d e :=
  ⟨h, 0, by simp, by simp, by simp, by simp⟩

theorem scP_step {d : Gen.decomposed192} {e : Int16} (c : Nat) (hc0 : 0 < c) (hc : c < 100)
    (m : UInt64) (hm : m.toNat = 10 ^ c) (cur : Gen.decomposed192) (exp' : Int16) (mb : Nat)
    (hg : (c : Int) ≤ exp'.toInt) (hlt : cur.sig.toNat * 10 ^ c < 2 ^ 192)
    (hinv : mb = posNat exp' ∧ ScP d e cur exp') :
    posNat (exp' - Int16.ofNat c) < mb ∧
      ScP d e { sig := Gen.U192.mul64 cur.sig m, exp := cur.exp - Int16.ofNat c }
        (exp' - Int16.ofNat c) := by
  obtain ⟨hmb, h0, j, hj, hexp, hsig, hoexp⟩ := hinv
  have hb := i16_bounds exp'
  have hsub : (exp' - Int16.ofNat c).toInt = exp'.toInt - c := i16_sub_nat _ _ (by omega) (by omega)
  refine ⟨?_, ?_, j + c, ?_, ?_, ?_, ?_⟩
  · rw [hmb]; unfold posNat; rw [hsub]; omega
  · rw [hsub]; omega
  · unfold posNat at *; rw [hsub]; omega
  · rw [hexp, Int16.ofNat_add, i16_ring2]
  · show (Gen.U192.mul64 cur.sig m).toNat = _
    rw [U192_mul64_toNat_of_lt _ _ (by rw [hm]; exact hlt), hm, hsig, Nat.pow_add, Nat.mul_assoc]
  · show cur.exp - Int16.ofNat c = _
    rw [hoexp, Int16.ofNat_add, i16_ring2]

theorem scaleP_exit (x : Int16) (n : U192) (hg : 0 < x → 1801439850948198399 < n.w2) :
    x.toInt ≤ 0 ∨ scaleLim ≤ n.toNat := by
  by_cases h : x.toInt ≤ 0
  · exact Or.inl h
  · exact Or.inr (U192.scaleLim_le _ (hg (by rw [i16_lt_lit]; simp; omega)))

/-! ### branch `exp > 0` of `add`: the loops dividing `o.sig` -/

/-- the sticky flag produced by the two dividing loops of the branch `exp > 0` of `add`:
the `div10000` loop writes `-1`, the `div10` loop (run for the last `k % 4` digits) writes `+1`. -/
def flagDiv (k O : Nat) (t : Int8) : Int8 :=
  if (O / 10 ^ (4 * (k / 4))) % 10 ^ (k % 4) = 0 then (if O % 10 ^ (4 * (k / 4)) = 0 then t else -1)
  else 1

def DvP1 (o : Gen.decomposed192) (t : Int8) (e : Int16) (o' : Gen.decomposed192) (trunc' : Int8)
    (exp' : Int16) : Prop :=
  0 ≤ exp'.toInt ∧
    ((∃ i : Nat, 4 * i + posNat exp' = posNat e ∧ Dr o.sig.toNat t (-1) (4 * i) o'.sig.toNat trunc') ∨
     (exp' = 0 ∧ o'.sig.toNat = 0 ∧ Dr o.sig.toNat t (-1) (4 * (posNat e / 4)) 0 trunc'))

def DvP2 (o : Gen.decomposed192) (t : Int8) (e : Int16) (o' : Gen.decomposed192) (trunc' : Int8)
    (exp' : Int16) : Prop :=
  0 ≤ exp'.toInt ∧ ∃ b : Nat,
    Dr (o.sig.toNat / 10 ^ (4 * (posNat e / 4)))
      (if o.sig.toNat % 10 ^ (4 * (posNat e / 4)) = 0 then t else -1) 1 b o'.sig.toNat trunc' ∧
    (b + posNat exp' = posNat e % 4 ∨
      (exp' = 0 ∧ b = 0 ∧ o.sig.toNat / 10 ^ (4 * (posNat e / 4)) = 0))

theorem dvP1_init (o : Gen.decomposed192) (t : Int8) (e : Int16) (h : 0 ≤ e.toInt) :
    DvP1 o t e o t e :=
  ⟨h, Or.inl ⟨0, by simp, Dr.refl _ _ _⟩⟩

theorem dvP1_step {o : Gen.decomposed192} {t : Int8} {e : Int16}
    (cur : Gen.decomposed192) (trunc' tr' : Int8) (exp' : Int16) (mb : Nat) (q : U192) (r : UInt64)
    (hdiv : q.toNat = cur.sig.toNat / 10 ^ 4 ∧ r.toNat = cur.sig.toNat % 10 ^ 4)
    (hg : 4 ≤ exp'.toInt)
    (hinv : mb = posNat exp' ∧ DvP1 o t e cur trunc' exp')
    (htr : tr' = if r = 0 then trunc' else -1) :
    posNat (exp' - Int16.ofNat 4) < mb ∧
      DvP1 o t e { sig := q, exp := cur.exp } tr' (exp' - Int16.ofNat 4) := by
  obtain ⟨hmb, h0, hinv⟩ := hinv
  have hb := i16_bounds exp'
  have hsub : (exp' - Int16.ofNat 4).toInt = exp'.toInt - (4 : Nat) :=
    i16_sub_nat _ _ (by omega) (by omega)
  rcases hinv with ⟨i, hi, hdr⟩ | ⟨hz, _⟩
  · refine ⟨?_, ?_, Or.inl ⟨i + 1, ?_, ?_⟩⟩
    · rw [hmb]; unfold posNat; rw [hsub]; omega
    · rw [hsub]; omega
    · unfold posNat at *; rw [hsub]; omega
    · have := Dr.step 4 hdr q.toNat r.toNat hdiv.1 hdiv.2
      rw [htr, show 4 * (i + 1) = 4 * i + 4 by ring]
      by_cases hr : r = 0
      · rwa [if_pos hr, if_pos ((u64_eq_zero_iff r).mp hr)] at *
      · rwa [if_neg hr, if_neg (fun h => hr ((u64_eq_zero_iff r).mpr h))] at *
  · rw [hz] at hg; simp at hg

theorem dvP1_zero {o : Gen.decomposed192} {t : Int8} {e : Int16}
    (cur : Gen.decomposed192) (trunc' tr' : Int8) (exp' : Int16) (mb : Nat) (q : U192) (r : UInt64)
    (hdiv : q.toNat = cur.sig.toNat / 10 ^ 4 ∧ r.toNat = cur.sig.toNat % 10 ^ 4)
    (hg : 4 ≤ exp'.toInt)
    (hinv : mb = posNat exp' ∧ DvP1 o t e cur trunc' exp')
    (htr : tr' = if r = 0 then trunc' else -1)
    (hz : (q.w0 = 0 ∧ q.w1 = 0) ∧ q.w2 = 0) :
    0 < mb ∧ DvP1 o t e { sig := q, exp := cur.exp } tr' 0 := by
  obtain ⟨hmb, h0, hinv⟩ := hinv
  have hq0 := U192.toNat_eq_zero q hz
  rcases hinv with ⟨i, hi, hdr⟩ | ⟨hz', _⟩
  · refine ⟨?_, by simp, Or.inr ⟨rfl, hq0, ?_⟩⟩
    · rw [hmb]; unfold posNat; omega
    · have h1 := Dr.step 4 hdr q.toNat r.toNat hdiv.1 hdiv.2
      rw [hq0] at h1
      have h2 := Dr.zero (4 * (posNat e / 4)) h1 (by unfold posNat at *; omega)
      rw [htr]
      by_cases hr : r = 0
      · rwa [if_pos hr, if_pos ((u64_eq_zero_iff r).mp hr)] at *
      · rwa [if_neg hr, if_neg (fun h => hr ((u64_eq_zero_iff r).mpr h))] at *
  · rw [hz'] at hg; simp at hg

/-- exit of the `div10000` loop = entry of the `div10` loop -/
theorem dvP2_init {o : Gen.decomposed192} {t : Int8} {e : Int16} {o' : Gen.decomposed192}
    {trunc' : Int8} {exp' : Int16} (h : DvP1 o t e o' trunc' exp') (hlt : exp'.toInt < 4) :
    DvP2 o t e o' trunc' exp' := by
  obtain ⟨h0, h⟩ := h
  refine ⟨h0, 0, ?_⟩
  rcases h with ⟨i, hi, hdr⟩ | ⟨hz, hs, hdr⟩
  · have hi' : i = posNat e / 4 := by unfold posNat at *; omega
    subst hi'
    refine ⟨?_, Or.inl (by unfold posNat at *; omega)⟩
    rw [hdr.1, hdr.2]; exact Dr.refl _ _ _
  · refine ⟨?_, Or.inr ⟨hz, rfl, hdr.1.symm⟩⟩
    rw [hs.trans hdr.1, hdr.2]; exact Dr.refl _ _ _

theorem dvP2_step {o : Gen.decomposed192} {t : Int8} {e : Int16}
    (cur : Gen.decomposed192) (trunc' tr' : Int8) (exp' : Int16) (mb : Nat) (q : U192) (r : UInt64)
    (hdiv : q.toNat = cur.sig.toNat / 10 ^ 1 ∧ r.toNat = cur.sig.toNat % 10 ^ 1)
    (hg : 0 < exp'.toInt)
    (hinv : mb = posNat exp' ∧ DvP2 o t e cur trunc' exp')
    (htr : tr' = if r = 0 then trunc' else 1) :
    posNat (exp' - Int16.ofNat 1) < mb ∧
      DvP2 o t e { sig := q, exp := cur.exp } tr' (exp' - Int16.ofNat 1) := by
  obtain ⟨hmb, h0, b, hdr, hb⟩ := hinv
  have hbd := i16_bounds exp'
  have hsub : (exp' - Int16.ofNat 1).toInt = exp'.toInt - (1 : Nat) :=
    i16_sub_nat _ _ (by omega) (by omega)
  refine ⟨?_, ?_, b + 1, ?_, ?_⟩
  · rw [hmb]; unfold posNat; rw [hsub]; omega
  · rw [hsub]; omega
  · have := Dr.step 1 hdr q.toNat r.toNat hdiv.1 hdiv.2
    rw [htr]
    by_cases hr : r = 0
    · rwa [if_pos hr, if_pos ((u64_eq_zero_iff r).mp hr)] at *
    · rwa [if_neg hr, if_neg (fun h => hr ((u64_eq_zero_iff r).mpr h))] at *
  · rcases hb with hb | ⟨hz, _⟩
    · left; unfold posNat at *; rw [hsub]; omega
    · rw [hz] at hg; simp at hg

theorem dvP2_final {o : Gen.decomposed192} {t : Int8} {e : Int16} {o' : Gen.decomposed192}
    {trunc' : Int8} {exp' : Int16} (h : DvP2 o t e o' trunc' exp') (hle : exp'.toInt ≤ 0) :
    o'.sig.toNat = o.sig.toNat / 10 ^ posNat e ∧ trunc' = flagDiv (posNat e) o.sig.toNat t := by
  obtain ⟨h0, b, hdr, hb⟩ := h
  have hk : 4 * (posNat e / 4) + posNat e % 4 = posNat e := Nat.div_add_mod _ _
  rcases hb with hb | ⟨hz, hb0, hq0⟩
  · have hb' : b = posNat e % 4 := by unfold posNat at *; omega
    subst hb'
    refine ⟨?_, ?_⟩
    · rw [hdr.1, Nat.div_div_eq_div_mul, ← Nat.pow_add, hk]
    · rw [hdr.2]; rfl
  · subst hb0
    refine ⟨?_, ?_⟩
    · rw [hdr.1, hq0]
      have : o.sig.toNat / 10 ^ posNat e = o.sig.toNat / 10 ^ (4 * (posNat e / 4)) / 10 ^ (posNat e % 4) := by
        rw [Nat.div_div_eq_div_mul, ← Nat.pow_add, hk]
      rw [this, hq0]; simp
    · rw [hdr.2]; unfold flagDiv; rw [hq0]; simp

/-- the sticky flag after the alignment of the branch `exp > 0` of `add`, `k` digits of `O = o.sig`
dropped. -/
def addFlagPos (k O : Nat) (t : Int8) : Int8 :=
  if 57 < k then (if O = 0 then t else -1) else flagDiv k O t

def AddPosPost (d o : Gen.decomposed192) (t : Int8) (e : Int16) (r : Gen.decomposed192)
    (t' : Int8) : Prop :=
  ∃ j k : Nat, j + k = posNat e ∧ d.sig.toNat * 10 ^ j < 2 ^ 192 ∧
    (k = 0 ∨ scaleLim ≤ d.sig.toNat * 10 ^ j) ∧
    Tr (d.sig.toNat * 10 ^ j + o.sig.toNat / 10 ^ k) (addFlagPos k o.sig.toNat t)
      (d.exp - Int16.ofNat j) t' r.sig.toNat r.exp

theorem addPos_post {d o : Gen.decomposed192} {t : Int8} {e : Int16} {d' : Gen.decomposed192}
    {exp' : Int16} {r : Gen.decomposed192} {t' : Int8} (X : Nat) (T : Int8)
    (hsc : ScP d e d' exp') (hbig : exp'.toInt ≤ 0 ∨ scaleLim ≤ d'.sig.toNat)
    (hX : X = o.sig.toNat / 10 ^ posNat exp')
    (hT : T = addFlagPos (posNat exp') o.sig.toNat t)
    (h : Tr (d'.sig.toNat + X) T d'.exp t' r.sig.toNat r.exp) : AddPosPost d o t e r t' := by
  obtain ⟨h0, j, hj, hexp, hsig, hoexp⟩ := hsc
  refine ⟨j, posNat exp', hj, ?_, ?_, ?_⟩
  · rw [← hsig]; exact U192.toNat_lt _
  · rcases hbig with h | h
    · left; unfold posNat; omega
    · right; rw [← hsig]; exact h
  · rw [← hsig, ← hoexp, ← hX, ← hT]; exact h

theorem flagDiv_zero (O : Nat) (t : Int8) : flagDiv 0 O t = t := by
  simp [flagDiv, Nat.mod_one]

theorem posNat_zero : posNat 0 = 0 := rfl

theorem addPos_postA {d o : Gen.decomposed192} {t : Int8} {e : Int16} {d' : Gen.decomposed192}
    {exp' : Int16} {r : Gen.decomposed192} {t' : Int8}
    (hinv : ScP d e d' exp' ∧ (exp'.toInt ≤ 0 ∨ scaleLim ≤ d'.sig.toNat)) (hg : 57 < exp')
    (hnz : o.sig.w0 = 0 → o.sig.w1 = 0 → ¬ o.sig.w2 = 0)
    (h : Tr (d'.sig.toNat + (default : U192).toNat / 10 ^ posNat 0)
      (flagDiv (posNat 0) (default : U192).toNat (-1)) d'.exp t' r.sig.toNat r.exp) :
    AddPosPost d o t e r t' := by
  have hk : 58 ≤ posNat exp' := by
    have := (i16_lt_lit _ _).mp hg; simp at this; unfold posNat; omega
  obtain ⟨h1, h2⟩ := drop_all o.sig.toNat _ (U192.toNat_lt _) hk
  refine addPos_post _ _ hinv.1 hinv.2 ?_ ?_ h
  · rw [h1, U192.default_toNat]; simp
  · rw [posNat_zero, flagDiv_zero]; unfold addFlagPos
    rw [if_pos (by omega), if_neg (U192.toNat_pos_of _ hnz)]

theorem addPos_postB {d o : Gen.decomposed192} {t : Int8} {e : Int16} {d' : Gen.decomposed192}
    {exp' : Int16} {r : Gen.decomposed192} {t' : Int8}
    (hinv : ScP d e d' exp' ∧ (exp'.toInt ≤ 0 ∨ scaleLim ≤ d'.sig.toNat)) (hg : 57 < exp')
    (hz : o.sig.w0 = 0 ∧ o.sig.w1 = 0 ∧ o.sig.w2 = 0)
    (h : Tr (d'.sig.toNat + o.sig.toNat / 10 ^ posNat 0)
      (flagDiv (posNat 0) o.sig.toNat t) d'.exp t' r.sig.toNat r.exp) :
    AddPosPost d o t e r t' := by
  have hk : 58 ≤ posNat exp' := by
    have := (i16_lt_lit _ _).mp hg; simp at this; unfold posNat; omega
  have h0 : o.sig.toNat = 0 := U192.toNat_eq_zero _ ⟨⟨hz.1, hz.2.1⟩, hz.2.2⟩
  refine addPos_post _ _ hinv.1 hinv.2 ?_ ?_ h
  · rw [h0]; simp
  · rw [posNat_zero, flagDiv_zero]; unfold addFlagPos
    rw [if_pos (by omega), if_pos h0]

theorem addPos_postC {d o : Gen.decomposed192} {t : Int8} {e : Int16} {d' : Gen.decomposed192}
    {exp' : Int16} {r : Gen.decomposed192} {t' : Int8}
    (hinv : ScP d e d' exp' ∧ (exp'.toInt ≤ 0 ∨ scaleLim ≤ d'.sig.toNat)) (hg : exp' ≤ 57)
    (h : Tr (d'.sig.toNat + o.sig.toNat / 10 ^ posNat exp')
      (flagDiv (posNat exp') o.sig.toNat t) d'.exp t' r.sig.toNat r.exp) :
    AddPosPost d o t e r t' := by
  have hk : posNat exp' ≤ 57 := by
    have := (i16_le_lit _ _).mp hg; simp at this; unfold posNat; omega
  refine addPos_post _ _ hinv.1 hinv.2 rfl ?_ h
  unfold addFlagPos; rw [if_neg (by omega)]

/-- result of `add`: by the sign of the (wrapping) exponent difference `e = d.exp - o.exp`. -/
def AddPost (d o : Gen.decomposed192) (t : Int8) (r : Gen.decomposed192) (t' : Int8) : Prop :=
  ((d.exp - o.exp).toInt < 0 ∧ AddNegPost d o t (d.exp - o.exp) r t') ∨
  (0 < (d.exp - o.exp).toInt ∧ AddPosPost d o t (d.exp - o.exp) r t') ∨
  ((d.exp - o.exp).toInt = 0 ∧ Tr (d.sig.toNat + o.sig.toNat) t d.exp t' r.sig.toNat r.exp)

end D192
