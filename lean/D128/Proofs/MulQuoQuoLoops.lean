/-
  D128/Proofs/MulQuoQuoLoops.lean — the inner loops of `Gen.Decimal.QuoWithMode` (the bodies named in
  `MulQuoQuoCode.lean`): the eight scaling loops and the loop that drops digits of a 192-bit sum.
  Every theorem shows termination, absence of panics and `Int16` wrap-around, and the exact result.

  Provided (namespace `MQ`):
  * `scale_rule`   : generic rule for a loop `while r ≤ T && a ≤ T { a *= 10^j; r *= 10^j; exp -= j }`
                     (`0 < r`): it ends with `a·10^m`, `r·10^m`, `exp - m` and `¬ (r' ≤ T ∧ a' ≤ T)`
  * `d64Loop4`, `d64Loop1`, `fsLoop4`, `fsLoop1`  : the 64-bit instances
  * `dLoop4`, `dLoop1`, `msLoop4`, `msLoop1`      : the 128-bit instances
  * `dropLoop192`  : `for sig192[2] != 0 { sig192, rem192 = sig192.div10(); exp++; if rem192 != 0 { trunc = 1 } }`
                     ends with `s / 10^j < 2^128`, `exp + j`, sticky set iff `s % 10^j ≠ 0`, and
                     `j = 0 ∨ 2^128 ≤ 10 * (s / 10^j)`
-/
import D128.Proofs.MulQuoQuoCode
import D128.Proofs.RoundKernelWideCode

set_option autoImplicit false
set_option maxRecDepth 8192
set_option linter.unusedVariables false

namespace MQ
open Gen

theorem pow_lt_imp_lt {m : Nat} (h : 10 ^ m < 2 ^ 128) : m < 39 := by
  by_contra hc
  have : (10 : Nat) ^ 39 ≤ 10 ^ m := Nat.pow_le_pow_right (by norm_num) (by omega)
  have h39 : (2 : Nat) ^ 128 < 10 ^ 39 := by norm_num
  omega

/-- generic rule for the scaling loops -/
theorem scale_rule {β : Type} (f : Unit → β → Go.GoM (ForInStep β)) (E : β → Int) (A R : β → Nat)
    (T j : Nat) (hj : 0 < j) (hT : T < 2 ^ 128)
    (hf : ∀ b, (R b ≤ T ∧ A b ≤ T → -32000 ≤ E b →
              ∃ b', f () b = .ok (.yield b') ∧ E b' = E b - (j : Int) ∧ A b' = A b * 10 ^ j ∧
                R b' = R b * 10 ^ j) ∧
          (¬ (R b ≤ T ∧ A b ≤ T) → f () b = .ok (.done b)))
    (b0 : β) (hR : 0 < R b0) (hE : -31000 ≤ E b0) :
    ∃ (b' : β) (m : Nat), forIn (m := Go.GoM) Lean.Loop.mk b0 f = .ok b' ∧ E b' = E b0 - (m : Int) ∧
      A b' = A b0 * 10 ^ m ∧ R b' = R b0 * 10 ^ m ∧ ¬ (R b' ≤ T ∧ A b' ≤ T) := by
  have key := RK.loop_inv f
    (fun b => ∃ m : Nat, E b = E b0 - (m : Int) ∧ A b = A b0 * 10 ^ m ∧ R b = R b0 * 10 ^ m)
    (fun b => ∃ m : Nat, E b = E b0 - (m : Int) ∧ A b = A b0 * 10 ^ m ∧ R b = R b0 * 10 ^ m ∧
      ¬ (R b ≤ T ∧ A b ≤ T))
    (fun b => 10 ^ j * T + 1 - R b) ?_ b0 ⟨0, by simp, by simp, by simp⟩
  · obtain ⟨b', e, m, h1, h2, h3, h4⟩ := key
    exact ⟨b', m, e, h1, h2, h3, h4⟩
  · rintro b ⟨m, hEb, hAb, hRb⟩
    by_cases hc : R b ≤ T ∧ A b ≤ T
    · left
      have hpos : 0 < 10 ^ m := Nat.pow_pos (by norm_num)
      have hRpos : 0 < R b := by rw [hRb]; exact Nat.mul_pos hR hpos
      have hm : m < 39 := by
        apply pow_lt_imp_lt
        calc 10 ^ m = 1 * 10 ^ m := (Nat.one_mul _).symm
          _ ≤ R b0 * 10 ^ m := Nat.mul_le_mul_right _ hR
          _ = R b := hRb.symm
          _ ≤ T := hc.1
          _ < 2 ^ 128 := hT
      obtain ⟨b', e, h1, h2, h3⟩ := (hf b).1 hc (by omega)
      refine ⟨b', e, ⟨m + j, ?_, ?_, ?_⟩, ?_⟩
      · rw [h1, hEb]; push_cast; ring
      · rw [h2, hAb, Nat.pow_add, Nat.mul_assoc]
      · rw [h3, hRb, Nat.pow_add, Nat.mul_assoc]
      · have hc10 : 2 ≤ 10 ^ j := by
          calc 2 ≤ 10 ^ 1 := by norm_num
            _ ≤ 10 ^ j := Nat.pow_le_pow_right (by norm_num) hj
        have h4 : R b' ≤ 10 ^ j * T := by
          rw [h3, Nat.mul_comm]; exact Nat.mul_le_mul_left _ hc.1
        have h5 : R b * 2 ≤ R b' := by
          rw [h3]; exact Nat.mul_le_mul_left _ hc10
        show 10 ^ j * T + 1 - R b' < 10 ^ j * T + 1 - R b
        omega
    · right
      exact ⟨b, (hf b).2 hc, m, hEb, hAb, hRb, hc⟩

/-! ## helpers -/

theorem i16_sub (e c : Int16) (hc0 : 0 ≤ c.toInt) (hc : c.toInt ≤ 100) (h : -32000 ≤ e.toInt) :
    (e - c).toInt = e.toInt - c.toInt := by
  have := e.toInt_lt
  rw [Int16.toInt_sub_of] <;> omega

theorem i16_add (e c : Int16) (hc0 : 0 ≤ c.toInt) (hc : c.toInt ≤ 100) (h : e.toInt ≤ 32000) :
    (e + c).toInt = e.toInt + c.toInt := by
  have := e.le_toInt
  rw [Int16.toInt_add_of] <;> omega

theorem u64_mul_small (x c : UInt64) (h : x.toNat * c.toNat < 2 ^ 64) :
    (x * c).toNat = x.toNat * c.toNat := by
  rw [UInt64.toNat_mul, Nat.mod_eq_of_lt h]

theorem u64_le_iff (x c : UInt64) : decide (x ≤ c) = decide (x.toNat ≤ c.toNat) := by
  apply decide_eq_decide.2
  exact UInt64.le_iff_toNat_le

/-! ## the 64-bit scaling loops -/

theorem d64Loop4 (s : Int16 × UInt64) (hx : 0 < s.2.toNat) (hE : -31000 ≤ s.1.toInt) :
    ∃ (s' : Int16 × UInt64) (m : Nat), forIn (m := Go.GoM) Lean.Loop.mk s d64Body4 = .ok s' ∧
      s'.1.toInt = s.1.toInt - (m : Int) ∧ s'.2.toNat = s.2.toNat * 10 ^ m ∧
      703687441776639 < s'.2.toNat := by
  have key := scale_rule d64Body4 (fun s => s.1.toInt) (fun _ => 0)
    (fun s => s.2.toNat) 703687441776639 4 (by norm_num) (by norm_num) ?_ s hx hE
  · obtain ⟨b', m, e, h1, _, h3, h4⟩ := key
    exact ⟨b', m, e, h1, h3, by simpa using h4⟩
  · intro b
    have hT : (703687441776639 : UInt64).toNat = 703687441776639 := rfl
    have h4 : (4 : Int16).toInt = 4 := rfl
    have hc4 : (10000 : UInt64).toNat = 10000 := rfl
    constructor
    · rintro ⟨hc, -⟩ hEb
      refine ⟨(b.1 - 4, b.2 * 10000), ?_, ?_, ?_, ?_⟩
      · simp only [d64Body4, u64_le_iff, hT, hc, decide_true, if_true]; rfl
      · show (b.1 - 4).toInt = _
        rw [i16_sub _ _ (by decide) (by decide) hEb, h4]; rfl
      · simp
      · show (b.2 * 10000).toNat = _
        rw [u64_mul_small _ _ (by rw [hc4]; omega), hc4]; rfl
    · intro hc
      have hc' : ¬ b.2.toNat ≤ 703687441776639 := by simpa using hc
      simp only [d64Body4, u64_le_iff, hT, hc', decide_false, Bool.false_eq_true, if_false]; rfl

theorem d64Loop1 (s : Int16 × UInt64) (hx : 0 < s.2.toNat) (hE : -31000 ≤ s.1.toInt) :
    ∃ (s' : Int16 × UInt64) (m : Nat), forIn (m := Go.GoM) Lean.Loop.mk s d64Body1 = .ok s' ∧
      s'.1.toInt = s.1.toInt - (m : Int) ∧ s'.2.toNat = s.2.toNat * 10 ^ m ∧
      1801439850948198399 < s'.2.toNat := by
  have key := scale_rule d64Body1 (fun s => s.1.toInt) (fun _ => 0)
    (fun s => s.2.toNat) 1801439850948198399 1 (by norm_num) (by norm_num) ?_ s hx hE
  · obtain ⟨b', m, e, h1, _, h3, h4⟩ := key
    exact ⟨b', m, e, h1, h3, by simpa using h4⟩
  · intro b
    have hT : (1801439850948198399 : UInt64).toNat = 1801439850948198399 := rfl
    have h4 : (1 : Int16).toInt = 1 := rfl
    have hc4 : (10 : UInt64).toNat = 10 := rfl
    constructor
    · rintro ⟨hc, -⟩ hEb
      refine ⟨(b.1 - 1, b.2 * 10), ?_, ?_, ?_, ?_⟩
      · simp only [d64Body1, u64_le_iff, hT, hc, decide_true, if_true]; rfl
      · show (b.1 - 1).toInt = _
        rw [i16_sub _ _ (by decide) (by decide) hEb, h4]; rfl
      · simp
      · show (b.2 * 10).toNat = _
        rw [u64_mul_small _ _ (by rw [hc4]; omega), hc4]; rfl
    · intro hc
      have hc' : ¬ b.2.toNat ≤ 1801439850948198399 := by simpa using hc
      simp only [d64Body1, u64_le_iff, hT, hc', decide_false, Bool.false_eq_true, if_false]; rfl

/-- state `(exp, sig64, rem64)` -/
theorem fsLoop4 (s : Int16 × UInt64 × UInt64) (hx : 0 < s.2.2.toNat) (hE : -31000 ≤ s.1.toInt) :
    ∃ (s' : Int16 × UInt64 × UInt64) (m : Nat),
      forIn (m := Go.GoM) Lean.Loop.mk s fs4Body = .ok s' ∧
      s'.1.toInt = s.1.toInt - (m : Int) ∧ s'.2.1.toNat = s.2.1.toNat * 10 ^ m ∧
      s'.2.2.toNat = s.2.2.toNat * 10 ^ m ∧
      ¬ (s'.2.2.toNat ≤ 703687441776639 ∧ s'.2.1.toNat ≤ 703687441776639) := by
  have key := scale_rule fs4Body (fun s => s.1.toInt) (fun s => s.2.1.toNat)
    (fun s => s.2.2.toNat) 703687441776639 4 (by norm_num) (by norm_num) ?_ s hx hE
  · exact key
  · intro b
    have hT : (703687441776639 : UInt64).toNat = 703687441776639 := rfl
    have h4 : (4 : Int16).toInt = 4 := rfl
    have hc4 : (10000 : UInt64).toNat = 10000 := rfl
    constructor
    · rintro ⟨hc, hc2⟩ hEb
      refine ⟨(b.1 - 4, b.2.1 * 10000, b.2.2 * 10000), ?_, ?_, ?_, ?_⟩
      · simp only [fs4Body, u64_le_iff, hT, hc, hc2, decide_true, Bool.and_self, if_true]; rfl
      · show (b.1 - 4).toInt = _
        rw [i16_sub _ _ (by decide) (by decide) hEb, h4]; rfl
      · show (b.2.1 * 10000).toNat = _
        rw [u64_mul_small _ _ (by rw [hc4]; omega), hc4]; rfl
      · show (b.2.2 * 10000).toNat = _
        rw [u64_mul_small _ _ (by rw [hc4]; omega), hc4]; rfl
    · intro hc
      have hc' : (decide (b.2.2.toNat ≤ 703687441776639) && decide (b.2.1.toNat ≤ 703687441776639))
          = false := by
        rw [Bool.and_eq_false_iff, decide_eq_false_iff_not, decide_eq_false_iff_not]
        exact not_and_or.1 hc
      simp only [fs4Body, u64_le_iff, hT, hc', Bool.false_eq_true, if_false]; rfl

/-- state `(exp, sig64, rem64)` -/
theorem fsLoop1 (s : Int16 × UInt64 × UInt64) (hx : 0 < s.2.2.toNat) (hE : -31000 ≤ s.1.toInt) :
    ∃ (s' : Int16 × UInt64 × UInt64) (m : Nat),
      forIn (m := Go.GoM) Lean.Loop.mk s fs1Body = .ok s' ∧
      s'.1.toInt = s.1.toInt - (m : Int) ∧ s'.2.1.toNat = s.2.1.toNat * 10 ^ m ∧
      s'.2.2.toNat = s.2.2.toNat * 10 ^ m ∧
      ¬ (s'.2.2.toNat ≤ 1801439850948198399 ∧ s'.2.1.toNat ≤ 1801439850948198399) := by
  have key := scale_rule fs1Body (fun s => s.1.toInt) (fun s => s.2.1.toNat)
    (fun s => s.2.2.toNat) 1801439850948198399 1 (by norm_num) (by norm_num) ?_ s hx hE
  · exact key
  · intro b
    have hT : (1801439850948198399 : UInt64).toNat = 1801439850948198399 := rfl
    have h4 : (1 : Int16).toInt = 1 := rfl
    have hc4 : (10 : UInt64).toNat = 10 := rfl
    constructor
    · rintro ⟨hc, hc2⟩ hEb
      refine ⟨(b.1 - 1, b.2.1 * 10, b.2.2 * 10), ?_, ?_, ?_, ?_⟩
      · simp only [fs1Body, u64_le_iff, hT, hc, hc2, decide_true, Bool.and_self, if_true]; rfl
      · show (b.1 - 1).toInt = _
        rw [i16_sub _ _ (by decide) (by decide) hEb, h4]; rfl
      · show (b.2.1 * 10).toNat = _
        rw [u64_mul_small _ _ (by rw [hc4]; omega), hc4]; rfl
      · show (b.2.2 * 10).toNat = _
        rw [u64_mul_small _ _ (by rw [hc4]; omega), hc4]; rfl
    · intro hc
      have hc' : (decide (b.2.2.toNat ≤ 1801439850948198399) &&
          decide (b.2.1.toNat ≤ 1801439850948198399)) = false := by
        rw [Bool.and_eq_false_iff, decide_eq_false_iff_not, decide_eq_false_iff_not]
        exact not_and_or.1 hc
      simp only [fs1Body, u64_le_iff, hT, hc', Bool.false_eq_true, if_false]; rfl

/-! ## the 128-bit scaling loops -/

/-- `x[1] <= 0x0002_7fff_ffff_ffff` means `x ≤ Cmax = 10·2^110 - 1` -/
theorem w1_le4_iff (n : U128) :
    decide (n.w1 ≤ 703687441776639) = decide (n.toNat ≤ 12980742146337069071326240823050239) := by
  have h0 := n.w0.toNat_lt
  rw [Bool.eq_iff_iff, decide_eq_true_eq, decide_eq_true_eq, UInt64.le_iff_toNat_le]
  simp only [U128.toNat, UInt64.toNat_ofNat, Nat.reducePow, Nat.reduceMod]
  omega

/-- `x[1] <= 0x18ff_ffff_ffff_ffff` means `x ≤ 25·2^120 - 1` -/
theorem w1_le1_iff (n : U128) :
    decide (n.w1 ≤ 1801439850948198399)
      = decide (n.toNat ≤ 33230699894622896822595176507008614399) := by
  have h0 := n.w0.toNat_lt
  rw [Bool.eq_iff_iff, decide_eq_true_eq, decide_eq_true_eq, UInt64.le_iff_toNat_le]
  simp only [U128.toNat, UInt64.toNat_ofNat, Nat.reducePow, Nat.reduceMod]
  omega

theorem u128_mul_small (n : U128) (c : UInt64) (k : Nat) (hc : c.toNat = k)
    (h : n.toNat * k < 2 ^ 128) : (U128.mul64 n c).toNat = n.toNat * k := by
  rw [U128_mul64_toNat_of_lt _ _ (by rw [hc]; exact h), hc]

theorem dLoop4 (s : U128 × Int16) (hx : 0 < s.1.toNat) (hE : -31000 ≤ s.2.toInt) :
    ∃ (s' : U128 × Int16) (m : Nat), forIn (m := Go.GoM) Lean.Loop.mk s dBody4 = .ok s' ∧
      s'.2.toInt = s.2.toInt - (m : Int) ∧ s'.1.toNat = s.1.toNat * 10 ^ m ∧
      12980742146337069071326240823050239 < s'.1.toNat := by
  have key := scale_rule dBody4 (fun s => s.2.toInt) (fun _ => 0)
    (fun s => s.1.toNat) 12980742146337069071326240823050239 4 (by norm_num) (by norm_num) ?_ s hx hE
  · obtain ⟨b', m, e, h1, _, h3, h4⟩ := key
    exact ⟨b', m, e, h1, h3, by simpa using h4⟩
  · intro b
    have h4 : (4 : Int16).toInt = 4 := rfl
    constructor
    · rintro ⟨hc, -⟩ hEb
      refine ⟨(U128.mul64 b.1 10000, b.2 - 4), ?_, ?_, ?_, ?_⟩
      · simp only [dBody4, w1_le4_iff, hc, decide_true, if_true]; rfl
      · show (b.2 - 4).toInt = _
        rw [i16_sub _ _ (by decide) (by decide) hEb, h4]; rfl
      · simp
      · show (U128.mul64 b.1 10000).toNat = _
        rw [u128_mul_small _ _ 10000 rfl (by omega)]; rfl
    · intro hc
      have hc' : ¬ b.1.toNat ≤ 12980742146337069071326240823050239 := by simpa using hc
      simp only [dBody4, w1_le4_iff, hc', decide_false, Bool.false_eq_true, if_false]; rfl

theorem dLoop1 (s : U128 × Int16) (hx : 0 < s.1.toNat) (hE : -31000 ≤ s.2.toInt) :
    ∃ (s' : U128 × Int16) (m : Nat), forIn (m := Go.GoM) Lean.Loop.mk s dBody1 = .ok s' ∧
      s'.2.toInt = s.2.toInt - (m : Int) ∧ s'.1.toNat = s.1.toNat * 10 ^ m ∧
      33230699894622896822595176507008614399 < s'.1.toNat := by
  have key := scale_rule dBody1 (fun s => s.2.toInt) (fun _ => 0)
    (fun s => s.1.toNat) 33230699894622896822595176507008614399 1 (by norm_num) (by norm_num) ?_ s
    hx hE
  · obtain ⟨b', m, e, h1, _, h3, h4⟩ := key
    exact ⟨b', m, e, h1, h3, by simpa using h4⟩
  · intro b
    have h4 : (1 : Int16).toInt = 1 := rfl
    constructor
    · rintro ⟨hc, -⟩ hEb
      refine ⟨(U128.mul64 b.1 10, b.2 - 1), ?_, ?_, ?_, ?_⟩
      · simp only [dBody1, w1_le1_iff, hc, decide_true, if_true]; rfl
      · show (b.2 - 1).toInt = _
        rw [i16_sub _ _ (by decide) (by decide) hEb, h4]; rfl
      · simp
      · show (U128.mul64 b.1 10).toNat = _
        rw [u128_mul_small _ _ 10 rfl (by omega)]; rfl
    · intro hc
      have hc' : ¬ b.1.toNat ≤ 33230699894622896822595176507008614399 := by simpa using hc
      simp only [dBody1, w1_le1_iff, hc', decide_false, Bool.false_eq_true, if_false]; rfl

/-- state `(exp, sig, rem)` -/
theorem msLoop4 (s : Int16 × U128 × U128) (hx : 0 < s.2.2.toNat) (hE : -31000 ≤ s.1.toInt) :
    ∃ (s' : Int16 × U128 × U128) (m : Nat),
      forIn (m := Go.GoM) Lean.Loop.mk s ms4Body = .ok s' ∧
      s'.1.toInt = s.1.toInt - (m : Int) ∧ s'.2.1.toNat = s.2.1.toNat * 10 ^ m ∧
      s'.2.2.toNat = s.2.2.toNat * 10 ^ m ∧
      ¬ (s'.2.2.toNat ≤ 12980742146337069071326240823050239 ∧
         s'.2.1.toNat ≤ 12980742146337069071326240823050239) := by
  have key := scale_rule ms4Body (fun s => s.1.toInt) (fun s => s.2.1.toNat)
    (fun s => s.2.2.toNat) 12980742146337069071326240823050239 4 (by norm_num) (by norm_num) ?_ s
    hx hE
  · exact key
  · intro b
    have h4 : (4 : Int16).toInt = 4 := rfl
    constructor
    · rintro ⟨hc, hc2⟩ hEb
      refine ⟨(b.1 - 4, U128.mul64 b.2.1 10000, U128.mul64 b.2.2 10000), ?_, ?_, ?_, ?_⟩
      · simp only [ms4Body, w1_le4_iff, hc, hc2, decide_true, Bool.and_self, if_true]; rfl
      · show (b.1 - 4).toInt = _
        rw [i16_sub _ _ (by decide) (by decide) hEb, h4]; rfl
      · show (U128.mul64 b.2.1 10000).toNat = _
        rw [u128_mul_small _ _ 10000 rfl (by omega)]; rfl
      · show (U128.mul64 b.2.2 10000).toNat = _
        rw [u128_mul_small _ _ 10000 rfl (by omega)]; rfl
    · intro hc
      have hc' : (decide (b.2.2.toNat ≤ 12980742146337069071326240823050239) &&
          decide (b.2.1.toNat ≤ 12980742146337069071326240823050239)) = false := by
        rw [Bool.and_eq_false_iff, decide_eq_false_iff_not, decide_eq_false_iff_not]
        exact not_and_or.1 hc
      simp only [ms4Body, w1_le4_iff, hc', Bool.false_eq_true, if_false]; rfl

/-- state `(exp, sig, rem)` -/
theorem msLoop1 (s : Int16 × U128 × U128) (hx : 0 < s.2.2.toNat) (hE : -31000 ≤ s.1.toInt) :
    ∃ (s' : Int16 × U128 × U128) (m : Nat),
      forIn (m := Go.GoM) Lean.Loop.mk s ms1Body = .ok s' ∧
      s'.1.toInt = s.1.toInt - (m : Int) ∧ s'.2.1.toNat = s.2.1.toNat * 10 ^ m ∧
      s'.2.2.toNat = s.2.2.toNat * 10 ^ m ∧
      ¬ (s'.2.2.toNat ≤ 33230699894622896822595176507008614399 ∧
         s'.2.1.toNat ≤ 33230699894622896822595176507008614399) := by
  have key := scale_rule ms1Body (fun s => s.1.toInt) (fun s => s.2.1.toNat)
    (fun s => s.2.2.toNat) 33230699894622896822595176507008614399 1 (by norm_num) (by norm_num) ?_ s
    hx hE
  · exact key
  · intro b
    have h4 : (1 : Int16).toInt = 1 := rfl
    constructor
    · rintro ⟨hc, hc2⟩ hEb
      refine ⟨(b.1 - 1, U128.mul64 b.2.1 10, U128.mul64 b.2.2 10), ?_, ?_, ?_, ?_⟩
      · simp only [ms1Body, w1_le1_iff, hc, hc2, decide_true, Bool.and_self, if_true]; rfl
      · show (b.1 - 1).toInt = _
        rw [i16_sub _ _ (by decide) (by decide) hEb, h4]; rfl
      · show (U128.mul64 b.2.1 10).toNat = _
        rw [u128_mul_small _ _ 10 rfl (by omega)]; rfl
      · show (U128.mul64 b.2.2 10).toNat = _
        rw [u128_mul_small _ _ 10 rfl (by omega)]; rfl
    · intro hc
      have hc' : (decide (b.2.2.toNat ≤ 33230699894622896822595176507008614399) &&
          decide (b.2.1.toNat ≤ 33230699894622896822595176507008614399)) = false := by
        rw [Bool.and_eq_false_iff, decide_eq_false_iff_not, decide_eq_false_iff_not]
        exact not_and_or.1 hc
      simp only [ms1Body, w1_le1_iff, hc', Bool.false_eq_true, if_false]; rfl

/-! ## dropping digits of the 192-bit sum -/

theorem w2_ne_zero_iff (n : U192) : (n.w2 != 0) = decide (2 ^ 128 ≤ n.toNat) := by
  have h0 := n.w0.toNat_lt
  have h1 := n.w1.toNat_lt
  rw [Bool.eq_iff_iff, bne_iff_ne, decide_eq_true_eq, ne_eq, ← UInt64.toNat_inj]
  simp only [U192.toNat, UInt64.toNat_zero]
  omega

theorem mod_pow_succ_eq_zero (n j : Nat) :
    n % 10 ^ (j + 1) = 0 ↔ (n % 10 ^ j = 0 ∧ n / 10 ^ j % 10 = 0) := by
  rw [Nat.mod_pow_succ]
  have hp : 0 < 10 ^ j := Nat.pow_pos (by norm_num)
  constructor
  · intro h
    have h1 : n % 10 ^ j = 0 := by omega
    rw [h1, Nat.zero_add] at h
    rcases Nat.mul_eq_zero.1 h with h | h
    · omega
    · exact ⟨h1, h⟩
  · rintro ⟨h1, h2⟩
    rw [h1, h2]; simp

/-- state `(exp, trunc, sig192)` -/
theorem dropLoop192 (s : Int16 × Int8 × U192) (hE : s.1.toInt ≤ 31000) :
    ∃ (s' : Int16 × Int8 × U192) (j : Nat),
      forIn (m := Go.GoM) Lean.Loop.mk s dropBody192 = .ok s' ∧
      s'.1.toInt = s.1.toInt + (j : Int) ∧ s'.2.2.toNat = s.2.2.toNat / 10 ^ j ∧
      s'.2.2.toNat < 2 ^ 128 ∧ s'.2.1 = (if s.2.2.toNat % 10 ^ j ≠ 0 then 1 else s.2.1) ∧
      (j = 0 ∨ 2 ^ 128 ≤ 10 * s'.2.2.toNat + 9) := by
  have key := RK.loop_inv dropBody192
    (fun b => ∃ j : Nat, b.1.toInt = s.1.toInt + (j : Int) ∧ b.2.2.toNat = s.2.2.toNat / 10 ^ j ∧
      b.2.1 = (if s.2.2.toNat % 10 ^ j ≠ 0 then 1 else s.2.1) ∧
      (j = 0 ∨ 2 ^ 128 ≤ 10 * b.2.2.toNat + 9))
    (fun b => ∃ j : Nat, b.1.toInt = s.1.toInt + (j : Int) ∧ b.2.2.toNat = s.2.2.toNat / 10 ^ j ∧
      b.2.2.toNat < 2 ^ 128 ∧ b.2.1 = (if s.2.2.toNat % 10 ^ j ≠ 0 then 1 else s.2.1) ∧
      (j = 0 ∨ 2 ^ 128 ≤ 10 * b.2.2.toNat + 9))
    (fun b => b.2.2.toNat) ?_ s ⟨0, by simp, by simp, by simp [Nat.mod_one], Or.inl rfl⟩
  · obtain ⟨b', e, j, h⟩ := key
    exact ⟨b', j, e, h⟩
  · rintro b ⟨j, hEb, hN, hT, hJ⟩
    by_cases hc : 2 ^ 128 ≤ b.2.2.toNat
    · left
      obtain ⟨q, r, e, hq, hr⟩ := D128.Proofs.WordsWide.U192_div10_eq b.2.2
      have hpos : 0 < 10 ^ j := Nat.pow_pos (by norm_num)
      have hj : j < 58 := by
        by_contra hcon
        have h1 : (10 : Nat) ^ 58 ≤ 10 ^ j := Nat.pow_le_pow_right (by norm_num) (by omega)
        have h2 := U192.toNat_lt s.2.2
        have h3 : s.2.2.toNat / 10 ^ j = 0 := by
          apply Nat.div_eq_of_lt
          have : (2 : Nat) ^ 192 < 10 ^ 58 := by norm_num
          omega
        omega
      have h1 : (1 : Int16).toInt = 1 := rfl
      have hexp : (b.1 + 1).toInt = b.1.toInt + 1 := by
        rw [i16_add _ _ (by decide) (by decide) (by omega), h1]
      have htr : (if (r != 0) = true then (1 : Int8) else b.2.1)
          = if s.2.2.toNat % 10 ^ (j + 1) ≠ 0 then 1 else s.2.1 := by
        have hr' : (r != 0) = decide (s.2.2.toNat / 10 ^ j % 10 ≠ 0) := by
          rw [RK.u64_ne_zero_iff, hr, hN]
        rw [hr', hT]
        by_cases ha : s.2.2.toNat % 10 ^ j = 0 <;> by_cases hb : s.2.2.toNat / 10 ^ j % 10 = 0 <;>
          simp [mod_pow_succ_eq_zero, ha, hb]
      refine ⟨(b.1 + 1, (if (r != 0) = true then 1 else b.2.1), q), ?_, ⟨j + 1, ?_, ?_, htr, ?_⟩, ?_⟩
      · simp only [dropBody192, w2_ne_zero_iff, hc, decide_true, if_true, e, D128.Proofs.WordsWide.ok_bind]
        by_cases hd : (r != 0) = true
        · simp only [hd, if_true]; rfl
        · simp only [hd]; rfl
      · show (b.1 + 1).toInt = _
        rw [hexp, hEb]; push_cast; ring
      · show q.toNat = _
        rw [hq, hN, Nat.div_div_eq_div_mul, ← Nat.pow_succ]
      · right
        show 2 ^ 128 ≤ 10 * q.toNat + 9
        rw [hq]; omega
      · show q.toNat < b.2.2.toNat
        rw [hq]; omega
    · right
      refine ⟨b, ?_, j, hEb, hN, by omega, hT, hJ⟩
      simp only [dropBody192, w2_ne_zero_iff, hc, decide_false, Bool.false_eq_true, if_false]; rfl

end MQ
