/-
  D128/Proofs/ComposeSqlBytes.lean — big-endian byte strings as natural numbers, for `Decimal.Compose`
  / `Decimal.Decompose` (property C14).  No generated code here.

  Provided (namespace `CS`):
  * `beL l`                 big-endian value of a list of bytes; `beNat_eq : Spec.beNat b = beL b.toList`
  * `beL_cons`, `beL_append_one`, `beL_lt`, `beL_ge`, `beL_replicate_zero`
  * `bitLen_le_iff`, `bitLen_lt`, `bitLen_ge`, `bitLen_pos`      (`Go.Big.bitLen`)
  * `digitsBE m N`          the `m` low base-256 digits of `N`; `beL_digitsBE : beL (digitsBE m N) = N % 256^m`
  * `Bytes_toList`, `Bytes_size`, `beNat_Bytes`, `Bytes_head_ne_zero`, `SetBytes_eq`   (`Go.BigInt.Bytes`,
    `Go.BigInt.SetBytes`)
-/
import D128.Proofs.ComposeSqlMath
import D128.Go.Big
import D128.Spec.Bid
set_option autoImplicit false
namespace CS

/-- big-endian value of a list of bytes -/
def beL (l : List UInt8) : Nat := l.foldl (fun acc x => acc * 256 + x.toNat) 0

theorem beNat_eq (b : Array UInt8) : Spec.beNat b = beL b.toList := by
  unfold Spec.beNat beL
  rw [Array.foldl_toList]

theorem foldl_be (l : List UInt8) (a : Nat) :
    l.foldl (fun acc x => acc * 256 + x.toNat) a = a * 256 ^ l.length + beL l := by
  induction l generalizing a with
  | nil => simp [beL]
  | cons x t ih =>
    simp only [List.foldl_cons, List.length_cons, beL]
    rw [ih, ih (0 * 256 + x.toNat)]
    ring

theorem beL_nil : beL [] = 0 := rfl

theorem beL_cons (x : UInt8) (l : List UInt8) : beL (x :: l) = x.toNat * 256 ^ l.length + beL l := by
  unfold beL
  rw [List.foldl_cons, foldl_be]
  simp [beL]

theorem beL_append_one (l : List UInt8) (x : UInt8) : beL (l ++ [x]) = beL l * 256 + x.toNat := by
  unfold beL
  rw [List.foldl_append]
  rfl

theorem beL_lt (l : List UInt8) : beL l < 256 ^ l.length := by
  induction l with
  | nil => simp [beL]
  | cons x t ih =>
    rw [beL_cons, List.length_cons, Nat.pow_succ]
    have := x.toNat_lt
    nlinarith

theorem beL_ge (x : UInt8) (l : List UInt8) (hx : x ≠ 0) : 256 ^ l.length ≤ beL (x :: l) := by
  rw [beL_cons]
  have : 1 ≤ x.toNat := by
    have : x.toNat ≠ 0 := fun h => hx (UInt8.toNat_inj.mp h)
    omega
  nlinarith [Nat.zero_le (beL l), Nat.one_le_pow l.length 256 (by norm_num)]

theorem beL_replicate_zero (k : Nat) (l : List UInt8) : beL (List.replicate k 0 ++ l) = beL l := by
  induction k with
  | zero => simp
  | succ k ih =>
    rw [List.replicate_succ, List.cons_append, beL_cons, ih]
    simp


theorem bitLen_le_iff (n k : Nat) : Go.Big.bitLen n ≤ k ↔ n < 2 ^ k := by
  unfold Go.Big.bitLen
  by_cases h : n = 0
  · subst h; simp
  · rw [if_neg h]
    constructor
    · intro hk
      have h1 : n < 2 ^ (n.log2 + 1) := Nat.lt_log2_self
      exact Nat.lt_of_lt_of_le h1 (Nat.pow_le_pow_right (by norm_num) hk)
    · intro hk
      have := (Nat.log2_lt h).2 hk
      omega

theorem bitLen_lt (n : Nat) : n < 2 ^ Go.Big.bitLen n := (bitLen_le_iff n _).1 (le_refl _)

theorem bitLen_ge (n : Nat) (h : n ≠ 0) : 2 ^ (Go.Big.bitLen n - 1) ≤ n := by
  unfold Go.Big.bitLen
  rw [if_neg h]
  simp only [Nat.add_sub_cancel]
  exact Nat.log2_self_le h

theorem bitLen_pos (n : Nat) (h : n ≠ 0) : 0 < Go.Big.bitLen n := by
  unfold Go.Big.bitLen
  rw [if_neg h]; omega

/-- the `m` low base-256 digits of `N`, most significant first -/
def digitsBE (m N : Nat) : List UInt8 :=
  List.ofFn (n := m) fun i => UInt8.ofNat (N / 2 ^ (8 * (m - 1 - i.val)) % 256)

theorem digitsBE_succ (m N : Nat) :
    digitsBE (m + 1) N = UInt8.ofNat (N / 2 ^ (8 * m) % 256) :: digitsBE m N := by
  unfold digitsBE
  rw [List.ofFn_succ]
  congr 1
  apply congrArg
  funext i
  simp only [Fin.val_succ]
  have : m + 1 - 1 - (i.val + 1) = m - 1 - i.val := by omega
  rw [this]

theorem digitsBE_length (m N : Nat) : (digitsBE m N).length = m := by
  unfold digitsBE; simp

theorem u8_ofNat_mod (k : Nat) : (UInt8.ofNat (k % 256)).toNat = k % 256 := by
  simp

theorem beL_digitsBE (m N : Nat) : beL (digitsBE m N) = N % 256 ^ m := by
  induction m with
  | zero => simp [digitsBE, beL, Nat.mod_one]
  | succ m ih =>
    rw [digitsBE_succ, beL_cons, ih, digitsBE_length, u8_ofNat_mod, Nat.mod_pow_succ]
    have : (2 : Nat) ^ (8 * m) = 256 ^ m := by rw [Nat.pow_mul]
    rw [this]; ring

/-! ## `big.Int.Bytes`, `big.Int.SetBytes` -/

theorem SetBytes_eq (b : Go.Bytes) : Go.BigInt.SetBytes b = ((Spec.beNat b : Nat) : Int) := rfl

theorem Bytes_toList (x : Int) :
    (Go.BigInt.Bytes x).toList = digitsBE ((Go.Big.bitLen x.natAbs + 7) / 8) x.natAbs := by
  unfold Go.BigInt.Bytes digitsBE
  simp only [Array.toList_ofFn]

theorem Bytes_size (x : Int) : (Go.BigInt.Bytes x).size = (Go.Big.bitLen x.natAbs + 7) / 8 := by
  unfold Go.BigInt.Bytes
  simp only [Array.size_ofFn]

theorem beNat_Bytes (x : Int) : Spec.beNat (Go.BigInt.Bytes x) = x.natAbs := by
  rw [beNat_eq, Bytes_toList, beL_digitsBE]
  apply Nat.mod_eq_of_lt
  have h1 := bitLen_lt x.natAbs
  have h2 : (256 : Nat) ^ ((Go.Big.bitLen x.natAbs + 7) / 8) = 2 ^ (8 * ((Go.Big.bitLen x.natAbs + 7) / 8)) := by
    rw [Nat.pow_mul]
  rw [h2]
  exact Nat.lt_of_lt_of_le h1 (Nat.pow_le_pow_right (by norm_num) (by omega))

/-- the first byte of `Bytes x` is non-zero (for `x ≠ 0`) -/
theorem Bytes_head (x : Int) (hx : x ≠ 0) :
    ∃ h t, (Go.BigInt.Bytes x).toList = h :: t ∧ h ≠ 0 := by
  have hN : x.natAbs ≠ 0 := Int.natAbs_ne_zero.mpr hx
  have hpos := bitLen_pos _ hN
  obtain ⟨m, hm⟩ : ∃ m, (Go.Big.bitLen x.natAbs + 7) / 8 = m + 1 :=
    ⟨(Go.Big.bitLen x.natAbs + 7) / 8 - 1, by omega⟩
  rw [Bytes_toList, hm, digitsBE_succ]
  refine ⟨_, _, rfl, ?_⟩
  have h1 := bitLen_lt x.natAbs
  have h2 := bitLen_ge x.natAbs hN
  have hlo : 2 ^ (8 * m) ≤ x.natAbs :=
    Nat.le_trans (Nat.pow_le_pow_right (by norm_num) (by omega)) h2
  have hhi : x.natAbs < 2 ^ (8 * m) * 256 := by
    have : (2 : Nat) ^ (8 * m) * 256 = 2 ^ (8 * m + 8) := by rw [Nat.pow_add]
    rw [this]
    exact Nat.lt_of_lt_of_le h1 (Nat.pow_le_pow_right (by norm_num) (by omega))
  have hp : 0 < 2 ^ (8 * m) := by positivity
  have hq1 : 1 ≤ x.natAbs / 2 ^ (8 * m) := (Nat.one_le_div_iff hp).2 hlo
  have hq2 : x.natAbs / 2 ^ (8 * m) < 256 := (Nat.div_lt_iff_lt_mul hp).2 (by rw [Nat.mul_comm]; exact hhi)
  intro h0
  have := congrArg UInt8.toNat h0
  rw [u8_ofNat_mod, Nat.mod_eq_of_lt hq2] at this
  simp at this
  omega

end CS
