/-
  D128/Proofs/SpecialsZero.lean — zero operands of the finite paths (property C15, targets 2, 3, 6).
  Both operands finite (not special), at least one of them a zero (any exponent, either sign).

  Core equalities (no `Spec`)
  * `add_zero_zero`, `add_zero_left`, `add_zero_right` : the three zero branches at the top of `Gen.Decimal.add`
  * `sig_words_zero`, `Mul64_zero_left/right`, `U256_or_zero`
  * `MulWithMode_zero_eq` : a zero coefficient gives a zero product, result `zero (sd != so)`
  * `QuoWithMode_zero_zero_eq`, `QuoWithMode_div_zero_eq`, `QuoWithMode_zero_div_eq`
  Against the specification (every mode byte m, every Spec.Mode m')
  * `AddWithMode_zero`, `SubWithMode_zero`, `MulWithMode_zero`, `QuoWithMode_zero`, `QuoRemWithMode_zero`
  Target 6 (no NaN from finite operands in the prologue branches, except division by zero)
  * `AddWithMode_zero_finite`, `SubWithMode_zero_finite`, `MulWithMode_zero_finite` : the result is finite
  * `QuoWithMode_zero_nan_iff` : NaN exactly for 0 ÷ 0
  * `QuoRemWithMode_zero_nan_iff` : quotient NaN exactly for 0 ÷ 0, remainder NaN exactly for x ÷ 0
-/
import D128.Proofs.Specials
import D128.Proofs.Words128
set_option autoImplicit false
set_option linter.unusedSimpArgs false
namespace Sp
local notation "𝔳[" d "]" => Spec.interp (Gen.Decimal.lo d) (Gen.Decimal.hi d)

/-! ## addition and subtraction -/

theorem add_zero_zero (d o : Gen.Decimal) (m : UInt8) (sub : Bool)
    (hd : sigz d = true) (ho : sigz o = true) :
    Gen.Decimal.add d o m sub =
      .ok (Gen.zero (Gen.Decimal.Signbit d && (if sub then !Gen.Decimal.Signbit o else Gen.Decimal.Signbit o))) := by
  unfold Gen.Decimal.add
  simp only [hd, ho, if_true]
  cases sub <;> rfl

theorem add_zero_left (d o : Gen.Decimal) (m : UInt8) (sub : Bool)
    (hd : sigz d = true) (ho : sigz o = false) :
    Gen.Decimal.add d o m sub =
      .ok (if sub then Gen.compose (!Gen.Decimal.Signbit o) (Gen.Decimal.decompose o).1 (Gen.Decimal.decompose o).2 else o) := by
  unfold Gen.Decimal.add
  simp only [hd, ho, if_true, if_false, Bool.false_eq_true]
  cases sub <;> rfl

theorem add_zero_right (d o : Gen.Decimal) (m : UInt8) (sub : Bool)
    (hd : sigz d = false) (ho : sigz o = true) :
    Gen.Decimal.add d o m sub = .ok d := by
  unfold Gen.Decimal.add
  simp only [hd, ho, if_true, if_false, Bool.false_eq_true]
  rfl

theorem interp_negated (o : Gen.Decimal) (h : Gen.Decimal.isSpecial o = false) :
    𝔳[Gen.compose (!Gen.Decimal.Signbit o) (Gen.Decimal.decompose o).1 (Gen.Decimal.decompose o).2]
      = .fin (!Gen.Decimal.Signbit o) (cf o) (ex o) :=
  interp_compose _ _ _ (Enc.decompose_sig_le o) (Enc.decompose_exp_nonneg o) (Enc.decompose_exp_le o h)

theorem AddWithMode_zero (d o : Gen.Decimal) (m : UInt8) (m' : Spec.Mode)
    (hd : Gen.Decimal.isSpecial d = false) (ho : Gen.Decimal.isSpecial o = false)
    (h : Gen.Decimal.IsZero d = true ∨ Gen.Decimal.IsZero o = true) :
    ∃ r, Gen.Decimal.AddWithMode d o m = .ok r ∧ (𝔳[r]).same (Spec.add m' 𝔳[d] 𝔳[o]) = true := by
  unfold Gen.Decimal.AddWithMode
  simp only [hd, ho, Bool.or_self, if_false, Bool.false_eq_true]
  view2
  all_goals try (exfalso; first | (rw [a3] at hd; cases hd; done) | (rw [b3] at ho; cases ho; done))
  all_goals try (exfalso; revert h; simp [a4, b4]; done)
  · rw [add_zero_zero d o m false a5 b5]
    refine ⟨_, rfl, ?_⟩
    specs2 [Spec.add, Spec.addCore, Spec.negate, Bool.and_self]
  · rw [add_zero_left d o m false a5 b5]
    refine ⟨_, rfl, ?_⟩
    specs2 [Spec.add, Spec.addCore, Spec.negate, Bool.true_and, Bool.false_and, Bool.and_true, Bool.and_false]
  · rw [add_zero_right d o m false a5 b5]
    refine ⟨_, rfl, ?_⟩
    specs2 [Spec.add, Spec.addCore, Spec.negate, Bool.true_and, Bool.false_and, Bool.and_true, Bool.and_false]

theorem SubWithMode_zero (d o : Gen.Decimal) (m : UInt8) (m' : Spec.Mode)
    (hd : Gen.Decimal.isSpecial d = false) (ho : Gen.Decimal.isSpecial o = false)
    (h : Gen.Decimal.IsZero d = true ∨ Gen.Decimal.IsZero o = true) :
    ∃ r, Gen.Decimal.SubWithMode d o m = .ok r ∧ (𝔳[r]).same (Spec.sub m' 𝔳[d] 𝔳[o]) = true := by
  unfold Gen.Decimal.SubWithMode
  simp only [hd, ho, Bool.or_self, if_false, Bool.false_eq_true]
  view2
  all_goals try (exfalso; first | (rw [a3] at hd; cases hd; done) | (rw [b3] at ho; cases ho; done))
  all_goals try (exfalso; revert h; simp [a4, b4]; done)
  · rw [add_zero_zero d o m true a5 b5]
    refine ⟨_, rfl, ?_⟩
    specs2 [Spec.sub, Spec.addCore, Spec.negate, Bool.and_self]
  · rw [add_zero_left d o m true a5 b5]
    refine ⟨_, rfl, ?_⟩
    simp only [if_true, interp_negated o b3]
    specs2 [Spec.sub, Spec.addCore, Spec.negate, Bool.true_and, Bool.false_and, Bool.and_true, Bool.and_false]
  · rw [add_zero_right d o m true a5 b5]
    refine ⟨_, rfl, ?_⟩
    specs2 [Spec.sub, Spec.addCore, Spec.negate, Bool.true_and, Bool.false_and, Bool.and_true, Bool.and_false]

/-! ## multiplication, division, QuoRem -/

theorem u64_eq_zero_of_toNat (x : UInt64) (h : x.toNat = 0) : x = 0 :=
  UInt64.toNat_inj.mp (by rw [h]; rfl)

theorem sig_words_zero (d : Gen.Decimal) (h : sigz d = true) :
    (Gen.Decimal.decompose d).1.w0 = 0 ∧ (Gen.Decimal.decompose d).1.w1 = 0 := by
  rw [sigz, or_beq_zero] at h
  have h := of_decide_eq_true h
  unfold U128.toNat at h
  exact ⟨u64_eq_zero_of_toNat _ (by omega), u64_eq_zero_of_toNat _ (by omega)⟩

theorem Mul64_zero_left (y : UInt64) : Go.bits.Mul64 0 y = (0, 0) := by
  simp [Go.bits.Mul64]
theorem Mul64_zero_right (x : UInt64) : Go.bits.Mul64 x 0 = (0, 0) := by
  simp [Go.bits.Mul64]

theorem U256_or_zero (x : U256) (h : x.toNat = 0) :
    ((((x.w0 ||| x.w1) ||| x.w2) ||| x.w3) == (0 : UInt64)) = true := by
  simp only [U256.toNat] at h
  have h0 := u64_eq_zero_of_toNat x.w0 (by omega)
  have h1 := u64_eq_zero_of_toNat x.w1 (by omega)
  have h2 := u64_eq_zero_of_toNat x.w2 (by omega)
  have h3 := u64_eq_zero_of_toNat x.w3 (by omega)
  rw [h0, h1, h2, h3]; rfl

/-- a zero coefficient gives a zero product: the finite path of `MulWithMode` returns the zero whose
    sign is the xor of the operand signs -/
theorem MulWithMode_zero_eq (d o : Gen.Decimal) (m : UInt8)
    (hd : Gen.Decimal.isSpecial d = false) (ho : Gen.Decimal.isSpecial o = false)
    (h : sigz d = true ∨ sigz o = true) :
    Gen.Decimal.MulWithMode d o m = .ok (Gen.zero (Gen.Decimal.Signbit d != Gen.Decimal.Signbit o)) := by
  unfold Gen.Decimal.MulWithMode
  simp only [hd, ho, Bool.or_self, if_false, Bool.false_eq_true]
  have hz : (Gen.U128.mul (Gen.Decimal.decompose d).1 (Gen.Decimal.decompose o).1).toNat = 0 := by
    rw [U128_mul_toNat]
    rcases h with h | h
    · have := sig_words_zero d h; simp [U128.toNat, this.1, this.2]
    · have := sig_words_zero o h; simp [U128.toNat, this.1, this.2]
  have hm : Go.bits.Mul64 (Gen.Decimal.decompose d).1.w0 (Gen.Decimal.decompose o).1.w0 = (0, 0) := by
    rcases h with h | h
    · rw [(sig_words_zero d h).1, Mul64_zero_left]
    · rw [(sig_words_zero o h).1, Mul64_zero_right]
  simp only [U256_or_zero _ hz, hm, if_true]
  split <;> rfl

theorem flush_zero (m : Spec.Mode) (neg : Bool) (k : Int) :
    Spec.flushOrRoundS m neg 0 k = .fin neg 0 0 := by
  simp [Spec.flushOrRoundS]

theorem MulWithMode_zero (d o : Gen.Decimal) (m : UInt8) (m' : Spec.Mode)
    (hd : Gen.Decimal.isSpecial d = false) (ho : Gen.Decimal.isSpecial o = false)
    (h : Gen.Decimal.IsZero d = true ∨ Gen.Decimal.IsZero o = true) :
    ∃ r, Gen.Decimal.MulWithMode d o m = .ok r ∧ (𝔳[r]).same (Spec.mul m' 𝔳[d] 𝔳[o]) = true := by
  have h' : sigz d = true ∨ sigz o = true := by rwa [sigz_eq, sigz_eq]
  refine ⟨_, MulWithMode_zero_eq d o m hd ho h', ?_⟩
  view2
  all_goals try (exfalso; first | (rw [a3] at hd; cases hd; done) | (rw [b3] at ho; cases ho; done))
  all_goals try (exfalso; revert h; simp [a4, b4]; done)
  all_goals (
    simp only [av, bv, Spec.mul, Enc.interp_zero, Nat.zero_mul, Nat.mul_zero, Nat.cast_zero, flush_zero, same_zero])

theorem QuoWithMode_zero (d o : Gen.Decimal) (m : UInt8) (m' : Spec.Mode)
    (hd : Gen.Decimal.isSpecial d = false) (ho : Gen.Decimal.isSpecial o = false)
    (h : Gen.Decimal.IsZero d = true ∨ Gen.Decimal.IsZero o = true) :
    ∃ r, Gen.Decimal.QuoWithMode d o m = .ok r ∧ (𝔳[r]).same (Spec.quo m' 𝔳[d] 𝔳[o]) = true := by
  unfold Gen.Decimal.QuoWithMode
  simp only [hd, ho, Bool.or_self, if_false, Bool.false_eq_true]
  view2
  all_goals try (exfalso; first | (rw [a3] at hd; cases hd; done) | (rw [b3] at ho; cases ho; done))
  all_goals try (exfalso; revert h; simp [a4, b4]; done)
  all_goals tests2
  all_goals (signs2 <;> refine ⟨_, rfl, ?_⟩ <;> specs2 [Spec.quo, Nat.cast_zero, zero_div, flush_zero])

theorem QuoRemWithMode_zero (d o : Gen.Decimal) (m : UInt8) (m' : Spec.Mode)
    (hd : Gen.Decimal.isSpecial d = false) (ho : Gen.Decimal.isSpecial o = false)
    (h : Gen.Decimal.IsZero d = true ∨ Gen.Decimal.IsZero o = true) :
    ∃ q r, Gen.Decimal.QuoRemWithMode d o m = .ok (q, r) ∧
      (𝔳[q]).same (Spec.quoRem m' 𝔳[d] 𝔳[o]).1 = true ∧
      (𝔳[r]).same (Spec.quoRem m' 𝔳[d] 𝔳[o]).2 = true := by
  unfold Gen.Decimal.QuoRemWithMode
  simp only [hd, ho, Bool.or_self, if_false, Bool.false_eq_true]
  view2
  all_goals try (exfalso; first | (rw [a3] at hd; cases hd; done) | (rw [b3] at ho; cases ho; done))
  all_goals try (exfalso; revert h; simp [a4, b4]; done)
  all_goals tests2
  all_goals (signs2 <;> refine ⟨_, _, rfl, ?_, ?_⟩ <;> specs2 [Spec.quoRem])

/-! ## explicit results of `QuoWithMode` on zero operands -/

theorem QuoWithMode_zero_zero_eq (d o : Gen.Decimal) (m : UInt8)
    (hd : Gen.Decimal.isSpecial d = false) (ho : Gen.Decimal.isSpecial o = false)
    (zd : Gen.Decimal.IsZero d = true) (zo : Gen.Decimal.IsZero o = true) :
    Gen.Decimal.QuoWithMode d o m = .ok (Gen.nan 16 (if Gen.Decimal.Signbit d then 2 else 1)
      (if Gen.Decimal.Signbit o then 2 else 1)) := by
  unfold Gen.Decimal.QuoWithMode
  have a5 : sigz d = true := by rw [sigz_eq, zd]
  have b5 : sigz o = true := by rw [sigz_eq, zo]
  simp only [hd, ho, a5, b5, Bool.or_self, if_false, if_true, Bool.false_eq_true]
  cases Gen.Decimal.Signbit d <;> cases Gen.Decimal.Signbit o <;> rfl

theorem QuoWithMode_div_zero_eq (d o : Gen.Decimal) (m : UInt8)
    (hd : Gen.Decimal.isSpecial d = false) (ho : Gen.Decimal.isSpecial o = false)
    (zd : Gen.Decimal.IsZero d = false) (zo : Gen.Decimal.IsZero o = true) :
    Gen.Decimal.QuoWithMode d o m = .ok (Gen.inf (Gen.Decimal.Signbit d != Gen.Decimal.Signbit o)) := by
  unfold Gen.Decimal.QuoWithMode
  have a5 : sigz d = false := by rw [sigz_eq, zd]
  have b5 : sigz o = true := by rw [sigz_eq, zo]
  simp only [hd, ho, a5, b5, Bool.or_self, if_false, if_true, Bool.false_eq_true]
  rfl

theorem QuoWithMode_zero_div_eq (d o : Gen.Decimal) (m : UInt8)
    (hd : Gen.Decimal.isSpecial d = false) (ho : Gen.Decimal.isSpecial o = false)
    (zd : Gen.Decimal.IsZero d = true) (zo : Gen.Decimal.IsZero o = false) :
    Gen.Decimal.QuoWithMode d o m = .ok (Gen.zero (Gen.Decimal.Signbit d != Gen.Decimal.Signbit o)) := by
  unfold Gen.Decimal.QuoWithMode
  have a5 : sigz d = true := by rw [sigz_eq, zd]
  have b5 : sigz o = false := by rw [sigz_eq, zo]
  simp only [hd, ho, a5, b5, Bool.or_self, if_false, if_true, Bool.false_eq_true]
  rfl

/-! ## Target 6: no NaN from finite operands in the prologue branches, except division by zero -/

theorem isSpecial_false_of_zero (neg : Bool) : Gen.Decimal.isSpecial (Gen.zero neg) = false :=
  Enc.isSpecial_zero neg

theorem IsNaN_of_not_special (d : Gen.Decimal) (h : Gen.Decimal.isSpecial d = false) :
    Gen.Decimal.IsNaN d = false := by
  have := Enc.isSpecial_iff d
  rw [h] at this
  cases hn : Gen.Decimal.IsNaN d
  · rfl
  · rw [hn] at this; cases this

theorem AddWithMode_zero_finite (d o : Gen.Decimal) (m : UInt8)
    (hd : Gen.Decimal.isSpecial d = false) (ho : Gen.Decimal.isSpecial o = false)
    (h : Gen.Decimal.IsZero d = true ∨ Gen.Decimal.IsZero o = true) :
    ∃ r, Gen.Decimal.AddWithMode d o m = .ok r ∧ Gen.Decimal.isSpecial r = false := by
  unfold Gen.Decimal.AddWithMode
  simp only [hd, ho, Bool.or_self, if_false, Bool.false_eq_true]
  cases zd : Gen.Decimal.IsZero d <;> cases zo : Gen.Decimal.IsZero o
  · exfalso; revert h; simp [zd, zo]
  · rw [add_zero_right d o m false (by rw [sigz_eq, zd]) (by rw [sigz_eq, zo])]
    exact ⟨_, rfl, hd⟩
  · rw [add_zero_left d o m false (by rw [sigz_eq, zd]) (by rw [sigz_eq, zo])]
    exact ⟨_, rfl, ho⟩
  · rw [add_zero_zero d o m false (by rw [sigz_eq, zd]) (by rw [sigz_eq, zo])]
    exact ⟨_, rfl, Enc.isSpecial_zero _⟩

theorem SubWithMode_zero_finite (d o : Gen.Decimal) (m : UInt8)
    (hd : Gen.Decimal.isSpecial d = false) (ho : Gen.Decimal.isSpecial o = false)
    (h : Gen.Decimal.IsZero d = true ∨ Gen.Decimal.IsZero o = true) :
    ∃ r, Gen.Decimal.SubWithMode d o m = .ok r ∧ Gen.Decimal.isSpecial r = false := by
  unfold Gen.Decimal.SubWithMode
  simp only [hd, ho, Bool.or_self, if_false, Bool.false_eq_true]
  cases zd : Gen.Decimal.IsZero d <;> cases zo : Gen.Decimal.IsZero o
  · exfalso; revert h; simp [zd, zo]
  · rw [add_zero_right d o m true (by rw [sigz_eq, zd]) (by rw [sigz_eq, zo])]
    exact ⟨_, rfl, hd⟩
  · rw [add_zero_left d o m true (by rw [sigz_eq, zd]) (by rw [sigz_eq, zo])]
    exact ⟨_, rfl, Enc.isSpecial_compose _ _ _ (Enc.decompose_sig_le o) (Enc.decompose_exp_nonneg o)
      (Enc.decompose_exp_le o ho)⟩
  · rw [add_zero_zero d o m true (by rw [sigz_eq, zd]) (by rw [sigz_eq, zo])]
    exact ⟨_, rfl, Enc.isSpecial_zero _⟩

theorem MulWithMode_zero_finite (d o : Gen.Decimal) (m : UInt8)
    (hd : Gen.Decimal.isSpecial d = false) (ho : Gen.Decimal.isSpecial o = false)
    (h : Gen.Decimal.IsZero d = true ∨ Gen.Decimal.IsZero o = true) :
    ∃ r, Gen.Decimal.MulWithMode d o m = .ok r ∧ Gen.Decimal.isSpecial r = false :=
  ⟨_, MulWithMode_zero_eq d o m hd ho (by rwa [sigz_eq, sigz_eq]), Enc.isSpecial_zero _⟩

/-- with finite operands of which one is zero, `QuoWithMode` returns a NaN exactly for 0 ÷ 0 -/
theorem QuoWithMode_zero_nan_iff (d o : Gen.Decimal) (m : UInt8)
    (hd : Gen.Decimal.isSpecial d = false) (ho : Gen.Decimal.isSpecial o = false)
    (h : Gen.Decimal.IsZero d = true ∨ Gen.Decimal.IsZero o = true) :
    ∃ r, Gen.Decimal.QuoWithMode d o m = .ok r ∧
      (Gen.Decimal.IsNaN r = true ↔ Gen.Decimal.IsZero d = true ∧ Gen.Decimal.IsZero o = true) := by
  cases zd : Gen.Decimal.IsZero d <;> cases zo : Gen.Decimal.IsZero o
  · exfalso; revert h; simp [zd, zo]
  · exact ⟨_, QuoWithMode_div_zero_eq d o m hd ho zd zo, by simp [Enc.IsNaN_inf]⟩
  · exact ⟨_, QuoWithMode_zero_div_eq d o m hd ho zd zo,
      by simp [IsNaN_of_not_special _ (Enc.isSpecial_zero _)]⟩
  · exact ⟨_, QuoWithMode_zero_zero_eq d o m hd ho zd zo, by simp [Enc.IsNaN_nan]⟩

/-- `QuoRemWithMode` on finite operands of which one is zero: the quotient is a NaN exactly for 0 ÷ 0, the
    remainder exactly when the divisor is zero -/
theorem QuoRemWithMode_zero_nan_iff (d o : Gen.Decimal) (m : UInt8)
    (hd : Gen.Decimal.isSpecial d = false) (ho : Gen.Decimal.isSpecial o = false)
    (h : Gen.Decimal.IsZero d = true ∨ Gen.Decimal.IsZero o = true) :
    ∃ q r, Gen.Decimal.QuoRemWithMode d o m = .ok (q, r) ∧
      (Gen.Decimal.IsNaN q = true ↔ Gen.Decimal.IsZero d = true ∧ Gen.Decimal.IsZero o = true) ∧
      (Gen.Decimal.IsNaN r = true ↔ Gen.Decimal.IsZero o = true) := by
  unfold Gen.Decimal.QuoRemWithMode
  simp only [hd, ho, Bool.or_self, if_false, Bool.false_eq_true]
  cases zd : Gen.Decimal.IsZero d <;> cases zo : Gen.Decimal.IsZero o
  · exfalso; revert h; simp [zd, zo]
  all_goals (
    have a5 : sigz d = Gen.Decimal.IsZero d := sigz_eq d
    have b5 : sigz o = Gen.Decimal.IsZero o := sigz_eq o
    rw [zd] at a5; rw [zo] at b5
    simp only [a5, b5, if_true, if_false, Bool.false_eq_true]
    cases Gen.Decimal.Signbit d <;> cases Gen.Decimal.Signbit o <;>
    (try simp only [if_true, if_false, Bool.false_eq_true]) <;>
    refine ⟨_, _, rfl, ?_, ?_⟩ <;>
    simp [Enc.IsNaN_nan, Enc.IsNaN_inf, IsNaN_of_not_special _ (Enc.isSpecial_zero _)])

end Sp
