/-
  D128/Proofs/RoundKernelReduceCode.lean — code-level normal form of the generated
  `Gen.RoundingMode.reduce128` (Go: /repo/rounding.go) and generic invariant rules for its loops.

  Provided (namespace `RK`):
  * `loop_inv`           : invariant/variant rule for `while` loops in `Go.GoM` (total correctness)
  * `dropLoop`, `subLoop`, `upLoop`, `reduceTail`, `ladder128`, `reduce128_eq` :
      `Gen.RoundingMode.reduce128 rm neg sig exp trunc = ladder128 (reduceTail rm neg) sig exp trunc`
  * `ladder128_spec`     : the first ladder drops 0, 2, 3 or 4 digits
  * `dropLoop_inv`, `subLoop_inv`, `upLoop_inv` : invariant rules for the three loops on the
      abstract state `(sig.toNat, digit.toNat, trunc.toInt, exp.toInt)`
-/
import D128.Proofs.RoundKernelRound

set_option autoImplicit false
set_option maxRecDepth 4096
set_option linter.unusedVariables false

namespace RK
open Gen

/-- invariant rule for a `while` loop: `Inv` is preserved by every continuing pass, the variant `μ`
    decreases, and a finishing pass establishes `Post` -/
theorem loop_inv {β : Type} (f : Unit → β → Go.GoM (ForInStep β)) (Inv Post : β → Prop) (μ : β → Nat)
    (step : ∀ b, Inv b →
      (∃ b', f () b = .ok (.yield b') ∧ Inv b' ∧ μ b' < μ b) ∨ (∃ b', f () b = .ok (.done b') ∧ Post b'))
    (b : β) (hb : Inv b) : ∃ b', forIn (m := Go.GoM) Lean.Loop.mk b f = .ok b' ∧ Post b' := by
  induction hn : μ b using Nat.strongRecOn generalizing b with
  | _ n ih =>
    rw [Go.loop_unfold]
    rcases step b hb with ⟨b', e, hi, hlt⟩ | ⟨b', e, hp⟩
    · rw [e]
      exact ih (μ b') (by omega) b' hi rfl
    · rw [e]
      exact ⟨b', rfl, hp⟩

abbrev TSt := U128 × Int16 × Int8 × UInt64

/-- body of loop B -/
def dropBody (_ : Unit) (s : TSt) : Go.GoM (ForInStep TSt) :=
  if decide (s.1.w1 > 703687441776639) = true then
    if (s.2.2.2 != 0) = true then do
      let x ← Gen.U128.div10 s.1
      pure (ForInStep.yield (x.1, s.2.1 + 1, 1, x.2))
    else do
      let x ← Gen.U128.div10 s.1
      pure (ForInStep.yield (x.1, s.2.1 + 1, s.2.2.1, x.2))
  else pure (ForInStep.done (s.1, s.2.1, s.2.2.1, s.2.2.2))

/-- loop B: drop digits while the significand exceeds `Cmax` -/
def dropLoop (st : TSt) : Go.GoM TSt := forIn Lean.Loop.mk st dropBody

/-- body of loop C -/
def subBody (_ : Unit) (s : TSt) : Go.GoM (ForInStep TSt) :=
  if decide (s.2.1 < 0) = true then
    if (s.2.2.2 != 0) = true then do
      let x ← Gen.U128.div10 s.1
      if (x.1.w0 ||| x.1.w1 ||| x.2 == 0) = true then pure (ForInStep.done (x.1, 0, 0, 0))
      else pure (ForInStep.yield (x.1, s.2.1 + 1, 1, x.2))
    else do
      let x ← Gen.U128.div10 s.1
      if (x.1.w0 ||| x.1.w1 ||| x.2 == 0) = true then pure (ForInStep.done (x.1, 0, 0, 0))
      else pure (ForInStep.yield (x.1, s.2.1 + 1, s.2.2.1, x.2))
  else pure (ForInStep.done (s.1, s.2.1, s.2.2.1, s.2.2.2))

/-- loop C: drop digits while the exponent is below the smallest one; flush when nothing is left -/
def subLoop (st : TSt) : Go.GoM TSt := forIn Lean.Loop.mk st subBody

/-- body of loop D -/
def upBody (_ : Unit) (s : U128 × Int16) : Go.GoM (ForInStep (U128 × Int16)) :=
  if (decide (s.2 > 12287) && decide (s.1.w1 < 703687441776639)) = true then
    if decide ((Gen.U128.mul64 s.1 10).w1 ≤ 703687441776639) = true then
      pure (ForInStep.yield (Gen.U128.mul64 s.1 10, s.2 - 1))
    else pure (ForInStep.done (s.1, s.2))
  else pure (ForInStep.done (s.1, s.2))

/-- loop D: take zeros back while the exponent is above the largest one -/
def upLoop (st : U128 × Int16) : Go.GoM (U128 × Int16) := forIn Lean.Loop.mk st upBody

/-- the common tail of `reduce128/192/256` -/
def reduceTail (rm : UInt8) (neg : Bool) (sig : U128) (exp : Int16) (trunc : Int8) (digit : UInt64) :
    Go.GoM (U128 × Int16) := do
  let s ← dropLoop (sig, exp, trunc, digit)
  let s ← subLoop (s.1, s.2.1, s.2.2.1, s.2.2.2)
  let s1 ← upLoop (s.1, s.2.1)
  RoundingMode.round rm true neg s1.1 s1.2 s.2.2.1 s.2.2.2

/-- the first digit-dropping ladder of `reduce128` in continuation-passing form -/
def ladder128 {α : Type} (k : U128 → Int16 → Int8 → UInt64 → Go.GoM α) (sig : U128) (exp : Int16)
    (trunc : Int8) : Go.GoM α :=
  if decide (sig.w1 > 703687441776640000) = true then do
    let x ← Gen.U128.div10000 sig
    if (x.2 != 0) = true then
      if (x.2 % 1000 != 0) = true then k x.1 (exp + 4) 1 (x.2 / 1000)
      else k x.1 (exp + 4) trunc (x.2 / 1000)
    else k x.1 (exp + 4) trunc 0
  else if decide (sig.w1 > 70368744177664000) = true then do
    let x ← Gen.U128.div1000 sig
    if (x.2 != 0) = true then
      if (x.2 % 100 != 0) = true then k x.1 (exp + 3) 1 (x.2 / 100)
      else k x.1 (exp + 3) trunc (x.2 / 100)
    else k x.1 (exp + 3) trunc 0
  else if decide (sig.w1 > 7036874417766400) = true then do
    let x ← Gen.U128.div100 sig
    if (x.2 != 0) = true then
      if (x.2 % 10 != 0) = true then k x.1 (exp + 2) 1 (x.2 / 10)
      else k x.1 (exp + 2) trunc (x.2 / 10)
    else k x.1 (exp + 2) trunc 0
  else k sig exp trunc 0

theorem reduce128_eq (rm : UInt8) (neg : Bool) (sig : U128) (exp : Int16) (trunc : Int8) :
    RoundingMode.reduce128 rm neg sig exp trunc = ladder128 (reduceTail rm neg) sig exp trunc := by
  unfold RoundingMode.reduce128 ladder128 reduceTail dropLoop subLoop upLoop dropBody subBody upBody
  zeta_except_jp
  simp only []

/-! ## invariant rules for the three loops -/

theorem u64_ne_zero_iff (d : UInt64) : (d != 0) = decide (d.toNat ≠ 0) := by
  rw [Bool.eq_iff_iff, bne_iff_ne, decide_eq_true_eq, ne_eq, ne_eq, ← UInt64.toNat_inj]
  rfl

/-- loop B (`for sig[1] > 0x0002_7fff_ffff_ffff`) -/
theorem dropLoop_inv (P : Nat → Nat → Int → Int → Prop)
    (hstep : ∀ s d t e, P s d t e → Spec.Cmax < s →
      P (s / 10) (s % 10) (if d ≠ 0 then 1 else t) (e + 1) ∧ e < 32766)
    (st : TSt) (hP : P st.1.toNat st.2.2.2.toNat st.2.2.1.toInt st.2.1.toInt) :
    ∃ st', dropLoop st = .ok st' ∧
      P st'.1.toNat st'.2.2.2.toNat st'.2.2.1.toInt st'.2.1.toInt ∧ st'.1.toNat ≤ Spec.Cmax := by
  unfold dropLoop
  apply loop_inv dropBody (fun st : TSt => P st.1.toNat st.2.2.2.toNat st.2.2.1.toInt st.2.1.toInt)
    (fun st : TSt => P st.1.toNat st.2.2.2.toNat st.2.2.1.toInt st.2.1.toInt ∧
      st.1.toNat ≤ Spec.Cmax) (fun st : TSt => st.1.toNat) _ st hP
  intro b hb
  have hCm := Cmax_val
  by_cases hc : decide (b.1.w1 > 703687441776639) = true
  · left
    have hgt : Spec.Cmax < b.1.toNat := by
      rw [U128_w1_gt_iff] at hc
      simp only [decide_eq_true_eq] at hc
      omega
    obtain ⟨hP', hlt⟩ := hstep _ _ _ _ hb hgt
    obtain ⟨q, r, e, hq, hr⟩ := U128_div10_spec b.1
    have hexp : (b.2.1 + 1).toInt = b.2.1.toInt + 1 := by
      have := b.2.1.le_toInt
      rw [Int16.toInt_add_of] <;> simp <;> omega
    refine ⟨(q, b.2.1 + 1, (if (b.2.2.2 != 0) = true then 1 else b.2.2.1), r), ?_, ?_, ?_⟩
    · simp only [dropBody, hc, if_true]
      by_cases hd : (b.2.2.2 != 0) = true
      · simp only [hd, if_true, e, ok_bind]; rfl
      · simp only [hd, e, ok_bind]; rfl
    · show P q.toNat r.toNat (if (b.2.2.2 != 0) = true then (1 : Int8) else b.2.2.1).toInt
        (b.2.1 + 1).toInt
      rw [hq, hr, hexp]
      have : (if (b.2.2.2 != 0) = true then (1 : Int8) else b.2.2.1).toInt
          = if b.2.2.2.toNat ≠ 0 then 1 else b.2.2.1.toInt := by
        rw [u64_ne_zero_iff]
        by_cases h0 : b.2.2.2.toNat ≠ 0
        · simp only [h0, decide_true, if_true, ne_eq, not_false_eq_true]; rfl
        · simp only [h0, decide_false, Bool.false_eq_true, if_false]
      rw [this]
      exact hP'
    · show q.toNat < b.1.toNat
      rw [hq]; omega
  · right
    refine ⟨(b.1, b.2.1, b.2.2.1, b.2.2.2), ?_, hb, ?_⟩
    · simp only [dropBody, hc]; rfl
    · rw [U128_w1_gt_iff] at hc
      simp only [decide_eq_true_eq] at hc
      show b.1.toNat ≤ Spec.Cmax
      omega

theorem i16_lt_zero (e : Int16) : decide (e < 0) = decide (e.toInt < 0) := by
  apply decide_eq_decide.2
  rw [Int16.lt_iff_toInt_lt]; simp

theorem or3_eq_zero (n : U128) (d : UInt64) :
    (n.w0 ||| n.w1 ||| d == 0) = decide (n.toNat = 0 ∧ d.toNat = 0) := by
  have h0 := n.w0.toNat_lt
  rw [Bool.eq_iff_iff, beq_iff_eq, decide_eq_true_eq, UInt64.or_eq_zero_iff, UInt64.or_eq_zero_iff,
    ← UInt64.toNat_inj, ← UInt64.toNat_inj, ← UInt64.toNat_inj]
  simp only [UInt64.toNat_zero, U128.toNat]
  omega

/-- loop C (`for exp < minBiasedExponent`): either the value is flushed to zero (the significand
    had run out below the smallest exponent), or the invariant holds at a non-negative exponent -/
theorem subLoop_inv (P : Nat → Nat → Int → Int → Prop)
    (hstep : ∀ s d t e, P s d t e → e < 0 → ¬ (s / 10 = 0 ∧ s % 10 = 0) →
      P (s / 10) (s % 10) (if d ≠ 0 then 1 else t) (e + 1))
    (st : TSt) (hP : P st.1.toNat st.2.2.2.toNat st.2.2.1.toInt st.2.1.toInt) :
    ∃ st', subLoop st = .ok st' ∧
      ((st'.1.toNat = 0 ∧ st'.2.1 = 0 ∧ st'.2.2.1 = 0 ∧ st'.2.2.2 = 0 ∧
          ∃ d t e, P 0 d t e ∧ e < 0) ∨
       (P st'.1.toNat st'.2.2.2.toNat st'.2.2.1.toInt st'.2.1.toInt ∧ 0 ≤ st'.2.1.toInt)) := by
  unfold subLoop
  apply loop_inv subBody (fun st : TSt => P st.1.toNat st.2.2.2.toNat st.2.2.1.toInt st.2.1.toInt)
    (fun st' : TSt => (st'.1.toNat = 0 ∧ st'.2.1 = 0 ∧ st'.2.2.1 = 0 ∧ st'.2.2.2 = 0 ∧
          ∃ d t e, P 0 d t e ∧ e < 0) ∨
       (P st'.1.toNat st'.2.2.2.toNat st'.2.2.1.toInt st'.2.1.toInt ∧ 0 ≤ st'.2.1.toInt))
    (fun st : TSt => (-st.2.1.toInt).toNat) _ st hP
  intro b hb
  by_cases hc : decide (b.2.1 < 0) = true
  · have hneg : b.2.1.toInt < 0 := by
      rw [i16_lt_zero] at hc; simpa using hc
    obtain ⟨q, r, e, hq, hr⟩ := U128_div10_spec b.1
    have hexp : (b.2.1 + 1).toInt = b.2.1.toInt + 1 := by
      have := b.2.1.le_toInt
      rw [Int16.toInt_add_of] <;> simp <;> omega
    by_cases hf : (q.w0 ||| q.w1 ||| r == 0) = true
    · right
      have hf' := hf
      rw [or3_eq_zero, decide_eq_true_eq, hq, hr] at hf'
      refine ⟨(q, 0, 0, 0), ?_, Or.inl ⟨?_, rfl, rfl, rfl, b.2.2.2.toNat, b.2.2.1.toInt, b.2.1.toInt, ?_, hneg⟩⟩
      · simp only [subBody, hc, if_true]
        by_cases hd : (b.2.2.2 != 0) = true
        · simp only [hd, if_true, e, ok_bind, hf]; rfl
        · simp only [hd, e, ok_bind, hf, if_true]; rfl
      · show q.toNat = 0
        rw [hq]; exact hf'.1
      · have : b.1.toNat = 0 := by omega
        rw [← this]; exact hb
    · left
      have hf' : ¬ (b.1.toNat / 10 = 0 ∧ b.1.toNat % 10 = 0) := by
        rw [or3_eq_zero, decide_eq_true_eq, hq, hr] at hf; exact hf
      refine ⟨(q, b.2.1 + 1, (if (b.2.2.2 != 0) = true then 1 else b.2.2.1), r), ?_, ?_, ?_⟩
      · simp only [subBody, hc, if_true]
        by_cases hd : (b.2.2.2 != 0) = true
        · simp only [hd, if_true, e, ok_bind, hf]; rfl
        · simp only [hd, e, ok_bind, hf]; rfl
      · show P q.toNat r.toNat (if (b.2.2.2 != 0) = true then (1 : Int8) else b.2.2.1).toInt
          (b.2.1 + 1).toInt
        rw [hq, hr, hexp]
        have : (if (b.2.2.2 != 0) = true then (1 : Int8) else b.2.2.1).toInt
            = if b.2.2.2.toNat ≠ 0 then 1 else b.2.2.1.toInt := by
          rw [u64_ne_zero_iff]
          by_cases h0 : b.2.2.2.toNat ≠ 0
          · simp only [h0, decide_true, if_true, ne_eq, not_false_eq_true]; rfl
          · simp only [h0, decide_false, Bool.false_eq_true, if_false]
        rw [this]
        exact hstep _ _ _ _ hb hneg hf'
      · show (-(b.2.1 + 1).toInt).toNat < (-b.2.1.toInt).toNat
        rw [hexp]; omega
  · right
    have hnn : 0 ≤ b.2.1.toInt := by
      rw [i16_lt_zero] at hc; simpa using hc
    refine ⟨(b.1, b.2.1, b.2.2.1, b.2.2.2), ?_, Or.inr ⟨hb, hnn⟩⟩
    simp only [subBody, hc]; rfl

theorem i16_gt_12287 (e : Int16) : decide (e > 12287) = decide (12287 < e.toInt) := by
  apply decide_eq_decide.2
  rw [gt_iff_lt, Int16.lt_iff_toInt_lt]; simp

/-- loop D (`for exp > maxBiasedExponent && sig[1] < 0x0002_7fff_ffff_ffff`) -/
theorem upLoop_inv (P : Nat → Int → Prop)
    (hstep : ∀ s e, P s e → 12287 < e → 10 * s ≤ Spec.Cmax → P (10 * s) (e - 1))
    (st : U128 × Int16) (hP : P st.1.toNat st.2.toInt) :
    ∃ st', upLoop st = .ok st' ∧ P st'.1.toNat st'.2.toInt ∧
      (st'.2.toInt ≤ 12287 ∨ 2 ^ 110 ≤ st'.1.toNat) := by
  unfold upLoop
  apply loop_inv upBody (fun st : U128 × Int16 => P st.1.toNat st.2.toInt)
    (fun st' : U128 × Int16 => P st'.1.toNat st'.2.toInt ∧
      (st'.2.toInt ≤ 12287 ∨ 2 ^ 110 ≤ st'.1.toNat))
    (fun st : U128 × Int16 => st.2.toInt.toNat) _ st hP
  intro b hb
  have hCm := Cmax_val
  have hw0 := b.1.w0.toNat_lt
  by_cases hc : (decide (b.2 > 12287) && decide (b.1.w1 < 703687441776639)) = true
  · have hc' := hc
    rw [Bool.and_eq_true, i16_gt_12287, decide_eq_true_eq, decide_eq_true_eq,
      UInt64.lt_iff_toNat_lt] at hc'
    obtain ⟨hgt, hw1⟩ := hc'
    have hw1' : b.1.w1.toNat < 703687441776639 := hw1
    have hsm : b.1.toNat * (10 : UInt64).toNat < 2 ^ 128 := by
      have : (10 : UInt64).toNat = 10 := rfl
      rw [this]; simp only [U128.toNat]; omega
    have hmul : (Gen.U128.mul64 b.1 10).toNat = 10 * b.1.toNat := by
      rw [U128_mul64_toNat_of_lt _ _ hsm]
      have : (10 : UInt64).toNat = 10 := rfl
      rw [this]; omega
    by_cases hi : decide ((Gen.U128.mul64 b.1 10).w1 ≤ 703687441776639) = true
    · left
      have hle : 10 * b.1.toNat ≤ Spec.Cmax := by
        rw [decide_eq_true_eq, UInt64.le_iff_toNat_le, U128_w1_toNat, hmul] at hi
        have hi' : 10 * b.1.toNat / 2 ^ 64 ≤ 703687441776639 := hi
        omega
      have hexp : (b.2 - 1).toInt = b.2.toInt - 1 := by
        have := b.2.toInt_lt
        rw [Int16.toInt_sub_of] <;> simp <;> omega
      refine ⟨(Gen.U128.mul64 b.1 10, b.2 - 1), ?_, ?_, ?_⟩
      · simp only [upBody, hc, hi, if_true]; rfl
      · show P (Gen.U128.mul64 b.1 10).toNat (b.2 - 1).toInt
        rw [hmul, hexp]; exact hstep _ _ hb hgt hle
      · show (b.2 - 1).toInt.toNat < b.2.toInt.toNat
        rw [hexp]; omega
    · right
      refine ⟨(b.1, b.2), ?_, hb, Or.inr ?_⟩
      · simp only [upBody, hc, hi, if_true]; rfl
      · rw [decide_eq_true_eq, UInt64.le_iff_toNat_le, U128_w1_toNat, hmul] at hi
        have hi' : ¬ 10 * b.1.toNat / 2 ^ 64 ≤ 703687441776639 := hi
        show 2 ^ 110 ≤ b.1.toNat
        omega
  · right
    refine ⟨(b.1, b.2), ?_, hb, ?_⟩
    · simp only [upBody, hc]; rfl
    · rw [Bool.and_eq_true, i16_gt_12287, decide_eq_true_eq, decide_eq_true_eq,
        UInt64.lt_iff_toNat_lt, not_and_or] at hc
      rcases hc with h | h
      · left; show b.2.toInt ≤ 12287; omega
      · right
        have h' : ¬ b.1.w1.toNat < 703687441776639 := h
        show 2 ^ 110 ≤ b.1.toNat
        simp only [U128.toNat]; omega

/-! ## the first ladder -/

/-- what the first ladder does to `(N, T, E)`: nothing (then `N` is below `≈ 100·2^110`), or it drops
    `p ∈ {2,3,4}` digits at once: quotient, leading dropped digit as guard digit, sticky from the rest -/
def LadderRel (N : Nat) (T E : Int) (s d : Nat) (t e : Int) : Prop :=
  (s = N ∧ d = 0 ∧ t = T ∧ e = E ∧ N < 100 * 2 ^ 110 + 2 ^ 64) ∨
  (∃ p : Nat, 2 ≤ p ∧ p ≤ 4 ∧ 10 ^ p * 2 ^ 110 ≤ N ∧ s = N / 10 ^ p ∧
     d = N % 10 ^ p / 10 ^ (p - 1) ∧
     t = (if N % 10 ^ (p - 1) ≠ 0 then 1 else T) ∧ e = E + (p : Int))

theorem ladder_branch {α : Type} (k : U128 → Int16 → Int8 → UInt64 → Go.GoM α) (q : U128)
    (r : UInt64) (e' : Int16) (trunc : Int8) (c : UInt64) :
    (if (r != 0) = true then
        if (r % c != 0) = true then k q e' 1 (r / c) else k q e' trunc (r / c)
      else k q e' trunc 0)
      = k q e' (if (r % c != 0) = true then 1 else trunc) (r / c) := by
  by_cases h0 : r = 0
  · subst h0; simp
  · have : (r != 0) = true := by simpa using h0
    rw [if_pos this]
    split <;> rfl

theorem ladder128_spec (sig : U128) (exp : Int16) (trunc : Int8)
    (he0 : -32000 ≤ exp.toInt) (he1 : exp.toInt ≤ 32000) :
    ∃ s' e' t' d', (∀ {α : Type} (k : U128 → Int16 → Int8 → UInt64 → Go.GoM α),
        ladder128 k sig exp trunc = k s' e' t' d') ∧
      LadderRel sig.toNat trunc.toInt exp.toInt s'.toNat d'.toNat t'.toInt e'.toInt := by
  have hw0 := sig.w0.toNat_lt
  have hadd : ∀ n : Int16, 0 ≤ n.toInt → n.toInt ≤ 4 → (exp + n).toInt = exp.toInt + n.toInt := by
    intro n h0 h1
    rw [Int16.toInt_add_of] <;> omega
  have htr : ∀ (r c : UInt64), (if (r % c != 0) = true then (1 : Int8) else trunc).toInt
      = if r.toNat % c.toNat ≠ 0 then 1 else trunc.toInt := by
    intro r c
    rw [u64_ne_zero_iff, UInt64.toNat_mod]
    by_cases h : r.toNat % c.toNat ≠ 0
    · simp only [h, decide_true, if_true, ne_eq, not_false_eq_true]; rfl
    · simp only [h, decide_false, Bool.false_eq_true, if_false]
  unfold ladder128
  by_cases h4 : decide (sig.w1 > 703687441776640000) = true
  · obtain ⟨q, r, e, hq, hr⟩ := U128_div10000_spec sig
    refine ⟨q, exp + 4, (if (r % 1000 != 0) = true then 1 else trunc), r / 1000, ?_, Or.inr ⟨4, ?_⟩⟩
    · intro α k
      simp only [h4, if_true, e, ok_bind]
      exact ladder_branch k q r (exp + 4) trunc 1000
    · rw [decide_eq_true_eq, gt_iff_lt, UInt64.lt_iff_toNat_lt] at h4
      have h4' : 703687441776640000 < sig.w1.toNat := h4
      refine ⟨by omega, by omega, ?_, hq, ?_, ?_, ?_⟩
      · simp only [U128.toNat]; omega
      · rw [UInt64.toNat_div, hr]; rfl
      · rw [htr, hr]
        have : sig.toNat % 10000 % (1000 : UInt64).toNat = sig.toNat % 10 ^ (4 - 1) := by
          have : (1000 : UInt64).toNat = 1000 := rfl
          rw [this]; norm_num
        rw [this]
      · rw [hadd 4 (by decide) (by decide)]; rfl
  · by_cases h3 : decide (sig.w1 > 70368744177664000) = true
    · obtain ⟨q, r, e, hq, hr⟩ := U128_div1000_spec sig
      refine ⟨q, exp + 3, (if (r % 100 != 0) = true then 1 else trunc), r / 100, ?_, Or.inr ⟨3, ?_⟩⟩
      · intro α k
        simp only [h4, h3, if_true, e, ok_bind]
        exact ladder_branch k q r (exp + 3) trunc 100
      · rw [decide_eq_true_eq, gt_iff_lt, UInt64.lt_iff_toNat_lt] at h3
        have h3' : 70368744177664000 < sig.w1.toNat := h3
        refine ⟨by omega, by omega, ?_, hq, ?_, ?_, ?_⟩
        · simp only [U128.toNat]; omega
        · rw [UInt64.toNat_div, hr]; rfl
        · rw [htr, hr]
          have : sig.toNat % 1000 % (100 : UInt64).toNat = sig.toNat % 10 ^ (3 - 1) := by
            have : (100 : UInt64).toNat = 100 := rfl
            rw [this]; norm_num
          rw [this]
        · rw [hadd 3 (by decide) (by decide)]; rfl
    · by_cases h2 : decide (sig.w1 > 7036874417766400) = true
      · obtain ⟨q, r, e, hq, hr⟩ := U128_div100_spec sig
        refine ⟨q, exp + 2, (if (r % 10 != 0) = true then 1 else trunc), r / 10, ?_, Or.inr ⟨2, ?_⟩⟩
        · intro α k
          simp only [h4, h3, h2, if_true, e, ok_bind]
          exact ladder_branch k q r (exp + 2) trunc 10
        · rw [decide_eq_true_eq, gt_iff_lt, UInt64.lt_iff_toNat_lt] at h2
          have h2' : 7036874417766400 < sig.w1.toNat := h2
          refine ⟨by omega, by omega, ?_, hq, ?_, ?_, ?_⟩
          · simp only [U128.toNat]; omega
          · rw [UInt64.toNat_div, hr]; rfl
          · rw [htr, hr]
            have : sig.toNat % 100 % (10 : UInt64).toNat = sig.toNat % 10 ^ (2 - 1) := by
              have : (10 : UInt64).toNat = 10 := rfl
              rw [this]; norm_num
            rw [this]
          · rw [hadd 2 (by decide) (by decide)]; rfl
      · refine ⟨sig, exp, trunc, 0, ?_, Or.inl ⟨rfl, rfl, rfl, rfl, ?_⟩⟩
        · intro α k
          simp only [h4, h3, h2]
          rfl
        · rw [decide_eq_true_eq, gt_iff_lt, UInt64.lt_iff_toNat_lt] at h2
          have h2' : ¬ 7036874417766400 < sig.w1.toNat := h2
          simp only [U128.toNat]; omega

end RK
