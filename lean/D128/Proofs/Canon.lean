/-
  D128/Proofs/Canon.lean — `Gen.Decimal.Canonical` (decimal.go) computes `Spec.canonical`, for all
  2^128 bit patterns: the Hoare triple over the two `while` loops.

  Generic helpers
    ok_of_triple      ⦃True⦄ f ⦃⇓ r => Q r⦄ over Go.GoM  →  ∃ r, f = .ok r ∧ Q r  (no panic, terminates)
    i16_sub_one, i16_add_one, i16_gt_6176, i16_lt_6176     Int16 arithmetic without overflow
  Fuel recursions of the specification (one unfolding step each)
    scaleUp_stop, scaleUp_step, stripZeros_stop, stripZeros_step
  Loop invariants (first loop: scale up while exp > bias and sig·10 ≤ Cmax; second loop: strip
  trailing zeros while exp < bias).  The fuel is existentially quantified: `∃ F` with
  `Cmax < sig·10^F` resp. `sig < 10^F`, so 40 suffices initially and a step always has fuel left.
    St1, Exit1, St1_init, St1_step, St1_break, St1_exit, St2, Exit2, St2_init, St2_step,
    St2_break, St2_exit, Cmax_lt_pow40, Cmax_val, mul10_toNat, w1_gt_iff
  Encoding
    compose_encode    (compose neg sig exp).(lo,hi) = Spec.encode neg sig.toNat (exp − 6176)
  Specification by class
    canonical_nan, canonical_inf, canonical_fin, canonical_zero, sig_ne_zero, sig_eq_zero
  Main result
    Canonical_triple  ⦃True⦄ Canonical d ⦃⇓ r => (r.lo, r.hi) = Spec.canonical (interp d)⦄
-/
import Std.Tactic.Do
import D128.Proofs.Words128
import D128.Proofs.Encoding
import D128.Spec.Arith
import D128.Gen.Decimal3
set_option autoImplicit false
open Std.Do
set_option mvcgen.warning false

namespace CanonPf

/-! ## generic helpers -/

/-- a `⇓`-triple over `Go.GoM` gives an equation: no panic, and the result satisfies `Q` -/
theorem ok_of_triple {α : Type} {f : Go.GoM α} {Q : α → Prop}
    (h : ⦃⌜True⌝⦄ f ⦃⇓ r => ⌜Q r⌝⦄) : ∃ r, f = .ok r ∧ Q r := by
  apply Except.of_wp_eq (prog := f) rfl (fun x => ∃ r, x = .ok r ∧ Q r)
  have h' := h
  simp only [Triple] at h'
  refine SPred.entails.trans h' ?_
  apply (wp f).mono
  refine ⟨fun a => ?_, ?_⟩
  · simp
  · simp

theorem i16_sub_one (e : Int16) (h : -2^15 < e.toInt) : (e - 1).toInt = e.toInt - 1 := by
  have h1 := e.toInt_lt
  have e1 : (1 : Int16).toInt = 1 := by decide
  rw [Int16.toInt_sub, e1]
  apply Int.bmod_eq_of_le <;> simp only [Nat.reducePow] at * <;> omega

theorem i16_add_one (e : Int16) (h : e.toInt < 2^15 - 1) : (e + 1).toInt = e.toInt + 1 := by
  have h1 := e.le_toInt
  have e1 : (1 : Int16).toInt = 1 := by decide
  rw [Int16.toInt_add, e1]
  apply Int.bmod_eq_of_le <;> simp only [Nat.reducePow] at * <;> omega

theorem i16_gt_6176 (e : Int16) : (decide (e > (6176 : Int16)) = true) ↔ 6176 < e.toInt := by
  have e1 : (6176 : Int16).toInt = 6176 := by decide
  simp only [decide_eq_true_eq, gt_iff_lt, Int16.lt_iff_toInt_lt, e1]

theorem i16_lt_6176 (e : Int16) : (decide (e < (6176 : Int16)) = true) ↔ e.toInt < 6176 := by
  have e1 : (6176 : Int16).toInt = 6176 := by decide
  simp only [decide_eq_true_eq, Int16.lt_iff_toInt_lt, e1]

/-! ## the fuel recursions of the specification -/

theorem scaleUp_stop (F c : Nat) (e : Int) (h : ¬ (e > 0 ∧ c * 10 ≤ Spec.Cmax)) :
    Spec.scaleUp F c e = (c, e) := by
  cases F with
  | zero => rfl
  | succ F =>
    rw [Spec.scaleUp]
    simp only [Bool.and_eq_true, decide_eq_true_eq, h, if_false]

theorem scaleUp_step (F c : Nat) (e : Int) (h1 : e > 0) (h2 : c * 10 ≤ Spec.Cmax) :
    Spec.scaleUp (F + 1) c e = Spec.scaleUp F (c * 10) (e - 1) := by
  rw [Spec.scaleUp]
  simp only [Bool.and_eq_true, decide_eq_true_eq, h1, h2, and_self, if_true]

theorem stripZeros_stop (F c : Nat) (e : Int) (h : ¬ (e < 0 ∧ c % 10 = 0)) :
    Spec.stripZeros F c e = (c, e) := by
  cases F with
  | zero => rfl
  | succ F =>
    rw [Spec.stripZeros]
    simp only [Bool.and_eq_true, decide_eq_true_eq, beq_iff_eq, h, if_false]

theorem stripZeros_step (F c : Nat) (e : Int) (h1 : e < 0) (h2 : c % 10 = 0) :
    Spec.stripZeros (F + 1) c e = Spec.stripZeros F (c / 10) (e + 1) := by
  rw [Spec.stripZeros]
  simp only [Bool.and_eq_true, decide_eq_true_eq, beq_iff_eq, h1, h2, and_self, if_true]


/-! ## loop invariants of `Canonical` -/

/-- invariant of the scale-up loop: `R` is what `Spec.scaleUp` still has to produce -/
structure St1 (R : Nat × Int) (E0 : Int) (s : U128 × Int16) : Prop where
  nz : s.1.toNat ≠ 0
  le : s.1.toNat ≤ Spec.Cmax
  rng : 0 ≤ s.2.toInt ∧ s.2.toInt ≤ 12287
  lo : E0 ≤ 6176 → s.2.toInt = E0
  hi : 6176 ≤ E0 → 6176 ≤ s.2.toInt
  fuel : ∃ F, Spec.Cmax < s.1.toNat * 10 ^ F ∧ Spec.scaleUp F s.1.toNat (s.2.toInt - 6176) = R

structure Exit1 (R : Nat × Int) (s : U128 × Int16) : Prop where
  nz : s.1.toNat ≠ 0
  le : s.1.toNat ≤ Spec.Cmax
  rng : 0 ≤ s.2.toInt ∧ s.2.toInt ≤ 12287
  res : R = (s.1.toNat, s.2.toInt - 6176)

theorem Cmax_lt_pow40 : Spec.Cmax < 10 ^ 40 := by decide
theorem Cmax_val : Spec.Cmax = 12980742146337069071326240823050239 := by decide

theorem St1_init (c : U128) (e : Int16) (hnz : c.toNat ≠ 0) (hle : c.toNat ≤ Spec.Cmax)
    (h0 : 0 ≤ e.toInt) (h1 : e.toInt ≤ 12287) :
    St1 (Spec.scaleUp 40 c.toNat (e.toInt - 6176)) e.toInt (c, e) := by
  refine ⟨hnz, hle, ⟨h0, h1⟩, fun _ => rfl, fun h => h, 40, ?_, rfl⟩
  have := Cmax_lt_pow40
  calc Spec.Cmax < 10 ^ 40 := this
    _ ≤ c.toNat * 10 ^ 40 := Nat.le_mul_of_pos_left _ (Nat.pos_of_ne_zero hnz)

theorem mul10_toNat (c : U128) (hle : c.toNat ≤ Spec.Cmax) :
    (Gen.U128.mul64 c 10).toNat = c.toNat * 10 := by
  rw [U128_mul64_toNat_of_lt]
  · rfl
  · rw [Cmax_val] at hle
    have : (10 : UInt64).toNat = 10 := rfl
    rw [this]; omega

theorem w1_gt_iff (t : U128) :
    (decide (t.w1 > (703687441776639 : UInt64)) = true) ↔ Spec.Cmax < t.toNat := by
  have := t.w0.toNat_lt
  simp only [decide_eq_true_eq, gt_iff_lt, UInt64.lt_iff_toNat_lt, UInt64.toNat_ofNat, Nat.reducePow,
    Nat.reduceMod, U128.toNat, Cmax_val]
  omega

theorem St1_break (R : Nat × Int) (E0 : Int) (s : U128 × Int16) (h : St1 R E0 s)
    (hb : decide ((Gen.U128.mul64 s.1 10).w1 > (703687441776639 : UInt64)) = true) :
    Exit1 R s := by
  obtain ⟨nz, le, rng, _, _, F, _, hF⟩ := h
  refine ⟨nz, le, rng, ?_⟩
  rw [w1_gt_iff, mul10_toNat _ le] at hb
  rw [← hF, scaleUp_stop]
  omega

theorem St1_exit (R : Nat × Int) (E0 : Int) (s : U128 × Int16) (h : St1 R E0 s)
    (hb : ¬ decide (s.2 > (6176 : Int16)) = true) :
    Exit1 R s := by
  obtain ⟨nz, le, rng, _, _, F, _, hF⟩ := h
  refine ⟨nz, le, rng, ?_⟩
  rw [i16_gt_6176] at hb
  rw [← hF, scaleUp_stop]
  omega

theorem St1_step (R : Nat × Int) (E0 : Int) (s : U128 × Int16) (h : St1 R E0 s)
    (hc : decide (s.2 > (6176 : Int16)) = true)
    (hb : ¬ decide ((Gen.U128.mul64 s.1 10).w1 > (703687441776639 : UInt64)) = true) :
    St1 R E0 (Gen.U128.mul64 s.1 10, s.2 - 1) ∧ (s.2 - 1).toInt.toNat < s.2.toInt.toNat := by
  obtain ⟨nz, le, rng, lo, hi, F, hF1, hF⟩ := h
  rw [i16_gt_6176] at hc
  rw [w1_gt_iff, mul10_toNat _ le] at hb
  have hs : (s.2 - 1).toInt = s.2.toInt - 1 := i16_sub_one _ (by simp only [Int.reducePow]; omega)
  refine ⟨⟨?_, ?_, ?_, ?_, ?_, ?_⟩, ?_⟩
  · show (Gen.U128.mul64 s.1 10).toNat ≠ 0
    rw [mul10_toNat _ le]; omega
  · show (Gen.U128.mul64 s.1 10).toNat ≤ _
    rw [mul10_toNat _ le]; omega
  · show 0 ≤ (s.2 - 1).toInt ∧ (s.2 - 1).toInt ≤ 12287
    rw [hs]; omega
  · intro h; have := lo h; omega
  · intro h; have := hi h; show 6176 ≤ (s.2 - 1).toInt; rw [hs]; omega
  · cases F with
    | zero => simp only [Nat.pow_zero, Nat.mul_one] at hF1; omega
    | succ F =>
      refine ⟨F, ?_, ?_⟩
      · show _ < (Gen.U128.mul64 s.1 10).toNat * _
        rw [mul10_toNat _ le]
        rw [Nat.pow_succ] at hF1
        rw [Nat.mul_assoc, Nat.mul_comm 10]; exact hF1
      · show Spec.scaleUp F (Gen.U128.mul64 s.1 10).toNat ((s.2 - 1).toInt - 6176) = R
        rw [mul10_toNat _ le, hs, ← hF, scaleUp_step _ _ _ (by omega) (by omega)]
        congr 1; omega
  · rw [hs]; omega


/-- invariant of the strip loop -/
structure St2 (R : Nat × Int) (s : U128 × Int16) : Prop where
  nz : s.1.toNat ≠ 0
  le : s.1.toNat ≤ Spec.Cmax
  rng : 0 ≤ s.2.toInt ∧ s.2.toInt ≤ 12287
  fuel : ∃ F, s.1.toNat < 10 ^ F ∧ Spec.stripZeros F s.1.toNat (s.2.toInt - 6176) = R

structure Exit2 (R : Nat × Int) (s : U128 × Int16) : Prop where
  nz : s.1.toNat ≠ 0
  le : s.1.toNat ≤ Spec.Cmax
  rng : 0 ≤ s.2.toInt ∧ s.2.toInt ≤ 12287
  res : R = (s.1.toNat, s.2.toInt - 6176)

theorem St2_init (s : U128 × Int16) (nz : s.1.toNat ≠ 0) (le : s.1.toNat ≤ Spec.Cmax)
    (rng : 0 ≤ s.2.toInt ∧ s.2.toInt ≤ 12287) :
    St2 (Spec.stripZeros 40 s.1.toNat (s.2.toInt - 6176)) s :=
  ⟨nz, le, rng, 40, Nat.lt_of_le_of_lt le Cmax_lt_pow40, rfl⟩

theorem St2_break (R : Nat × Int) (s : U128 × Int16) (h : St2 R s) (q : U128 × UInt64)
    (hq : q.1.toNat = s.1.toNat / 10 ∧ q.2.toNat = s.1.toNat % 10)
    (hb : (q.2 != 0) = true) : Exit2 R s := by
  obtain ⟨nz, le, rng, F, _, hF⟩ := h
  refine ⟨nz, le, rng, ?_⟩
  have : q.2.toNat ≠ 0 := by
    intro h0
    have : q.2 = 0 := UInt64.toNat_inj.mp h0
    simp [this] at hb
  rw [← hF, stripZeros_stop]
  omega

theorem St2_exit (R : Nat × Int) (s : U128 × Int16) (h : St2 R s)
    (hb : ¬ decide (s.2 < (6176 : Int16)) = true) : Exit2 R s := by
  obtain ⟨nz, le, rng, F, _, hF⟩ := h
  refine ⟨nz, le, rng, ?_⟩
  rw [i16_lt_6176] at hb
  rw [← hF, stripZeros_stop]
  omega

theorem St2_step (R : Nat × Int) (s : U128 × Int16) (h : St2 R s) (q : U128 × UInt64)
    (hq : q.1.toNat = s.1.toNat / 10 ∧ q.2.toNat = s.1.toNat % 10)
    (hc : decide (s.2 < (6176 : Int16)) = true)
    (hb : ¬ (q.2 != 0) = true) :
    St2 R (q.1, s.2 + 1) ∧ (6176 - (s.2 + 1).toInt).toNat < (6176 - s.2.toInt).toNat := by
  obtain ⟨nz, le, rng, F, hF1, hF⟩ := h
  rw [i16_lt_6176] at hc
  have hr : s.1.toNat % 10 = 0 := by
    rw [← hq.2]
    simp only [bne_iff_ne, ne_eq, Decidable.not_not] at hb
    rw [hb]; rfl
  have hs : (s.2 + 1).toInt = s.2.toInt + 1 := i16_add_one _ (by simp only [Int.reducePow]; omega)
  refine ⟨⟨?_, ?_, ?_, ?_⟩, ?_⟩
  · show q.1.toNat ≠ 0
    rw [hq.1]; omega
  · show q.1.toNat ≤ _
    rw [hq.1]; omega
  · show 0 ≤ (s.2 + 1).toInt ∧ (s.2 + 1).toInt ≤ 12287
    rw [hs]; omega
  · cases F with
    | zero => simp only [Nat.pow_zero] at hF1; omega
    | succ F =>
      refine ⟨F, ?_, ?_⟩
      · show q.1.toNat < _
        rw [hq.1]
        rw [Nat.pow_succ] at hF1
        omega
      · show Spec.stripZeros F q.1.toNat ((s.2 + 1).toInt - 6176) = R
        rw [hq.1, hs, ← hF, stripZeros_step _ _ _ (by omega) hr]
        congr 1; omega
  · rw [hs]; omega


/-! ## `compose` is `Spec.encode` -/

theorem compose_encode (neg : Bool) (sig : U128) (exp : Int16)
    (hs : sig.toNat ≤ Spec.Cmax) (h0 : 0 ≤ exp.toInt) (h1 : exp.toInt ≤ 12287) :
    ((Gen.compose neg sig exp).lo, (Gen.compose neg sig exp).hi)
      = Spec.encode neg sig.toNat (exp.toInt - 6176) := by
  have hw0 := sig.w0.toNat_lt
  have hw : sig.w1.toNat < 5 * 2^47 := by
    rw [U128.toNat, Cmax_val] at hs; omega
  have hdiv : sig.toNat / 2^64 = sig.w1.toNat := by rw [U128.toNat]; omega
  have hmod : sig.toNat % 2^64 = sig.w0.toNat := by rw [U128.toNat]; omega
  unfold Spec.encode Spec.bias
  dsimp only
  rw [hdiv, hmod]
  have hbe : (exp.toInt - 6176 + 6176).toNat = exp.toInt.toNat := by congr 1; omega
  rw [hbe]
  apply Prod.ext
  · show (Gen.compose neg sig exp).lo = UInt64.ofNat sig.w0.toNat
    rw [Enc.compose_lo, UInt64.ofNat_toNat]
  · show (Gen.compose neg sig exp).hi = UInt64.ofNat _
    apply UInt64.toNat_inj.mp
    rw [Enc.compose_hi_toNat neg sig exp hs h0 h1, UInt64.toNat_ofNat']
    have hE : exp.toInt.toNat ≤ 12287 := by omega
    generalize exp.toInt.toNat = E at *
    cases neg <;> by_cases hc : 2^49 ≤ sig.w1.toNat <;>
      simp only [hc, if_true, if_false, Bool.false_eq_true] <;> omega

/-! ## the specification on the special classes -/

theorem canonical_nan (d : Gen.Decimal) (h : Gen.Decimal.IsNaN d = true) :
    Spec.canonical (Spec.interp d.lo d.hi) = (0, 0x7c00000000000000) := by
  rw [Enc.IsNaN_eq] at h
  simp only [decide_eq_true_eq] at h
  rw [Enc.interp_eq, if_pos h]; rfl

theorem canonical_inf (d : Gen.Decimal) (hs : Gen.Decimal.isSpecial d = true)
    (h : ¬ Gen.Decimal.IsNaN d = true) :
    Spec.canonical (Spec.interp d.lo d.hi)
      = (0, if Gen.Decimal.Signbit d then 0xf800000000000000 else 0x7800000000000000) := by
  rw [Enc.IsNaN_eq] at h
  rw [Enc.isSpecial_eq] at hs
  simp only [decide_eq_true_eq] at h hs
  have h30 : d.hi.toNat / 2^58 % 32 = 30 := by omega
  rw [Enc.interp_eq, if_neg h, if_pos h30, Enc.Signbit_eq]; rfl

theorem canonical_fin (n : Bool) (c : Nat) (e : Int) (hc : c ≠ 0) :
    Spec.canonical (.fin n c e) =
      Spec.encode n (Spec.stripZeros 40 (Spec.scaleUp 40 c e).1 (Spec.scaleUp 40 c e).2).1
        (Spec.stripZeros 40 (Spec.scaleUp 40 c e).1 (Spec.scaleUp 40 c e).2).2 := by
  simp only [Spec.canonical, beq_iff_eq, hc, if_false]

theorem canonical_zero (n : Bool) (e : Int) :
    Spec.canonical (.fin n 0 e) = (0, if n then 0x8000000000000000 else 0) := by
  rfl


/-! ## the main triple -/

theorem sig_ne_zero (sig : U128) (h : ¬ (sig.w0 ||| sig.w1 == 0) = true) : sig.toNat ≠ 0 := by
  intro h0
  apply h
  have h0' : sig.w0.toNat = 0 ∧ sig.w1.toNat = 0 := by rw [U128.toNat] at h0; omega
  have e0 : sig.w0 = 0 := UInt64.toNat_inj.mp h0'.1
  have e1 : sig.w1 = 0 := UInt64.toNat_inj.mp h0'.2
  rw [e0, e1]; rfl

theorem sig_eq_zero (sig : U128) (h : (sig.w0 ||| sig.w1 == 0) = true) : sig.toNat = 0 := by
  have h' : (sig.w0 ||| sig.w1).toNat = 0 := by
    rw [beq_iff_eq] at h; rw [h]; rfl
  rw [UInt64.toNat_or] at h'
  have : sig.w0.toNat = 0 ∧ sig.w1.toNat = 0 := Nat.or_eq_zero_iff.mp h'
  rw [U128.toNat, this.1, this.2]

theorem Canonical_triple (d : Gen.Decimal) :
    ⦃⌜True⌝⦄ Gen.Decimal.Canonical d
    ⦃⇓ r => ⌜(r.lo, r.hi) = Spec.canonical (Spec.interp d.lo d.hi)⌝⦄ := by
  mvcgen [Gen.Decimal.Canonical]
  case inv1 => exact fun s => ⟨s.2.toInt.toNat⟩
  case inv2 =>
    exact ⇓ x => match x with
      | .inl s => ⌜St1 (Spec.scaleUp 40 d.decompose.1.toNat (d.decompose.2.toInt - 6176))
                    d.decompose.2.toInt s⌝
      | .inr s => ⌜Exit1 (Spec.scaleUp 40 d.decompose.1.toNat (d.decompose.2.toInt - 6176)) s⌝
  case inv3 => exact fun s => ⟨(6176 - s.2.toInt).toNat⟩
  case inv4 r _ _ _ =>
    exact ⇓ x => match x with
      | .inl s => ⌜St2 (Spec.stripZeros 40 r.1.toNat (r.2.toInt - 6176)) s⌝
      | .inr s => ⌜Exit2 (Spec.stripZeros 40 r.1.toNat (r.2.toInt - 6176)) s⌝
  case vc1 h1 h2 =>
    rw [canonical_nan d h2]; rfl
  case vc2 h1 h2 =>
    rw [canonical_inf d h1 h2]
    cases Gen.Decimal.Signbit d <;> rfl
  case vc3 h1 _ _ h2 =>
    simp only [Bool.not_eq_true] at h1
    rw [Enc.interp_decompose d h1, sig_eq_zero _ h2, canonical_zero]
    cases Gen.Decimal.Signbit d <;> rfl
  case vc4 b mb _ _ hc _ hb h =>
    exact St1_break _ _ b h.2 hb
  case vc5 b mb _ _ hc _ hb _ h =>
    have hv : mb = b.2.toInt.toNat := congrArg ULift.down h.1
    obtain ⟨h1, h2⟩ := St1_step _ _ b h.2 hc hb
    exact ⟨_, rfl, by rw [hv]; exact h2, h1⟩
  case vc6 b mb _ _ hc h =>
    exact St1_exit _ _ b h.2 hc
  case vc7 h1 _ _ h2 =>
    simp only [Bool.not_eq_true] at h1
    exact St1_init _ _ (sig_ne_zero _ h2) (Enc.decompose_sig_le d) (Enc.decompose_exp_nonneg d)
      (Enc.decompose_exp_le d h1)
  case vc8 b mb _ _ hc h q _ _ hb hq =>
    exact St2_break _ b h.2 q hq hb
  case vc9 b mb _ _ hc h q _ _ hb _ hq =>
    have hv : mb = (6176 - b.2.toInt).toNat := congrArg ULift.down h.1
    obtain ⟨h1, h2⟩ := St2_step _ b h.2 q hq hc hb
    exact ⟨_, rfl, by rw [hv]; exact h2, h1⟩
  case vc10 b mb _ _ hc h =>
    exact St2_exit _ b h.2 hc
  case vc11 r _ _ h =>
    exact St2_init r h.nz h.le h.rng
  case vc12 h1 _ _ h2 r1 _ _ hr1 r2 _ _ hr2 =>
    simp only [Bool.not_eq_true] at h1
    have hr1' : Exit1 _ r1 := hr1
    have hr2' : Exit2 _ r2 := hr2
    rw [Enc.interp_decompose d h1, canonical_fin _ _ _ (sig_ne_zero _ h2), hr1'.res]
    dsimp only
    rw [hr2'.res]
    exact compose_encode _ _ _ hr2'.le hr2'.rng.1 hr2'.rng.2
  all_goals exact ExceptConds.entails.refl _

end CanonPf
