/-
  D128/Proofs/FloatFromNear.lean — the result of `Gen.FromFloat64` on a finite non-zero float is a finite
  Decimal of the same sign within relative `2^-110` of the float (every valid mode).  This is what the round
  trip `Float64(FromFloat64(f)) = f` needs.

  Provided (namespace `FF`):
  * `mag_lt`, `roundTo_near`, `fromFloat64_near`
-/
import D128.Proofs.FloatFromSpec

set_option autoImplicit false
set_option maxRecDepth 8192
set_option exponentiation.threshold 30000

namespace FF
open Gen Go
local notation "𝔳[" d "]" => Spec.interp (Gen.Decimal.lo d) (Gen.Decimal.hi d)

theorem mag_lt (f : F64) (hfin : f.isFinite = true) : f.mag < 2 ^ 1024 := by
  have hM := f.mantField_lt
  have hE := f.expField_lt
  have he : f.expField ≠ 2047 := by unfold F64.isFinite at hfin; simpa using hfin
  unfold F64.mag F64.dyadic
  by_cases h0 : f.expField = 0
  · simp only [h0, beq_self_eq_true, if_true]
    have h1 : (f.mantField : ℚ) < 2 ^ 52 := by exact_mod_cast hM
    have h2 : (2 : ℚ) ^ (-1074 : Int) ≤ 1 := zpow_le_one_of_nonpos₀ (by norm_num) (by norm_num)
    have h3 : (0 : ℚ) < (2 : ℚ) ^ (-1074 : Int) := zpow_pos (by norm_num) _
    have h4 : (0 : ℚ) ≤ f.mantField := by positivity
    calc (f.mantField : ℚ) * (2 : ℚ) ^ (-1074 : Int) ≤ f.mantField * 1 :=
          mul_le_mul_of_nonneg_left h2 h4
      _ < 2 ^ 1024 := by
          have : (2 : ℚ) ^ 52 ≤ 2 ^ 1024 := pow_le_pow_right₀ (by norm_num) (by norm_num)
          linarith
  · have : (f.expField == 0) = false := by simpa using h0
    simp only [this, Bool.false_eq_true, if_false]
    have h1 : ((2 ^ 52 + f.mantField : Nat) : ℚ) < 2 ^ 53 := by
      have : 2 ^ 52 + f.mantField < 2 ^ 53 := by omega
      exact_mod_cast this
    have h2 : (2 : ℚ) ^ ((f.expField : Int) - 1075) ≤ (2 : ℚ) ^ (971 : Int) :=
      zpow_le_zpow_right₀ (by norm_num) (by omega)
    have h3 : (0 : ℚ) < (2 : ℚ) ^ ((f.expField : Int) - 1075) := zpow_pos (by norm_num) _
    calc ((2 ^ 52 + f.mantField : Nat) : ℚ) * (2 : ℚ) ^ ((f.expField : Int) - 1075)
        < 2 ^ 53 * (2 : ℚ) ^ ((f.expField : Int) - 1075) := mul_lt_mul_of_pos_right h1 h3
      _ ≤ 2 ^ 53 * (2 : ℚ) ^ (971 : Int) := mul_le_mul_of_nonneg_left h2 (by positivity)
      _ = 2 ^ 1024 := by
          rw [show ((971 : Int)) = ((971 : Nat) : Int) from rfl, zpow_natCast, ← pow_add]

/-- rounding a magnitude in the float64 range gives a finite value within one part in `2^110` -/
theorem roundTo_near (m : Spec.Mode) (neg : Bool) (q : ℚ) (h1 : (1 : ℚ) / 2 ^ 1074 ≤ q)
    (h2 : q < 2 ^ 1024) :
    ∃ c e, Spec.roundTo m neg q = .fin neg c e ∧ |(c : ℚ) * (10 : ℚ) ^ e - q| * 2 ^ 110 < q := by
  have hq : 0 < q := lt_of_lt_of_le (by positivity) h1
  obtain ⟨s1, s2⟩ := RK.spacingExpRaw_spec q hq
  rw [RK.pow10_eq] at s1 s2
  set r := Spec.spacingExpRaw q with hr
  -- the raw spacing exponent is in range
  have hr1 : Spec.Emin ≤ r := by
    by_contra hc
    have hq' : r ≤ -400 := by unfold Spec.Emin at hc; omega
    have h10 : (10 : ℚ) ^ r ≤ (10 : ℚ) ^ (-400 : Int) := zpow_le_zpow_right₀ (by norm_num) hq'
    have h4 : 10 * 2 ^ 110 * (10 : ℚ) ^ (-400 : Int) < 1 / 2 ^ 1074 := by
      rw [zpow_neg, show ((400 : Int)) = ((400 : Nat) : Int) from rfl, zpow_natCast]
      have e : 10 * 2 ^ 110 * ((10 : ℚ) ^ 400)⁻¹ = (10 * 2 ^ 110) / 10 ^ 400 := by
        rw [div_eq_mul_inv]
      rw [e, div_lt_div_iff₀ (by positivity) (by positivity)]
      norm_num
    have : 10 * 2 ^ 110 * (10 : ℚ) ^ r ≤ 10 * 2 ^ 110 * (10 : ℚ) ^ (-400 : Int) :=
      mul_le_mul_of_nonneg_left h10 (by positivity)
    exact absurd (lt_of_lt_of_le (lt_of_le_of_lt h1 s2) (le_trans this h4.le)) (lt_irrefl _)
  have hr2 : r + 1 ≤ Spec.Emax := by
    by_contra hc
    have hq' : (400 : Int) ≤ r := by unfold Spec.Emax at hc; omega
    have h10 : (10 : ℚ) ^ (400 : Int) ≤ (10 : ℚ) ^ r := zpow_le_zpow_right₀ (by norm_num) hq'
    have h4 : (2 : ℚ) ^ 1024 < 2 ^ 110 * (10 : ℚ) ^ (400 : Int) := by
      rw [show ((400 : Int)) = ((400 : Nat) : Int) from rfl, zpow_natCast]; norm_num
    have : (2 : ℚ) ^ 110 * (10 : ℚ) ^ (400 : Int) ≤ 2 ^ 110 * (10 : ℚ) ^ r :=
      mul_le_mul_of_nonneg_left h10 (by positivity)
    linarith
  have hE : Spec.spacingExp q = r := by rw [SpecRound.spacingExp_eq, max_eq_right hr1]
  rcases SpecRound.roundTo_cases m neg q hq with ⟨_, hbad⟩ | ⟨c, e, hfin, _, _, _, _, _⟩
  · rw [hE] at hbad; omega
  · refine ⟨c, e, hfin, ?_⟩
    have := SpecRound.roundTo_within_spacing hq hfin
    rw [hE] at this
    calc |(c : ℚ) * (10 : ℚ) ^ e - q| * 2 ^ 110 < (10 : ℚ) ^ r * 2 ^ 110 :=
          mul_lt_mul_of_pos_right this (by positivity)
      _ = 2 ^ 110 * (10 : ℚ) ^ r := by ring
      _ ≤ q := s1

/-- **closeness**: finite non-zero `f` ↦ a finite Decimal of the same sign within relative `2^-110` -/
theorem fromFloat64_near (g : Globals) (f : F64) (m : Spec.Mode)
    (hm : Spec.Mode.ofNat? g.DefaultRoundingMode.toNat = some m)
    (hfin : f.isFinite = true) (hnz : f.isZero = false) :
    ∃ r c e, Gen.FromFloat64 g f = .ok r ∧ 𝔳[r] = .fin f.sign c e ∧
      |(c : ℚ) * (10 : ℚ) ^ e - f.mag| * 2 ^ 110 < f.mag := by
  have he : f.expField ≠ 2047 := by unfold F64.isFinite at hfin; simpa using hfin
  have hn : f.isNaN = false := by unfold F64.isNaN; simp [he]
  have hi : f.isInf = false := by unfold F64.isInf; simp [he]
  obtain ⟨r, hr, hsame⟩ := fromFloat64_correct g f m hm
  unfold spec64 at hsame
  rw [hn, hi] at hsame
  simp only [Bool.false_eq_true, if_false] at hsame
  have hge := mag_ge f hnz
  rw [flush_eq_roundTo _ _ _ hge] at hsame
  obtain ⟨c, e, hrt, hnear⟩ := roundTo_near m f.sign f.mag hge (mag_lt f hfin)
  rw [hrt] at hsame
  cases hd : 𝔳[r] with
  | nan n p => rw [hd] at hsame; simp [Spec.Val.same] at hsame
  | inf n => rw [hd] at hsame; simp [Spec.Val.same] at hsame
  | fin n c'' e'' =>
    rw [hd] at hsame
    simp only [Spec.Val.same, Bool.and_eq_true, beq_iff_eq] at hsame
    refine ⟨r, c'', e'', hr, by rw [hd, hsame.1], ?_⟩
    have := hsame.2
    unfold Spec.mag at this
    rw [SpecRound.pow10_eq_zpow, SpecRound.pow10_eq_zpow] at this
    rw [this]; exact hnear

end FF
