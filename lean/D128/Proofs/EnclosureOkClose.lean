/-
  Soundness of the enclosure oracle, part 20: an `.ok` verdict of `judgeElem` on a finite non-zero result means
  "within (1+δ) units in the last place", with the width of every enclosure PROVED (not assumed):

     |r − f(x)| ≤ (1 + δ)·10^(eT t),     δ = 4·10^-5 (Exp, Exp2, Exp10, Expm1),  2·10^-2 (Log, Log2, Log10),
                                          10^-3 (Log1p)

  where `10^(eT t)` is the unit in the last place of the format at the upper end of the certified enclosure `t`
  of |f(x)| (it is ≥ the unit at |f(x)| itself, `ulpExp_le_eT`, and equal to it unless the enclosure touches a
  point where the spacing changes).

  1. `ok_close_narrow`  : `.ok` and `Narrow t.m ρ α` ⇒ right sign ∧ |r − F| ≤ 10^eT + ρ·|F| + α·10^t.k
     `lt_unit`          : T ∈ₛ t ⇒ T < (Cmax+1)·10^eT
  2. `log_abs_ge`       : a finite operand x = c·10^e ≠ 1 (0 < c < 10^35) has |ln x| ≥ 5·10^-36
  3. `expfam_ok_close`, `log_ok_close`, `log2_ok_close`, `log10_ok_close`, `log1p_ok_close`
-/
import D128.Proofs.EnclosureWidthLog
import D128.Proofs.EnclosureExact
set_option autoImplicit false

namespace EnclPf
open Spec Spec.Encl SpecRound

/-! ## 1. generic -/

section
variable (f : Fn) (n : Bool) (c : Nat) (e : Int) (ne : Bool) (tn : Bool) (t : Sci)

theorem ok_close_narrow (rn : Bool) (rc : Nat) (re : Int) (ρ α : ℚ)
    (hspec : specialCase f (.fin n c e) = none)
    (hexact : (if ne then exactCase f n c e else none) = none)
    (hhuge : hugeArg f c e = false)
    (htv : trueValue f n c e = some (tn, t)) (hc : c < 10 ^ 35)
    (hN : Narrow t.m ρ α) (hρ0 : 0 ≤ ρ)
    (h : judgeElem f (.fin n c e) (.fin rn (rc + 1) re) ne = .ok) :
    (rn = true ↔ realFn f (X n c e) < 0) ∧
    ∃ T : ℝ, 0 < T ∧ T ∈ₛ t ∧ |realFn f (X n c e)| = T ∧
    |X rn (rc + 1) re - realFn f (X n c e)| ≤
      (10 : ℝ) ^ (eT t) + (ρ : ℝ) * T + (α : ℝ) * (10 : ℝ) ^ t.k := by
  obtain ⟨hsgn, hb⟩ := general_ok_sound f n c e ne tn t _ hspec hexact hhuge htv hc h
  obtain ⟨T, hTpos, hT, hF⟩ := trueValue_sound f n c e tn t hspec hc htv
  have hFabs : |realFn f (X n c e)| = T := by
    rw [hF]; cases tn <;> simp [abs_of_pos hTpos]
  refine ⟨hsgn, T, hTpos, hT, hFabs, ?_⟩
  obtain ⟨n1, n2, n3⟩ := hN
  have hk : (0 : ℝ) < (10 : ℝ) ^ t.k := zpow_pos (by norm_num) _
  have hge := sciMem_ge_lo hT
  have n3' : ((t.m.hi : ℚ) : ℝ) ≤ ((t.m.lo : ℚ) : ℝ) * (1 + (ρ : ℝ)) + (α : ℝ) := by
    have : ((t.m.hi : ℚ) : ℝ) ≤ (((t.m.lo * (1 + ρ) + α : ℚ)) : ℝ) := by exact_mod_cast n3
    push_cast at this; exact this
  have hρ0' : (0 : ℝ) ≤ (ρ : ℝ) := by exact_mod_cast hρ0
  have hwid : ((t.m.hi : ℝ) - (t.m.lo : ℝ)) * (10 : ℝ) ^ t.k ≤
      (ρ : ℝ) * ((t.m.lo : ℝ) * (10 : ℝ) ^ t.k) + (α : ℝ) * (10 : ℝ) ^ t.k := by
    have : ((t.m.hi : ℝ) - (t.m.lo : ℝ)) ≤ (ρ : ℝ) * (t.m.lo : ℝ) + (α : ℝ) := by linarith
    calc ((t.m.hi : ℝ) - (t.m.lo : ℝ)) * (10 : ℝ) ^ t.k
        ≤ ((ρ : ℝ) * (t.m.lo : ℝ) + (α : ℝ)) * (10 : ℝ) ^ t.k := mul_le_mul_of_nonneg_right this hk.le
      _ = (ρ : ℝ) * ((t.m.lo : ℝ) * (10 : ℝ) ^ t.k) + (α : ℝ) * (10 : ℝ) ^ t.k := by ring
  have : (ρ : ℝ) * ((t.m.lo : ℝ) * (10 : ℝ) ^ t.k) ≤ (ρ : ℝ) * T := mul_le_mul_of_nonneg_left hge hρ0'
  linarith

end

theorem lt_unit {T : ℝ} {t : Sci} (hT : T ∈ₛ t) (hlo : 0 < t.m.lo) :
    T < ((Cmax : ℝ) + 1) * (10 : ℝ) ^ (eT t) := by
  have hTpos := sciMem_pos hT hlo
  exact ((ulpExp_le_iff hTpos (eT t)).1 (ulpExp_le_eT hT hlo)).2

theorem Cmax_succ_le : ((Cmax : ℝ) + 1) ≤ 13 * (10 : ℝ) ^ 33 := by
  have : Cmax + 1 ≤ 13 * 10 ^ 33 := by unfold Cmax; norm_num
  exact_mod_cast this

/-! ## 2. lower bounds for the logarithm of a Decimal -/

theorem decimal_ne_one_far (c : Nat) (e : Int) (hc : c < 10 ^ 35)
    (hV : (c : ℝ) * (10 : ℝ) ^ e ≠ 1) : (10 : ℝ) ^ (-35 : Int) ≤ |(c : ℝ) * (10 : ℝ) ^ e - 1| := by
  have hcr : (c : ℝ) < (10 : ℝ) ^ 35 := by exact_mod_cast hc
  by_cases he : -35 ≤ e
  · obtain ⟨m, hm⟩ : ∃ m : ℕ, e = (m : Int) - 35 := ⟨(e + 35).toNat, by omega⟩
    have hVN : (c : ℝ) * (10 : ℝ) ^ e = ((c * 10 ^ m : ℕ) : ℝ) * (10 : ℝ) ^ (-35 : Int) := by
      rw [hm, zpow_sub₀ (by norm_num : (10 : ℝ) ≠ 0), zpow_natCast]
      push_cast
      rw [zpow_neg]
      field_simp
    have hne : c * 10 ^ m ≠ 10 ^ 35 := by
      intro heq
      apply hV
      rw [hVN, heq]
      push_cast
      rw [zpow_neg]; norm_num
    have hint : (1 : ℝ) ≤ |((c * 10 ^ m : ℕ) : ℝ) - (10 : ℝ) ^ 35| := by
      have : (1 : ℤ) ≤ |((c * 10 ^ m : ℕ) : ℤ) - (10 : ℤ) ^ 35| := by
        have : ((c * 10 ^ m : ℕ) : ℤ) ≠ (10 : ℤ) ^ 35 := by exact_mod_cast hne
        exact Int.one_le_abs (sub_ne_zero.2 this)
      exact_mod_cast this
    have hp : (0 : ℝ) < (10 : ℝ) ^ (-35 : Int) := by positivity
    have e1 : (c : ℝ) * (10 : ℝ) ^ e - 1 =
        (((c * 10 ^ m : ℕ) : ℝ) - (10 : ℝ) ^ 35) * (10 : ℝ) ^ (-35 : Int) := by
      rw [hVN, sub_mul]
      congr 1
      rw [zpow_neg]; norm_num
    rw [e1, abs_mul, abs_of_pos hp]
    nlinarith
  · have he' : e ≤ -36 := by omega
    have h1 : (10 : ℝ) ^ e ≤ (10 : ℝ) ^ (-36 : Int) := zpow_le_zpow_right₀ (by norm_num) he'
    have hp : (0 : ℝ) < (10 : ℝ) ^ e := by positivity
    have h2 : (c : ℝ) * (10 : ℝ) ^ e ≤ (10 : ℝ) ^ 35 * (10 : ℝ) ^ (-36 : Int) := by
      have hc0 : (0 : ℝ) ≤ (c : ℝ) := by positivity
      calc (c : ℝ) * (10 : ℝ) ^ e ≤ (c : ℝ) * (10 : ℝ) ^ (-36 : Int) := mul_le_mul_of_nonneg_left h1 hc0
        _ ≤ (10 : ℝ) ^ 35 * (10 : ℝ) ^ (-36 : Int) := mul_le_mul_of_nonneg_right hcr.le (by positivity)
    have h3 : (10 : ℝ) ^ 35 * (10 : ℝ) ^ (-36 : Int) = 1 / 10 := by norm_num
    have h4 : (10 : ℝ) ^ (-35 : Int) ≤ 9 / 10 := by norm_num
    rw [h3] at h2
    generalize (10 : ℝ) ^ (-35 : Int) = v at *
    generalize (c : ℝ) * (10 : ℝ) ^ e = V at *
    rw [abs_sub_comm, abs_of_nonneg (by linarith)]
    linarith

/-- a finite operand `x = c·10^e ≠ 1` with `c < 10^35` has `|ln x| ≥ 5·10^-36` -/
theorem log_abs_ge (c : Nat) (e : Int) (hc0 : c ≠ 0) (hc : c < 10 ^ 35)
    (hL : Real.log ((c : ℝ) * (10 : ℝ) ^ e) ≠ 0) :
    5 * (10 : ℝ) ^ (-36 : Int) ≤ |Real.log ((c : ℝ) * (10 : ℝ) ^ e)| := by
  set V : ℝ := (c : ℝ) * (10 : ℝ) ^ e with hVdef
  have hVpos : 0 < V := by
    have : (0 : ℝ) < (c : ℝ) := by exact_mod_cast Nat.pos_of_ne_zero hc0
    positivity
  have hV1 : V ≠ 1 := by
    intro h1; apply hL; rw [h1]; simp
  have hfar := decimal_ne_one_far c e hc hV1
  have e35 : (10 : ℝ) ^ (-35 : Int) = 10 * (10 : ℝ) ^ (-36 : Int) := by norm_num
  have hp36 : (0 : ℝ) < (10 : ℝ) ^ (-36 : Int) := by positivity
  have hsmall : (10 : ℝ) ^ (-36 : Int) ≤ 1 / 100 := by norm_num
  rw [e35] at hfar
  generalize (10 : ℝ) ^ (-36 : Int) = u at *
  rcases lt_or_gt_of_ne hV1 with hlt | hgt
  · -- V < 1 : −log V ≥ 1 − V
    have h1 := Real.log_le_sub_one_of_pos hVpos
    rw [abs_of_neg (by linarith)] at hfar
    rw [abs_of_nonpos (by linarith)]
    linarith
  · rw [abs_of_pos (by linarith)] at hfar
    have h1 := Real.one_sub_inv_le_log_of_pos hVpos
    have hlogpos : 0 < Real.log V := Real.log_pos hgt
    rw [abs_of_pos hlogpos]
    by_cases h2 : V ≤ 2
    · -- 1 − 1/V = (V−1)/V ≥ (V−1)/2
      have : (V - 1) / 2 ≤ 1 - V⁻¹ := by
        rw [show 1 - V⁻¹ = (V - 1) / V by field_simp]
        exact div_le_div_of_nonneg_left (by linarith) hVpos h2
      linarith
    · have : (1 / 2 : ℝ) ≤ 1 - V⁻¹ := by
        have : V⁻¹ ≤ 1 / 2 := by
          rw [inv_eq_one_div]; exact one_div_le_one_div_of_le (by norm_num) (by linarith)
        linarith
      linarith

/-! ## 3. the `.ok` guarantees -/

theorem signSplit_k {l : I} {tn : Bool} {t : Sci} (h : signSplit l = some (tn, t)) : t.k = 0 := by
  unfold signSplit at h
  split at h
  · simp only [Option.some.injEq, Prod.mk.injEq] at h; obtain ⟨-, rfl⟩ := h; rfl
  · split at h
    · simp only [Option.some.injEq, Prod.mk.injEq] at h; obtain ⟨-, rfl⟩ := h; rfl
    · exact absurd h (by simp)

theorem trueValue_logfam_k (f : Fn) (hf : f = .log ∨ f = .log2 ∨ f = .log10) (n : Bool) (c : Nat) (e : Int)
    (tn : Bool) (t : Sci) (h : trueValue f n c e = some (tn, t)) : t.k = 0 := by
  rcases hf with rfl | rfl | rfl
  · rw [trueValue_log_eq] at h
    split at h
    · exact absurd h (by simp)
    · exact signSplit_k h
  · rw [trueValue_log2_eq] at h
    split at h
    · exact absurd h (by simp)
    · exact signSplit_k h
  · rw [trueValue_log10_eq] at h
    split at h
    · exact absurd h (by simp)
    · exact signSplit_k h

/-- from `|r − F| ≤ 10^eT + ρ·T + α` to units in the last place, given a lower bound `Tmin` of `T` -/
theorem to_ulps {T : ℝ} {t : Sci} {ρ α δ Tmin B : ℝ} (hT : T ∈ₛ t) (hlo : 0 < t.m.lo)
    (hρ : 0 ≤ ρ) (hα : 0 ≤ α) (hTmin : Tmin ≤ T) (hTm0 : 0 < Tmin)
    (hδ : ρ * (13 * (10 : ℝ) ^ 33) + α * (13 * (10 : ℝ) ^ 33) / Tmin ≤ δ)
    (hB : B ≤ (10 : ℝ) ^ (eT t) + ρ * T + α) : B ≤ (1 + δ) * (10 : ℝ) ^ (eT t) := by
  have h1 := lt_unit hT hlo
  have h2 := Cmax_succ_le
  set U : ℝ := (10 : ℝ) ^ (eT t) with hU
  have hUpos : 0 < U := zpow_pos (by norm_num) _
  have hTU : T ≤ 13 * (10 : ℝ) ^ 33 * U := by
    have : ((Cmax : ℝ) + 1) * U ≤ 13 * (10 : ℝ) ^ 33 * U := mul_le_mul_of_nonneg_right h2 hUpos.le
    linarith
  have hρT : ρ * T ≤ ρ * (13 * (10 : ℝ) ^ 33) * U := by
    have := mul_le_mul_of_nonneg_left hTU hρ
    linarith
  -- α ≤ α·(13·10^33/Tmin)·U since Tmin ≤ T ≤ 13·10^33·U
  have hαU : α ≤ α * (13 * (10 : ℝ) ^ 33) / Tmin * U := by
    have hq : 1 ≤ 13 * (10 : ℝ) ^ 33 * U / Tmin := by
      rw [le_div_iff₀ hTm0]; linarith
    calc α = α * 1 := by ring
      _ ≤ α * (13 * (10 : ℝ) ^ 33 * U / Tmin) := mul_le_mul_of_nonneg_left hq hα
      _ = α * (13 * (10 : ℝ) ^ 33) / Tmin * U := by ring
  have : ρ * (13 * (10 : ℝ) ^ 33) * U + α * (13 * (10 : ℝ) ^ 33) / Tmin * U ≤ δ * U := by
    have := mul_le_mul_of_nonneg_right hδ hUpos.le
    linarith
  linarith

section
variable (f : Fn) (n : Bool) (c : Nat) (e : Int) (ne : Bool) (tn : Bool) (t : Sci)
variable (rn : Bool) (rc : Nat) (re : Int)

/-- **Exp, Exp2, Exp10, Expm1**: an accepted finite non-zero result has the right sign and is within
    `(1 + 4·10^-5)` units in the last place of `f(x)` -/
theorem expfam_ok_close (hf : f = .exp ∨ f = .exp2 ∨ f = .exp10 ∨ f = .expm1)
    (hspec : specialCase f (.fin n c e) = none)
    (hexact : (if ne then exactCase f n c e else none) = none)
    (hhuge : hugeArg f c e = false)
    (htv : trueValue f n c e = some (tn, t)) (hc : c < 10 ^ 35)
    (h : judgeElem f (.fin n c e) (.fin rn (rc + 1) re) ne = .ok) :
    (rn = true ↔ realFn f (X n c e) < 0) ∧
    |X rn (rc + 1) re - realFn f (X n c e)| ≤ (1 + 4 / 10 ^ 5) * (10 : ℝ) ^ (eT t) := by
  obtain ⟨hc0, -⟩ := specialCase_none hspec
  have hN : Narrow t.m (3 / 10 ^ 39) 0 := by
    rcases hf with rfl | rfl | rfl | rfl
    · exact trueValue_exp_narrow n c e tn t hc0 hc htv
    · exact trueValue_exp2_narrow n c e tn t hc0 hc htv
    · exact trueValue_exp10_narrow n c e tn t hc0 hc htv
    · exact trueValue_expm1_narrow n c e tn t hc0 hc htv
  obtain ⟨hs, T, hTpos, hT, -, hb⟩ :=
    ok_close_narrow f n c e ne tn t rn rc re _ _ hspec hexact hhuge htv hc hN (by norm_num) h
  refine ⟨hs, ?_⟩
  push_cast at hb
  exact to_ulps (ρ := 3 / 10 ^ 39) (α := 0) (Tmin := T) hT hN.1 (by norm_num) (le_refl _) (le_refl _) hTpos
    (by simp; norm_num) (by linarith)

/-- **Log, Log2, Log10**: an accepted finite non-zero result has the right sign and is within
    `(1 + 2·10^-2)` units in the last place of `f(x)` -/
theorem logfam_ok_close (hf : f = .log ∨ f = .log2 ∨ f = .log10)
    (hspec : specialCase f (.fin n c e) = none)
    (hexact : (if ne then exactCase f n c e else none) = none)
    (hhuge : hugeArg f c e = false)
    (htv : trueValue f n c e = some (tn, t)) (hc : c < 10 ^ 35)
    (h : judgeElem f (.fin n c e) (.fin rn (rc + 1) re) ne = .ok) :
    (rn = true ↔ realFn f (X n c e) < 0) ∧
    |X rn (rc + 1) re - realFn f (X n c e)| ≤ (1 + 2 / 10 ^ 2) * (10 : ℝ) ^ (eT t) := by
  obtain ⟨hc0, -⟩ := specialCase_none hspec
  have hk := trueValue_logfam_k f hf n c e tn t htv
  -- |ln X| ≥ 5·10^-36 whenever it is non-zero
  have hLB : Real.log (X n c e) ≠ 0 → 5 * (10 : ℝ) ^ (-36 : Int) ≤ |Real.log (X n c e)| := by
    intro h0
    rw [log_X] at h0 ⊢
    simpa using log_abs_ge c e hc0 hc (by simpa using h0)
  have l2a : Real.log 2 ≤ 1 := by
    have a1 : ((ln2.hi : ℚ) : ℝ) ≤ ((7 / 10 : ℚ) : ℝ) := by exact_mod_cast ln2_hi_le
    push_cast at a1; linarith [ln2_sound.2]
  have l2b : 0 < Real.log 2 := by linarith [log2_ge]
  have l10a : Real.log 10 ≤ 231 / 100 := by
    have a1 : ((ln10.hi : ℚ) : ℝ) ≤ ((231 / 100 : ℚ) : ℝ) := by exact_mod_cast ln10_hi_le
    push_cast at a1; linarith [ln10_sound.2]
  have l10b : 0 < Real.log 10 := by linarith [log10_ge]
  have e36 : (10 : ℝ) ^ (-36 : Int) = 1 / 10 ^ 36 := by norm_num
  rcases hf with rfl | rfl | rfl
  · have hN := trueValue_log_narrow n c e tn t htv
    obtain ⟨hs, T, hTpos, hT, hFT, hb⟩ :=
      ok_close_narrow .log n c e ne tn t rn rc re _ _ hspec hexact hhuge htv hc hN (by norm_num) h
    refine ⟨hs, ?_⟩
    rw [hk, zpow_zero, mul_one] at hb
    push_cast at hb
    have hTmin : 5 / 10 ^ 36 ≤ T := by
      have hne : Real.log (X n c e) ≠ 0 := by
        intro h0
        have : |realFn .log (X n c e)| = 0 := by show |Real.log (X n c e)| = 0; rw [h0]; simp
        linarith
      have := hLB hne
      rw [e36] at this
      have hF : |realFn .log (X n c e)| = |Real.log (X n c e)| := rfl
      linarith
    exact to_ulps (ρ := 3 / 10 ^ 60) (α := 3 / 10 ^ 72) (Tmin := 5 / 10 ^ 36) hT hN.1 (by norm_num) (by norm_num)
      hTmin (by norm_num) (by norm_num) hb
  · have hN := trueValue_log2_narrow n c e tn t htv
    obtain ⟨hs, T, hTpos, hT, hFT, hb⟩ :=
      ok_close_narrow .log2 n c e ne tn t rn rc re _ _ hspec hexact hhuge htv hc hN (by norm_num) h
    refine ⟨hs, ?_⟩
    rw [hk, zpow_zero, mul_one] at hb
    push_cast at hb
    have hTmin : 5 / 10 ^ 36 ≤ T := by
      have hF : |realFn .log2 (X n c e)| = |Real.log (X n c e)| / Real.log 2 := by
        show |Real.logb 2 (X n c e)| = _
        unfold Real.logb; rw [abs_div, abs_of_pos l2b]
      have hne : Real.log (X n c e) ≠ 0 := by
        intro h0
        rw [hF, h0] at hFT; simp at hFT; linarith
      have h1 := hLB hne
      rw [e36] at h1
      rw [hF] at hFT
      have : |Real.log (X n c e)| ≤ |Real.log (X n c e)| / Real.log 2 := by
        rw [le_div_iff₀ l2b]; nlinarith [abs_nonneg (Real.log (X n c e))]
      linarith
    exact to_ulps (ρ := 1 / 10 ^ 59) (α := 6 / 10 ^ 72) (Tmin := 5 / 10 ^ 36) hT hN.1 (by norm_num) (by norm_num)
      hTmin (by norm_num) (by norm_num) hb
  · have hN := trueValue_log10_narrow n c e tn t htv
    obtain ⟨hs, T, hTpos, hT, hFT, hb⟩ :=
      ok_close_narrow .log10 n c e ne tn t rn rc re _ _ hspec hexact hhuge htv hc hN (by norm_num) h
    refine ⟨hs, ?_⟩
    rw [hk, zpow_zero, mul_one] at hb
    push_cast at hb
    have hTmin : 2 / 10 ^ 36 ≤ T := by
      have hF : |realFn .log10 (X n c e)| = |Real.log (X n c e)| / Real.log 10 := by
        show |Real.logb 10 (X n c e)| = _
        unfold Real.logb; rw [abs_div, abs_of_pos l10b]
      have hne : Real.log (X n c e) ≠ 0 := by
        intro h0
        rw [hF, h0] at hFT; simp at hFT; linarith
      have h1 := hLB hne
      rw [e36] at h1
      rw [hF] at hFT
      have : 2 / 10 ^ 36 ≤ |Real.log (X n c e)| / Real.log 10 := by
        rw [le_div_iff₀ l10b]; nlinarith
      linarith
    exact to_ulps (ρ := 1 / 10 ^ 59) (α := 2 / 10 ^ 72) (Tmin := 2 / 10 ^ 36) hT hN.1 (by norm_num) (by norm_num)
      hTmin (by norm_num) (by norm_num) hb

end

/-! ### Log1p -/

theorem trueValue_log1p_k (n : Bool) (c : Nat) (e : Int) (tn : Bool) (t : Sci)
    (h12 : ¬ e + (ndigits c : Int) < -12) (h : trueValue .log1p n c e = some (tn, t)) : t.k = 0 := by
  rw [trueValue_log1p_eq] at h
  simp only at h
  rw [if_neg (show ¬ e + (ndigits c : Int) < -40 by omega)] at h
  split at h
  · split at h
    · simp only [Option.some.injEq, Prod.mk.injEq] at h; obtain ⟨-, rfl⟩ := h; rfl
    · exact absurd h (by simp)
  · split at h
    · exact absurd h (by simp)
    · exact signSplit_k h

/-- **Log1p**: an accepted finite non-zero result has the right sign and is within `(1 + 10^-3)` units in the
    last place of `ln(1+x)` -/
theorem log1p_ok_close (n : Bool) (c : Nat) (e : Int) (ne : Bool) (tn : Bool) (t : Sci)
    (rn : Bool) (rc : Nat) (re : Int)
    (hspec : specialCase .log1p (.fin n c e) = none)
    (hexact : (if ne then exactCase .log1p n c e else none) = none)
    (hhuge : hugeArg .log1p c e = false)
    (htv : trueValue .log1p n c e = some (tn, t)) (hc : c < 10 ^ 35)
    (h : judgeElem .log1p (.fin n c e) (.fin rn (rc + 1) re) ne = .ok) :
    (rn = true ↔ realFn .log1p (X n c e) < 0) ∧
    |X rn (rc + 1) re - realFn .log1p (X n c e)| ≤ (1 + 1 / 10 ^ 3) * (10 : ℝ) ^ (eT t) := by
  obtain ⟨hc0, hdom⟩ := specialCase_none hspec
  have hN := trueValue_log1p_narrow n c e tn t hc0 hc htv
  have hA0 : (0 : ℝ) < (c : ℝ) * (10 : ℝ) ^ e := by
    have : (0 : ℝ) < (c : ℝ) := by exact_mod_cast Nat.pos_of_ne_zero hc0
    positivity
  have hXge := abs_X_ge n hc0 e
  rw [abs_X] at hXge
  have hlt1 : n = true → (c : ℝ) * (10 : ℝ) ^ e < 1 := by
    intro hn
    have := hdom rfl hn
    have h' : ((mag c e : ℚ) : ℝ) < ((1 : ℚ) : ℝ) := by exact_mod_cast this
    rw [mag_cast] at h'; simpa using h'
  by_cases h12 : e + (ndigits c : Int) < -12
  · rw [if_pos h12] at hN
    obtain ⟨hs, T, hTpos, hT, -, hb⟩ :=
      ok_close_narrow .log1p n c e ne tn t rn rc re _ _ hspec hexact hhuge htv hc hN (by norm_num) h
    refine ⟨hs, ?_⟩
    push_cast at hb
    exact to_ulps (ρ := 3 / 10 ^ 39) (α := 0) (Tmin := T) hT hN.1 (by norm_num) (le_refl _) (le_refl _) hTpos
      (by simp; norm_num) (by linarith)
  · have hk := trueValue_log1p_k n c e tn t h12 htv
    rw [if_neg h12] at hN
    by_cases he : e > 40
    · rw [if_pos he] at hN
      obtain ⟨hs, T, hTpos, hT, hFT, hb⟩ :=
        ok_close_narrow .log1p n c e ne tn t rn rc re _ _ hspec hexact hhuge htv hc hN (by norm_num) h
      refine ⟨hs, ?_⟩
      rw [hk, zpow_zero, mul_one] at hb
      push_cast at hb
      have hnd1 := ndigits_pos c
      have hA : (10 : ℝ) ≤ (c : ℝ) * (10 : ℝ) ^ e := by
        have h2 : (10 : ℝ) ^ (1 : Int) ≤ (10 : ℝ) ^ (e + (ndigits c : Int) - 1) :=
          zpow_le_zpow_right₀ (by norm_num) (by omega)
        have e1 : (10 : ℝ) ^ (1 : Int) = 10 := by norm_num
        rw [e1] at h2
        exact le_trans h2 hXge
      have hn : n = false := by
        cases n
        · rfl
        · have := hlt1 rfl; linarith
      subst hn
      have hX : X false c e = (c : ℝ) * (10 : ℝ) ^ e := by rw [X_eq]; simp
      have hTmin : 9 / 10 ≤ T := by
        rw [← hFT]
        show 9 / 10 ≤ |Real.log (1 + X false c e)|
        rw [hX]
        have hp : (0 : ℝ) < 1 + (c : ℝ) * (10 : ℝ) ^ e := by linarith
        have h1 := Real.one_sub_inv_le_log_of_pos hp
        have h3 : (1 + (c : ℝ) * (10 : ℝ) ^ e)⁻¹ ≤ 1 / 11 := by
          rw [inv_eq_one_div]; exact one_div_le_one_div_of_le (by norm_num) (by linarith)
        rw [abs_of_nonneg (by linarith)]
        linarith
      exact to_ulps (ρ := 3 / 10 ^ 39) (α := 2 / 10 ^ 38) (Tmin := 9 / 10) hT hN.1 (by norm_num) (by norm_num)
        hTmin (by norm_num) (by norm_num) hb
    · rw [if_neg he] at hN
      obtain ⟨hs, T, hTpos, hT, hFT, hb⟩ :=
        ok_close_narrow .log1p n c e ne tn t rn rc re _ _ hspec hexact hhuge htv hc hN (by norm_num) h
      refine ⟨hs, ?_⟩
      rw [hk, zpow_zero, mul_one] at hb
      push_cast at hb
      have hA : (1 : ℝ) / 10 ^ 13 ≤ (c : ℝ) * (10 : ℝ) ^ e := by
        have h2 : (10 : ℝ) ^ (-13 : Int) ≤ (10 : ℝ) ^ (e + (ndigits c : Int) - 1) :=
          zpow_le_zpow_right₀ (by norm_num) (by omega)
        have e1 : (10 : ℝ) ^ (-13 : Int) = 1 / 10 ^ 13 := by norm_num
        rw [e1] at h2
        exact le_trans h2 hXge
      have hTmin : 5 / 10 ^ 14 ≤ T := by
        rw [← hFT]
        show 5 / 10 ^ 14 ≤ |Real.log (1 + X n c e)|
        cases n
        · have hX : X false c e = (c : ℝ) * (10 : ℝ) ^ e := by rw [X_eq]; simp
          rw [hX]
          set A := (c : ℝ) * (10 : ℝ) ^ e with hAd
          have hp : (0 : ℝ) < 1 + A := by linarith
          have h1 := Real.one_sub_inv_le_log_of_pos hp
          have h2 : 1 - (1 + A)⁻¹ = A / (1 + A) := by field_simp; ring
          rw [h2] at h1
          rw [abs_of_nonneg (le_trans (by positivity) h1)]
          by_cases hA1 : A ≤ 1
          · have : A / 2 ≤ A / (1 + A) := div_le_div_of_nonneg_left hA0.le hp (by linarith)
            linarith
          · have : (1 / 2 : ℝ) ≤ A / (1 + A) := by
              rw [le_div_iff₀ hp]; linarith
            linarith
        · have hX : X true c e = -((c : ℝ) * (10 : ℝ) ^ e) := by rw [X_eq]; simp
          rw [hX]
          set A := (c : ℝ) * (10 : ℝ) ^ e with hAd
          have hA1 := hlt1 rfl
          have hp : (0 : ℝ) < 1 + -A := by linarith
          have h1 := Real.log_le_sub_one_of_pos hp
          rw [abs_of_nonpos (by linarith)]
          linarith
      exact to_ulps (ρ := 3 / 10 ^ 39) (α := 3 / 10 ^ 72) (Tmin := 5 / 10 ^ 14) hT hN.1 (by norm_num) (by norm_num)
        hTmin (by norm_num) (by norm_num) hb

end EnclPf
